/-
C01  Save/load round trip preserves the whole document.
Only property theorems and non-vacuity examples live here; every `theorem` of this file is an
obligation counted by ./check C01.  Helper lemmas: Lemmas/Schema.lean.  Model: Model/Schema.lean.
Generated from the current source on every run: Gen/Schemas.lean (attribute schema of every registered
entity class, traced export order / subclass structure / loader calls per DXF version).
-/
import EzdxfVerif.Lemmas.Schema
import EzdxfVerif.Lemmas.Payload
import EzdxfVerif.Lemmas.Envelope
import EzdxfVerif.Lemmas.DocReload
import EzdxfVerif.Lemmas.DocNames
import EzdxfVerif.Props.C03
import EzdxfVerif.Gen.Schemas
import EzdxfVerif.Gen.PayloadTables

namespace EzdxfVerif.Props.C01
open EzdxfVerif.Schema

/-! ## 1. DXF attributes: export → load for every schema that meets the decidable `wfPlan` -/

/-- After export and reload the namespace holds, for every exported attribute, exactly the value of
    the tag that was written (2D points come back with z = 0.0), and nothing if no tag was written. -/
theorem attr_reload_value (tbl : List (Int × Name)) (S : Schema) (p : Plan) (hwf : wfPlan tbl S p = true)
    (force : Bool) (ns : NS) (rv : Nat → Nat → Val) (subs : List (List LTag))
    (hexp : exportEntity S p force ns rv = some subs)
    (n : Name) (a : Attr) (hn : n ∈ expNames S p) (ha : S.find n = some a) :
    (loadEntity tbl p subs).get n = (written p.ver force a (ns.get n)).map loadCast := by
  rw [loadEntity_get tbl S p hwf force ns rv subs hexp n hn]
  simp [Wn, ha, expected]

/-- every name in `expNames` is declared, is not a callback, its version gate is open, and `attrOK` -/
private theorem expNames_facts {tbl : List (Int × Name)} {S : Schema} {p : Plan} (hwf : wfPlan tbl S p = true)
    {n : Name} (hn : n ∈ expNames S p) :
    ∃ a, S.find n = some a ∧ a.name = n ∧ a.minVer ≤ p.ver ∧ a.xtype ≠ .callback ∧ attrOK a = true := by
  obtain ⟨_, _, _, _, _, hnames, _, _⟩ := wfPlan_unfold hwf
  unfold expNames at hn
  obtain ⟨hmem, hf⟩ := List.mem_filter.mp hn
  cases ha : S.find n with
  | none => simp [ha] at hf
  | some a =>
    simp only [ha, Bool.and_eq_true, decide_eq_true_eq, bne_iff_ne, ne_eq] at hf
    have hok := (List.all_eq_true.mp hnames) n hmem
    simp only [ha] at hok
    exact ⟨a, rfl, Schema.find_name ha, hf.2, hf.1, hok⟩

private theorem default_ok {a : Attr} (h : attrOK a = true) : ∀ d, a.default = some d → valOK a d = true := by
  intro d hd
  unfold attrOK at h
  simp only [Bool.and_eq_true, hd] at h
  exact h.2

/-- **attr_roundtrip**: for every schema, export order, subclass structure and loader sequence with
    `wfPlan`, every namespace whose stored values inhabit the class of their group code, and every
    exported attribute whose `dxfversion` is not newer than the file version: `get_default` after
    reload equals `get_default` before, up to the sign of floating point zeros (`simO`; a suppressed
    optional value `-0.0` with default `0.0` is observed as the default). -/
theorem attr_roundtrip (tbl : List (Int × Name)) (S : Schema) (p : Plan) (hwf : wfPlan tbl S p = true)
    (force : Bool) (ns : NS) (rv : Nat → Nat → Val) (subs : List (List LTag))
    (hexp : exportEntity S p force ns rv = some subs)
    (hns : ∀ a ∈ S, ∀ v, ns.get a.name = some v → valOK a v = true)
    (n : Name) (a : Attr) (hn : n ∈ expNames S p) (ha : S.find n = some a) :
    simO (observe a (loadEntity tbl p subs)) (observe a ns) := by
  obtain ⟨a', ha', hname, hver, _, hok⟩ := expNames_facts hwf hn
  rw [ha] at ha'; cases ha'
  have hmem : a ∈ S := List.mem_of_find?_eq_some ha
  unfold observe
  rw [hname, attr_reload_value tbl S p hwf force ns rv subs hexp n a hn ha]
  exact observe_cycle p.ver force a (ns.get n) hver
    (fun v hv => hns a hmem v (by rw [hname]; exact hv)) (default_ok hok)

/-- sharper form: a stored value that is not suppressed as "equal to the default" and is not an
    explicit 2D point comes back bit for bit -/
theorem attr_roundtrip_exact (tbl : List (Int × Name)) (S : Schema) (p : Plan) (hwf : wfPlan tbl S p = true)
    (force : Bool) (ns : NS) (rv : Nat → Nat → Val) (subs : List (List LTag))
    (hexp : exportEntity S p force ns rv = some subs)
    (n : Name) (a : Attr) (hn : n ∈ expNames S p) (ha : S.find n = some a)
    (v : Val) (hv : ns.get n = some v) (hcls : inClass a.code v = true)
    (h2d : a.xtype ≠ .point2d) (hsup : suppressed force a v = false) :
    (loadEntity tbl p subs).get n = some v := by
  obtain ⟨a', ha', _, hver, _, _⟩ := expNames_facts hwf hn
  rw [ha] at ha'; cases ha'
  rw [attr_reload_value tbl S p hwf force ns rv subs hexp n a hn ha, hv]
  have hnv : ¬ p.ver < a.minVer := by omega
  have hx : (a.xtype == XType.point2d) = false := by simpa using h2d
  simp [written, exportValue, hsup, hnv, hx, loadCast_of_inClass hcls]

/-- **attr_lost_iff**: an exported attribute is absent after reload iff nothing could be written
    (no stored value and no forced default) or it is optional and equal to its default.  (The third
    cause, `dxfversion` newer than the file version, is excluded by `n ∈ expNames`: see
    `attr_lost_version`.) -/
theorem attr_lost_iff (tbl : List (Int × Name)) (S : Schema) (p : Plan) (hwf : wfPlan tbl S p = true)
    (force : Bool) (ns : NS) (rv : Nat → Nat → Val) (subs : List (List LTag))
    (hexp : exportEntity S p force ns rv = some subs)
    (n : Name) (a : Attr) (hn : n ∈ expNames S p) (ha : S.find n = some a) :
    (loadEntity tbl p subs).get n = none ↔
      ((ns.get n = none ∧ (a.optional = true ∨ a.default = none)) ∨
       (∃ v, exportValue a (ns.get n) = some v ∧ suppressed force a v = true)) := by
  obtain ⟨a', ha', _, hver, _, _⟩ := expNames_facts hwf hn
  rw [ha] at ha'; cases ha'
  have hnv : ¬ p.ver < a.minVer := by omega
  rw [attr_reload_value tbl S p hwf force ns rv subs hexp n a hn ha]
  simp only [Option.map_eq_none_iff]
  unfold written
  cases hev : exportValue a (ns.get n) with
  | none =>
    simp only [true_iff]
    left
    unfold exportValue at hev
    cases hs : ns.get n with
    | some v => simp [hs] at hev
    | none =>
      simp only [hs] at hev
      refine ⟨rfl, ?_⟩
      by_cases ho : a.optional = true
      · exact Or.inl ho
      · right; simpa [ho] using hev
  | some v =>
    by_cases hs : suppressed force a v = true
    · simp only [hs, if_true, true_iff]
      exact Or.inr ⟨v, rfl, hs⟩
    · simp only [hs, hnv, if_false, Bool.false_eq_true]
      constructor
      · intro h; exact absurd h (by simp)
      · rintro (⟨hn', ho⟩ | ⟨w, hw, hsw⟩)
        · exfalso
          unfold exportValue at hev
          simp only [hn'] at hev
          rcases ho with ho | ho
          · simp [ho] at hev
          · by_cases hopt : a.optional = true
            · simp [hopt] at hev
            · simp [hopt, ho] at hev
        · simp only [Option.some.injEq] at hw; subst hw; exact absurd hsw hs

/-- the version clause of the permitted loss: an attribute whose `dxfversion` is newer than the file
    version writes no tag at all, whatever the namespace holds -/
theorem attr_lost_version (ver : Nat) (force : Bool) (a : Attr) (stored : Option Val) (h : ver < a.minVer) :
    exportAttr ver force a stored = [] := by
  simp [exportAttr, written_none_of_lt h]

/-- **attr_second_cycle** (per attribute): exporting the reloaded namespace writes the same tag again -/
theorem attr_second_cycle (tbl : List (Int × Name)) (S : Schema) (p : Plan) (hwf : wfPlan tbl S p = true)
    (force : Bool) (ns : NS) (rv : Nat → Nat → Val) (subs : List (List LTag))
    (hexp : exportEntity S p force ns rv = some subs)
    (hns : ∀ a ∈ S, ∀ v, ns.get a.name = some v → valOK a v = true)
    (n : Name) (a : Attr) (hn : n ∈ expNames S p) (ha : S.find n = some a) :
    exportAttr p.ver force a ((loadEntity tbl p subs).get n) = exportAttr p.ver force a (ns.get n) := by
  obtain ⟨a', ha', hname, _, _, hok⟩ := expNames_facts hwf hn
  rw [ha] at ha'; cases ha'
  have hmem : a ∈ S := List.mem_of_find?_eq_some ha
  rw [attr_reload_value tbl S p hwf force ns rv subs hexp n a hn ha]
  unfold exportAttr
  have := written_cycle p.ver force a (ns.get n)
    (fun v hv => hns a hmem v (by rw [hname]; exact hv)) (default_ok hok)
  unfold expected at this
  rw [this]

/-! ### the whole entity in the second cycle (plans without callback attributes) -/

private theorem concSeg_congr {ver : Nat} {force : Bool} {ns1 ns2 : NS} {rv : Nat → Val} :
    ∀ (ss : List STag),
      (∀ s ∈ ss, ∀ a, s.src = .attr a →
        written ver force a (ns1.get a.name) = written ver force a (ns2.get a.name)) →
      concSeg ver force ns1 rv ss = concSeg ver force ns2 rv ss := by
  intro ss
  induction ss with
  | nil => intro _; rfl
  | cons s rest ih =>
    intro h
    rw [concSeg_cons, concSeg_cons, ih (fun t ht => h t (List.mem_cons_of_mem _ ht))]
    have : conc ver force ns1 rv s = conc ver force ns2 rv s := by
      unfold conc
      cases hs : s.src with
      | marker n => rfl
      | raw => rfl
      | attr a => simp only; rw [h s (List.mem_cons_self ..) a hs]
    rw [this]

private theorem concSegs_congr {ver : Nat} {force : Bool} {ns1 ns2 : NS} {rv : Nat → Nat → Val} :
    ∀ (sss : List (List STag)) (k : Nat),
      (∀ ss ∈ sss, ∀ s ∈ ss, ∀ a, s.src = .attr a →
        written ver force a (ns1.get a.name) = written ver force a (ns2.get a.name)) →
      concSegs ver force ns1 rv k sss = concSegs ver force ns2 rv k sss := by
  intro sss
  induction sss with
  | nil => intro _ _; rfl
  | cons ss rest ih =>
    intro k h
    simp only [concSegs]
    rw [concSeg_congr ss (h ss (List.mem_cons_self ..)), ih (k + 1) (fun t ht => h t (List.mem_cons_of_mem _ ht))]

/-- names of the attribute tags of symbolic segments are plan names -/
private theorem symEvs_names (S : Schema) : ∀ (evs : List Ev) (i : Nat) (ss : List STag),
    symEvs S i evs = some ss → ∀ s ∈ ss, ∀ a, s.src = .attr a → a.name ∈ attrNamesOf evs := by
  intro evs
  induction evs with
  | nil => intro i ss h s hs; simp [symEvs] at h; subst h; simp at hs
  | cons e rest ih =>
    intro i ss h s hs a hsa
    cases e with
    | attr n =>
      simp only [symEvs] at h
      cases hf : S.find n with
      | none => simp [hf] at h
      | some a' =>
        simp only [hf] at h
        cases hr : symEvs S (i + 1) rest with
        | none => simp [hr] at h
        | some r =>
          simp only [hr, Option.map_some, Option.some.injEq] at h
          subst h
          rcases List.mem_cons.mp hs with rfl | hs
          · simp only [Src.attr.injEq] at hsa; subst hsa
            simp [attrNamesOf, Schema.find_name hf]
          · exact List.mem_cons_of_mem _ (ih (i + 1) r hr s hs a hsa)
    | raw c =>
      simp only [symEvs] at h
      cases hr : symEvs S (i + 1) rest with
      | none => simp [hr] at h
      | some r =>
        simp only [hr, Option.map_some, Option.some.injEq] at h
        subst h
        rcases List.mem_cons.mp hs with rfl | hs
        · simp at hsa
        · simpa [attrNamesOf] using ih (i + 1) r hr s hs a hsa

private theorem symSegs_names (S : Schema) : ∀ (segs : List Seg) (sss : List (List STag)),
    symSegs S segs = some sss → ∀ ss ∈ sss, ∀ s ∈ ss, ∀ a, s.src = .attr a →
      a.name ∈ segs.flatMap (fun g => attrNamesOf g.evs) := by
  intro segs
  induction segs with
  | nil => intro sss h ss hss; simp [symSegs] at h; subst h; simp at hss
  | cons seg rest ih =>
    intro sss h ss hss s hs a hsa
    simp only [symSegs] at h
    cases h1 : symSeg S seg with
    | none => simp [h1] at h
    | some x =>
      cases h2 : symSegs S rest with
      | none => simp [h1, h2] at h
      | some y =>
        simp only [h1, h2, Option.some.injEq] at h
        subst h
        simp only [List.flatMap_cons, List.mem_append]
        rcases List.mem_cons.mp hss with rfl | hss
        · left
          unfold symSeg at h1
          cases hr : symEvs S 1 seg.evs with
          | none => simp [hr] at h1
          | some r =>
            simp only [hr] at h1
            cases hm : seg.marker with
            | none =>
              simp only [hm, Option.some.injEq] at h1; subst h1
              exact symEvs_names S seg.evs 1 _ hr s hs a hsa
            | some mk =>
              simp only [hm, Option.some.injEq] at h1; subst h1
              rcases List.mem_cons.mp hs with rfl | hs
              · simp at hsa
              · exact symEvs_names S seg.evs 1 r hr s hs a hsa
        · right; exact ih y h2 ss hss s hs a hsa

/-- the plan hands no callback attribute to `export_dxf_attribs` -/
def noCallbacks (S : Schema) (p : Plan) : Bool :=
  (planNames p).all (fun n => match S.find n with | some a => a.xtype != .callback | none => false)

/-- **entity_second_cycle**: `export (load (export ns)) = export ns` for the whole entity (same payload) -/
theorem entity_second_cycle (tbl : List (Int × Name)) (S : Schema) (p : Plan) (hwf : wfPlan tbl S p = true)
    (hcb : noCallbacks S p = true)
    (force : Bool) (ns : NS) (rv : Nat → Nat → Val) (subs : List (List LTag))
    (hexp : exportEntity S p force ns rv = some subs)
    (hns : ∀ a ∈ S, ∀ v, ns.get a.name = some v → valOK a v = true) :
    exportEntity S p force (loadEntity tbl p subs) rv = some subs := by
  obtain ⟨sss, _, h1, _, _, _, _, _⟩ := wfPlan_unfold hwf
  have hws := symSegs_WS h1
  rw [← hexp]
  simp only [exportEntity, h1, Option.map_some, Option.some.injEq]
  apply concSegs_congr
  intro ss hss s hs a hsa
  have hfa := ((hws ss hss) s hs).1 a hsa
  have hpn : a.name ∈ planNames p := symSegs_names S p.segs sss h1 ss hss s hs a hsa
  by_cases hv : a.minVer ≤ p.ver
  · have hn : a.name ∈ expNames S p := by
      unfold expNames
      refine List.mem_filter.mpr ⟨hpn, ?_⟩
      have hcb' := (List.all_eq_true.mp hcb) a.name hpn
      simp only [hfa.1] at hcb' ⊢
      simp [hcb', hv]
    have := attr_second_cycle tbl S p hwf force ns rv subs hexp hns a.name a hn hfa.1
    unfold exportAttr at this
    cases h1' : written p.ver force a ((loadEntity tbl p subs).get a.name) <;>
      cases h2' : written p.ver force a (ns.get a.name) <;> simp [h1', h2'] at this ⊢
    exact this
  · have hlt : p.ver < a.minVer := by omega
    rw [written_none_of_lt hlt, written_none_of_lt hlt]

/-! ## the flat tag stream of an exported entity splits back into the subclass lists -/

private theorem splitSubs_ne_nil (ts : List LTag) : splitSubs ts ≠ [] := by
  cases ts with
  | nil => simp [splitSubs]
  | cons t rest =>
    simp only [splitSubs]
    cases splitSubs rest with
    | nil => simp
    | cons cur more => by_cases h : (t.tag.code == 100) = true <;> simp [h]

private theorem splitSubs_prefix (ts more : List LTag) (h : ∀ t ∈ ts, t.tag.code ≠ 100) :
    splitSubs (ts ++ more) = (ts ++ (splitSubs more).headD []) :: (splitSubs more).tail := by
  induction ts with
  | nil =>
    cases hs : splitSubs more with
    | nil => exact absurd hs (splitSubs_ne_nil more)
    | cons a b => simp [hs]
  | cons t rest ih =>
    have ih' := ih (fun u hu => h u (List.mem_cons_of_mem _ hu))
    have ht : (t.tag.code == 100) = false := by simpa using h t (List.mem_cons_self ..)
    simp only [List.cons_append, splitSubs, ih', ht, Bool.false_eq_true, if_false]

private theorem splitSubs_markers (rest : List (List LTag))
    (h : ∀ r ∈ rest, ∃ m tl, r = m :: tl ∧ m.tag.code = 100 ∧ ∀ t ∈ tl, t.tag.code ≠ 100) :
    splitSubs rest.flatten = [] :: rest := by
  induction rest with
  | nil => simp [splitSubs]
  | cons r rest' ih =>
    obtain ⟨m, tl, rfl, hm, htl⟩ := h _ (List.mem_cons_self ..)
    have ih' := ih (fun x hx => h x (List.mem_cons_of_mem _ hx))
    have hm' : (m.tag.code == 100) = true := by simpa using hm
    simp only [List.flatten_cons, List.cons_append, splitSubs]
    rw [splitSubs_prefix tl rest'.flatten htl, ih']
    simp [hm']

/-- every tag of a written subclass carries the code of its symbolic tag -/
private theorem concSeg_codes {S : Schema} {ver : Nat} {force : Bool} {ns : NS} {rv : Nat → Val}
    {ss : List STag} (hws : WS S ss) (hc : ∀ s ∈ ss, s.code ≠ 100) :
    ∀ lt ∈ concSeg ver force ns rv ss, lt.tag.code ≠ 100 := by
  intro lt hlt
  obtain ⟨s, hs, hcode⟩ := concSeg_mem_code hws lt hlt
  rw [hcode]; exact hc s hs

private theorem symEvs_codes (S : Schema) : ∀ (evs : List Ev) (i : Nat) (ss : List STag),
    symEvs S i evs = some ss →
    (∀ n ∈ attrNamesOf evs, ∀ a, S.find n = some a → a.code ≠ 100) →
    (∀ e ∈ evs, ∀ c, e = .raw c → c ≠ 100) →
    ∀ s ∈ ss, s.code ≠ 100 := by
  intro evs
  induction evs with
  | nil => intro i ss h _ _ s hs; simp [symEvs] at h; subst h; simp at hs
  | cons e rest ih =>
    intro i ss h ha hr s hs
    cases e with
    | attr n =>
      simp only [symEvs] at h
      cases hf : S.find n with
      | none => simp [hf] at h
      | some a =>
        simp only [hf] at h
        cases hrr : symEvs S (i + 1) rest with
        | none => simp [hrr] at h
        | some r =>
          simp only [hrr, Option.map_some, Option.some.injEq] at h
          subst h
          rcases List.mem_cons.mp hs with rfl | hs
          · exact ha n (by simp [attrNamesOf]) a hf
          · exact ih (i + 1) r hrr (fun m hm => ha m (by simp [attrNamesOf, hm]))
              (fun e he => hr e (List.mem_cons_of_mem _ he)) s hs
    | raw c =>
      simp only [symEvs] at h
      cases hrr : symEvs S (i + 1) rest with
      | none => simp [hrr] at h
      | some r =>
        simp only [hrr, Option.map_some, Option.some.injEq] at h
        subst h
        rcases List.mem_cons.mp hs with rfl | hs
        · exact hr (.raw c) (List.mem_cons_self ..) c rfl
        · exact ih (i + 1) r hrr (fun m hm => ha m (by simpa [attrNamesOf] using hm))
            (fun e he => hr e (List.mem_cons_of_mem _ he)) s hs

/-- shape of the written subclasses of a well-formed plan: the first has no marker tag, every later one
    starts with its marker and holds no other tag with code 100 -/
private theorem concSegs_shape (S : Schema) (ver : Nat) (force : Bool) (ns : NS) (rv : Nat → Nat → Val) :
    ∀ (segs : List Seg) (sss : List (List STag)) (k : Nat),
      symSegs S segs = some sss →
      (∀ g ∈ segs, g.marker.isSome = true) →
      (∀ g ∈ segs, ∀ n ∈ attrNamesOf g.evs, ∀ a, S.find n = some a → a.code ≠ 100) →
      (∀ g ∈ segs, ∀ e ∈ g.evs, ∀ c, e = .raw c → c ≠ 100) →
      ∀ r ∈ concSegs ver force ns rv k sss,
        ∃ m tl, r = m :: tl ∧ m.tag.code = 100 ∧ ∀ t ∈ tl, t.tag.code ≠ 100 := by
  intro segs
  induction segs with
  | nil => intro sss k h _ _ _ r hr; simp [symSegs] at h; subst h; simp [concSegs] at hr
  | cons g rest ih =>
    intro sss k h hm ha hraw r hr
    simp only [symSegs] at h
    cases h1 : symSeg S g with
    | none => simp [h1] at h
    | some x =>
      cases h2 : symSegs S rest with
      | none => simp [h1, h2] at h
      | some y =>
        simp only [h1, h2, Option.some.injEq] at h
        subst h
        simp only [concSegs, List.mem_cons] at hr
        rcases hr with rfl | hr
        · have hmk := hm g (List.mem_cons_self ..)
          have hws := symSeg_WS h1
          unfold symSeg at h1
          cases he : symEvs S 1 g.evs with
          | none => simp [he] at h1
          | some ev =>
            simp only [he] at h1
            cases hmm : g.marker with
            | none => simp [hmm] at hmk
            | some mk =>
              simp only [hmm, Option.some.injEq] at h1
              subst h1
              have hcodes := symEvs_codes S g.evs 1 ev he (ha g (List.mem_cons_self ..))
                (hraw g (List.mem_cons_self ..))
              refine ⟨⟨0, ⟨100, .str [mk]⟩⟩, concSeg ver force ns (rv k) ev, ?_, rfl, ?_⟩
              · rw [concSeg_cons]; simp [conc]
              · exact concSeg_codes (S := S) (fun s hs => hws s (List.mem_cons_of_mem _ hs)) hcodes
        · exact ih y (k + 1) h2 (fun q hq => hm q (List.mem_cons_of_mem _ hq))
            (fun q hq => ha q (List.mem_cons_of_mem _ hq)) (fun q hq => hraw q (List.mem_cons_of_mem _ hq)) r hr

/-- **split_export**: the subclass lists the loaders work on are exactly what `ExtendedTags` makes of the
    flat tag stream that `export_entity` writes (base class first, a new subclass at every (100, …) tag) -/
theorem split_export (tbl : List (Int × Name)) (S : Schema) (p : Plan) (hwf : wfPlan tbl S p = true)
    (force : Bool) (ns : NS) (rv : Nat → Nat → Val) (subs : List (List LTag))
    (hexp : exportEntity S p force ns rv = some subs) :
    splitSubs subs.flatten = subs := by
  obtain ⟨sss, _, h1, _, _, hnames, hraws, hshape⟩ := wfPlan_unfold hwf
  simp only [exportEntity, h1, Option.map_some, Option.some.injEq] at hexp
  subst hexp
  -- attribute and payload tags never carry the marker code
  have hattr : ∀ g ∈ p.segs, ∀ n ∈ attrNamesOf g.evs, ∀ a, S.find n = some a → a.code ≠ 100 := by
    intro g hg n hn a ha
    have hmem : n ∈ planNames p := by
      unfold planNames; exact List.mem_flatMap.mpr ⟨g, hg, hn⟩
    have hok := (List.all_eq_true.mp hnames) n hmem
    simp only [ha] at hok
    unfold attrOK at hok
    simp only [Bool.and_eq_true, Bool.not_eq_true', Bool.or_eq_false_iff] at hok
    have := hok.1.1.2.2
    simpa using this
  have hraw : ∀ g ∈ p.segs, ∀ e ∈ g.evs, ∀ c, e = .raw c → c ≠ 100 := by
    intro g hg e he c hc
    unfold rawsOK at hraws
    have := (List.all_eq_true.mp ((List.all_eq_true.mp hraws) g hg)) e he
    subst hc
    simpa using this
  unfold shapeOK at hshape
  cases hsegs : p.segs with
  | nil => simp [hsegs] at hshape
  | cons g0 rest =>
    simp only [hsegs, Bool.and_eq_true, List.all_eq_true] at hshape
    obtain ⟨hg0, hrest⟩ := hshape
    rw [hsegs] at h1
    simp only [symSegs] at h1
    cases hs0 : symSeg S g0 with
    | none => simp [hs0] at h1
    | some x =>
      cases hsr : symSegs S rest with
      | none => simp [hs0, hsr] at h1
      | some y =>
        simp only [hs0, hsr, Option.some.injEq] at h1
        subst h1
        have hws0 := symSeg_WS hs0
        -- the base class holds no marker
        have hbase : ∀ t ∈ concSeg p.ver force ns (rv 0) x, t.tag.code ≠ 100 := by
          unfold symSeg at hs0
          cases he : symEvs S 1 g0.evs with
          | none => simp [he] at hs0
          | some ev =>
            simp only [he] at hs0
            cases hmm : g0.marker with
            | some mk => simp [hmm] at hg0
            | none =>
              simp only [hmm, Option.some.injEq] at hs0
              subst hs0
              exact concSeg_codes (S := S) hws0
                (symEvs_codes S g0.evs 1 _ he (hattr g0 (by rw [hsegs]; exact List.mem_cons_self ..))
                  (hraw g0 (by rw [hsegs]; exact List.mem_cons_self ..)))
        have hmarks := concSegs_shape S p.ver force ns rv rest y 1 hsr hrest
          (fun g hg => hattr g (by rw [hsegs]; exact List.mem_cons_of_mem _ hg))
          (fun g hg => hraw g (by rw [hsegs]; exact List.mem_cons_of_mem _ hg))
        simp only [concSegs, List.flatten_cons]
        rw [splitSubs_prefix _ _ hbase, splitSubs_markers _ hmarks]
        simp

/-! ### the WF clause about shared group codes is necessary (hand-written witness, independent of /repo) -/

/-- two optional attributes 1 and 2 share group code 90 (like MATERIAL `ambient_color_value` /
    `self_illumination`); the mapping lists them in declaration order -/
def demoS : Schema := [⟨1, 90, .none, none, true, 1009⟩, ⟨2, 90, .none, none, true, 1009⟩]
def demoM : Mapping := [(90, .many [⟨1, false⟩, ⟨2, false⟩])]
def demoP : Plan := ⟨1015, [⟨none, [.raw 0]⟩, ⟨some 7, [.attr 1, .attr 2]⟩], [.fast demoM 1 false []]⟩

/-- only attribute 2 is set: after reload its value sits in attribute 1 -/
theorem shared_code_counterexample :
    wfPlan [] demoS demoP = false ∧
    (exportEntity demoS demoP false [(2, .int 5)] (fun _ _ => .int 0)).map
      (fun subs => ((loadEntity [] demoP subs).get 1, (loadEntity [] demoP subs).get 2)) =
      some (some (.int 5), none) := by
  decide +kernel

/-- the same schema is accepted when the first attribute is always written (not optional, with default) -/
def demoS' : Schema := [⟨1, 90, .none, some (.int 0), false, 1009⟩, ⟨2, 90, .none, none, true, 1009⟩]
example : wfPlan [] demoS' demoP = true := by decide +kernel
example : expNames demoS' demoP = [1, 2] := by decide +kernel

/-! ## 2. every registered entity class (Gen/Schemas.lean, regenerated from /repo on every run) -/

/-- dxftype names as interned by the tracer -/
def enc (s : String) : Name := s.toList.foldl (fun a c => a * 256 + c.toNat) 0

/-- (class, file version) pairs for which `wfPlan` genuinely fails on the unchanged tree:
    * MATERIAL: eleven group codes are shared by two or three *optional* attributes of the one
      subclass AcDbMaterial; a set attribute is loaded into the first unset attribute of its list
      (known finding C01/shared-code, reproduced by the oracle).
    The former exceptions ATTRIB/ATTDEF in DXF R12 (group code 71 = `text_generation_flag` was loaded as
    `attribute_type` as well, finding C01-F9) are fixed in the source (`dxf.discard("attribute_type")` for R12) and
    removed: reverting that fix makes `schemas_wf` fail for these two plans. -/
def wfExceptions : List (Name × Nat) :=
  [(enc "MATERIAL", 1015), (enc "MATERIAL", 1018), (enc "MATERIAL", 1021), (enc "MATERIAL", 1024),
   (enc "MATERIAL", 1027), (enc "MATERIAL", 1032)]

def classOK (c : ClassSchema) : Bool :=
  c.plans.all (fun p => wfPlan Gen.Schemas.recoverTable c.attrs p || wfExceptions.contains (c.dxftype, p.ver))

/-- **schemas_wf**: for every registered entity class and every DXF version it is exported for, the
    traced export order / subclass structure / loader calls meet `wfPlan`, the listed pairs excepted. -/
theorem schemas_wf : Gen.Schemas.classes.all classOK = true := by
  decide +kernel

/-- **registered_roundtrip**: `attr_roundtrip` instantiated for every registered class × version:
    "for every registered entity type and every declared DXF attribute of it" that reaches
    `export_dxf_attribs` with an open version gate. -/
theorem registered_roundtrip (c : ClassSchema) (hc : c ∈ Gen.Schemas.classes) (p : Plan) (hp : p ∈ c.plans)
    (hex : (c.dxftype, p.ver) ∉ wfExceptions)
    (force : Bool) (ns : NS) (rv : Nat → Nat → Val) (subs : List (List LTag))
    (hexp : exportEntity c.attrs p force ns rv = some subs)
    (hns : ∀ a ∈ c.attrs, ∀ v, ns.get a.name = some v → valOK a v = true)
    (n : Name) (a : Attr) (hn : n ∈ expNames c.attrs p) (ha : c.attrs.find n = some a) :
    simO (observe a (loadEntity Gen.Schemas.recoverTable p subs)) (observe a ns) ∧
    exportAttr p.ver force a ((loadEntity Gen.Schemas.recoverTable p subs).get n) =
      exportAttr p.ver force a (ns.get n) := by
  have hall := (List.all_eq_true.mp schemas_wf) c hc
  have hpl := (List.all_eq_true.mp hall) p hp
  simp only [Bool.or_eq_true] at hpl
  have hwf : wfPlan Gen.Schemas.recoverTable c.attrs p = true := by
    rcases hpl with h | h
    · exact h
    · exact absurd (List.contains_iff_mem.mp h) hex
  exact ⟨attr_roundtrip _ c.attrs p hwf force ns rv subs hexp hns n a hn ha,
         attr_second_cycle _ c.attrs p hwf force ns rv subs hexp hns n a hn ha⟩

/-! non-vacuity: the hypotheses of `registered_roundtrip` are met by real classes, and the conclusion is
    about non-trivial values (LINE in a DXF R2000 file: layer suppressed?, colour kept, lineweight gated) -/
example : (Gen.Schemas.classes.map (·.dxftype)).contains (enc "LINE") = true := by decide +kernel
example : Gen.Schemas.c_LINE.plans.length ≥ 1 ∧
    Gen.Schemas.c_LINE.plans.all (fun p => wfPlan Gen.Schemas.recoverTable Gen.Schemas.c_LINE.attrs p &&
      decide ((expNames Gen.Schemas.c_LINE.attrs p).length ≥ 4)) = true := by
  decide +kernel
#guard (Gen.Schemas.c_LINE.plans.filter (fun p => p.ver == 1015)).map (fun p =>
    (exportEntity Gen.Schemas.c_LINE.attrs p false
        [(enc "color", .int 3), (enc "layer", .str [48]), (enc "start", .pt 1 2 3), (enc "true_color", .int 255)]
        (fun _ _ => .str [])).map
      (fun subs =>
        let ns := loadEntity Gen.Schemas.recoverTable p subs
        (ns.get (enc "color"), ns.get (enc "layer"), ns.get (enc "start"), ns.get (enc "true_color"), ns.get (enc "end")))) ==
  [some (some (.int 3), some (.str [48]), some (.pt 1 2 3), none, some (.pt 0 0 0))]

/-- (class, attribute) pairs that are exported for an older version but not for a newer one:
    * DIMSTYLE dimblk / dimblk1 / dimblk2: names in DXF R12, `*_handle` attributes from R2000 on
      (`set_handles` / `post_load_hook`), not a loss;
    * BODY, REGION, 3DSOLID, SURFACE and its four subclasses `version`: the modeler format version number
      belongs to the SAT text form that is written below DXF R2013; from R2013 on the data is SAB;
    * DIMENSION defpoint4 / defpoint5 / leader_length: DXF R12 exports the union of all dimension
      types in one flat list, R2000+ exports the subclass of the actual `dimtype` only. -/
def monoExceptions : List (Name × Name) :=
  [(enc "DIMSTYLE", enc "dimblk"), (enc "DIMSTYLE", enc "dimblk1"), (enc "DIMSTYLE", enc "dimblk2"),
   (enc "DIMENSION", enc "defpoint4"), (enc "DIMENSION", enc "defpoint5"), (enc "DIMENSION", enc "leader_length"),
   (enc "BODY", enc "version"), (enc "REGION", enc "version"), (enc "3DSOLID", enc "version"),
   (enc "SURFACE", enc "version"), (enc "EXTRUDEDSURFACE", enc "version"), (enc "LOFTEDSURFACE", enc "version"),
   (enc "REVOLVEDSURFACE", enc "version"), (enc "SWEPTSURFACE", enc "version")]

/-- **export_version_monotone**: an attribute handed to `export_dxf_attribs` for a version `v ≥` its
    `dxfversion` is handed over for every later version too, the listed pairs excepted (none of them is a loss;
    the former exception DIMSTYLE dimpost / dimapost = finding F12 is fixed in /repo, commit 64eac7204). -/
theorem export_version_monotone :
    Gen.Schemas.classes.all (fun c =>
      (monoViolations c).all (fun v => monoExceptions.contains (c.dxftype, v.1))) = true := by
  decide +kernel

/-- (class, attribute) pairs that an earlier version does not export although the attribute's `dxfversion`
    admits it and a later version exports it:
    * MPOLYGON fill_color: explicit `dxfversion > DXF2000` test in MPolygon.export_entity;
    * 3DSOLID history_handle: the AcDb3dSolid subclass is written from DXF R2007 on (explicit test);
    * VIEWPORT (whole class): DXF R12 stores the view data in the MVIEW XDATA instead of group codes. -/
def downExceptions : List (Name × Name) :=
  [(enc "MPOLYGON", enc "fill_color"), (enc "3DSOLID", enc "history_handle")]
def downExceptionClasses : List Name := [enc "VIEWPORT"]

/-- **export_version_downward**: no version between an attribute's `dxfversion` and a version that exports
    it leaves the attribute out, the listed cases excepted.  Together with `export_version_monotone`:
    the set of versions for which a declared attribute reaches `export_dxf_attribs` is exactly the set
    of exported versions `≥ dxfversion`. -/
theorem export_version_downward :
    Gen.Schemas.classes.all (fun c =>
      downExceptionClasses.contains c.dxftype ||
      (downViolations c).all (fun v => downExceptions.contains (c.dxftype, v.1))) = true := by
  decide +kernel

/-- the model's group code classes are the ones `cast_value` showed when probed for every code 0..1071
    (0 str, 1 int, 2 float, 3 Vec3) -/
theorem cast_classes_observed :
    (List.range 1072).map (fun c : Nat => if isPointCode c then 3 else (typeCls c).toNat) =
      Gen.Schemas.obsCast := by
  decide +kernel

/-! ## 3. payload codecs shared by many entities -/

/-- TagList / TagArray / VertexArray: the values written under one group code are read back in order,
    whatever other group codes surround them -/
theorem seq_roundtrip (code : Int) (xs : List Val) (pre post : List Tag)
    (h1 : ∀ t ∈ pre, t.code ≠ code) (h2 : ∀ t ∈ post, t.code ≠ code) :
    loadSeq code (pre ++ exportSeq code xs ++ post) = xs := by
  unfold loadSeq exportSeq
  have f1 : pre.filter (fun t => t.code == code) = [] := by
    apply List.filter_eq_nil_iff.mpr; intro t ht; simpa using h1 t ht
  have f2 : post.filter (fun t => t.code == code) = [] := by
    apply List.filter_eq_nil_iff.mpr; intro t ht; simpa using h2 t ht
  have f3 : (xs.map (fun v => (⟨code, v⟩ : Tag))).filter (fun t => t.code == code) =
      xs.map (fun v => (⟨code, v⟩ : Tag)) := by
    apply List.filter_eq_self.mpr; intro t ht
    obtain ⟨v, _, rfl⟩ := List.mem_map.mp ht; simp
  rw [List.filter_append, List.filter_append, f1, f2, f3]
  simp [List.map_map, Function.comp_def]

/-- two arrays with different group codes written one after the other (e.g. SPLINE knots 40 and
    weights 41) do not disturb each other -/
theorem seq_independent (c1 c2 : Int) (h : c1 ≠ c2) (xs ys : List Val) :
    loadSeq c1 (exportSeq c1 xs ++ exportSeq c2 ys) = xs ∧
    loadSeq c2 (exportSeq c1 xs ++ exportSeq c2 ys) = ys := by
  constructor
  · have := seq_roundtrip c1 xs [] (exportSeq c2 ys) (by simp)
      (by intro t ht; obtain ⟨v, _, rfl⟩ := List.mem_map.mp ht; exact fun e => h e.symm)
    simpa using this
  · have := seq_roundtrip c2 ys (exportSeq c1 xs) []
      (by intro t ht; obtain ⟨v, _, rfl⟩ := List.mem_map.mp ht; exact h) (by simp)
    simpa using this

private theorem lw_fold_append (σ : LWState) (a b : List Tag) :
    (a ++ b).foldl lwStep σ = b.foldl lwStep (a.foldl lwStep σ) := List.foldl_append ..

/-- state after one exported point record -/
private theorem lw_point (σ : LWState) (p : LWPoint) :
    (exportLWPoint p).foldl lwStep σ =
      { done := σ.flush, cur := some (p.x, p.y),
        s := if !isZero p.s || !isZero p.e then some p.s else none,
        e := if !isZero p.s || !isZero p.e then some p.e else none,
        b := if !isZero p.b then some p.b else none, unp := σ.unp } := by
  unfold exportLWPoint
  by_cases h1 : (!isZero p.s || !isZero p.e) = true <;> by_cases h2 : (!isZero p.b) = true <;>
    simp [h1, h2, lwStep, dblOf]

private theorem lw_flush_point (σ : LWState) (p : LWPoint) :
    ((exportLWPoint p).foldl lwStep σ).flush = σ.flush ++ [p.canon] := by
  rw [lw_point]
  unfold LWState.flush LWPoint.canon
  by_cases h1 : (!isZero p.s || !isZero p.e) = true <;> by_cases h2 : (!isZero p.b) = true <;>
    simp [h1, h2]

private theorem lw_unp_point (σ : LWState) (p : LWPoint) :
    ((exportLWPoint p).foldl lwStep σ).unp = σ.unp := by
  rw [lw_point]

private theorem lw_all (ps : List LWPoint) : ∀ σ : LWState,
    ((exportLW ps).foldl lwStep σ).flush = σ.flush ++ ps.map LWPoint.canon ∧
    ((exportLW ps).foldl lwStep σ).unp = σ.unp := by
  induction ps with
  | nil => intro σ; simp [exportLW]
  | cons p rest ih =>
    intro σ
    have : exportLW (p :: rest) = exportLWPoint p ++ exportLW rest := by simp [exportLW]
    rw [this, lw_fold_append]
    obtain ⟨h1, h2⟩ := ih ((exportLWPoint p).foldl lwStep σ)
    rw [h1, h2, lw_flush_point, lw_unp_point]
    simp

/-- **lwpoints_roundtrip**: LWPOLYLINE point records for all bit patterns: x, y and every non-zero
    width / bulge come back exactly; suppressed (zero) widths and bulges are restored as +0.0 -/
theorem lwpoints_roundtrip (ps : List LWPoint) :
    loadLW (exportLW ps) = (ps.map LWPoint.canon, []) := by
  unfold loadLW
  obtain ⟨h1, h2⟩ := lw_all ps ⟨[], none, none, none, none, []⟩
  simp only [h1, h2]
  simp [LWState.flush]

/-- no negative zeros among widths and bulge: the record is reproduced bit for bit -/
theorem lwpoints_exact (p : LWPoint) (h : p.s ≠ 2 ^ 63 ∧ p.e ≠ 2 ^ 63 ∧ p.b ≠ 2 ^ 63) : p.canon = p := by
  obtain ⟨hs, he, hb⟩ := h
  unfold LWPoint.canon
  cases p with
  | mk x y s e b =>
    simp only at hs he hb
    simp only [LWPoint.mk.injEq, true_and]
    refine ⟨?_, ?_, ?_⟩
    · by_cases h1 : (!isZero s || !isZero e) = true
      · simp [h1]
      · simp only [h1, Bool.false_eq_true, if_false]
        simp only [Bool.or_eq_true, Bool.not_eq_true', not_or, Bool.not_eq_false] at h1
        have := h1.1
        simp only [isZero, Bool.or_eq_true, beq_iff_eq] at this
        rcases this with h | h
        · exact h.symm
        · exact absurd h hs
    · by_cases h1 : (!isZero s || !isZero e) = true
      · simp [h1]
      · simp only [h1, Bool.false_eq_true, if_false]
        simp only [Bool.or_eq_true, Bool.not_eq_true', not_or, Bool.not_eq_false] at h1
        have := h1.2
        simp only [isZero, Bool.or_eq_true, beq_iff_eq] at this
        rcases this with h | h
        · exact h.symm
        · exact absurd h he
    · by_cases h1 : (!isZero b) = true
      · simp [h1]
      · simp only [h1, Bool.false_eq_true, if_false]
        simp only [Bool.not_eq_true', Bool.not_eq_false] at h1
        simp only [isZero, Bool.or_eq_true, beq_iff_eq] at h1
        rcases h1 with h | h
        · exact h.symm
        · exact absurd h hb

#guard loadLW (exportLW [⟨1, 2, 0, 0, 5⟩, ⟨3, 4, 2 ^ 63, 7, 0⟩, ⟨5, 6, 0, 2 ^ 63, 2 ^ 63⟩]) =
  ([⟨1, 2, 0, 0, 5⟩, ⟨3, 4, 2 ^ 63, 7, 0⟩, ⟨5, 6, 0, 0, 0⟩], [])

/-! ## 4. long strings: text_to_multi_tags / multi_tags_to_text -/

/-- the `chop()` slices concatenate back -/
theorem chop_concat (size : Nat) (h : 0 < size) (s : List Nat) : (chop size h s).flatten = s := by
  fun_induction chop size h s with
  | case1 => simp
  | case2 s hs ih => simp [ih]

theorem chop_bounds (size : Nat) (h : 0 < size) (s : List Nat) :
    ∀ c ∈ chop size h s, 0 < c.length ∧ c.length ≤ size := by
  fun_induction chop size h s with
  | case1 => simp
  | case2 s hs ih =>
    intro c hc
    rcases List.mem_cons.mp hc with rfl | hc
    · have : 0 < s.length := List.length_pos_iff.mpr hs
      simp only [List.length_take]; omega
    · exact ih c hc

private theorem caretToNl_cons (c : Nat) (l : List Nat) (h : c ≠ 94 ∨ l.head? ≠ some 74) :
    caretToNl (c :: l) = c :: caretToNl l := by
  cases l with
  | nil => simp [caretToNl]
  | cons d r =>
    have : (c == 94 && d == 74) = false := by
      rcases h with h | h
      · have : (c == 94) = false := by simpa using h
        simp [this]
      · have : (d == 74) = false := by simpa using h
        simp [this]
    simp [caretToNl, this]

private theorem nlToCaret_head (l : List Nat) : (nlToCaret l).head? = some 74 ↔ l.head? = some 74 := by
  cases l with
  | nil => simp [nlToCaret]
  | cons d r =>
    by_cases hd : d = 10
    · subst hd; simp [nlToCaret]
    · have : (d == 10) = false := by simpa using hd
      simp [nlToCaret, this]

private theorem caret_nl (s : List Nat) (h : hasCaretJ s = false) : caretToNl (nlToCaret s) = s := by
  induction s with
  | nil => rfl
  | cons c rest ih =>
    have hrest : hasCaretJ rest = false := by
      cases rest with
      | nil => rfl
      | cons d r => simp only [hasCaretJ, Bool.or_eq_false_iff] at h; exact h.2
    by_cases hc : c = 10
    · subst hc
      simp [nlToCaret, caretToNl, ih hrest]
    · have hc' : (c == 10) = false := by simpa using hc
      simp only [nlToCaret, hc', Bool.false_eq_true, if_false]
      rw [caretToNl_cons, ih hrest]
      by_cases h94 : c = 94
      · right
        rw [Ne, nlToCaret_head]
        cases rest with
        | nil => simp
        | cons d r =>
          simp only [hasCaretJ, Bool.or_eq_false_iff, Bool.and_eq_false_iff] at h
          rcases h.1 with h1 | h1
          · simp [h94] at h1
          · simpa using h1
      · exact Or.inl h94

/-- **multi_tags_roundtrip_partial**: full statement `multi_tags_to_text (text_to_multi_tags t) = t`
    is false (see the counterexample below); it holds for every text without a literal "^J". -/
theorem multi_tags_roundtrip_partial (size : Nat) (h : 0 < size) (code : Int) (t : List Nat)
    (hj : hasCaretJ t = false) :
    multiTagsToText (textToMultiTags size h code t) = t := by
  unfold multiTagsToText textToMultiTags
  have : (List.map (fun part => (⟨code, .str part⟩ : Tag)) (chop size h (nlToCaret t))).flatMap
      (fun t => strOf t.val) = (chop size h (nlToCaret t)).flatten := by
    rw [List.flatMap_def, List.map_map]
    congr 1
    simp [Function.comp_def, strOf]
  rw [this, chop_concat, caret_nl t hj]

/-- "a^Jb" comes back as "a\nb" (replayed on the real pair of functions by the oracle) -/
theorem multi_tags_caretJ_counterexample :
    multiTagsToText (textToMultiTags 255 (by decide) 303 [97, 94, 74, 98]) = [97, 10, 98] := by
  decide +kernel

/-! ## 5. linked sub-entities: the linker restores what the writer flattened -/

private theorem linkAll_sub (m : Ent) (hm : ∀ x : Ent, some x.kind = expectedSub m.kind → x.kind ≠ EKind.seqend) :
    ∀ (subs acc : List Ent) (out : List Node) (rest : List Ent),
      (∀ x ∈ subs, some x.kind = expectedSub m.kind) →
      linkAll ⟨out, some (m, acc)⟩ (subs ++ rest) = linkAll ⟨out, some (m, acc ++ subs)⟩ rest := by
  intro subs
  induction subs with
  | nil => intro acc out rest _; simp
  | cons x xs ih =>
    intro acc out rest h
    have hx := h x (List.mem_cons_self ..)
    have hne : (x.kind == EKind.seqend) = false := by simpa using hm x hx
    have hb : (some x.kind == expectedSub m.kind) = true := by rw [hx]; exact beq_self_eq_true _
    simp only [List.cons_append, linkAll, linkStep, hne, hb, Bool.false_eq_true, if_false, if_true]
    rw [ih (acc ++ [x]) out rest (fun y hy => h y (List.mem_cons_of_mem _ hy))]
    simp

private theorem expectedSub_ne_seqend (m : Ent) :
    ∀ x : Ent, some x.kind = expectedSub m.kind → x.kind ≠ EKind.seqend := by
  intro x h
  cases hk : m.kind <;> simp [expectedSub, hk] at h <;> simp [h]

private theorem linkAll_nodes : ∀ (ns : List Node) (out : List Node),
    (∀ n ∈ ns, nodeWF n = true) →
    linkAll ⟨out, none⟩ (ns.flatMap Node.flatten) = .ok ⟨out ++ ns, none⟩ := by
  intro ns
  induction ns with
  | nil => intro out _; simp [linkAll]
  | cons n rest ih =>
    intro out h
    have hn := h n (List.mem_cons_self ..)
    have hrest := fun x hx => h x (List.mem_cons_of_mem _ hx)
    cases n with
    | single e =>
      simp only [nodeWF, Bool.not_eq_true'] at hn
      simp only [List.flatMap_cons, Node.flatten, List.cons_append, List.nil_append, linkAll, linkStep, hn,
        Bool.false_eq_true, if_false]
      rw [ih (out ++ [Node.single e]) hrest]
      simp
    | linked m subs s =>
      simp only [nodeWF, Bool.and_eq_true, beq_iff_eq, List.all_eq_true] at hn
      obtain ⟨⟨hm, hs⟩, hsubs⟩ := hn
      have hsubs' : ∀ x ∈ subs, some x.kind = expectedSub m.kind := fun x hx => by simpa using hsubs x hx
      simp only [List.flatMap_cons, Node.flatten, List.cons_append, linkAll, linkStep, hm, if_true]
      rw [List.append_assoc, linkAll_sub m (expectedSub_ne_seqend m) subs [] out _ hsubs']
      simp only [List.nil_append, List.cons_append, linkAll, linkStep, hs, beq_self_eq_true, if_true]
      rw [ih (out ++ [Node.linked m subs s]) hrest]
      simp
    | unterminated m subs => simp [nodeWF] at hn

/-- **link_flatten**: POLYLINE/VERTEX…/SEQEND and INSERT(attribs_follow)/ATTRIB…/SEQEND sequences written
    one after the other are grouped back into exactly the same main entities with the same sub-entities
    in the same order; stand-alone entities stay stand-alone. -/
theorem link_flatten (ns : List Node) (h : ∀ n ∈ ns, nodeWF n = true) :
    (link (ns.flatMap Node.flatten)).map (fun out => out.flatMap Node.flatten) = .ok (ns.flatMap Node.flatten) ∧
    (∃ out, link (ns.flatMap Node.flatten) = .ok out ∧ out.length = ns.length) := by
  unfold link
  rw [linkAll_nodes ns [] h]
  simp [Except.map]

-- a sub-entity of the wrong type inside a linked sequence is a DXFStructureError
#guard (match link [⟨.polyline, 1⟩, ⟨.attrib, 2⟩] with | .error .dxfStructureError => true | _ => false)
#guard (link [⟨.insert false, 1⟩, ⟨.attrib, 2⟩, ⟨.polyline, 3⟩, ⟨.vertex, 4⟩, ⟨.seqend, 5⟩]).toOption.map List.length
    == some 3

/-! ## 5. geometry payload written by hand-made `export_entity` / `load_dxf_attribs` code (Model/Payload.lean)

Every statement is for ALL payload values and unbounded sizes; `pre` / `post` / `a1` / `a2` stand for the
attribute tags that `export_dxf_attribs` writes around the payload (any tags that do not use the payload's group
codes).  The loaders are the loops of the source; proofs in Lemmas/Payload.lean. -/

open EzdxfVerif.Payload

/-- SPLINE: knots (40), weights (41), control points (10) and fit points (11) come back in order, whatever
    attribute tags surround the count tags 72/73/74; the loader hands exactly the other tags on to
    `fast_load_dxfattribs`, without start/end tangents that are (almost) null vectors -/
theorem spline_payload_roundtrip (a1 a2 : List Tag) (d : Spline)
    (h1 : ∀ t ∈ a1, splineFree t = true) (h2 : ∀ t ∈ a2, splineFree t = true) :
    loadSpline (exportSpline a1 a2 d) = (d, (a1 ++ splineCounts d ++ a2).filter splineKeeps) :=
  spline_roundtrip' a1 a2 d h1 h2

/-- the loop of `load_spline_data` sorts ANY tag list by group code (also files not written by ezdxf) -/
theorem spline_load_by_code (tags : List Tag) :
    loadSpline tags =
      (⟨(tags.filter (·.code == 40)).map (fun t => dblOf t.val), (tags.filter (·.code == 41)).map (fun t => dblOf t.val),
        (tags.filter (·.code == 10)).map (fun t => p3Of t.val), (tags.filter (·.code == 11)).map (fun t => p3Of t.val)⟩,
       tags.filter (fun t => splineFree t && splineKeeps t)) :=
  loadSpline_eq_filters tags

example : splineFree ⟨70, .int 8⟩ = true ∧ splineFree ⟨12, .pt 0 0 0⟩ = true := by decide
#guard loadSpline (exportSpline [⟨100, .str [1]⟩, ⟨70, .int 8⟩] [⟨12, .pt 0 0 0⟩, ⟨13, .pt one 0 0⟩] ⟨[1, 2], [], [(1, 2, 3)], []⟩)
  == (⟨[1, 2], [], [(1, 2, 3)], []⟩, [⟨100, .str [1]⟩, ⟨70, .int 8⟩, tagN 72 2, tagN 73 1, tagN 74 0, ⟨13, .pt one 0 0⟩])

/-- MESH: vertices, the count-prefixed face lists (90 n i1 … in), edges and crease values come back; the four
    blocks are found by their count tags 92/93/94/95 and cut out of the subclass, the attribute tags and the
    override marker (90, 0) stay.  Creases are padded / cut to the edge count by the writer. -/
theorem mesh_payload_roundtrip (f32 : Nat → Nat) (pre post : List Tag) (m : Mesh)
    (hpre : ∀ t ∈ pre, meshFree t = true) (hf : ∀ f ∈ m.faces, f ≠ [])
    (hc : ∀ c ∈ m.creases, f32 c = c) (h0 : f32 0 = 0) :
    loadMesh f32 (pre ++ exportMesh m ++ post) =
      some ({ m with creases := fixCreases (m.edges.length / 2) m.creases }, pre ++ tagN 90 0 :: post) :=
  mesh_roundtrip' f32 pre post m hpre hf hc h0

/-- the face list parser inverts the writer for any number of faces of any (positive) size -/
theorem mesh_faces_roundtrip (fs : List (List Int)) (hf : ∀ f ∈ fs, f ≠ []) :
    createFaceList (fs.flatMap faceTags) = fs ∧ (fs.flatMap faceTags).length = tagCount fs :=
  ⟨createFaceList_faces fs hf, faceTags_length fs⟩

/-- the second cycle: the crease list the loader returns is a fixed point of the writer's adjustment -/
theorem mesh_creases_stable (n : Nat) (cs : List Nat) : fixCreases n (fixCreases n cs) = fixCreases n cs := by
  unfold fixCreases
  by_cases h : cs.length ≤ n
  · have : (cs.take n ++ List.replicate (n - cs.length) 0).length = n := by
      simp [List.length_take]; omega
    rw [List.take_of_length_le (by omega), this]; simp
  · have hl : (cs.take n ++ List.replicate (n - cs.length) 0).length = n := by
      simp [List.length_take]; omega
    rw [List.take_of_length_le (by omega), hl]; simp

#guard loadMesh id ([⟨100, .str [7]⟩, ⟨71, .int 2⟩] ++ exportMesh ⟨[(1, 2, 3)], [[0, 1, 2], [5]], [0, 1], [7, 8, 9]⟩ ++ [])
  == some (⟨[(1, 2, 3)], [[0, 1, 2], [5]], [0, 1], [7]⟩, [⟨100, .str [7]⟩, ⟨71, .int 2⟩, tagN 90 0])
-- a face without vertices cannot be read back (the hypothesis `f ≠ []` is necessary; `face_to_array` rejects it)
#guard createFaceList ([[1, 2], [], [3]].flatMap faceTags) != [[1, 2], [], [3]]
-- a file without one of the count tags is a DXFStructureError
#guard loadMesh id [tagN 92 0, tagN 93 0, tagN 94 0] == none

/-- MTEXT: text of any length, written as chunks (3 … 3 1) by `split_mtext_string(size=250)`, comes back as
    `escape_dxf_line_endings(text)`; tags with other group codes pass through to the attribute loader -/
theorem mtext_content_roundtrip (pre post : List Tag) (text : Str)
    (h1 : ∀ t ∈ pre, mtextFree t = true) (h2 : ∀ t ∈ post, mtextFree t = true) :
    loadMText (pre ++ exportMText text ++ post) = (escapeLE text, pre ++ post) :=
  mtext_roundtrip' pre post text h1 h2

/-- … which is the text itself when it holds no CR / LF, and in any case stable from the first cycle on -/
theorem mtext_content_exact (text : Str) (h : ∀ c ∈ text, c ≠ '\r' ∧ c ≠ '\n') : escapeLE text = text :=
  escapeLE_id text h

theorem mtext_content_second_cycle (text : Str) : escapeLE (escapeLE text) = escapeLE text := escapeLE_idem text

/-- no chunk is longer than 250 characters and none is empty (except the single chunk of an empty text) -/
theorem mtext_chunk_bounds (text : Str) :
    ∀ t ∈ exportMText text, (strOf t.val).length ≤ 250 ∧ (t.code = 1 ∨ t.code = 3) :=
  mtext_chunks_bounded text

#guard (exportMText (List.replicate 249 'a' ++ ['^', 'J'] ++ List.replicate 300 'b')).map (fun t => (t.code, (strOf t.val).length))
  == [(3, 249), (3, 250), (1, 52)]
#guard (loadMText (exportMText ['a', '\n', 'b', '\r'])).1 == ['a', '\\', 'P', 'b']

/-- DICTIONARY: the (3 key, 350|360 handle) pairs come back in order for unique keys (a Python dict), any keys and
    handles including empty strings; the value code is kept unless the dictionary is empty -/
theorem dict_roundtrip (pre post : List Tag) (d : Dict)
    (h1 : ∀ t ∈ pre, dictFree t = true) (h2 : ∀ t ∈ post, dictFree t = true)
    (hc : d.valueCode = 350 ∨ d.valueCode = 360)
    (hk : d.items.Pairwise (fun a b => a.1 ≠ b.1)) :
    loadDict (pre ++ exportDict d ++ post) = ⟨if d.items = [] then 350 else d.valueCode, d.items⟩ :=
  dict_roundtrip' pre post d h1 h2 hc hk

/-- fix C01-F11 (`if dict_key is not None and entry_handle is not None`): an entry with the empty key is kept.
    With the former test `if dict_key and entry_handle` the model (and the real loader) returned
    `⟨350, [([65], [49])]⟩` here: the entry was dropped and its handle given to the next key. -/
theorem dict_empty_key_kept :
    loadDict (exportDict ⟨350, [([], [49]), ([65], [50])]⟩) = ⟨350, [([], [49]), ([65], [50])]⟩ := by decide

#guard loadDict ([⟨280, .int 1⟩] ++ exportDict ⟨360, [([65], [49]), ([66], [50])]⟩ ++ []) == ⟨360, [([65], [49]), ([66], [50])]⟩

/-- HATCH / MPOLYGON: one edge of any of the four types (spline edges with any number of knots, control points,
    weights, fit points) is read back as the writer left it -/
theorem hatch_edge_roundtrip (comp : Nat → Nat) (sub : P2 → P2 → P2) (r2010 : Bool) (e : Edge)
    (h : edgeExportOK e = true) :
    loadEdgeGroup comp (exportEdge comp sub r2010 e) = [canonEdge comp sub e] :=
  edge_roundtrip' comp sub r2010 e h

/-- counter-clockwise arcs and ellipses, line edges, and spline edges without fit points are bit-exact -/
theorem hatch_edge_exact (comp : Nat → Nat) (sub : P2 → P2 → P2) (e : Edge)
    (h : match e with
      | .line .. => True
      | .arc _ _ _ _ ccw => ccw = true
      | .ellipse _ _ _ _ _ ccw => ccw = true
      | .spline _ rat _ _ _ weights fit _ _ => fit = [] ∧ rat = boolInt (weights != [])) :
    canonEdge comp sub e = e := by
  cases e with
  | line s e => rfl
  | arc c r sa ea ccw => simp only at h; subst h; rfl
  | ellipse c maj ratio sa ea ccw => simp only at h; subst h; rfl
  | spline deg rat per knots ctrl weights fit st et =>
    simp only at h; obtain ⟨h1, h2⟩ := h; subst h1; subst h2; rfl

/-- the source boundary object handles (97 n, 330 …) at the end of a path are popped off whatever is in front -/
theorem hatch_source_objects_roundtrip (body : List Tag) (hs : List (List Nat)) :
    popSrc (body ++ exportSrc hs) = (body, hs) :=
  popSrc_export body hs

/-- one boundary path (polyline path with/without bulges, closed flag; edge path) -/
theorem hatch_path_roundtrip (comp : Nat → Nat) (sub : P2 → P2 → P2) (r2010 hatch : Bool) (p : BPath)
    (h : pathOK p = true) :
    loadPath comp (exportPath comp sub r2010 hatch p) = some (canonPath comp sub hatch p) :=
  path_roundtrip' comp sub r2010 hatch p h

/-- the whole entity level: count tag 91, the run of tags with a group code of `PATH_CODES` (regenerated from
    entities/polygon.py on every run: the proof checks that every group code a path writer uses is in it), split into
    paths at the 92 tags; any number of paths; the attribute tags in front and behind stay for `fast_load_dxfattribs` -/
theorem hatch_paths_roundtrip (comp : Nat → Nat) (sub : P2 → P2 → P2) (r2010 hatch : Bool) (old ps : List BPath)
    (pre post : List Tag) (n : Int)
    (hpre : ∀ t ∈ pre, t.code ≠ 91)
    (hpost : ∀ t, post.head? = some t → Gen.PayloadTables.pathCodes.contains t.code = false)
    (h : ∀ p ∈ ps, pathOK p = true) :
    loadHatchPaths Gen.PayloadTables.pathCodes comp old (pre ++ tagI 91 n :: (exportPaths comp sub r2010 hatch ps ++ post)) =
      some (if ps = [] then old else ps.map (canonPath comp sub hatch), pre ++ post) :=
  hatch_paths_roundtrip' _ comp sub r2010 hatch old ps pre post n
    (by
      have : Payload.pathCodes.all (fun c => Gen.PayloadTables.pathCodes.contains c) = true := by decide
      intro c hc
      exact List.all_eq_true.mp this c (by simpa using hc))
    hpre hpost h

/-- what follows the paths in the files ezdxf writes (hatch_style 75 for HATCH, pattern_type 76 for MPOLYGON) ends the
    run of path tags -/
theorem hatch_paths_terminated :
    Gen.PayloadTables.pathCodes.contains 75 = false ∧ Gen.PayloadTables.pathCodes.contains 76 = false := by decide

/-- every tag a path writes carries a group code of `PATH_CODES` (otherwise `load_paths` would stop early) -/
theorem hatch_path_codes_closed (comp : Nat → Nat) (sub : P2 → P2 → P2) (r2010 hatch : Bool) (ps : List BPath) :
    ∀ t ∈ exportPaths comp sub r2010 hatch ps, pathCodes.contains t.code = true :=
  exportPaths_codes comp sub r2010 hatch ps

/-- polyline paths are bit-exact when a bulge is present or all bulges are +0.0 (HATCH keeps the handles) -/
theorem hatch_polyline_exact (comp : Nat → Nat) (sub : P2 → P2 → P2) (flags closed : Int)
    (verts : List (Nat × Nat × Nat)) (src : List (List Nat))
    (h : hasBulge verts = true ∨ ∀ v ∈ verts, v.2.2 = 0) :
    canonPath comp sub true (.poly flags closed verts src) = .poly flags closed verts src := by
  rcases h with h | h
  · simp [canonPath, h]
  · have : verts.map (fun v => (v.1, v.2.1, 0)) = verts := by
      conv => rhs; rw [← List.map_id verts]
      apply List.map_congr_left; intro v hv
      have := h v hv
      obtain ⟨x, y, b⟩ := v; simp only at this; subst this; rfl
    simp [canonPath, this]

/-- the second cycle: what came back from the first save/load is written and read back unchanged, provided the double
    operation `360.0 - x` satisfies c(c(c(c x))) = c(c x) (true for IEEE doubles on [0, 360]: after one round the value
    and its complement are both exact; checked on the real code by the oracle O5) -/
theorem hatch_paths_second_cycle (comp : Nat → Nat) (sub : P2 → P2 → P2) (r2010 hatch : Bool) (ps : List BPath)
    (hcomp : ∀ x, comp (comp (comp (comp x))) = comp (comp x)) (h : ∀ p ∈ ps, pathOK p = true) :
    loadPaths comp (exportPaths comp sub r2010 hatch (ps.map (canonPath comp sub hatch))) =
      some (ps.map (canonPath comp sub hatch)) := by
  have := paths_roundtrip' comp sub r2010 hatch (ps.map (canonPath comp sub hatch))
    (by intro p hp; obtain ⟨q, hq, rfl⟩ := List.mem_map.mp hp; rw [pathOK_canon]; exact h q hq)
  rw [this, List.map_map]
  congr 1
  apply List.map_congr_left
  intro p _
  exact canonPath_idem comp sub hatch hcomp p

/-- HATCH seed points; the loader's `del` removes one tag more than it collected (nothing follows in files
    written by ezdxf: gradient data is cut off before) -/
theorem hatch_seeds_roundtrip (old seeds : List P2) (pre post : List Tag)
    (hpre : ∀ t ∈ pre, t.code ≠ 98)
    (hpost : ∀ t, post.head? = some t → t.code ≠ 98 ∧ t.code ≠ 10 ∧ t.code ≠ 20) :
    loadSeeds old (pre ++ exportSeeds seeds ++ post) = (seeds, pre ++ post.drop 1) :=
  seeds_roundtrip' old seeds pre post hpre hpost

/-- HATCH pattern definition lines with any number of dash items -/
theorem hatch_pattern_roundtrip (ls : List PLine) : loadPattern (exportPattern ls) = ls := pattern_roundtrip' ls

/-- … and at the entity level: count tag 78, the run of `PATTERN_DEFINITION_LINE_CODES` tags (regenerated) -/
theorem hatch_pattern_entity_roundtrip (ls : List PLine) (pre post : List Tag) (n : Int)
    (hpre : ∀ t ∈ pre, t.code ≠ 78)
    (hpost : ∀ t, post.head? = some t → Gen.PayloadTables.patternCodes.contains t.code = false) :
    loadHatchPattern Gen.PayloadTables.patternCodes (pre ++ tagI 78 n :: (exportPattern ls ++ post)) = (some ls, pre ++ post) :=
  hatch_pattern_roundtrip' _ ls pre post n
    (by
      have : plineCodes.all (fun c => Gen.PayloadTables.patternCodes.contains c) = true := by decide
      intro c hc
      exact List.all_eq_true.mp this c (by simpa using hc))
    hpre hpost

/-- **the whole AcDbHatch subclass** as `Hatch.export_entity` writes it and `DXFPolygon.load_dxf_attribs` takes it apart:
    boundary paths, gradient tags, pattern lines and seed points are separated in the order `load_paths`, `load_gradient`,
    `load_pattern`, `load_seeds`, and exactly the four runs of attribute tags remain for `fast_load_dxfattribs` (any
    attribute tags that use none of the structure codes 91, 450, 78, 98; `a2` starts outside PATH_CODES = hatch_style 75,
    `a4` outside the pattern line codes = pixel_size 47; both code sets regenerated from the source).  At least one path
    (with none the loader keeps what the entity had) and a pattern with at least one line (a pattern object without lines
    writes no 78 tag and comes back as "no pattern"). -/
theorem hatch_entity_payload_roundtrip (comp : Nat → Nat) (sub : P2 → P2 → P2) (r2010 : Bool)
    (a1 a2 a3 a4 g : List Tag) (n : Int) (paths : List BPath) (pat : Option (Int × List PLine)) (seeds : List P2)
    (h1 : ∀ t ∈ a1, hatchFree t = true) (h2 : ∀ t ∈ a2, hatchFree t = true) (h3 : ∀ t ∈ a3, hatchFree t = true)
    (h4 : ∀ t ∈ a4, hatchFree t = true)
    (h2h : ∃ t r, a2 = t :: r ∧ Gen.PayloadTables.pathCodes.contains t.code = false)
    (h4h : ∃ t r, a4 = t :: r ∧ Gen.PayloadTables.patternCodes.contains t.code = false)
    (hg : ∀ t, g.head? = some t → t.code = 450)
    (hp : ∀ p ∈ paths, pathOK p = true) (hne : paths ≠ [])
    (hls : ∀ m ls, pat = some (m, ls) → ls ≠ []) :
    loadHatchAll Gen.PayloadTables.pathCodes Gen.PayloadTables.patternCodes comp
        (exportHatchAll comp sub r2010 a1 a2 a3 a4 g n paths pat seeds) =
      some (⟨paths.map (canonPath comp sub true), g, pat.map (·.2), seeds⟩, a1 ++ (a2 ++ (patAttrs a3 pat ++ a4))) :=
  hatch_all_roundtrip' _ _ comp sub r2010 a1 a2 a3 a4 g n paths pat seeds
    (by
      have : Payload.pathCodes.all (fun c => Gen.PayloadTables.pathCodes.contains c) = true := by decide
      intro c hc
      exact List.all_eq_true.mp this c (by simpa using hc))
    (by
      have : plineCodes.all (fun c => Gen.PayloadTables.patternCodes.contains c) = true := by decide
      intro c hc
      exact List.all_eq_true.mp this c (by simpa using hc))
    h1 h2 h3 h4 h2h h4h hg hp hne hls

#guard loadHatchAll Gen.PayloadTables.pathCodes Gen.PayloadTables.patternCodes id
    (exportHatchAll id (fun a _ => a) true [⟨10, .pt 0 0 0⟩, ⟨2, .str [83]⟩] [⟨75, .int 1⟩, ⟨76, .int 1⟩] [⟨52, .dbl 0⟩] [⟨47, .dbl 1⟩]
      [⟨450, .int 1⟩, ⟨451, .int 0⟩] 1 [.poly 3 1 [(1, 2, 0), (3, 4, 0)] [[65]]] (some (1, [⟨5, (1, 2), (3, 4), [7, 8]⟩])) [(9, 9)])
  == some (⟨[.poly 3 1 [(1, 2, 0), (3, 4, 0)] [[65]]], [⟨450, .int 1⟩, ⟨451, .int 0⟩], some [⟨5, (1, 2), (3, 4), [7, 8]⟩], [(9, 9)]⟩,
           [⟨10, .pt 0 0 0⟩, ⟨2, .str [83]⟩, ⟨75, .int 1⟩, ⟨76, .int 1⟩, ⟨52, .dbl 0⟩, ⟨47, .dbl 1⟩])

/-- HATCH gradient data: kind, rotation (degrees in memory, radians in the file: `toRad` / `toDeg` are the double
    functions `math.radians` / `math.degrees`; the rotation comes back as `toDeg (toRad r)`, which is `r` itself for 88 % of
    the doubles in [0, 360) and one ulp off e.g. for 30.0), centered, tint, name, both colors, and both OPTIONAL ACI values in
    every combination (after fix C01-F12; before, the ACI value of the second color was given to the first color when the
    first had none) -/
theorem gradient_roundtrip (toRad toDeg : Nat → Nat) (g : Grad) (hn : 2 ≤ g.ncolors)
    (h1 : rgbMask g.c1 = g.c1) (h2 : rgbMask g.c2 = g.c2) :
    loadGrad toDeg (exportGrad toRad g) = some { g with rot := toDeg (toRad g.rot) } :=
  grad_roundtrip' toRad toDeg g hn h1 h2

-- the combination that failed before the fix: no ACI value for the first color, one for the second
#guard loadGrad id (exportGrad id ⟨1, 7, 0, 0, 0, linearName, 2, none, 255, some 5, 65280⟩)
  == some ⟨1, 7, 0, 0, 0, linearName, 2, none, 255, some 5, 65280⟩
example : rgbMask 16777215 = 16777215 ∧ rgbMask 0 = 0 := by decide

/-- T-ast fingerprint: the group codes of the payload writers and loaders in source order (first argument of every
    `write_tag2` / `write_vertex` call, every constant compared with `code`), extracted from the current source on every
    run.  A changed code, a reordered, added or removed statement in these functions breaks this theorem; the model
    functions of Model/Payload.lean are written against exactly these lists. -/
theorem payload_source_fingerprint :
    Gen.PayloadTables.spline_export_entity = [100, 72, 73, 74] ∧
    Gen.PayloadTables.spline_export_data = [40, 41, 10, 11] ∧
    Gen.PayloadTables.spline_load_data = [10, 11, 40, 41, 12, 13] ∧
    Gen.PayloadTables.mesh_export_data = [92, 10, 95, 140] ∧
    Gen.PayloadTables.mesh_export_override = [90] ∧
    Gen.PayloadTables.mesh_facelist_export = [93, 90, 90] ∧
    Gen.PayloadTables.mesh_edgearray_export = [94, 90] ∧
    Gen.PayloadTables.mesh_load_data = [92, 93, 94, 95] ∧
    Gen.PayloadTables.mtext_export_content = [250, 3, 1] ∧
    Gen.PayloadTables.mtext_load_content = [1, 3] ∧
    Gen.PayloadTables.dict_load = [350, 360, 3] ∧
    (Gen.PayloadTables.dictKeyCode = 3 ∧ Gen.PayloadTables.dictValueCode = 350 ∧ Gen.PayloadTables.dictSearchCodes = [350, 360]) ∧
    Gen.PayloadTables.paths_export = [91] ∧
    Gen.PayloadTables.src_objects_export = [97, 330] ∧
    Gen.PayloadTables.src_objects_pop = [97, 330, 330] ∧
    Gen.PayloadTables.polyline_path_export = [92, 72, 73, 73, 72, 93, 10, 42] ∧
    Gen.PayloadTables.polyline_path_load = [10, 42, 72, 73, 92, 93] ∧
    Gen.PayloadTables.edge_path_export = [92, 93] ∧
    Gen.PayloadTables.line_edge_export = [72, 10, 20, 11, 21] ∧
    Gen.PayloadTables.line_edge_load = [10, 11] ∧
    Gen.PayloadTables.arc_edge_export = [72, 10, 20, 40, 50, 51, 73] ∧
    Gen.PayloadTables.arc_edge_load = [10, 40, 50, 51, 73] ∧
    Gen.PayloadTables.ellipse_edge_export = [72, 10, 20, 11, 21, 40, 50, 51, 73] ∧
    Gen.PayloadTables.ellipse_edge_load = [10, 11, 40, 50, 51, 73] ∧
    Gen.PayloadTables.spline_edge_export = [72, 94, 73, 74, 95, 96, 40, 10, 20, 42, 10, 20, 97, 11, 21, 97, 12, 22, 13, 23] ∧
    Gen.PayloadTables.spline_edge_load = [94, 73, 74, 40, 42, 10, 11, 12, 13] ∧
    Gen.PayloadTables.hatch_load_paths = 91 :: Gen.PayloadTables.pathCodes ∧
    Gen.PayloadTables.hatch_load_pattern = 78 :: Gen.PayloadTables.patternCodes ∧
    Gen.PayloadTables.hatch_load_seeds = [98, 10, 20, 98, 10] ∧
    Gen.PayloadTables.hatch_export_seeds = [98, 10] ∧
    Gen.PayloadTables.pattern_line_export = [53, 43, 44, 45, 46, 79, 49] ∧
    Gen.PayloadTables.pattern_line_load = [49] ∧
    Gen.PayloadTables.pattern_export = [78] ∧
    Gen.PayloadTables.gradient_export = [450, 451, 460, 461, 452, 462, 453, 463, 63, 421, 463, 63, 421, 470] ∧
    Gen.PayloadTables.gradient_load = [450, 460, 461, 452, 462, 470, 453, 63, 421] ∧
    Gen.PayloadTables.mline_vertex_export = [11, 12, 13, 74, 41, 75, 42] ∧
    Gen.PayloadTables.mline_vertex_load = [11, 12, 13, 74, 41, 75, 42] ∧
    Gen.PayloadTables.image_export_boundary = [14] ∧
    Gen.PayloadTables.image_load_boundary = [14] ∧
    Gen.PayloadTables.leader_export_vertices = [76, 10] ∧
    Gen.PayloadTables.leader_load_vertices = [10, 76] ∧
    Gen.PayloadTables.group_export = [340] ∧
    Gen.PayloadTables.group_load = [340] := by
  repeat' apply And.intro
  all_goals decide

example : pathOK (.poly 3 1 [(1, 2, 0)] []) = true ∧ pathOK (.edges 1 [.line (1, 2) (3, 4), .spline 3 0 0 [1] [(1, 1)] [] [] none none] [[49]]) = true := by
  decide
#guard loadHatchPaths Gen.PayloadTables.pathCodes id [] ([⟨70, .int 1⟩] ++ tagI 91 2 :: (exportPaths id (fun a _ => a) true true
    [.poly 3 1 [(1, 2, 5), (3, 4, 0)] [[49, 70]], .edges 1 [.arc (1, 2) 3 4 5 false, .line (1, 2) (3, 4)] []] ++ [⟨75, .int 1⟩]))
  == some ([.poly 3 1 [(1, 2, 5), (3, 4, 0)] [[49, 70]], .edges 1 [.arc (1, 2) 3 4 5 false, .line (1, 2) (3, 4)] []],
           [⟨70, .int 1⟩, ⟨75, .int 1⟩])
-- MPOLYGON does not write the source boundary objects of a polyline path: they are lost by design of the format
#guard loadPath id (exportPath id (fun a _ => a) true false (.poly 2 1 [(1, 2, 0)] [[49]])) == some (.poly 2 1 [(1, 2, 0)] [])

/-- LEADER: the vertices (10) come back in order, the count tag 76 is dropped, the other tags go to the attribute loader -/
theorem leader_vertices_roundtrip (pre post : List Tag) (vs : List P3)
    (h1 : ∀ t ∈ pre, leaderFree t = true) (h2 : ∀ t ∈ post, leaderFree t = true) :
    loadLeader (pre ++ exportLeader vs ++ post) = (vs, pre ++ post) :=
  leader_roundtrip' pre post vs h1 h2

/-- GROUP: the member handles (340) come back in order (members are distinct: the loader keeps them as dict keys) -/
theorem group_handles_roundtrip (pre post : List Tag) (hs : List (List Nat)) (hn : hs.Nodup)
    (h1 : ∀ t ∈ pre, t.code ≠ 340) (h2 : ∀ t ∈ post, t.code ≠ 340) :
    loadGroup (pre ++ exportGroup hs ++ post) = hs :=
  group_roundtrip' pre post hs hn h1 h2

/-- IMAGE / WIPEOUT: the boundary path vertices (14) are popped out of the subclass wherever they stand -/
theorem image_boundary_roundtrip (pre post : List Tag) (path : List P2)
    (h1 : ∀ t ∈ pre, t.code ≠ 14) (h2 : ∀ t ∈ post, t.code ≠ 14) :
    loadImageBoundary (pre ++ exportImageBoundary path ++ post) = (path, pre ++ post) :=
  image_roundtrip' pre post path h1 h2

/-- MLINE: any number of vertices, each with location, direction, miter direction and count-prefixed line / fill
    parameter lists (74 n 41… 75 m 42…) of any lengths, split at the (11, location) tags -/
theorem mline_vertices_roundtrip (pre : List Tag) (vs : List MVertex) (hpre : ∀ t ∈ pre, t.code ≠ 11)
    (h : ∀ v ∈ vs, v.lps.length = v.fps.length) : loadMLine (pre ++ exportMLine vs) = vs :=
  mline_roundtrip' pre vs hpre h

#guard loadMLine ([⟨70, .int 1⟩] ++ exportMLine [⟨(1, 2, 3), (4, 5, 6), (7, 8, 9), [[1, 2], []], [[], [3]]⟩, ⟨(0, 0, 0), (1, 1, 1), (2, 2, 2), [], []⟩])
  == [⟨(1, 2, 3), (4, 5, 6), (7, 8, 9), [[1, 2], []], [[], [3]]⟩, ⟨(0, 0, 0), (1, 1, 1), (2, 2, 2), [], []⟩]
-- `export_dxf` zips line and fill parameters: with different counts the surplus is not written (hypothesis necessary)
#guard loadMLine (exportMLine [⟨(1, 2, 3), (4, 5, 6), (7, 8, 9), [[1], [2]], [[3]]⟩]) == [⟨(1, 2, 3), (4, 5, 6), (7, 8, 9), [[1]], [[3]]⟩]
#guard loadGroup (exportGroup [[65], [66], [65]]) == [[65], [66]]

/-! ### the side conditions of the payload theorems hold for the registered classes

The payload theorems speak about arbitrary attribute tags around the payload that do not use the payload's group codes.
For the classes registered in the current source (Gen/Schemas.lean: declared attributes and the traced export plans of
every DXF version) these side conditions are checked here: no attribute that `export_entity` hands to
`export_dxf_attribs` inside the payload's subclass carries one of the payload's group codes. -/

/-- group codes of the attributes exported inside the subclass with marker `m`, over all traced plans of the class -/
def attrCodesIn (c : ClassSchema) (m : Name) : List Int :=
  c.plans.flatMap (fun p => p.segs.flatMap (fun s =>
    if s.marker == some m then (attrNamesOf s.evs).filterMap (fun n => (c.attrs.find n).map (·.code)) else []))

theorem payload_side_conditions :
    ((attrCodesIn Gen.Schemas.c_SPLINE (enc "AcDbSpline")).all (fun c => splineFree ⟨c, .int 0⟩) = true ∧
      (attrCodesIn Gen.Schemas.c_SPLINE (enc "AcDbSpline")).length > 0) ∧
    ((attrCodesIn Gen.Schemas.c_MESH (enc "AcDbSubDMesh")).all (fun c => meshFree ⟨c, .int 0⟩) = true ∧
      (attrCodesIn Gen.Schemas.c_MESH (enc "AcDbSubDMesh")).length > 0) ∧
    ((attrCodesIn Gen.Schemas.c_MTEXT (enc "AcDbMText")).all (fun c => mtextFree ⟨c, .int 0⟩) = true ∧
      (attrCodesIn Gen.Schemas.c_MTEXT (enc "AcDbMText")).length > 0) ∧
    ((attrCodesIn Gen.Schemas.c_DICTIONARY (enc "AcDbDictionary")).all (fun c => dictFree ⟨c, .int 0⟩) = true ∧
      (attrCodesIn Gen.Schemas.c_DICTIONARY (enc "AcDbDictionary")).length > 0) ∧
    ((attrCodesIn Gen.Schemas.c_LEADER (enc "AcDbLeader")).all (fun c => leaderFree ⟨c, .int 0⟩) = true ∧
      (attrCodesIn Gen.Schemas.c_LEADER (enc "AcDbLeader")).length > 0) ∧
    ((attrCodesIn Gen.Schemas.c_HATCH (enc "AcDbHatch")).all (fun c => c != 91 && c != 98 && c != 78) = true ∧
      (attrCodesIn Gen.Schemas.c_HATCH (enc "AcDbHatch")).contains 75 = true) ∧
    ((attrCodesIn Gen.Schemas.c_MPOLYGON (enc "AcDbMPolygon")).all (fun c => c != 91 && c != 78) = true ∧
      (attrCodesIn Gen.Schemas.c_MPOLYGON (enc "AcDbMPolygon")).contains 76 = true) ∧
    ((attrCodesIn Gen.Schemas.c_IMAGE (enc "AcDbRasterImage")).all (fun c => c != 14) = true ∧
      (attrCodesIn Gen.Schemas.c_IMAGE (enc "AcDbRasterImage")).length > 0) ∧
    ((attrCodesIn Gen.Schemas.c_MLINE (enc "AcDbMline")).all (fun c => c != 11) = true ∧
      (attrCodesIn Gen.Schemas.c_MLINE (enc "AcDbMline")).length > 0) ∧
    ((attrCodesIn Gen.Schemas.c_GROUP (enc "AcDbGroup")).all (fun c => c != 340) = true ∧
      (attrCodesIn Gen.Schemas.c_GROUP (enc "AcDbGroup")).length > 0) ∧
    -- what follows the pattern lines (pixel_size 47) and the seed points ends the respective run
    (Gen.PayloadTables.patternCodes.contains 47 = false ∧ Gen.PayloadTables.patternCodes.contains 98 = false) := by
  decide +kernel

/-- names ↔ handles through a document table (VIEWPORT frozen layers; the file holds 331 handles, the entity layer names):
    with pairwise different handles in the table every name that the table knows (by its key: case-insensitive) comes back
    as the table's spelling of it, in order; names the table does not know are not written -/
theorem names_handles_roundtrip (keyOf : List Nat → List Nat) (tbl : List ResEntry)
    (hd : tbl.Pairwise (fun a b => a.handle ≠ b.handle)) (names : List (List Nat)) :
    handlesToNames tbl (namesToHandles keyOf tbl names) =
      names.filterMap (fun n => (tbl.find? (fun e => e.key == keyOf n)).map (·.name)) :=
  names_handles_roundtrip' keyOf tbl hd names

/-- … and the 331 tags are taken out of the subclass wherever they stand -/
theorem frozen_layers_tags_roundtrip (keyOf : List Nat → List Nat) (tbl : List ResEntry) (pre post : List Tag)
    (names : List (List Nat)) (h1 : ∀ t ∈ pre, t.code ≠ 331) (h2 : ∀ t ∈ post, t.code ≠ 331) :
    loadFrozen (pre ++ exportFrozen keyOf tbl names ++ post) = (namesToHandles keyOf tbl names, pre ++ post) :=
  frozen_roundtrip' keyOf tbl pre post names h1 h2

#guard handlesToNames [⟨[97], [65], [49]⟩, ⟨[98], [66], [50]⟩] (namesToHandles (fun n => n.map (fun c => if 65 ≤ c ∧ c ≤ 90 then c + 32 else c))
    [⟨[97], [65], [49]⟩, ⟨[98], [66], [50]⟩] [[98], [88], [65]]) == [[66], [65]]

/-! ## 6. the entity level envelope: handle, owner, application data, extension dictionary, reactors, XDATA

`Model/Storage.lean` (property C02, imported read-only) models `ExtendedTags._setup`, `DXFEntity.load_tags`
(`setup_app_data`, `XData`), `DXFNamespace.__init__` (handle / owner scan) and `DXFEntity.export_dxf`
(`export_base_class` in the statement order regenerated from the source, subclasses, embedded objects, `export_xdata`).
C02 proves file → memory → file; C01 needs memory → file → memory. -/

/-- **envelope_roundtrip**: an entity that holds a handle, an owner, any number of application data groups (closed, under
    their own key), a live extension dictionary or none, a non-empty reactor set or none, any subclasses (each starting with
    its (100, …) marker), embedded objects and XDATA lists of valid group codes under distinct application ids is written
    and read back to the identical envelope: same type, handle, owner, application data, extension dictionary handle,
    reactors, subclass tags (tag for tag, in order), embedded objects and XDATA -/
theorem envelope_roundtrip (alive : XTags.V → Bool) (e : Storage.Ent) (ok : Envelope.EnvOK alive e) :
    ∃ t, Storage.exportEnt alive e = .ok t ∧ Storage.load t = .ok e :=
  Envelope.envelope_roundtrip' ok

/-- an EMPTY reactor set (every handle discarded, e.g. after the group that registered itself was destroyed) writes no
    {ACAD_REACTORS group and comes back as "no reactors": the two are the same observable state (the oracle's snapshot
    treats an empty Reactors / AppData / XData container as absent) -/
theorem envelope_empty_reactors (alive : XTags.V → Bool) (e : Storage.Ent) (he : e.reactors = some [])
    (ok : Envelope.EnvOK alive { e with reactors := none }) :
    ∃ t, Storage.exportEnt alive e = .ok t ∧ Storage.load t = .ok { e with reactors := none } := by
  obtain ⟨t, h1, h2⟩ := Envelope.envelope_roundtrip' ok
  refine ⟨t, ?_, h2⟩
  rw [← h1]
  cases e with
  | mk typ handle owner appdata xdict reactors subs embedded xdata =>
    simp only at he
    subst he
    rfl

/-- the base class is written in the order handle, application data, extension dictionary, reactors, owner, then the
    subclasses, embedded objects and XDATA (the statement order of `export_dxf` / `export_base_class` extracted from the
    current source into Gen/StorageTables.lean) -/
theorem envelope_export_order (alive : XTags.V → Bool) (e : Storage.Ent) (ok : Envelope.EnvOK alive e)
    (h o : XTags.V) (hh : e.handle = some h) (ho : e.owner = some o) :
    Storage.exportEnt alive e =
      .ok (⟨0, e.typ⟩ :: ((Envelope.itemsOf e h o).flatMap Storage.Item.tags ++ Envelope.restOf e)) :=
  Envelope.export_eq ok h o hh ho

/-- a complete envelope (non-vacuity of `EnvOK` and of the conclusion, checked by evaluation below) -/
def demoEnt : Storage.Ent :=
  { typ := .str [76], handle := some (.str [49, 70]), owner := some (.str [49, 69]),
    appdata := [(.str [123, 77], [⟨102, .str [123, 77]⟩, ⟨40, .str [49]⟩, Storage.closeBrace])],
    xdict := some (.str [50, 65]), reactors := some [.str [65, 65], .str [66, 66]],
    subs := [[⟨100, .str [88]⟩, ⟨10, .str [49]⟩], [⟨100, .str [89]⟩]],
    embedded := [],
    xdata := [(.str [65], [⟨1001, .str [65]⟩, ⟨1000, .str [115]⟩]), (.str [66], [⟨1001, .str [66]⟩, ⟨1070, .str [55]⟩])] }

#guard (match Storage.exportEnt (fun _ => true) demoEnt with
  | .ok t => (match Storage.load t with | .ok e' => e' == demoEnt | .error _ => false)
  | .error _ => false)

example : Envelope.EnvOK (fun _ => true) demoEnt where
  handle := rfl
  owner := rfl
  xdict := fun _ _ => rfl
  reactors := by
    intro rs h
    simp only [demoEnt, Option.some.injEq] at h
    subst h
    refine ⟨by simp, ?_, by decide⟩
    intro v hv
    simp only [List.mem_cons, List.not_mem_nil, or_false] at hv
    rcases hv with rfl | rfl <;> decide
  appdata := by
    intro p hp
    simp only [demoEnt, List.mem_cons, List.not_mem_nil, or_false] at hp
    subst hp
    refine ⟨⟨⟨102, .str [123, 77]⟩, [⟨40, .str [49]⟩], Storage.closeBrace, rfl, by decide, by decide, ?_⟩, by decide, by decide,
      by decide, by decide⟩
    intro t ht
    simp only [List.mem_cons, List.not_mem_nil, or_false] at ht
    subst ht; decide
  appkeys := by simp [demoEnt]
  subs := by
    intro g hg
    simp only [demoEnt, List.mem_cons, List.not_mem_nil, or_false] at hg
    rcases hg with rfl | rfl
    · exact ⟨_, _, rfl, by decide, by intro x hx; simp at hx; subst hx; decide⟩
    · exact ⟨_, _, rfl, by decide, by intro x hx; simp at hx⟩
  embedded := by intro g hg; simp [demoEnt] at hg
  xdata := by
    intro p hp
    simp only [demoEnt, List.mem_cons, List.not_mem_nil, or_false] at hp
    rcases hp with rfl | rfl
    · exact ⟨⟨_, _, rfl, by decide, by intro x hx; simp at hx; subst hx; decide⟩, by decide, by decide⟩
    · exact ⟨⟨_, _, rfl, by decide, by intro x hx; simp at hx; subst hx; decide⟩, by decide, by decide⟩
  xkeys := by simp [demoEnt]

/-- **entity_roundtrip**: attributes AND envelope of one entity.  `S`, `p` are the attribute schema and the traced plan of a
    class (`wfPlan`, kernel-checked for every registered class by `schemas_wf`), `ns` the namespace, `rv` the payload
    values; `env` is the envelope of the same entity, whose subclasses are the exported attribute subclasses `b :: rest`
    without the base class, brought to the storage level by an encoder `enc` (the text form of a tag) with a decoder `dec`.
    Then writing and reading the entity returns the same envelope, the subclass tags decode to the tags that were written,
    and every exported attribute is observed as before (up to the sign of zero, see `attr_roundtrip`). -/
theorem entity_roundtrip (tbl : List (Int × Name)) (S : Schema) (p : Plan) (hwf : wfPlan tbl S p = true)
    (force : Bool) (ns : NS) (rv : Nat → Nat → Val) (b : List LTag) (rest : List (List LTag))
    (hexp : exportEntity S p force ns rv = some (b :: rest))
    (hns : ∀ a ∈ S, ∀ v, ns.get a.name = some v → valOK a v = true)
    (alive : XTags.V → Bool) (env : Storage.Ent) (ok : Envelope.EnvOK alive env)
    (enc : Tag → XTags.Tag) (dec : XTags.Tag → Tag) (hdec : ∀ t, dec (enc t) = t)
    (hsubs : env.subs = rest.map (fun sub => (untag sub).map enc)) :
    ∃ t env', Storage.exportEnt alive env = .ok t ∧ Storage.load t = .ok env' ∧ env' = env ∧
      env'.subs.map (List.map dec) = rest.map untag ∧
      ∀ n a, n ∈ expNames S p → S.find n = some a →
        simO (observe a (loadEntity tbl p (b :: rest))) (observe a ns) := by
  obtain ⟨t, h1, h2⟩ := Envelope.envelope_roundtrip' ok
  refine ⟨t, env, h1, h2, rfl, ?_, ?_⟩
  · rw [hsubs, List.map_map]
    apply List.map_congr_left
    intro sub _
    simp only [Function.comp, List.map_map]
    conv => rhs; rw [← List.map_id (untag sub)]
    apply List.map_congr_left
    intro x _
    simp [hdec]
  · intro n a hn ha
    exact attr_roundtrip tbl S p hwf force ns rv (b :: rest) hexp hns n a hn ha

/-! ## 7. the whole document: order, handles, ownership (skeleton)

`Model/Doc.lean` (properties C04 / C05, imported read-only) is the document state machine: entity records (handle,
owner = BLOCK_RECORD handle, alive, block reference, paperspace flag), the ordered entity space of every layout and
block, block and layout tables; `writeFile` is what `Drawing.write` exports, `reload` is `write()` + `ezdxf.read()`.
C05 proves `spec_reload` (every layout shows what it showed); C01 composes it to the skeleton statement of the
property: same layouts, blocks, order, handles, owners, and a second save writes the same file. -/

open EzdxfVerif.Doc in
/-- **doc_roundtrip_skeleton**: in a reachable state (`OwnerInv`: every listed live entity is owned by the layout that
    lists it; `DbInv`: live entities are in the entity database) `write()` + `read()` succeeds and
    (1) every layout and block lists the same entity handles in the same order,
    (2) the block and layout tables are identical (names, BLOCK_RECORD handles, tab order),
    (3) every live entity that is linked to a layout or block comes back as the identical record: same handle, same
        owner, same block reference, same paperspace flag,
    (4) what a second `write()` exports (BLOCKS and ENTITIES sections handle for handle, the GROUP objects with their member
        handles) is what the first one exported: the second cycle changes nothing but `$HANDSEED`,
    (5) the groups come back as `DXFGroup.preprocess_export` wrote them (invalid members purged, a group spread over several
        layouts cleared) and the tables with the required entries added (`Model/Doc.lean` as extended by the DOC builder:
        linked sub-entities are part of the entity record of (3)) -/
theorem doc_roundtrip_skeleton (s : Doc.State) (seed : Nat) (ho : Doc.OwnerInv s) (hd : Doc.DbInv s)
    (hseed : s.next ≤ seed) :
    (Doc.step s (.reload seed)).2 = .ok ∧
    (∀ k, Doc.content (Doc.step s (.reload seed)).1 k = Doc.content s k) ∧
    ((Doc.step s (.reload seed)).1.blocks = s.blocks ∧ (Doc.step s (.reload seed)).1.layouts = s.layouts) ∧
    (∀ h x, Doc.findEnt s h = some x → x.alive = true → x.owner.isSome = true →
      Doc.findEnt (Doc.step s (.reload seed)).1 h = some x) ∧
    ((Doc.writeFile (Doc.step s (.reload seed)).1).blocks = (Doc.writeFile s).blocks ∧
     (Doc.writeFile (Doc.step s (.reload seed)).1).entities = (Doc.writeFile s).entities ∧
     (Doc.writeFile (Doc.step s (.reload seed)).1).handseed = seed ∧
     (Doc.writeFile (Doc.step s (.reload seed)).1).groups = (Doc.writeFile s).groups) ∧
    ((Doc.step s (.reload seed)).1.groups = s.groups.map (Doc.auditGroup s) ∧
     (Doc.step s (.reload seed)).1.tabs = Doc.addMissing s.tabs Doc.requiredTabs) := by
  have hspec := fun k => Doc.spec_reload s seed ho hd hseed k
  obtain ⟨hok, hE, _⟩ := Doc.reload_state s seed hseed
  have hb : (Doc.step s (.reload seed)).1.blocks = s.blocks := by
    simp only [Doc.step, hseed, decide_true, ↓reduceIte]
  have hl : (Doc.step s (.reload seed)).1.layouts = s.layouts := by
    simp only [Doc.step, hseed, decide_true, ↓reduceIte]
  have hn : (Doc.step s (.reload seed)).1.next = seed := by
    simp only [Doc.step, hseed, decide_true, ↓reduceIte]
  have hlive : ∀ k, Doc.liveContent (Doc.step s (.reload seed)).1 k = Doc.liveContent s k := fun k => (hspec k).2
  have hg : (Doc.step s (.reload seed)).1.groups = s.groups.map (Doc.auditGroup s) := by
    simp only [Doc.step, hseed, decide_true, ↓reduceIte]
  have ht : (Doc.step s (.reload seed)).1.tabs = Doc.addMissing s.tabs Doc.requiredTabs := by
    simp only [Doc.step, hseed, decide_true, ↓reduceIte]
  refine ⟨hok, fun k => (hspec k).2, ⟨hb, hl⟩, ?_, ⟨?_, ?_, ?_, ?_⟩, ⟨hg, ht⟩⟩
  · intro h x hf ha hown
    have hmem : x ∈ s.ents := List.mem_of_find?_eq_some hf
    have hdb := hd x hmem ha
    simp only [Doc.findEnt] at hf ⊢
    rw [hE]
    unfold Doc.reloadEnts
    rw [Doc.find_map_h _ _ (fun y => by split <;> rfl), hf]
    simp [ha, hdb, hown]
  · simp only [Doc.writeFile, Doc.blockBr, hb, hlive]; try rfl
  · simp only [Doc.writeFile, Doc.blockBr, hb, hlive]; try rfl
  · simp only [Doc.writeFile, hn]
  · -- GROUP objects: what the first save wrote (members audited by `preprocess_export`) is what the second save writes
    simp only [Doc.writeFile, hg, List.map_map]
    apply List.map_congr_left
    intro g _
    simp only [Function.comp, Doc.auditGroup_reload_idem s seed hd hseed g]

-- non-vacuity: a document with two entities in the modelspace and one in a block, after an unlink; write + read
#guard
  let s0 : Doc.State :=
    { ents := [], spaces := [(23, []), (27, [])],
      blocks := [(Doc.lower Doc.modelSpaceName, Doc.modelSpaceName, 23), (Doc.lower Doc.paperSpaceName, Doc.paperSpaceName, 27)],
      layouts := [⟨Doc.modelKey, Doc.ofString "Model", 23, 0⟩, ⟨Doc.upper (Doc.ofString "Layout1"), Doc.ofString "Layout1", 27, 1⟩],
      layers := [[48]], next := 47 }
  let s := Doc.run s0 [.add 23 47 48, .add 23 48 49, .add 27 49 50, .unlink 23 47]
  let s' := (Doc.step s (.reload 60)).1
  (Doc.writeFile s').entities == [48, 49] && (Doc.writeFile s').entities == (Doc.writeFile s).entities &&
    Doc.content s' 23 == [48] && (Doc.findEnt s' 48).map (·.owner) == some (some 23) &&
    (Doc.writeFile s').groups == (Doc.writeFile s).groups

/-! ## 8. attributes and payload of any size in one statement

The traced plan of a class lists the payload tags of ONE instance as raw events that the entity's own loader removes before
it calls `fast_load_dxfattribs`.  `stripPlan` removes these events: what remains is what the generic attribute machinery
sees for a payload of ANY size, and the attribute theorems hold for it as well. -/

def strippedOK (c : ClassSchema) : Bool :=
  c.plans.all (fun p => wfPlan Gen.Schemas.recoverTable c.attrs (stripPlan p) || wfExceptions.contains (c.dxftype, p.ver))

/-- **schemas_wf_stripped**: for every registered class × version the plan without the payload tags of the traced instance
    meets `wfPlan` too (same exceptions as `schemas_wf`): the attribute round trip does not depend on the payload tags -/
theorem schemas_wf_stripped : Gen.Schemas.classes.all strippedOK = true := by
  decide +kernel

/-- a class whose subclass number `k` (marker `m`) holds a payload: stripped plan well-formed, and no tag of that
    subclass (attribute tags, raw tags that stay) uses a group code of the payload -/
def payloadPlanOK (c : ClassSchema) (k : Nat) (m : Name) (free : Tag → Bool) (p : Plan) : Bool :=
  wfPlan Gen.Schemas.recoverTable c.attrs (stripPlan p) &&
  ((stripPlan p).segs[k]?.bind (·.marker) == some m) &&
  (match segCodes c.attrs (stripPlan p) k with
   | some cs => cs.all (fun x => free ⟨x, .int 0⟩)
   | none => false)

private theorem concSegs_get (ver : Nat) (force : Bool) (ns : NS) (rv : Nat → Nat → Val) :
    ∀ (sss : List (List STag)) (k i : Nat),
      (concSegs ver force ns rv k sss)[i]? = (sss[i]?).map (concSeg ver force ns (rv (k + i))) := by
  intro sss
  induction sss with
  | nil => intro k i; simp [concSegs]
  | cons ss rest ih =>
    intro k i
    cases i with
    | zero => simp [concSegs]
    | succ j =>
      simp only [concSegs, List.getElem?_cons_succ]
      rw [ih (k + 1) j]
      have hk : k + 1 + j = k + (j + 1) := by omega
      rw [hk]

/-- every tag of the exported subclass `k` carries a group code of the symbolic subclass -/
private theorem seg_tags_free (c : ClassSchema) (k : Nat) (m : Name) (free : Tag → Bool)
    (hfree : ∀ t : Tag, free t = free ⟨t.code, .int 0⟩) (p : Plan) (hok : payloadPlanOK c k m free p = true)
    (force : Bool) (ns : NS) (rv : Nat → Nat → Val) (subs : List (List LTag))
    (hexp : exportEntity c.attrs (stripPlan p) force ns rv = some subs) (sub : List LTag) (hk : subs[k]? = some sub) :
    wfPlan Gen.Schemas.recoverTable c.attrs (stripPlan p) = true ∧ ∀ t ∈ untag sub, free t = true := by
  simp only [payloadPlanOK, Bool.and_eq_true] at hok
  obtain ⟨⟨hwf, _⟩, hcodes⟩ := hok
  refine ⟨hwf, ?_⟩
  unfold exportEntity at hexp
  cases hs : symSegs c.attrs (stripPlan p).segs with
  | none => simp [hs] at hexp
  | some sss =>
    simp only [hs, Option.map_some, Option.some.injEq] at hexp
    subst hexp
    rw [concSegs_get] at hk
    simp only [segCodes, hs] at hcodes
    cases h3 : sss[k]? with
    | none => simp [h3] at hk
    | some ss =>
      simp only [h3, Option.map_some, Option.some.injEq] at hk hcodes
      subst hk
      have hws : WS c.attrs ss := symSegs_WS hs ss (List.mem_of_getElem? h3)
      intro t ht
      obtain ⟨lt, hlt, rfl⟩ := List.mem_map.mp ht
      obtain ⟨st, hst, hc⟩ := concSeg_mem_code hws lt hlt
      have := List.all_eq_true.mp hcodes st.code (List.mem_map_of_mem hst)
      rw [hfree, hc]; exact this

/-- **spline_entity_roundtrip**: a whole SPLINE entity with ANY namespace and a payload of ANY size.  `subs` are the
    subclasses that the attribute machinery writes for the stripped plan (base class, AcDbEntity, AcDbSpline with the count
    tags), the entity writes the spline data behind the AcDbSpline subclass.  Then `load_spline_data` returns the payload and
    hands exactly the attribute tags (minus null tangents) to `fast_load_dxfattribs`, and every exported attribute is observed
    after loading as before (up to the sign of zero). -/
theorem spline_entity_roundtrip (p : Plan) (hp : p ∈ Gen.Schemas.c_SPLINE.plans)
    (force : Bool) (ns : NS) (rv : Nat → Nat → Val) (subs : List (List LTag))
    (hexp : exportEntity Gen.Schemas.c_SPLINE.attrs (stripPlan p) force ns rv = some subs)
    (hns : ∀ a ∈ Gen.Schemas.c_SPLINE.attrs, ∀ v, ns.get a.name = some v → valOK a v = true)
    (sub2 : List LTag) (h2 : subs[2]? = some sub2) (d : Spline) :
    loadSpline (untag sub2 ++ exportSplineData d) = (d, (untag sub2).filter splineKeeps) ∧
    ∀ n a, n ∈ expNames Gen.Schemas.c_SPLINE.attrs (stripPlan p) → Gen.Schemas.c_SPLINE.attrs.find n = some a →
      simO (observe a (loadEntity Gen.Schemas.recoverTable (stripPlan p) subs)) (observe a ns) := by
  have hall : Gen.Schemas.c_SPLINE.plans.all (payloadPlanOK Gen.Schemas.c_SPLINE 2 (enc "AcDbSpline") splineFree) = true := by
    decide +kernel
  obtain ⟨hwf, hfree⟩ := seg_tags_free _ 2 _ splineFree (fun t => by simp [splineFree]) p (List.all_eq_true.mp hall p hp)
    force ns rv subs hexp sub2 h2
  exact ⟨spline_roundtrip_pre _ d hfree, fun n a hn ha => attr_roundtrip _ _ _ hwf force ns rv subs hexp hns n a hn ha⟩

/-- **mesh_entity_roundtrip**: MESH with any namespace and any vertices / faces / edges / creases: the mesh data stands
    somewhere inside the AcDbSubDMesh subclass in front of the override marker (90, 0) -/
theorem mesh_entity_roundtrip (p : Plan) (hp : p ∈ Gen.Schemas.c_MESH.plans)
    (force : Bool) (ns : NS) (rv : Nat → Nat → Val) (subs : List (List LTag))
    (hexp : exportEntity Gen.Schemas.c_MESH.attrs (stripPlan p) force ns rv = some subs)
    (hns : ∀ a ∈ Gen.Schemas.c_MESH.attrs, ∀ v, ns.get a.name = some v → valOK a v = true)
    (sub2 : List LTag) (h2 : subs[2]? = some sub2) (pre post : List Tag) (hsplit : untag sub2 = pre ++ tagN 90 0 :: post)
    (f32 : Nat → Nat) (m : Mesh) (hf : ∀ f ∈ m.faces, f ≠ []) (hc : ∀ x ∈ m.creases, f32 x = x) (h0 : f32 0 = 0) :
    loadMesh f32 (pre ++ exportMesh m ++ post) =
      some ({ m with creases := fixCreases (m.edges.length / 2) m.creases }, untag sub2) ∧
    ∀ n a, n ∈ expNames Gen.Schemas.c_MESH.attrs (stripPlan p) → Gen.Schemas.c_MESH.attrs.find n = some a →
      simO (observe a (loadEntity Gen.Schemas.recoverTable (stripPlan p) subs)) (observe a ns) := by
  have hall : Gen.Schemas.c_MESH.plans.all (payloadPlanOK Gen.Schemas.c_MESH 2 (enc "AcDbSubDMesh") meshFree) = true := by
    decide +kernel
  obtain ⟨hwf, hfree⟩ := seg_tags_free _ 2 _ meshFree (fun t => by simp [meshFree]) p (List.all_eq_true.mp hall p hp)
    force ns rv subs hexp sub2 h2
  refine ⟨?_, fun n a hn ha => attr_roundtrip _ _ _ hwf force ns rv subs hexp hns n a hn ha⟩
  rw [hsplit]
  exact mesh_roundtrip' f32 pre post m (fun t ht => hfree t (by rw [hsplit]; simp [ht])) hf hc h0

/-- **mtext_entity_roundtrip**: MTEXT with any namespace and text of any length; the chunks stand somewhere inside AcDbMText -/
theorem mtext_entity_roundtrip (p : Plan) (hp : p ∈ Gen.Schemas.c_MTEXT.plans)
    (force : Bool) (ns : NS) (rv : Nat → Nat → Val) (subs : List (List LTag))
    (hexp : exportEntity Gen.Schemas.c_MTEXT.attrs (stripPlan p) force ns rv = some subs)
    (hns : ∀ a ∈ Gen.Schemas.c_MTEXT.attrs, ∀ v, ns.get a.name = some v → valOK a v = true)
    (sub2 : List LTag) (h2 : subs[2]? = some sub2) (pre post : List Tag) (hsplit : untag sub2 = pre ++ post) (text : Str) :
    loadMText (pre ++ exportMText text ++ post) = (escapeLE text, untag sub2) ∧
    ∀ n a, n ∈ expNames Gen.Schemas.c_MTEXT.attrs (stripPlan p) → Gen.Schemas.c_MTEXT.attrs.find n = some a →
      simO (observe a (loadEntity Gen.Schemas.recoverTable (stripPlan p) subs)) (observe a ns) := by
  have hall : Gen.Schemas.c_MTEXT.plans.all (payloadPlanOK Gen.Schemas.c_MTEXT 2 (enc "AcDbMText") mtextFree) = true := by
    decide +kernel
  obtain ⟨hwf, hfree⟩ := seg_tags_free _ 2 _ mtextFree (fun t => by simp [mtextFree]) p (List.all_eq_true.mp hall p hp)
    force ns rv subs hexp sub2 h2
  refine ⟨?_, fun n a hn ha => attr_roundtrip _ _ _ hwf force ns rv subs hexp hns n a hn ha⟩
  rw [hsplit]
  exact mtext_roundtrip' pre post text (fun t ht => hfree t (by rw [hsplit]; simp [ht]))
    (fun t ht => hfree t (by rw [hsplit]; simp [ht]))

/-- **leader_entity_roundtrip**: LEADER with any namespace and any number of vertices -/
theorem leader_entity_roundtrip (p : Plan) (hp : p ∈ Gen.Schemas.c_LEADER.plans)
    (force : Bool) (ns : NS) (rv : Nat → Nat → Val) (subs : List (List LTag))
    (hexp : exportEntity Gen.Schemas.c_LEADER.attrs (stripPlan p) force ns rv = some subs)
    (hns : ∀ a ∈ Gen.Schemas.c_LEADER.attrs, ∀ v, ns.get a.name = some v → valOK a v = true)
    (sub2 : List LTag) (h2 : subs[2]? = some sub2) (pre post : List Tag) (hsplit : untag sub2 = pre ++ post) (vs : List P3) :
    loadLeader (pre ++ exportLeader vs ++ post) = (vs, untag sub2) ∧
    ∀ n a, n ∈ expNames Gen.Schemas.c_LEADER.attrs (stripPlan p) → Gen.Schemas.c_LEADER.attrs.find n = some a →
      simO (observe a (loadEntity Gen.Schemas.recoverTable (stripPlan p) subs)) (observe a ns) := by
  have hall : Gen.Schemas.c_LEADER.plans.all (payloadPlanOK Gen.Schemas.c_LEADER 2 (enc "AcDbLeader") leaderFree) = true := by
    decide +kernel
  obtain ⟨hwf, hfree⟩ := seg_tags_free _ 2 _ leaderFree (fun t => by simp [leaderFree]) p (List.all_eq_true.mp hall p hp)
    force ns rv subs hexp sub2 h2
  refine ⟨?_, fun n a hn ha => attr_roundtrip _ _ _ hwf force ns rv subs hexp hns n a hn ha⟩
  rw [hsplit]
  exact leader_roundtrip' pre post vs (fun t ht => hfree t (by rw [hsplit]; simp [ht]))
    (fun t ht => hfree t (by rw [hsplit]; simp [ht]))

/-- **image_entity_roundtrip**: IMAGE with any namespace and a boundary path of any length -/
theorem image_entity_roundtrip (p : Plan) (hp : p ∈ Gen.Schemas.c_IMAGE.plans)
    (force : Bool) (ns : NS) (rv : Nat → Nat → Val) (subs : List (List LTag))
    (hexp : exportEntity Gen.Schemas.c_IMAGE.attrs (stripPlan p) force ns rv = some subs)
    (hns : ∀ a ∈ Gen.Schemas.c_IMAGE.attrs, ∀ v, ns.get a.name = some v → valOK a v = true)
    (sub2 : List LTag) (h2 : subs[2]? = some sub2) (pre post : List Tag) (hsplit : untag sub2 = pre ++ post) (path : List P2) :
    loadImageBoundary (pre ++ exportImageBoundary path ++ post) = (path, untag sub2) ∧
    ∀ n a, n ∈ expNames Gen.Schemas.c_IMAGE.attrs (stripPlan p) → Gen.Schemas.c_IMAGE.attrs.find n = some a →
      simO (observe a (loadEntity Gen.Schemas.recoverTable (stripPlan p) subs)) (observe a ns) := by
  have hall : Gen.Schemas.c_IMAGE.plans.all
      (payloadPlanOK Gen.Schemas.c_IMAGE 2 (enc "AcDbRasterImage") (fun t => !(t.code == 14))) = true := by
    decide +kernel
  obtain ⟨hwf, hfree⟩ := seg_tags_free _ 2 _ (fun t => !(t.code == 14)) (fun t => rfl) p (List.all_eq_true.mp hall p hp)
    force ns rv subs hexp sub2 h2
  refine ⟨?_, fun n a hn ha => attr_roundtrip _ _ _ hwf force ns rv subs hexp hns n a hn ha⟩
  rw [hsplit]
  exact image_roundtrip' pre post path
    (fun t ht => by simpa using hfree t (by rw [hsplit]; simp [ht]))
    (fun t ht => by simpa using hfree t (by rw [hsplit]; simp [ht]))

/-- **hatch_entity_roundtrip**: HATCH with any namespace and any boundary paths (at least one), pattern lines, seed points
    and gradient tags: the four runs of attribute tags `a1 … a4` are the AcDbHatch subclass that the attribute machinery
    writes for the stripped plan; `a2` starts with hatch_style (75), `a4` with pixel_size (47) -/
theorem hatch_entity_roundtrip (p : Plan) (hp : p ∈ Gen.Schemas.c_HATCH.plans)
    (force : Bool) (ns : NS) (rv : Nat → Nat → Val) (subs : List (List LTag))
    (hexp : exportEntity Gen.Schemas.c_HATCH.attrs (stripPlan p) force ns rv = some subs)
    (hns : ∀ a ∈ Gen.Schemas.c_HATCH.attrs, ∀ v, ns.get a.name = some v → valOK a v = true)
    (sub2 : List LTag) (h2 : subs[2]? = some sub2)
    (comp : Nat → Nat) (sub : P2 → P2 → P2) (r2010 : Bool) (a1 a2 a3 a4 g : List Tag) (n : Int)
    (paths : List BPath) (pat : Option (Int × List PLine)) (seeds : List P2)
    (hsplit : untag sub2 = a1 ++ (a2 ++ (patAttrs a3 pat ++ a4))) (h3 : pat = none → a3 = [])
    (h2h : ∃ t r, a2 = t :: r ∧ Gen.PayloadTables.pathCodes.contains t.code = false)
    (h4h : ∃ t r, a4 = t :: r ∧ Gen.PayloadTables.patternCodes.contains t.code = false)
    (hg : ∀ t, g.head? = some t → t.code = 450)
    (hpok : ∀ q ∈ paths, pathOK q = true) (hne : paths ≠ []) (hls : ∀ m ls, pat = some (m, ls) → ls ≠ []) :
    loadHatchAll Gen.PayloadTables.pathCodes Gen.PayloadTables.patternCodes comp
        (exportHatchAll comp sub r2010 a1 a2 a3 a4 g n paths pat seeds) =
      some (⟨paths.map (canonPath comp sub true), g, pat.map (·.2), seeds⟩, untag sub2) ∧
    ∀ m a, m ∈ expNames Gen.Schemas.c_HATCH.attrs (stripPlan p) → Gen.Schemas.c_HATCH.attrs.find m = some a →
      simO (observe a (loadEntity Gen.Schemas.recoverTable (stripPlan p) subs)) (observe a ns) := by
  have hall : Gen.Schemas.c_HATCH.plans.all (payloadPlanOK Gen.Schemas.c_HATCH 2 (enc "AcDbHatch") hatchFree) = true := by
    decide +kernel
  obtain ⟨hwf, hfree⟩ := seg_tags_free _ 2 _ hatchFree (fun t => by simp [hatchFree]) p (List.all_eq_true.mp hall p hp)
    force ns rv subs hexp sub2 h2
  refine ⟨?_, fun m a hm ha => attr_roundtrip _ _ _ hwf force ns rv subs hexp hns m a hm ha⟩
  rw [hsplit] at hfree ⊢
  have f3 : ∀ t ∈ a3, hatchFree t = true := by
    cases pat with
    | none => rw [h3 rfl]; simp
    | some ml => intro t ht; exact hfree t (by simp [patAttrs, ht])
  exact hatch_entity_payload_roundtrip comp sub r2010 a1 a2 a3 a4 g n paths pat seeds
    (fun t ht => hfree t (by simp [ht])) (fun t ht => hfree t (by simp [ht])) f3 (fun t ht => hfree t (by simp [ht]))
    h2h h4h hg hpok hne hls

/-- **mpolygon_entity_roundtrip**: MPOLYGON with any namespace, any polyline boundary paths (at least one) and pattern
    lines: the whole AcDbMPolygon subclass in the order `MPolygon.export_entity` writes it (pattern lines behind
    annotated_boundary / pixel_size, no seed points, gradient tags at the end) is taken apart by the same loader sequence;
    the five runs of attribute tags are the subclass the attribute machinery writes for the stripped plan -/
theorem mpolygon_entity_roundtrip (p : Plan) (hp : p ∈ Gen.Schemas.c_MPOLYGON.plans)
    (force : Bool) (ns : NS) (rv : Nat → Nat → Val) (subs : List (List LTag))
    (hexp : exportEntity Gen.Schemas.c_MPOLYGON.attrs (stripPlan p) force ns rv = some subs)
    (hns : ∀ a ∈ Gen.Schemas.c_MPOLYGON.attrs, ∀ v, ns.get a.name = some v → valOK a v = true)
    (sub2 : List LTag) (h2 : subs[2]? = some sub2)
    (comp : Nat → Nat) (sub : P2 → P2 → P2) (r2010 : Bool) (a1 a2 a3 a4 a5 g : List Tag) (n : Int)
    (paths : List BPath) (pat : Option (Int × List PLine))
    (hsplit : untag sub2 = a1 ++ (a2 ++ (patAttrs a3 pat ++ (a4 ++ a5)))) (h3 : pat = none → a3 = [])
    (h2h : ∃ t r, a2 = t :: r ∧ Gen.PayloadTables.pathCodes.contains t.code = false)
    (h5h : ∀ t, (a5 ++ g).head? = some t → Gen.PayloadTables.patternCodes.contains t.code = false)
    (hg : ∀ t, g.head? = some t → t.code = 450)
    (hpok : ∀ q ∈ paths, pathOK q = true) (hne : paths ≠ []) :
    loadHatchAll Gen.PayloadTables.pathCodes Gen.PayloadTables.patternCodes comp
        (exportMPolygonAll comp sub r2010 a1 a2 a3 a4 a5 g n paths pat) =
      some (⟨paths.map (canonPath comp sub false), g, pat.map (·.2), []⟩, untag sub2) ∧
    ∀ m a, m ∈ expNames Gen.Schemas.c_MPOLYGON.attrs (stripPlan p) → Gen.Schemas.c_MPOLYGON.attrs.find m = some a →
      simO (observe a (loadEntity Gen.Schemas.recoverTable (stripPlan p) subs)) (observe a ns) := by
  have hall : Gen.Schemas.c_MPOLYGON.plans.all (payloadPlanOK Gen.Schemas.c_MPOLYGON 2 (enc "AcDbMPolygon") hatchFree) = true := by
    decide +kernel
  obtain ⟨hwf, hfree⟩ := seg_tags_free _ 2 _ hatchFree (fun t => by simp [hatchFree]) p (List.all_eq_true.mp hall p hp)
    force ns rv subs hexp sub2 h2
  refine ⟨?_, fun m a hm ha => attr_roundtrip _ _ _ hwf force ns rv subs hexp hns m a hm ha⟩
  rw [hsplit] at hfree ⊢
  have f3 : ∀ t ∈ a3, hatchFree t = true := by
    cases pat with
    | none => rw [h3 rfl]; simp
    | some ml => intro t ht; exact hfree t (by simp [patAttrs, ht])
  exact mpolygon_all_roundtrip' _ _ comp sub r2010 a1 a2 a3 a4 a5 g n paths pat
    (by
      have : Payload.pathCodes.all (fun c => Gen.PayloadTables.pathCodes.contains c) = true := by decide
      intro c hc
      exact List.all_eq_true.mp this c (by simpa using hc))
    (by
      have : plineCodes.all (fun c => Gen.PayloadTables.patternCodes.contains c) = true := by decide
      intro c hc
      exact List.all_eq_true.mp this c (by simpa using hc))
    (fun t ht => hfree t (by simp [ht])) (fun t ht => hfree t (by simp [ht])) f3 (fun t ht => hfree t (by simp [ht]))
    (fun t ht => hfree t (by simp [ht])) h2h h5h hg hpok hne

/-! ### DICTIONARY, GROUP, MLINE: the payload loader works on what `fast_load_dxfattribs` leaves over -/

/-- the mappings the plans of a class hand to `fast_load_dxfattribs` for subclass `k` -/
def fastMappings (c : ClassSchema) (k : Nat) : List Mapping :=
  c.plans.flatMap (fun p => p.loads.filterMap (fun st => match st with
    | .fast m sub _ _ => if sub == k then some m else none
    | .simple _ => none))

/-- the payload group codes have no entry in the group code mappings of the registered classes (so the generic loader
    hands the payload tags on as "unprocessed", in order) -/
theorem payload_mappings_unmapped :
    ((fastMappings Gen.Schemas.c_DICTIONARY 1).all (fun m => unmapped m 3 && unmapped m 350 && unmapped m 360) = true ∧
      (fastMappings Gen.Schemas.c_DICTIONARY 1).length > 0) ∧
    ((fastMappings Gen.Schemas.c_GROUP 1).all (fun m => unmapped m 340) = true ∧ (fastMappings Gen.Schemas.c_GROUP 1).length > 0) ∧
    ((fastMappings Gen.Schemas.c_MLINE 2).all (fun m => mlineCodes.all (fun c => unmapped m c)) = true ∧
      (fastMappings Gen.Schemas.c_MLINE 2).length > 0) := by
  decide +kernel

/-- **dict_entity_roundtrip**: for ANY group code mapping without entries for 3 / 350 / 360 and any attribute tags `A` of the
    subclass: the dictionary entries behind them do not change the namespace `fast_load_dxfattribs` builds, and `load_dict`
    recovers them from the unprocessed tags -/
theorem dict_entity_roundtrip (m : Mapping) (A : List Tag) (ns : NS) (d : Dict) (hA : A ≠ [])
    (hm : unmapped m 3 = true ∧ unmapped m 350 = true ∧ unmapped m 360 = true)
    (hfree : ∀ t ∈ A, dictFree t = true) (hc : d.valueCode = 350 ∨ d.valueCode = 360)
    (hk : d.items.Pairwise (fun a b => a.1 ≠ b.1)) :
    (fastLoad m (A ++ exportDict d) ns).1 = (fastLoad m A ns).1 ∧
    loadDict (fastLoad m (A ++ exportDict d) ns).2 = ⟨if d.items = [] then 350 else d.valueCode, d.items⟩ :=
  dict_entity' m A ns d hA hm hfree hc hk

theorem group_entity_roundtrip (m : Mapping) (A : List Tag) (ns : NS) (hs : List (List Nat)) (hA : A ≠ [])
    (hm : unmapped m 340 = true) (hfree : ∀ t ∈ A, t.code ≠ 340) (hn : hs.Nodup) :
    (fastLoad m (A ++ exportGroup hs) ns).1 = (fastLoad m A ns).1 ∧
    loadGroup (fastLoad m (A ++ exportGroup hs) ns).2 = hs :=
  group_entity' m A ns hs hA hm hfree hn

theorem mline_entity_roundtrip (m : Mapping) (A : List Tag) (ns : NS) (vs : List MVertex) (hA : A ≠ [])
    (hm : ∀ c, mlineCodes.contains c = true → unmapped m c = true) (hfree : ∀ t ∈ A, t.code ≠ 11)
    (h : ∀ v ∈ vs, v.lps.length = v.fps.length) :
    (fastLoad m (A ++ exportMLine vs) ns).1 = (fastLoad m A ns).1 ∧
    loadMLine (fastLoad m (A ++ exportMLine vs) ns).2 = vs :=
  mline_entity' m A ns vs hA hm hfree h

#guard (fastLoad [(280, .one ⟨1, false⟩), (281, .one ⟨2, false⟩)]
    ([⟨100, .str [7]⟩, ⟨280, .int 1⟩, ⟨281, .int 1⟩] ++ exportDict ⟨350, [([65], [49]), ([66], [50])]⟩) []).2
  == exportDict ⟨350, [([65], [49]), ([66], [50])]⟩

example : Gen.Schemas.c_SPLINE.plans.length > 0 ∧ Gen.Schemas.c_MESH.plans.length > 0 ∧ Gen.Schemas.c_MTEXT.plans.length > 0 ∧
    Gen.Schemas.c_LEADER.plans.length > 0 := by decide +kernel

/-! ## 9. final round: MTEXT columns, LTYPE pattern, the binary file layer under the envelope -/

/-- MTEXT columns in the embedded object of DXF R2018 (static and dynamic columns, any number of column heights): all
    column data come back; the count of dynamic columns with automatic height is written as 0 and recomputed from the heights
    (or from the widths: `recount`, a double computation, is a parameter); text direction, insert and reference width
    are taken from the embedded object exactly when the MTEXT attribute is not set -/
theorem mtext_columns_roundtrip (recount : Nat → Nat → Nat → Int) (hasDir hasIns hasW : Bool) (dir ins : P3) (w : Nat)
    (c : MCols) :
    loadCols recount hasDir hasIns hasW (exportCols dir ins w c) =
      ⟨canonCols recount c, if hasDir then none else some dir, if hasIns then none else some ins,
       if hasW then none else some w⟩ :=
  cols_roundtrip' recount hasDir hasIns hasW dir ins w c

/-- static columns and dynamic columns with manual height keep their explicit (non-zero) count: bit-exact -/
theorem mtext_columns_exact (recount : Nat → Nat → Nat → Int) (c : MCols) (h1 : c.dynAuto = false) (h2 : c.count ≠ 0) :
    canonCols recount c = c := by
  have hb : (c.count == 0) = false := by simpa using h2
  simp [canonCols, fixCount, h1, hb]

/-- the second cycle: what came back is a fixed point when it has column heights (dynamic columns always have) or an
    explicit count -/
theorem mtext_columns_second_cycle (recount : Nat → Nat → Nat → Int) (c : MCols) (h : c.heights ≠ []) :
    canonCols recount (canonCols recount c) = canonCols recount c := by
  obtain ⟨ctype, count, autoH, revFlow, definedH, width, gutter, totalW, totalH, heights⟩ := c
  simp only at h
  obtain ⟨a, r, rfl⟩ := List.exists_cons_of_ne_nil h
  have hl' : ((r.length : Int) + 1 = 0) = False := by simp only [eq_iff_iff, iff_false]; omega
  cases hd : (ctype == 2 && autoH)
  · by_cases hc : count = 0
    · subst hc
      simp [canonCols, fixCount, MCols.dynAuto, hd, hl']
    · have hcb : (count == 0) = false := by simpa using hc
      simp [canonCols, fixCount, MCols.dynAuto, hd, hcb]
  · simp [canonCols, fixCount, MCols.dynAuto, hd, hl']

#guard (loadCols (fun _ _ _ => 7) true true false (exportCols (1, 0, 0) (5, 6, 7) 9 ⟨2, 3, true, false, 4, 5, 6, 7, 8, [1, 2]⟩)).c
  == ⟨2, 2, true, false, 4, 5, 6, 7, 8, [1, 2]⟩

/-- LTYPE: the pattern tags (49, 74, 75, 340, 46, 50, 44, 45, 9 … of simple and complex line types) are what
    `fast_load_dxfattribs` leaves over; for ANY mapping without entries for their group codes they come back verbatim, in
    order, whatever the attribute tags in front (which are all consumed: `hAu`), and DXF R2000+ writes them back as stored -/
theorem ltype_pattern_roundtrip (m : Mapping) (A P : List Tag) (ns : NS) (hA : A ≠ [])
    (hP : ∀ t ∈ P, unmapped m t.code = true) (hAu : (fastLoad m A ns).2 = []) :
    loadLtype m (A ++ exportLtypePattern P) ns = ((fastLoad m A ns).1, P) :=
  ltype_pattern' m A P ns hA hP hAu

/-- LTYPE in DXF R12 (`export_r12_dxf`): what is written is a fixed point of the writer (a second R12 cycle writes the same
    tags), for ANY stored pattern tags; `sumAbs` (the pattern length of a damaged pattern) is a parameter -/
theorem ltype_r12_second_cycle (sumAbs : List Tag → Nat) (P : List Tag) :
    ltypeR12 sumAbs (ltypeR12 sumAbs P) = ltypeR12 sumAbs P :=
  ltypeR12_idem sumAbs P

/-- … and a simple line type pattern (length, n dash elements each followed by its type tag (74, 0)) is written to R12
    with every dash element in order; the permitted loss are exactly the element type tags -/
theorem ltype_r12_simple_pattern (sumAbs : List Tag → Nat) (n : Int) (L : Nat) (es : List Nat) :
    ltypeR12 sumAbs ([tagI 72 65, tagI 73 n, tagD 40 L] ++ es.flatMap (fun e => [tagD 49 e, tagI 74 0])) =
      [tagI 72 65, tagN 73 es.length, tagD 40 L] ++ es.map (tagD 49) :=
  ltypeR12_simple sumAbs n L es

/-- the LTYPE pattern group codes have no entry in the group code mapping of the registered LTYPE class -/
theorem ltype_mapping_unmapped :
    (fastMappings Gen.Schemas.c_LTYPE 2).all (fun m => [49, 74, 75, 340, 46, 50, 44, 45, 9].all (fun c => unmapped m c)) = true ∧
    (fastMappings Gen.Schemas.c_LTYPE 2).length > 0 := by
  decide +kernel

/-- **entity_bytes_roundtrip**: the envelope theorem on top of C03's concrete binary tag codec instead of an abstract one.
    `bt` is the typed tag list of the exported entity (`fromB` gives the text form the storage model works on); the binary
    writer (`encAll`, both group code widths) produces bytes from which the binary loader (`decAll`) reads the same tags
    (C03 `bin_file_roundtrip_all`), and `DXFEntity.load` of these returns the identical envelope -/
theorem entity_bytes_roundtrip (alive : XTags.V → Bool) (env : Storage.Ent) (ok : Envelope.EnvOK alive env) (r12 : Bool)
    (bt : List Codec.BTag) (fromB : Codec.BTag → XTags.Tag) (hwf : ∀ t ∈ bt, Props.C03.TagOK' t)
    (t : List XTags.Tag) (hexp : Storage.exportEnt alive env = .ok t) (htxt : bt.map fromB = t) :
    ∃ bytes, Codec.encAll r12 bt = .ok bytes ∧
      ∀ fuel, bt.length < fuel → ∃ bt', Codec.decAll r12 fuel bytes = .ok bt' ∧ Storage.load (bt'.map fromB) = .ok env := by
  obtain ⟨bytes, henc, hdec⟩ := Props.C03.bin_file_roundtrip_all r12 bt hwf
  obtain ⟨t', h1, h2⟩ := Envelope.envelope_roundtrip' ok
  rw [hexp] at h1
  cases h1
  exact ⟨bytes, henc, fun fuel hf => ⟨bt, hdec fuel hf, by rw [htxt]; exact h2⟩⟩

/-- T-ast fingerprint of the functions modelled in the final round -/
theorem payload_source_fingerprint_final :
    -- (the 10 / 11 tags are written through `dxftag(10, …)`, which the extractor does not resolve)
    Gen.PayloadTables.mtext_export_embedded = [101, 70, 40, 41, 42, 43, 71, 72, 44, 45, 73, 74, 46] ∧
    Gen.PayloadTables.mtext_load_columns_embedded = [10, 11, 40, 41, 42, 43, 44, 45, 71, 72, 73, 74, 46] ∧
    Gen.PayloadTables.ltype_export_r12 = [49, 72, 73, 40] := by
  repeat' apply And.intro
  all_goals decide

end EzdxfVerif.Props.C01


/-
C01  Save/load round trip preserves the whole document.
Only property theorems and non-vacuity examples live here; every `theorem` of this file is an
obligation counted by ./check C01.  Helper lemmas: Lemmas/Schema.lean.  Model: Model/Schema.lean.
Generated from the current source on every run: Gen/Schemas.lean (attribute schema of every registered
entity class, traced export order / subclass structure / loader calls per DXF version).
-/
import EzdxfVerif.Lemmas.Schema
import EzdxfVerif.Gen.Schemas

namespace EzdxfVerif.Props.C01
open EzdxfVerif.Schema

/-! ## 1. DXF attributes: export → load for every schema that meets the decidable `wfPlan` -/

/-- After export and reload the namespace holds, for every exported attribute, exactly the value of
    the tag that was written (2D points come back with z = 0.0), and nothing if no tag was written. -/
theorem attr_reload_value (tbl : List (Int × Name)) (S : Schema) (p : Plan) (hwf : wfPlan tbl S p = true)
    (force : Bool) (ns : NS) (rv : Nat → Nat → Val) (subs : List (List LTag))
    (hexp : exportEntity S p force ns rv = some subs)
    (n : Name) (a : Attr) (hn : n ∈ expNames S p) (ha : S.find n = some a) :
    (loadEntity tbl p subs).get n = (written p.ver force a (ns.get n)).map loadCast := by
  rw [loadEntity_get tbl S p hwf force ns rv subs hexp n hn]
  simp [Wn, ha, expected]

/-- every name in `expNames` is declared, is not a callback, its version gate is open, and `attrOK` -/
private theorem expNames_facts {tbl : List (Int × Name)} {S : Schema} {p : Plan} (hwf : wfPlan tbl S p = true)
    {n : Name} (hn : n ∈ expNames S p) :
    ∃ a, S.find n = some a ∧ a.name = n ∧ a.minVer ≤ p.ver ∧ a.xtype ≠ .callback ∧ attrOK a = true := by
  obtain ⟨_, _, _, _, _, hnames, _, _⟩ := wfPlan_unfold hwf
  unfold expNames at hn
  obtain ⟨hmem, hf⟩ := List.mem_filter.mp hn
  cases ha : S.find n with
  | none => simp [ha] at hf
  | some a =>
    simp only [ha, Bool.and_eq_true, decide_eq_true_eq, bne_iff_ne, ne_eq] at hf
    have hok := (List.all_eq_true.mp hnames) n hmem
    simp only [ha] at hok
    exact ⟨a, rfl, Schema.find_name ha, hf.2, hf.1, hok⟩

private theorem default_ok {a : Attr} (h : attrOK a = true) : ∀ d, a.default = some d → valOK a d = true := by
  intro d hd
  unfold attrOK at h
  simp only [Bool.and_eq_true, hd] at h
  exact h.2

/-- **attr_roundtrip**: for every schema, export order, subclass structure and loader sequence with
    `wfPlan`, every namespace whose stored values inhabit the class of their group code, and every
    exported attribute whose `dxfversion` is not newer than the file version: `get_default` after
    reload equals `get_default` before, up to the sign of floating point zeros (`simO`; a suppressed
    optional value `-0.0` with default `0.0` is observed as the default). -/
theorem attr_roundtrip (tbl : List (Int × Name)) (S : Schema) (p : Plan) (hwf : wfPlan tbl S p = true)
    (force : Bool) (ns : NS) (rv : Nat → Nat → Val) (subs : List (List LTag))
    (hexp : exportEntity S p force ns rv = some subs)
    (hns : ∀ a ∈ S, ∀ v, ns.get a.name = some v → valOK a v = true)
    (n : Name) (a : Attr) (hn : n ∈ expNames S p) (ha : S.find n = some a) :
    simO (observe a (loadEntity tbl p subs)) (observe a ns) := by
  obtain ⟨a', ha', hname, hver, _, hok⟩ := expNames_facts hwf hn
  rw [ha] at ha'; cases ha'
  have hmem : a ∈ S := List.mem_of_find?_eq_some ha
  unfold observe
  rw [hname, attr_reload_value tbl S p hwf force ns rv subs hexp n a hn ha]
  exact observe_cycle p.ver force a (ns.get n) hver
    (fun v hv => hns a hmem v (by rw [hname]; exact hv)) (default_ok hok)

/-- sharper form: a stored value that is not suppressed as "equal to the default" and is not an
    explicit 2D point comes back bit for bit -/
theorem attr_roundtrip_exact (tbl : List (Int × Name)) (S : Schema) (p : Plan) (hwf : wfPlan tbl S p = true)
    (force : Bool) (ns : NS) (rv : Nat → Nat → Val) (subs : List (List LTag))
    (hexp : exportEntity S p force ns rv = some subs)
    (n : Name) (a : Attr) (hn : n ∈ expNames S p) (ha : S.find n = some a)
    (v : Val) (hv : ns.get n = some v) (hcls : inClass a.code v = true)
    (h2d : a.xtype ≠ .point2d) (hsup : suppressed force a v = false) :
    (loadEntity tbl p subs).get n = some v := by
  obtain ⟨a', ha', _, hver, _, _⟩ := expNames_facts hwf hn
  rw [ha] at ha'; cases ha'
  rw [attr_reload_value tbl S p hwf force ns rv subs hexp n a hn ha, hv]
  have hnv : ¬ p.ver < a.minVer := by omega
  have hx : (a.xtype == XType.point2d) = false := by simpa using h2d
  simp [written, exportValue, hsup, hnv, hx, loadCast_of_inClass hcls]

/-- **attr_lost_iff**: an exported attribute is absent after reload iff nothing could be written
    (no stored value and no forced default) or it is optional and equal to its default.  (The third
    cause, `dxfversion` newer than the file version, is excluded by `n ∈ expNames`: see
    `attr_lost_version`.) -/
theorem attr_lost_iff (tbl : List (Int × Name)) (S : Schema) (p : Plan) (hwf : wfPlan tbl S p = true)
    (force : Bool) (ns : NS) (rv : Nat → Nat → Val) (subs : List (List LTag))
    (hexp : exportEntity S p force ns rv = some subs)
    (n : Name) (a : Attr) (hn : n ∈ expNames S p) (ha : S.find n = some a) :
    (loadEntity tbl p subs).get n = none ↔
      ((ns.get n = none ∧ (a.optional = true ∨ a.default = none)) ∨
       (∃ v, exportValue a (ns.get n) = some v ∧ suppressed force a v = true)) := by
  obtain ⟨a', ha', _, hver, _, _⟩ := expNames_facts hwf hn
  rw [ha] at ha'; cases ha'
  have hnv : ¬ p.ver < a.minVer := by omega
  rw [attr_reload_value tbl S p hwf force ns rv subs hexp n a hn ha]
  simp only [Option.map_eq_none_iff]
  unfold written
  cases hev : exportValue a (ns.get n) with
  | none =>
    simp only [true_iff]
    left
    unfold exportValue at hev
    cases hs : ns.get n with
    | some v => simp [hs] at hev
    | none =>
      simp only [hs] at hev
      refine ⟨rfl, ?_⟩
      by_cases ho : a.optional = true
      · exact Or.inl ho
      · right; simpa [ho] using hev
  | some v =>
    by_cases hs : suppressed force a v = true
    · simp only [hs, if_true, true_iff]
      exact Or.inr ⟨v, rfl, hs⟩
    · simp only [hs, hnv, if_false, Bool.false_eq_true]
      constructor
      · intro h; exact absurd h (by simp)
      · rintro (⟨hn', ho⟩ | ⟨w, hw, hsw⟩)
        · exfalso
          unfold exportValue at hev
          simp only [hn'] at hev
          rcases ho with ho | ho
          · simp [ho] at hev
          · by_cases hopt : a.optional = true
            · simp [hopt] at hev
            · simp [hopt, ho] at hev
        · simp only [Option.some.injEq] at hw; subst hw; exact absurd hsw hs

/-- the version clause of the permitted loss: an attribute whose `dxfversion` is newer than the file
    version writes no tag at all, whatever the namespace holds -/
theorem attr_lost_version (ver : Nat) (force : Bool) (a : Attr) (stored : Option Val) (h : ver < a.minVer) :
    exportAttr ver force a stored = [] := by
  simp [exportAttr, written_none_of_lt h]

/-- **attr_second_cycle** (per attribute): exporting the reloaded namespace writes the same tag again -/
theorem attr_second_cycle (tbl : List (Int × Name)) (S : Schema) (p : Plan) (hwf : wfPlan tbl S p = true)
    (force : Bool) (ns : NS) (rv : Nat → Nat → Val) (subs : List (List LTag))
    (hexp : exportEntity S p force ns rv = some subs)
    (hns : ∀ a ∈ S, ∀ v, ns.get a.name = some v → valOK a v = true)
    (n : Name) (a : Attr) (hn : n ∈ expNames S p) (ha : S.find n = some a) :
    exportAttr p.ver force a ((loadEntity tbl p subs).get n) = exportAttr p.ver force a (ns.get n) := by
  obtain ⟨a', ha', hname, _, _, hok⟩ := expNames_facts hwf hn
  rw [ha] at ha'; cases ha'
  have hmem : a ∈ S := List.mem_of_find?_eq_some ha
  rw [attr_reload_value tbl S p hwf force ns rv subs hexp n a hn ha]
  unfold exportAttr
  have := written_cycle p.ver force a (ns.get n)
    (fun v hv => hns a hmem v (by rw [hname]; exact hv)) (default_ok hok)
  unfold expected at this
  rw [this]

/-! ### the whole entity in the second cycle (plans without callback attributes) -/

private theorem concSeg_congr {ver : Nat} {force : Bool} {ns1 ns2 : NS} {rv : Nat → Val} :
    ∀ (ss : List STag),
      (∀ s ∈ ss, ∀ a, s.src = .attr a →
        written ver force a (ns1.get a.name) = written ver force a (ns2.get a.name)) →
      concSeg ver force ns1 rv ss = concSeg ver force ns2 rv ss := by
  intro ss
  induction ss with
  | nil => intro _; rfl
  | cons s rest ih =>
    intro h
    rw [concSeg_cons, concSeg_cons, ih (fun t ht => h t (List.mem_cons_of_mem _ ht))]
    have : conc ver force ns1 rv s = conc ver force ns2 rv s := by
      unfold conc
      cases hs : s.src with
      | marker n => rfl
      | raw => rfl
      | attr a => simp only; rw [h s (List.mem_cons_self ..) a hs]
    rw [this]

private theorem concSegs_congr {ver : Nat} {force : Bool} {ns1 ns2 : NS} {rv : Nat → Nat → Val} :
    ∀ (sss : List (List STag)) (k : Nat),
      (∀ ss ∈ sss, ∀ s ∈ ss, ∀ a, s.src = .attr a →
        written ver force a (ns1.get a.name) = written ver force a (ns2.get a.name)) →
      concSegs ver force ns1 rv k sss = concSegs ver force ns2 rv k sss := by
  intro sss
  induction sss with
  | nil => intro _ _; rfl
  | cons ss rest ih =>
    intro k h
    simp only [concSegs]
    rw [concSeg_congr ss (h ss (List.mem_cons_self ..)), ih (k + 1) (fun t ht => h t (List.mem_cons_of_mem _ ht))]

/-- names of the attribute tags of symbolic segments are plan names -/
private theorem symEvs_names (S : Schema) : ∀ (evs : List Ev) (i : Nat) (ss : List STag),
    symEvs S i evs = some ss → ∀ s ∈ ss, ∀ a, s.src = .attr a → a.name ∈ attrNamesOf evs := by
  intro evs
  induction evs with
  | nil => intro i ss h s hs; simp [symEvs] at h; subst h; simp at hs
  | cons e rest ih =>
    intro i ss h s hs a hsa
    cases e with
    | attr n =>
      simp only [symEvs] at h
      cases hf : S.find n with
      | none => simp [hf] at h
      | some a' =>
        simp only [hf] at h
        cases hr : symEvs S (i + 1) rest with
        | none => simp [hr] at h
        | some r =>
          simp only [hr, Option.map_some, Option.some.injEq] at h
          subst h
          rcases List.mem_cons.mp hs with rfl | hs
          · simp only [Src.attr.injEq] at hsa; subst hsa
            simp [attrNamesOf, Schema.find_name hf]
          · exact List.mem_cons_of_mem _ (ih (i + 1) r hr s hs a hsa)
    | raw c =>
      simp only [symEvs] at h
      cases hr : symEvs S (i + 1) rest with
      | none => simp [hr] at h
      | some r =>
        simp only [hr, Option.map_some, Option.some.injEq] at h
        subst h
        rcases List.mem_cons.mp hs with rfl | hs
        · simp at hsa
        · simpa [attrNamesOf] using ih (i + 1) r hr s hs a hsa

private theorem symSegs_names (S : Schema) : ∀ (segs : List Seg) (sss : List (List STag)),
    symSegs S segs = some sss → ∀ ss ∈ sss, ∀ s ∈ ss, ∀ a, s.src = .attr a →
      a.name ∈ segs.flatMap (fun g => attrNamesOf g.evs) := by
  intro segs
  induction segs with
  | nil => intro sss h ss hss; simp [symSegs] at h; subst h; simp at hss
  | cons seg rest ih =>
    intro sss h ss hss s hs a hsa
    simp only [symSegs] at h
    cases h1 : symSeg S seg with
    | none => simp [h1] at h
    | some x =>
      cases h2 : symSegs S rest with
      | none => simp [h1, h2] at h
      | some y =>
        simp only [h1, h2, Option.some.injEq] at h
        subst h
        simp only [List.flatMap_cons, List.mem_append]
        rcases List.mem_cons.mp hss with rfl | hss
        · left
          unfold symSeg at h1
          cases hr : symEvs S 1 seg.evs with
          | none => simp [hr] at h1
          | some r =>
            simp only [hr] at h1
            cases hm : seg.marker with
            | none =>
              simp only [hm, Option.some.injEq] at h1; subst h1
              exact symEvs_names S seg.evs 1 _ hr s hs a hsa
            | some mk =>
              simp only [hm, Option.some.injEq] at h1; subst h1
              rcases List.mem_cons.mp hs with rfl | hs
              · simp at hsa
              · exact symEvs_names S seg.evs 1 r hr s hs a hsa
        · right; exact ih y h2 ss hss s hs a hsa

/-- the plan hands no callback attribute to `export_dxf_attribs` -/
def noCallbacks (S : Schema) (p : Plan) : Bool :=
  (planNames p).all (fun n => match S.find n with | some a => a.xtype != .callback | none => false)

/-- **entity_second_cycle**: `export (load (export ns)) = export ns` for the whole entity (same payload) -/
theorem entity_second_cycle (tbl : List (Int × Name)) (S : Schema) (p : Plan) (hwf : wfPlan tbl S p = true)
    (hcb : noCallbacks S p = true)
    (force : Bool) (ns : NS) (rv : Nat → Nat → Val) (subs : List (List LTag))
    (hexp : exportEntity S p force ns rv = some subs)
    (hns : ∀ a ∈ S, ∀ v, ns.get a.name = some v → valOK a v = true) :
    exportEntity S p force (loadEntity tbl p subs) rv = some subs := by
  obtain ⟨sss, _, h1, _, _, _, _, _⟩ := wfPlan_unfold hwf
  have hws := symSegs_WS h1
  rw [← hexp]
  simp only [exportEntity, h1, Option.map_some, Option.some.injEq]
  apply concSegs_congr
  intro ss hss s hs a hsa
  have hfa := ((hws ss hss) s hs).1 a hsa
  have hpn : a.name ∈ planNames p := symSegs_names S p.segs sss h1 ss hss s hs a hsa
  by_cases hv : a.minVer ≤ p.ver
  · have hn : a.name ∈ expNames S p := by
      unfold expNames
      refine List.mem_filter.mpr ⟨hpn, ?_⟩
      have hcb' := (List.all_eq_true.mp hcb) a.name hpn
      simp only [hfa.1] at hcb' ⊢
      simp [hcb', hv]
    have := attr_second_cycle tbl S p hwf force ns rv subs hexp hns a.name a hn hfa.1
    unfold exportAttr at this
    cases h1' : written p.ver force a ((loadEntity tbl p subs).get a.name) <;>
      cases h2' : written p.ver force a (ns.get a.name) <;> simp [h1', h2'] at this ⊢
    exact this
  · have hlt : p.ver < a.minVer := by omega
    rw [written_none_of_lt hlt, written_none_of_lt hlt]

/-! ## the flat tag stream of an exported entity splits back into the subclass lists -/

private theorem splitSubs_ne_nil (ts : List LTag) : splitSubs ts ≠ [] := by
  cases ts with
  | nil => simp [splitSubs]
  | cons t rest =>
    simp only [splitSubs]
    cases splitSubs rest with
    | nil => simp
    | cons cur more => by_cases h : (t.tag.code == 100) = true <;> simp [h]

private theorem splitSubs_prefix (ts more : List LTag) (h : ∀ t ∈ ts, t.tag.code ≠ 100) :
    splitSubs (ts ++ more) = (ts ++ (splitSubs more).headD []) :: (splitSubs more).tail := by
  induction ts with
  | nil =>
    cases hs : splitSubs more with
    | nil => exact absurd hs (splitSubs_ne_nil more)
    | cons a b => simp [hs]
  | cons t rest ih =>
    have ih' := ih (fun u hu => h u (List.mem_cons_of_mem _ hu))
    have ht : (t.tag.code == 100) = false := by simpa using h t (List.mem_cons_self ..)
    simp only [List.cons_append, splitSubs, ih', ht, Bool.false_eq_true, if_false]

private theorem splitSubs_markers (rest : List (List LTag))
    (h : ∀ r ∈ rest, ∃ m tl, r = m :: tl ∧ m.tag.code = 100 ∧ ∀ t ∈ tl, t.tag.code ≠ 100) :
    splitSubs rest.flatten = [] :: rest := by
  induction rest with
  | nil => simp [splitSubs]
  | cons r rest' ih =>
    obtain ⟨m, tl, rfl, hm, htl⟩ := h _ (List.mem_cons_self ..)
    have ih' := ih (fun x hx => h x (List.mem_cons_of_mem _ hx))
    have hm' : (m.tag.code == 100) = true := by simpa using hm
    simp only [List.flatten_cons, List.cons_append, splitSubs]
    rw [splitSubs_prefix tl rest'.flatten htl, ih']
    simp [hm']

/-- every tag of a written subclass carries the code of its symbolic tag -/
private theorem concSeg_codes {S : Schema} {ver : Nat} {force : Bool} {ns : NS} {rv : Nat → Val}
    {ss : List STag} (hws : WS S ss) (hc : ∀ s ∈ ss, s.code ≠ 100) :
    ∀ lt ∈ concSeg ver force ns rv ss, lt.tag.code ≠ 100 := by
  intro lt hlt
  obtain ⟨s, hs, hcode⟩ := concSeg_mem_code hws lt hlt
  rw [hcode]; exact hc s hs

private theorem symEvs_codes (S : Schema) : ∀ (evs : List Ev) (i : Nat) (ss : List STag),
    symEvs S i evs = some ss →
    (∀ n ∈ attrNamesOf evs, ∀ a, S.find n = some a → a.code ≠ 100) →
    (∀ e ∈ evs, ∀ c, e = .raw c → c ≠ 100) →
    ∀ s ∈ ss, s.code ≠ 100 := by
  intro evs
  induction evs with
  | nil => intro i ss h _ _ s hs; simp [symEvs] at h; subst h; simp at hs
  | cons e rest ih =>
    intro i ss h ha hr s hs
    cases e with
    | attr n =>
      simp only [symEvs] at h
      cases hf : S.find n with
      | none => simp [hf] at h
      | some a =>
        simp only [hf] at h
        cases hrr : symEvs S (i + 1) rest with
        | none => simp [hrr] at h
        | some r =>
          simp only [hrr, Option.map_some, Option.some.injEq] at h
          subst h
          rcases List.mem_cons.mp hs with rfl | hs
          · exact ha n (by simp [attrNamesOf]) a hf
          · exact ih (i + 1) r hrr (fun m hm => ha m (by simp [attrNamesOf, hm]))
              (fun e he => hr e (List.mem_cons_of_mem _ he)) s hs
    | raw c =>
      simp only [symEvs] at h
      cases hrr : symEvs S (i + 1) rest with
      | none => simp [hrr] at h
      | some r =>
        simp only [hrr, Option.map_some, Option.some.injEq] at h
        subst h
        rcases List.mem_cons.mp hs with rfl | hs
        · exact hr (.raw c) (List.mem_cons_self ..) c rfl
        · exact ih (i + 1) r hrr (fun m hm => ha m (by simpa [attrNamesOf] using hm))
            (fun e he => hr e (List.mem_cons_of_mem _ he)) s hs

/-- shape of the written subclasses of a well-formed plan: the first has no marker tag, every later one
    starts with its marker and holds no other tag with code 100 -/
private theorem concSegs_shape (S : Schema) (ver : Nat) (force : Bool) (ns : NS) (rv : Nat → Nat → Val) :
    ∀ (segs : List Seg) (sss : List (List STag)) (k : Nat),
      symSegs S segs = some sss →
      (∀ g ∈ segs, g.marker.isSome = true) →
      (∀ g ∈ segs, ∀ n ∈ attrNamesOf g.evs, ∀ a, S.find n = some a → a.code ≠ 100) →
      (∀ g ∈ segs, ∀ e ∈ g.evs, ∀ c, e = .raw c → c ≠ 100) →
      ∀ r ∈ concSegs ver force ns rv k sss,
        ∃ m tl, r = m :: tl ∧ m.tag.code = 100 ∧ ∀ t ∈ tl, t.tag.code ≠ 100 := by
  intro segs
  induction segs with
  | nil => intro sss k h _ _ _ r hr; simp [symSegs] at h; subst h; simp [concSegs] at hr
  | cons g rest ih =>
    intro sss k h hm ha hraw r hr
    simp only [symSegs] at h
    cases h1 : symSeg S g with
    | none => simp [h1] at h
    | some x =>
      cases h2 : symSegs S rest with
      | none => simp [h1, h2] at h
      | some y =>
        simp only [h1, h2, Option.some.injEq] at h
        subst h
        simp only [concSegs, List.mem_cons] at hr
        rcases hr with rfl | hr
        · have hmk := hm g (List.mem_cons_self ..)
          have hws := symSeg_WS h1
          unfold symSeg at h1
          cases he : symEvs S 1 g.evs with
          | none => simp [he] at h1
          | some ev =>
            simp only [he] at h1
            cases hmm : g.marker with
            | none => simp [hmm] at hmk
            | some mk =>
              simp only [hmm, Option.some.injEq] at h1
              subst h1
              have hcodes := symEvs_codes S g.evs 1 ev he (ha g (List.mem_cons_self ..))
                (hraw g (List.mem_cons_self ..))
              refine ⟨⟨0, ⟨100, .str [mk]⟩⟩, concSeg ver force ns (rv k) ev, ?_, rfl, ?_⟩
              · rw [concSeg_cons]; simp [conc]
              · exact concSeg_codes (S := S) (fun s hs => hws s (List.mem_cons_of_mem _ hs)) hcodes
        · exact ih y (k + 1) h2 (fun q hq => hm q (List.mem_cons_of_mem _ hq))
            (fun q hq => ha q (List.mem_cons_of_mem _ hq)) (fun q hq => hraw q (List.mem_cons_of_mem _ hq)) r hr

/-- **split_export**: the subclass lists the loaders work on are exactly what `ExtendedTags` makes of the
    flat tag stream that `export_entity` writes (base class first, a new subclass at every (100, …) tag) -/
theorem split_export (tbl : List (Int × Name)) (S : Schema) (p : Plan) (hwf : wfPlan tbl S p = true)
    (force : Bool) (ns : NS) (rv : Nat → Nat → Val) (subs : List (List LTag))
    (hexp : exportEntity S p force ns rv = some subs) :
    splitSubs subs.flatten = subs := by
  obtain ⟨sss, _, h1, _, _, hnames, hraws, hshape⟩ := wfPlan_unfold hwf
  simp only [exportEntity, h1, Option.map_some, Option.some.injEq] at hexp
  subst hexp
  -- attribute and payload tags never carry the marker code
  have hattr : ∀ g ∈ p.segs, ∀ n ∈ attrNamesOf g.evs, ∀ a, S.find n = some a → a.code ≠ 100 := by
    intro g hg n hn a ha
    have hmem : n ∈ planNames p := by
      unfold planNames; exact List.mem_flatMap.mpr ⟨g, hg, hn⟩
    have hok := (List.all_eq_true.mp hnames) n hmem
    simp only [ha] at hok
    unfold attrOK at hok
    simp only [Bool.and_eq_true, Bool.not_eq_true', Bool.or_eq_false_iff] at hok
    have := hok.1.1.2.2
    simpa using this
  have hraw : ∀ g ∈ p.segs, ∀ e ∈ g.evs, ∀ c, e = .raw c → c ≠ 100 := by
    intro g hg e he c hc
    unfold rawsOK at hraws
    have := (List.all_eq_true.mp ((List.all_eq_true.mp hraws) g hg)) e he
    subst hc
    simpa using this
  unfold shapeOK at hshape
  cases hsegs : p.segs with
  | nil => simp [hsegs] at hshape
  | cons g0 rest =>
    simp only [hsegs, Bool.and_eq_true, List.all_eq_true] at hshape
    obtain ⟨hg0, hrest⟩ := hshape
    rw [hsegs] at h1
    simp only [symSegs] at h1
    cases hs0 : symSeg S g0 with
    | none => simp [hs0] at h1
    | some x =>
      cases hsr : symSegs S rest with
      | none => simp [hs0, hsr] at h1
      | some y =>
        simp only [hs0, hsr, Option.some.injEq] at h1
        subst h1
        have hws0 := symSeg_WS hs0
        -- the base class holds no marker
        have hbase : ∀ t ∈ concSeg p.ver force ns (rv 0) x, t.tag.code ≠ 100 := by
          unfold symSeg at hs0
          cases he : symEvs S 1 g0.evs with
          | none => simp [he] at hs0
          | some ev =>
            simp only [he] at hs0
            cases hmm : g0.marker with
            | some mk => simp [hmm] at hg0
            | none =>
              simp only [hmm, Option.some.injEq] at hs0
              subst hs0
              exact concSeg_codes (S := S) hws0
                (symEvs_codes S g0.evs 1 _ he (hattr g0 (by rw [hsegs]; exact List.mem_cons_self ..))
                  (hraw g0 (by rw [hsegs]; exact List.mem_cons_self ..)))
        have hmarks := concSegs_shape S p.ver force ns rv rest y 1 hsr hrest
          (fun g hg => hattr g (by rw [hsegs]; exact List.mem_cons_of_mem _ hg))
          (fun g hg => hraw g (by rw [hsegs]; exact List.mem_cons_of_mem _ hg))
        simp only [concSegs, List.flatten_cons]
        rw [splitSubs_prefix _ _ hbase, splitSubs_markers _ hmarks]
        simp

/-! ### the WF clause about shared group codes is necessary (hand-written witness, independent of /repo) -/

/-- two optional attributes 1 and 2 share group code 90 (like MATERIAL `ambient_color_value` /
    `self_illumination`); the mapping lists them in declaration order -/
def demoS : Schema := [⟨1, 90, .none, none, true, 1009⟩, ⟨2, 90, .none, none, true, 1009⟩]
def demoM : Mapping := [(90, .many [⟨1, false⟩, ⟨2, false⟩])]
def demoP : Plan := ⟨1015, [⟨none, [.raw 0]⟩, ⟨some 7, [.attr 1, .attr 2]⟩], [.fast demoM 1 false []]⟩

/-- only attribute 2 is set: after reload its value sits in attribute 1 -/
theorem shared_code_counterexample :
    wfPlan [] demoS demoP = false ∧
    (exportEntity demoS demoP false [(2, .int 5)] (fun _ _ => .int 0)).map
      (fun subs => ((loadEntity [] demoP subs).get 1, (loadEntity [] demoP subs).get 2)) =
      some (some (.int 5), none) := by
  decide +kernel

/-- the same schema is accepted when the first attribute is always written (not optional, with default) -/
def demoS' : Schema := [⟨1, 90, .none, some (.int 0), false, 1009⟩, ⟨2, 90, .none, none, true, 1009⟩]
example : wfPlan [] demoS' demoP = true := by decide +kernel
example : expNames demoS' demoP = [1, 2] := by decide +kernel

/-! ## 2. every registered entity class (Gen/Schemas.lean, regenerated from /repo on every run) -/

/-- dxftype names as interned by the tracer -/
def enc (s : String) : Name := s.toList.foldl (fun a c => a * 256 + c.toNat) 0

/-- (class, file version) pairs for which `wfPlan` genuinely fails on the unchanged tree:
    * MATERIAL: eleven group codes are shared by two or three *optional* attributes of the one
      subclass AcDbMaterial; a set attribute is loaded into the first unset attribute of its list
      (known finding C01/shared-code, reproduced by the oracle);
    * ATTRIB/ATTDEF in DXF R12: all tags are one flat list that is scanned with three mappings, and
      group code 71 is `text_generation_flag` in the AcDbText mapping and `attribute_type` in the
      AcDbAttribute mapping (known finding C01/r12-crosstalk). -/
def wfExceptions : List (Name × Nat) :=
  [(enc "MATERIAL", 1015), (enc "MATERIAL", 1018), (enc "MATERIAL", 1021), (enc "MATERIAL", 1024),
   (enc "MATERIAL", 1027), (enc "MATERIAL", 1032), (enc "ATTRIB", 1009), (enc "ATTDEF", 1009)]

def classOK (c : ClassSchema) : Bool :=
  c.plans.all (fun p => wfPlan Gen.Schemas.recoverTable c.attrs p || wfExceptions.contains (c.dxftype, p.ver))

/-- **schemas_wf**: for every registered entity class and every DXF version it is exported for, the
    traced export order / subclass structure / loader calls meet `wfPlan`, the listed pairs excepted. -/
theorem schemas_wf : Gen.Schemas.classes.all classOK = true := by
  decide +kernel

/-- **registered_roundtrip**: `attr_roundtrip` instantiated for every registered class × version:
    "for every registered entity type and every declared DXF attribute of it" that reaches
    `export_dxf_attribs` with an open version gate. -/
theorem registered_roundtrip (c : ClassSchema) (hc : c ∈ Gen.Schemas.classes) (p : Plan) (hp : p ∈ c.plans)
    (hex : (c.dxftype, p.ver) ∉ wfExceptions)
    (force : Bool) (ns : NS) (rv : Nat → Nat → Val) (subs : List (List LTag))
    (hexp : exportEntity c.attrs p force ns rv = some subs)
    (hns : ∀ a ∈ c.attrs, ∀ v, ns.get a.name = some v → valOK a v = true)
    (n : Name) (a : Attr) (hn : n ∈ expNames c.attrs p) (ha : c.attrs.find n = some a) :
    simO (observe a (loadEntity Gen.Schemas.recoverTable p subs)) (observe a ns) ∧
    exportAttr p.ver force a ((loadEntity Gen.Schemas.recoverTable p subs).get n) =
      exportAttr p.ver force a (ns.get n) := by
  have hall := (List.all_eq_true.mp schemas_wf) c hc
  have hpl := (List.all_eq_true.mp hall) p hp
  simp only [Bool.or_eq_true] at hpl
  have hwf : wfPlan Gen.Schemas.recoverTable c.attrs p = true := by
    rcases hpl with h | h
    · exact h
    · exact absurd (List.contains_iff_mem.mp h) hex
  exact ⟨attr_roundtrip _ c.attrs p hwf force ns rv subs hexp hns n a hn ha,
         attr_second_cycle _ c.attrs p hwf force ns rv subs hexp hns n a hn ha⟩

/-! non-vacuity: the hypotheses of `registered_roundtrip` are met by real classes, and the conclusion is
    about non-trivial values (LINE in a DXF R2000 file: layer suppressed?, colour kept, lineweight gated) -/
example : (Gen.Schemas.classes.map (·.dxftype)).contains (enc "LINE") = true := by decide +kernel
example : Gen.Schemas.c_LINE.plans.length ≥ 1 ∧
    Gen.Schemas.c_LINE.plans.all (fun p => wfPlan Gen.Schemas.recoverTable Gen.Schemas.c_LINE.attrs p &&
      decide ((expNames Gen.Schemas.c_LINE.attrs p).length ≥ 4)) = true := by
  decide +kernel
#guard (Gen.Schemas.c_LINE.plans.filter (fun p => p.ver == 1015)).map (fun p =>
    (exportEntity Gen.Schemas.c_LINE.attrs p false
        [(enc "color", .int 3), (enc "layer", .str [48]), (enc "start", .pt 1 2 3), (enc "true_color", .int 255)]
        (fun _ _ => .str [])).map
      (fun subs =>
        let ns := loadEntity Gen.Schemas.recoverTable p subs
        (ns.get (enc "color"), ns.get (enc "layer"), ns.get (enc "start"), ns.get (enc "true_color"), ns.get (enc "end")))) ==
  [some (some (.int 3), some (.str [48]), some (.pt 1 2 3), none, some (.pt 0 0 0))]

/-- (class, attribute) pairs that are exported for an older version but not for a newer one:
    * DIMSTYLE dimblk / dimblk1 / dimblk2: names in DXF R12, `*_handle` attributes from R2000 on
      (`set_handles` / `post_load_hook`), not a loss;
    * BODY, REGION, 3DSOLID, SURFACE and its four subclasses `version`: the modeler format version number
      belongs to the SAT text form that is written below DXF R2013; from R2013 on the data is SAB;
    * DIMENSION defpoint4 / defpoint5 / leader_length: DXF R12 exports the union of all dimension
      types in one flat list, R2000+ exports the subclass of the actual `dimtype` only. -/
def monoExceptions : List (Name × Name) :=
  [(enc "DIMSTYLE", enc "dimblk"), (enc "DIMSTYLE", enc "dimblk1"), (enc "DIMSTYLE", enc "dimblk2"),
   (enc "DIMENSION", enc "defpoint4"), (enc "DIMENSION", enc "defpoint5"), (enc "DIMENSION", enc "leader_length"),
   (enc "BODY", enc "version"), (enc "REGION", enc "version"), (enc "3DSOLID", enc "version"),
   (enc "SURFACE", enc "version"), (enc "EXTRUDEDSURFACE", enc "version"), (enc "LOFTEDSURFACE", enc "version"),
   (enc "REVOLVEDSURFACE", enc "version"), (enc "SWEPTSURFACE", enc "version")]

/-- **export_version_monotone**: an attribute handed to `export_dxf_attribs` for a version `v ≥` its
    `dxfversion` is handed over for every later version too, the listed pairs excepted (none of them is a loss;
    the former exception DIMSTYLE dimpost / dimapost = finding F12 is fixed in /repo, commit 64eac7204). -/
theorem export_version_monotone :
    Gen.Schemas.classes.all (fun c =>
      (monoViolations c).all (fun v => monoExceptions.contains (c.dxftype, v.1))) = true := by
  decide +kernel

/-- (class, attribute) pairs that an earlier version does not export although the attribute's `dxfversion`
    admits it and a later version exports it:
    * MPOLYGON fill_color: explicit `dxfversion > DXF2000` test in MPolygon.export_entity;
    * 3DSOLID history_handle: the AcDb3dSolid subclass is written from DXF R2007 on (explicit test);
    * VIEWPORT (whole class): DXF R12 stores the view data in the MVIEW XDATA instead of group codes. -/
def downExceptions : List (Name × Name) :=
  [(enc "MPOLYGON", enc "fill_color"), (enc "3DSOLID", enc "history_handle")]
def downExceptionClasses : List Name := [enc "VIEWPORT"]

/-- **export_version_downward**: no version between an attribute's `dxfversion` and a version that exports
    it leaves the attribute out, the listed cases excepted.  Together with `export_version_monotone`:
    the set of versions for which a declared attribute reaches `export_dxf_attribs` is exactly the set
    of exported versions `≥ dxfversion`. -/
theorem export_version_downward :
    Gen.Schemas.classes.all (fun c =>
      downExceptionClasses.contains c.dxftype ||
      (downViolations c).all (fun v => downExceptions.contains (c.dxftype, v.1))) = true := by
  decide +kernel

/-- the model's group code classes are the ones `cast_value` showed when probed for every code 0..1071
    (0 str, 1 int, 2 float, 3 Vec3) -/
theorem cast_classes_observed :
    (List.range 1072).map (fun c : Nat => if isPointCode c then 3 else (typeCls c).toNat) =
      Gen.Schemas.obsCast := by
  decide +kernel

/-! ## 3. payload codecs shared by many entities -/

/-- TagList / TagArray / VertexArray: the values written under one group code are read back in order,
    whatever other group codes surround them -/
theorem seq_roundtrip (code : Int) (xs : List Val) (pre post : List Tag)
    (h1 : ∀ t ∈ pre, t.code ≠ code) (h2 : ∀ t ∈ post, t.code ≠ code) :
    loadSeq code (pre ++ exportSeq code xs ++ post) = xs := by
  unfold loadSeq exportSeq
  have f1 : pre.filter (fun t => t.code == code) = [] := by
    apply List.filter_eq_nil_iff.mpr; intro t ht; simpa using h1 t ht
  have f2 : post.filter (fun t => t.code == code) = [] := by
    apply List.filter_eq_nil_iff.mpr; intro t ht; simpa using h2 t ht
  have f3 : (xs.map (fun v => (⟨code, v⟩ : Tag))).filter (fun t => t.code == code) =
      xs.map (fun v => (⟨code, v⟩ : Tag)) := by
    apply List.filter_eq_self.mpr; intro t ht
    obtain ⟨v, _, rfl⟩ := List.mem_map.mp ht; simp
  rw [List.filter_append, List.filter_append, f1, f2, f3]
  simp [List.map_map, Function.comp_def]

/-- two arrays with different group codes written one after the other (e.g. SPLINE knots 40 and
    weights 41) do not disturb each other -/
theorem seq_independent (c1 c2 : Int) (h : c1 ≠ c2) (xs ys : List Val) :
    loadSeq c1 (exportSeq c1 xs ++ exportSeq c2 ys) = xs ∧
    loadSeq c2 (exportSeq c1 xs ++ exportSeq c2 ys) = ys := by
  constructor
  · have := seq_roundtrip c1 xs [] (exportSeq c2 ys) (by simp)
      (by intro t ht; obtain ⟨v, _, rfl⟩ := List.mem_map.mp ht; exact fun e => h e.symm)
    simpa using this
  · have := seq_roundtrip c2 ys (exportSeq c1 xs) []
      (by intro t ht; obtain ⟨v, _, rfl⟩ := List.mem_map.mp ht; exact h) (by simp)
    simpa using this

private theorem lw_fold_append (σ : LWState) (a b : List Tag) :
    (a ++ b).foldl lwStep σ = b.foldl lwStep (a.foldl lwStep σ) := List.foldl_append ..

/-- state after one exported point record -/
private theorem lw_point (σ : LWState) (p : LWPoint) :
    (exportLWPoint p).foldl lwStep σ =
      { done := σ.flush, cur := some (p.x, p.y),
        s := if !isZero p.s || !isZero p.e then some p.s else none,
        e := if !isZero p.s || !isZero p.e then some p.e else none,
        b := if !isZero p.b then some p.b else none, unp := σ.unp } := by
  unfold exportLWPoint
  by_cases h1 : (!isZero p.s || !isZero p.e) = true <;> by_cases h2 : (!isZero p.b) = true <;>
    simp [h1, h2, lwStep, dblOf]

private theorem lw_flush_point (σ : LWState) (p : LWPoint) :
    ((exportLWPoint p).foldl lwStep σ).flush = σ.flush ++ [p.canon] := by
  rw [lw_point]
  unfold LWState.flush LWPoint.canon
  by_cases h1 : (!isZero p.s || !isZero p.e) = true <;> by_cases h2 : (!isZero p.b) = true <;>
    simp [h1, h2]

private theorem lw_unp_point (σ : LWState) (p : LWPoint) :
    ((exportLWPoint p).foldl lwStep σ).unp = σ.unp := by
  rw [lw_point]

private theorem lw_all (ps : List LWPoint) : ∀ σ : LWState,
    ((exportLW ps).foldl lwStep σ).flush = σ.flush ++ ps.map LWPoint.canon ∧
    ((exportLW ps).foldl lwStep σ).unp = σ.unp := by
  induction ps with
  | nil => intro σ; simp [exportLW]
  | cons p rest ih =>
    intro σ
    have : exportLW (p :: rest) = exportLWPoint p ++ exportLW rest := by simp [exportLW]
    rw [this, lw_fold_append]
    obtain ⟨h1, h2⟩ := ih ((exportLWPoint p).foldl lwStep σ)
    rw [h1, h2, lw_flush_point, lw_unp_point]
    simp

/-- **lwpoints_roundtrip**: LWPOLYLINE point records for all bit patterns: x, y and every non-zero
    width / bulge come back exactly; suppressed (zero) widths and bulges are restored as +0.0 -/
theorem lwpoints_roundtrip (ps : List LWPoint) :
    loadLW (exportLW ps) = (ps.map LWPoint.canon, []) := by
  unfold loadLW
  obtain ⟨h1, h2⟩ := lw_all ps ⟨[], none, none, none, none, []⟩
  simp only [h1, h2]
  simp [LWState.flush]

/-- no negative zeros among widths and bulge: the record is reproduced bit for bit -/
theorem lwpoints_exact (p : LWPoint) (h : p.s ≠ 2 ^ 63 ∧ p.e ≠ 2 ^ 63 ∧ p.b ≠ 2 ^ 63) : p.canon = p := by
  obtain ⟨hs, he, hb⟩ := h
  unfold LWPoint.canon
  cases p with
  | mk x y s e b =>
    simp only at hs he hb
    simp only [LWPoint.mk.injEq, true_and]
    refine ⟨?_, ?_, ?_⟩
    · by_cases h1 : (!isZero s || !isZero e) = true
      · simp [h1]
      · simp only [h1, Bool.false_eq_true, if_false]
        simp only [Bool.or_eq_true, Bool.not_eq_true', not_or, Bool.not_eq_false] at h1
        have := h1.1
        simp only [isZero, Bool.or_eq_true, beq_iff_eq] at this
        rcases this with h | h
        · exact h.symm
        · exact absurd h hs
    · by_cases h1 : (!isZero s || !isZero e) = true
      · simp [h1]
      · simp only [h1, Bool.false_eq_true, if_false]
        simp only [Bool.or_eq_true, Bool.not_eq_true', not_or, Bool.not_eq_false] at h1
        have := h1.2
        simp only [isZero, Bool.or_eq_true, beq_iff_eq] at this
        rcases this with h | h
        · exact h.symm
        · exact absurd h he
    · by_cases h1 : (!isZero b) = true
      · simp [h1]
      · simp only [h1, Bool.false_eq_true, if_false]
        simp only [Bool.not_eq_true', Bool.not_eq_false] at h1
        simp only [isZero, Bool.or_eq_true, beq_iff_eq] at h1
        rcases h1 with h | h
        · exact h.symm
        · exact absurd h hb

#guard loadLW (exportLW [⟨1, 2, 0, 0, 5⟩, ⟨3, 4, 2 ^ 63, 7, 0⟩, ⟨5, 6, 0, 2 ^ 63, 2 ^ 63⟩]) =
  ([⟨1, 2, 0, 0, 5⟩, ⟨3, 4, 2 ^ 63, 7, 0⟩, ⟨5, 6, 0, 0, 0⟩], [])

/-! ## 4. long strings: text_to_multi_tags / multi_tags_to_text -/

/-- the `chop()` slices concatenate back -/
theorem chop_concat (size : Nat) (h : 0 < size) (s : List Nat) : (chop size h s).flatten = s := by
  fun_induction chop size h s with
  | case1 => simp
  | case2 s hs ih => simp [ih]

theorem chop_bounds (size : Nat) (h : 0 < size) (s : List Nat) :
    ∀ c ∈ chop size h s, 0 < c.length ∧ c.length ≤ size := by
  fun_induction chop size h s with
  | case1 => simp
  | case2 s hs ih =>
    intro c hc
    rcases List.mem_cons.mp hc with rfl | hc
    · have : 0 < s.length := List.length_pos_iff.mpr hs
      simp only [List.length_take]; omega
    · exact ih c hc

private theorem caretToNl_cons (c : Nat) (l : List Nat) (h : c ≠ 94 ∨ l.head? ≠ some 74) :
    caretToNl (c :: l) = c :: caretToNl l := by
  cases l with
  | nil => simp [caretToNl]
  | cons d r =>
    have : (c == 94 && d == 74) = false := by
      rcases h with h | h
      · have : (c == 94) = false := by simpa using h
        simp [this]
      · have : (d == 74) = false := by simpa using h
        simp [this]
    simp [caretToNl, this]

private theorem nlToCaret_head (l : List Nat) : (nlToCaret l).head? = some 74 ↔ l.head? = some 74 := by
  cases l with
  | nil => simp [nlToCaret]
  | cons d r =>
    by_cases hd : d = 10
    · subst hd; simp [nlToCaret]
    · have : (d == 10) = false := by simpa using hd
      simp [nlToCaret, this]

private theorem caret_nl (s : List Nat) (h : hasCaretJ s = false) : caretToNl (nlToCaret s) = s := by
  induction s with
  | nil => rfl
  | cons c rest ih =>
    have hrest : hasCaretJ rest = false := by
      cases rest with
      | nil => rfl
      | cons d r => simp only [hasCaretJ, Bool.or_eq_false_iff] at h; exact h.2
    by_cases hc : c = 10
    · subst hc
      simp [nlToCaret, caretToNl, ih hrest]
    · have hc' : (c == 10) = false := by simpa using hc
      simp only [nlToCaret, hc', Bool.false_eq_true, if_false]
      rw [caretToNl_cons, ih hrest]
      by_cases h94 : c = 94
      · right
        rw [Ne, nlToCaret_head]
        cases rest with
        | nil => simp
        | cons d r =>
          simp only [hasCaretJ, Bool.or_eq_false_iff, Bool.and_eq_false_iff] at h
          rcases h.1 with h1 | h1
          · simp [h94] at h1
          · simpa using h1
      · exact Or.inl h94

/-- **multi_tags_roundtrip_partial**: full statement `multi_tags_to_text (text_to_multi_tags t) = t`
    is false (see the counterexample below); it holds for every text without a literal "^J". -/
theorem multi_tags_roundtrip_partial (size : Nat) (h : 0 < size) (code : Int) (t : List Nat)
    (hj : hasCaretJ t = false) :
    multiTagsToText (textToMultiTags size h code t) = t := by
  unfold multiTagsToText textToMultiTags
  have : (List.map (fun part => (⟨code, .str part⟩ : Tag)) (chop size h (nlToCaret t))).flatMap
      (fun t => strOf t.val) = (chop size h (nlToCaret t)).flatten := by
    rw [List.flatMap_def, List.map_map]
    congr 1
    simp [Function.comp_def, strOf]
  rw [this, chop_concat, caret_nl t hj]

/-- "a^Jb" comes back as "a\nb" (replayed on the real pair of functions by the oracle) -/
theorem multi_tags_caretJ_counterexample :
    multiTagsToText (textToMultiTags 255 (by decide) 303 [97, 94, 74, 98]) = [97, 10, 98] := by
  decide +kernel

/-! ## 5. linked sub-entities: the linker restores what the writer flattened -/

private theorem linkAll_sub (m : Ent) (hm : ∀ x : Ent, some x.kind = expectedSub m.kind → x.kind ≠ EKind.seqend) :
    ∀ (subs acc : List Ent) (out : List Node) (rest : List Ent),
      (∀ x ∈ subs, some x.kind = expectedSub m.kind) →
      linkAll ⟨out, some (m, acc)⟩ (subs ++ rest) = linkAll ⟨out, some (m, acc ++ subs)⟩ rest := by
  intro subs
  induction subs with
  | nil => intro acc out rest _; simp
  | cons x xs ih =>
    intro acc out rest h
    have hx := h x (List.mem_cons_self ..)
    have hne : (x.kind == EKind.seqend) = false := by simpa using hm x hx
    have hb : (some x.kind == expectedSub m.kind) = true := by rw [hx]; exact beq_self_eq_true _
    simp only [List.cons_append, linkAll, linkStep, hne, hb, Bool.false_eq_true, if_false, if_true]
    rw [ih (acc ++ [x]) out rest (fun y hy => h y (List.mem_cons_of_mem _ hy))]
    simp

private theorem expectedSub_ne_seqend (m : Ent) :
    ∀ x : Ent, some x.kind = expectedSub m.kind → x.kind ≠ EKind.seqend := by
  intro x h
  cases hk : m.kind <;> simp [expectedSub, hk] at h <;> simp [h]

private theorem linkAll_nodes : ∀ (ns : List Node) (out : List Node),
    (∀ n ∈ ns, nodeWF n = true) →
    linkAll ⟨out, none⟩ (ns.flatMap Node.flatten) = .ok ⟨out ++ ns, none⟩ := by
  intro ns
  induction ns with
  | nil => intro out _; simp [linkAll]
  | cons n rest ih =>
    intro out h
    have hn := h n (List.mem_cons_self ..)
    have hrest := fun x hx => h x (List.mem_cons_of_mem _ hx)
    cases n with
    | single e =>
      simp only [nodeWF, Bool.not_eq_true'] at hn
      simp only [List.flatMap_cons, Node.flatten, List.cons_append, List.nil_append, linkAll, linkStep, hn,
        Bool.false_eq_true, if_false]
      rw [ih (out ++ [Node.single e]) hrest]
      simp
    | linked m subs s =>
      simp only [nodeWF, Bool.and_eq_true, beq_iff_eq, List.all_eq_true] at hn
      obtain ⟨⟨hm, hs⟩, hsubs⟩ := hn
      have hsubs' : ∀ x ∈ subs, some x.kind = expectedSub m.kind := fun x hx => by simpa using hsubs x hx
      simp only [List.flatMap_cons, Node.flatten, List.cons_append, linkAll, linkStep, hm, if_true]
      rw [List.append_assoc, linkAll_sub m (expectedSub_ne_seqend m) subs [] out _ hsubs']
      simp only [List.nil_append, List.cons_append, linkAll, linkStep, hs, beq_self_eq_true, if_true]
      rw [ih (out ++ [Node.linked m subs s]) hrest]
      simp
    | unterminated m subs => simp [nodeWF] at hn

/-- **link_flatten**: POLYLINE/VERTEX…/SEQEND and INSERT(attribs_follow)/ATTRIB…/SEQEND sequences written
    one after the other are grouped back into exactly the same main entities with the same sub-entities
    in the same order; stand-alone entities stay stand-alone. -/
theorem link_flatten (ns : List Node) (h : ∀ n ∈ ns, nodeWF n = true) :
    (link (ns.flatMap Node.flatten)).map (fun out => out.flatMap Node.flatten) = .ok (ns.flatMap Node.flatten) ∧
    (∃ out, link (ns.flatMap Node.flatten) = .ok out ∧ out.length = ns.length) := by
  unfold link
  rw [linkAll_nodes ns [] h]
  simp [Except.map]

-- a sub-entity of the wrong type inside a linked sequence is a DXFStructureError
#guard (match link [⟨.polyline, 1⟩, ⟨.attrib, 2⟩] with | .error .dxfStructureError => true | _ => false)
#guard (link [⟨.insert false, 1⟩, ⟨.attrib, 2⟩, ⟨.polyline, 3⟩, ⟨.vertex, 4⟩, ⟨.seqend, 5⟩]).toOption.map List.length
    == some 3

end EzdxfVerif.Props.C01

/-
C05  API-visible document state follows a simple reference model.
Property theorems over the document state machine (Model/Doc.lean; vocabulary in Model/DocSpec.lean;
proofs in Lemmas/Doc.lean).  Every `theorem` here is a counted obligation.
-/
import EzdxfVerif.Lemmas.Doc
import EzdxfVerif.Lemmas.DocOwner
import EzdxfVerif.Lemmas.DocEffects

namespace EzdxfVerif.Props.C05
open EzdxfVerif.Doc

/-- a request the API rejects leaves the document unchanged (all 19 operations) -/
theorem rejected_unchanged (s : State) (op : Op) (e : Err) (h : (step s op).2 = .err e) :
    (step s op).1 = s := Doc.rejected_unchanged s op e h

/-- a step either leaves the handle history alone or appends ONE handle that lies at or above the
    old generator value and below the new one; the generator never decreases -/
theorem step_grow (s : State) (op : Op) : Grow s (step s op).1 := Doc.step_grow s op

/-- every entity has one unique, never reused handle: for every history, all handles ever issued
    (`ents` is a monotone history, destroyed and purged entities included) are pairwise distinct
    and below the handle generator -/
theorem handles_never_reused (s : State) (ops : List Op) (h : HInv s) : HInv (run s ops) :=
  Doc.handles_never_reused s ops h

/-- one step preserves the structural invariant (unique block-record keys below the generator; every
    handle at most once over ALL entity spaces; spaces hold only created entities), for
    `layout.add_entity` under its documented caller obligation `OpOk` -/
theorem step_inv (s : State) (op : Op) (h : DocInv s) (hok : OpOk s op) : DocInv (step s op).1 :=
  Doc.step_Inv s op h hok

/-- at every step of any history: at most one owner, exactly once -/
theorem inv_reachable (s : State) (ops : List Op) (h : DocInv s) (hok : HistOk s ops) :
    DocInv (run s ops) := Doc.inv_reachable s ops h hok

/-- the owner layout an entity reports is the layout that lists it: in every reachable state every live
    entity listed in an entity space is owned by exactly that block record -/
theorem owner_consistent (s : State) (ops : List Op) (h : DocInv s) (ho : OwnerInv s) (hok : HistOk s ops) :
    OwnerInv (run s ops) := Doc.owner_inv_reachable s ops h ho hok

/-- reference model "a layout is an ordered list": creation appends to that layout only -/
theorem spec_add (s : State) (k h seed : Nat) (sp : List Nat) (hsp : spaceOf s k = some sp)
    (hf : freshOk s [h] seed = true) (hfresh : h ∉ hs s)
    (hknown : ∀ k' l, spaceOf s k' = some l → ∀ x ∈ l, x ∈ hs s) :
    (step s (.add k h seed)).2 = .ok ∧
    content (step s (.add k h seed)).1 k = content s k ++ [h] ∧
    ∀ k', k' ≠ k → content (step s (.add k h seed)).1 k' = content s k' :=
  Doc.spec_add s k h seed sp hsp hf hfresh hknown

/-- `entity.destroy()` removes the entity from what every layout shows and nothing else, although
    the dead object stays in the entity space until the next purge -/
theorem spec_destroy (s : State) (e k : Nat) :
    content (step s (.destroy e)).1 k = (content s k).filter (· ≠ e) := Doc.spec_destroy s e k

/-- `layout.unlink_entity(e)`: the entity leaves this layout's content, nothing else changes -/
theorem spec_unlink (s s' : State) (k e : Nat) (h : unlinkCore s k e = some s') (ha : isAlive s e = true) :
    content s' k = (content s k).erase e ∧ ∀ k', k' ≠ k → content s' k' = content s k' :=
  Doc.spec_unlink s s' k e h ha

/-- `layout.delete_entity(e)`: accepted, the entity is dead and gone from the layout's content -/
theorem spec_delete (s : State) (k e : Nat) (s1 : State) (h : unlinkCore s k e = some s1)
    (ha : isAlive s e = true) :
    (step s (.del k e)).2 = .ok ∧ isAlive (step s (.del k e)).1 e = false ∧
    content (step s (.del k e)).1 k = ((content s k).erase e).filter (· ≠ e) :=
  Doc.spec_delete s k e s1 h ha

/-- purging never changes what a layout shows -/
theorem spec_purge (s : State) (k : Nat) : content (step s .purge).1 k = content s k :=
  Doc.spec_purge s k

/-! ### non-vacuity: the state of a fresh `ezdxf.new()` document, and a history on it -/

def fresh : State :=
  ⟨[], [(23, []), (27, [])], [(lower modelSpaceName, modelSpaceName, 23), (lower paperSpaceName, paperSpaceName, 27)],
   [⟨modelKey, ofString "Model", 23, 0⟩, ⟨upper (ofString "Layout1"), ofString "Layout1", 27, 1⟩],
   [[48], ofString "defpoints"], 47⟩

example : DocInv fresh := by
  simp [DocInv, HInv, SInv, hs, keys, allH, fresh]

example : OwnerInv fresh := by
  simp [OwnerInv, fresh]

example : HistOk fresh [.add 23 47 48, .unlink 23 47, .addex 27 47] := by
  simp [HistOk, OpOk, step, newEnt, unlinkCore, spaceOf, freshOk, fresh, isAlive, findEnt, setSpace, allH, setEnt]

#guard (run fresh [.add 23 47 48, .add 27 48 49, .move 27 48 23, .destroy 47, .newBlock (ofString "B1") 49 52,
    .copy 48 49 52 53, .purge, .del 23 48]).spaces == [(23, []), (27, []), (49, [52])]

end EzdxfVerif.Props.C05

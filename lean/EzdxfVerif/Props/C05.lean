/-
C05  API-visible document state follows a simple reference model.
Property theorems over the document state machine (Model/Doc.lean; vocabulary in Model/DocSpec.lean;
proofs in Lemmas/Doc.lean).  Every `theorem` here is a counted obligation.
-/
import EzdxfVerif.Lemmas.Doc
import EzdxfVerif.Lemmas.DocOwner
import EzdxfVerif.Lemmas.DocEffects
import EzdxfVerif.Lemmas.DocReload
import EzdxfVerif.Lemmas.DocLink
import EzdxfVerif.Lemmas.DocHandles
import EzdxfVerif.Lemmas.DocExplode
import EzdxfVerif.Lemmas.DocNames
import EzdxfVerif.Lemmas.DocFinal

namespace EzdxfVerif.Props.C05
open EzdxfVerif.Doc

/-- a request the API rejects leaves the document unchanged (all 29 operations, Session 3: linked parents, explode,
    audit, table entries, groups included) -/
theorem rejected_unchanged (s : State) (op : Op) (e : Err) (h : (step s op).2 = .err e) :
    (step s op).1 = s := Doc.rejected_unchanged s op e h

/-- a step either leaves the handle history alone or appends ONE handle that lies at or above the
    old generator value and below the new one; the generator never decreases -/
theorem step_grow (s : State) (op : Op) : Grow s (step s op).1 := Doc.step_grow s op

/-- every entity has one unique, never reused handle: for every history, all handles ever issued
    (`ents` is a monotone history, destroyed and purged entities included) are pairwise distinct
    and below the handle generator -/
theorem handles_never_reused (s : State) (ops : List Op) (h : HInv s) : HInv (run s ops) :=
  Doc.handles_never_reused s ops h

/-- (Session 3) an accepted operation issues pairwise distinct handles - for the entity, its sub-entities (VERTEX,
    ATTRIB, SEQEND), every copy made by explode, a block record, a GROUP object - all inside the window
    [generator before, generator after) -/
theorem issued_window (s : State) (op : Op) (hok : (step s op).2 = .ok) :
    (issued op).Nodup ∧ ∀ h ∈ issued op, s.next ≤ h ∧ h < (step s op).1.next := Doc.issued_window s op hok

/-- (Session 3) never reused, sub-entities and objects included: in every history from EVERY state (no invariant
    needed, damaged documents included) all handles issued by the accepted operations are pairwise distinct -/
theorem issued_never_reused (s : State) (ops : List Op) : (issuedAll s ops).Nodup :=
  Doc.issued_never_reused ops s

/-- (round 3) the generator stays above ALL handles ever issued, across save+reload: every handle issued by an accepted
    step of a history (entities, sub-entities, block records, groups; deleted ones included) is below the generator of the
    final state.  A reload step carries the `$HANDSEED` the loader read from the file and is accepted by the model only
    if that value is not below the generator (`reload_seed_ge`), so a file whose `$HANDSEED` forgets deleted maxima shows
    up as a disagreement of the correspondence -/
theorem issued_below_generator (s : State) (ops : List Op) : ∀ h ∈ issuedAll s ops, h < (run s ops).next :=
  Doc.issuedAll_lt_next ops s

theorem reload_seed_ge (s : State) (seed : Nat) (hok : (step s (.reload seed)).2 = .ok) :
    s.next ≤ seed ∧ (step s (.reload seed)).1.next = seed := Doc.reload_seed_ge s seed hok

/-- (round 3) a request addressed to the WRONG layout - `unlink_entity`, `move_to_layout`, `delete_entity` sent to a layout or
    block that does not list the live entity - is rejected (ValueError, DXFValueError, ValueError) and leaves the document
    unchanged, from EVERY state -/
theorem wrong_layout_rejected (s : State) (k e k2 : Nat) (ha : isAlive s e = true)
    (hn : ((spaceOf s k).getD []).contains e = false) :
    step s (.unlink k e) = (s, .err .valueError) ∧ step s (.move k e k2) = (s, .err .dxfValueError) ∧
    step s (.del k e) = (s, .err .valueError) := Doc.wrong_layout_rejected s k e k2 ha hn

/-- one step preserves the structural invariant (unique block-record keys below the generator; every
    handle at most once over ALL entity spaces; spaces hold only created entities), for
    `layout.add_entity` under its documented caller obligation `OpOk` -/
theorem step_inv (s : State) (op : Op) (h : DocInv s) (hok : OpOk s op) : DocInv (step s op).1 :=
  Doc.step_Inv s op h hok

/-- at every step of any history: at most one owner, exactly once -/
theorem inv_reachable (s : State) (ops : List Op) (h : DocInv s) (hok : HistOk s ops) :
    DocInv (run s ops) := Doc.inv_reachable s ops h hok

/-- the owner layout an entity reports is the layout that lists it: in every reachable state every live
    entity listed in an entity space is owned by exactly that block record -/
theorem owner_consistent (s : State) (ops : List Op) (h : DocInv s) (ho : OwnerInv s) (hok : HistOk s ops) :
    OwnerInv (run s ops) := Doc.owner_inv_reachable s ops h ho hok

/-- the converse (Session 3): in every reachable state a live entity that reports an owner is listed in the entity
    space of exactly that owner (with `owner_consistent` and `inv_reachable`: `entity.get_layout()` and the content of
    the layouts describe the same relation, every entity in at most one layout) -/
theorem linked_listed (s : State) (ops : List Op) (h : DocInv s) (hl : LinkInv s) (hok : HistOk s ops) :
    LinkInv (run s ops) := Doc.link_inv_reachable s ops h hl hok

/-- reference model "a layout is an ordered list": creation appends to that layout only -/
theorem spec_add (s : State) (k h seed : Nat) (sp : List Nat) (hsp : spaceOf s k = some sp)
    (hf : freshOk s [h] seed = true) (hfresh : h ∉ hs s)
    (hknown : ∀ k' l, spaceOf s k' = some l → ∀ x ∈ l, x ∈ hs s) :
    (step s (.add k h seed)).2 = .ok ∧
    content (step s (.add k h seed)).1 k = content s k ++ [h] ∧
    ∀ k', k' ≠ k → content (step s (.add k h seed)).1 k' = content s k' :=
  Doc.spec_add s k h seed sp hsp hf hfresh hknown

/-- (Session 3) a linked parent (POLYLINE+VERTEX…+SEQEND, INSERT+ATTRIB…+SEQEND) is appended to the content of its layout
    only; its sub-entities are not content of any layout -/
theorem spec_addL (s : State) (k : Nat) (r : Option Str) (h : Nat) (subs : List Nat) (seed : Nat) (hi : DocInv s)
    (hk : (spaceOf s k).isSome = true) (hf : freshOk s (h :: subs) seed = true) :
    (step s (.addL k r h subs seed)).2 = .ok ∧
    content (step s (.addL k r h subs seed)).1 k = content s k ++ [h] ∧
    ∀ k', k' ≠ k → content (step s (.addL k r h subs seed)).1 k' = content s k' :=
  Doc.spec_addL s k r h subs seed hi hk hf

/-- (Session 3) `entity.copy_to_layout(target)` of any live entity, linked parents included: the copy (fresh handle,
    fresh sub-entity handles) is appended to the target, the source stays where it is, nothing else changes -/
theorem spec_copy (s : State) (e k h : Nat) (subs : List Nat) (seed : Nat) (x : Ent) (hi : DocInv s)
    (hx : findEnt s e = some x) (hal : x.alive = true) (hlen : subs.length = x.subs.length)
    (hk : (spaceOf s k).isSome = true) (hf : freshOk s (h :: subs) seed = true) :
    (step s (.copy e k h subs seed)).2 = .ok ∧ h ≠ e ∧
    content (step s (.copy e k h subs seed)).1 k = content s k ++ [h] ∧
    ∀ k', k' ≠ k → content (step s (.copy e k h subs seed)).1 k' = content s k' :=
  Doc.spec_copy s e k h subs seed x hi hx hal hlen hk hf

/-- (Session 3) `insert.explode()` accepted, in a state with the invariants of reachable states: the INSERT is dead and
    gone from its layout; the copies of the block content (fresh handles, block order; nested INSERTs stay INSERTs)
    followed by one TEXT per attached ATTRIB (which takes over the handle of the ATTRIB) are appended to that layout;
    every other layout and block - the exploded block definition included - shows what it showed -/
theorem spec_explode (s : State) (e : Nat) (news : List (Nat × List Nat)) (seed : Nat) (hi : DocInv s) (hl : LinkInv s)
    (hok : (step s (.explode e news seed)).2 = .ok) :
    ∃ x k, findEnt s e = some x ∧ x.owner = some k ∧
      isAlive (step s (.explode e news seed)).1 e = false ∧
      content (step s (.explode e news seed)).1 k =
        (content s k).erase e ++ (news.map (·.1) ++ x.subs.take (x.subs.length - 1)) ∧
      ∀ k', k' ≠ k → content (step s (.explode e news seed)).1 k' = content s k' :=
  Doc.spec_explode s e news seed hi hl hok

/-- `entity.destroy()` removes the entity from what every layout shows and nothing else, although
    the dead object stays in the entity space until the next purge -/
theorem spec_destroy (s : State) (e k : Nat) :
    content (step s (.destroy e)).1 k = (content s k).filter (· ≠ e) := Doc.spec_destroy s e k

/-- `layout.unlink_entity(e)`: the entity leaves this layout's content, nothing else changes -/
theorem spec_unlink (s s' : State) (k e : Nat) (h : unlinkCore s k e = some s') (ha : isAlive s e = true) :
    content s' k = (content s k).erase e ∧ ∀ k', k' ≠ k → content s' k' = content s k' :=
  Doc.spec_unlink s s' k e h ha

/-- `layout.delete_entity(e)`: accepted, the entity is dead and gone from the layout's content -/
theorem spec_delete (s : State) (k e : Nat) (s1 : State) (h : unlinkCore s k e = some s1)
    (ha : isAlive s e = true) :
    (step s (.del k e)).2 = .ok ∧ isAlive (step s (.del k e)).1 e = false ∧
    content (step s (.del k e)).1 k = ((content s k).erase e).filter (· ≠ e) :=
  Doc.spec_delete s k e s1 h ha

/-- purging never changes what a layout shows -/
theorem spec_purge (s : State) (k : Nat) : content (step s .purge).1 k = content s k :=
  Doc.spec_purge s k

/-- `layout.add_entity(e)` accepted: `e` was alive, is appended to this layout, other layouts unchanged -/
theorem spec_add_entity (s : State) (k e : Nat) (hok : (step s (.addex k e)).2 = .ok) :
    isAlive s e = true ∧ content (step s (.addex k e)).1 k = content s k ++ [e] ∧
    ∀ k', k' ≠ k → content (step s (.addex k e)).1 k' = content s k' := Doc.spec_addex s k e hok

/-- `layout.move_to_layout(e, target)` accepted: `e` leaves the source, is appended to the target, all other
    layouts and blocks show what they showed -/
theorem spec_move (s : State) (k1 e k2 : Nat) (hne : k1 ≠ k2) (hok : (step s (.move k1 e k2)).2 = .ok) :
    content (step s (.move k1 e k2)).1 k1 = (content s k1).erase e ∧
    content (step s (.move k1 e k2)).1 k2 = content s k2 ++ [e] ∧
    ∀ k', k' ≠ k1 → k' ≠ k2 → content (step s (.move k1 e k2)).1 k' = content s k' :=
  Doc.spec_move s k1 e k2 hne hok

/-- (Session 3) name lookups of table entries = "a table is a set of case-insensitive keys": `table.add(name)` rejects
    an existing name in any spelling and changes nothing, otherwise exactly this key is new (LTYPE, STYLE, DIMSTYLE, APPID,
    UCS, VIEW) -/
theorem spec_add_entry (s : State) (t : Nat) (name : Str) (seed : Nat) (hseed : s.next ≤ seed) :
    (hasEntry s t name = true → step s (.addEntry t name seed) = (s, .err .dxfTableEntryError)) ∧
    (hasEntry s t name = false → (step s (.addEntry t name seed)).2 = .ok ∧
      ∀ t' n', hasEntry (step s (.addEntry t name seed)).1 t' n' =
        (hasEntry s t' n' || (t' == t && lower n' == lower name))) := Doc.spec_addEntry s t name seed hseed

/-- (Session 3) `table.remove(name)`: an unknown name is rejected and nothing changes, otherwise exactly this key is gone
    (in any reachable state: `TabInv`, see `table_keys_unique`) -/
theorem spec_remove_entry (s : State) (t : Nat) (name : Str) (hi : TabInv s) :
    (hasEntry s t name = false → step s (.delEntry t name) = (s, .err .dxfTableEntryError)) ∧
    (hasEntry s t name = true → (step s (.delEntry t name)).2 = .ok ∧
      ∀ t' n', hasEntry (step s (.delEntry t name)).1 t' n' =
        (hasEntry s t' n' && !(t' == t && lower n' == lower name))) := Doc.spec_delEntry s t name hi

/-- (Session 3) `table.duplicate_entry(a, b)`: unknown source rejected; otherwise `b` exists afterwards, no other
    lookup changes -/
theorem spec_duplicate_entry (s : State) (t : Nat) (a b : Str) (seed : Nat) (hseed : s.next ≤ seed) :
    (hasEntry s t a = false → step s (.dupEntry t a b seed) = (s, .err .dxfTableEntryError)) ∧
    (hasEntry s t a = true → (step s (.dupEntry t a b seed)).2 = .ok ∧
      ∀ t' n', hasEntry (step s (.dupEntry t a b seed)).1 t' n' =
        (hasEntry s t' n' || (t' == t && lower n' == lower b))) := Doc.spec_dupEntry s t a b seed hseed

/-- (Session 3) group names are a case-insensitive name map: `doc.groups.new(name)` rejects an existing name in any spelling
    and changes nothing, otherwise appends exactly one empty group of that name -/
theorem spec_new_group (s : State) (name : Str) (h seed : Nat) (hf : freshOk s [h] seed = true) :
    (hasGroup s name = true → step s (.newGroup name h seed) = (s, .err .dxfValueError)) ∧
    (hasGroup s name = false → (step s (.newGroup name h seed)).2 = .ok ∧
      (step s (.newGroup name h seed)).1.groups = s.groups ++ [(name, h, [])] ∧
      ∀ n', hasGroup (step s (.newGroup name h seed)).1 n' = (hasGroup s n' || lower n' == lower name)) :=
  Doc.spec_newGroup s name h seed hf

/-- (Session 3) `doc.groups.delete(name)`: an unknown name is rejected and nothing changes, otherwise the group is gone under
    every spelling and no other lookup changes (the code needed fix d899da2f0 for this) -/
theorem spec_delete_group (s : State) (name : Str) :
    (hasGroup s name = false → step s (.delGroup name) = (s, .err .dxfValueError)) ∧
    (hasGroup s name = true → (step s (.delGroup name)).2 = .ok ∧
      ∀ n', hasGroup (step s (.delGroup name)).1 n' = (hasGroup s n' && !(lower n' == lower name))) :=
  Doc.spec_delGroup s name

/-- (Session 3) in every reachable state every (table, key) pair is stored once; only add / remove / duplicate entry
    and save+reload change the tables at all (`Doc.step_tabs`) -/
theorem table_keys_unique (s : State) (ops : List Op) (h : TabInv s) : TabInv (run s ops) :=
  Doc.tab_inv_reachable s ops h

/-- in every reachable state a live entity is stored in the entity database (no history, however it mixes
    destroy / purge / reload, leaves a live entity outside the database) -/
theorem live_in_database (s : State) (ops : List Op) (hd : DbInv s) : DbInv (run s ops) :=
  Doc.db_inv_reachable s ops hd

/-- `doc.write()` + `ezdxf.read()` in a reachable state: every layout and block shows exactly what it showed
    (same handles, same order) -/
theorem spec_reload (s : State) (seed : Nat) (ho : OwnerInv s) (hd : DbInv s) (hseed : s.next ≤ seed) (k : Nat) :
    (step s (.reload seed)).2 = .ok ∧ content (step s (.reload seed)).1 k = content s k :=
  Doc.spec_reload s seed ho hd hseed k

/-- a second save/load cycle changes nothing further (state equality field by field; the handle generator
    takes the value stored in the second file) -/
theorem reload_twice (s : State) (seed seed2 : Nat) (ho : OwnerInv s) (hd : DbInv s) (hseed : s.next ≤ seed)
    (hseed2 : seed ≤ seed2) :
    let s1 := (step s (.reload seed)).1
    let s2 := (step s1 (.reload seed2)).1
    (step s1 (.reload seed2)).2 = .ok ∧ s2.ents = s1.ents ∧ s2.spaces = s1.spaces ∧ s2.blocks = s1.blocks ∧
      s2.layouts = s1.layouts ∧ s2.layers = s1.layers ∧ s2.next = seed2 :=
  Doc.reload_twice s seed seed2 ho hd hseed hseed2

/-- (Session 3) `reload_twice` for the new fields: a second save/load cycle changes neither the table entries (the required
    ones are back after the first) nor the groups (invalid members purged / mixed groups cleared by the first) -/
theorem reload_twice_tables_groups (s : State) (seed seed2 : Nat) (hd : DbInv s) (hseed : s.next ≤ seed)
    (hseed2 : seed ≤ seed2) :
    let s1 := (step s (.reload seed)).1
    let s2 := (step s1 (.reload seed2)).1
    s2.tabs = s1.tabs ∧ s2.groups = s1.groups := Doc.reload_twice_tabs_groups s seed seed2 hd hseed hseed2

/-! ### final round: lookup, iteration, and the layouts as an exact relation -/

/-- iterating a layout or block never yields a destroyed entity (any state) -/
theorem iteration_filters_dead (s : State) (k x : Nat) (hx : x ∈ content s k) : isAlive s x = true :=
  Doc.iteration_filters_dead s k x hx

/-- `entitydb.get(handle)` in every reachable state: a live entity is found under its handle and is stored in the
    database; a handle that was never issued finds nothing -/
theorem lookup_sound (s : State) (ops : List Op) (hd : DbInv s) (h : Nat) :
    (isAlive (run s ops) h = true → ∃ e, findEnt (run s ops) h = some e ∧ e.h = h ∧ e.indb = true) ∧
    (h ∉ hs (run s ops) → findEnt (run s ops) h = none) :=
  Doc.lookup_sound _ (Doc.db_inv_reachable s ops hd) h

/-- what the layouts show is EXACTLY the ownership relation, in every reachable state: no entity twice in a layout, no
    entity in two layouts, and `x` is shown by layout `k` iff `x` is alive, reports `k` as its owner and `k` exists -/
theorem content_exact (s : State) (ops : List Op) (h : DocInv s) (ho : OwnerInv s) (hl : LinkInv s) (hok : HistOk s ops) :
    (∀ k, (content (run s ops) k).Nodup) ∧
    (∀ k k' x, x ∈ content (run s ops) k → x ∈ content (run s ops) k' → k = k') ∧
    (∀ k x, x ∈ content (run s ops) k ↔
      (isAlive (run s ops) x = true ∧ ownerOf (run s ops) x = some k ∧ (spaceOf (run s ops) k).isSome = true)) :=
  Doc.content_exact _ (Doc.inv_reachable s ops h hok) (Doc.owner_inv_reachable s ops h ho hok)
    (Doc.link_inv_reachable s ops h hl hok)

/-! ### non-vacuity: the state of a fresh `ezdxf.new()` document, and a history on it -/

def fresh : State :=
  { ents := [], spaces := [(23, []), (27, [])],
    blocks := [(lower modelSpaceName, modelSpaceName, 23), (lower paperSpaceName, paperSpaceName, 27)],
    layouts := [⟨modelKey, ofString "Model", 23, 0⟩, ⟨upper (ofString "Layout1"), ofString "Layout1", 27, 1⟩],
    layers := [[48], ofString "defpoints"], next := 47,
    tabs := [(1, ofString "byblock"), (1, ofString "bylayer"), (1, ofString "continuous"), (2, ofString "standard"),
             (3, ofString "standard"), (4, ofString "acad")] }

example : DocInv fresh := by
  simp [DocInv, HInv, SInv, hs, keys, allH, fresh]

example : OwnerInv fresh := by
  simp [OwnerInv, fresh]

example : DbInv fresh := by
  simp [DbInv, fresh]

example : LinkInv fresh := by
  intro h ha; simp [isAlive, findEnt, fresh] at ha

example : TabInv fresh := by
  simp [TabInv, fresh, ofString]

#guard isAlive (run fresh [.add 23 47 48]) 47 && !(((spaceOf (run fresh [.add 23 47 48]) 27).getD []).contains 47)
#guard (step (run fresh [.add 23 47 48]) (.move 27 47 23)).2 == .err .dxfValueError
#guard (step (run fresh [.add 23 47 48, .reload 60]) (.reload 59)).2 == .err .notFresh
#guard (step (run fresh [.add 23 47 48, .reload 60]) (.reload 60)).2 == .ok
#guard hasGroup (run fresh [.newGroup (ofString "g1") 47 48]) (ofString "G1")
#guard !hasGroup (run fresh [.newGroup (ofString "g1") 47 48, .delGroup (ofString "G1")]) (ofString "g1")
#guard freshOk fresh [47] 48
#guard hasEntry (run fresh [.addEntry 2 (ofString "Abc") 50]) 2 (ofString "aBC")
#guard (step (run fresh [.addEntry 2 (ofString "Abc") 50]) (.addEntry 2 (ofString "ABC") 51)).2 == .err .dxfTableEntryError
#guard !hasEntry (run fresh [.addEntry 2 (ofString "Abc") 50, .delEntry 2 (ofString "ABC")]) 2 (ofString "abc")

example : HistOk fresh [.add 23 47 48, .unlink 23 47, .addex 27 47] := by
  simp [HistOk, OpOk, step, newEnt, unlinkCore, spaceOf, freshOk, fresh, isAlive, findEnt, setSpace, allH, setEnt]

#guard (run fresh [.add 23 47 48, .add 27 48 49, .move 27 48 23, .destroy 47, .newBlock (ofString "B1") 49 52,
    .copy 48 49 52 [] 53, .purge, .del 23 48]).spaces == [(23, []), (27, []), (49, [52])]

-- explode is accepted on a reachable state: block B with a LINE and a POLYLINE, INSERT with one ATTRIB in the modelspace
def exploded : State := run fresh [.newBlock (ofString "B") 47 50, .add 47 50 51, .addL 47 none 51 [53, 52] 54,
    .add 23 54 55, .addL 23 (some (ofString "b")) 55 [56, 57] 58]
#guard (step exploded (.explode 55 [(58, []), (59, [61, 60])] 62)).2 == .ok
#guard content (step exploded (.explode 55 [(58, []), (59, [61, 60])] 62)).1 23 == [54, 58, 59, 56]
#guard content (step exploded (.explode 55 [(58, []), (59, [61, 60])] 62)).1 47 == [50, 51]

#guard content (run fresh [.addL 23 none 47 [49, 50, 48] 51, .copy 47 27 51 [53, 54, 52] 55]) 27 == [51]
#guard freshOk fresh (47 :: [49, 50, 48]) 51

#guard issuedAll fresh [.add 23 47 48, .addL 23 none 48 [50, 51, 49] 52, .copy 48 27 52 [54, 55, 53] 56,
    .add 23 40 57, .newGroup (ofString "G") 57 58] == [47, 48, 50, 51, 49, 52, 54, 55, 53, 57]

-- move is accepted on a reachable state, and an unlinked entity does not come back from a reload
#guard (step (run fresh [.add 23 47 48, .add 27 48 49]) (.move 27 48 23)).2 == .ok
#guard content (run fresh [.add 23 47 48, .add 23 48 49, .unlink 23 47, .reload 60]) 23 == [48]
#guard isAlive (run fresh [.add 23 47 48, .add 23 48 49, .unlink 23 47, .reload 60]) 47 == false

end EzdxfVerif.Props.C05

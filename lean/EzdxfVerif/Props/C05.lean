/-
C05  API-visible document state follows a simple reference model.
Property theorems over the document state machine (Model/Doc.lean; vocabulary in Model/DocSpec.lean;
proofs in Lemmas/Doc.lean).  Every `theorem` here is a counted obligation.
-/
import EzdxfVerif.Lemmas.Doc
import EzdxfVerif.Lemmas.DocOwner
import EzdxfVerif.Lemmas.DocEffects
import EzdxfVerif.Lemmas.DocReload

namespace EzdxfVerif.Props.C05
open EzdxfVerif.Doc

/-- a request the API rejects leaves the document unchanged (all 19 operations) -/
theorem rejected_unchanged (s : State) (op : Op) (e : Err) (h : (step s op).2 = .err e) :
    (step s op).1 = s := Doc.rejected_unchanged s op e h

/-- a step either leaves the handle history alone or appends ONE handle that lies at or above the
    old generator value and below the new one; the generator never decreases -/
theorem step_grow (s : State) (op : Op) : Grow s (step s op).1 := Doc.step_grow s op

/-- every entity has one unique, never reused handle: for every history, all handles ever issued
    (`ents` is a monotone history, destroyed and purged entities included) are pairwise distinct
    and below the handle generator -/
theorem handles_never_reused (s : State) (ops : List Op) (h : HInv s) : HInv (run s ops) :=
  Doc.handles_never_reused s ops h

/-- one step preserves the structural invariant (unique block-record keys below the generator; every
    handle at most once over ALL entity spaces; spaces hold only created entities), for
    `layout.add_entity` under its documented caller obligation `OpOk` -/
theorem step_inv (s : State) (op : Op) (h : DocInv s) (hok : OpOk s op) : DocInv (step s op).1 :=
  Doc.step_Inv s op h hok

/-- at every step of any history: at most one owner, exactly once -/
theorem inv_reachable (s : State) (ops : List Op) (h : DocInv s) (hok : HistOk s ops) :
    DocInv (run s ops) := Doc.inv_reachable s ops h hok

/-- the owner layout an entity reports is the layout that lists it: in every reachable state every live
    entity listed in an entity space is owned by exactly that block record -/
theorem owner_consistent (s : State) (ops : List Op) (h : DocInv s) (ho : OwnerInv s) (hok : HistOk s ops) :
    OwnerInv (run s ops) := Doc.owner_inv_reachable s ops h ho hok

/-- reference model "a layout is an ordered list": creation appends to that layout only -/
theorem spec_add (s : State) (k h seed : Nat) (sp : List Nat) (hsp : spaceOf s k = some sp)
    (hf : freshOk s [h] seed = true) (hfresh : h ∉ hs s)
    (hknown : ∀ k' l, spaceOf s k' = some l → ∀ x ∈ l, x ∈ hs s) :
    (step s (.add k h seed)).2 = .ok ∧
    content (step s (.add k h seed)).1 k = content s k ++ [h] ∧
    ∀ k', k' ≠ k → content (step s (.add k h seed)).1 k' = content s k' :=
  Doc.spec_add s k h seed sp hsp hf hfresh hknown

/-- `entity.destroy()` removes the entity from what every layout shows and nothing else, although
    the dead object stays in the entity space until the next purge -/
theorem spec_destroy (s : State) (e k : Nat) :
    content (step s (.destroy e)).1 k = (content s k).filter (· ≠ e) := Doc.spec_destroy s e k

/-- `layout.unlink_entity(e)`: the entity leaves this layout's content, nothing else changes -/
theorem spec_unlink (s s' : State) (k e : Nat) (h : unlinkCore s k e = some s') (ha : isAlive s e = true) :
    content s' k = (content s k).erase e ∧ ∀ k', k' ≠ k → content s' k' = content s k' :=
  Doc.spec_unlink s s' k e h ha

/-- `layout.delete_entity(e)`: accepted, the entity is dead and gone from the layout's content -/
theorem spec_delete (s : State) (k e : Nat) (s1 : State) (h : unlinkCore s k e = some s1)
    (ha : isAlive s e = true) :
    (step s (.del k e)).2 = .ok ∧ isAlive (step s (.del k e)).1 e = false ∧
    content (step s (.del k e)).1 k = ((content s k).erase e).filter (· ≠ e) :=
  Doc.spec_delete s k e s1 h ha

/-- purging never changes what a layout shows -/
theorem spec_purge (s : State) (k : Nat) : content (step s .purge).1 k = content s k :=
  Doc.spec_purge s k

/-- `layout.add_entity(e)` accepted: `e` was alive, is appended to this layout, other layouts unchanged -/
theorem spec_add_entity (s : State) (k e : Nat) (hok : (step s (.addex k e)).2 = .ok) :
    isAlive s e = true ∧ content (step s (.addex k e)).1 k = content s k ++ [e] ∧
    ∀ k', k' ≠ k → content (step s (.addex k e)).1 k' = content s k' := Doc.spec_addex s k e hok

/-- `layout.move_to_layout(e, target)` accepted: `e` leaves the source, is appended to the target, all other
    layouts and blocks show what they showed -/
theorem spec_move (s : State) (k1 e k2 : Nat) (hne : k1 ≠ k2) (hok : (step s (.move k1 e k2)).2 = .ok) :
    content (step s (.move k1 e k2)).1 k1 = (content s k1).erase e ∧
    content (step s (.move k1 e k2)).1 k2 = content s k2 ++ [e] ∧
    ∀ k', k' ≠ k1 → k' ≠ k2 → content (step s (.move k1 e k2)).1 k' = content s k' :=
  Doc.spec_move s k1 e k2 hne hok

/-- in every reachable state a live entity is stored in the entity database (no history, however it mixes
    destroy / purge / reload, leaves a live entity outside the database) -/
theorem live_in_database (s : State) (ops : List Op) (hd : DbInv s) : DbInv (run s ops) :=
  Doc.db_inv_reachable s ops hd

/-- `doc.write()` + `ezdxf.read()` in a reachable state: every layout and block shows exactly what it showed
    (same handles, same order) -/
theorem spec_reload (s : State) (seed : Nat) (ho : OwnerInv s) (hd : DbInv s) (hseed : s.next ≤ seed) (k : Nat) :
    (step s (.reload seed)).2 = .ok ∧ content (step s (.reload seed)).1 k = content s k :=
  Doc.spec_reload s seed ho hd hseed k

/-- a second save/load cycle changes nothing further (state equality field by field; the handle generator
    takes the value stored in the second file) -/
theorem reload_twice (s : State) (seed seed2 : Nat) (ho : OwnerInv s) (hd : DbInv s) (hseed : s.next ≤ seed)
    (hseed2 : seed ≤ seed2) :
    let s1 := (step s (.reload seed)).1
    let s2 := (step s1 (.reload seed2)).1
    (step s1 (.reload seed2)).2 = .ok ∧ s2.ents = s1.ents ∧ s2.spaces = s1.spaces ∧ s2.blocks = s1.blocks ∧
      s2.layouts = s1.layouts ∧ s2.layers = s1.layers ∧ s2.next = seed2 :=
  Doc.reload_twice s seed seed2 ho hd hseed hseed2

/-! ### non-vacuity: the state of a fresh `ezdxf.new()` document, and a history on it -/

def fresh : State :=
  ⟨[], [(23, []), (27, [])], [(lower modelSpaceName, modelSpaceName, 23), (lower paperSpaceName, paperSpaceName, 27)],
   [⟨modelKey, ofString "Model", 23, 0⟩, ⟨upper (ofString "Layout1"), ofString "Layout1", 27, 1⟩],
   [[48], ofString "defpoints"], 47⟩

example : DocInv fresh := by
  simp [DocInv, HInv, SInv, hs, keys, allH, fresh]

example : OwnerInv fresh := by
  simp [OwnerInv, fresh]

example : DbInv fresh := by
  simp [DbInv, fresh]

example : HistOk fresh [.add 23 47 48, .unlink 23 47, .addex 27 47] := by
  simp [HistOk, OpOk, step, newEnt, unlinkCore, spaceOf, freshOk, fresh, isAlive, findEnt, setSpace, allH, setEnt]

#guard (run fresh [.add 23 47 48, .add 27 48 49, .move 27 48 23, .destroy 47, .newBlock (ofString "B1") 49 52,
    .copy 48 49 52 53, .purge, .del 23 48]).spaces == [(23, []), (27, []), (49, [52])]

-- move is accepted on a reachable state, and an unlinked entity does not come back from a reload
#guard (step (run fresh [.add 23 47 48, .add 27 48 49]) (.move 27 48 23)).2 == .ok
#guard content (run fresh [.add 23 47 48, .add 23 48 49, .unlink 23 47, .reload 60]) 23 == [48]
#guard isAlive (run fresh [.add 23 47 48, .add 23 48 49, .unlink 23 47, .reload 60]) 47 == false

end EzdxfVerif.Props.C05

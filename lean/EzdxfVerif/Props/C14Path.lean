/-
C14 (session 3)  `ezdxf.path.Path`: flattening of whole paths, multi-paths, path construction.
Counted property theorems about Model/FlattenPath.lean (every `theorem` of this file is an obligation of ./check C14).

Part 1  `Path.flattening` = start point + concatenation of the per-command pieces; `flat_sound` lifted from one
        curve to the whole path; first/last vertex; command end points visited in order.
Part 2  multi-paths: flattening = concatenation of the flattenings of `sub_paths()`; `sub_paths` of `to_multi_path`.
Part 3  structural invariants of the Path API (no leading / no two consecutive MOVE_TO, flag = any MOVE_TO,
        `_start_index` = `make_vertex_index(_commands)`), `reversed()` on the flat storage.
Part 4  path/tools.py: `add_bezier4p` on connected chains, the reversal rule (known finding C14-7 as a theorem),
        the assembly order of `bulge_to`, `from_vertices`.
-/
import EzdxfVerif.Props.C14
import EzdxfVerif.Model.FlattenPath
import EzdxfVerif.Gen.FlattenKernels

namespace EzdxfVerif.Props.C14Path
open EzdxfVerif.Flatten EzdxfVerif.FlattenPath EzdxfVerif.Props.C14

variable {V : Type}

/-! ## Part 1: `Path._approximate` / `Path.flattening` -/

/-- what `_approximate` emits for ONE element that starts at `s` (`elemPiece`: the end point of a `LINE_TO` /
    `MOVE_TO`, the vertices of the curve callback without its first one for a curve) -/
def PieceOf (curve3 : V → V → V → Except PErr (List V)) (curve4 : V → V → V → V → Except PErr (List V))
    (s : V) (el : Elem V) (l : List V) : Prop :=
  elemPiece curve3 curve4 s el = .ok l

/-- one piece per element, every element starting where its predecessor ended -/
def Pieces (piece : V → Elem V → List V → Prop) : V → List (Elem V) → List (List V) → Prop
  | _, [], ps => ps = []
  | s, el :: r, ps => ∃ p rest, ps = p :: rest ∧ piece s el p ∧ Pieces piece el.fin r rest

private theorem approxElems_pieces (curve3 : V → V → V → Except PErr (List V))
    (curve4 : V → V → V → V → Except PErr (List V)) :
    ∀ (els : List (Elem V)) (s : V) (out : List V), approxElems curve3 curve4 s els = .ok out →
      ∃ ps, Pieces (PieceOf curve3 curve4) s els ps ∧ out = ps.flatten := by
  intro els
  induction els with
  | nil =>
    intro s out h
    simp only [approxElems, Except.ok.injEq] at h
    exact ⟨[], rfl, by simp [← h]⟩
  | cons el r ih =>
    intro s out h
    simp only [approxElems] at h
    split at h
    · simp at h
    · rename_i p hp
      split at h
      · rename_i l hl
        simp only [Except.ok.injEq] at h
        obtain ⟨ps, hps, hl'⟩ := ih el.fin l hl
        exact ⟨p :: ps, ⟨p, ps, rfl, hp, hps⟩, by simp [← h, hl']⟩
      · simp at h

/-- **structure of `Path._approximate`** (any curve callbacks, so `approximate()` and `flattening()` alike):
    a path without commands yields nothing; otherwise the output is the start point followed by the
    concatenation of one piece per command, in command order -/
theorem approximate_concat (curve3 : V → V → V → Except PErr (List V))
    (curve4 : V → V → V → V → Except PErr (List V)) (p : Path V) (out : List V)
    (h : approximate curve3 curve4 p = .ok out) :
    (p.elems = [] ∧ out = []) ∨
    (p.elems ≠ [] ∧ ∃ ps, Pieces (PieceOf curve3 curve4) p.start p.elems ps ∧ out = p.start :: ps.flatten) := by
  unfold approximate at h
  split at h
  · rename_i hnil
    left
    simp only [Except.ok.injEq] at h
    exact ⟨hnil, h.symm⟩
  · rename_i hne
    right
    split at h
    · rename_i l hl
      simp only [Except.ok.injEq] at h
      obtain ⟨ps, hps, hl'⟩ := approxElems_pieces curve3 curve4 p.elems p.start l hl
      exact ⟨fun hc => hne hc, ps, hps, by rw [← h, hl']⟩
    · simp at h

/-- the piece of `Path.flattening(distance, segments)` for one element: a curve contributes the vertices of a
    run that meets `FlatSpec` for ITS Bezier curve (start = where the previous element ended), without the
    first vertex -/
def FlatPiece (d : Rat) (n : Nat) (s : V3) : Elem V3 → List V3 → Prop
  | .lineTo e, l => l = [e]
  | .moveTo e, l => l = [e]
  | .curve3To e c, l =>
    ∃ tv, FlatSpec ⟨bez3Point s c e, midTest d⟩ 0 1 n tv ∧ l = (tv.map Prod.snd).tail
  | .curve4To e c1 c2, l =>
    ∃ tv, FlatSpec ⟨bez4Point s c1 c2 e, midTest d⟩ 0 1 n tv ∧ l = (tv.map Prod.snd).tail

/-- the flattening configuration is one of the two twins: sound inner subdivision, `isclose` tolerances that
    do not snap before the last of `n` steps -/
structure CfgOK (cfg : FlatCfg) (n : Nat) : Prop where
  sub : ∀ C : Curve V3, SubSound C (cfg.sub C)
  pos : 0 < n
  rel0 : 0 ≤ cfg.relTol
  rel : cfg.relTol * n < 1
  abs : cfg.absTol * n < 1

private theorem bez4_zero (p0 p1 p2 p3 : V3) : bez4Point p0 p1 p2 p3 0 = p0 := by
  cases p0; cases p1; cases p2; cases p3
  simp [bez4Point, V3.add, V3.sub, V3.smul]

private theorem bez4_one (p0 p1 p2 p3 : V3) : bez4Point p0 p1 p2 p3 1 = p3 := by
  cases p0; cases p1; cases p2; cases p3
  simp [bez4Point, V3.add, V3.sub, V3.smul]

private theorem bez3_zero (p0 p1 p2 : V3) : bez3Point p0 p1 p2 0 = p0 := by
  cases p0; cases p1; cases p2
  simp [bez3Point, V3.add, V3.sub, V3.smul]

private theorem bez3_one (p0 p1 p2 : V3) : bez3Point p0 p1 p2 1 = p2 := by
  cases p0; cases p1; cases p2
  simp [bez3Point, V3.add, V3.sub, V3.smul]

private theorem flatCurve4_spec (cfg : FlatCfg) (d : Rat) (n : Nat) (hc : CfgOK cfg n) (p0 p1 p2 p3 : V3)
    (l : List V3) (h : flatCurve4 cfg d n p0 p1 p2 p3 = .ok l) :
    ∃ tv, FlatSpec ⟨bez4Point p0 p1 p2 p3, midTest d⟩ 0 1 n tv ∧ l = tv.map Prod.snd := by
  unfold flatCurve4 at h
  split at h
  · simp at h
  · split at h
    · rename_i tv htv
      simp only [Except.ok.injEq] at h
      refine ⟨tv, ?_, h.symm⟩
      unfold flatCurve4TV at htv
      exact bezierFlat_sound _ _ (hc.sub _) cfg.relTol cfg.absTol p0 p3 n cfg.fuel tv
        (bez4_zero p0 p1 p2 p3).symm (bez4_one p0 p1 p2 p3).symm hc.pos hc.rel0 hc.rel hc.abs htv
    · simp at h

private theorem flatCurve3_spec (cfg : FlatCfg) (d : Rat) (n : Nat) (hc : CfgOK cfg n) (p0 p1 p2 : V3)
    (l : List V3) (h : flatCurve3 cfg d n p0 p1 p2 = .ok l) :
    ∃ tv, FlatSpec ⟨bez3Point p0 p1 p2, midTest d⟩ 0 1 n tv ∧ l = tv.map Prod.snd := by
  unfold flatCurve3 at h
  split at h
  · simp at h
  · split at h
    · rename_i tv htv
      simp only [Except.ok.injEq] at h
      refine ⟨tv, ?_, h.symm⟩
      unfold flatCurve3TV at htv
      exact bezierFlat_sound _ _ (hc.sub _) cfg.relTol cfg.absTol p0 p2 n cfg.fuel tv
        (bez3_zero p0 p1 p2).symm (bez3_one p0 p1 p2).symm hc.pos hc.rel0 hc.rel hc.abs htv
    · simp at h

private theorem pieces_mono {pc1 pc2 : V → Elem V → List V → Prop} (hp : ∀ s el l, pc1 s el l → pc2 s el l) :
    ∀ (els : List (Elem V)) (s : V) (ps : List (List V)), Pieces pc1 s els ps → Pieces pc2 s els ps := by
  intro els
  induction els with
  | nil => intro s ps h; exact h
  | cons el r ih =>
    intro s ps h
    obtain ⟨p, rest, h1, h2, h3⟩ := h
    exact ⟨p, rest, h1, hp _ _ _ h2, ih _ _ h3⟩

private theorem pieceOf_flatPiece (cfg : FlatCfg) (d : Rat) (n : Nat) (hc : CfgOK cfg n) (s : V3) (el : Elem V3)
    (l : List V3) (h : PieceOf (flatCurve3 cfg d n) (flatCurve4 cfg d n) s el l) : FlatPiece d n s el l := by
  unfold PieceOf at h
  cases el with
  | lineTo e => simpa [elemPiece, FlatPiece, eq_comm] using h
  | moveTo e => simpa [elemPiece, FlatPiece, eq_comm] using h
  | curve3To e c =>
    simp only [elemPiece] at h
    split at h
    · simp at h
    · simp at h
    · rename_i first pts hf
      simp only [Except.ok.injEq] at h
      obtain ⟨tv, hspec, hl⟩ := flatCurve3_spec cfg d n hc s c e _ hf
      exact ⟨tv, hspec, by rw [← hl, ← h]; rfl⟩
  | curve4To e c1 c2 =>
    simp only [elemPiece] at h
    split at h
    · simp at h
    · simp at h
    · rename_i first pts hf
      simp only [Except.ok.injEq] at h
      obtain ⟨tv, hspec, hl⟩ := flatCurve4_spec cfg d n hc s c1 c2 e _ hf
      exact ⟨tv, hspec, by rw [← hl, ← h]; rfl⟩

/-- **flat_sound lifted to whole paths**: a finished `Path.flattening(distance, segments)` of a path with
    ANY number of commands is the start point followed by one piece per command, and the piece of every curve
    command consists of the vertices of a run meeting `FlatSpec` for ITS OWN Bezier curve - parameters strictly
    increasing from 0 to 1, all vertices on that curve, at least `segments` chords, every emitted chord passed
    the mid-point test of that curve (first chord from the end point of the previous command). -/
theorem path_flat_sound (cfg : FlatCfg) (d : Rat) (n : Nat) (hc : CfgOK cfg n) (p : Path V3) (out : List V3)
    (hne : p.elems ≠ []) (h : pathFlat cfg d n p = .ok out) :
    ∃ ps, Pieces (FlatPiece d n) p.start p.elems ps ∧ out = p.start :: ps.flatten := by
  rcases approximate_concat _ _ p out h with ⟨h0, _⟩ | ⟨_, ps, hps, hout⟩
  · exact absurd h0 hne
  · exact ⟨ps, pieces_mono (pieceOf_flatPiece cfg d n hc) _ _ _ hps, hout⟩

/-- a path without commands yields no vertex at all (docstring: "Does not yield any vertices for empty paths") -/
theorem path_flat_empty (cfg : FlatCfg) (d : Rat) (n : Nat) (p : Path V3) (h : p.elems = []) :
    pathFlat cfg d n p = .ok [] := by
  simp [pathFlat, approximate, h]

/-- every piece ends exactly at the end point of its command -/
private theorem flatPiece_last (d : Rat) (n : Nat) (hn : 0 < n) (s : V3) (el : Elem V3) (l : List V3)
    (h : FlatPiece d n s el l) : ∃ init, l = init ++ [el.fin] := by
  have key : ∀ (P : Rat → V3) (tv : List (TV V3)), FlatSpec ⟨P, midTest d⟩ 0 1 n tv →
      ∃ init, (tv.map Prod.snd).tail = init ++ [P 1] := by
    intro P tv hs
    have hlen := hs.count
    have hlast := hs.last
    match tv, hlen, hlast with
    | [], hlen, _ => simp at hlen
    | [_], hlen, _ => simp at hlen; omega
    | a :: b :: r, _, hlast =>
      have hne : (b :: r) ≠ [] := List.cons_ne_nil _ _
      rw [List.getLast?_cons_cons] at hlast
      have : (b :: r) = (b :: r).dropLast ++ [(1, P 1)] := by
        have h1 := List.dropLast_append_getLast? (l := b :: r) (1, P 1) (by simpa using hlast)
        exact h1.symm
      refine ⟨((b :: r).dropLast).map Prod.snd, ?_⟩
      simp only [List.map_cons, List.tail_cons]
      rw [← List.map_cons, this]
      simp
  cases el with
  | lineTo e => exact ⟨[], by simpa [FlatPiece, Elem.fin] using h⟩
  | moveTo e => exact ⟨[], by simpa [FlatPiece, Elem.fin] using h⟩
  | curve3To e c =>
    obtain ⟨tv, hs, hl⟩ := h
    obtain ⟨init, hi⟩ := key _ tv hs
    exact ⟨init, by rw [hl, hi]; simp [Elem.fin, bez3_one]⟩
  | curve4To e c1 c2 =>
    obtain ⟨tv, hs, hl⟩ := h
    obtain ⟨init, hi⟩ := key _ tv hs
    exact ⟨init, by rw [hl, hi]; simp [Elem.fin, bez4_one]⟩

private theorem pieces_last (d : Rat) (n : Nat) (hn : 0 < n) :
    ∀ (els : List (Elem V3)) (s : V3) (ps : List (List V3)), Pieces (FlatPiece d n) s els ps →
      (s :: ps.flatten).getLast? = some ((els.getLast?.map Elem.fin).getD s) ∧
      (els.map Elem.fin).Sublist ps.flatten := by
  intro els
  induction els with
  | nil => intro s ps h; simp only [Pieces] at h; subst h; simp
  | cons el r ih =>
    intro s ps h
    obtain ⟨p, rest, h1, h2, h3⟩ := h
    subst h1
    obtain ⟨init, hi⟩ := flatPiece_last d n hn s el p h2
    obtain ⟨q1, q2⟩ := ih el.fin rest h3
    constructor
    · have : s :: (p :: rest).flatten = (s :: init) ++ (el.fin :: rest.flatten) := by
        rw [List.flatten_cons, hi]; simp
      rw [this, List.getLast?_append, q1]
      cases r with
      | nil => simp
      | cons el2 r2 =>
        rw [List.getLast?_cons_cons, List.getLast?_eq_some_getLast (List.cons_ne_nil el2 r2)]
        simp
    · rw [List.flatten_cons, hi, List.map_cons, List.append_assoc]
      exact (List.Sublist.cons_cons el.fin q2).trans (List.sublist_append_right init _)

/-- **ends**: a finished flattening of a non-empty path starts exactly at `path.start` and ends exactly at
    `path.end` (the end point of the last command) -/
theorem path_flat_ends (cfg : FlatCfg) (d : Rat) (n : Nat) (hc : CfgOK cfg n) (p : Path V3) (out : List V3)
    (hne : p.elems ≠ []) (h : pathFlat cfg d n p = .ok out) :
    out.head? = some p.start ∧ out.getLast? = some p.fin := by
  obtain ⟨ps, hps, hout⟩ := path_flat_sound cfg d n hc p out hne h
  subst hout
  exact ⟨rfl, (pieces_last d n hc.pos _ _ _ hps).1⟩

/-- **every command end point is visited, in command order**: the end points of the commands form a
    subsequence of the emitted vertices after the start point -/
theorem path_flat_visits_ends (cfg : FlatCfg) (d : Rat) (n : Nat) (hc : CfgOK cfg n) (p : Path V3) (out : List V3)
    (hne : p.elems ≠ []) (h : pathFlat cfg d n p = .ok out) :
    (p.elems.map Elem.fin).Sublist out.tail := by
  obtain ⟨ps, hps, hout⟩ := path_flat_sound cfg d n hc p out hne h
  subst hout
  exact (pieces_last d n hc.pos _ _ _ hps).2

/-! ### termination of `Path.flattening` -/

private theorem spanLoop_mono (C : Curve V) (sub1 sub2 : Rat → V → Rat → V → Except Err (List (TV V)))
    (hrel : ∀ t0 s t1 e l, sub1 t0 s t1 e = .ok l → sub2 t0 s t1 e = .ok l)
    (close : Rat → Rat → Bool) (delta tEnd : Rat) (endPt : V) :
    ∀ (fuel : Nat) (st st' : St V), spanLoop C sub1 close delta tEnd endPt fuel st = .ok st' →
      spanLoop C sub2 close delta tEnd endPt fuel st = .ok st' := by
  intro fuel
  induction fuel with
  | zero => intro st st' h; simp [spanLoop] at h
  | succ fuel ih =>
    intro st st' h
    unfold spanLoop at h ⊢
    split
    · rename_i hlt
      simp only [hlt, if_true] at h
      split at h
      · simp at h
      · rename_i l hl
        simp only [hrel _ _ _ _ _ hl]
        exact ih _ _ h
    · rename_i hlt
      simp only [hlt, if_false] at h
      exact h

/-- the Cython twin's configuration with recursion budget `b` and the outer fuel `segments + 2` -/
def pyxCfgOf (b n : Nat) : FlatCfg := ⟨fun C => recSub C b, 1e-9, 1e-12, n + 2⟩

private theorem recSub_mono' (C : Curve V3) :
    ∀ (b : Nat) (t0 : Rat) (s : V3) (t1 : Rat) (e : V3) (l : List (TV V3)),
      recSub C b t0 s t1 e = .ok l → ∀ k, recSub C (b + k) t0 s t1 e = .ok l := by
  intro b
  induction b with
  | zero => intro t0 s t1 e l h; simp [recSub] at h
  | succ b ih =>
    intro t0 s t1 e l h k
    have hk : b + 1 + k = (b + k) + 1 := by omega
    rw [hk]
    unfold recSub at h
    simp only at h
    split at h
    · rename_i hacc; simp only [recSub, hacc]; exact h
    · rename_i hsplit
      split at h
      · simp at h
      · rename_i l1 h1
        split at h
        · simp at h
        · rename_i l2 h2
          simp only [recSub, hsplit, ih _ _ _ _ _ h1 k, ih _ _ _ _ _ h2 k]
          exact h
    · simp at h

private theorem flatCurve_mono (d : Rat) (n b : Nat) :
    (∀ p0 p1 p2 p3 l, flatCurve4 (pyxCfgOf b n) d n p0 p1 p2 p3 = .ok l →
      ∀ k, flatCurve4 (pyxCfgOf (b + k) n) d n p0 p1 p2 p3 = .ok l) ∧
    (∀ p0 p1 p2 l, flatCurve3 (pyxCfgOf b n) d n p0 p1 p2 = .ok l →
      ∀ k, flatCurve3 (pyxCfgOf (b + k) n) d n p0 p1 p2 = .ok l) := by
  constructor
  · intro p0 p1 p2 p3 l h k
    unfold flatCurve4 at h ⊢
    split
    · rename_i hd; simp [hd] at h
    · rename_i hd
      simp only [hd, if_false] at h
      split at h
      · rename_i tv htv
        unfold flatCurve4TV bezierFlat at htv ⊢
        simp only [pyxCfgOf] at htv ⊢
        split at htv
        · rename_i st hst
          rw [spanLoop_mono _ _ _ (fun t0 s t1 e l hl => recSub_mono' _ b t0 s t1 e l hl k) _ _ _ _ _ _ _ hst]
          simp only [Except.ok.injEq] at htv
          simp only [htv]; exact h
        · simp at htv
      · simp at h
  · intro p0 p1 p2 l h k
    unfold flatCurve3 at h ⊢
    split
    · rename_i hd; simp [hd] at h
    · rename_i hd
      simp only [hd, if_false] at h
      split at h
      · rename_i tv htv
        unfold flatCurve3TV bezierFlat at htv ⊢
        simp only [pyxCfgOf] at htv ⊢
        split at htv
        · rename_i st hst
          rw [spanLoop_mono _ _ _ (fun t0 s t1 e l hl => recSub_mono' _ b t0 s t1 e l hl k) _ _ _ _ _ _ _ hst]
          simp only [Except.ok.injEq] at htv
          simp only [htv]; exact h
        · simp at htv
      · simp at h

private theorem elemPiece_terminates (d : Rat) (hd : 0 < d) (n : Nat) (hn : 0 < n) (hn9 : n < 10 ^ 9)
    (s : V3) (el : Elem V3) :
    ∃ (b : Nat) (l : List V3), ∀ k,
      elemPiece (flatCurve3 (pyxCfgOf (b + k) n) d n) (flatCurve4 (pyxCfgOf (b + k) n) d n) s el = .ok l := by
  have hd0 : d ≠ 0 := ne_of_gt hd
  cases el with
  | lineTo e => exact ⟨0, [e], fun _ => rfl⟩
  | moveTo e => exact ⟨0, [e], fun _ => rfl⟩
  | curve3To e c =>
    obtain ⟨b, out, h1, _⟩ := bezier3_terminates s c e d hd n hn hn9
    have hlen : out ≠ [] := by
      have hspec := bezierFlat_sound _ _ (recSub_sound _ b) (1e-9) (1e-12) s e n (n + 2) out
        (by cases s; cases c; cases e; simp [bez3Point, V3.add, V3.sub, V3.smul])
        (by cases s; cases c; cases e; simp [bez3Point, V3.add, V3.sub, V3.smul]) hn (by norm_num)
        (by have : (n : Rat) < 10 ^ 9 := by exact_mod_cast hn9
            linarith)
        (by have : (n : Rat) < 10 ^ 9 := by exact_mod_cast hn9
            linarith) h1
      intro hc; have := hspec.count; rw [hc] at this; simp at this
    have h0 : flatCurve3 (pyxCfgOf b n) d n s c e = .ok (out.map Prod.snd) := by
      unfold flatCurve3 flatCurve3TV
      simp only [hd0, if_false, pyxCfgOf, h1]
    obtain ⟨a, r, har⟩ : ∃ a r, out.map Prod.snd = a :: r := by
      cases out with
      | nil => exact absurd rfl hlen
      | cons x xs => exact ⟨_, _, rfl⟩
    refine ⟨b, r, fun k => ?_⟩
    simp only [elemPiece, (flatCurve_mono d n b).2 _ _ _ _ h0 k, har]
  | curve4To e c1 c2 =>
    obtain ⟨b, out, h1, _⟩ := bezier4_terminates s c1 c2 e d hd n hn hn9
    have hlen : out ≠ [] := by
      have hspec := bezierFlat_sound _ _ (recSub_sound _ b) (1e-9) (1e-12) s e n (n + 2) out
        (by cases s; cases c1; cases c2; cases e; simp [bez4Point, V3.add, V3.sub, V3.smul])
        (by cases s; cases c1; cases c2; cases e; simp [bez4Point, V3.add, V3.sub, V3.smul]) hn (by norm_num)
        (by have : (n : Rat) < 10 ^ 9 := by exact_mod_cast hn9
            linarith)
        (by have : (n : Rat) < 10 ^ 9 := by exact_mod_cast hn9
            linarith) h1
      intro hc; have := hspec.count; rw [hc] at this; simp at this
    have h0 : flatCurve4 (pyxCfgOf b n) d n s c1 c2 e = .ok (out.map Prod.snd) := by
      unfold flatCurve4 flatCurve4TV
      simp only [hd0, if_false, pyxCfgOf, h1]
    obtain ⟨a, r, har⟩ : ∃ a r, out.map Prod.snd = a :: r := by
      cases out with
      | nil => exact absurd rfl hlen
      | cons x xs => exact ⟨_, _, rfl⟩
    refine ⟨b, r, fun k => ?_⟩
    simp only [elemPiece, (flatCurve_mono d n b).1 _ _ _ _ _ h0 k, har]

/-- **`Path.flattening` terminates**: for EVERY path (any number of lines, gaps, quadratic and cubic curves), every
    tolerance `distance > 0` and every `segments` in `1 ‥ 10^9 - 1` there is a recursion budget from which on the
    flattening (Cython twin of the Bezier classes, outer fuel `segments + 2`) returns a vertex list - the same list for
    every larger budget; `path_flat_sound` / `path_flat_ends` / `path_flat_visits_ends` describe that list. -/
theorem path_flat_terminates (d : Rat) (hd : 0 < d) (n : Nat) (hn : 0 < n) (hn9 : n < 10 ^ 9) (p : Path V3) :
    ∃ (b : Nat) (out : List V3), ∀ k, pathFlat (pyxCfgOf (b + k) n) d n p = .ok out := by
  have hels : ∀ (els : List (Elem V3)) (s : V3), ∃ (b : Nat) (out : List V3), ∀ k,
      approxElems (flatCurve3 (pyxCfgOf (b + k) n) d n) (flatCurve4 (pyxCfgOf (b + k) n) d n) s els = .ok out := by
    intro els
    induction els with
    | nil => intro s; exact ⟨0, [], fun _ => rfl⟩
    | cons el r ih =>
      intro s
      obtain ⟨b1, l1, h1⟩ := elemPiece_terminates d hd n hn hn9 s el
      obtain ⟨b2, l2, h2⟩ := ih el.fin
      refine ⟨b1 + b2, l1 ++ l2, fun k => ?_⟩
      have e1 := h1 (b2 + k)
      have e2 := h2 (b1 + k)
      rw [show b1 + (b2 + k) = b1 + b2 + k by omega] at e1
      rw [show b2 + (b1 + k) = b1 + b2 + k by omega] at e2
      simp only [approxElems, e1, e2]
  obtain ⟨b, out, h⟩ := hels p.elems p.start
  cases hp : p.elems with
  | nil => exact ⟨0, [], fun _ => by simp [pathFlat, approximate, hp]⟩
  | cons a r =>
    refine ⟨b, p.start :: out, fun k => ?_⟩
    have := h k
    rw [hp] at this
    simp only [pathFlat, approximate, hp, this]

/-! ### both Bezier twins give the same `Path.flattening` -/

open EzdxfVerif.Gen.FlattenKernels in
/-- **`Path.flattening` does not depend on the Bezier twin**: for `segments < 10^9`, whenever the flattening with the pure
    Python `Bezier4P/3P` (stack machine, `math.isclose` defaults) finishes with the vertex list `out`, the flattening with
    the Cython twins (recursion with any budget, `REL_TOL`/`ABS_TOL`) returns exactly `out` - or raises the
    `RecursionError` of a curve, and nothing else.  Any path, any distance. -/
theorem path_twins_agree (d : Rat) (n fuel subfuel budget : Nat) (hn : 0 < n) (hn9 : n < 10 ^ 9) (p : Path V3)
    (out : List V3)
    (h : pathFlat ⟨fun C => stackSub C subfuel, mathRelTol, mathAbsTol, fuel⟩ d n p = .ok out) :
    pathFlat ⟨fun C => recSub C budget, pyxRelTol, pyxAbsTol, fuel⟩ d n p = .ok out ∨
    pathFlat ⟨fun C => recSub C budget, pyxRelTol, pyxAbsTol, fuel⟩ d n p = .error (.curve .recursion) := by
  set cpy : FlatCfg := ⟨fun C => stackSub C subfuel, mathRelTol, mathAbsTol, fuel⟩ with hcpy
  set cpx : FlatCfg := ⟨fun C => recSub C budget, pyxRelTol, pyxAbsTol, fuel⟩ with hcpx
  -- one curve
  have h4 : ∀ p0 p1 p2 p3 l, flatCurve4 cpy d n p0 p1 p2 p3 = .ok l →
      flatCurve4 cpx d n p0 p1 p2 p3 = .ok l ∨ flatCurve4 cpx d n p0 p1 p2 p3 = .error (.curve .recursion) := by
    intro p0 p1 p2 p3 l hl
    unfold flatCurve4 at hl ⊢
    split
    · rename_i hd; simp [hd] at hl
    · rename_i hd
      simp only [hd, if_false] at hl
      split at hl
      · rename_i tv htv
        unfold flatCurve4TV at htv ⊢
        rcases twins_agree _ p0 p3 n fuel subfuel budget tv hn hn9 htv with h2 | h2
        · left; simp only [hcpx, h2]; exact hl
        · right; simp only [hcpx, h2]
      · simp at hl
  have h3 : ∀ p0 p1 p2 l, flatCurve3 cpy d n p0 p1 p2 = .ok l →
      flatCurve3 cpx d n p0 p1 p2 = .ok l ∨ flatCurve3 cpx d n p0 p1 p2 = .error (.curve .recursion) := by
    intro p0 p1 p2 l hl
    unfold flatCurve3 at hl ⊢
    split
    · rename_i hd; simp [hd] at hl
    · rename_i hd
      simp only [hd, if_false] at hl
      split at hl
      · rename_i tv htv
        unfold flatCurve3TV at htv ⊢
        rcases twins_agree _ p0 p2 n fuel subfuel budget tv hn hn9 htv with h2 | h2
        · left; simp only [hcpx, h2]; exact hl
        · right; simp only [hcpx, h2]
      · simp at hl
  -- one element
  have hel : ∀ (s : V3) (el : Elem V3) (l : List V3),
      elemPiece (flatCurve3 cpy d n) (flatCurve4 cpy d n) s el = .ok l →
      elemPiece (flatCurve3 cpx d n) (flatCurve4 cpx d n) s el = .ok l ∨
      elemPiece (flatCurve3 cpx d n) (flatCurve4 cpx d n) s el = .error (.curve .recursion) := by
    intro s el l hl
    cases el with
    | lineTo e => left; exact hl
    | moveTo e => left; exact hl
    | curve3To e c =>
      simp only [elemPiece] at hl ⊢
      split at hl
      · simp at hl
      · simp at hl
      · rename_i first pts hf
        rcases h3 _ _ _ _ hf with h2 | h2
        · left; rw [h2]; exact hl
        · right; rw [h2]
    | curve4To e c1 c2 =>
      simp only [elemPiece] at hl ⊢
      split at hl
      · simp at hl
      · simp at hl
      · rename_i first pts hf
        rcases h4 _ _ _ _ _ hf with h2 | h2
        · left; rw [h2]; exact hl
        · right; rw [h2]
  -- all elements
  have hels : ∀ (els : List (Elem V3)) (s : V3) (l : List V3),
      approxElems (flatCurve3 cpy d n) (flatCurve4 cpy d n) s els = .ok l →
      approxElems (flatCurve3 cpx d n) (flatCurve4 cpx d n) s els = .ok l ∨
      approxElems (flatCurve3 cpx d n) (flatCurve4 cpx d n) s els = .error (.curve .recursion) := by
    intro els
    induction els with
    | nil => intro s l hl; left; exact hl
    | cons el r ih =>
      intro s l hl
      simp only [approxElems] at hl ⊢
      split at hl
      · simp at hl
      · rename_i pc hpc
        split at hl
        · rename_i lr hlr
          rcases hel _ _ _ hpc with h2 | h2
          · rw [h2]
            rcases ih _ _ hlr with h5 | h5
            · left; simp only [h5]; exact hl
            · right; simp only [h5]
          · right; rw [h2]
        · simp at hl
  unfold pathFlat approximate at h ⊢
  cases hp : p.elems with
  | nil => left; simpa [hp] using h
  | cons a r =>
    simp only [hp] at h ⊢
    split at h
    · rename_i l hl
      rcases hels _ _ _ hl with h2 | h2
      · left; simp only [h2]; exact h
      · right; simp only [h2]
    · simp at h

/-! ## Part 2: multi-paths -/

/-- the runs of elements between the `MOVE_TO`s: (first run, [(start of the next sub-path, its run), …]) -/
def splitMoves : List (Elem V) → List (Elem V) × List (V × List (Elem V))
  | [] => ([], [])
  | el :: r =>
    match el with
    | .moveTo e => ([], (e, (splitMoves r).1) :: (splitMoves r).2)
    | _ => (el :: (splitMoves r).1, (splitMoves r).2)

private theorem appendElem_snoc (p : Path V) (el : Elem V) (h : el.isMove = false) :
    p.appendElem el = ⟨p.start, p.elems ++ [el], p.hasSub⟩ := by
  cases el with
  | moveTo e => simp [Elem.isMove] at h
  | lineTo e => rfl
  | curve3To e c => rfl
  | curve4To e c1 c2 => rfl

private theorem subPathsGo_split :
    ∀ (els : List (Elem V)) (done : List (Path V)) (cur : Path V),
      Path.subPathsGo done cur els =
        done ++ (⟨cur.start, cur.elems ++ (splitMoves els).1, cur.hasSub⟩ ::
          (splitMoves els).2.map (fun x => (⟨x.1, x.2, false⟩ : Path V))) := by
  intro els
  induction els with
  | nil => intro done cur; simp [Path.subPathsGo, splitMoves]
  | cons el r ih =>
    intro done cur
    cases el with
    | moveTo e =>
      simp only [Path.subPathsGo, splitMoves]
      rw [ih]
      simp [Path.new]
    | lineTo e =>
      simp only [Path.subPathsGo, splitMoves]
      rw [ih, appendElem_snoc _ _ rfl]
      simp
    | curve3To e c =>
      simp only [Path.subPathsGo, splitMoves]
      rw [ih, appendElem_snoc _ _ rfl]
      simp
    | curve4To e c1 c2 =>
      simp only [Path.subPathsGo, splitMoves]
      rw [ih, appendElem_snoc _ _ rfl]
      simp

/-- `sub_paths()` = the runs between the `MOVE_TO`s, each as a single path starting at its `MOVE_TO` location -/
theorem subPaths_eq_split (p : Path V) :
    p.subPaths = ⟨p.start, (splitMoves p.elems).1, false⟩ ::
      (splitMoves p.elems).2.map (fun x => (⟨x.1, x.2, false⟩ : Path V)) := by
  unfold Path.subPaths
  rw [subPathsGo_split]
  simp [Path.new]

private theorem splitMoves_noMove :
    ∀ (els : List (Elem V)), (∀ el ∈ (splitMoves els).1, el.isMove = false) ∧
      ∀ x ∈ (splitMoves els).2, ∀ el ∈ x.2, el.isMove = false := by
  intro els
  induction els with
  | nil => simp [splitMoves]
  | cons el r ih =>
    cases el with
    | moveTo e =>
      simp only [splitMoves]
      refine ⟨by simp, ?_⟩
      intro x hx
      rcases List.mem_cons.mp hx with rfl | hx
      · exact ih.1
      · exact ih.2 x hx
    | lineTo e =>
      simp only [splitMoves]
      exact ⟨by intro el hel; rcases List.mem_cons.mp hel with rfl | h; rfl; exact ih.1 el h, ih.2⟩
    | curve3To e c =>
      simp only [splitMoves]
      exact ⟨by intro el hel; rcases List.mem_cons.mp hel with rfl | h; rfl; exact ih.1 el h, ih.2⟩
    | curve4To e c1 c2 =>
      simp only [splitMoves]
      exact ⟨by intro el hel; rcases List.mem_cons.mp hel with rfl | h; rfl; exact ih.1 el h, ih.2⟩

/-- every path yielded by `sub_paths()` is a Single-Path: no `MOVE_TO` command, flag not set -/
theorem subPaths_single (p : Path V) :
    ∀ s ∈ p.subPaths, s.hasSub = false ∧ ∀ el ∈ s.elems, el.isMove = false := by
  intro s hs
  rw [subPaths_eq_split] at hs
  obtain ⟨h1, h2⟩ := splitMoves_noMove p.elems
  rcases List.mem_cons.mp hs with rfl | hs
  · exact ⟨rfl, h1⟩
  · obtain ⟨x, hx, rfl⟩ := List.mem_map.mp hs
    exact ⟨rfl, h2 x hx⟩

/-- what a multi-path emits for ONE of its sub-paths: the sub-path's own `_approximate`; a sub-path without
    commands (a trailing `MOVE_TO`) contributes its start point although its own flattening is empty -/
def approxSub (curve3 : V → V → V → Except PErr (List V)) (curve4 : V → V → V → V → Except PErr (List V))
    (s : Path V) : Except PErr (List V) :=
  match s.elems with
  | [] => .ok [s.start]
  | _ => approximate curve3 curve4 s

/-- the sub-paths one after the other (the first exception wins, as in a generator) -/
def approxSubs (curve3 : V → V → V → Except PErr (List V)) (curve4 : V → V → V → V → Except PErr (List V)) :
    List (Path V) → Except PErr (List V)
  | [] => .ok []
  | s :: r =>
    match approxSub curve3 curve4 s with
    | .error x => .error x
    | .ok o =>
      match approxSubs curve3 curve4 r with
      | .ok os => .ok (o ++ os)
      | .error x => .error x

private theorem approxSub_eq (curve3 : V → V → V → Except PErr (List V))
    (curve4 : V → V → V → V → Except PErr (List V)) (s : Path V) :
    approxSub curve3 curve4 s =
      match approxElems curve3 curve4 s.start s.elems with
      | .ok l => .ok (s.start :: l)
      | .error x => .error x := by
  unfold approxSub approximate
  cases h : s.elems with
  | nil => simp [approxElems]
  | cons a l =>
    simp only
    cases approxElems curve3 curve4 s.start (a :: l) <;> rfl

private theorem approxElems_split (curve3 : V → V → V → Except PErr (List V))
    (curve4 : V → V → V → V → Except PErr (List V)) :
    ∀ (els : List (Elem V)) (s : V),
      approxElems curve3 curve4 s els =
        match approxElems curve3 curve4 s (splitMoves els).1 with
        | .error x => .error x
        | .ok l =>
          match approxSubs curve3 curve4 ((splitMoves els).2.map (fun x => (⟨x.1, x.2, false⟩ : Path V))) with
          | .ok ls => .ok (l ++ ls)
          | .error x => .error x := by
  intro els
  induction els with
  | nil => intro s; simp [splitMoves, approxElems, approxSubs]
  | cons el r ih =>
    intro s
    cases el with
    | moveTo e =>
      simp only [splitMoves, List.map_cons, approxSubs]
      rw [approxSub_eq]
      simp only [approxElems, elemPiece, Elem.fin]
      rw [ih e]
      cases approxElems curve3 curve4 e (splitMoves r).1 with
      | error x => rfl
      | ok l =>
        simp only
        cases approxSubs curve3 curve4 ((splitMoves r).2.map (fun x => (⟨x.1, x.2, false⟩ : Path V))) with
        | error x => rfl
        | ok ls => simp
    | lineTo e =>
      simp only [splitMoves, approxElems]
      rw [ih]
      cases elemPiece curve3 curve4 s (Elem.lineTo e) with
      | error x => rfl
      | ok p =>
        simp only
        cases approxElems curve3 curve4 (Elem.lineTo e).fin (splitMoves r).1 with
        | error x => rfl
        | ok l =>
          simp only
          cases approxSubs curve3 curve4 ((splitMoves r).2.map (fun x => (⟨x.1, x.2, false⟩ : Path V))) with
          | error x => rfl
          | ok ls => simp
    | curve3To e c =>
      simp only [splitMoves, approxElems]
      rw [ih]
      cases elemPiece curve3 curve4 s (Elem.curve3To e c) with
      | error x => rfl
      | ok p =>
        simp only
        cases approxElems curve3 curve4 (Elem.curve3To e c).fin (splitMoves r).1 with
        | error x => rfl
        | ok l =>
          simp only
          cases approxSubs curve3 curve4 ((splitMoves r).2.map (fun x => (⟨x.1, x.2, false⟩ : Path V))) with
          | error x => rfl
          | ok ls => simp
    | curve4To e c1 c2 =>
      simp only [splitMoves, approxElems]
      rw [ih]
      cases elemPiece curve3 curve4 s (Elem.curve4To e c1 c2) with
      | error x => rfl
      | ok p =>
        simp only
        cases approxElems curve3 curve4 (Elem.curve4To e c1 c2).fin (splitMoves r).1 with
        | error x => rfl
        | ok l =>
          simp only
          cases approxSubs curve3 curve4 ((splitMoves r).2.map (fun x => (⟨x.1, x.2, false⟩ : Path V))) with
          | error x => rfl
          | ok ls => simp

/-- **a multi-path flattens to the concatenation of its sub-paths** (any curve callbacks: `approximate()` and
    `flattening()`; equality of the whole result, exceptions included): for a path with at least one command,
    `_approximate(path)` is `_approximate(sub)` of every path of `path.sub_paths()` one after the other, where a
    sub-path without commands (trailing `MOVE_TO`) stands for its start point. -/
theorem multi_path_flat (curve3 : V → V → V → Except PErr (List V))
    (curve4 : V → V → V → V → Except PErr (List V)) (p : Path V) (hne : p.elems ≠ []) :
    approximate curve3 curve4 p = approxSubs curve3 curve4 p.subPaths := by
  rw [subPaths_eq_split]
  simp only [approxSubs]
  rw [approxSub_eq]
  simp only
  unfold approximate
  cases hp : p.elems with
  | nil => exact absurd hp hne
  | cons a l =>
    simp only
    rw [approxElems_split curve3 curve4 (a :: l) p.start]
    cases approxElems curve3 curve4 p.start (splitMoves (a :: l)).1 with
    | error x => rfl
    | ok l1 =>
      simp only
      cases approxSubs curve3 curve4 ((splitMoves (a :: l)).2.map (fun x => (⟨x.1, x.2, false⟩ : Path V))) with
      | error x => rfl
      | ok ls => simp

/-- a non-empty Single-Path: at least one command, no `MOVE_TO`, flag not set -/
def Single (q : Path V) : Prop := q.hasSub = false ∧ q.elems ≠ [] ∧ ∀ el ∈ q.elems, el.isMove = false

private theorem splitMoves_noMoves : ∀ (l : List (Elem V)), (∀ el ∈ l, el.isMove = false) → splitMoves l = (l, []) := by
  intro l
  induction l with
  | nil => intro _; rfl
  | cons el r ih =>
    intro h
    have hr := ih (fun x hx => h x (List.mem_cons_of_mem _ hx))
    cases el with
    | moveTo e => have := h (.moveTo e) (by simp); simp [Elem.isMove] at this
    | lineTo e => simp only [splitMoves, hr]
    | curve3To e c => simp only [splitMoves, hr]
    | curve4To e c1 c2 => simp only [splitMoves, hr]

private theorem splitMoves_append_move (e : V) (l2 : List (Elem V)) (h2 : ∀ el ∈ l2, el.isMove = false) :
    ∀ (l1 : List (Elem V)), splitMoves (l1 ++ Elem.moveTo e :: l2) =
      ((splitMoves l1).1, (splitMoves l1).2 ++ [(e, l2)]) := by
  intro l1
  induction l1 with
  | nil => simp [splitMoves, splitMoves_noMoves l2 h2]
  | cons el r ih =>
    cases el with
    | moveTo e' => simp only [List.cons_append, splitMoves, ih, List.cons_append]
    | lineTo e' => simp only [List.cons_append, splitMoves, ih]
    | curve3To e' c => simp only [List.cons_append, splitMoves, ih]
    | curve4To e' c1 c2 => simp only [List.cons_append, splitMoves, ih]

private theorem foldl_appendElem_noMoves : ∀ (es : List (Elem V)) (p : Path V), (∀ el ∈ es, el.isMove = false) →
    es.foldl Path.appendElem p = ⟨p.start, p.elems ++ es, p.hasSub⟩ := by
  intro es
  induction es with
  | nil => intro p _; simp
  | cons el r ih =>
    intro p h
    rw [List.foldl_cons, appendElem_snoc p el (h el (by simp)), ih _ (fun x hx => h x (List.mem_cons_of_mem _ hx))]
    simp

private theorem extend_after_nonmove (p q : Path V) (hq : Single q) (lastEl : Elem V)
    (hl : p.elems.getLast? = some lastEl) (hnm : lastEl.isMove = false) :
    p.extendMultiPath q = ⟨p.start, p.elems ++ Elem.moveTo q.start :: q.elems, true⟩ := by
  obtain ⟨_, hne, hmf⟩ := hq
  unfold Path.extendMultiPath
  cases he : q.elems with
  | nil => exact absurd he hne
  | cons a r =>
    simp only
    have hmove : p.moveTo q.start = ⟨p.start, p.elems ++ [Elem.moveTo q.start], true⟩ := by
      unfold Path.moveTo
      rw [hl]
      cases lastEl with
      | moveTo e => simp [Elem.isMove] at hnm
      | lineTo e => rfl
      | curve3To e c => rfl
      | curve4To e c1 c2 => rfl
    rw [hmove, foldl_appendElem_noMoves _ _ (by rw [← he]; exact hmf)]
    simp

private theorem subPaths_fold_extend : ∀ (qs : List (Path V)) (p : Path V) (lastEl : Elem V),
    p.elems.getLast? = some lastEl → lastEl.isMove = false → (∀ q ∈ qs, Single q) →
    (qs.foldl Path.extendMultiPath p).subPaths = p.subPaths ++ qs := by
  intro qs
  induction qs with
  | nil => intro p _ _ _ _; simp
  | cons q r ih =>
    intro p lastEl hl hnm hqs
    have hq := hqs q (by simp)
    rw [List.foldl_cons, extend_after_nonmove p q hq lastEl hl hnm]
    obtain ⟨hflag, hne, hmf⟩ := hq
    -- the new accumulator ends with the last (non-move) element of q
    obtain ⟨ql, hql, hlast'⟩ : ∃ ql, q.elems.getLast? = some ql ∧
        (p.elems ++ Elem.moveTo q.start :: q.elems).getLast? = some ql := by
      cases he : q.elems with
      | nil => exact absurd he hne
      | cons a t =>
        refine ⟨_, List.getLast?_eq_some_getLast (List.cons_ne_nil a t), ?_⟩
        rw [List.getLast?_append, List.getLast?_cons_cons, List.getLast?_eq_some_getLast (List.cons_ne_nil a t)]
        rfl
    have hqlnm : ql.isMove = false := hmf ql (List.mem_of_getLast? hql)
    rw [ih _ ql hlast' hqlnm (fun x hx => hqs x (List.mem_cons_of_mem _ hx))]
    have hsub : (⟨p.start, p.elems ++ Elem.moveTo q.start :: q.elems, true⟩ : Path V).subPaths = p.subPaths ++ [q] := by
      rw [subPaths_eq_split, subPaths_eq_split]
      simp only [splitMoves_append_move q.start q.elems hmf p.elems, List.map_append, List.map_cons, List.map_nil]
      have : (⟨q.start, q.elems, false⟩ : Path V) = q := by
        cases q; simp only [Path.mk.injEq, true_and]; exact hflag.symm
      rw [this]; simp
    rw [hsub]; simp

/-- **`to_multi_path` then `sub_paths()` is the identity** on non-empty single paths: the multi-path built by
    `extend_multi_path` from `qs` yields exactly `qs` again (so, with `multi_path_flat`, the flattening of the
    multi-path is the concatenation of the flattenings of the paths it was built from). -/
theorem toMultiPath_subPaths (zero : V) (qs : List (Path V)) (hne : qs ≠ []) (hqs : ∀ q ∈ qs, Single q) :
    (Path.toMultiPath zero qs).subPaths = qs := by
  cases qs with
  | nil => exact absurd rfl hne
  | cons q1 r =>
    have hq1 := hqs q1 (by simp)
    obtain ⟨hflag, hne1, hmf⟩ := hq1
    unfold Path.toMultiPath
    rw [List.foldl_cons]
    have hfirst : (Path.new zero).extendMultiPath q1 = q1 := by
      unfold Path.extendMultiPath
      cases he : q1.elems with
      | nil => exact absurd he hne1
      | cons a t =>
        simp only
        have : (Path.new zero).moveTo q1.start = ⟨q1.start, [], false⟩ := rfl
        rw [this, foldl_appendElem_noMoves _ _ (by rw [← he]; exact hmf)]
        cases q1
        simp only [Path.mk.injEq, true_and, List.nil_append] at he ⊢
        exact ⟨he.symm, hflag.symm⟩
    rw [hfirst]
    obtain ⟨ql, hql⟩ : ∃ ql, q1.elems.getLast? = some ql := by
      cases he : q1.elems with
      | nil => exact absurd he hne1
      | cons a t => exact ⟨_, List.getLast?_eq_some_getLast (List.cons_ne_nil a t)⟩
    rw [subPaths_fold_extend r q1 ql hql (hmf ql (List.mem_of_getLast? hql)) (fun x hx => hqs x (List.mem_cons_of_mem _ hx))]
    rw [subPaths_eq_split, splitMoves_noMoves q1.elems hmf]
    have : (⟨q1.start, q1.elems, false⟩ : Path V) = q1 := by
      cases q1; simp only [Path.mk.injEq, true_and]; exact hflag.symm
    simp [this]

/-! ## Part 3: structural invariants of the Path API -/

/-- no two consecutive `MOVE_TO` commands -/
def NoMM : List (Elem V) → Prop
  | [] => True
  | [_] => True
  | a :: b :: r => ¬ (a.isMove = true ∧ b.isMove = true) ∧ NoMM (b :: r)

/-- the invariants the comments of path.py rely on ("The first command at index 0 is never MOVE_TO!", "There are
    never two consecutive MOVE_TO commands in a Path!") and the meaning of the stored flag `_has_sub_paths` -/
structure WF (p : Path V) : Prop where
  first : ∀ el, p.elems.head? = some el → el.isMove = false
  noMM : NoMM p.elems
  flag : p.hasSub = p.elems.any Elem.isMove

private theorem noMM_snoc : ∀ (l : List (Elem V)) (x : Elem V), NoMM l →
    (∀ y, l.getLast? = some y → ¬ (y.isMove = true ∧ x.isMove = true)) → NoMM (l ++ [x]) := by
  intro l
  induction l with
  | nil => intro x _ _; trivial
  | cons a r ih =>
    intro x h hl
    cases r with
    | nil => exact ⟨hl a rfl, trivial⟩
    | cons b r' =>
      obtain ⟨h1, h2⟩ := h
      refine ⟨h1, ?_⟩
      exact ih x h2 (fun y hy => hl y (by rw [List.getLast?_cons_cons]; exact hy))

private theorem noMM_dropLast : ∀ (l : List (Elem V)), NoMM l → NoMM l.dropLast := by
  intro l
  induction l with
  | nil => intro _; trivial
  | cons a r ih =>
    intro h
    cases r with
    | nil => trivial
    | cons b r' =>
      obtain ⟨h1, h2⟩ := h
      cases r' with
      | nil => trivial
      | cons c r'' =>
        have := ih h2
        exact ⟨h1, this⟩

private theorem noMM_last_two : ∀ (l : List (Elem V)) (x y : Elem V), NoMM (l ++ [x, y]) →
    ¬ (x.isMove = true ∧ y.isMove = true) := by
  intro l
  induction l with
  | nil => intro x y h; exact h.1
  | cons a r ih =>
    intro x y h
    cases r with
    | nil => exact h.2.1
    | cons b r' => exact ih x y h.2

private theorem head_snoc (l : List (Elem V)) (x el : Elem V) (hne : l ≠ []) :
    (l ++ [x]).head? = some el → l.head? = some el := by
  cases l with
  | nil => exact absurd rfl hne
  | cons a r => simp

private theorem wf_snoc (p : Path V) (el : Elem V) (h : WF p) (hel : el.isMove = false) :
    WF (⟨p.start, p.elems ++ [el], p.hasSub⟩ : Path V) := by
  refine ⟨?_, ?_, ?_⟩
  · intro e he
    by_cases hne : p.elems = []
    · simp only [hne, List.nil_append, List.head?_cons, Option.some.injEq] at he
      rw [← he]; exact hel
    · exact h.first e (head_snoc _ _ _ hne he)
  · exact noMM_snoc _ _ h.noMM (fun y _ hc => by rw [hel] at hc; exact Bool.noConfusion hc.2)
  · simp only [List.any_append, List.any_cons, List.any_nil, hel, Bool.or_false]
    exact h.flag

private theorem wf_lineTo (p : Path V) (v : V) (h : WF p) : WF (p.lineTo v) := wf_snoc p _ h rfl
private theorem wf_curve3To (p : Path V) (e c : V) (h : WF p) : WF (p.curve3To e c) := wf_snoc p _ h rfl
private theorem wf_curve4To (p : Path V) (e c1 c2 : V) (h : WF p) : WF (p.curve4To e c1 c2) := wf_snoc p _ h rfl

private theorem wf_moveTo (p : Path V) (v : V) (h : WF p) : WF (p.moveTo v) := by
  unfold Path.moveTo
  cases hl : p.elems.getLast? with
  | none => exact ⟨h.first, h.noMM, h.flag⟩
  | some lastEl =>
    have hsplit : p.elems = p.elems.dropLast ++ [lastEl] := (List.dropLast_append_getLast? lastEl hl).symm
    have hne : p.elems ≠ [] := by intro hc; rw [hc] at hl; simp at hl
    cases lastEl with
    | moveTo e0 =>
      simp only
      -- the replaced MOVE_TO is not the first command
      have hinit : p.elems.dropLast ≠ [] := by
        intro hc
        rw [hc, List.nil_append] at hsplit
        have := h.first (.moveTo e0) (by rw [hsplit]; rfl)
        simp [Elem.isMove] at this
      refine ⟨?_, ?_, ?_⟩
      · intro e he
        have h1 := head_snoc _ _ _ hinit he
        have h2 : p.elems.head? = some e := by rw [hsplit]; cases hd : p.elems.dropLast with
          | nil => exact absurd hd hinit
          | cons a r => rw [hd] at h1; simpa using h1
        exact h.first e h2
      · refine noMM_snoc _ _ (noMM_dropLast _ h.noMM) ?_
        intro y hy hc
        have hsplit2 : p.elems.dropLast = p.elems.dropLast.dropLast ++ [y] :=
          (List.dropLast_append_getLast? y hy).symm
        have hm := h.noMM
        rw [hsplit, hsplit2, List.append_assoc] at hm
        exact noMM_last_two _ y (.moveTo e0) hm ⟨hc.1, rfl⟩
      · simp [Elem.isMove]
    | lineTo e0 =>
      simp only
      refine ⟨fun e he => h.first e (head_snoc _ _ _ hne he), ?_, by simp [Elem.isMove]⟩
      exact noMM_snoc _ _ h.noMM (fun y hy hc => by rw [hl] at hy; cases hy; simp [Elem.isMove] at hc)
    | curve3To e0 c0 =>
      simp only
      refine ⟨fun e he => h.first e (head_snoc _ _ _ hne he), ?_, by simp [Elem.isMove]⟩
      exact noMM_snoc _ _ h.noMM (fun y hy hc => by rw [hl] at hy; cases hy; simp [Elem.isMove] at hc)
    | curve4To e0 c1 c2 =>
      simp only
      refine ⟨fun e he => h.first e (head_snoc _ _ _ hne he), ?_, by simp [Elem.isMove]⟩
      exact noMM_snoc _ _ h.noMM (fun y hy hc => by rw [hl] at hy; cases hy; simp [Elem.isMove] at hc)

private theorem wf_appendElem (p : Path V) (el : Elem V) (h : WF p) : WF (p.appendElem el) := by
  cases el with
  | lineTo e => exact wf_lineTo p e h
  | moveTo e => exact wf_moveTo p e h
  | curve3To e c => exact wf_curve3To p e c h
  | curve4To e c1 c2 => exact wf_curve4To p e c1 c2 h

private theorem wf_foldl (els : List (Elem V)) : ∀ (p : Path V), WF p → WF (els.foldl Path.appendElem p) := by
  induction els with
  | nil => intro p h; exact h
  | cons el r ih => intro p h; exact ih _ (wf_appendElem p el h)

/-- the operations of the Path API (the argument of `append_path` / `extend_multi_path` is ANY path) -/
inductive Op (V : Type) where
  | lineTo (v : V) | moveTo (v : V) | curve3To (e c : V) | curve4To (e c1 c2 : V)
  | close | closeSubPath | appendPath (q : Path V) | extendMultiPath (q : Path V) | appendElem (el : Elem V)

/-- one operation; `close_sub_path` keeps the path when its assertion would fail -/
def applyOp (close : V → V → Bool) (p : Path V) : Op V → Path V
  | .lineTo v => p.lineTo v
  | .moveTo v => p.moveTo v
  | .curve3To e c => p.curve3To e c
  | .curve4To e c1 c2 => p.curve4To e c1 c2
  | .close => p.closeP close
  | .closeSubPath => (p.closeSubPath close).getD p
  | .appendPath q => p.appendPath close q
  | .extendMultiPath q => p.extendMultiPath q
  | .appendElem el => p.appendElem el

private theorem wf_applyOp (close : V → V → Bool) (p : Path V) (op : Op V) (h : WF p) : WF (applyOp close p op) := by
  cases op with
  | lineTo v => exact wf_lineTo p v h
  | moveTo v => exact wf_moveTo p v h
  | curve3To e c => exact wf_curve3To p e c h
  | curve4To e c1 c2 => exact wf_curve4To p e c1 c2 h
  | close => simp only [applyOp, Path.closeP]; split; exact h; exact wf_lineTo p _ h
  | closeSubPath =>
    simp only [applyOp, Path.closeSubPath]
    split
    · split
      · exact h
      · simp only [Option.getD_some]; split; exact h; exact wf_lineTo p _ h
    · simp only [Option.getD_some, Path.closeP]; split; exact h; exact wf_lineTo p _ h
  | appendPath q =>
    simp only [applyOp, Path.appendPath]
    split
    · exact h
    · apply wf_foldl
      split
      · rename_i hnil
        exact ⟨by simp [hnil], by simp [hnil, NoMM], by have := h.flag; simpa [hnil] using this⟩
      · split
        · exact h
        · exact wf_lineTo p _ h
  | extendMultiPath q =>
    simp only [applyOp, Path.extendMultiPath]
    split
    · exact h
    · exact wf_foldl _ _ (wf_moveTo p _ h)
  | appendElem el => exact wf_appendElem p el h

/-- **invariants of every path built through the API**: starting from `Path(start)`, after ANY sequence of
    `line_to / move_to / curve3_to / curve4_to / close / close_sub_path / append_path / extend_multi_path /
    append_path_element` (arguments arbitrary) the first command is never `MOVE_TO`, there are never two consecutive
    `MOVE_TO` commands, and `has_sub_paths` is true exactly when a `MOVE_TO` command exists. -/
theorem wf_reachable (close : V → V → Bool) (start : V) (ops : List (Op V)) :
    WF (ops.foldl (applyOp close) (Path.new start)) := by
  have : ∀ (ops : List (Op V)) (p : Path V), WF p → WF (ops.foldl (applyOp close) p) := by
    intro ops
    induction ops with
    | nil => intro p h; exact h
    | cons op r ih => intro p h; exact ih _ (wf_applyOp close p op h)
  exact this ops _ ⟨by simp [Path.new], by simp [Path.new, NoMM], by simp [Path.new]⟩

private theorem startIndexFrom_eq (els : List (Elem V)) :
    ∀ n, Path.startIndexFrom n els = makeVertexIndexFrom n (els.map Elem.code) := by
  induction els with
  | nil => intro n; rfl
  | cons el r ih =>
    intro n
    simp only [Path.startIndexFrom, List.map_cons, makeVertexIndexFrom]
    rw [ih]
    cases el <;> rfl

/-- `_start_index` as the adding methods fill it (`len(self._vertices)` at the time of the call) is
    `make_vertex_index(_commands)` (what `reversed()` and `from_vertices_and_commands()` recompute), every index points
    to the first vertex of its command, and `_vertices` has one start point plus `CMD_SIZE` vertices per command -/
theorem start_index_consistent (p : Path V) :
    p.startIndex = makeVertexIndex p.commands ∧
    p.vertices.length = 1 + (p.commands.map cmdSize).sum := by
  refine ⟨startIndexFrom_eq p.elems 1, ?_⟩
  simp only [Path.vertices, Path.commands, List.length_cons, List.map_map]
  have : ∀ els : List (Elem V), (els.flatMap Elem.verts).length = (els.map (cmdSize ∘ Elem.code)).sum := by
    intro els
    induction els with
    | nil => rfl
    | cons el r ih =>
      simp only [List.flatMap_cons, List.length_append, ih, List.map_cons, List.sum_cons]
      cases el <;> rfl
  rw [this]; omega

/-- end point of a run of elements that starts at `s` -/
def endOf (s : V) (es : List (Elem V)) : V := (es.getLast?.map Elem.fin).getD s

private theorem endOf_cons (s : V) (el : Elem V) (r : List (Elem V)) : endOf s (el :: r) = endOf el.fin r := by
  cases r with
  | nil => simp [endOf]
  | cons b r' =>
    simp only [endOf, List.getLast?_cons_cons]
    rw [List.getLast?_eq_some_getLast (List.cons_ne_nil b r')]
    simp

private theorem revSeg_verts (s : V) (el : Elem V) :
    [el.fin] ++ (Path.revSeg (s, el)).verts = el.verts.reverse ++ [s] := by
  cases el <;> simp [Path.revSeg, Elem.verts, Elem.fin]

private theorem reversed_vertices_core : ∀ (es : List (Elem V)) (s : V),
    endOf s es :: (((Path.segmentsFrom s es).reverse.map Path.revSeg).flatMap Elem.verts) =
      (s :: es.flatMap Elem.verts).reverse := by
  intro es
  induction es with
  | nil => intro s; simp [endOf, Path.segmentsFrom]
  | cons el r ih =>
    intro s
    have h := ih el.fin
    rw [endOf_cons]
    simp only [Path.segmentsFrom, List.reverse_cons, List.map_append, List.map_cons, List.map_nil,
      List.flatMap_append, List.flatMap_cons, List.flatMap_nil, List.append_nil]
    rw [← List.cons_append, h]
    simp only [List.reverse_cons, List.reverse_append, List.append_assoc]
    have := revSeg_verts s el
    simp only [List.singleton_append] at this
    rw [List.singleton_append, this]

private theorem reversed_commands_core : ∀ (es : List (Elem V)) (s : V),
    ((Path.segmentsFrom s es).reverse.map Path.revSeg).map Elem.code = (es.map Elem.code).reverse := by
  intro es
  induction es with
  | nil => intro s; rfl
  | cons el r ih =>
    intro s
    simp only [Path.segmentsFrom, List.reverse_cons, List.map_append, List.map_cons, List.map_nil, ih el.fin]
    cases el <;> rfl

/-- **`reversed()`**: the code reverses the flat lists `_vertices` and `_commands` (after dropping a trailing
    `MOVE_TO`); the model walks the segments backwards, swapping the control points of every curve and ending every
    segment at its old start.  Both are the same path: the model's flat storage is the reversed flat storage. -/
theorem reversed_flat (p : Path V) :
    let q : Path V := match p.elems.getLast? with
      | some (.moveTo _) => ⟨p.start, p.elems.dropLast, p.hasSub⟩
      | _ => p
    p.reversed.vertices = q.vertices.reverse ∧ p.reversed.commands = q.commands.reverse := by
  unfold Path.reversed
  cases hl : p.elems.getLast? with
  | none =>
    have : p.elems = [] := by
      cases he : p.elems with
      | nil => rfl
      | cons a r => rw [he] at hl; simp [List.getLast?_eq_some_getLast] at hl
    simp [Path.vertices, Path.commands, this]
  | some lastEl =>
    cases lastEl with
    | moveTo e0 =>
      simp only [Path.vertices, Path.commands]
      exact ⟨reversed_vertices_core _ _, reversed_commands_core _ _⟩
    | lineTo e0 =>
      simp only [Path.vertices, Path.commands]
      exact ⟨reversed_vertices_core _ _, reversed_commands_core _ _⟩
    | curve3To e0 c0 =>
      simp only [Path.vertices, Path.commands]
      exact ⟨reversed_vertices_core _ _, reversed_commands_core _ _⟩
    | curve4To e0 c1 c2 =>
      simp only [Path.vertices, Path.commands]
      exact ⟨reversed_vertices_core _ _, reversed_commands_core _ _⟩

/-! ## Part 4: path/tools.py - adding chains of Bezier curves -/

/-- how `add_bezier4p` stores one curve: `LINE_TO` if BOTH handles are retracted (exact comparison), else `CURVE4_TO` -/
def cubicElem (tol : Tol V) (c : Cubic V) : Elem V :=
  if tol.exact c.p0 c.p1 && tol.exact c.p3 c.p2 then .lineTo c.p3 else .curve4To c.p3 c.p1 c.p2

/-- a chain of curves linked by `isclose`: the first starts (close to) `a`, every next one starts close to the
    end point of its predecessor, `b` is close to the end point of the last -/
def Linked (tol : Tol V) : V → List (Cubic V) → V → Prop
  | a, [], b => tol.close b a = true
  | a, c :: r, b => tol.close c.p0 a = true ∧ Linked tol c.p3 r b

private theorem cubicElem_fin (tol : Tol V) (c : Cubic V) : (cubicElem tol c).fin = c.p3 := by
  unfold cubicElem; split <;> rfl

private theorem fin_snoc (s : V) (es : List (Elem V)) (el : Elem V) (f : Bool) :
    (⟨s, es ++ [el], f⟩ : Path V).fin = el.fin := by
  simp [Path.fin]

private theorem addCubic_close (tol : Tol V) (p : Path V) (c : Cubic V) (h : tol.close c.p0 p.fin = true) :
    addCubic tol p c = ⟨p.start, p.elems ++ [cubicElem tol c], p.hasSub⟩ := by
  unfold addCubic cubicElem
  simp only [h, if_true]
  split <;> rfl

private theorem foldl_addCubic_linked (tol : Tol V) :
    ∀ (cs : List (Cubic V)) (p : Path V) (b : V), Linked tol p.fin cs b →
      cs.foldl (addCubic tol) p = ⟨p.start, p.elems ++ cs.map (cubicElem tol), p.hasSub⟩ := by
  intro cs
  induction cs with
  | nil => intro p b _; simp
  | cons c r ih =>
    intro p b h
    obtain ⟨h1, h2⟩ := h
    rw [List.foldl_cons, addCubic_close tol p c h1]
    have hfin : (⟨p.start, p.elems ++ [cubicElem tol c], p.hasSub⟩ : Path V).fin = c.p3 := by
      rw [fin_snoc, cubicElem_fin]
    rw [ih _ b (by rw [hfin]; exact h2)]
    simp

private theorem linked_snoc (tol : Tol V) :
    ∀ (l : List (Cubic V)) (a b : V) (c : Cubic V),
      Linked tol a (l ++ [c]) b ↔ Linked tol a l c.p0 ∧ tol.close b c.p3 = true := by
  intro l
  induction l with
  | nil => intro a b c; simp [Linked]
  | cons d l ih =>
    intro a b c
    simp only [List.cons_append, Linked, ih, and_assoc]

/-- **reversing a linked chain** (`reverse_bezier_curves`): a chain from `a` to `b` becomes a chain from `b` to `a`
    (`isclose` is symmetric) -/
theorem reverseCurves_linked (tol : Tol V) (hsymm : ∀ x y, tol.close x y = tol.close y x) :
    ∀ (cs : List (Cubic V)) (a b : V), Linked tol a cs b → Linked tol b (reverseCurves cs) a := by
  intro cs
  induction cs with
  | nil => intro a b h; simp only [reverseCurves, List.map_nil, List.reverse_nil, Linked] at h ⊢; rw [hsymm]; exact h
  | cons c r ih =>
    intro a b h
    obtain ⟨h1, h2⟩ := h
    have : reverseCurves (c :: r) = reverseCurves r ++ [c.rev] := by simp [reverseCurves]
    rw [this, linked_snoc]
    exact ⟨ih _ _ h2, by rw [hsymm]; exact h1⟩

/-- `reverse_bezier_curves` of concatenated sub-arcs reverses the ORDER of the sub-arcs as well as every sub-arc
    (the assembly law of `bulge_to`: reversing each sub-arc in place, as seeded change C14-m2 does, is not the same) -/
theorem reverseCurves_flatten (arcs : List (List (Cubic V))) :
    reverseCurves arcs.flatten = (arcs.reverse.map reverseCurves).flatten := by
  induction arcs with
  | nil => rfl
  | cons a r ih =>
    have happ : ∀ x y : List (Cubic V), reverseCurves (x ++ y) = reverseCurves y ++ reverseCurves x := by
      intro x y; simp [reverseCurves]
    rw [List.flatten_cons, happ, ih]
    simp

/-- **`add_bezier4p`, forward case**: a linked chain that starts at the path end and does not END close to the
    path end is appended as it is - one command per curve, in order, no bridging `LINE_TO`, the start point and
    all previous commands untouched; the new path end is the end point of the last curve.
    (`make_path` of ARC, open ELLIPSE, open SPLINE: start, end and orientation of the construction tool's curves kept.) -/
theorem addBezier4p_forward (tol : Tol V) (p : Path V) (cs : List (Cubic V)) (last : Cubic V) (b : V)
    (hlast : cs.getLast? = some last) (hopen : tol.close p.fin last.p3 = false) (hl : Linked tol p.fin cs b) :
    addBezier4p tol p cs = ⟨p.start, p.elems ++ cs.map (cubicElem tol), p.hasSub⟩ ∧
    (addBezier4p tol p cs).fin = last.p3 := by
  have h1 : addBezier4p tol p cs = ⟨p.start, p.elems ++ cs.map (cubicElem tol), p.hasSub⟩ := by
    unfold addBezier4p
    simp only [hlast, hopen, Bool.false_eq_true, if_false]
    exact foldl_addCubic_linked tol cs p b hl
  refine ⟨h1, ?_⟩
  rw [h1]
  obtain ⟨init, rfl⟩ : ∃ init, cs = init ++ [last] := ⟨cs.dropLast, (List.dropLast_append_getLast? last hlast).symm⟩
  simp [Path.fin, cubicElem_fin]

/-- **`add_bezier4p`, reversal rule**: when the chain ENDS close to the path end, the whole chain is reversed and
    appended backwards.  For a closed curve added to an empty path (`reset`: path end = curve start ≈ curve end) this
    always fires: the curve is stored in the opposite direction (known finding C14-7: `make_path(CIRCLE)`, full
    ELLIPSE, closed SPLINE run clockwise although the entity runs counter-clockwise). -/
theorem addBezier4p_reversal (tol : Tol V) (hsymm : ∀ x y, tol.close x y = tol.close y x)
    (p : Path V) (cs : List (Cubic V)) (last : Cubic V) (a : V)
    (hlast : cs.getLast? = some last) (hend : tol.close p.fin last.p3 = true) (hl : Linked tol a cs p.fin) :
    addBezier4p tol p cs = ⟨p.start, p.elems ++ (reverseCurves cs).map (cubicElem tol), p.hasSub⟩ := by
  unfold addBezier4p
  simp only [hlast, hend, if_true]
  exact foldl_addCubic_linked tol _ p a (reverseCurves_linked tol hsymm cs a p.fin hl)

/-- C14-7 in the model: a closed linked chain (from `a` back to `a`) added to the empty path `Path(a)` is stored backwards -/
theorem closed_chain_added_reversed (tol : Tol V) (hsymm : ∀ x y, tol.close x y = tol.close y x)
    (a : V) (cs : List (Cubic V)) (last : Cubic V) (hlast : cs.getLast? = some last)
    (hl : Linked tol a cs a) :
    addBezier4p tol (Path.new a) cs = ⟨a, (reverseCurves cs).map (cubicElem tol), false⟩ := by
  have hfin : (Path.new a : Path V).fin = a := rfl
  have hclose : tol.close (Path.new a : Path V).fin last.p3 = true := by
    obtain ⟨init, rfl⟩ : ∃ init, cs = init ++ [last] := ⟨cs.dropLast, (List.dropLast_append_getLast? last hlast).symm⟩
    rw [hfin]
    exact ((linked_snoc tol init a a last).mp hl).2
  have := addBezier4p_reversal tol hsymm (Path.new a) cs last a hlast hclose (by rw [hfin]; exact hl)
  simpa [Path.new] using this

private theorem reverseCurves_getLast (c0 : Cubic V) (rest : List (Cubic V)) :
    (reverseCurves (c0 :: rest)).getLast? = some c0.rev := by
  simp [reverseCurves]

/-- **`bulge_to`, positive bulge** (the counter-clockwise arc of `bulge_to_arc` starts at `p1`): the sub-arc curves
    form a linked chain from the path end `p1` towards `p2`, the first curve does not start at `p2`, the chain does not
    come back to `p1` - they are appended in order: one command per curve, no bridging line, the path ends at the
    end point of the last curve (next to `p2`). -/
theorem bulgeTo_forward (tol : Tol V) (closeRel : V → V → Bool) (p : Path V) (p2 : V)
    (arcs : List (List (Cubic V))) (c0 last : Cubic V) (rest : List (Cubic V))
    (hflat : arcs.flatten = c0 :: rest) (hlast : (c0 :: rest).getLast? = some last)
    (hrel : closeRel c0.p0 p2 = false) (hopen : tol.close p.fin last.p3 = false)
    (hl : Linked tol p.fin (c0 :: rest) p2) :
    bulgeTo tol closeRel p p2 arcs = ⟨p.start, p.elems ++ (c0 :: rest).map (cubicElem tol), p.hasSub⟩ ∧
    (bulgeTo tol closeRel p p2 arcs).fin = last.p3 := by
  have h : bulgeTo tol closeRel p p2 arcs = addBezier4p tol p (c0 :: rest) := by
    unfold bulgeTo
    simp only [hflat, hrel, Bool.false_eq_true, if_false]
  rw [h]
  exact addBezier4p_forward tol p (c0 :: rest) last p2 hlast hopen hl

/-- **`bulge_to`, negative bulge** (clockwise from `p1` to `p2`: the counter-clockwise arc of `bulge_to_arc` starts at
    `p2`): the sub-arc curves form a linked chain from `p2` to the path end `p1` - the WHOLE chain is reversed (every
    curve AND the order of the sub-arcs, `reverseCurves_flatten`) and then appended: one command per curve, no bridging
    line, the path ends exactly at the start point of the first curve of the arc (next to `p2`). -/
theorem bulgeTo_backward (tol : Tol V) (closeRel : V → V → Bool) (hsymm : ∀ x y, tol.close x y = tol.close y x)
    (p : Path V) (p2 : V) (arcs : List (List (Cubic V))) (c0 : Cubic V) (rest : List (Cubic V))
    (hflat : arcs.flatten = c0 :: rest)
    (hrel : closeRel c0.p0 p2 = true) (hopen : tol.close p.fin c0.p0 = false)
    (hl : Linked tol p2 (c0 :: rest) p.fin) :
    bulgeTo tol closeRel p p2 arcs =
      ⟨p.start, p.elems ++ ((arcs.reverse.map reverseCurves).flatten).map (cubicElem tol), p.hasSub⟩ ∧
    (bulgeTo tol closeRel p p2 arcs).fin = c0.p0 := by
  have h : bulgeTo tol closeRel p p2 arcs = addBezier4p tol p (reverseCurves (c0 :: rest)) := by
    unfold bulgeTo
    simp only [hflat, hrel, if_true]
  have hrev : Linked tol p.fin (reverseCurves (c0 :: rest)) p2 := reverseCurves_linked tol hsymm _ _ _ hl
  have := addBezier4p_forward tol p (reverseCurves (c0 :: rest)) c0.rev p2 (reverseCurves_getLast c0 rest)
    (by simpa [Cubic.rev] using hopen) hrev
  rw [h, ← reverseCurves_flatten, hflat]
  exact ⟨this.1, by simpa [Cubic.rev] using this.2⟩

/-- `from_vertices`: consecutive (`isclose`) duplicates are skipped, the result has only `LINE_TO` commands and is a
    single path -/
theorem fromVertices_lines (close : V → V → Bool) (zero : V) (vs : List V) (flag : Bool) :
    (fromVertices close zero vs flag).hasSub = false ∧
    ∀ el ∈ (fromVertices close zero vs flag).elems, ∃ v, el = .lineTo v := by
  have hfold : ∀ (l : List V) (p : Path V), p.hasSub = false → (∀ el ∈ p.elems, ∃ v, el = Elem.lineTo v) →
      (l.foldl (fun (p : Path V) v => if close p.fin v then p else p.lineTo v) p).hasSub = false ∧
      ∀ el ∈ (l.foldl (fun (p : Path V) v => if close p.fin v then p else p.lineTo v) p).elems,
        ∃ v, el = Elem.lineTo v := by
    intro l
    induction l with
    | nil => intro p h1 h2; exact ⟨h1, h2⟩
    | cons v r ih =>
      intro p h1 h2
      rw [List.foldl_cons]
      split
      · exact ih p h1 h2
      · refine ih (p.lineTo v) h1 ?_
        intro el hel
        simp only [Path.lineTo, List.mem_append, List.mem_singleton] at hel
        rcases hel with hel | rfl
        · exact h2 el hel
        · exact ⟨v, rfl⟩
  unfold fromVertices
  match vs with
  | [] => simp [Path.new]
  | [_] => simp [Path.new]
  | v0 :: v1 :: rest =>
    simp only
    obtain ⟨g1, g2⟩ := hfold (v1 :: rest) (Path.new v0) rfl (by simp [Path.new])
    split
    · unfold Path.closeP
      split
      · exact ⟨g1, g2⟩
      · refine ⟨g1, ?_⟩
        intro el hel
        simp only [Path.lineTo, List.mem_append, List.mem_singleton] at hel
        rcases hel with hel | rfl
        · exact g2 el hel
        · exact ⟨_, rfl⟩
    · exact ⟨g1, g2⟩

/-! ### path → polyline → path -/

/-- the vertices `from_vertices` keeps: every vertex that is not `isclose` to the last kept one -/
def dedupFrom (close : V → V → Bool) : V → List V → List V
  | _, [] => []
  | last, v :: r => if close last v then dedupFrom close last r else v :: dedupFrom close v r

private theorem fromVertices_fold (close : V → V → Bool) :
    ∀ (rest : List V) (p : Path V),
      (rest.foldl (fun (p : Path V) v => if close p.fin v then p else p.lineTo v) p).vertices =
        p.vertices ++ dedupFrom close p.fin rest := by
  intro rest
  induction rest with
  | nil => intro p; simp [dedupFrom]
  | cons v r ih =>
    intro p
    rw [List.foldl_cons]
    by_cases hc : close p.fin v = true
    · simp only [hc, if_true, dedupFrom]; exact ih p
    · have hc' : close p.fin v = false := by simpa using hc
      simp only [hc', Bool.false_eq_true, if_false, dedupFrom]
      rw [ih (p.lineTo v)]
      have h1 : (p.lineTo v).fin = v := by simp [Path.lineTo, Path.fin, Elem.fin]
      have h2 : (p.lineTo v).vertices = p.vertices ++ [v] := by simp [Path.lineTo, Path.vertices, Elem.verts]
      rw [h1, h2]; simp

/-- an open `from_vertices(vs)` path stores exactly the de-duplicated vertex list -/
theorem fromVertices_vertices (close : V → V → Bool) (zero v0 v1 : V) (rest : List V) :
    (fromVertices close zero (v0 :: v1 :: rest) false).vertices = v0 :: dedupFrom close v0 (v1 :: rest) := by
  unfold fromVertices
  simp only [Bool.false_eq_true, if_false]
  rw [fromVertices_fold]
  simp [Path.new, Path.vertices, Path.fin]

/-- a path of `LINE_TO` commands only flattens to its own vertex list - for every `distance` (0 included: no curve
    is reached), every `segments`, every twin -/
theorem lines_flat (cfg : FlatCfg) (d : Rat) (n : Nat) (p : Path V3) (hne : p.elems ≠ [])
    (hlines : ∀ el ∈ p.elems, ∃ v, el = Elem.lineTo v) : pathFlat cfg d n p = .ok p.vertices := by
  have h : ∀ (els : List (Elem V3)) (s : V3), (∀ el ∈ els, ∃ v, el = Elem.lineTo v) →
      approxElems (flatCurve3 cfg d n) (flatCurve4 cfg d n) s els = .ok (els.flatMap Elem.verts) := by
    intro els
    induction els with
    | nil => intro s _; rfl
    | cons el r ih =>
      intro s hl
      obtain ⟨v, rfl⟩ := hl el (by simp)
      simp only [approxElems, elemPiece, ih _ (fun x hx => hl x (List.mem_cons_of_mem _ hx)), List.flatMap_cons,
        Elem.verts, List.singleton_append]
  unfold pathFlat approximate
  cases hp : p.elems with
  | nil => exact absurd hp hne
  | cons a r =>
    simp only
    rw [← hp, h p.elems p.start hlines]
    rfl

/-- **path → 3D polyline → path**: the POLYLINE made from the flattening `vs` of a path comes back through
    `make_path` as `from_vertices(vs)`; flattening that path (any distance, any twin) yields `vs` again up to the
    `isclose` duplicates `from_vertices` drops - the second flattening adds or moves no vertex -/
theorem polyline_roundtrip (cfg : FlatCfg) (d : Rat) (n : Nat) (v0 v1 : V3) (rest : List V3)
    (close : V3 → V3 → Bool) (hdistinct : dedupFrom close v0 (v1 :: rest) ≠ []) :
    pathFlat cfg d n (fromVertices close ⟨0, 0, 0⟩ (v0 :: v1 :: rest) false) =
      .ok (v0 :: dedupFrom close v0 (v1 :: rest)) := by
  have hl := (fromVertices_lines close ⟨0, 0, 0⟩ (v0 :: v1 :: rest) false).2
  have hv := fromVertices_vertices close ⟨0, 0, 0⟩ v0 v1 rest
  have hne : (fromVertices close ⟨0, 0, 0⟩ (v0 :: v1 :: rest) false).elems ≠ [] := by
    intro hc
    rw [Path.vertices, hc] at hv
    simp only [List.flatMap_nil, List.cons.injEq] at hv
    exact hdistinct hv.2.symm
  rw [lines_flat cfg d n _ hne hl, hv]

private theorem lineTo_fold_vertices : ∀ (rest : List V) (p : Path V),
    (rest.foldl (fun (p : Path V) v => p.lineTo v) p).vertices = p.vertices ++ rest ∧
    (rest.foldl (fun (p : Path V) v => p.lineTo v) p).hasSub = p.hasSub ∧
    ((∀ el ∈ p.elems, ∃ v, el = Elem.lineTo v) →
      ∀ el ∈ (rest.foldl (fun (p : Path V) v => p.lineTo v) p).elems, ∃ v, el = Elem.lineTo v) := by
  intro rest
  induction rest with
  | nil => intro p; simp
  | cons v r ih =>
    intro p
    rw [List.foldl_cons]
    obtain ⟨h1, h2, h3⟩ := ih (p.lineTo v)
    refine ⟨?_, ?_, ?_⟩
    · rw [h1]; simp [Path.lineTo, Path.vertices, Elem.verts]
    · rw [h2]; rfl
    · intro hp
      apply h3
      intro el hel
      simp only [Path.lineTo, List.mem_append, List.mem_singleton] at hel
      rcases hel with hel | rfl
      · exact hp el hel
      · exact ⟨v, rfl⟩

/-- **path → LWPOLYLINE / 2D POLYLINE → path**: an open polyline without bulges made from the flattening `vs` of a path
    (≥ 2 vertices) comes back through `add_2d_polyline` as a path whose flattening - any distance, any twin - is `vs`
    again, vertex for vertex (in the OCS plane, before `to_wcs`; `path_flat_isometry` carries it to WCS) -/
theorem polyline2d_roundtrip (cfg : FlatCfg) (d : Rat) (n : Nat) (closeRel : V3 → V3 → Bool) (v0 v1 : V3)
    (rest : List V3) :
    pathFlat cfg d n (polyline2dLines closeRel ⟨0, 0, 0⟩ (v0 :: v1 :: rest) false) = .ok (v0 :: v1 :: rest) := by
  unfold polyline2dLines
  simp only [Bool.false_and, Bool.false_eq_true, if_false]
  obtain ⟨h1, _, h3⟩ := lineTo_fold_vertices (v1 :: rest) (Path.new v0)
  have hl := h3 (by simp [Path.new])
  have hne : ((v1 :: rest).foldl (fun (p : Path V3) v => p.lineTo v) (Path.new v0)).elems ≠ [] := by
    intro hc
    rw [Path.vertices, hc] at h1
    simp [Path.new, Path.vertices] at h1
  rw [lines_flat cfg d n _ hne hl, h1]
  simp [Path.new, Path.vertices]

/-! ### HATCH edge paths: the loops of `from_hatch_edge_path` -/

private theorem single_reversed (q : Path V) (h : Single q) : Single q.reversed := by
  obtain ⟨hflag, hne, hmf⟩ := h
  obtain ⟨lastEl, hl⟩ : ∃ x, q.elems.getLast? = some x := by
    cases he : q.elems with
    | nil => exact absurd he hne
    | cons a t => exact ⟨_, List.getLast?_eq_some_getLast (List.cons_ne_nil a t)⟩
  have hlm : lastEl.isMove = false := hmf lastEl (List.mem_of_getLast? hl)
  have hrev : q.reversed = ⟨q.fin, ((Path.segmentsFrom q.start q.elems).reverse.map Path.revSeg), q.hasSub⟩ := by
    unfold Path.reversed
    rw [hl]
    cases lastEl with
    | moveTo e => simp [Elem.isMove] at hlm
    | lineTo e => rfl
    | curve3To e c => rfl
    | curve4To e c1 c2 => rfl
  have hlen : ∀ (es : List (Elem V)) (s : V), (Path.segmentsFrom s es).length = es.length := by
    intro es
    induction es with
    | nil => intro s; rfl
    | cons a t ih => intro s; simp [Path.segmentsFrom, ih]
  have hsnd : ∀ (es : List (Elem V)) (s : V), ∀ x ∈ Path.segmentsFrom s es, x.2 ∈ es := by
    intro es
    induction es with
    | nil => intro s x hx; simp [Path.segmentsFrom] at hx
    | cons a t ih =>
      intro s x hx
      simp only [Path.segmentsFrom, List.mem_cons] at hx
      rcases hx with rfl | hx
      · simp
      · exact List.mem_cons_of_mem _ (ih _ x hx)
  rw [hrev]
  refine ⟨hflag, ?_, ?_⟩
  · intro hc
    have := congrArg List.length hc
    simp only [List.length_map, List.length_reverse, hlen, List.length_nil] at this
    exact hne (List.eq_nil_of_length_eq_zero this)
  · intro el hel
    simp only [List.mem_map, List.mem_reverse] at hel
    obtain ⟨x, hx, rfl⟩ := hel
    have := hmf x.2 (hsnd _ _ x hx)
    obtain ⟨s, e⟩ := x
    cases e <;> simp_all [Path.revSeg, Elem.isMove]

private theorem single_appendPath (close : V → V → Bool) (p q : Path V) (hp : Single p) (hq : Single q) :
    Single (p.appendPath close q) := by
  obtain ⟨hpf, hpne, hpm⟩ := hp
  obtain ⟨hqf, hqne, hqm⟩ := hq
  unfold Path.appendPath
  cases hqe : q.elems with
  | nil => exact absurd hqe hqne
  | cons a t =>
    simp only
    rw [foldl_appendElem_noMoves _ _ (by rw [← hqe]; exact hqm)]
    cases hpe : p.elems with
    | nil => exact absurd hpe hpne
    | cons b u =>
      split
      · refine ⟨hpf, by simp [hpe], ?_⟩
        intro el hel
        simp only [List.mem_append] at hel
        rcases hel with hel | hel
        · exact hpm el hel
        · exact hqm el (by rw [hqe]; exact hel)
      · refine ⟨hpf, by simp [Path.lineTo], ?_⟩
        intro el hel
        simp only [Path.lineTo, List.mem_append, List.mem_singleton] at hel
        rcases hel with (hel | rfl) | hel
        · exact hpm el hel
        · rfl
        · exact hqm el (by rw [hqe]; exact hel)

private theorem closeP_single_closed (close : V → V → Bool) (hrefl : ∀ v, close v v = true) (p : Path V)
    (hp : Single p) : Single (p.closeP close) ∧ (p.closeP close).isClosed close = true := by
  obtain ⟨hpf, hpne, hpm⟩ := hp
  unfold Path.closeP
  by_cases hc : p.isClosed close = true
  · simp only [hc, if_true]; exact ⟨⟨hpf, hpne, hpm⟩, trivial⟩
  · have hc' : p.isClosed close = false := by simpa using hc
    simp only [hc', Bool.false_eq_true, if_false]
    refine ⟨⟨hpf, by simp [Path.lineTo], ?_⟩, ?_⟩
    · intro el hel
      simp only [Path.lineTo, List.mem_append, List.mem_singleton] at hel
      rcases hel with hel | rfl
      · exact hpm el hel
      · rfl
    · have : (p.lineTo p.start).elems = p.elems ++ [Elem.lineTo p.start] := rfl
      unfold Path.isClosed
      rw [this]
      cases hpe : p.elems with
      | nil => exact absurd hpe hpne
      | cons b u =>
        simp only [List.cons_append]
        have hfin : (p.lineTo p.start).fin = p.start := by simp [Path.lineTo, Path.fin, Elem.fin]
        rw [hfin]; exact hrefl _

/-- invariant of the edge loop: finished loops are closed single paths, the loop under construction is a single path -/
private def EdgeInv (close : V → V → Bool) (st : EdgeSt V) : Prop :=
  (∀ l ∈ st.done, Single l ∧ l.isClosed close = true) ∧ ∀ l, st.loop = some l → Single l

private theorem edgeStep_inv (close : V → V → Bool) (st : EdgeSt V) (seg : Path V) (h : EdgeInv close st)
    (hs : Single seg) : EdgeInv close (edgeStep close st seg) := by
  obtain ⟨hd, hl⟩ := h
  unfold edgeStep
  cases hlo : st.loop with
  | none => exact ⟨hd, fun l hl' => by simp only [Option.some.injEq] at hl'; rw [← hl']; exact hs⟩
  | some loop =>
    have hloop := hl loop hlo
    simp only
    split
    · exact ⟨hd, fun l hl' => by
        simp only [Option.some.injEq] at hl'; rw [← hl']; exact single_appendPath close _ _ hloop hs⟩
    · split
      · exact ⟨hd, fun l hl' => by
          simp only [Option.some.injEq] at hl'; rw [← hl']
          exact single_appendPath close _ _ hloop (single_reversed seg hs)⟩
      · split
        · exact ⟨hd, fun l hl' => by
            simp only [Option.some.injEq] at hl'; rw [← hl']; exact single_appendPath close _ _ hs hloop⟩
        · split
          · exact ⟨hd, fun l hl' => by
              simp only [Option.some.injEq] at hl'; rw [← hl']
              exact single_appendPath close _ _ (single_reversed loop hloop) hs⟩
          · split
            · rename_i hclosed
              refine ⟨?_, fun l hl' => by simp only [Option.some.injEq] at hl'; rw [← hl']; exact hs⟩
              intro l hmem
              simp only [List.mem_append, List.mem_singleton] at hmem
              rcases hmem with hmem | rfl
              · exact hd l hmem
              · exact ⟨hloop, hclosed⟩
            · exact ⟨hd, fun l hl' => by
                simp only [Option.some.injEq] at hl'; rw [← hl']; exact single_appendPath close _ _ hloop hs⟩

/-- **every loop of a HATCH / MPOLYGON edge path is a closed single path**: whatever the order and direction of the
    edges (joined end-start, end-end, start-end, start-start, bridged or started anew), every loop produced by
    `from_hatch_edge_path` has no `MOVE_TO`, at least one command, and `is_closed` (`isclose` reflexive) -/
theorem edgeLoops_closed (close : V → V → Bool) (hrefl : ∀ v, close v v = true) (segs : List (Path V))
    (hs : ∀ s ∈ segs, Single s) :
    ∀ l ∈ edgeLoops close segs, Single l ∧ l.isClosed close = true := by
  have hfold : ∀ (segs : List (Path V)) (st : EdgeSt V), EdgeInv close st → (∀ s ∈ segs, Single s) →
      EdgeInv close (segs.foldl (edgeStep close) st) := by
    intro segs
    induction segs with
    | nil => intro st h _; exact h
    | cons a r ih =>
      intro st h hs
      exact ih _ (edgeStep_inv close st a h (hs a (by simp))) (fun s hm => hs s (List.mem_cons_of_mem _ hm))
  have hinv := hfold segs ⟨[], none⟩ ⟨by simp, by simp⟩ hs
  obtain ⟨hd, hl⟩ := hinv
  intro l hmem
  unfold edgeLoops at hmem
  simp only at hmem
  cases hlo : (segs.foldl (edgeStep close) ⟨[], none⟩).loop with
  | none => rw [hlo] at hmem; exact hd l hmem
  | some loop =>
    rw [hlo] at hmem
    simp only [List.mem_append, List.mem_singleton] at hmem
    rcases hmem with hmem | rfl
    · exact hd l hmem
    · exact closeP_single_closed close hrefl loop (hl loop hlo)

/-- the multi-path returned for a non-empty edge path has exactly these loops as its `sub_paths()` -/
theorem edgePath_subPaths (close : V → V → Bool) (hrefl : ∀ v, close v v = true) (zero : V) (segs : List (Path V))
    (hs : ∀ s ∈ segs, Single s) (hne : edgeLoops close segs ≠ []) :
    (edgePath close zero segs).subPaths = edgeLoops close segs :=
  toMultiPath_subPaths zero _ hne (fun q hq => (edgeLoops_closed close hrefl segs hs q hq).1)

/-! ### flattening commutes with isometries (`Path.transform`, `Path.to_wcs`: OCS → WCS, elevation, translation) -/

def mapOk {ε α β : Type} (g : α → β) : Except ε α → Except ε β
  | .ok a => .ok (g a)
  | .error x => .error x

def mapTV (g : V3 → V3) (l : List (TV V3)) : List (TV V3) := l.map (fun p => (p.1, g p.2))

private theorem app_lerp (f : Affine) (a b : V3) (t : Rat) : f.app (V3.lerp a b t) = V3.lerp (f.app a) (f.app b) t := by
  simp only [Affine.app, V3.lerp, V3.add, V3.sub, V3.smul, V3.dot, V3.mk.injEq]
  refine ⟨?_, ?_, ?_⟩ <;> ring

private theorem app_bez4 (f : Affine) (p0 p1 p2 p3 : V3) (t : Rat) :
    bez4Point (f.app p0) (f.app p1) (f.app p2) (f.app p3) t = f.app (bez4Point p0 p1 p2 p3 t) := by
  simp only [Affine.app, bez4Point, V3.add, V3.sub, V3.smul, V3.dot, V3.mk.injEq]
  refine ⟨?_, ?_, ?_⟩ <;> ring

private theorem app_bez3 (f : Affine) (p0 p1 p2 : V3) (t : Rat) :
    bez3Point (f.app p0) (f.app p1) (f.app p2) t = f.app (bez3Point p0 p1 p2 t) := by
  simp only [Affine.app, bez3Point, V3.add, V3.sub, V3.smul, V3.dot, V3.mk.injEq]
  refine ⟨?_, ?_, ?_⟩ <;> ring

private theorem iso_dist2 (f : Affine) (hf : f.IsIso) (a b : V3) : V3.dist2 (f.app a) (f.app b) = V3.dist2 a b := by
  obtain ⟨h11, h22, h33, h12, h13, h23⟩ := hf
  simp only [Affine.app, V3.dist2, V3.sub, V3.dot]
  linear_combination ((b.x - a.x) * (b.x - a.x)) * h11 + ((b.y - a.y) * (b.y - a.y)) * h22 +
    ((b.z - a.z) * (b.z - a.z)) * h33 + (2 * (b.x - a.x) * (b.y - a.y)) * h12 +
    (2 * (b.x - a.x) * (b.z - a.z)) * h13 + (2 * (b.y - a.y) * (b.z - a.z)) * h23

private theorem midTest_iso (f : Affine) (hf : f.IsIso) (d : Rat) (s e m : V3) :
    midTest d (f.app s) (f.app e) (f.app m) = midTest d s e m := by
  unfold midTest
  rw [← app_lerp, iso_dist2 f hf]

/-- the two inner subdivisions transport along a map `g` of the vertices that commutes with the curve and the test -/
private theorem recSub_map (C C' : Curve V3) (g : V3 → V3) (hP : ∀ t, C'.P t = g (C.P t))
    (hT : ∀ s e m, C'.test (g s) (g e) (g m) = C.test s e m) :
    ∀ (b : Nat) (t0 : Rat) (s : V3) (t1 : Rat) (e : V3),
      recSub C' b t0 (g s) t1 (g e) = mapOk (mapTV g) (recSub C b t0 s t1 e) := by
  intro b
  induction b with
  | zero => intro t0 s t1 e; rfl
  | succ b ih =>
    intro t0 s t1 e
    simp only [recSub, hP, hT]
    cases C.test s e (C.P ((t0 + t1) * (1 / 2))) with
    | accept => simp [mapOk, mapTV]
    | raise => rfl
    | split =>
      simp only
      rw [ih, ih]
      cases recSub C b t0 s ((t0 + t1) * (1 / 2)) (C.P ((t0 + t1) * (1 / 2))) with
      | error x => rfl
      | ok l1 =>
        simp only [mapOk]
        cases recSub C b ((t0 + t1) * (1 / 2)) (C.P ((t0 + t1) * (1 / 2))) t1 e with
        | error x => rfl
        | ok l2 => simp [mapTV]

private theorem stackLoop_map (C C' : Curve V3) (g : V3 → V3) (hP : ∀ t, C'.P t = g (C.P t))
    (hT : ∀ s e m, C'.test (g s) (g e) (g m) = C.test s e m) :
    ∀ (fuel : Nat) (t0 : Rat) (s : V3) (t1 : Rat) (e : V3) (stack out : List (TV V3)),
      stackLoop C' fuel t0 (g s) t1 (g e) (mapTV g stack) (mapTV g out) =
        mapOk (mapTV g) (stackLoop C fuel t0 s t1 e stack out) := by
  intro fuel
  induction fuel with
  | zero => intro t0 s t1 e stack out; rfl
  | succ fuel ih =>
    intro t0 s t1 e stack out
    simp only [stackLoop, hP, hT]
    cases C.test s e (C.P ((t0 + t1) * (1 / 2))) with
    | accept =>
      cases stack with
      | nil => simp [mapOk, mapTV]
      | cons top rest =>
        obtain ⟨t', e'⟩ := top
        have := ih t1 e t' e' rest ((t1, e) :: out)
        simpa [mapTV] using this
    | raise => rfl
    | split =>
      have := ih t0 s ((t0 + t1) * (1 / 2)) (C.P ((t0 + t1) * (1 / 2))) ((t1, e) :: stack) out
      simpa [mapTV] using this

private theorem stackSub_map (C C' : Curve V3) (g : V3 → V3) (hP : ∀ t, C'.P t = g (C.P t))
    (hT : ∀ s e m, C'.test (g s) (g e) (g m) = C.test s e m) (fuel : Nat) (t0 : Rat) (s : V3) (t1 : Rat) (e : V3) :
    stackSub C' fuel t0 (g s) t1 (g e) = mapOk (mapTV g) (stackSub C fuel t0 s t1 e) := by
  unfold stackSub
  have := stackLoop_map C C' g hP hT fuel t0 s t1 e [] []
  simp only [mapTV, List.map_nil] at this
  rw [this]
  cases stackLoop C fuel t0 s t1 e [] [] with
  | error x => rfl
  | ok r => simp [mapOk, mapTV]

/-- a flattening configuration whose inner subdivision transports along vertex maps: both twins -/
def CfgNatural (cfg : FlatCfg) : Prop :=
  ∀ (C C' : Curve V3) (g : V3 → V3), (∀ t, C'.P t = g (C.P t)) → (∀ s e m, C'.test (g s) (g e) (g m) = C.test s e m) →
    ∀ t0 s t1 e, cfg.sub C' t0 (g s) t1 (g e) = mapOk (mapTV g) (cfg.sub C t0 s t1 e)

theorem cfgNatural_py (subfuel : Nat) (r a : Rat) (fuel : Nat) : CfgNatural ⟨fun C => stackSub C subfuel, r, a, fuel⟩ :=
  fun C C' g hP hT t0 s t1 e => stackSub_map C C' g hP hT subfuel t0 s t1 e

theorem cfgNatural_pyx (budget : Nat) (r a : Rat) (fuel : Nat) : CfgNatural ⟨fun C => recSub C budget, r, a, fuel⟩ :=
  fun C C' g hP hT t0 s t1 e => recSub_map C C' g hP hT budget t0 s t1 e

private def mapSt (g : V3 → V3) (st : St V3) : St V3 := ⟨st.t, g st.s, mapTV g st.out⟩

private theorem spanLoop_map (C C' : Curve V3) (g : V3 → V3) (hP : ∀ t, C'.P t = g (C.P t))
    (sub sub' : Rat → V3 → Rat → V3 → Except Err (List (TV V3)))
    (hsub : ∀ t0 s t1 e, sub' t0 (g s) t1 (g e) = mapOk (mapTV g) (sub t0 s t1 e))
    (close : Rat → Rat → Bool) (delta tEnd : Rat) (endPt : V3) :
    ∀ (fuel : Nat) (st : St V3),
      spanLoop C' sub' close delta tEnd (g endPt) fuel (mapSt g st) =
        mapOk (mapSt g) (spanLoop C sub close delta tEnd endPt fuel st) := by
  intro fuel
  induction fuel with
  | zero => intro st; rfl
  | succ fuel ih =>
    intro st
    unfold spanLoop
    by_cases hlt : st.t < tEnd
    · simp only [mapSt, hlt, if_true]
      by_cases hc : close (st.t + delta) tEnd = true
      · simp only [hc, if_true]
        rw [hsub]
        cases sub st.t st.s tEnd endPt with
        | error x => rfl
        | ok l =>
          have := ih ⟨tEnd, endPt, st.out ++ l⟩
          simp only [mapOk, mapSt, mapTV, List.map_append] at this ⊢
          exact this
      · simp only [hc, Bool.false_eq_true, if_false, hP]
        rw [hsub]
        cases sub st.t st.s (st.t + delta) (C.P (st.t + delta)) with
        | error x => rfl
        | ok l =>
          have := ih ⟨st.t + delta, C.P (st.t + delta), st.out ++ l⟩
          simp only [mapOk, mapSt, mapTV, List.map_append] at this ⊢
          exact this
    · simp only [mapSt, hlt, if_false, mapOk]

private theorem bezierFlat_map (C C' : Curve V3) (g : V3 → V3) (hP : ∀ t, C'.P t = g (C.P t))
    (sub sub' : Rat → V3 → Rat → V3 → Except Err (List (TV V3)))
    (hsub : ∀ t0 s t1 e, sub' t0 (g s) t1 (g e) = mapOk (mapTV g) (sub t0 s t1 e))
    (r a : Rat) (first last : V3) (n fuel : Nat) :
    bezierFlat C' sub' r a (g first) (g last) n fuel = mapOk (mapTV g) (bezierFlat C sub r a first last n fuel) := by
  unfold bezierFlat
  have := spanLoop_map C C' g hP sub sub' hsub (pyIsclose r a) (1 / (n : Rat)) 1 last fuel ⟨0, first, [(0, first)]⟩
  simp only [mapSt, mapTV, List.map_cons, List.map_nil] at this
  rw [this]
  cases spanLoop C sub (pyIsclose r a) (1 / (n : Rat)) 1 last fuel ⟨0, first, [(0, first)]⟩ with
  | error x => rfl
  | ok st => simp [mapOk, mapSt, mapTV]

/-- **flattening commutes with isometries**: for every rotation / reflection / translation `f` of space (`MᵀM = 1`; every
    OCS → WCS transformation, every elevation) and either twin, flattening the transformed path (`Path.transform`,
    `Path.to_wcs`) gives exactly the transformed vertices of the flattening of the original path - same number of
    vertices, same subdivision decisions, same exceptions.  (So the 3D results of `make_path` for OCS entities are
    the images of the 2D results.) -/
theorem path_flat_isometry (f : Affine) (hf : f.IsIso) (cfg : FlatCfg) (hcfg : CfgNatural cfg) (d : Rat) (n : Nat)
    (p : Path V3) :
    pathFlat cfg d n (p.mapV f.app) = mapOk (List.map f.app) (pathFlat cfg d n p) := by
  have h4 : ∀ p0 p1 p2 p3, flatCurve4 cfg d n (f.app p0) (f.app p1) (f.app p2) (f.app p3) =
      mapOk (List.map f.app) (flatCurve4 cfg d n p0 p1 p2 p3) := by
    intro p0 p1 p2 p3
    unfold flatCurve4
    split
    · rfl
    · unfold flatCurve4TV
      rw [bezierFlat_map ⟨bez4Point p0 p1 p2 p3, midTest d⟩ ⟨bez4Point (f.app p0) (f.app p1) (f.app p2) (f.app p3), midTest d⟩
        f.app (fun t => app_bez4 f p0 p1 p2 p3 t) _ _
        (hcfg ⟨bez4Point p0 p1 p2 p3, midTest d⟩ ⟨bez4Point (f.app p0) (f.app p1) (f.app p2) (f.app p3), midTest d⟩ f.app
          (fun t => app_bez4 f p0 p1 p2 p3 t) (fun s e m => midTest_iso f hf d s e m))]
      cases bezierFlat ⟨bez4Point p0 p1 p2 p3, midTest d⟩ (cfg.sub ⟨bez4Point p0 p1 p2 p3, midTest d⟩) cfg.relTol
          cfg.absTol p0 p3 n cfg.fuel with
      | error x => rfl
      | ok tv => simp [mapOk, mapTV, List.map_map, Function.comp_def]
  have h3 : ∀ p0 p1 p2, flatCurve3 cfg d n (f.app p0) (f.app p1) (f.app p2) =
      mapOk (List.map f.app) (flatCurve3 cfg d n p0 p1 p2) := by
    intro p0 p1 p2
    unfold flatCurve3
    split
    · rfl
    · unfold flatCurve3TV
      rw [bezierFlat_map ⟨bez3Point p0 p1 p2, midTest d⟩ ⟨bez3Point (f.app p0) (f.app p1) (f.app p2), midTest d⟩
        f.app (fun t => app_bez3 f p0 p1 p2 t) _ _
        (hcfg ⟨bez3Point p0 p1 p2, midTest d⟩ ⟨bez3Point (f.app p0) (f.app p1) (f.app p2), midTest d⟩ f.app
          (fun t => app_bez3 f p0 p1 p2 t) (fun s e m => midTest_iso f hf d s e m))]
      cases bezierFlat ⟨bez3Point p0 p1 p2, midTest d⟩ (cfg.sub ⟨bez3Point p0 p1 p2, midTest d⟩) cfg.relTol
          cfg.absTol p0 p2 n cfg.fuel with
      | error x => rfl
      | ok tv => simp [mapOk, mapTV, List.map_map, Function.comp_def]
  have hel : ∀ (s : V3) (el : Elem V3),
      elemPiece (flatCurve3 cfg d n) (flatCurve4 cfg d n) (f.app s) (Elem.mapV f.app el) =
        mapOk (List.map f.app) (elemPiece (flatCurve3 cfg d n) (flatCurve4 cfg d n) s el) := by
    intro s el
    cases el with
    | lineTo e => rfl
    | moveTo e => rfl
    | curve3To e c =>
      simp only [Elem.mapV, elemPiece, h3]
      cases flatCurve3 cfg d n s c e with
      | error x => rfl
      | ok l => cases l <;> rfl
    | curve4To e c1 c2 =>
      simp only [Elem.mapV, elemPiece, h4]
      cases flatCurve4 cfg d n s c1 c2 e with
      | error x => rfl
      | ok l => cases l <;> rfl
  have hfin : ∀ el : Elem V3, (Elem.mapV f.app el).fin = f.app el.fin := by
    intro el; cases el <;> rfl
  have hels : ∀ (els : List (Elem V3)) (s : V3),
      approxElems (flatCurve3 cfg d n) (flatCurve4 cfg d n) (f.app s) (els.map (Elem.mapV f.app)) =
        mapOk (List.map f.app) (approxElems (flatCurve3 cfg d n) (flatCurve4 cfg d n) s els) := by
    intro els
    induction els with
    | nil => intro s; rfl
    | cons el r ih =>
      intro s
      simp only [List.map_cons, approxElems, hel, hfin, ih]
      cases elemPiece (flatCurve3 cfg d n) (flatCurve4 cfg d n) s el with
      | error x => rfl
      | ok pc =>
        simp only [mapOk]
        cases approxElems (flatCurve3 cfg d n) (flatCurve4 cfg d n) el.fin r with
        | error x => rfl
        | ok l => simp
  unfold pathFlat approximate Path.mapV
  cases hp : p.elems with
  | nil => rfl
  | cons a r =>
    simp only [List.map_cons]
    have := hels (a :: r) p.start
    simp only [List.map_cons] at this
    rw [this]
    cases approxElems (flatCurve3 cfg d n) (flatCurve4 cfg d n) p.start (a :: r) with
    | error x => rfl
    | ok l => simp [mapOk]

-- non-vacuity: the quarter turn about the z-axis plus a translation is an isometry
example : Affine.IsIso ⟨⟨0, -1, 0⟩, ⟨1, 0, 0⟩, ⟨0, 0, 1⟩, ⟨5, 7, 9⟩⟩ := by constructor <;> norm_num

/-- the edges follow each other head to tail: every segment starts (`isclose`) where the loop built so far ends -/
def Chained (close : V → V → Bool) : Path V → List (Path V) → Prop
  | _, [] => True
  | loop, seg :: r => close loop.fin seg.start = true ∧ Chained close (loop.appendPath close seg) r

private theorem edge_fold_chained (close : V → V → Bool) :
    ∀ (segs : List (Path V)) (loop : Path V), Chained close loop segs →
      segs.foldl (edgeStep close) ⟨[], some loop⟩ = ⟨[], some (segs.foldl (Path.appendPath close) loop)⟩ := by
  intro segs
  induction segs with
  | nil => intro loop _; rfl
  | cons seg r ih =>
    intro loop h
    obtain ⟨h1, h2⟩ := h
    rw [List.foldl_cons, List.foldl_cons]
    have : edgeStep close ⟨[], some loop⟩ seg = ⟨[], some (loop.appendPath close seg)⟩ := by
      simp only [edgeStep, h1, if_true]
    rw [this]
    exact ih _ h2

/-- **edges given head to tail form ONE loop in edge order**: the loop is the segments appended one after the other
    (no reversal, no bridging beyond `append_path`'s own), closed by `close()` -/
theorem edgeLoops_chained (close : V → V → Bool) (s0 : Path V) (segs : List (Path V)) (h : Chained close s0 segs) :
    edgeLoops close (s0 :: segs) = [(segs.foldl (Path.appendPath close) s0).closeP close] := by
  unfold edgeLoops
  rw [List.foldl_cons]
  have h0 : edgeStep close ⟨[], none⟩ s0 = ⟨[], some s0⟩ := rfl
  rw [h0, edge_fold_chained close segs s0 h]
  rfl

/-- the line edges of the polygon `v0 v1 … vn`: `Path(v_i).line_to(v_{i+1})` -/
def lineSegs : V → List V → List (Path V)
  | _, [] => []
  | a, b :: r => (Path.new a).lineTo b :: lineSegs b r

private theorem appendPath_line (close : V → V → Bool) (hrefl : ∀ v, close v v = true) (p : Path V) (b : V)
    (hp : p.elems ≠ []) :
    p.appendPath close ((Path.new p.fin).lineTo b) = p.lineTo b := by
  unfold Path.appendPath
  simp only [Path.lineTo, Path.new, List.nil_append]
  cases hpe : p.elems with
  | nil => exact absurd hpe hp
  | cons a t =>
    simp only [hrefl, if_true, List.foldl_cons, List.foldl_nil, Path.appendElem, Path.lineTo]
    rw [hpe]

private theorem lineSegs_chain (close : V → V → Bool) (hrefl : ∀ v, close v v = true) :
    ∀ (vs : List V) (p : Path V), p.elems ≠ [] →
      Chained close p (lineSegs p.fin vs) ∧
      (lineSegs p.fin vs).foldl (Path.appendPath close) p = vs.foldl (fun (q : Path V) v => q.lineTo v) p := by
  intro vs
  induction vs with
  | nil => intro p _; exact ⟨trivial, rfl⟩
  | cons b r ih =>
    intro p hp
    have hstep := appendPath_line close hrefl p b hp
    have hfin : (p.lineTo b).fin = b := by simp [Path.lineTo, Path.fin, Elem.fin]
    have hne : (p.lineTo b).elems ≠ [] := by simp [Path.lineTo]
    obtain ⟨c1, c2⟩ := ih (p.lineTo b) hne
    rw [hfin] at c1 c2
    refine ⟨⟨?_, ?_⟩, ?_⟩
    · show close p.fin ((Path.new p.fin).lineTo b).start = true
      exact hrefl _
    · show Chained close (p.appendPath close ((Path.new p.fin).lineTo b)) (lineSegs b r)
      rw [hstep]; exact c1
    · show (lineSegs b r).foldl (Path.appendPath close) (p.appendPath close ((Path.new p.fin).lineTo b)) = _
      rw [hstep, c2]; rfl

/-- **polygon → HATCH edge path of line edges → path**: the line edges `v0→v1, v1→v2, …` of a polygon come back from
    `from_hatch_edge_path` as ONE loop `Path(v0).line_to(v1)…line_to(vn)`, closed by `close()` - vertex for vertex,
    in the given direction -/
theorem edge_polygon_roundtrip (close : V → V → Bool) (hrefl : ∀ v, close v v = true) (v0 v1 : V) (rest : List V) :
    edgeLoops close (lineSegs v0 (v1 :: rest)) =
      [((v1 :: rest).foldl (fun (q : Path V) v => q.lineTo v) (Path.new v0)).closeP close] := by
  have hne : ((Path.new v0).lineTo v1).elems ≠ [] := by simp [Path.lineTo, Path.new]
  have hfin : ((Path.new v0).lineTo v1).fin = v1 := by simp [Path.lineTo, Path.new, Path.fin, Elem.fin]
  obtain ⟨c1, c2⟩ := lineSegs_chain close hrefl rest ((Path.new v0).lineTo v1) hne
  rw [hfin] at c1 c2
  show edgeLoops close ((Path.new v0).lineTo v1 :: lineSegs v1 rest) = _
  rw [edgeLoops_chained close _ _ c1, c2]
  rfl

/-! ## npshapes.NumpyPath2d: the numpy twin of `Path` -/

private theorem npLoop_eq (curve3 : V → V → V → Except PErr (List V)) (curve4 : V → V → V → V → Except PErr (List V)) :
    ∀ (els : List (Elem V)) (s : V),
      npLoop curve3 curve4 s (els.flatMap Elem.verts) (els.map Elem.code) = approxElems curve3 curve4 s els := by
  intro els
  induction els with
  | nil => intro s; rfl
  | cons el r ih =>
    intro s
    cases el with
    | lineTo e =>
      simp only [List.flatMap_cons, List.map_cons, Elem.verts, Elem.code, List.singleton_append, npLoop, approxElems,
        elemPiece, Elem.fin, ih]
      simp
    | moveTo e =>
      simp only [List.flatMap_cons, List.map_cons, Elem.verts, Elem.code, List.singleton_append, npLoop, approxElems,
        elemPiece, Elem.fin, ih]
      simp
    | curve3To e c =>
      simp only [List.flatMap_cons, List.map_cons, Elem.verts, Elem.code, List.cons_append, List.nil_append, npLoop,
        approxElems, elemPiece, Elem.fin, ih]
      simp only [show ¬ ((2 : Nat) = 1 ∨ (2 : Nat) = 4) by decide, if_false, if_true]
      cases curve3 s c e with
      | error x => rfl
      | ok l => cases l <;> rfl
    | curve4To e c1 c2 =>
      simp only [List.flatMap_cons, List.map_cons, Elem.verts, Elem.code, List.cons_append, List.nil_append, npLoop,
        approxElems, elemPiece, Elem.fin, ih]
      simp only [show ¬ ((3 : Nat) = 1 ∨ (3 : Nat) = 4) by decide, show ¬ ((3 : Nat) = 2) by decide, if_false, if_true]
      cases curve4 s c1 c2 e with
      | error x => rfl
      | ok l => cases l <;> rfl

/-- **`numpy_path_flat = path_flat`** (structure): for EVERY path - any command list, any curve callbacks - the command
    loop of `NumpyPath2d.flattening` run on the flat arrays of the path (`_vertices`, `_commands` walked with a running
    index) yields exactly what `Path._approximate` yields: same vertices, same order, same exceptions.  In particular a
    curve directly after a `MOVE_TO` starts at the `MOVE_TO` location in both (seeded change C14-m4 breaks this). -/
theorem numpy_path_flat (curve3 : V → V → V → Except PErr (List V)) (curve4 : V → V → V → V → Except PErr (List V))
    (p : Path V) :
    npApprox curve3 curve4 ⟨p.vertices, p.commands⟩ = approximate curve3 curve4 p := by
  unfold npApprox approximate Path.commands Path.vertices
  cases hp : p.elems with
  | nil => rfl
  | cons a r =>
    simp only [List.map_cons]
    have := npLoop_eq curve3 curve4 (a :: r) p.start
    simp only [List.map_cons] at this
    rw [this]

/-- all control vertices lie in the xy-plane (what `NumpyPath2d` can represent) -/
def Planar (p : Path V3) : Prop := ∀ v ∈ p.vertices, v.z = 0

private theorem proj2_planar (v : V3) (h : v.z = 0) : proj2 v = v := by
  cases v; simp only [proj2, V3.mk.injEq, true_and]; exact h.symm

private theorem bez4_planar (p0 p1 p2 p3 : V3) (h0 : p0.z = 0) (h1 : p1.z = 0) (h2 : p2.z = 0) (h3 : p3.z = 0)
    (t : Rat) : (bez4Point p0 p1 p2 p3 t).z = 0 := by
  simp [bez4Point, V3.add, V3.sub, V3.smul, h0, h1, h2, h3]

private theorem bez3_planar (p0 p1 p2 : V3) (h0 : p0.z = 0) (h1 : p1.z = 0) (h2 : p2.z = 0)
    (t : Rat) : (bez3Point p0 p1 p2 t).z = 0 := by
  simp [bez3Point, V3.add, V3.sub, V3.smul, h0, h1, h2]

private theorem npCurve4_eq (cfg : FlatCfg) (d : Rat) (n : Nat) (hc : CfgOK cfg n) (hd : d ≠ 0) (p0 p1 p2 p3 : V3)
    (h0 : p0.z = 0) (h1 : p1.z = 0) (h2 : p2.z = 0) (h3 : p3.z = 0) :
    npCurve4 cfg d n p0 p1 p2 p3 = flatCurve4 cfg d n p0 p1 p2 p3 := by
  unfold npCurve4 flatCurve4
  simp only [hd, if_false]
  cases htv : flatCurve4TV cfg d n p0 p1 p2 p3 with
  | error x => rfl
  | ok tv =>
    simp only [Except.ok.injEq]
    have hspec : FlatSpec ⟨bez4Point p0 p1 p2 p3, midTest d⟩ 0 1 n tv := by
      unfold flatCurve4TV at htv
      exact bezierFlat_sound _ _ (hc.sub _) cfg.relTol cfg.absTol p0 p3 n cfg.fuel tv
        (bez4_zero p0 p1 p2 p3).symm (bez4_one p0 p1 p2 p3).symm hc.pos hc.rel0 hc.rel hc.abs htv
    apply List.map_congr_left
    intro q hq
    rw [hspec.onCurve q hq]
    exact proj2_planar _ (bez4_planar p0 p1 p2 p3 h0 h1 h2 h3 _)

private theorem npCurve3_eq (cfg : FlatCfg) (d : Rat) (n : Nat) (hc : CfgOK cfg n) (hd : d ≠ 0) (p0 p1 p2 : V3)
    (h0 : p0.z = 0) (h1 : p1.z = 0) (h2 : p2.z = 0) :
    npCurve3 cfg d n p0 p1 p2 = flatCurve3 cfg d n p0 p1 p2 := by
  unfold npCurve3 flatCurve3
  simp only [hd, if_false]
  cases htv : flatCurve3TV cfg d n p0 p1 p2 with
  | error x => rfl
  | ok tv =>
    simp only [Except.ok.injEq]
    have hspec : FlatSpec ⟨bez3Point p0 p1 p2, midTest d⟩ 0 1 n tv := by
      unfold flatCurve3TV at htv
      exact bezierFlat_sound _ _ (hc.sub _) cfg.relTol cfg.absTol p0 p2 n cfg.fuel tv
        (bez3_zero p0 p1 p2).symm (bez3_one p0 p1 p2).symm hc.pos hc.rel0 hc.rel hc.abs htv
    apply List.map_congr_left
    intro q hq
    rw [hspec.onCurve q hq]
    exact proj2_planar _ (bez3_planar p0 p1 p2 h0 h1 h2 _)

private theorem approxElems_congr (c3 c3' : V3 → V3 → V3 → Except PErr (List V3))
    (c4 c4' : V3 → V3 → V3 → V3 → Except PErr (List V3)) :
    ∀ (els : List (Elem V3)) (s : V3), s.z = 0 → (∀ v ∈ els.flatMap Elem.verts, v.z = 0) →
      (∀ a b c, a.z = 0 → b.z = 0 → c.z = 0 → c3 a b c = c3' a b c) →
      (∀ a b c e, a.z = 0 → b.z = 0 → c.z = 0 → e.z = 0 → c4 a b c e = c4' a b c e) →
      approxElems c3 c4 s els = approxElems c3' c4' s els := by
  intro els
  induction els with
  | nil => intro s _ _ _ _; rfl
  | cons el r ih =>
    intro s hs hv h3 h4
    have hr : ∀ v ∈ r.flatMap Elem.verts, v.z = 0 := fun v hv' => hv v (by simp [List.flatMap_cons, hv'])
    have hel : ∀ v ∈ el.verts, v.z = 0 := fun v hv' => hv v (by simp [List.flatMap_cons, hv'])
    have hfin : el.fin.z = 0 := by
      cases el <;> exact hel _ (by simp [Elem.verts, Elem.fin])
    have hpiece : elemPiece c3 c4 s el = elemPiece c3' c4' s el := by
      cases el with
      | lineTo e => rfl
      | moveTo e => rfl
      | curve3To e c =>
        simp only [elemPiece, h3 s c e hs (hel c (by simp [Elem.verts])) (hel e (by simp [Elem.verts]))]
      | curve4To e c1 c2 =>
        simp only [elemPiece, h4 s c1 c2 e hs (hel c1 (by simp [Elem.verts])) (hel c2 (by simp [Elem.verts]))
          (hel e (by simp [Elem.verts]))]
    simp only [approxElems, hpiece, ih el.fin hfin hr h3 h4]

/-- **`NumpyPath2d(path).flattening(d, s) = path.flattening(d, s)`** for every planar path (z = 0: what the numpy class
    stores), every `distance ≠ 0`, every `segments`, either twin: same vertex list, same exceptions.  (For
    `distance == 0` they differ by design: `Path.flattening` raises ValueError at the first curve, `NumpyPath2d` has no
    such guard.) -/
theorem numpy_flat_eq_path_flat (cfg : FlatCfg) (d : Rat) (n : Nat) (hc : CfgOK cfg n) (hd : d ≠ 0) (p : Path V3)
    (hp : Planar p) :
    npFlat cfg d n (NpPath.ofPath proj2 p) = pathFlat cfg d n p := by
  have hmap : p.vertices.map proj2 = p.vertices := by
    have : ∀ v ∈ p.vertices, proj2 v = id v := fun v hv => proj2_planar v (hp v hv)
    rw [List.map_congr_left this, List.map_id]
  unfold npFlat NpPath.ofPath pathFlat
  rw [hmap, numpy_path_flat]
  unfold approximate
  cases hpe : p.elems with
  | nil => rfl
  | cons a r =>
    simp only
    have hs : p.start.z = 0 := hp p.start (by simp [Path.vertices])
    have hv : ∀ v ∈ (a :: r).flatMap Elem.verts, v.z = 0 := by
      intro v hv'
      exact hp v (by rw [Path.vertices, hpe]; exact List.mem_cons_of_mem _ hv')
    rw [approxElems_congr _ (flatCurve3 cfg d n) _ (flatCurve4 cfg d n) (a :: r) p.start hs hv
      (fun a b c ha hb hc' => npCurve3_eq cfg d n hc hd a b c ha hb hc')
      (fun a b c e ha hb hc' he => npCurve4_eq cfg d n hc hd a b c e ha hb hc' he)]

/-- `NumpyPath2d.reverse()` on the flat arrays of a path is the flat storage of `Path.reversed()` -/
theorem numpy_reverse_eq (p : Path V) :
    npReverse ⟨p.vertices, p.commands⟩ = ⟨p.reversed.vertices, p.reversed.commands⟩ := by
  obtain ⟨hv, hc⟩ := reversed_flat p
  unfold npReverse
  cases hl : p.elems.getLast? with
  | none =>
    have : p.elems = [] := by
      cases he : p.elems with
      | nil => rfl
      | cons a r => rw [he] at hl; simp [List.getLast?_eq_some_getLast] at hl
    simp [Path.commands, Path.reversed, this]
  | some lastEl =>
    have hsplit : p.elems = p.elems.dropLast ++ [lastEl] := (List.dropLast_append_getLast? lastEl hl).symm
    have hcl : p.commands.getLast? = some lastEl.code := by
      simp [Path.commands, List.getLast?_map, hl]
    rw [hcl]
    simp only
    rw [hl] at hv hc
    cases lastEl with
    | moveTo e =>
      simp only [Elem.code, if_true] at hv hc ⊢
      rw [hv, hc]
      have h1 : p.vertices.dropLast = (⟨p.start, p.elems.dropLast, p.hasSub⟩ : Path V).vertices := by
        have : p.vertices = (p.start :: p.elems.dropLast.flatMap Elem.verts) ++ [e] := by
          rw [Path.vertices]
          conv_lhs => rw [hsplit]
          simp [List.flatMap_append, Elem.verts]
        rw [this, List.dropLast_concat]
        rfl
      have h2 : p.commands.dropLast = (⟨p.start, p.elems.dropLast, p.hasSub⟩ : Path V).commands := by
        simp [Path.commands, List.map_dropLast]
      rw [h1, h2]
    | lineTo e => simp only [Elem.code] at hv hc ⊢; simp [hv, hc]
    | curve3To e c => simp only [Elem.code] at hv hc ⊢; simp [hv, hc]
    | curve4To e c1 c2 => simp only [Elem.code] at hv hc ⊢; simp [hv, hc]

/-! ### `NumpyPath2d.sub_paths()`: the index walk over the flat arrays -/

/-- the flat arrays of a path: what `NumpyPath2d(path)` stores (before the projection) -/
def flatNp (p : Path V) : NpPath V := ⟨p.vertices, p.commands⟩

private def runs (s : V) (es : List (Elem V)) : List (Path V) := (⟨s, es, false⟩ : Path V).subPaths

private theorem runs_snoc_move (s e : V) (l : List (Elem V)) :
    runs s (l ++ [Elem.moveTo e]) = runs s l ++ [⟨e, [], false⟩] := by
  unfold runs
  rw [subPaths_eq_split, subPaths_eq_split]
  simp only [splitMoves_append_move e [] (by simp) l, List.map_append, List.map_cons, List.map_nil]
  simp

private theorem runs_current (s : V) (done cur : List (Elem V))
    (hdone : done = [] ∨ ∃ d' e0, done = d' ++ [Elem.moveTo e0]) (hcur : ∀ el ∈ cur, el.isMove = false) :
    runs s (done ++ cur) = (runs s done).dropLast ++ [⟨endOf s done, cur, false⟩] := by
  rcases hdone with rfl | ⟨d', e0, rfl⟩
  · unfold runs
    rw [subPaths_eq_split, subPaths_eq_split]
    simp [splitMoves_noMoves cur hcur, splitMoves, endOf]
  · rw [runs_snoc_move, List.dropLast_concat]
    have hend : endOf s (d' ++ [Elem.moveTo e0]) = e0 := by simp [endOf, Elem.fin]
    rw [hend]
    unfold runs
    rw [subPaths_eq_split, subPaths_eq_split, List.append_assoc]
    simp only [List.singleton_append, splitMoves_append_move e0 cur hcur d', List.map_append, List.map_cons, List.map_nil]
    simp

private theorem verts_end (s : V) : ∀ (es : List (Elem V)),
    ∃ init, s :: es.flatMap Elem.verts = init ++ [endOf s es] ∧ init.length = (es.flatMap Elem.verts).length := by
  intro es
  rcases List.eq_nil_or_concat es with rfl | ⟨es', el, rfl⟩
  · exact ⟨[], by simp [endOf], rfl⟩
  · rw [List.concat_eq_append]
    have hend : endOf s (es' ++ [el]) = el.fin := by simp [endOf]
    rw [hend]
    cases el with
    | lineTo e => exact ⟨s :: es'.flatMap Elem.verts, by simp [Elem.verts, Elem.fin], by simp [Elem.verts]⟩
    | moveTo e => exact ⟨s :: es'.flatMap Elem.verts, by simp [Elem.verts, Elem.fin], by simp [Elem.verts]⟩
    | curve3To e c => exact ⟨s :: (es'.flatMap Elem.verts ++ [c]), by simp [Elem.verts, Elem.fin], by simp [Elem.verts]⟩
    | curve4To e c1 c2 =>
      exact ⟨s :: (es'.flatMap Elem.verts ++ [c1, c2]), by simp [Elem.verts, Elem.fin], by simp [Elem.verts]⟩

/-- the slices `append_sub_path()` takes for the run `cur` that follows `done` -/
private theorem slices_of_run (s : V) (done cur post : List (Elem V)) :
    slice (done.flatMap Elem.verts).length (((done ++ cur).flatMap Elem.verts).length + 1)
        (s :: (done ++ cur ++ post).flatMap Elem.verts) = endOf s done :: cur.flatMap Elem.verts ∧
    slice done.length (done ++ cur).length ((done ++ cur ++ post).map Elem.code) = cur.map Elem.code := by
  constructor
  · obtain ⟨init, hinit, hlen⟩ := verts_end s done
    have : s :: (done ++ cur ++ post).flatMap Elem.verts =
        init ++ ((endOf s done :: cur.flatMap Elem.verts) ++ post.flatMap Elem.verts) := by
      simp only [List.flatMap_append]
      rw [← List.cons_append, ← List.cons_append, hinit]
      simp
    rw [this, slice, ← hlen, List.drop_left]
    have hl : (done ++ cur).flatMap Elem.verts = done.flatMap Elem.verts ++ cur.flatMap Elem.verts := by
      simp [List.flatMap_append]
    have hk : ((done ++ cur).flatMap Elem.verts).length + 1 - init.length =
        (endOf s done :: cur.flatMap Elem.verts).length := by
      rw [hl, List.length_append, hlen, List.length_cons]; omega
    rw [hk, List.take_left]
  · have : (done ++ cur ++ post).map Elem.code = done.map Elem.code ++ (cur.map Elem.code ++ post.map Elem.code) := by
      simp
    rw [this, slice]
    have h1 : done.length = (done.map Elem.code).length := by simp
    rw [h1, List.drop_left]
    have hk : (done ++ cur).length - (done.map Elem.code).length = (cur.map Elem.code).length := by simp
    rw [hk, List.take_left]

private structure SubInv (p : Path V) (done cur : List (Elem V)) (st : NpSubSt V) : Prop where
  hdone : done = [] ∨ ∃ d' e0, done = d' ++ [Elem.moveTo e0]
  hcur : ∀ el ∈ cur, el.isMove = false
  vs : st.vtxStart = (done.flatMap Elem.verts).length
  cs : st.cmdStart = done.length
  vx : st.vtx = ((done ++ cur).flatMap Elem.verts).length
  cx : st.cmd = (done ++ cur).length
  out : st.out = ((runs p.start done).dropLast).map flatNp

private theorem len_fm_snoc (l : List (Elem V)) (el : Elem V) :
    ((l ++ [el]).flatMap Elem.verts).length = (l.flatMap Elem.verts).length + el.verts.length := by
  rw [List.flatMap_append, List.length_append, List.flatMap_cons, List.flatMap_nil, List.append_nil]

private theorem step_move (np : NpPath V) (st : NpSubSt V) :
    npSubStep np st 4 = ⟨st.vtx + 1, st.vtx + 1, st.cmd + 1, st.cmd + 1,
      st.out ++ [⟨slice st.vtxStart (st.vtx + 1) np.vertices, slice st.cmdStart st.cmd np.commands⟩]⟩ := by
  simp [npSubStep, npAppendSub]

private theorem step_nonmove (np : NpPath V) (st : NpSubSt V) (el : Elem V) (h : el.isMove = false) :
    npSubStep np st el.code = ⟨st.vtxStart, st.vtx + el.verts.length, st.cmdStart, st.cmd + 1, st.out⟩ := by
  cases el with
  | moveTo e => simp [Elem.isMove] at h
  | lineTo e => simp [npSubStep, Elem.code, Elem.verts]
  | curve3To e c => simp [npSubStep, Elem.code, Elem.verts]
  | curve4To e c1 c2 => simp [npSubStep, Elem.code, Elem.verts]

private theorem sub_fold (p : Path V) :
    ∀ (post done cur : List (Elem V)) (st : NpSubSt V), p.elems = done ++ cur ++ post → SubInv p done cur st →
      ∃ done' cur', done' ++ cur' = p.elems ∧
        SubInv p done' cur' ((post.map Elem.code).foldl (npSubStep (flatNp p)) st) := by
  intro post
  induction post with
  | nil => intro done cur st he hi; exact ⟨done, cur, by simpa using he.symm, hi⟩
  | cons el r ih =>
    intro done cur st he hi
    rw [List.map_cons, List.foldl_cons]
    by_cases hm : el.isMove = true
    · -- finish the run `cur`, the MOVE_TO vertex starts the next one
      obtain ⟨e, rfl⟩ : ∃ e, el = Elem.moveTo e := by
        cases el with
        | moveTo e => exact ⟨e, rfl⟩
        | lineTo e => simp [Elem.isMove] at hm
        | curve3To e c => simp [Elem.isMove] at hm
        | curve4To e c1 c2 => simp [Elem.isMove] at hm
      refine ih (done ++ cur ++ [Elem.moveTo e]) [] _ (by simp [he]) ?_
      obtain ⟨sl1, sl2⟩ := slices_of_run p.start done cur (Elem.moveTo e :: r)
      have hvert : (flatNp p).vertices = p.start :: (done ++ cur ++ Elem.moveTo e :: r).flatMap Elem.verts := by
        simp only [flatNp, Path.vertices, he]
      have hcmd : (flatNp p).commands = (done ++ cur ++ Elem.moveTo e :: r).map Elem.code := by
        simp only [flatNp, Path.commands, he]
      have hcode : (Elem.moveTo e : Elem V).code = 4 := rfl
      have hlen := len_fm_snoc (done ++ cur) (Elem.moveTo e)
      have hv1 : (Elem.moveTo e : Elem V).verts.length = 1 := rfl
      rw [hcode, step_move]
      refine ⟨Or.inr ⟨done ++ cur, e, rfl⟩, by simp, ?_, ?_, ?_, ?_, ?_⟩
      · show st.vtx + 1 = _
        rw [hlen, hv1, hi.vx]
      · show st.cmd + 1 = _
        rw [hi.cx]; simp only [List.length_append, List.length_cons, List.length_nil]
      · show st.vtx + 1 = _
        rw [List.append_nil, hlen, hv1, hi.vx]
      · show st.cmd + 1 = _
        rw [hi.cx]; simp only [List.length_append, List.length_cons, List.length_nil]
      · show st.out ++ [_] = _
        rw [hi.vs, hi.vx, hi.cs, hi.cx, hvert, hcmd, sl1, sl2, hi.out, runs_snoc_move, List.dropLast_concat,
          runs_current p.start done cur hi.hdone hi.hcur]
        simp [flatNp, Path.vertices, Path.commands]
    · have hm' : el.isMove = false := by simpa using hm
      refine ih done (cur ++ [el]) _ (by simp [he]) ?_
      rw [step_nonmove _ _ _ hm']
      have hlen := len_fm_snoc (done ++ cur) el
      refine ⟨hi.hdone, ?_, hi.vs, hi.cs, ?_, ?_, hi.out⟩
      · intro x hx
        rcases List.mem_append.mp hx with h | h
        · exact hi.hcur x h
        · simp only [List.mem_singleton] at h; rw [h]; exact hm'
      · show st.vtx + el.verts.length = _
        rw [← List.append_assoc, hlen, hi.vx]
      · show st.cmd + 1 = _
        rw [hi.cx]; simp [Nat.add_assoc]

/-- **`NumpyPath2d.sub_paths()` = `Path.sub_paths()`** on the flat arrays of ANY path (no well-formedness needed): the
    index walk (`vtx_start_index`, `vtx_index`, `cmd_start_index`, `cmd_index`, slices of both arrays) returns the flat
    arrays of exactly the sub-paths `Path.sub_paths()` yields, in order - except for the two documented differences:
    a path without commands has no sub-path at all, and the empty sub-path after a trailing `MOVE_TO` is not returned. -/
theorem numpy_sub_paths_eq (p : Path V) :
    npSubPaths (flatNp p) =
      match p.elems.getLast? with
      | none => []
      | some (.moveTo _) => (p.subPaths.dropLast).map flatNp
      | some _ => p.subPaths.map flatNp := by
  have hsub : p.subPaths = runs p.start p.elems := by
    unfold runs; rw [subPaths_eq_split, subPaths_eq_split]
  cases hl : p.elems.getLast? with
  | none =>
    have : p.elems = [] := by
      cases he : p.elems with
      | nil => rfl
      | cons a r => rw [he] at hl; simp [List.getLast?_eq_some_getLast] at hl
    simp [npSubPaths, flatNp, Path.commands, this]
  | some lastEl =>
    have hne : p.elems ≠ [] := by intro hc; rw [hc] at hl; simp at hl
    have hcne : (flatNp p).commands ≠ [] := by simp [flatNp, Path.commands, hne]
    have hcl : (flatNp p).commands.getLast? = some lastEl.code := by
      simp [flatNp, Path.commands, List.getLast?_map, hl]
    have hcontains : (flatNp p).commands.contains 4 = p.elems.any Elem.isMove := by
      simp only [flatNp, Path.commands]
      induction p.elems with
      | nil => rfl
      | cons a r ih => cases a <;> simp_all [Elem.code, Elem.isMove]
    unfold npSubPaths
    cases hc : (flatNp p).commands with
    | nil => exact absurd hc hcne
    | cons c0 cr =>
      simp only
      rw [← hc]
      by_cases hany : p.elems.any Elem.isMove = true
      · rw [hcontains, hany]
        simp only [if_true]
        obtain ⟨done, cur, hdc, hinv⟩ := sub_fold p p.elems [] [] ⟨0, 0, 0, 0, []⟩ (by simp)
          ⟨Or.inl rfl, by simp, rfl, rfl, rfl, rfl, by simp [runs, Path.subPaths, Path.subPathsGo, Path.new]⟩
        have hfold : (flatNp p).commands = p.elems.map Elem.code := rfl
        rw [hfold] at hcl ⊢
        rw [hcl]
        have hrun := runs_current p.start done cur hinv.hdone hinv.hcur
        obtain ⟨sl1, sl2⟩ := slices_of_run p.start done cur []
        have hv : (flatNp p).vertices = p.start :: (done ++ cur ++ []).flatMap Elem.verts := by
          simp [flatNp, Path.vertices, ← hdc]
        have hcm : (p.elems.map Elem.code) = (done ++ cur ++ []).map Elem.code := by
          simp [← hdc]
        -- what `append_sub_path()` adds after the loop
        have happ : (npAppendSub (flatNp p) ((p.elems.map Elem.code).foldl (npSubStep (flatNp p)) ⟨0, 0, 0, 0, []⟩)).out =
            p.subPaths.map flatNp := by
          have hi' := hinv
          generalize ((p.elems.map Elem.code).foldl (npSubStep (flatNp p)) ⟨0, 0, 0, 0, []⟩) = stF at hi' ⊢
          simp only [npAppendSub]
          rw [hi'.vs, hi'.vx, hi'.cs, hi'.cx, hv, hfold, hcm, sl1, sl2, hi'.out, hsub, ← hdc, hrun]
          simp [flatNp, Path.vertices, Path.commands]
        cases lastEl with
        | moveTo e =>
          simp only [Elem.code, if_true]
          -- the path ends with MOVE_TO: the current run is empty, `done` is the whole path
          have hcur : cur = [] := by
            rcases List.eq_nil_or_concat cur with h | ⟨c', x, h⟩
            · exact h
            · exfalso
              rw [List.concat_eq_append] at h
              have hx : p.elems.getLast? = some x := by rw [← hdc, h, ← List.append_assoc]; simp
              rw [hl] at hx
              have := hinv.hcur x (by rw [h]; simp)
              simp only [Option.some.injEq] at hx
              rw [← hx] at this
              simp [Elem.isMove] at this
          rw [hinv.out, hsub]
          rw [hcur, List.append_nil] at hdc
          rw [hdc]
        | lineTo e =>
          simp only [Elem.code, Option.some.injEq, show ¬ ((1 : Nat) = 4) by decide, if_false]
          exact happ
        | curve3To e c =>
          simp only [Elem.code, Option.some.injEq, show ¬ ((2 : Nat) = 4) by decide, if_false]
          exact happ
        | curve4To e c1 c2 =>
          simp only [Elem.code, Option.some.injEq, show ¬ ((3 : Nat) = 4) by decide, if_false]
          exact happ
      · have hany' : p.elems.any Elem.isMove = false := by simpa using hany
        rw [hcontains, hany']
        simp only [Bool.false_eq_true, if_false]
        have hmf : ∀ el ∈ p.elems, el.isMove = false := by
          intro el hel
          by_contra hc'
          have : p.elems.any Elem.isMove = true := List.any_eq_true.mpr ⟨el, hel, by simpa using hc'⟩
          rw [hany'] at this; exact Bool.noConfusion this
        have hlm : lastEl.isMove = false := hmf lastEl (List.mem_of_getLast? hl)
        have hsp : p.subPaths = [⟨p.start, p.elems, false⟩] := by
          rw [subPaths_eq_split, splitMoves_noMoves p.elems hmf]; rfl
        cases lastEl with
        | moveTo e => simp [Elem.isMove] at hlm
        | lineTo e => simp [hsp, flatNp, Path.vertices, Path.commands]
        | curve3To e c => simp [hsp, flatNp, Path.vertices, Path.commands]
        | curve4To e c1 c2 => simp [hsp, flatNp, Path.vertices, Path.commands]

/-- **path → HATCH polyline boundary / closed LWPOLYLINE → path** (`to_hatches(edge_path=False)`, `to_lwpolylines` of a closed
    path: the entity stores the flattening `vs` with the closed flag; `from_hatch_polyline_path` / `make_path` call
    `add_2d_polyline(vs, close=True)`): the path that comes back flattens - any distance, any twin - to `vs` again, vertex for
    vertex, followed by the start vertex exactly when `vs` does not already end at its start (`isclose(rel_tol=1e-10)`) -/
theorem polyline2d_closed_roundtrip (cfg : FlatCfg) (d : Rat) (n : Nat) (closeRel : V3 → V3 → Bool) (v0 v1 : V3)
    (rest : List V3) :
    pathFlat cfg d n (polyline2dLines closeRel ⟨0, 0, 0⟩ (v0 :: v1 :: rest) true) =
      .ok (v0 :: v1 :: rest ++
        (if closeRel v0 ((v1 :: rest).getLast (List.cons_ne_nil _ _)) then [] else [v0])) := by
  obtain ⟨h1, _, h3⟩ := lineTo_fold_vertices (v1 :: rest) (Path.new v0)
  have hl := h3 (by simp [Path.new])
  set q := (v1 :: rest).foldl (fun (p : Path V3) v => p.lineTo v) (Path.new v0) with hq
  have hverts : q.vertices = v0 :: v1 :: rest := by rw [h1]; simp [Path.new, Path.vertices]
  have hstart : q.start = v0 := by
    have := hverts; rw [Path.vertices] at this; exact (List.cons.inj this).1
  have hne : q.elems ≠ [] := by
    intro hc; rw [Path.vertices, hc] at hverts; simp at hverts
  have hfin : q.fin = (v1 :: rest).getLast (List.cons_ne_nil _ _) := by
    obtain ⟨init, hinit, _⟩ := verts_end q.start q.elems
    have hv : q.vertices = init ++ [q.fin] := hinit
    rw [hverts] at hv
    have h2 : (v0 :: v1 :: rest).getLast? = some q.fin := by rw [hv]; simp
    rw [List.getLast?_cons_cons, List.getLast?_eq_some_getLast (List.cons_ne_nil v1 rest)] at h2
    exact (Option.some.inj h2).symm
  unfold polyline2dLines
  simp only [Bool.true_and]
  rw [← hq, hstart, hfin]
  cases hc : closeRel v0 ((v1 :: rest).getLast (List.cons_ne_nil _ _)) with
  | true =>
    simp only [Bool.not_true, Bool.false_eq_true, if_false, if_true, List.append_nil]
    rw [lines_flat cfg d n q hne hl, hverts]
  | false =>
    simp only [Bool.not_false, if_true, Bool.false_eq_true, if_false]
    have hl' : ∀ el ∈ (q.lineTo v0).elems, ∃ v, el = Elem.lineTo v := by
      intro el hel
      simp only [Path.lineTo, List.mem_append, List.mem_singleton] at hel
      rcases hel with hel | rfl
      · exact hl el hel
      · exact ⟨v0, rfl⟩
    rw [lines_flat cfg d n (q.lineTo v0) (by simp [Path.lineTo]) hl']
    have : (q.lineTo v0).vertices = q.vertices ++ [v0] := by simp [Path.lineTo, Path.vertices, Elem.verts]
    rw [this, hverts]

/-- **path → closed 3D POLYLINE → path** (`to_polylines3d` of a closed path, `make_path` = `from_vertices(points, close=True)`):
    the path that comes back flattens to the de-duplicated vertices, followed by the start vertex exactly when the last kept
    vertex is not `isclose` to it (`Path.close()`) -/
theorem polyline_closed_roundtrip (cfg : FlatCfg) (d : Rat) (n : Nat) (v0 v1 : V3) (rest : List V3)
    (close : V3 → V3 → Bool) (hdistinct : dedupFrom close v0 (v1 :: rest) ≠ []) :
    ∃ q : Path V3, q.vertices = v0 :: dedupFrom close v0 (v1 :: rest) ∧
      pathFlat cfg d n (fromVertices close ⟨0, 0, 0⟩ (v0 :: v1 :: rest) true) =
        .ok (v0 :: dedupFrom close v0 (v1 :: rest) ++ (if close v0 q.fin then [] else [v0])) := by
  have hl := (fromVertices_lines close ⟨0, 0, 0⟩ (v0 :: v1 :: rest) false).2
  have hv := fromVertices_vertices close ⟨0, 0, 0⟩ v0 v1 rest
  set q := fromVertices close ⟨0, 0, 0⟩ (v0 :: v1 :: rest) false with hq
  have hne : q.elems ≠ [] := by
    intro hc
    rw [Path.vertices, hc] at hv
    simp only [List.flatMap_nil, List.cons.injEq] at hv
    exact hdistinct hv.2.symm
  have hstart : q.start = v0 := by
    have := hv; rw [Path.vertices] at this; exact (List.cons.inj this).1
  have hclosed : fromVertices close ⟨0, 0, 0⟩ (v0 :: v1 :: rest) true = q.closeP close := by
    simp only [hq, fromVertices, Bool.false_eq_true, if_false, if_true]
  refine ⟨q, hv, ?_⟩
  rw [hclosed]
  unfold Path.closeP Path.isClosed
  cases he : q.elems with
  | nil => exact absurd he hne
  | cons a r =>
    simp only
    rw [hstart]
    cases hc : close v0 q.fin with
    | true =>
      simp only [if_true, List.append_nil]
      rw [lines_flat cfg d n q hne hl, hv]
    | false =>
      simp only [Bool.false_eq_true, if_false]
      have hl' : ∀ el ∈ (q.lineTo v0).elems, ∃ v, el = Elem.lineTo v := by
        intro el hel
        simp only [Path.lineTo, List.mem_append, List.mem_singleton] at hel
        rcases hel with hel | rfl
        · exact hl el hel
        · exact ⟨v0, rfl⟩
      rw [lines_flat cfg d n (q.lineTo v0) (by simp [Path.lineTo]) hl']
      have : (q.lineTo v0).vertices = q.vertices ++ [v0] := by simp [Path.lineTo, Path.vertices, Elem.verts]
      rw [this, hv]

/-! ## ties: the source text the hand model Model/FlattenPath.lean copies, re-extracted on every run -/

section ties
open EzdxfVerif.Gen.FlattenKernels

/-- the `Path` methods as they read when the model was written (statement text, comments and docstrings dropped) -/
def pathMethodsKernel : List (String × String) :=
  [("line_to", "self._commands.append(Command.LINE_TO); self._start_index.append(len(self._vertices)); self._vertices.append(Vec3(location))"),
   ("move_to", "commands = self._commands; if not commands:\n    self._vertices[0] = Vec3(location)\n    return; self._has_sub_paths = True; if commands[-1] == Command.MOVE_TO:\n    commands.pop()\n    self._vertices.pop()\n    self._start_index.pop(); commands.append(Command.MOVE_TO); self._start_index.append(len(self._vertices)); self._vertices.append(Vec3(location))"),
   ("curve3_to", "self._commands.append(Command.CURVE3_TO); self._start_index.append(len(self._vertices)); self._vertices.extend((Vec3(ctrl), Vec3(location)))"),
   ("curve4_to", "self._commands.append(Command.CURVE4_TO); self._start_index.append(len(self._vertices)); self._vertices.extend((Vec3(ctrl1), Vec3(ctrl2), Vec3(location)))"),
   ("close", "if not self.is_closed:\n    self.line_to(self.start)"),
   ("close_sub_path", "if self.has_sub_paths:\n    start_point = self._start_of_last_sub_path()\n    assert start_point is not None, 'internal error: required MOVE_TO command not found'\n    if not self.end.isclose(start_point):\n        self.line_to(start_point)\nelse:\n    self.close()"),
   ("_start_of_last_sub_path", "move_to = Command.MOVE_TO; commands = self._commands; index = len(commands) - 1; while index > 0:\n    if commands[index] == move_to:\n        return self._vertices[self._start_index[index]]\n    index -= 1; return None"),
   ("append_path_element", "t = cmd.type; if t == Command.LINE_TO:\n    self.line_to(cmd.end)\nelif t == Command.MOVE_TO:\n    self.move_to(cmd.end)\nelif t == Command.CURVE3_TO:\n    self.curve3_to(cmd.end, cmd.ctrl)\nelif t == Command.CURVE4_TO:\n    self.curve4_to(cmd.end, cmd.ctrl1, cmd.ctrl2)\nelse:\n    raise ValueError(f'Invalid command: {t}')"),
   ("reversed", "path = self.clone(); if not path._commands:\n    return path; if path._commands[-1] == Command.MOVE_TO:\n    path._commands.pop()\n    path._vertices.pop()\n    path._start_index.pop()\n    path._has_sub_paths = any((cmd == Command.MOVE_TO for cmd in path._commands)); path._commands.reverse(); path._vertices.reverse(); path._start_index = make_vertex_index(path._commands); return path"),
   ("sub_paths", "path = self.__class__(start=self.start); path._user_data = self._user_data; move_to = Command.MOVE_TO; for cmd in self.commands():\n    if cmd.type == move_to:\n        yield path\n        path = self.__class__(start=cmd.end)\n        path._user_data = self._user_data\n    else:\n        path.append_path_element(cmd); yield path"),
   ("extend_multi_path", "if len(path):\n    self.move_to(path.start)\n    for cmd in path.commands():\n        self.append_path_element(cmd)"),
   ("append_path", "if len(path) == 0:\n    return; if self._commands:\n    if not self.end.isclose(path.start):\n        self.line_to(path.start)\nelse:\n    self.start = path.start; for cmd in path.commands():\n    self.append_path_element(cmd)"),
   ("is_closed", "vertices = self._vertices; if len(vertices) > 1:\n    return vertices[0].isclose(vertices[-1]); return False"),
   ("end", "return self._vertices[-1]"),
   ("flattening", "def curve3(p0: Vec3, p1: Vec3, p2: Vec3) -> Iterator[Vec3]:\n    if distance == 0.0:\n        raise ValueError(f'invalid max distance: 0.0')\n    return iter(Bezier3P((p0, p1, p2)).flattening(distance, segments)); def curve4(p0: Vec3, p1: Vec3, p2: Vec3, p3: Vec3) -> Iterator[Vec3]:\n    if distance == 0.0:\n        raise ValueError(f'invalid max distance: 0.0')\n    return iter(Bezier4P((p0, p1, p2, p3)).flattening(distance, segments)); return self._approximate(curve3, curve4)"),
   ("_approximate", "if not self._commands:\n    return; start = self._vertices[0]; yield start; vertices = self._vertices; for si, cmd in zip(self._start_index, self._commands):\n    if cmd == Command.LINE_TO or cmd == Command.MOVE_TO:\n        end_location = vertices[si]\n        yield end_location\n    elif cmd == Command.CURVE3_TO:\n        ctrl, end_location = vertices[si:si + 2]\n        pts = curve3(start, ctrl, end_location)\n        next(pts)\n        yield from pts\n    elif cmd == Command.CURVE4_TO:\n        ctrl1, ctrl2, end_location = vertices[si:si + 3]\n        pts = curve4(start, ctrl1, ctrl2, end_location)\n        next(pts)\n        yield from pts\n    else:\n        raise ValueError(f'Invalid command: {cmd}')\n    start = end_location"),
   ("transform", "new_path = self.clone(); new_path._vertices = list(m.transform_vertices(self._vertices)); return new_path"),
   ("to_wcs", "self._vertices = list((ocs.to_wcs(v.replace(z=float(elevation))) for v in self._vertices))"),
   ("make_vertex_index", "cmd_size = CMD_SIZE; start: int = 1; start_index: list[int] = []; for code in command_codes:\n    start_index.append(start)\n    start += cmd_size[code]; return start_index")]

/-- path/tools.py (`add_bezier4p`, `add_bezier3p`, `add_2d_polyline`, `add_ellipse`, `add_spline`, `to_multi_path`,
    `single_paths`), `converter.from_vertices` and the loop assembly of `converter.from_hatch_edge_path` -/
def pathToolsKernel : List (String × String) :=
  [("add_bezier4p", "rel_tol = 1e-15; abs_tol = 0.0; curves = list(curves); if not len(curves):\n    return; end = curves[-1].control_points[-1]; if path.end.isclose(end):\n    curves = reverse_bezier_curves(curves); for curve in curves:\n    start, ctrl1, ctrl2, end = curve.control_points\n    if not start.isclose(path.end):\n        path.line_to(start)\n    if start.isclose(ctrl1, rel_tol=rel_tol, abs_tol=abs_tol) and end.isclose(ctrl2, rel_tol=rel_tol, abs_tol=abs_tol):\n        path.line_to(end)\n    else:\n        path.curve4_to(end, ctrl1, ctrl2)"),
   ("add_bezier3p", "rel_tol = 1e-15; abs_tol = 0.0; curves = list(curves); if not len(curves):\n    return; end = curves[-1].control_points[-1]; if path.end.isclose(end):\n    curves = reverse_bezier_curves(curves); for curve in curves:\n    start, ctrl, end = curve.control_points\n    if not start.isclose(path.end, rel_tol=rel_tol, abs_tol=abs_tol):\n        path.line_to(start)\n    if start.isclose(ctrl, rel_tol=rel_tol, abs_tol=abs_tol) or end.isclose(ctrl, rel_tol=rel_tol, abs_tol=abs_tol):\n        path.line_to(end)\n    else:\n        path.curve3_to(end, ctrl)"),
   ("add_2d_polyline", "def bulge_to(p1: Vec3, p2: Vec3, bulge: float, segments: int):\n    if p1.isclose(p2, rel_tol=IS_CLOSE_TOL, abs_tol=0):\n        return\n    num_bez = math.ceil(segments / 3)\n    center, start_angle, end_angle, radius = bulge_to_arc(p1, p2, bulge)\n    start_angle = start_angle % math.tau\n    end_angle = end_angle % math.tau\n    if start_angle > end_angle:\n        end_angle += math.tau\n    angles = list(np.linspace(start_angle, end_angle, num_bez + 1))\n    curves = []\n    for i in range(num_bez):\n        ellipse = ConstructionEllipse.from_arc(center, radius, Z_AXIS, math.degrees(angles[i]), math.degrees(angles[i + 1]))\n        curves.extend(list(cubic_bezier_from_ellipse(ellipse)))\n    curve0 = curves[0]\n    cp0 = curve0.control_points[0]\n    if cp0.isclose(p2, rel_tol=IS_CLOSE_TOL, abs_tol=0):\n        curves = reverse_bezier_curves(curves)\n    add_bezier4p(path, curves); if len(path):\n    raise ValueError('Requires an empty path.'); prev_point: Optional[Vec3] = None; prev_bulge: float = 0; for x, y, bulge in points:\n    if abs(bulge) < 1e-06:\n        bulge = 0\n    point = Vec3(x, y)\n    if prev_point is None:\n        path.start = point\n        prev_point = point\n        prev_bulge = bulge\n        continue\n    if prev_bulge:\n        bulge_to(prev_point, point, prev_bulge, segments)\n    else:\n        path.line_to(point)\n    prev_point = point\n    prev_bulge = bulge; if close and (not path.start.isclose(path.end, rel_tol=IS_CLOSE_TOL, abs_tol=0)):\n    if prev_bulge:\n        bulge_to(path.end, path.start, prev_bulge, segments)\n    else:\n        path.line_to(path.start); if ocs.transform or elevation:\n    path.to_wcs(ocs, elevation)"),
   ("add_ellipse", "if abs(ellipse.param_span) < 1e-09:\n    return; if len(path) == 0 and reset:\n    path.start = ellipse.start_point; add_bezier4p(path, cubic_bezier_from_ellipse(ellipse, segments))"),
   ("add_spline", "if len(path) == 0 and reset:\n    path.start = spline.point(0); curves: Iterable[Bezier4P]; if spline.degree == 3 and (not spline.is_rational) and spline.is_clamped:\n    curves = [Bezier4P(points) for points in spline.bezier_decomposition()]\nelse:\n    curves = spline.cubic_bezier_approximation(level=level); add_bezier4p(path, curves)"),
   ("to_multi_path", "multi_path = Path(); for p in paths:\n    multi_path.extend_multi_path(p); return multi_path"),
   ("single_paths", "for p in paths:\n    if p.has_sub_paths:\n        yield from p.sub_paths()\n    else:\n        yield p"),
   ("from_vertices", "_vertices = Vec3.list(vertices); if len(_vertices) < 2:\n    return Path(); path = Path(start=_vertices[0]); for vertex in _vertices[1:]:\n    if not path.end.isclose(vertex):\n        path.line_to(vertex); if close:\n    path.close(); return path"),
   ("from_hatch_edge_path.loops", "extrusion = ocs.uz if ocs else Z_AXIS; path = Path(); loop: Optional[Path] = None; for edge in edges:\n    next_segment: Optional[Path] = None\n    if isinstance(edge, LineEdge):\n        next_segment = line(edge)\n    elif isinstance(edge, ArcEdge):\n        if abs(edge.radius) > ABS_TOL:\n            next_segment = arc(edge)\n    elif isinstance(edge, EllipseEdge):\n        if not Vec2(edge.major_axis).is_null:\n            next_segment = ellipse(edge)\n    elif isinstance(edge, SplineEdge):\n        next_segment = spline(edge)\n    else:\n        raise TypeError(type(edge))\n    if next_segment is None:\n        continue\n    if loop is None:\n        loop = next_segment\n        continue\n    if loop.end.isclose(next_segment.start):\n        loop.append_path(next_segment)\n    elif loop.end.isclose(next_segment.end):\n        loop.append_path(next_segment.reversed())\n    elif loop.start.isclose(next_segment.end):\n        next_segment.append_path(loop)\n        loop = next_segment\n    elif loop.start.isclose(next_segment.start):\n        loop = loop.reversed()\n        loop.append_path(next_segment)\n    elif loop.is_closed:\n        path.extend_multi_path(loop)\n        loop = next_segment\n    else:\n        loop.append_path(next_segment); if loop is not None:\n    loop.close()\n    path.extend_multi_path(loop); return path")]

/-- `npshapes.NumpyPath2d`: the methods the model copies (`npLoop`, `npSubPaths`, `npReverse`, `npExtend`, …) -/
def numpyPathKernel : List (String × String) :=
  [("__init__", "if path is None:\n    self._vertices = EMPTY_SHAPE\n    self._commands = NO_COMMANDS\n    return; vertices = [(v.x, v.y) for v in path.control_vertices()]; if len(vertices) == 0:\n    try:\n        vertices = [Vec2(path.start)]\n    except IndexError:\n        vertices = []; self._vertices = np.array(vertices, dtype=VertexNumpyType); self._commands = np.array(path.command_codes(), dtype=CommandNumpyType)"),
   ("flattening", "if not len(self._commands):\n    return; vertices = self.vertices(); start = vertices[0]; yield start; index = 1; for cmd in self._commands:\n    if cmd == CMD_LINE_TO or cmd == CMD_MOVE_TO:\n        end_location = vertices[index]\n        index += 1\n        yield end_location\n    elif cmd == CMD_CURVE3_TO:\n        ctrl, end_location = vertices[index:index + 2]\n        index += 2\n        pts = Vec2.generate(Bezier3P((start, ctrl, end_location)).flattening(distance, segments))\n        next(pts)\n        yield from pts\n    elif cmd == CMD_CURVE4_TO:\n        ctrl1, ctrl2, end_location = vertices[index:index + 3]\n        index += 3\n        pts = Vec2.generate(Bezier4P((start, ctrl1, ctrl2, end_location)).flattening(distance, segments))\n        next(pts)\n        yield from pts\n    else:\n        raise ValueError(f'Invalid command: {cmd}')\n    start = end_location"),
   ("sub_paths", "def append_sub_path() -> None:\n    s: Self = self.__class__(None)\n    s._vertices = vertices[vtx_start_index:vtx_index + 1]\n    s._commands = commands[cmd_start_index:cmd_index]\n    sub_paths.append(s); commands = self._commands; if len(commands) == 0:\n    return []; if CMD_MOVE_TO not in commands:\n    return [self]; sub_paths: list[Self] = []; vertices = self._vertices; vtx_start_index = 0; vtx_index = 0; cmd_start_index = 0; cmd_index = 0; for cmd in commands:\n    if cmd == CMD_LINE_TO:\n        vtx_index += 1\n    elif cmd == CMD_CURVE3_TO:\n        vtx_index += 2\n    elif cmd == CMD_CURVE4_TO:\n        vtx_index += 3\n    elif cmd == CMD_MOVE_TO:\n        append_sub_path()\n        vtx_index += 1\n        vtx_start_index = vtx_index\n        cmd_start_index = cmd_index + 1\n    cmd_index += 1; if commands[-1] != CMD_MOVE_TO:\n    append_sub_path(); return sub_paths"),
   ("reverse", "commands = self._commands; if not len(self._commands):\n    return self; if commands[-1] == CMD_MOVE_TO:\n    self._commands = np.flip(commands[:-1]).copy()\n    self._vertices = np.flip(self._vertices[:-1, ...], axis=0).copy()\nelse:\n    self._commands = np.flip(commands).copy()\n    self._vertices = np.flip(self._vertices, axis=0).copy(); return self"),
   ("extend", "if not len(paths):\n    return; if not len(self._commands):\n    first = paths[0]\n    paths = paths[1:]\nelse:\n    first = self; vertices: list[np.ndarray] = [first._vertices]; commands: list[np.ndarray] = [first._commands]; end: Vec2 = first.end; for next_path in paths:\n    if len(next_path._commands) == 0:\n        continue\n    if not end.isclose(next_path.start):\n        commands.append(np.array((CMD_MOVE_TO,), dtype=CommandNumpyType))\n        vertices.append(next_path._vertices)\n    else:\n        vertices.append(next_path._vertices[1:])\n    end = next_path.end\n    commands.append(next_path._commands); self._vertices = np.concatenate(vertices, axis=0); self._commands = np.concatenate(commands)"),
   ("to_path", "vertices = [Vec3(v) for v in self._vertices]; commands = [Command(c) for c in self._commands]; return Path.from_vertices_and_commands(vertices, commands)"),
   ("has_sub_paths", "return CMD_MOVE_TO in self._commands"),
   ("commands", "vertices = self.vertices(); index = 1; for cmd in self._commands:\n    if cmd == CMD_LINE_TO:\n        yield LineTo(vertices[index])\n        index += 1\n    elif cmd == CMD_CURVE3_TO:\n        yield Curve3To(vertices[index + 1], vertices[index])\n        index += 2\n    elif cmd == CMD_CURVE4_TO:\n        yield Curve4To(vertices[index + 2], vertices[index], vertices[index + 1])\n        index += 3\n    elif cmd == CMD_MOVE_TO:\n        yield MoveTo(vertices[index])\n        index += 1"),
   ("start", "return Vec2(self._vertices[0])"),
   ("end", "return Vec2(self._vertices[-1])"),
   ("is_closed", "if len(self._vertices) > 1:\n    return self.start.isclose(self.end); return False"),
   ("clockwise", "if not self.has_clockwise_orientation():\n    self.reverse(); return self"),
   ("counter_clockwise", "if self.has_clockwise_orientation():\n    self.reverse(); return self"),
   ("CMD constants", "CMD_CURVE3_TO = int(Command.CURVE3_TO); CMD_CURVE4_TO = int(Command.CURVE4_TO); CMD_LINE_TO = int(Command.LINE_TO); CMD_MOVE_TO = int(Command.MOVE_TO)")]

/-- `make_path` dispatch: entity class → handler (live `singledispatch` registry) -/
def makePathDispatchKernel : List (String × String) :=
  [("Arc", "_from_arc"),
   ("Circle", "_from_circle"),
   ("Ellipse", "_from_ellipse"),
   ("Face3d", "_from_quadrilateral"),
   ("Hatch", "_from_hatch"),
   ("Helix", "_from_spline"),
   ("Image", "_from_image"),
   ("LWPolyline", "_from_lwpolyline"),
   ("Line", "_from_line"),
   ("MPolygon", "_from_hatch"),
   ("Polyline", "_from_polyline"),
   ("Solid", "_from_quadrilateral"),
   ("Spline", "_from_spline"),
   ("Trace", "_from_quadrilateral"),
   ("Viewport", "_from_viewport"),
   ("Wipeout", "_from_image"),
   ("object", "make_path")]

/-- the path builders every handler calls -/
def makePathBuildersKernel : List (String × List String) :=
  [("_from_arc", ["ConstructionEllipse.from_arc", "Path", "tools.add_ellipse"]),
   ("_from_circle", ["ConstructionEllipse.from_arc", "Path", "tools.add_ellipse"]),
   ("_from_ellipse", ["Path", "tools.add_ellipse"]),
   ("_from_hatch", ["Path", "from_hatch_boundary_path", "tools.to_multi_path"]),
   ("_from_image", ["from_vertices"]),
   ("_from_line", ["Path", "path.line_to"]),
   ("_from_lwpolyline", ["Path", "tools.add_2d_polyline"]),
   ("_from_polyline", ["Path", "from_vertices", "tools.add_2d_polyline"]),
   ("_from_quadrilateral", ["from_vertices"]),
   ("_from_spline", ["Path", "tools.add_spline"]),
   ("_from_viewport", ["from_vertices", "make_path"]),
   ("make_path", [])]

/-- the builders that Model/FlattenPath.lean covers (`Path()`, `line_to`, `from_vertices`, `add_2d_polyline` assembly,
    `add_ellipse` / `add_spline` = `add_bezier4p` on the curves of the construction tool, `to_multi_path`) or that only
    re-enter the dispatch (`make_path`, `from_hatch_boundary_path`, `ConstructionEllipse.from_arc`) -/
def modelledBuilders : List String :=
  ["Path", "path.line_to", "from_vertices", "tools.add_2d_polyline", "tools.add_ellipse", "tools.add_spline",
   "tools.to_multi_path", "make_path", "from_hatch_boundary_path", "ConstructionEllipse.from_arc"]

/-- `Path` still is the class the model copies: every method of the list reads as it did -/
theorem tie_path_methods : pathMethods = pathMethodsKernel := by rfl

/-- `NumpyPath2d` still reads as the model copies it: one shared branch for `LINE_TO`/`MOVE_TO` that assigns
    `end_location`, `start = end_location` at the end of the loop body, the index walk of `sub_paths`, `np.flip` in `reverse` -/
theorem tie_numpy_path : numpyPathMethods = numpyPathKernel := by rfl

/-- path/tools.py and `from_vertices` still read as the model copies them -/
theorem tie_path_tools : pathTools = pathToolsKernel := by rfl

/-- T-tab: the live `make_path` registry and the builders of its handlers are the tables the model was written for -/
theorem tie_make_path_dispatch :
    makePathDispatch = makePathDispatchKernel ∧ makePathBuilders = makePathBuildersKernel := by
  constructor <;> rfl

/-- every handler of the live registry has a builder entry, and every builder it calls is one the model covers -/
theorem make_path_dispatch_covered :
    (makePathDispatch.all fun ch => ch.2 == "make_path" || makePathBuilders.any fun hb => hb.1 == ch.2) = true ∧
    (makePathBuilders.all fun hb => hb.2.all fun b => modelledBuilders.contains b) = true := by
  constructor <;> decide +kernel

/-- `CMD_SIZE`, the `Command` enum and the tolerances of the live modules are the ones of the model -/
theorem tie_path_constants :
    (cmdSizeTable.all fun kv => cmdSize kv.1 == kv.2) = true ∧
    commandCodes = [("LINE_TO", 1), ("CURVE3_TO", 2), ("CURVE4_TO", 3), ("MOVE_TO", 4)] ∧
    cmdSizeTable.map Prod.fst = [1, 2, 3, 4] ∧
    pathLinearRelTol = 1e-15 ∧ pathLinearAbsTol = 0 ∧ pathIsCloseTol = 1e-10 := by
  refine ⟨by decide +kernel, by decide +kernel, by decide +kernel, by decide +kernel, by decide +kernel, by decide +kernel⟩

end ties

/-! ## non-vacuity: concrete runs of the model and satisfiable hypotheses -/

section examples
open EzdxfVerif.Gen.FlattenKernels

private def pyCfg : FlatCfg := ⟨fun C => stackSub C 10000, mathRelTol, mathAbsTol, 10⟩
private def pyxCfg : FlatCfg := ⟨fun C => recSub C 1001, pyxRelTol, pyxAbsTol, 10⟩

/-- `CfgOK` holds for both twins (hypothesis of `path_flat_sound`, `path_flat_ends`, `path_flat_visits_ends`) -/
example : CfgOK pyCfg 4 :=
  ⟨fun C => stackSub_sound C 10000, by decide, by norm_num [pyCfg, mathRelTol], by norm_num [pyCfg, mathRelTol],
    by norm_num [pyCfg, mathAbsTol]⟩
example : CfgOK pyxCfg 4 :=
  ⟨fun C => recSub_sound C 1001, by decide, by norm_num [pyxCfg, pyxRelTol], by norm_num [pyxCfg, pyxRelTol],
    by norm_num [pyxCfg, pyxAbsTol]⟩

/-- line, cubic, MOVE_TO, quadratic: a multi-path with two sub-paths -/
private def demoPath : Path V3 :=
  ((((Path.new ⟨0, 0, 0⟩).lineTo ⟨1, 0, 0⟩).curve4To ⟨4, 0, 0⟩ ⟨2, 2, 0⟩ ⟨3, 2, 0⟩).moveTo ⟨5, 5, 0⟩).curve3To
    ⟨7, 5, 0⟩ ⟨6, 7, 0⟩

#guard demoPath.commands = [1, 3, 4, 2] && demoPath.startIndex = [1, 2, 5, 6] && demoPath.hasSub
#guard demoPath.startIndex = makeVertexIndex demoPath.commands
-- both twins finish with 35 vertices = 18 + 17 of the two sub-paths (`multi_path_flat`)
#guard (pathFlat pyCfg (1/100) 4 demoPath).toOption.map List.length = some 35
#guard pathFlat pyCfg (1/100) 4 demoPath = pathFlat pyxCfg (1/100) 4 demoPath
#guard demoPath.subPaths.map (fun s => (pathFlat pyCfg (1/100) 4 s).toOption.map List.length) = [some 18, some 17]
#guard (pathFlat pyCfg (1/100) 4 demoPath).toOption =
  (demoPath.subPaths.mapM (fun s => (pathFlat pyCfg (1/100) 4 s).toOption)).map List.flatten
-- ends and visited command end points
#guard ((pathFlat pyCfg (1/100) 4 demoPath).toOption.map List.head?) = some (some ⟨0, 0, 0⟩)
#guard ((pathFlat pyCfg (1/100) 4 demoPath).toOption.map List.getLast?) = some (some ⟨7, 5, 0⟩)
-- distance 0: ValueError when the first curve is reached; a path of lines only is unaffected
#guard pathFlat pyCfg 0 4 demoPath = .error .valueError
#guard pathFlat pyCfg 0 4 ((Path.new (⟨0, 0, 0⟩ : V3)).lineTo ⟨1, 0, 0⟩) = .ok [⟨0, 0, 0⟩, ⟨1, 0, 0⟩]
-- a trailing MOVE_TO: the multi-path emits its location, the (empty) sub-path itself emits nothing
#guard pathFlat pyCfg 1 4 (((Path.new (⟨0, 0, 0⟩ : V3)).lineTo ⟨1, 0, 0⟩).moveTo ⟨2, 2, 0⟩) = .ok [⟨0, 0, 0⟩, ⟨1, 0, 0⟩, ⟨2, 2, 0⟩]
#guard ((((Path.new (⟨0, 0, 0⟩ : V3)).lineTo ⟨1, 0, 0⟩).moveTo ⟨2, 2, 0⟩).subPaths.map (pathFlat pyCfg 1 4)) =
  [.ok [⟨0, 0, 0⟩, ⟨1, 0, 0⟩], .ok []]
-- MOVE_TO quirks: first command moves the start, MOVE_TO after MOVE_TO replaces it
#guard ((Path.new (⟨0, 0, 0⟩ : V3)).moveTo ⟨3, 3, 0⟩).vertices = [⟨3, 3, 0⟩]
#guard ((((Path.new (⟨0, 0, 0⟩ : V3)).lineTo ⟨1, 0, 0⟩).moveTo ⟨2, 2, 0⟩).moveTo ⟨4, 4, 0⟩).commands = [1, 4]
-- reversed(): flat storage reversed
#guard demoPath.reversed.commands = [2, 4, 3, 1] && demoPath.reversed.vertices = demoPath.vertices.reverse
-- to_multi_path / sub_paths round trip
#guard ((Path.toMultiPath (⟨0, 0, 0⟩ : V3) demoPath.subPaths).subPaths.map Path.vertices) = demoPath.subPaths.map Path.vertices

-- NumpyPath2d twin: same flattening as Path for a planar multi-path whose second sub-path BEGINS with a curve (C14-m4)
#guard npFlat pyCfg (1/100) 4 (NpPath.ofPath proj2 demoPath) = pathFlat pyCfg (1/100) 4 demoPath
#guard npFlat pyxCfg (1/100) 4 (NpPath.ofPath proj2 demoPath) = pathFlat pyCfg (1/100) 4 demoPath
#guard (npSubPaths (flatNp demoPath)).map (fun s => s.commands) = [[1, 3], [2]]
#guard (npSubPaths (flatNp demoPath)).map (fun s => s.vertices) = demoPath.subPaths.map Path.vertices
#guard (npReverse (flatNp demoPath)).commands = [2, 4, 3, 1]
-- a trailing MOVE_TO: Path.sub_paths yields the empty sub-path, NumpyPath2d.sub_paths does not
#guard (npSubPaths (flatNp (((Path.new (⟨0, 0, 0⟩ : V3)).lineTo ⟨1, 0, 0⟩).moveTo ⟨2, 2, 0⟩))).length = 1
example : Planar demoPath := by
  intro v hv
  simp [demoPath, Path.vertices, Path.new, Path.lineTo, Path.curve4To, Path.curve3To, Path.moveTo, Elem.verts] at hv
  rcases hv with rfl | rfl | rfl | rfl | rfl | rfl | rfl | rfl <;> rfl

private def tolX : Tol V3 := ⟨v3Isclose vecRelTol vecAbsTol, v3Isclose pathLinearRelTol pathLinearAbsTol⟩

/-- three cubics once around the origin, counter-clockwise, from (1,0) back to (1,0) -/
private def loopCs : List (Cubic V3) :=
  [⟨⟨1, 0, 0⟩, ⟨1, 1/2, 0⟩, ⟨1/2, 1, 0⟩, ⟨0, 1, 0⟩⟩, ⟨⟨0, 1, 0⟩, ⟨-1/2, 1, 0⟩, ⟨-1, 1/2, 0⟩, ⟨-1, 0, 0⟩⟩,
   ⟨⟨-1, 0, 0⟩, ⟨-1, -1, 0⟩, ⟨1, -1, 0⟩, ⟨1, 0, 0⟩⟩]

-- open chain (first two curves): appended in order, ends at the chain end (`addBezier4p_forward`)
#guard (addBezier4p tolX (Path.new ⟨1, 0, 0⟩) (loopCs.take 2)).vertices =
  [⟨1, 0, 0⟩, ⟨1, 1/2, 0⟩, ⟨1/2, 1, 0⟩, ⟨0, 1, 0⟩, ⟨-1/2, 1, 0⟩, ⟨-1, 1/2, 0⟩, ⟨-1, 0, 0⟩]
-- closed chain on an empty path: stored backwards (`closed_chain_added_reversed`, known finding C14-7)
#guard (addBezier4p tolX (Path.new ⟨1, 0, 0⟩) loopCs).vertices =
  [⟨1, 0, 0⟩, ⟨1, -1, 0⟩, ⟨-1, -1, 0⟩, ⟨-1, 0, 0⟩, ⟨-1, 1/2, 0⟩, ⟨-1/2, 1, 0⟩, ⟨0, 1, 0⟩, ⟨1/2, 1, 0⟩, ⟨1, 1/2, 0⟩, ⟨1, 0, 0⟩]
-- bulge_to, clockwise (negative bulge) from p1 = (-1,0) to p2 = (1,0) over two sub-arcs given counter-clockwise from p2:
-- whole chain reversed, sub-arc order included (`bulgeTo_backward`); reversing each sub-arc in place would not connect
#guard (bulgeTo tolX (v3Isclose pathIsCloseTol 0) (Path.new ⟨-1, 0, 0⟩) ⟨1, 0, 0⟩ [loopCs.take 1, (loopCs.drop 1).take 1]).vertices =
  [⟨-1, 0, 0⟩, ⟨-1, 1/2, 0⟩, ⟨-1/2, 1, 0⟩, ⟨0, 1, 0⟩, ⟨1/2, 1, 0⟩, ⟨1, 1/2, 0⟩, ⟨1, 0, 0⟩]
-- the straight-segment rule: both handles retracted -> LINE_TO, one handle retracted -> still a curve
#guard (addBezier4p tolX (Path.new (⟨0, 0, 0⟩ : V3)) [⟨⟨0, 0, 0⟩, ⟨0, 0, 0⟩, ⟨2, 0, 0⟩, ⟨2, 0, 0⟩⟩]).commands = [1]
#guard (addBezier4p tolX (Path.new (⟨0, 0, 0⟩ : V3)) [⟨⟨0, 0, 0⟩, ⟨0, 0, 0⟩, ⟨1, 1, 0⟩, ⟨2, 0, 0⟩⟩]).commands = [3]

-- HATCH edge path: three line edges given in mixed directions form one closed triangle, a fourth far edge a second loop
private def seg (a b : V3) : Path V3 := (Path.new a).lineTo b
#guard (edgeLoops tolX.close [seg ⟨0, 0, 0⟩ ⟨4, 0, 0⟩, seg ⟨0, 3, 0⟩ ⟨4, 0, 0⟩, seg ⟨0, 3, 0⟩ ⟨0, 0, 0⟩, seg ⟨9, 9, 0⟩ ⟨8, 8, 0⟩]).map
    Path.vertices = [[⟨0, 0, 0⟩, ⟨4, 0, 0⟩, ⟨0, 3, 0⟩, ⟨0, 0, 0⟩], [⟨9, 9, 0⟩, ⟨8, 8, 0⟩, ⟨9, 9, 0⟩]]
#guard ((edgePath tolX.close ⟨0, 0, 0⟩ [seg ⟨0, 0, 0⟩ ⟨4, 0, 0⟩, seg ⟨0, 3, 0⟩ ⟨4, 0, 0⟩, seg ⟨0, 3, 0⟩ ⟨0, 0, 0⟩,
    seg ⟨9, 9, 0⟩ ⟨8, 8, 0⟩]).commands) = [1, 1, 1, 4, 1, 1]

example : Linked tolX ⟨1, 0, 0⟩ loopCs ⟨1, 0, 0⟩ := by
  simp only [loopCs, Linked]; decide +kernel
example : Single (Path.new (⟨0, 0, 0⟩ : V3) |>.lineTo ⟨1, 0, 0⟩) := ⟨rfl, by simp [Path.lineTo, Path.new], by simp [Path.lineTo, Path.new, Elem.isMove]⟩

end examples

end EzdxfVerif.Props.C14Path

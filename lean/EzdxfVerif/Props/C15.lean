/-
C15  Bounding boxes contain the geometry and are tight.
Only property theorems (each `theorem` is a counted obligation), `private` helpers and non-vacuity
`example`/`#guard`s.  Model: EzdxfVerif/Model/BBox.lean (hand model of math/bbox.py, of the folds and the
cache protocol of ezdxf/bbox.py and of one coordinate of the Bézier evaluators); Gen/BBoxKernels.lean is
translated from the current source on every run and proved equal to the model in section `kernels`.

`WF` (lo ≤ hi on every axis) is what every constructor/`extend`/`union`/`intersection` produces
(`extents_wf`, `union_wf`, `intersection_wf`); boxes with corners written directly through the public
attributes may violate it, which is why it appears as an explicit hypothesis where it is needed.

Session 3 (section `session3` at the end; proofs in Lemmas/BBoxTree.lean, Lemmas/BBoxCubic.lean, model in
Model/BBoxTree.lean): paths (`precise_bbox`, `Path.control_vertices`, `path.bbox`), the extremum search of
`cubic_bezier_bbox`/`quadratic_bezier_bbox` with `sqrt` as a parameter, entity TREES (`recursive_decompose`,
`virtual_entities`, INSERT transformation incl. the explode fall-back) at any nesting depth, the cache on trees.

Not proved here (oracle only): that the Bézier path `make_path` builds for an arc/ellipse/spline approximates the
entity within the documented distance; the matrix `Insert.matrix44()` and OCS handling (C12); MINSERT grids.
-/
import Mathlib.Algebra.Order.Field.Rat
import Mathlib.Tactic.Linarith
import Mathlib.Tactic.Ring
import Mathlib.Tactic.Positivity
import EzdxfVerif.Model.BBox
import EzdxfVerif.Lemmas.BBoxCubic
import EzdxfVerif.Lemmas.BBoxSelect
import EzdxfVerif.Lemmas.BBoxArc
import EzdxfVerif.Lemmas.BBoxOcs
import EzdxfVerif.Gen.BBoxKernels
namespace EzdxfVerif.Props.C15
open EzdxfVerif.BBox

@[simp] private theorem rmin_eq (a b : Rat) : rmin a b = min a b := by
  unfold rmin; rw [min_def]
@[simp] private theorem rmax_eq (a b : Rat) : rmax a b = max a b := by
  unfold rmax; rw [max_def]

section folds
variable {α : Type} (f : α → Rat)

private theorem foldl_min_le_iff (l : List α) (init c : Rat) :
    l.foldl (fun a q => min a (f q)) init ≤ c ↔ init ≤ c ∨ ∃ q ∈ l, f q ≤ c := by
  induction l generalizing init with
  | nil => simp
  | cons h t ih => simp [ih, or_assoc]

private theorem le_foldl_min_iff (l : List α) (init c : Rat) :
    c ≤ l.foldl (fun a q => min a (f q)) init ↔ c ≤ init ∧ ∀ q ∈ l, c ≤ f q := by
  induction l generalizing init with
  | nil => simp
  | cons h t ih => simp [ih, and_assoc]

private theorem le_foldl_max_iff (l : List α) (init c : Rat) :
    c ≤ l.foldl (fun a q => max a (f q)) init ↔ c ≤ init ∨ ∃ q ∈ l, c ≤ f q := by
  induction l generalizing init with
  | nil => simp
  | cons h t ih => simp [ih, or_assoc]

private theorem foldl_max_le_iff (l : List α) (init c : Rat) :
    l.foldl (fun a q => max a (f q)) init ≤ c ↔ init ≤ c ∧ ∀ q ∈ l, f q ≤ c := by
  induction l generalizing init with
  | nil => simp
  | cons h t ih => simp [ih, and_assoc]

private theorem foldl_min_attained (l : List α) (init : Rat) :
    l.foldl (fun a q => min a (f q)) init = init ∨ ∃ q ∈ l, l.foldl (fun a q => min a (f q)) init = f q := by
  induction l generalizing init with
  | nil => simp
  | cons h t ih =>
    simp only [List.foldl_cons, List.mem_cons, exists_eq_or_imp]
    rcases ih (min init (f h)) with e | ⟨q, hq, e⟩
    · rw [e]; rcases min_choice init (f h) with e' | e' <;> simp [e']
    · exact Or.inr (Or.inr ⟨q, hq, e⟩)

private theorem foldl_max_attained (l : List α) (init : Rat) :
    l.foldl (fun a q => max a (f q)) init = init ∨ ∃ q ∈ l, l.foldl (fun a q => max a (f q)) init = f q := by
  induction l generalizing init with
  | nil => simp
  | cons h t ih =>
    simp only [List.foldl_cons, List.mem_cons, exists_eq_or_imp]
    rcases ih (max init (f h)) with e | ⟨q, hq, e⟩
    · rw [e]; rcases max_choice init (f h) with e' | e' <;> simp [e']
    · exact Or.inr (Or.inr ⟨q, hq, e⟩)
end folds

private theorem vmin_fold (ps : List V3) (p : V3) :
    ps.foldl V3.vmin p = ⟨ps.foldl (fun a q => min a q.x) p.x, ps.foldl (fun a q => min a q.y) p.y,
      ps.foldl (fun a q => min a q.z) p.z⟩ := by
  induction ps generalizing p with
  | nil => rfl
  | cons h t ih => simp [ih, V3.vmin]

private theorem vmax_fold (ps : List V3) (p : V3) :
    ps.foldl V3.vmax p = ⟨ps.foldl (fun a q => max a q.x) p.x, ps.foldl (fun a q => max a q.y) p.y,
      ps.foldl (fun a q => max a q.z) p.z⟩ := by
  induction ps generalizing p with
  | nil => rfl
  | cons h t ih => simp [ih, V3.vmax]

private theorem inside_mk_iff (lo hi p : V3) :
    (Box3.mk lo hi).inside p = true ↔
      lo.x ≤ p.x ∧ p.x ≤ hi.x ∧ lo.y ≤ p.y ∧ p.y ≤ hi.y ∧ lo.z ≤ p.z ∧ p.z ≤ hi.z := by
  simp [Box3.inside, and_assoc]

/-- order- and grouping-independent description of the constructor: a point is inside the box of a
    point list iff on every axis some listed point lies on either side of it -/
private theorem inside_extents_iff (l : List V3) (p : V3) :
    (extents3 l).inside p = true ↔
      (∃ q ∈ l, q.x ≤ p.x) ∧ (∃ q ∈ l, p.x ≤ q.x) ∧ (∃ q ∈ l, q.y ≤ p.y) ∧ (∃ q ∈ l, p.y ≤ q.y) ∧
      (∃ q ∈ l, q.z ≤ p.z) ∧ (∃ q ∈ l, p.z ≤ q.z) := by
  cases l with
  | nil => simp [extents3, Box3.inside]
  | cons h t =>
    simp only [extents3, inside_mk_iff, vmin_fold, vmax_fold, foldl_min_le_iff, le_foldl_max_iff,
      List.mem_cons, exists_eq_or_imp]

theorem extents_wf (l : List V3) : (extents3 l).WF := by
  cases l with
  | nil => trivial
  | cons h t =>
    simp only [extents3, Box3.WF, vmin_fold, vmax_fold]
    refine ⟨?_, ?_, ?_⟩ <;>
      exact le_trans ((foldl_min_le_iff _ t _ _).mpr (Or.inl le_rfl)) ((le_foldl_max_iff _ t _ _).mpr (Or.inl le_rfl))

theorem extents_contains_all (vs : List V3) (p : V3) (hp : p ∈ vs) : (extents3 vs).inside p = true := by
  rw [inside_extents_iff]
  exact ⟨⟨p, hp, le_rfl⟩, ⟨p, hp, le_rfl⟩, ⟨p, hp, le_rfl⟩, ⟨p, hp, le_rfl⟩, ⟨p, hp, le_rfl⟩, ⟨p, hp, le_rfl⟩⟩

theorem extents_tight (vs : List V3) (hne : vs ≠ []) :
    ∃ lo hi, extents3 vs = .mk lo hi ∧
      (∃ p ∈ vs, p.x = lo.x) ∧ (∃ p ∈ vs, p.y = lo.y) ∧ (∃ p ∈ vs, p.z = lo.z) ∧
      (∃ p ∈ vs, p.x = hi.x) ∧ (∃ p ∈ vs, p.y = hi.y) ∧ (∃ p ∈ vs, p.z = hi.z) := by
  cases vs with
  | nil => exact absurd rfl hne
  | cons h t =>
    refine ⟨_, _, rfl, ?_⟩
    simp only [vmin_fold, vmax_fold, List.mem_cons, exists_eq_or_imp]
    refine ⟨?_, ?_, ?_, ?_, ?_, ?_⟩
    · rcases foldl_min_attained V3.x t h.x with e | ⟨q, hq, e⟩
      · exact Or.inl e.symm
      · exact Or.inr ⟨q, hq, e.symm⟩
    · rcases foldl_min_attained V3.y t h.y with e | ⟨q, hq, e⟩
      · exact Or.inl e.symm
      · exact Or.inr ⟨q, hq, e.symm⟩
    · rcases foldl_min_attained V3.z t h.z with e | ⟨q, hq, e⟩
      · exact Or.inl e.symm
      · exact Or.inr ⟨q, hq, e.symm⟩
    · rcases foldl_max_attained V3.x t h.x with e | ⟨q, hq, e⟩
      · exact Or.inl e.symm
      · exact Or.inr ⟨q, hq, e.symm⟩
    · rcases foldl_max_attained V3.y t h.y with e | ⟨q, hq, e⟩
      · exact Or.inl e.symm
      · exact Or.inr ⟨q, hq, e.symm⟩
    · rcases foldl_max_attained V3.z t h.z with e | ⟨q, hq, e⟩
      · exact Or.inl e.symm
      · exact Or.inr ⟨q, hq, e.symm⟩

/-- well-formed boxes are determined by their point sets -/
private theorem box_ext (a b : Box3) (ha : a.WF) (hb : b.WF) (h : ∀ p, a.inside p = b.inside p) : a = b := by
  cases a with
  | empty =>
    cases b with
    | empty => rfl
    | mk lo hi =>
      have := h lo
      have h2 := (inside_mk_iff lo hi lo).mpr ⟨le_rfl, hb.1, le_rfl, hb.2.1, le_rfl, hb.2.2⟩
      rw [h2] at this; exact absurd this (by simp [Box3.inside])
  | mk alo ahi =>
    cases b with
    | empty =>
      have := h alo
      have h2 := (inside_mk_iff alo ahi alo).mpr ⟨le_rfl, ha.1, le_rfl, ha.2.1, le_rfl, ha.2.2⟩
      rw [h2] at this; exact absurd this (by simp [Box3.inside])
    | mk blo bhi =>
      have e1 := (inside_mk_iff alo ahi alo).mpr ⟨le_rfl, ha.1, le_rfl, ha.2.1, le_rfl, ha.2.2⟩
      have e2 := (inside_mk_iff alo ahi ahi).mpr ⟨ha.1, le_rfl, ha.2.1, le_rfl, ha.2.2, le_rfl⟩
      have e3 := (inside_mk_iff blo bhi blo).mpr ⟨le_rfl, hb.1, le_rfl, hb.2.1, le_rfl, hb.2.2⟩
      have e4 := (inside_mk_iff blo bhi bhi).mpr ⟨hb.1, le_rfl, hb.2.1, le_rfl, hb.2.2, le_rfl⟩
      rw [h] at e1 e2; rw [← h] at e3 e4
      rw [inside_mk_iff] at e1 e2 e3 e4
      obtain ⟨ax, ay, az⟩ := alo; obtain ⟨bx, by', bz⟩ := blo
      obtain ⟨cx, cy, cz⟩ := ahi; obtain ⟨dx, dy, dz⟩ := bhi
      simp only at e1 e2 e3 e4 ⊢
      simp only [Box3.mk.injEq, V3.mk.injEq]
      refine ⟨⟨?_, ?_, ?_⟩, ⟨?_, ?_, ?_⟩⟩ <;> apply le_antisymm <;> linarith [e1, e2, e3, e4]

/-- `all_inside(vs)` is `contains(BoundingBox(vs))`, for every box and every list, the two `False`
    quirks included (empty list, empty receiver) -/
theorem all_inside_eq_contains_extents (b : Box3) (vs : List V3) :
    b.allInside vs = b.contains (extents3 vs) := by
  cases b with
  | empty => cases vs <;> simp [Box3.allInside, Box3.hasData, Box3.contains, Box3.inside, extents3]
  | mk lo hi =>
    cases vs with
    | nil => simp [Box3.allInside, Box3.contains, extents3]
    | cons h t =>
      rw [Bool.eq_iff_iff]
      simp only [Box3.allInside, Box3.hasData, Box3.contains, extents3, Bool.true_and, List.isEmpty_cons,
        Bool.not_false, Bool.and_eq_true, List.all_eq_true, inside_mk_iff, vmin_fold, vmax_fold,
        le_foldl_min_iff, foldl_min_le_iff, le_foldl_max_iff, foldl_max_le_iff, List.mem_cons, forall_eq_or_imp]
      constructor
      · rintro ⟨⟨h1, h2, h3, h4, h5, h6⟩, ht⟩
        refine ⟨⟨⟨h1, fun q hq => (ht q hq).1⟩, Or.inl h2, ⟨h3, fun q hq => (ht q hq).2.2.1⟩, Or.inl h4,
          ⟨h5, fun q hq => (ht q hq).2.2.2.2.1⟩, Or.inl h6⟩,
          ⟨Or.inl h1, ⟨h2, fun q hq => (ht q hq).2.1⟩, Or.inl h3, ⟨h4, fun q hq => (ht q hq).2.2.2.1⟩, Or.inl h5,
          ⟨h6, fun q hq => (ht q hq).2.2.2.2.2⟩⟩⟩
      · rintro ⟨⟨⟨h1, t1⟩, -, ⟨h3, t3⟩, -, ⟨h5, t5⟩, -⟩, ⟨-, ⟨h2, t2⟩, -, ⟨h4, t4⟩, -, ⟨h6, t6⟩⟩⟩
        exact ⟨⟨h1, h2, h3, h4, h5, h6⟩, fun q hq => ⟨t1 q hq, t2 q hq, t3 q hq, t4 q hq, t5 q hq, t6 q hq⟩⟩

/-- a non-empty well-formed `other` is contained iff it is a subset -/
theorem contains_iff_subset (a : Box3) (lo hi : V3) (hb : (Box3.mk lo hi).WF) :
    a.contains (.mk lo hi) = true ↔ ∀ p, (Box3.mk lo hi).inside p = true → a.inside p = true := by
  cases a with
  | empty =>
    simp only [Box3.contains, Box3.inside, Bool.and_self, Bool.false_eq_true, false_iff, not_forall]
    exact ⟨lo, by simp [hb.1, hb.2.1, hb.2.2]⟩
  | mk alo ahi =>
    simp only [Box3.contains, Bool.and_eq_true, inside_mk_iff]
    constructor
    · rintro ⟨⟨h1, h2, h3, h4, h5, h6⟩, ⟨g1, g2, g3, g4, g5, g6⟩⟩ p ⟨p1, p2, p3, p4, p5, p6⟩
      exact ⟨by linarith, by linarith, by linarith, by linarith, by linarith, by linarith⟩
    · intro h
      exact ⟨h lo ⟨le_rfl, hb.1, le_rfl, hb.2.1, le_rfl, hb.2.2⟩, h hi ⟨hb.1, le_rfl, hb.2.1, le_rfl, hb.2.2, le_rfl⟩⟩

/-- the empty case as the code behaves: nothing contains the empty box (its corners are `inf`),
    although the empty set is a subset of everything -/
theorem contains_empty (a : Box3) : a.contains .empty = false ∧ ∀ p, Box3.empty.inside p = false := by
  exact ⟨rfl, fun _ => rfl⟩

/-! ## extend / union -/

private theorem extents_congr (l l' : List V3) (h : ∀ q, q ∈ l ↔ q ∈ l') : extents3 l = extents3 l' := by
  apply box_ext _ _ (extents_wf _) (extents_wf _)
  intro p
  rw [Bool.eq_iff_iff, inside_extents_iff, inside_extents_iff]
  simp only [h]

private theorem extents_iter (m : List V3) (p : V3) :
    (extents3 (extents3 m).iter).inside p = (extents3 m).inside p := by
  rw [Bool.eq_iff_iff]
  cases m with
  | nil => simp [extents3, Box3.iter]
  | cons h t =>
    have wf := extents_wf (h :: t)
    rw [inside_extents_iff]
    simp only [extents3, Box3.iter, Box3.WF, inside_mk_iff, List.mem_cons, List.not_mem_nil, or_false,
      exists_eq_or_imp, exists_eq_left] at wf ⊢
    obtain ⟨w1, w2, w3⟩ := wf
    constructor
    · rintro ⟨a1 | a1, a2 | a2, a3 | a3, a4 | a4, a5 | a5, a6 | a6⟩ <;>
        exact ⟨by linarith, by linarith, by linarith, by linarith, by linarith, by linarith⟩
    · rintro ⟨a1, a2, a3, a4, a5, a6⟩
      exact ⟨Or.inl a1, Or.inr a2, Or.inl a3, Or.inr a4, Or.inl a5, Or.inr a6⟩

private theorem inside_extents_append (l m : List V3) (p : V3) :
    (extents3 (l ++ m)).inside p = true ↔
      ((∃ q ∈ l, q.x ≤ p.x) ∨ (∃ q ∈ m, q.x ≤ p.x)) ∧ ((∃ q ∈ l, p.x ≤ q.x) ∨ (∃ q ∈ m, p.x ≤ q.x)) ∧
      ((∃ q ∈ l, q.y ≤ p.y) ∨ (∃ q ∈ m, q.y ≤ p.y)) ∧ ((∃ q ∈ l, p.y ≤ q.y) ∨ (∃ q ∈ m, p.y ≤ q.y)) ∧
      ((∃ q ∈ l, q.z ≤ p.z) ∨ (∃ q ∈ m, q.z ≤ p.z)) ∧ ((∃ q ∈ l, p.z ≤ q.z) ∨ (∃ q ∈ m, p.z ≤ q.z)) := by
  rw [inside_extents_iff]
  simp only [List.mem_append, or_and_right, exists_or]

/-- replacing a sub-list of points by the two corners of its box does not change the box -/
private theorem extents_append_iter (l m : List V3) :
    extents3 (l ++ (extents3 m).iter) = extents3 (l ++ m) ∧ extents3 ((extents3 m).iter ++ l) = extents3 (m ++ l) := by
  have key : ∀ p : V3, ((∃ q ∈ (extents3 m).iter, q.x ≤ p.x) ↔ (∃ q ∈ m, q.x ≤ p.x)) ∧
      ((∃ q ∈ (extents3 m).iter, p.x ≤ q.x) ↔ (∃ q ∈ m, p.x ≤ q.x)) ∧
      ((∃ q ∈ (extents3 m).iter, q.y ≤ p.y) ↔ (∃ q ∈ m, q.y ≤ p.y)) ∧
      ((∃ q ∈ (extents3 m).iter, p.y ≤ q.y) ↔ (∃ q ∈ m, p.y ≤ q.y)) ∧
      ((∃ q ∈ (extents3 m).iter, q.z ≤ p.z) ↔ (∃ q ∈ m, q.z ≤ p.z)) ∧
      ((∃ q ∈ (extents3 m).iter, p.z ≤ q.z) ↔ (∃ q ∈ m, p.z ≤ q.z)) := by
    intro p
    cases m with
    | nil => simp [extents3, Box3.iter]
    | cons h t =>
      have wf := extents_wf (h :: t)
      simp only [extents3, Box3.iter, Box3.WF, List.mem_cons, List.not_mem_nil, or_false, exists_eq_or_imp,
        exists_eq_left, vmin_fold, vmax_fold] at wf ⊢
      obtain ⟨w1, w2, w3⟩ := wf
      refine ⟨?_, ?_, ?_, ?_, ?_, ?_⟩
      · rw [← foldl_min_le_iff V3.x]; constructor
        · rintro (a | a); exact a; exact le_trans w1 a
        · exact Or.inl
      · rw [← le_foldl_max_iff V3.x]; constructor
        · rintro (a | a); exact le_trans a w1; exact a
        · exact Or.inr
      · rw [← foldl_min_le_iff V3.y]; constructor
        · rintro (a | a); exact a; exact le_trans w2 a
        · exact Or.inl
      · rw [← le_foldl_max_iff V3.y]; constructor
        · rintro (a | a); exact le_trans a w2; exact a
        · exact Or.inr
      · rw [← foldl_min_le_iff V3.z]; constructor
        · rintro (a | a); exact a; exact le_trans w3 a
        · exact Or.inl
      · rw [← le_foldl_max_iff V3.z]; constructor
        · rintro (a | a); exact le_trans a w3; exact a
        · exact Or.inr
  constructor <;> apply box_ext _ _ (extents_wf _) (extents_wf _) <;> intro p <;>
    rw [Bool.eq_iff_iff, inside_extents_append, inside_extents_append] <;>
    obtain ⟨k1, k2, k3, k4, k5, k6⟩ := key p <;> rw [k1, k2, k3, k4, k5, k6]

private theorem extents_pair (lo hi : V3) (h : (Box3.mk lo hi).WF) : extents3 [lo, hi] = .mk lo hi := by
  obtain ⟨h1, h2, h3⟩ := h
  simp [extents3, V3.vmin, V3.vmax, min_eq_left h1, min_eq_left h2, min_eq_left h3, max_eq_right h1,
    max_eq_right h2, max_eq_right h3]

private theorem extents_iter_self (b : Box3) (h : b.WF) : extents3 b.iter = b := by
  cases b with
  | empty => rfl
  | mk lo hi => exact extents_pair lo hi h

private theorem iter_witness (b : Box3) (p : V3) (h : b.inside p = true) :
    (∃ q ∈ b.iter, q.x ≤ p.x) ∧ (∃ q ∈ b.iter, p.x ≤ q.x) ∧ (∃ q ∈ b.iter, q.y ≤ p.y) ∧ (∃ q ∈ b.iter, p.y ≤ q.y) ∧
      (∃ q ∈ b.iter, q.z ≤ p.z) ∧ (∃ q ∈ b.iter, p.z ≤ q.z) := by
  cases b with
  | empty => simp [Box3.inside] at h
  | mk lo hi =>
    rw [inside_mk_iff] at h
    obtain ⟨h1, h2, h3, h4, h5, h6⟩ := h
    simp only [Box3.iter, List.mem_cons, List.not_mem_nil, or_false, exists_eq_or_imp, exists_eq_left]
    exact ⟨Or.inl h1, Or.inr h2, Or.inl h3, Or.inr h4, Or.inl h5, Or.inr h6⟩

/-- `extend` keeps what was inside and takes in every new vertex -/
theorem extend_inside (b : Box3) (vs : List V3) (p : V3) (h : b.inside p = true ∨ p ∈ vs) :
    (b.extend vs).inside p = true := by
  cases vs with
  | nil => rcases h with h | h; exact h; exact absurd h (by simp)
  | cons v t =>
    simp only [Box3.extend]
    rw [inside_extents_append]
    rcases h with h | h
    · obtain ⟨h1, h2, h3, h4, h5, h6⟩ := iter_witness b p h
      exact ⟨Or.inr h1, Or.inr h2, Or.inr h3, Or.inr h4, Or.inr h5, Or.inr h6⟩
    · exact ⟨Or.inl ⟨p, h, le_rfl⟩, Or.inl ⟨p, h, le_rfl⟩, Or.inl ⟨p, h, le_rfl⟩, Or.inl ⟨p, h, le_rfl⟩,
        Or.inl ⟨p, h, le_rfl⟩, Or.inl ⟨p, h, le_rfl⟩⟩

/-- `extend(vs)` is the union with the box of `vs` (for boxes produced by the class itself) -/
theorem extend_eq_union (b : Box3) (hb : b.WF) (vs : List V3) : b.extend vs = b.union (extents3 vs) := by
  cases vs with
  | nil =>
    show b = extents3 (b.iter ++ [])
    rw [List.append_nil, extents_iter_self b hb]
  | cons v t =>
    simp only [Box3.extend, Box3.union, Box3.ofPoints]
    rw [(extents_append_iter b.iter (v :: t)).1]
    exact extents_congr _ _ (fun q => by simp only [List.mem_append]; exact or_comm)

theorem union_wf (a b : Box3) : (a.union b).WF := extents_wf _

theorem union_comm (a b : Box3) : a.union b = b.union a :=
  extents_congr _ _ (fun q => by simp only [List.mem_append]; exact or_comm)

theorem union_assoc (a b c : Box3) : (a.union b).union c = a.union (b.union c) := by
  simp only [Box3.union, Box3.ofPoints]
  rw [(extents_append_iter c.iter (a.iter ++ b.iter)).2, (extents_append_iter a.iter (b.iter ++ c.iter)).1,
    List.append_assoc]

theorem union_idem (a : Box3) (h : a.WF) : a.union a = a := by
  cases a with
  | empty => rfl
  | mk lo hi =>
    have e : Box3.union (.mk lo hi) (.mk lo hi) = extents3 [lo, hi] := by
      show extents3 ([lo, hi] ++ [lo, hi]) = extents3 [lo, hi]
      exact extents_congr _ _ (fun q => by simp only [List.cons_append, List.nil_append, List.mem_cons, List.not_mem_nil, or_false]; tauto)
    rw [e, extents_pair lo hi h]

/-- the empty box is the neutral element (on boxes produced by the class itself) -/
theorem union_empty (b : Box3) (h : b.WF) : Box3.empty.union b = b ∧ b.union .empty = b := by
  constructor
  · show extents3 ([] ++ b.iter) = b
    rw [List.nil_append, extents_iter_self b h]
  · show extents3 (b.iter ++ []) = b
    rw [List.append_nil, extents_iter_self b h]

private theorem four_le (a a' b b' c : Rat) (h1 : a ≤ a') (h2 : b ≤ b') :
    (a ≤ c ∨ a' ≤ c ∨ b ≤ c ∨ b' ≤ c) ↔ min a b ≤ c := by
  rw [min_le_iff]; constructor
  · rintro (h | h | h | h)
    · exact Or.inl h
    · exact Or.inl (le_trans h1 h)
    · exact Or.inr h
    · exact Or.inr (le_trans h2 h)
  · rintro (h | h)
    · exact Or.inl h
    · exact Or.inr (Or.inr (Or.inl h))

private theorem four_ge (a a' b b' c : Rat) (h1 : a ≤ a') (h2 : b ≤ b') :
    (c ≤ a ∨ c ≤ a' ∨ c ≤ b ∨ c ≤ b') ↔ c ≤ max a' b' := by
  rw [le_max_iff]; constructor
  · rintro (h | h | h | h)
    · exact Or.inl (le_trans h h1)
    · exact Or.inl h
    · exact Or.inr (le_trans h h2)
    · exact Or.inr h
  · rintro (h | h)
    · exact Or.inr (Or.inl h)
    · exact Or.inr (Or.inr (Or.inr h))

/-- the union of two boxes with data is their box hull -/
theorem union_spec (alo ahi blo bhi p : V3) (ha : (Box3.mk alo ahi).WF) (hb : (Box3.mk blo bhi).WF) :
    ((Box3.mk alo ahi).union (.mk blo bhi)).inside p = true ↔
      min alo.x blo.x ≤ p.x ∧ p.x ≤ max ahi.x bhi.x ∧ min alo.y blo.y ≤ p.y ∧ p.y ≤ max ahi.y bhi.y ∧
      min alo.z blo.z ≤ p.z ∧ p.z ≤ max ahi.z bhi.z := by
  simp only [Box3.union, Box3.ofPoints, inside_extents_iff, Box3.iter, List.cons_append, List.nil_append,
    List.mem_cons, List.not_mem_nil, or_false, exists_eq_or_imp, exists_eq_left]
  rw [four_le _ _ _ _ _ ha.1 hb.1, four_ge _ _ _ _ _ ha.1 hb.1, four_le _ _ _ _ _ ha.2.1 hb.2.1,
    four_ge _ _ _ _ _ ha.2.1 hb.2.1, four_le _ _ _ _ _ ha.2.2 hb.2.2, four_ge _ _ _ _ _ ha.2.2 hb.2.2]

/-- the union is an upper bound of both operands ... -/
theorem union_upper (a b : Box3) (p : V3) (h : a.inside p = true ∨ b.inside p = true) :
    (a.union b).inside p = true := by
  simp only [Box3.union, Box3.ofPoints]
  rw [inside_extents_append]
  rcases h with h | h
  · obtain ⟨h1, h2, h3, h4, h5, h6⟩ := iter_witness a p h
    exact ⟨Or.inl h1, Or.inl h2, Or.inl h3, Or.inl h4, Or.inl h5, Or.inl h6⟩
  · obtain ⟨h1, h2, h3, h4, h5, h6⟩ := iter_witness b p h
    exact ⟨Or.inr h1, Or.inr h2, Or.inr h3, Or.inr h4, Or.inr h5, Or.inr h6⟩

private theorem corners_inside (b : Box3) (h : b.WF) : ∀ q ∈ b.iter, b.inside q = true := by
  cases b with
  | empty => simp [Box3.iter]
  | mk lo hi =>
    obtain ⟨h1, h2, h3⟩ := h
    simp [Box3.iter, inside_mk_iff, h1, h2, h3]

/-- ... and the least box above them: every box that includes both operands includes the union -/
theorem union_least (a b c : Box3) (ha : a.WF) (hb : b.WF)
    (hac : ∀ p, a.inside p = true → c.inside p = true) (hbc : ∀ p, b.inside p = true → c.inside p = true) :
    ∀ p, (a.union b).inside p = true → c.inside p = true := by
  intro p hp
  have hall : ∀ q ∈ a.iter ++ b.iter, c.inside q = true := by
    intro q hq
    rcases List.mem_append.mp hq with hq | hq
    · exact hac q (corners_inside a ha q hq)
    · exact hbc q (corners_inside b hb q hq)
  cases hl : a.iter ++ b.iter with
  | nil => simp [Box3.union, Box3.ofPoints, hl, extents3, Box3.inside] at hp
  | cons v t =>
    have hc : c.allInside (v :: t) = true := by
      cases c with
      | empty => have := hall v (by simp [hl]); simp [Box3.inside] at this
      | mk lo hi =>
        simp only [Box3.allInside, Box3.hasData, List.isEmpty_cons, Bool.not_false, Bool.true_and, List.all_eq_true]
        intro q hq; exact hall q (by rw [hl]; exact hq)
    rw [all_inside_eq_contains_extents] at hc
    have hwf := extents_wf (v :: t)
    simp only [Box3.union, Box3.ofPoints, hl] at hp
    simp only [extents3] at hc hwf hp
    exact (contains_iff_subset c _ _ hwf).mp hc p hp

/-! ## has_overlap / has_intersection / intersection -/

private theorem has_overlap_mk_iff (alo ahi blo bhi : V3) :
    (Box3.mk alo ahi).hasOverlap (.mk blo bhi) = true ↔
      alo.x ≤ bhi.x ∧ blo.x ≤ ahi.x ∧ alo.y ≤ bhi.y ∧ blo.y ≤ ahi.y ∧ alo.z ≤ bhi.z ∧ blo.z ≤ ahi.z := by
  simp only [Box3.hasOverlap, gt_iff_lt]
  split_ifs <;> simp_all [not_lt]

private theorem has_intersection_mk_iff (alo ahi blo bhi : V3) :
    (Box3.mk alo ahi).hasIntersection (.mk blo bhi) = true ↔
      alo.x < bhi.x ∧ blo.x < ahi.x ∧ alo.y < bhi.y ∧ blo.y < ahi.y ∧ alo.z < bhi.z ∧ blo.z < ahi.z := by
  simp only [Box3.hasIntersection, ge_iff_le]
  split_ifs <;> simp_all [not_le]

/-- `has_overlap` is exactly "the two (closed) boxes share a point", zero-size boxes included -/
theorem has_overlap_iff_common_point (a b : Box3) (ha : a.WF) (hb : b.WF) :
    a.hasOverlap b = true ↔ ∃ p, a.inside p = true ∧ b.inside p = true := by
  cases a with
  | empty => simp [Box3.hasOverlap, Box3.inside]
  | mk alo ahi =>
    cases b with
    | empty => simp [Box3.hasOverlap, Box3.inside]
    | mk blo bhi =>
      obtain ⟨a1, a2, a3⟩ := ha
      obtain ⟨b1, b2, b3⟩ := hb
      rw [has_overlap_mk_iff]
      simp only [inside_mk_iff]
      constructor
      · rintro ⟨h1, h2, h3, h4, h5, h6⟩
        refine ⟨⟨max alo.x blo.x, max alo.y blo.y, max alo.z blo.z⟩, ?_, ?_⟩ <;>
          simp only [le_max_iff, max_le_iff, le_refl, true_or, or_true, true_and] <;>
          exact ⟨⟨by linarith, by linarith⟩, ⟨by linarith, by linarith⟩, ⟨by linarith, by linarith⟩⟩
      · rintro ⟨p, ⟨p1, p2, p3, p4, p5, p6⟩, ⟨q1, q2, q3, q4, q5, q6⟩⟩
        exact ⟨by linarith, by linarith, by linarith, by linarith, by linarith, by linarith⟩

/-- `has_intersection` for boxes of positive size is exactly "the open interiors share a point" -/
theorem has_intersection_iff_interiors_meet (a b : Box3) (ha : a.Pos) (hb : b.Pos) :
    a.hasIntersection b = true ↔ ∃ p, a.interior p ∧ b.interior p := by
  cases a with
  | empty => exact ha.elim
  | mk alo ahi =>
    cases b with
    | empty => exact hb.elim
    | mk blo bhi =>
      obtain ⟨a1, a2, a3⟩ := ha
      obtain ⟨b1, b2, b3⟩ := hb
      rw [has_intersection_mk_iff]
      simp only [Box3.interior]
      constructor
      · rintro ⟨h1, h2, h3, h4, h5, h6⟩
        have mx : max alo.x blo.x < min ahi.x bhi.x := by simp only [max_lt_iff, lt_min_iff]; exact ⟨⟨a1, h2⟩, h1, b1⟩
        have my : max alo.y blo.y < min ahi.y bhi.y := by simp only [max_lt_iff, lt_min_iff]; exact ⟨⟨a2, h4⟩, h3, b2⟩
        have mz : max alo.z blo.z < min ahi.z bhi.z := by simp only [max_lt_iff, lt_min_iff]; exact ⟨⟨a3, h6⟩, h5, b3⟩
        have lx := le_max_left alo.x blo.x; have lx' := le_max_right alo.x blo.x
        have ux := min_le_left ahi.x bhi.x; have ux' := min_le_right ahi.x bhi.x
        have ly := le_max_left alo.y blo.y; have ly' := le_max_right alo.y blo.y
        have uy := min_le_left ahi.y bhi.y; have uy' := min_le_right ahi.y bhi.y
        have lz := le_max_left alo.z blo.z; have lz' := le_max_right alo.z blo.z
        have uz := min_le_left ahi.z bhi.z; have uz' := min_le_right ahi.z bhi.z
        refine ⟨⟨(max alo.x blo.x + min ahi.x bhi.x) / 2, (max alo.y blo.y + min ahi.y bhi.y) / 2,
          (max alo.z blo.z + min ahi.z bhi.z) / 2⟩, ?_, ?_⟩ <;>
          exact ⟨by linarith, by linarith, by linarith, by linarith, by linarith, by linarith⟩
      · rintro ⟨p, ⟨p1, p2, p3, p4, p5, p6⟩, ⟨q1, q2, q3, q4, q5, q6⟩⟩
        exact ⟨by linarith, by linarith, by linarith, by linarith, by linarith, by linarith⟩

/-- zero-size operands as the code behaves: a point box intersects `b` iff the point is strictly
    inside `b`; two point boxes never intersect (not even with themselves) -/
theorem has_intersection_point (b : Box3) (p q : V3) :
    (b.hasIntersection (.mk p p) = true ↔ b.interior p) ∧ ((Box3.mk p p).hasIntersection b = true ↔ b.interior p) ∧
      (Box3.mk p p).hasIntersection (.mk q q) = false := by
  refine ⟨?_, ?_, ?_⟩
  · cases b with
    | empty => simp [Box3.hasIntersection, Box3.interior]
    | mk lo hi => rw [has_intersection_mk_iff]; simp only [Box3.interior]
  · cases b with
    | empty => simp [Box3.hasIntersection, Box3.interior]
    | mk lo hi => rw [has_intersection_mk_iff]; simp only [Box3.interior]; tauto
  · rw [← Bool.not_eq_true, has_intersection_mk_iff]
    rintro ⟨h1, h2, -⟩; linarith

/-- intersecting (strict) implies overlapping (non-strict), and both tests are symmetric -/
theorem has_intersection_imp_has_overlap (a b : Box3) :
    (a.hasIntersection b = true → a.hasOverlap b = true) ∧ a.hasIntersection b = b.hasIntersection a ∧
      a.hasOverlap b = b.hasOverlap a := by
  cases a with
  | empty => cases b <;> simp [Box3.hasIntersection, Box3.hasOverlap]
  | mk alo ahi =>
    cases b with
    | empty => simp [Box3.hasIntersection, Box3.hasOverlap]
    | mk blo bhi =>
      refine ⟨?_, ?_, ?_⟩
      · rw [has_intersection_mk_iff, has_overlap_mk_iff]
        rintro ⟨h1, h2, h3, h4, h5, h6⟩
        exact ⟨le_of_lt h1, le_of_lt h2, le_of_lt h3, le_of_lt h4, le_of_lt h5, le_of_lt h6⟩
      · rw [Bool.eq_iff_iff, has_intersection_mk_iff, has_intersection_mk_iff]; tauto
      · rw [Bool.eq_iff_iff, has_overlap_mk_iff, has_overlap_mk_iff]; tauto

/-- the point set of `intersection` is the set intersection exactly when `has_intersection` holds and
    empty otherwise (so touching boxes, which share points, have an empty `intersection`) -/
theorem inside_intersection (a b : Box3) (ha : a.WF) (hb : b.WF) (p : V3) :
    (a.intersection b).inside p = true ↔ a.hasIntersection b = true ∧ a.inside p = true ∧ b.inside p = true := by
  cases a with
  | empty => simp [Box3.intersection, Box3.hasIntersection, Box3.inside]
  | mk alo ahi =>
    cases b with
    | empty => simp [Box3.intersection, Box3.hasIntersection, Box3.inside]
    | mk blo bhi =>
      by_cases hi : (Box3.mk alo ahi).hasIntersection (.mk blo bhi) = true
      · obtain ⟨a1, a2, a3⟩ := ha
        obtain ⟨b1, b2, b3⟩ := hb
        simp only [Box3.intersection, hi, if_true, true_and, Box3.extend, Box3.iter, List.append_nil]
        rw [has_intersection_mk_iff] at hi
        obtain ⟨h1, h2, h3, h4, h5, h6⟩ := hi
        have wf : (Box3.mk (alo.vmax blo) (ahi.vmin bhi)).WF := by
          simp only [Box3.WF, V3.vmax, V3.vmin, rmin_eq, rmax_eq, max_le_iff, le_min_iff]
          exact ⟨⟨⟨a1, le_of_lt h2⟩, le_of_lt h1, b1⟩, ⟨⟨a2, le_of_lt h4⟩, le_of_lt h3, b2⟩,
            ⟨⟨a3, le_of_lt h6⟩, le_of_lt h5, b3⟩⟩
        rw [extents_pair _ _ wf]
        simp only [inside_mk_iff, V3.vmax, V3.vmin, rmin_eq, rmax_eq, max_le_iff, le_min_iff]
        tauto
      · simp [Box3.intersection, hi, Box3.inside]

theorem intersection_comm (a b : Box3) : a.intersection b = b.intersection a := by
  have hs := (has_intersection_imp_has_overlap a b).2.1
  cases a with
  | empty => cases b <;> simp [Box3.intersection, Box3.hasIntersection]
  | mk alo ahi =>
    cases b with
    | empty => simp [Box3.intersection, Box3.hasIntersection]
    | mk blo bhi =>
      simp only [Box3.intersection, ← hs]
      split
      · simp only [Box3.extend, Box3.iter, List.append_nil, extents3, List.foldl_cons, List.foldl_nil, V3.vmin,
          V3.vmax, rmin_eq, rmax_eq, Box3.mk.injEq, V3.mk.injEq]
        refine ⟨⟨?_, ?_, ?_⟩, ?_, ?_, ?_⟩ <;> simp only [min_comm, max_comm]
      · rfl

theorem intersection_wf (a b : Box3) : (a.intersection b).WF := by
  unfold Box3.intersection
  split
  · split
    · exact extents_wf ([_, _] ++ Box3.empty.iter)
    · trivial
  · trivial

/-- the documented quirk: a zero-size box strictly inside has an `intersection` with data (volume 0) -/
example : (Box3.mk ⟨0, 0, 0⟩ ⟨2, 2, 2⟩).intersection (.mk ⟨1, 1, 1⟩ ⟨1, 1, 1⟩) = .mk ⟨1, 1, 1⟩ ⟨1, 1, 1⟩ := by decide
example : (Box3.mk ⟨0, 0, 0⟩ ⟨1, 1, 1⟩).intersection (.mk ⟨1, 0, 0⟩ ⟨2, 1, 1⟩) = .empty ∧
    (Box3.mk ⟨0, 0, 0⟩ ⟨1, 1, 1⟩).hasOverlap (.mk ⟨1, 0, 0⟩ ⟨2, 1, 1⟩) = true := by decide

/-! ## grow / is_empty -/

/-- `grow` raises exactly when a negative value would shrink some axis to size <= 0 -/
theorem grow_raises_iff (lo hi : V3) (v : Rat) :
    (Box3.mk lo hi).grow v = none ↔
      v < 0 ∧ (hi.x - lo.x ≤ -2 * v ∨ hi.y - lo.y ≤ -2 * v ∨ hi.z - lo.z ≤ -2 * v) := by
  simp only [Box3.grow, Box3.min3, V3.sub, rmin_eq]
  split_ifs with h
  · simp only [true_iff]
    refine ⟨h.1, ?_⟩
    have h2 := h.2
    rw [ge_iff_le, div_le_iff₀ (by norm_num : (0 : Rat) < 2), min_le_iff, min_le_iff] at h2
    rcases h2 with (h2 | h2) | h2
    · left; linarith
    · right; left; linarith
    · right; right; linarith
  · simp only [false_iff]
    rintro ⟨h1, h2⟩
    apply h
    refine ⟨h1, ?_⟩
    rw [ge_iff_le, div_le_iff₀ (by norm_num : (0 : Rat) < 2), min_le_iff, min_le_iff]
    rcases h2 with h2 | h2 | h2
    · left; left; linarith
    · left; right; linarith
    · right; linarith

private theorem clamp_axis (lo hi p v : Rat) (w : lo ≤ hi) (hv : 0 ≤ v) (h1 : lo - v ≤ p) (h2 : p ≤ hi + v) :
    ∃ q, lo ≤ q ∧ q ≤ hi ∧ -v ≤ p - q ∧ p - q ≤ v := by
  rcases lt_or_ge p lo with c | c
  · exact ⟨lo, le_rfl, w, by linarith, by linarith⟩
  · rcases lt_or_ge hi p with d | d
    · exact ⟨hi, w, le_rfl, by linarith, by linarith⟩
    · exact ⟨p, c, d, by linarith, by linarith⟩

/-- growing by `v >= 0` is the Minkowski sum with the cube of half-width `v` (Chebyshev distance) -/
theorem grow_spec (b : Box3) (hb : b.WF) (v : Rat) (hv : 0 ≤ v) :
    ∃ g, b.grow v = some g ∧ g.WF ∧ ∀ p, (g.inside p = true ↔
      ∃ q, b.inside q = true ∧ |p.x - q.x| ≤ v ∧ |p.y - q.y| ≤ v ∧ |p.z - q.z| ≤ v) := by
  cases b with
  | empty => exact ⟨.empty, rfl, trivial, fun p => by simp [Box3.inside]⟩
  | mk lo hi =>
    obtain ⟨w1, w2, w3⟩ := hb
    have hn : ¬(v < 0 ∧ -v ≥ Box3.min3 (hi.sub lo) / 2) := fun h => absurd h.1 (not_lt.mpr hv)
    have e : (Box3.mk lo hi).grow v = some (.mk (lo.add ⟨-v, -v, -v⟩) (hi.add ⟨v, v, v⟩)) := by
      simp only [Box3.grow, hn, if_false]
    refine ⟨_, e, ?_, ?_⟩
    · simp only [Box3.WF, V3.add]; exact ⟨by linarith, by linarith, by linarith⟩
    · intro p
      simp only [inside_mk_iff, V3.add, abs_le]
      constructor
      · rintro ⟨h1, h2, h3, h4, h5, h6⟩
        obtain ⟨qx, x1, x2, x3, x4⟩ := clamp_axis lo.x hi.x p.x v w1 hv (by linarith) (by linarith)
        obtain ⟨qy, y1, y2, y3, y4⟩ := clamp_axis lo.y hi.y p.y v w2 hv (by linarith) (by linarith)
        obtain ⟨qz, z1, z2, z3, z4⟩ := clamp_axis lo.z hi.z p.z v w3 hv (by linarith) (by linarith)
        exact ⟨⟨qx, qy, qz⟩, ⟨x1, x2, y1, y2, z1, z2⟩, ⟨x3, x4⟩, ⟨y3, y4⟩, ⟨z3, z4⟩⟩
      · rintro ⟨q, ⟨q1, q2, q3, q4, q5, q6⟩, ⟨x1, x2⟩, ⟨y1, y2⟩, ⟨z1, z2⟩⟩
        exact ⟨by linarith, by linarith, by linarith, by linarith, by linarith, by linarith⟩

/-- an accepted shrink (`v < 0`) removes exactly the points closer than `-v` to the outside and
    leaves a box of positive size -/
theorem grow_shrink_spec (lo hi : V3) (v : Rat) (hv : v < 0) (g : Box3) (hg : (Box3.mk lo hi).grow v = some g) :
    g.Pos ∧ ∀ p, (g.inside p = true ↔
      lo.x - v ≤ p.x ∧ p.x ≤ hi.x + v ∧ lo.y - v ≤ p.y ∧ p.y ≤ hi.y + v ∧ lo.z - v ≤ p.z ∧ p.z ≤ hi.z + v) := by
  have hr := grow_raises_iff lo hi v
  simp only [Box3.grow] at hg hr
  split_ifs at hg hr with h
  simp only [Option.some.injEq] at hg
  subst hg
  simp only [false_iff, not_and, not_or, not_le] at hr
  obtain ⟨r1, r2, r3⟩ := hr hv
  refine ⟨?_, fun p => ?_⟩
  · simp only [Box3.Pos, V3.add]; exact ⟨by linarith, by linarith, by linarith⟩
  · simp only [inside_mk_iff, V3.add]
    constructor <;> rintro ⟨h1, h2, h3, h4, h5, h6⟩ <;>
      exact ⟨by linarith, by linarith, by linarith, by linarith, by linarith, by linarith⟩

/-- `is_empty` of a box with data: zero volume, i.e. no interior point -/
theorem is_empty_iff_no_interior (b : Box3) (hb : b.WF) : b.isEmpty = true ↔ ¬∃ p, b.interior p := by
  cases b with
  | empty => simp [Box3.isEmpty, Box3.interior]
  | mk lo hi =>
    obtain ⟨w1, w2, w3⟩ := hb
    simp only [Box3.isEmpty, decide_eq_true_eq, mul_eq_zero, Box3.interior, sub_eq_zero]
    constructor
    · rintro ((h | h) | h) ⟨p, p1, p2, p3, p4, p5, p6⟩ <;> linarith
    · intro h
      by_contra hc
      simp only [not_or] at hc
      obtain ⟨⟨c1, c2⟩, c3⟩ := hc
      have l1 : lo.x < hi.x := lt_of_le_of_ne w1 (fun e => c1 e.symm)
      have l2 : lo.y < hi.y := lt_of_le_of_ne w2 (fun e => c2 e.symm)
      have l3 : lo.z < hi.z := lt_of_le_of_ne w3 (fun e => c3 e.symm)
      exact h ⟨⟨(lo.x + hi.x) / 2, (lo.y + hi.y) / 2, (lo.z + hi.z) / 2⟩,
        by linarith, by linarith, by linarith, by linarith, by linarith, by linarith⟩

#guard decide ((Box3.mk ⟨0, 0, 0⟩ ⟨2, 4, 6⟩).grow (-1) = none ∧
    (Box3.mk ⟨0, 0, 0⟩ ⟨2, 4, 6⟩).grow (-1/2) = some (.mk ⟨1/2, 1/2, 1/2⟩ ⟨3/2, 7/2, 11/2⟩) ∧
    (Box3.mk ⟨1, 1, 1⟩ ⟨1, 1, 1⟩).grow 0 = some (.mk ⟨1, 1, 1⟩ ⟨1, 1, 1⟩))

/-! ## Bézier curves stay in the box of their control points (why fast mode is never smaller) -/

private theorem bezier4_between (p0 p1 p2 p3 t m M : Rat) (h0 : 0 ≤ t) (h1 : t ≤ 1)
    (l0 : m ≤ p0) (l1 : m ≤ p1) (l2 : m ≤ p2) (l3 : m ≤ p3) (u0 : p0 ≤ M) (u1 : p1 ≤ M) (u2 : p2 ≤ M) (u3 : p3 ≤ M) :
    m ≤ bezier4 p0 p1 p2 p3 t ∧ bezier4 p0 p1 p2 p3 t ≤ M := by
  have hu : 0 ≤ 1 - t := by linarith
  have e1 : bezier4 p0 p1 p2 p3 t - m =
      (1 - t) ^ 3 * (p0 - m) + 3 * (1 - t) ^ 2 * t * (p1 - m) + 3 * (1 - t) * t ^ 2 * (p2 - m) + t ^ 3 * (p3 - m) := by
    unfold bezier4; ring
  have e2 : M - bezier4 p0 p1 p2 p3 t =
      (1 - t) ^ 3 * (M - p0) + 3 * (1 - t) ^ 2 * t * (M - p1) + 3 * (1 - t) * t ^ 2 * (M - p2) + t ^ 3 * (M - p3) := by
    unfold bezier4; ring
  have a0 : 0 ≤ p0 - m := by linarith
  have a1 : 0 ≤ p1 - m := by linarith
  have a2 : 0 ≤ p2 - m := by linarith
  have a3 : 0 ≤ p3 - m := by linarith
  have b0 : 0 ≤ M - p0 := by linarith
  have b1 : 0 ≤ M - p1 := by linarith
  have b2 : 0 ≤ M - p2 := by linarith
  have b3 : 0 ≤ M - p3 := by linarith
  have g1 : 0 ≤ bezier4 p0 p1 p2 p3 t - m := by rw [e1]; positivity
  have g2 : 0 ≤ M - bezier4 p0 p1 p2 p3 t := by rw [e2]; positivity
  constructor <;> linarith

private theorem bezier3_between (p0 p1 p2 t m M : Rat) (h0 : 0 ≤ t) (h1 : t ≤ 1)
    (l0 : m ≤ p0) (l1 : m ≤ p1) (l2 : m ≤ p2) (u0 : p0 ≤ M) (u1 : p1 ≤ M) (u2 : p2 ≤ M) :
    m ≤ bezier3 p0 p1 p2 t ∧ bezier3 p0 p1 p2 t ≤ M := by
  have hu : 0 ≤ 1 - t := by linarith
  have e1 : bezier3 p0 p1 p2 t - m = (1 - t) ^ 2 * (p0 - m) + 2 * t * (1 - t) * (p1 - m) + t ^ 2 * (p2 - m) := by
    unfold bezier3; ring
  have e2 : M - bezier3 p0 p1 p2 t = (1 - t) ^ 2 * (M - p0) + 2 * t * (1 - t) * (M - p1) + t ^ 2 * (M - p2) := by
    unfold bezier3; ring
  have a0 : 0 ≤ p0 - m := by linarith
  have a1 : 0 ≤ p1 - m := by linarith
  have a2 : 0 ≤ p2 - m := by linarith
  have b0 : 0 ≤ M - p0 := by linarith
  have b1 : 0 ≤ M - p1 := by linarith
  have b2 : 0 ≤ M - p2 := by linarith
  have g1 : 0 ≤ bezier3 p0 p1 p2 t - m := by rw [e1]; positivity
  have g2 : 0 ≤ M - bezier3 p0 p1 p2 t := by rw [e2]; positivity
  constructor <;> linarith

/-- every point of a cubic Bézier curve, as `Bezier4P` evaluates it, lies in the box of the four
    control points (the box fast mode uses) -/
theorem bezier_in_control_box (p0 p1 p2 p3 : V3) (t : Rat) (h0 : 0 ≤ t) (h1 : t ≤ 1) :
    (extents3 [p0, p1, p2, p3]).inside (bezier4V p0 p1 p2 p3 t) = true := by
  have i0 := extents_contains_all [p0, p1, p2, p3] p0 (by simp)
  have i1 := extents_contains_all [p0, p1, p2, p3] p1 (by simp)
  have i2 := extents_contains_all [p0, p1, p2, p3] p2 (by simp)
  have i3 := extents_contains_all [p0, p1, p2, p3] p3 (by simp)
  simp only [extents3, inside_mk_iff] at i0 i1 i2 i3 ⊢
  obtain ⟨x1, x2⟩ := bezier4_between p0.x p1.x p2.x p3.x t _ _ h0 h1 i0.1 i1.1 i2.1 i3.1 i0.2.1 i1.2.1 i2.2.1 i3.2.1
  obtain ⟨y1, y2⟩ := bezier4_between p0.y p1.y p2.y p3.y t _ _ h0 h1 i0.2.2.1 i1.2.2.1 i2.2.2.1 i3.2.2.1
    i0.2.2.2.1 i1.2.2.2.1 i2.2.2.2.1 i3.2.2.2.1
  obtain ⟨z1, z2⟩ := bezier4_between p0.z p1.z p2.z p3.z t _ _ h0 h1 i0.2.2.2.2.1 i1.2.2.2.2.1 i2.2.2.2.2.1
    i3.2.2.2.2.1 i0.2.2.2.2.2 i1.2.2.2.2.2 i2.2.2.2.2.2 i3.2.2.2.2.2
  exact ⟨x1, x2, y1, y2, z1, z2⟩

theorem bezier3_in_control_box (p0 p1 p2 : V3) (t : Rat) (h0 : 0 ≤ t) (h1 : t ≤ 1) :
    (extents3 [p0, p1, p2]).inside (bezier3V p0 p1 p2 t) = true := by
  have i0 := extents_contains_all [p0, p1, p2] p0 (by simp)
  have i1 := extents_contains_all [p0, p1, p2] p1 (by simp)
  have i2 := extents_contains_all [p0, p1, p2] p2 (by simp)
  simp only [extents3, inside_mk_iff] at i0 i1 i2 ⊢
  obtain ⟨x1, x2⟩ := bezier3_between p0.x p1.x p2.x t _ _ h0 h1 i0.1 i1.1 i2.1 i0.2.1 i1.2.1 i2.2.1
  obtain ⟨y1, y2⟩ := bezier3_between p0.y p1.y p2.y t _ _ h0 h1 i0.2.2.1 i1.2.2.1 i2.2.2.1
    i0.2.2.2.1 i1.2.2.2.1 i2.2.2.2.1
  obtain ⟨z1, z2⟩ := bezier3_between p0.z p1.z p2.z t _ _ h0 h1 i0.2.2.2.2.1 i1.2.2.2.2.1 i2.2.2.2.2.1
    i0.2.2.2.2.2 i1.2.2.2.2.2 i2.2.2.2.2.2
  exact ⟨x1, x2, y1, y2, z1, z2⟩

/-- fast >= precise for one cubic segment: whatever parameters in [0, 1] the extremum search of
    `cubic_bezier_bbox` adds to the two end points, the resulting box is contained in the control box -/
theorem fast_contains_precise_bezier (p0 p1 p2 p3 : V3) (ts : List Rat) (h : ∀ t ∈ ts, 0 ≤ t ∧ t ≤ 1) :
    (extents3 [p0, p1, p2, p3]).contains (extents3 (p0 :: p3 :: ts.map (bezier4V p0 p1 p2 p3))) = true := by
  rw [← all_inside_eq_contains_extents]
  simp only [Box3.allInside, extents3, Box3.hasData, List.isEmpty_cons, Bool.not_false, Bool.true_and,
    List.all_cons, Bool.and_eq_true, List.all_eq_true, List.mem_map, forall_exists_index, and_imp,
    forall_apply_eq_imp_iff₂]
  refine ⟨extents_contains_all [p0, p1, p2, p3] p0 (by simp), extents_contains_all [p0, p1, p2, p3] p3 (by simp), ?_⟩
  intro t ht
  exact bezier_in_control_box p0 p1 p2 p3 t (h t ht).1 (h t ht).2

#guard decide ((extents3 [⟨0, 0, 0⟩, ⟨1, 3, 0⟩, ⟨3, -3, 0⟩, ⟨4, 0, 0⟩]).inside (bezier4V ⟨0, 0, 0⟩ ⟨1, 3, 0⟩ ⟨3, -3, 0⟩ ⟨4, 0, 0⟩ (1/4)) = true)
#guard bezier4V ⟨0, 0, 0⟩ ⟨1, 3, 0⟩ ⟨3, -3, 0⟩ ⟨4, 0, 0⟩ (1/4) == ⟨29/32, 27/32, 0⟩

/-! ## the folds of `ezdxf.bbox` and the cache -/

/-- `ezdxf.bbox.extents` folds `extend` over the yielded boxes: the result is the box of all their
    corner points, hence contains every point of every yielded box -/
theorem extend_all_spec (bs : List Box3) :
    extendAll bs = extents3 (bs.flatMap Box3.iter) ∧
      ∀ b ∈ bs, ∀ p, b.inside p = true → (extendAll bs).inside p = true := by
  have gen : ∀ (bs : List Box3) (l : List V3),
      bs.foldl (fun acc b => acc.extend b.iter) (extents3 l) = extents3 (l ++ bs.flatMap Box3.iter) := by
    intro bs
    induction bs with
    | nil => intro l; simp
    | cons b t ih =>
      intro l
      simp only [List.foldl_cons, List.flatMap_cons]
      cases b with
      | empty => simp only [Box3.iter, Box3.extend, List.nil_append]; exact ih l
      | mk lo hi =>
        have e : (extents3 l).extend (Box3.mk lo hi).iter = extents3 (l ++ [lo, hi]) := by
          show extents3 ([lo, hi] ++ (extents3 l).iter) = extents3 (l ++ [lo, hi])
          rw [(extents_append_iter [lo, hi] l).1]
          exact extents_congr _ _ (fun q => by simp only [List.mem_append]; exact or_comm)
        rw [e, ih, List.append_assoc]; rfl
  have e : extendAll bs = extents3 (bs.flatMap Box3.iter) := by
    have := gen bs []
    simpa [extendAll, extents3] using this
  refine ⟨e, ?_⟩
  intro b hb p hp
  rw [e, inside_extents_iff]
  obtain ⟨h1, h2, h3, h4, h5, h6⟩ := iter_witness b p hp
  simp only [List.mem_flatMap]
  exact ⟨by obtain ⟨q, hq, h⟩ := h1; exact ⟨q, ⟨b, hb, hq⟩, h⟩, by obtain ⟨q, hq, h⟩ := h2; exact ⟨q, ⟨b, hb, hq⟩, h⟩,
    by obtain ⟨q, hq, h⟩ := h3; exact ⟨q, ⟨b, hb, hq⟩, h⟩, by obtain ⟨q, hq, h⟩ := h4; exact ⟨q, ⟨b, hb, hq⟩, h⟩,
    by obtain ⟨q, hq, h⟩ := h5; exact ⟨q, ⟨b, hb, hq⟩, h⟩, by obtain ⟨q, hq, h⟩ := h6; exact ⟨q, ⟨b, hb, hq⟩, h⟩⟩

private theorem get_boxes (c : Cache) (key : Option Nat) : (c.get key).2.boxes = c.boxes := by
  cases key with
  | none => rfl
  | some k => simp only [Cache.get]; split <;> rfl

private theorem get_some (truth : Nat → Box3) (c : Cache) (hc : c.Inv truth) (key : Option Nat) (b : Box3)
    (h : (c.get key).1 = some b) : ∃ k, key = some k ∧ b = truth k := by
  cases key with
  | none => simp [Cache.get] at h
  | some k =>
    refine ⟨k, rfl, ?_⟩
    simp only [Cache.get] at h
    split at h
    · simp at h
    · rename_i b' hb'
      simp only [Option.some.injEq] at h
      subst h
      simp only [Cache.lookup, Option.map_eq_some_iff] at hb'
      obtain ⟨e, he, rfl⟩ := hb'
      have hm := List.mem_of_find?_eq_some he
      have hk := List.find?_some he
      simp only [beq_iff_eq] at hk
      rw [← hk]; exact hc e hm

private theorem inv_store (truth : Nat → Box3) (c : Cache) (hc : c.Inv truth) (key : Option Nat) (b : Box3)
    (h : ∀ k, key = some k → b = truth k) : (c.store key b).Inv truth := by
  cases key with
  | none => exact hc
  | some k =>
    intro e he
    simp only [Cache.store, List.mem_cons, List.mem_filter] at he
    rcases he with rfl | ⟨he, -⟩
    · exact h k rfl
    · exact hc e he

private theorem inv_of_boxes (truth : Nat → Box3) (c c' : Cache) (h : c'.boxes = c.boxes) (hc : c.Inv truth) :
    c'.Inv truth := by
  intro e he; rw [h] at he; exact hc e he

private theorem prim_step_spec (truth : Nat → Box3) (c : Cache) (hc : c.Inv truth) (q : Prim)
    (hq : ∀ k, q.key = some k → q.box = truth k) :
    (primStep true c q).1 = q.box ∧ (primStep true c q).2.Inv truth := by
  have hb := get_boxes c q.key
  have hs := get_some truth c hc q.key
  simp only [primStep, if_true]
  rcases hg : c.get q.key with ⟨o, c'⟩
  rw [hg] at hb hs
  have hc' : c'.Inv truth := inv_of_boxes truth c c' hb hc
  cases o with
  | none =>
    refine ⟨rfl, ?_⟩
    show (if q.box.hasData then c'.store q.key q.box else c').Inv truth
    split
    · exact inv_store truth c' hc' q.key q.box hq
    · exact hc'
  | some b =>
    obtain ⟨k, hk, rfl⟩ := hs b rfl
    exact ⟨(hq k hk).symm, hc'⟩

private theorem multi_recursive_spec (truth : Nat → Box3) (qs : List Prim) :
    ∀ c : Cache, c.Inv truth → (∀ q ∈ qs, ∀ k, q.key = some k → q.box = truth k) →
      (multiRecursive true c qs).1 = (qs.map Prim.box).filter Box3.hasData ∧ (multiRecursive true c qs).2.Inv truth := by
  induction qs with
  | nil => intro c hc _; exact ⟨rfl, hc⟩
  | cons q t ih =>
    intro c hc hq
    obtain ⟨e1, i1⟩ := prim_step_spec truth c hc q (hq q (by simp))
    obtain ⟨e2, i2⟩ := ih (primStep true c q).2 i1 (fun q' hq' => hq q' (by simp [hq']))
    simp only [multiRecursive, e1, e2, List.map_cons, List.filter_cons]
    exact ⟨trivial, i2⟩

private theorem multi_recursive_plain (c : Cache) (qs : List Prim) :
    multiRecursive false c qs = ((qs.map Prim.box).filter Box3.hasData, c) := by
  induction qs with
  | nil => rfl
  | cons q t ih =>
    simp only [multiRecursive, primStep, Bool.false_eq_true, if_false, ih, List.map_cons, List.filter_cons]

private theorem ent_step_plain (c : Cache) (e : Ent) : entStep false c e = (e.flatBox, c) := by
  simp [entStep, multi_recursive_plain, Ent.flatBox]

private theorem ent_step_spec (truth : Nat → Box3) (c : Cache) (hc : c.Inv truth) (e : Ent) (he : e.Coherent truth) :
    (entStep true c e).1 = e.flatBox ∧ (entStep true c e).2.Inv truth := by
  have hb := get_boxes c e.key
  have hs := get_some truth c hc e.key
  simp only [entStep, if_true]
  rcases hg : c.get e.key with ⟨o, c'⟩
  rw [hg] at hb hs
  have hc' : c'.Inv truth := inv_of_boxes truth c c' hb hc
  cases o with
  | none =>
    obtain ⟨e1, i1⟩ := multi_recursive_spec truth e.prims c' hc' he.1
    simp only [e1]
    refine ⟨rfl, ?_⟩
    exact inv_store truth _ i1 e.key _ (fun k hk => he.2 k hk)
  | some b =>
    obtain ⟨k, hk, rfl⟩ := hs b rfl
    exact ⟨(he.2 k hk).symm, hc'⟩

/-- A cache never changes results: if every cached box is the box of its key (`Inv`) and keys identify
    boxes (`Coherent`), then `multi_flat` / `extents` with the cache yield exactly what they yield
    without a cache (whatever that cache-less run started from), and the invariant is preserved,
    so the statement holds for every later call with the same cache as well. -/
theorem cache_transparent (truth : Nat → Box3) (es : List Ent) (c c0 : Cache) (hc : c.Inv truth)
    (he : ∀ e ∈ es, e.Coherent truth) :
    (multiFlat true c es).1 = (multiFlat false c0 es).1 ∧
      (extentsOf true c es).1 = (extentsOf false c0 es).1 ∧
      (extentsOf true c es).2.Inv truth ∧ (extentsOf false c0 es).2 = c0 := by
  have key : ∀ (es : List Ent) (c : Cache), c.Inv truth → (∀ e ∈ es, e.Coherent truth) →
      (multiFlat true c es).1 = (multiFlat false c0 es).1 ∧ (multiFlat true c es).2.Inv truth ∧
        (multiFlat false c0 es).2 = c0 := by
    intro es
    induction es with
    | nil => intro c hc _; exact ⟨rfl, hc, rfl⟩
    | cons e t ih =>
      intro c hc he
      obtain ⟨e1, i1⟩ := ent_step_spec truth c hc e (he e (by simp))
      obtain ⟨e2, i2, e3⟩ := ih (entStep true c e).2 i1 (fun e' he' => he e' (by simp [he']))
      simp only [multiFlat, ent_step_plain, e1, e2, e3]
      exact ⟨trivial, i2, trivial⟩
  obtain ⟨k1, k2, k3⟩ := key es c hc he
  exact ⟨k1, by simp only [extentsOf, k1], k2, k3⟩

/-- non-vacuity: a coherent universe (a LINE-like entity 7 whose primitive carries the same key, an
    INSERT-like entity 9 with an unkeyed and a keyed primitive) and a warm cache -/
private def exTruth : Nat → Box3
  | 7 => .mk ⟨0, 0, 0⟩ ⟨1, 1, 0⟩
  | 8 => .mk ⟨5, 5, 5⟩ ⟨6, 6, 6⟩
  | 9 => .mk ⟨2, 2, 2⟩ ⟨6, 6, 6⟩
  | _ => .empty
private def exEnts : List Ent :=
  [⟨some 7, [⟨some 7, exTruth 7⟩]⟩, ⟨some 9, [⟨none, .mk ⟨2, 2, 2⟩ ⟨3, 3, 3⟩⟩, ⟨some 8, exTruth 8⟩]⟩, ⟨none, [⟨none, .empty⟩]⟩]
example : (Cache.mk [(9, exTruth 9)] 0 0).Inv exTruth ∧ ∀ e ∈ exEnts, e.Coherent exTruth := by
  refine ⟨by simp [Cache.Inv], ?_⟩
  simp only [exEnts, List.mem_cons, List.not_mem_nil, or_false, forall_eq_or_imp, forall_eq, Ent.Coherent]
  decide
#guard (extentsOf true ⟨[(9, exTruth 9)], 0, 0⟩ exEnts).1 == (extentsOf false ⟨[], 0, 0⟩ exEnts).1
#guard (extentsOf true ⟨[(9, exTruth 9)], 0, 0⟩ exEnts).1 == .mk ⟨0, 0, 0⟩ ⟨6, 6, 6⟩
#guard (extentsOf true ⟨[(9, exTruth 9)], 0, 0⟩ exEnts).2.hits == 1
-- the hypothesis is needed: a stale entry (a box cached with another `fast` flag, an entity edited
-- after caching) changes the result
#guard (extentsOf true ⟨[(9, .mk ⟨0, 0, 0⟩ ⟨9, 9, 9⟩)], 0, 0⟩ exEnts).1 != (extentsOf false ⟨[], 0, 0⟩ exEnts).1

/-! # The same statements for `BoundingBox2d` -/
section twoD

private theorem vmin_fold2 (ps : List V2) (p : V2) :
    ps.foldl V2.vmin p = ⟨ps.foldl (fun a q => min a q.x) p.x, ps.foldl (fun a q => min a q.y) p.y⟩ := by
  induction ps generalizing p with
  | nil => rfl
  | cons h t ih => simp [ih, V2.vmin]

private theorem vmax_fold2 (ps : List V2) (p : V2) :
    ps.foldl V2.vmax p = ⟨ps.foldl (fun a q => max a q.x) p.x, ps.foldl (fun a q => max a q.y) p.y⟩ := by
  induction ps generalizing p with
  | nil => rfl
  | cons h t ih => simp [ih, V2.vmax]

private theorem inside2_mk_iff (lo hi p : V2) :
    (Box2.mk lo hi).inside p = true ↔ lo.x ≤ p.x ∧ p.x ≤ hi.x ∧ lo.y ≤ p.y ∧ p.y ≤ hi.y := by
  simp [Box2.inside, and_assoc]

private theorem inside_extents2_iff (l : List V2) (p : V2) :
    (extents2 l).inside p = true ↔
      (∃ q ∈ l, q.x ≤ p.x) ∧ (∃ q ∈ l, p.x ≤ q.x) ∧ (∃ q ∈ l, q.y ≤ p.y) ∧ (∃ q ∈ l, p.y ≤ q.y) := by
  cases l with
  | nil => simp [extents2, Box2.inside]
  | cons h t =>
    simp only [extents2, inside2_mk_iff, vmin_fold2, vmax_fold2, foldl_min_le_iff, le_foldl_max_iff,
      List.mem_cons, exists_eq_or_imp]

theorem extents2_wf (l : List V2) : (extents2 l).WF := by
  cases l with
  | nil => trivial
  | cons h t =>
    simp only [extents2, Box2.WF, vmin_fold2, vmax_fold2]
    refine ⟨?_, ?_⟩ <;>
      exact le_trans ((foldl_min_le_iff _ t _ _).mpr (Or.inl le_rfl)) ((le_foldl_max_iff _ t _ _).mpr (Or.inl le_rfl))

theorem extents2_contains_all (vs : List V2) (p : V2) (hp : p ∈ vs) : (extents2 vs).inside p = true := by
  rw [inside_extents2_iff]
  exact ⟨⟨p, hp, le_rfl⟩, ⟨p, hp, le_rfl⟩, ⟨p, hp, le_rfl⟩, ⟨p, hp, le_rfl⟩⟩

theorem extents2_tight (vs : List V2) (hne : vs ≠ []) :
    ∃ lo hi, extents2 vs = .mk lo hi ∧
      (∃ p ∈ vs, p.x = lo.x) ∧ (∃ p ∈ vs, p.y = lo.y) ∧ (∃ p ∈ vs, p.x = hi.x) ∧ (∃ p ∈ vs, p.y = hi.y) := by
  cases vs with
  | nil => exact absurd rfl hne
  | cons h t =>
    refine ⟨_, _, rfl, ?_⟩
    simp only [vmin_fold2, vmax_fold2, List.mem_cons, exists_eq_or_imp]
    refine ⟨?_, ?_, ?_, ?_⟩
    · rcases foldl_min_attained V2.x t h.x with e | ⟨q, hq, e⟩
      · exact Or.inl e.symm
      · exact Or.inr ⟨q, hq, e.symm⟩
    · rcases foldl_min_attained V2.y t h.y with e | ⟨q, hq, e⟩
      · exact Or.inl e.symm
      · exact Or.inr ⟨q, hq, e.symm⟩
    · rcases foldl_max_attained V2.x t h.x with e | ⟨q, hq, e⟩
      · exact Or.inl e.symm
      · exact Or.inr ⟨q, hq, e.symm⟩
    · rcases foldl_max_attained V2.y t h.y with e | ⟨q, hq, e⟩
      · exact Or.inl e.symm
      · exact Or.inr ⟨q, hq, e.symm⟩

private theorem box2_ext (a b : Box2) (ha : a.WF) (hb : b.WF) (h : ∀ p, a.inside p = b.inside p) : a = b := by
  cases a with
  | empty =>
    cases b with
    | empty => rfl
    | mk lo hi =>
      have := h lo
      have h2 := (inside2_mk_iff lo hi lo).mpr ⟨le_rfl, hb.1, le_rfl, hb.2⟩
      rw [h2] at this; exact absurd this (by simp [Box2.inside])
  | mk alo ahi =>
    cases b with
    | empty =>
      have := h alo
      have h2 := (inside2_mk_iff alo ahi alo).mpr ⟨le_rfl, ha.1, le_rfl, ha.2⟩
      rw [h2] at this; exact absurd this (by simp [Box2.inside])
    | mk blo bhi =>
      have e1 := (inside2_mk_iff alo ahi alo).mpr ⟨le_rfl, ha.1, le_rfl, ha.2⟩
      have e2 := (inside2_mk_iff alo ahi ahi).mpr ⟨ha.1, le_rfl, ha.2, le_rfl⟩
      have e3 := (inside2_mk_iff blo bhi blo).mpr ⟨le_rfl, hb.1, le_rfl, hb.2⟩
      have e4 := (inside2_mk_iff blo bhi bhi).mpr ⟨hb.1, le_rfl, hb.2, le_rfl⟩
      rw [h] at e1 e2; rw [← h] at e3 e4
      rw [inside2_mk_iff] at e1 e2 e3 e4
      obtain ⟨ax, ay⟩ := alo; obtain ⟨bx, by'⟩ := blo
      obtain ⟨cx, cy⟩ := ahi; obtain ⟨dx, dy⟩ := bhi
      simp only at e1 e2 e3 e4 ⊢
      simp only [Box2.mk.injEq, V2.mk.injEq]
      refine ⟨⟨?_, ?_⟩, ⟨?_, ?_⟩⟩ <;> apply le_antisymm <;> linarith [e1, e2, e3, e4]

theorem all_inside2_eq_contains_extents (b : Box2) (vs : List V2) :
    b.allInside vs = b.contains (extents2 vs) := by
  cases b with
  | empty => cases vs <;> simp [Box2.allInside, Box2.hasData, Box2.contains, Box2.inside, extents2]
  | mk lo hi =>
    cases vs with
    | nil => simp [Box2.allInside, Box2.contains, extents2]
    | cons h t =>
      rw [Bool.eq_iff_iff]
      simp only [Box2.allInside, Box2.hasData, Box2.contains, extents2, Bool.true_and, List.isEmpty_cons,
        Bool.not_false, Bool.and_eq_true, List.all_eq_true, inside2_mk_iff, vmin_fold2, vmax_fold2,
        le_foldl_min_iff, foldl_min_le_iff, le_foldl_max_iff, foldl_max_le_iff, List.mem_cons, forall_eq_or_imp]
      constructor
      · rintro ⟨⟨h1, h2, h3, h4⟩, ht⟩
        exact ⟨⟨⟨h1, fun q hq => (ht q hq).1⟩, Or.inl h2, ⟨h3, fun q hq => (ht q hq).2.2.1⟩, Or.inl h4⟩,
          ⟨Or.inl h1, ⟨h2, fun q hq => (ht q hq).2.1⟩, Or.inl h3, ⟨h4, fun q hq => (ht q hq).2.2.2⟩⟩⟩
      · rintro ⟨⟨⟨h1, t1⟩, -, ⟨h3, t3⟩, -⟩, ⟨-, ⟨h2, t2⟩, -, ⟨h4, t4⟩⟩⟩
        exact ⟨⟨h1, h2, h3, h4⟩, fun q hq => ⟨t1 q hq, t2 q hq, t3 q hq, t4 q hq⟩⟩

theorem contains2_iff_subset (a : Box2) (lo hi : V2) (hb : (Box2.mk lo hi).WF) :
    a.contains (.mk lo hi) = true ↔ ∀ p, (Box2.mk lo hi).inside p = true → a.inside p = true := by
  cases a with
  | empty =>
    simp only [Box2.contains, Box2.inside, Bool.and_self, Bool.false_eq_true, false_iff, not_forall]
    exact ⟨lo, by simp [hb.1, hb.2]⟩
  | mk alo ahi =>
    simp only [Box2.contains, Bool.and_eq_true, inside2_mk_iff]
    constructor
    · rintro ⟨⟨h1, h2, h3, h4⟩, ⟨g1, g2, g3, g4⟩⟩ p ⟨p1, p2, p3, p4⟩
      exact ⟨by linarith, by linarith, by linarith, by linarith⟩
    · intro h
      exact ⟨h lo ⟨le_rfl, hb.1, le_rfl, hb.2⟩, h hi ⟨hb.1, le_rfl, hb.2, le_rfl⟩⟩

theorem contains2_empty (a : Box2) : a.contains .empty = false ∧ ∀ p, Box2.empty.inside p = false :=
  ⟨rfl, fun _ => rfl⟩

private theorem extents2_congr (l l' : List V2) (h : ∀ q, q ∈ l ↔ q ∈ l') : extents2 l = extents2 l' := by
  apply box2_ext _ _ (extents2_wf _) (extents2_wf _)
  intro p
  rw [Bool.eq_iff_iff, inside_extents2_iff, inside_extents2_iff]
  simp only [h]

private theorem inside_extents2_append (l m : List V2) (p : V2) :
    (extents2 (l ++ m)).inside p = true ↔
      ((∃ q ∈ l, q.x ≤ p.x) ∨ (∃ q ∈ m, q.x ≤ p.x)) ∧ ((∃ q ∈ l, p.x ≤ q.x) ∨ (∃ q ∈ m, p.x ≤ q.x)) ∧
      ((∃ q ∈ l, q.y ≤ p.y) ∨ (∃ q ∈ m, q.y ≤ p.y)) ∧ ((∃ q ∈ l, p.y ≤ q.y) ∨ (∃ q ∈ m, p.y ≤ q.y)) := by
  rw [inside_extents2_iff]
  simp only [List.mem_append, or_and_right, exists_or]

private theorem extents2_append_iter (l m : List V2) :
    extents2 (l ++ (extents2 m).iter) = extents2 (l ++ m) ∧ extents2 ((extents2 m).iter ++ l) = extents2 (m ++ l) := by
  have key : ∀ p : V2, ((∃ q ∈ (extents2 m).iter, q.x ≤ p.x) ↔ (∃ q ∈ m, q.x ≤ p.x)) ∧
      ((∃ q ∈ (extents2 m).iter, p.x ≤ q.x) ↔ (∃ q ∈ m, p.x ≤ q.x)) ∧
      ((∃ q ∈ (extents2 m).iter, q.y ≤ p.y) ↔ (∃ q ∈ m, q.y ≤ p.y)) ∧
      ((∃ q ∈ (extents2 m).iter, p.y ≤ q.y) ↔ (∃ q ∈ m, p.y ≤ q.y)) := by
    intro p
    cases m with
    | nil => simp [extents2, Box2.iter]
    | cons h t =>
      have wf := extents2_wf (h :: t)
      simp only [extents2, Box2.iter, Box2.WF, List.mem_cons, List.not_mem_nil, or_false, exists_eq_or_imp,
        exists_eq_left, vmin_fold2, vmax_fold2] at wf ⊢
      obtain ⟨w1, w2⟩ := wf
      refine ⟨?_, ?_, ?_, ?_⟩
      · rw [← foldl_min_le_iff V2.x]; constructor
        · rintro (a | a); exact a; exact le_trans w1 a
        · exact Or.inl
      · rw [← le_foldl_max_iff V2.x]; constructor
        · rintro (a | a); exact le_trans a w1; exact a
        · exact Or.inr
      · rw [← foldl_min_le_iff V2.y]; constructor
        · rintro (a | a); exact a; exact le_trans w2 a
        · exact Or.inl
      · rw [← le_foldl_max_iff V2.y]; constructor
        · rintro (a | a); exact le_trans a w2; exact a
        · exact Or.inr
  constructor <;> apply box2_ext _ _ (extents2_wf _) (extents2_wf _) <;> intro p <;>
    rw [Bool.eq_iff_iff, inside_extents2_append, inside_extents2_append] <;>
    obtain ⟨k1, k2, k3, k4⟩ := key p <;> rw [k1, k2, k3, k4]

private theorem extents2_pair (lo hi : V2) (h : (Box2.mk lo hi).WF) : extents2 [lo, hi] = .mk lo hi := by
  obtain ⟨h1, h2⟩ := h
  simp [extents2, V2.vmin, V2.vmax, min_eq_left h1, min_eq_left h2, max_eq_right h1, max_eq_right h2]

private theorem extents2_iter_self (b : Box2) (h : b.WF) : extents2 b.iter = b := by
  cases b with
  | empty => rfl
  | mk lo hi => exact extents2_pair lo hi h

private theorem iter_witness2 (b : Box2) (p : V2) (h : b.inside p = true) :
    (∃ q ∈ b.iter, q.x ≤ p.x) ∧ (∃ q ∈ b.iter, p.x ≤ q.x) ∧ (∃ q ∈ b.iter, q.y ≤ p.y) ∧ (∃ q ∈ b.iter, p.y ≤ q.y) := by
  cases b with
  | empty => simp [Box2.inside] at h
  | mk lo hi =>
    rw [inside2_mk_iff] at h
    obtain ⟨h1, h2, h3, h4⟩ := h
    simp only [Box2.iter, List.mem_cons, List.not_mem_nil, or_false, exists_eq_or_imp, exists_eq_left]
    exact ⟨Or.inl h1, Or.inr h2, Or.inl h3, Or.inr h4⟩

theorem extend2_inside (b : Box2) (vs : List V2) (p : V2) (h : b.inside p = true ∨ p ∈ vs) :
    (b.extend vs).inside p = true := by
  cases vs with
  | nil => rcases h with h | h; exact h; exact absurd h (by simp)
  | cons v t =>
    simp only [Box2.extend]
    rw [inside_extents2_append]
    rcases h with h | h
    · obtain ⟨h1, h2, h3, h4⟩ := iter_witness2 b p h
      exact ⟨Or.inr h1, Or.inr h2, Or.inr h3, Or.inr h4⟩
    · exact ⟨Or.inl ⟨p, h, le_rfl⟩, Or.inl ⟨p, h, le_rfl⟩, Or.inl ⟨p, h, le_rfl⟩, Or.inl ⟨p, h, le_rfl⟩⟩

theorem extend2_eq_union (b : Box2) (hb : b.WF) (vs : List V2) : b.extend vs = b.union (extents2 vs) := by
  cases vs with
  | nil =>
    show b = extents2 (b.iter ++ [])
    rw [List.append_nil, extents2_iter_self b hb]
  | cons v t =>
    simp only [Box2.extend, Box2.union, Box2.ofPoints]
    rw [(extents2_append_iter b.iter (v :: t)).1]
    exact extents2_congr _ _ (fun q => by simp only [List.mem_append]; exact or_comm)

theorem union2_comm (a b : Box2) : a.union b = b.union a :=
  extents2_congr _ _ (fun q => by simp only [List.mem_append]; exact or_comm)

theorem union2_assoc (a b c : Box2) : (a.union b).union c = a.union (b.union c) := by
  simp only [Box2.union, Box2.ofPoints]
  rw [(extents2_append_iter c.iter (a.iter ++ b.iter)).2, (extents2_append_iter a.iter (b.iter ++ c.iter)).1,
    List.append_assoc]

theorem union2_idem (a : Box2) (h : a.WF) : a.union a = a := by
  cases a with
  | empty => rfl
  | mk lo hi =>
    have e : Box2.union (.mk lo hi) (.mk lo hi) = extents2 [lo, hi] := by
      show extents2 ([lo, hi] ++ [lo, hi]) = extents2 [lo, hi]
      exact extents2_congr _ _ (fun q => by
        simp only [List.cons_append, List.nil_append, List.mem_cons, List.not_mem_nil, or_false]; tauto)
    rw [e, extents2_pair lo hi h]

theorem union2_empty (b : Box2) (h : b.WF) : Box2.empty.union b = b ∧ b.union .empty = b := by
  constructor
  · show extents2 ([] ++ b.iter) = b
    rw [List.nil_append, extents2_iter_self b h]
  · show extents2 (b.iter ++ []) = b
    rw [List.append_nil, extents2_iter_self b h]

theorem union2_spec (alo ahi blo bhi p : V2) (ha : (Box2.mk alo ahi).WF) (hb : (Box2.mk blo bhi).WF) :
    ((Box2.mk alo ahi).union (.mk blo bhi)).inside p = true ↔
      min alo.x blo.x ≤ p.x ∧ p.x ≤ max ahi.x bhi.x ∧ min alo.y blo.y ≤ p.y ∧ p.y ≤ max ahi.y bhi.y := by
  simp only [Box2.union, Box2.ofPoints, inside_extents2_iff, Box2.iter, List.cons_append, List.nil_append,
    List.mem_cons, List.not_mem_nil, or_false, exists_eq_or_imp, exists_eq_left]
  rw [four_le _ _ _ _ _ ha.1 hb.1, four_ge _ _ _ _ _ ha.1 hb.1, four_le _ _ _ _ _ ha.2 hb.2,
    four_ge _ _ _ _ _ ha.2 hb.2]

private theorem has_overlap2_mk_iff (alo ahi blo bhi : V2) :
    (Box2.mk alo ahi).hasOverlap (.mk blo bhi) = true ↔
      alo.x ≤ bhi.x ∧ blo.x ≤ ahi.x ∧ alo.y ≤ bhi.y ∧ blo.y ≤ ahi.y := by
  simp only [Box2.hasOverlap, gt_iff_lt]
  split_ifs <;> simp_all [not_lt]

private theorem has_intersection2_mk_iff (alo ahi blo bhi : V2) :
    (Box2.mk alo ahi).hasIntersection (.mk blo bhi) = true ↔
      alo.x < bhi.x ∧ blo.x < ahi.x ∧ alo.y < bhi.y ∧ blo.y < ahi.y := by
  simp only [Box2.hasIntersection, ge_iff_le]
  split_ifs <;> simp_all [not_le]

theorem has_overlap2_iff_common_point (a b : Box2) (ha : a.WF) (hb : b.WF) :
    a.hasOverlap b = true ↔ ∃ p, a.inside p = true ∧ b.inside p = true := by
  cases a with
  | empty => simp [Box2.hasOverlap, Box2.inside]
  | mk alo ahi =>
    cases b with
    | empty => simp [Box2.hasOverlap, Box2.inside]
    | mk blo bhi =>
      obtain ⟨a1, a2⟩ := ha
      obtain ⟨b1, b2⟩ := hb
      rw [has_overlap2_mk_iff]
      simp only [inside2_mk_iff]
      constructor
      · rintro ⟨h1, h2, h3, h4⟩
        refine ⟨⟨max alo.x blo.x, max alo.y blo.y⟩, ?_, ?_⟩ <;>
          simp only [le_max_iff, max_le_iff, le_refl, true_or, or_true, true_and] <;>
          exact ⟨⟨by linarith, by linarith⟩, ⟨by linarith, by linarith⟩⟩
      · rintro ⟨p, ⟨p1, p2, p3, p4⟩, ⟨q1, q2, q3, q4⟩⟩
        exact ⟨by linarith, by linarith, by linarith, by linarith⟩

theorem has_intersection2_iff_interiors_meet (a b : Box2) (ha : a.Pos) (hb : b.Pos) :
    a.hasIntersection b = true ↔ ∃ p, a.interior p ∧ b.interior p := by
  cases a with
  | empty => exact ha.elim
  | mk alo ahi =>
    cases b with
    | empty => exact hb.elim
    | mk blo bhi =>
      obtain ⟨a1, a2⟩ := ha
      obtain ⟨b1, b2⟩ := hb
      rw [has_intersection2_mk_iff]
      simp only [Box2.interior]
      constructor
      · rintro ⟨h1, h2, h3, h4⟩
        have mx : max alo.x blo.x < min ahi.x bhi.x := by simp only [max_lt_iff, lt_min_iff]; exact ⟨⟨a1, h2⟩, h1, b1⟩
        have my : max alo.y blo.y < min ahi.y bhi.y := by simp only [max_lt_iff, lt_min_iff]; exact ⟨⟨a2, h4⟩, h3, b2⟩
        have lx := le_max_left alo.x blo.x; have lx' := le_max_right alo.x blo.x
        have ux := min_le_left ahi.x bhi.x; have ux' := min_le_right ahi.x bhi.x
        have ly := le_max_left alo.y blo.y; have ly' := le_max_right alo.y blo.y
        have uy := min_le_left ahi.y bhi.y; have uy' := min_le_right ahi.y bhi.y
        refine ⟨⟨(max alo.x blo.x + min ahi.x bhi.x) / 2, (max alo.y blo.y + min ahi.y bhi.y) / 2⟩, ?_, ?_⟩ <;>
          exact ⟨by linarith, by linarith, by linarith, by linarith⟩
      · rintro ⟨p, ⟨p1, p2, p3, p4⟩, ⟨q1, q2, q3, q4⟩⟩
        exact ⟨by linarith, by linarith, by linarith, by linarith⟩

theorem has_intersection2_point (b : Box2) (p q : V2) :
    (b.hasIntersection (.mk p p) = true ↔ b.interior p) ∧ ((Box2.mk p p).hasIntersection b = true ↔ b.interior p) ∧
      (Box2.mk p p).hasIntersection (.mk q q) = false := by
  refine ⟨?_, ?_, ?_⟩
  · cases b with
    | empty => simp [Box2.hasIntersection, Box2.interior]
    | mk lo hi => rw [has_intersection2_mk_iff]; simp only [Box2.interior]
  · cases b with
    | empty => simp [Box2.hasIntersection, Box2.interior]
    | mk lo hi => rw [has_intersection2_mk_iff]; simp only [Box2.interior]; tauto
  · rw [← Bool.not_eq_true, has_intersection2_mk_iff]
    rintro ⟨h1, h2, -⟩; linarith

theorem inside_intersection2 (a b : Box2) (ha : a.WF) (hb : b.WF) (p : V2) :
    (a.intersection b).inside p = true ↔ a.hasIntersection b = true ∧ a.inside p = true ∧ b.inside p = true := by
  cases a with
  | empty => simp [Box2.intersection, Box2.hasIntersection, Box2.inside]
  | mk alo ahi =>
    cases b with
    | empty => simp [Box2.intersection, Box2.hasIntersection, Box2.inside]
    | mk blo bhi =>
      by_cases hi : (Box2.mk alo ahi).hasIntersection (.mk blo bhi) = true
      · obtain ⟨a1, a2⟩ := ha
        obtain ⟨b1, b2⟩ := hb
        simp only [Box2.intersection, hi, if_true, true_and, Box2.extend, Box2.iter, List.append_nil]
        rw [has_intersection2_mk_iff] at hi
        obtain ⟨h1, h2, h3, h4⟩ := hi
        have wf : (Box2.mk (alo.vmax blo) (ahi.vmin bhi)).WF := by
          simp only [Box2.WF, V2.vmax, V2.vmin, rmin_eq, rmax_eq, max_le_iff, le_min_iff]
          exact ⟨⟨⟨a1, le_of_lt h2⟩, le_of_lt h1, b1⟩, ⟨⟨a2, le_of_lt h4⟩, le_of_lt h3, b2⟩⟩
        rw [extents2_pair _ _ wf]
        simp only [inside2_mk_iff, V2.vmax, V2.vmin, rmin_eq, rmax_eq, max_le_iff, le_min_iff]
        tauto
      · simp [Box2.intersection, hi, Box2.inside]

theorem grow2_raises_iff (lo hi : V2) (v : Rat) :
    (Box2.mk lo hi).grow v = none ↔ v < 0 ∧ (hi.x - lo.x ≤ -2 * v ∨ hi.y - lo.y ≤ -2 * v) := by
  simp only [Box2.grow, Box2.min2, V2.sub, rmin_eq]
  split_ifs with h
  · simp only [true_iff]
    refine ⟨h.1, ?_⟩
    have h2 := h.2
    rw [ge_iff_le, div_le_iff₀ (by norm_num : (0 : Rat) < 2), min_le_iff] at h2
    rcases h2 with h2 | h2
    · left; linarith
    · right; linarith
  · simp only [false_iff]
    rintro ⟨h1, h2⟩
    apply h
    refine ⟨h1, ?_⟩
    rw [ge_iff_le, div_le_iff₀ (by norm_num : (0 : Rat) < 2), min_le_iff]
    rcases h2 with h2 | h2
    · left; linarith
    · right; linarith

theorem grow2_spec (b : Box2) (hb : b.WF) (v : Rat) (hv : 0 ≤ v) :
    ∃ g, b.grow v = some g ∧ g.WF ∧ ∀ p, (g.inside p = true ↔
      ∃ q, b.inside q = true ∧ |p.x - q.x| ≤ v ∧ |p.y - q.y| ≤ v) := by
  cases b with
  | empty => exact ⟨.empty, rfl, trivial, fun p => by simp [Box2.inside]⟩
  | mk lo hi =>
    obtain ⟨w1, w2⟩ := hb
    have hn : ¬(v < 0 ∧ -v ≥ Box2.min2 (hi.sub lo) / 2) := fun h => absurd h.1 (not_lt.mpr hv)
    have e : (Box2.mk lo hi).grow v = some (.mk (lo.add ⟨-v, -v⟩) (hi.add ⟨v, v⟩)) := by
      simp only [Box2.grow, hn, if_false]
    refine ⟨_, e, ?_, ?_⟩
    · simp only [Box2.WF, V2.add]; exact ⟨by linarith, by linarith⟩
    · intro p
      simp only [inside2_mk_iff, V2.add, abs_le]
      constructor
      · rintro ⟨h1, h2, h3, h4⟩
        obtain ⟨qx, x1, x2, x3, x4⟩ := clamp_axis lo.x hi.x p.x v w1 hv (by linarith) (by linarith)
        obtain ⟨qy, y1, y2, y3, y4⟩ := clamp_axis lo.y hi.y p.y v w2 hv (by linarith) (by linarith)
        exact ⟨⟨qx, qy⟩, ⟨x1, x2, y1, y2⟩, ⟨x3, x4⟩, ⟨y3, y4⟩⟩
      · rintro ⟨q, ⟨q1, q2, q3, q4⟩, ⟨x1, x2⟩, ⟨y1, y2⟩⟩
        exact ⟨by linarith, by linarith, by linarith, by linarith⟩

theorem is_empty2_iff_no_interior (b : Box2) (hb : b.WF) : b.isEmpty = true ↔ ¬∃ p, b.interior p := by
  cases b with
  | empty => simp [Box2.isEmpty, Box2.interior]
  | mk lo hi =>
    obtain ⟨w1, w2⟩ := hb
    simp only [Box2.isEmpty, decide_eq_true_eq, mul_eq_zero, Box2.interior, sub_eq_zero]
    constructor
    · rintro (h | h) ⟨p, p1, p2, p3, p4⟩ <;> linarith
    · intro h
      by_contra hc
      simp only [not_or] at hc
      obtain ⟨c1, c2⟩ := hc
      have l1 : lo.x < hi.x := lt_of_le_of_ne w1 (fun e => c1 e.symm)
      have l2 : lo.y < hi.y := lt_of_le_of_ne w2 (fun e => c2 e.symm)
      exact h ⟨⟨(lo.x + hi.x) / 2, (lo.y + hi.y) / 2⟩, by linarith, by linarith, by linarith, by linarith⟩

example : (Box2.mk ⟨0, 0⟩ ⟨2, 2⟩).intersection (.mk ⟨1, 1⟩ ⟨1, 1⟩) = .mk ⟨1, 1⟩ ⟨1, 1⟩ ∧
    (Box2.mk ⟨0, 0⟩ ⟨1, 1⟩).intersection (.mk ⟨1, 1⟩ ⟨2, 2⟩) = .empty ∧
    (Box2.mk ⟨0, 0⟩ ⟨1, 1⟩).hasOverlap (.mk ⟨1, 1⟩ ⟨2, 2⟩) = true := by decide

end twoD

/-! ## the kernels translated from the current source equal the hand model (for all inputs)

`Gen/BBoxKernels.lean` is regenerated on every run from the AST of `math/bbox.py`, `_bezier4p.py`,
`_bezier3p.py`; an edit of a comparison operator, of an operand, of the `has_data` guard, of the corner
expressions or of the `grow` threshold makes one of these statements false. -/
section kernels
open EzdxfVerif.Gen.BBoxKernels

private theorem pyMin_eq (a b : Rat) : pyMin a b = min a b := by
  unfold pyMin; split
  · rename_i h; exact (min_eq_right (le_of_lt h)).symm
  · rename_i h; exact (min_eq_left (not_lt.mp h)).symm

private theorem pyMax_eq (a b : Rat) : pyMax a b = max a b := by
  unfold pyMax; split
  · rename_i h; exact (max_eq_right (le_of_lt h)).symm
  · rename_i h; exact (max_eq_left (not_lt.mp h)).symm

theorem kernel_inside (lo hi p : V3) (lo2 hi2 p2 : V2) :
    inside3 true lo.x lo.y lo.z hi.x hi.y hi.z p.x p.y p.z = (Box3.mk lo hi).inside p ∧
    inside3 false lo.x lo.y lo.z hi.x hi.y hi.z p.x p.y p.z = Box3.empty.inside p ∧
    inside2 true lo2.x lo2.y hi2.x hi2.y p2.x p2.y = (Box2.mk lo2 hi2).inside p2 ∧
    inside2 false lo2.x lo2.y hi2.x hi2.y p2.x p2.y = Box2.empty.inside p2 := by
  simp [inside3, inside2, Box3.inside, Box2.inside]

theorem kernel_has_intersection (alo ahi blo bhi : V3) (sd od : Bool) (alo2 ahi2 blo2 bhi2 : V2) :
    hasIntersection3 sd od alo.x alo.y alo.z ahi.x ahi.y ahi.z blo.x blo.y blo.z bhi.x bhi.y bhi.z =
      (sd && od && (Box3.mk alo ahi).hasIntersection (.mk blo bhi)) ∧
    hasIntersection2 sd od alo2.x alo2.y ahi2.x ahi2.y blo2.x blo2.y bhi2.x bhi2.y =
      (sd && od && (Box2.mk alo2 ahi2).hasIntersection (.mk blo2 bhi2)) := by
  constructor
  · cases sd <;> cases od <;> simp only [hasIntersection3, Box3.hasIntersection] <;> split_ifs <;> simp_all
  · cases sd <;> cases od <;> simp only [hasIntersection2, Box2.hasIntersection] <;> split_ifs <;> simp_all

theorem kernel_has_overlap (alo ahi blo bhi : V3) (sd od : Bool) (alo2 ahi2 blo2 bhi2 : V2) :
    hasOverlap3 sd od alo.x alo.y alo.z ahi.x ahi.y ahi.z blo.x blo.y blo.z bhi.x bhi.y bhi.z =
      (sd && od && (Box3.mk alo ahi).hasOverlap (.mk blo bhi)) ∧
    hasOverlap2 sd od alo2.x alo2.y ahi2.x ahi2.y blo2.x blo2.y bhi2.x bhi2.y =
      (sd && od && (Box2.mk alo2 ahi2).hasOverlap (.mk blo2 bhi2)) := by
  constructor
  · cases sd <;> cases od <;> simp only [hasOverlap3, Box3.hasOverlap] <;> split_ifs <;> simp_all
  · cases sd <;> cases od <;> simp only [hasOverlap2, Box2.hasOverlap] <;> split_ifs <;> simp_all

theorem kernel_is_empty_size (lo hi : V3) (lo2 hi2 : V2) :
    isEmpty3 true lo.x lo.y lo.z hi.x hi.y hi.z = (Box3.mk lo hi).isEmpty ∧
    isEmpty3 false lo.x lo.y lo.z hi.x hi.y hi.z = Box3.empty.isEmpty ∧
    isEmpty2 true lo2.x lo2.y hi2.x hi2.y = (Box2.mk lo2 hi2).isEmpty ∧
    isEmpty2 false lo2.x lo2.y hi2.x hi2.y = Box2.empty.isEmpty ∧
    (Box3.mk lo hi).size = some ⟨(size3 lo.x lo.y lo.z hi.x hi.y hi.z).1, (size3 lo.x lo.y lo.z hi.x hi.y hi.z).2.1,
      (size3 lo.x lo.y lo.z hi.x hi.y hi.z).2.2⟩ ∧
    (Box2.mk lo2 hi2).size = some ⟨(size2 lo2.x lo2.y hi2.x hi2.y).1, (size2 lo2.x lo2.y hi2.x hi2.y).2⟩ := by
  simp [isEmpty3, isEmpty2, Box3.isEmpty, Box2.isEmpty, size3, size2, Box3.size, Box2.size, V3.sub, V2.sub]

theorem kernel_contains (a : Box3) (lo hi : V3) (a2 : Box2) (lo2 hi2 : V2) :
    contains a.inside lo hi = a.contains (.mk lo hi) ∧ contains a2.inside lo2 hi2 = a2.contains (.mk lo2 hi2) := by
  simp [contains, Box3.contains, Box2.contains]

theorem kernel_intersection (alo ahi blo bhi : V3) (alo2 ahi2 blo2 bhi2 : V2) :
    (match intersection3 ((Box3.mk alo ahi).hasIntersection (.mk blo bhi)) alo.x alo.y alo.z ahi.x ahi.y ahi.z
        blo.x blo.y blo.z bhi.x bhi.y bhi.z with
      | none => Box3.empty
      | some pts => Box3.empty.extend (pts.map (fun t => ⟨t.1, t.2.1, t.2.2⟩))) =
      (Box3.mk alo ahi).intersection (.mk blo bhi) ∧
    (match intersection2 ((Box2.mk alo2 ahi2).hasIntersection (.mk blo2 bhi2)) alo2.x alo2.y ahi2.x ahi2.y
        blo2.x blo2.y bhi2.x bhi2.y with
      | none => Box2.empty
      | some pts => Box2.empty.extend (pts.map (fun t => ⟨t.1, t.2⟩))) =
      (Box2.mk alo2 ahi2).intersection (.mk blo2 bhi2) := by
  constructor
  · cases h : (Box3.mk alo ahi).hasIntersection (.mk blo bhi) <;>
      simp [intersection3, Box3.intersection, h, pyMin_eq, pyMax_eq, V3.vmin, V3.vmax]
  · cases h : (Box2.mk alo2 ahi2).hasIntersection (.mk blo2 bhi2) <;>
      simp [intersection2, Box2.intersection, h, pyMin_eq, pyMax_eq, V2.vmin, V2.vmax]

theorem kernel_grow (lo hi : V3) (v : Rat) (lo2 hi2 : V2) :
    (grow3 true lo.x lo.y lo.z hi.x hi.y hi.z v).map
        (fun r => Box3.mk ⟨r.1.1, r.1.2.1, r.1.2.2⟩ ⟨r.2.1, r.2.2.1, r.2.2.2⟩) = (Box3.mk lo hi).grow v ∧
    grow3 false lo.x lo.y lo.z hi.x hi.y hi.z v = some ((lo.x, lo.y, lo.z), (hi.x, hi.y, hi.z)) ∧
    (grow2 true lo2.x lo2.y hi2.x hi2.y v).map (fun r => Box2.mk ⟨r.1.1, r.1.2⟩ ⟨r.2.1, r.2.2⟩) = (Box2.mk lo2 hi2).grow v ∧
    grow2 false lo2.x lo2.y hi2.x hi2.y v = some ((lo2.x, lo2.y), (hi2.x, hi2.y)) := by
  refine ⟨?_, by simp [grow3], ?_, by simp [grow2]⟩
  · simp only [grow3, Box3.grow, Box3.min3, V3.sub, V3.add, pyMin_eq, rmin_eq, cond_true]
    by_cases h1 : v < 0 <;> by_cases h2 : -v ≥ min (min (hi.x - lo.x) (hi.y - lo.y)) (hi.z - lo.z) / 2 <;>
      simp [h1, h2]
  · simp only [grow2, Box2.grow, Box2.min2, V2.sub, V2.add, pyMin_eq, rmin_eq, cond_true]
    by_cases h1 : v < 0 <;> by_cases h2 : -v ≥ min (hi2.x - lo2.x) (hi2.y - lo2.y) / 2 <;> simp [h1, h2]

theorem kernel_bezier (p0 p1 p2 p3 t : Rat) :
    bezier4Point (p1 - p0) (p2 - p0) (p3 - p0) p0 t = bezier4 p0 p1 p2 p3 t ∧
    bezier3Point (p1 - p0) (p2 - p0) p0 t = bezier3 p0 p1 p2 t := by
  constructor
  · unfold bezier4Point bezier4; ring
  · unfold bezier3Point bezier3; ring

end kernels


/-! # Round 2: lattice laws of the box algebra (3D), empty box cases stated -/
section lattice

/-- absorption 1: `a ∪ (a ∩ b) = a` for all boxes the classes produce (touching or disjoint boxes have an empty
    `intersection`, the empty box is the unit of `union`) -/
theorem union_absorb_intersection (a b : Box3) (ha : a.WF) (hb : b.WF) : a.union (a.intersection b) = a := by
  apply box_ext _ _ (union_wf _ _) ha
  intro p
  rw [Bool.eq_iff_iff]
  constructor
  · exact union_least a (a.intersection b) a ha (intersection_wf a b) (fun _ h => h)
      (fun q hq => ((inside_intersection a b ha hb q).mp hq).2.1) p
  · intro h; exact union_upper a _ p (Or.inl h)

/-- absorption 2: `a ∩ (a ∪ b) = a` needs a box of positive size (`intersection` is empty unless the interiors meet);
    for the empty box both sides are empty -/
theorem intersection_absorb_union (a b : Box3) (ha : a.Pos) : a.intersection (a.union b) = a ∧
    Box3.empty.intersection (Box3.empty.union b) = .empty := by
  refine ⟨?_, by simp [Box3.intersection, Box3.hasIntersection]⟩
  cases a with
  | empty => exact ha.elim
  | mk alo ahi =>
    obtain ⟨p1, p2, p3⟩ := ha
    have hwf : (Box3.mk alo ahi).WF := ⟨le_of_lt p1, le_of_lt p2, le_of_lt p3⟩
    have hl := union_upper (.mk alo ahi) b alo (Or.inl (corners_inside _ hwf alo (by simp [Box3.iter])))
    have hh := union_upper (.mk alo ahi) b ahi (Or.inl (corners_inside _ hwf ahi (by simp [Box3.iter])))
    have huw := union_wf (.mk alo ahi) b
    cases hu : (Box3.mk alo ahi).union b with
    | empty => rw [hu] at hl; simp [Box3.inside] at hl
    | mk ulo uhi =>
      rw [hu] at hl hh huw
      rw [inside_mk_iff] at hl hh
      obtain ⟨l1, l2, l3, l4, l5, l6⟩ := hl
      obtain ⟨g1, g2, g3, g4, g5, g6⟩ := hh
      have hi : (Box3.mk alo ahi).hasIntersection (.mk ulo uhi) = true := by
        rw [has_intersection_mk_iff]
        exact ⟨by linarith, by linarith, by linarith, by linarith, by linarith, by linarith⟩
      apply box_ext _ _ (intersection_wf _ _) hwf
      intro p
      rw [Bool.eq_iff_iff, inside_intersection _ _ hwf huw]
      constructor
      · exact fun h => h.2.1
      · intro h
        refine ⟨hi, h, ?_⟩
        rw [inside_mk_iff] at h ⊢
        obtain ⟨h1, h2, h3, h4, h5, h6⟩ := h
        exact ⟨by linarith, by linarith, by linarith, by linarith, by linarith, by linarith⟩

/-- `contains` is a partial order on boxes with data: reflexive exactly on well-formed boxes, transitive, antisymmetric;
    the empty box is not comparable (`contains_empty`) -/
theorem contains_partial_order (alo ahi blo bhi clo chi : V3) (a : Box3) :
    ((Box3.mk alo ahi).contains (.mk alo ahi) = true ↔ (Box3.mk alo ahi).WF) ∧
    (a.contains (.mk blo bhi) = true → (Box3.mk blo bhi).contains (.mk clo chi) = true → a.contains (.mk clo chi) = true) ∧
    ((Box3.mk alo ahi).contains (.mk blo bhi) = true → (Box3.mk blo bhi).contains (.mk alo ahi) = true →
      Box3.mk alo ahi = .mk blo bhi) := by
  refine ⟨?_, ?_, ?_⟩
  · simp only [Box3.contains, Bool.and_eq_true, inside_mk_iff, Box3.WF]
    constructor
    · rintro ⟨⟨_, h1, _, h2, _, h3⟩, _⟩; exact ⟨h1, h2, h3⟩
    · rintro ⟨h1, h2, h3⟩; exact ⟨⟨le_rfl, h1, le_rfl, h2, le_rfl, h3⟩, ⟨h1, le_rfl, h2, le_rfl, h3, le_rfl⟩⟩
  · cases a with
    | empty => simp [Box3.contains, Box3.inside]
    | mk lo hi =>
      simp only [Box3.contains, Bool.and_eq_true, inside_mk_iff]
      rintro ⟨⟨a1, a2, a3, a4, a5, a6⟩, ⟨b1, b2, b3, b4, b5, b6⟩⟩ ⟨⟨c1, c2, c3, c4, c5, c6⟩, ⟨d1, d2, d3, d4, d5, d6⟩⟩
      exact ⟨⟨by linarith, by linarith, by linarith, by linarith, by linarith, by linarith⟩,
        ⟨by linarith, by linarith, by linarith, by linarith, by linarith, by linarith⟩⟩
  · simp only [Box3.contains, Bool.and_eq_true, inside_mk_iff]
    rintro ⟨⟨a1, a2, a3, a4, a5, a6⟩, ⟨b1, b2, b3, b4, b5, b6⟩⟩ ⟨⟨c1, c2, c3, c4, c5, c6⟩, ⟨d1, d2, d3, d4, d5, d6⟩⟩
    obtain ⟨x1, y1, z1⟩ := alo; obtain ⟨x2, y2, z2⟩ := ahi
    obtain ⟨x3, y3, z3⟩ := blo; obtain ⟨x4, y4, z4⟩ := bhi
    simp only at *
    simp only [Box3.mk.injEq, V3.mk.injEq]
    refine ⟨⟨?_, ?_, ?_⟩, ⟨?_, ?_, ?_⟩⟩ <;> apply le_antisymm <;> linarith

/-- order and join: `a ∪ b = a` iff `a` contains `b` (b with data); with the empty box: `a ∪ empty = a` although
    `a.contains(empty)` is False -/
theorem union_eq_left_iff (a : Box3) (blo bhi : V3) (ha : a.WF) (hb : (Box3.mk blo bhi).WF) :
    (a.union (.mk blo bhi) = a ↔ a.contains (.mk blo bhi) = true) ∧ a.union .empty = a ∧ a.contains .empty = false := by
  refine ⟨?_, (union_empty a ha).2, rfl⟩
  constructor
  · intro h
    rw [contains_iff_subset a blo bhi hb]
    intro p hp
    rw [← h]; exact union_upper a _ p (Or.inr hp)
  · intro h
    rw [contains_iff_subset a blo bhi hb] at h
    apply box_ext _ _ (union_wf _ _) ha
    intro p
    rw [Bool.eq_iff_iff]
    exact ⟨union_least a _ a ha hb (fun _ h => h) h p, fun hp => union_upper a _ p (Or.inl hp)⟩

/-- `union` and `intersection` are monotone in the subset order (point sets), `inside` is monotone along `contains` -/
theorem box_ops_monotone (a a' b : Box3) (ha : a.WF) (ha' : a'.WF) (hb : b.WF)
    (hsub : ∀ p, a.inside p = true → a'.inside p = true) :
    (∀ p, (a.union b).inside p = true → (a'.union b).inside p = true) ∧
    (a.hasIntersection b = true → a'.hasIntersection b = true) ∧
    (∀ p, (a.intersection b).inside p = true → (a'.intersection b).inside p = true) := by
  have hint : a.hasIntersection b = true → a'.hasIntersection b = true := by
    cases a with
    | empty => simp [Box3.hasIntersection]
    | mk alo ahi =>
      cases b with
      | empty => simp [Box3.hasIntersection]
      | mk blo bhi =>
        have hl := hsub alo (corners_inside _ ha alo (by simp [Box3.iter]))
        have hh := hsub ahi (corners_inside _ ha ahi (by simp [Box3.iter]))
        cases a' with
        | empty => simp [Box3.inside] at hl
        | mk clo chi =>
          rw [inside_mk_iff] at hl hh
          rw [has_intersection_mk_iff, has_intersection_mk_iff]
          obtain ⟨l1, l2, l3, l4, l5, l6⟩ := hl
          obtain ⟨g1, g2, g3, g4, g5, g6⟩ := hh
          rintro ⟨h1, h2, h3, h4, h5, h6⟩
          exact ⟨by linarith, by linarith, by linarith, by linarith, by linarith, by linarith⟩
  refine ⟨?_, hint, ?_⟩
  · exact union_least a b (a'.union b) ha hb (fun p hp => union_upper a' b p (Or.inl (hsub p hp)))
      (fun p hp => union_upper a' b p (Or.inr hp))
  · intro p hp
    rw [inside_intersection a b ha hb] at hp
    rw [inside_intersection a' b ha' hb]
    exact ⟨hint hp.1, hsub p hp.2.1, hp.2.2⟩

/-- mixed operands: a `BoundingBox2d` argument of a 3D method is read as the box at z = 0 (`Vec3(other.extmin)`), a
    `BoundingBox` argument of a 2D method through its x/y coordinates.  Then the 3D tests mean what they mean for the
    embedded box: `has_overlap` <-> a point of the 2D box, lifted to z = 0, lies in the 3D box; every point of the
    `intersection` lies in the plane z = 0, in the 2D box and in the 3D box; the 2D tests see the projection -/
theorem mixed_pair_spec (a : Box3) (b : Box2) (ha : a.WF) (hb : b.WF) :
    (∀ q : V3, b.to3.inside q = true ↔ q.z = 0 ∧ b.inside q.to2 = true) ∧
    (a.hasOverlap b.to3 = true ↔ ∃ p : V2, b.inside p = true ∧ a.inside p.to3 = true) ∧
    (∀ q : V3, (a.intersection b.to3).inside q = true → q.z = 0 ∧ b.inside q.to2 = true ∧ a.inside q = true) ∧
    (∀ p : V2, a.to2.inside p = true ↔ ∃ z : Rat, a.inside ⟨p.x, p.y, z⟩ = true) := by
  have h3 : ∀ q : V3, b.to3.inside q = true ↔ q.z = 0 ∧ b.inside q.to2 = true := by
    intro q
    cases b with
    | empty => simp [Box2.to3, Box3.inside, Box2.inside]
    | mk lo hi =>
      simp only [Box2.to3, inside_mk_iff, V2.to3, inside2_mk_iff, V3.to2]
      constructor
      · rintro ⟨h1, h2, h3, h4, h5, h6⟩; exact ⟨le_antisymm h6 h5, h1, h2, h3, h4⟩
      · rintro ⟨hz, h1, h2, h3, h4⟩; exact ⟨h1, h2, h3, h4, by rw [hz], by rw [hz]⟩
  have hwf3 : b.to3.WF := by
    cases b with
    | empty => trivial
    | mk lo hi => exact ⟨hb.1, hb.2, le_rfl⟩
  refine ⟨h3, ?_, ?_, ?_⟩
  · rw [has_overlap_iff_common_point a b.to3 ha hwf3]
    constructor
    · rintro ⟨q, hq1, hq2⟩
      obtain ⟨hz, hb2⟩ := (h3 q).mp hq2
      refine ⟨q.to2, hb2, ?_⟩
      have : q.to2.to3 = q := by cases q; simp only [V3.to2, V2.to3, V3.mk.injEq, true_and]; exact hz.symm
      rw [this]; exact hq1
    · rintro ⟨p, hp1, hp2⟩
      exact ⟨p.to3, hp2, (h3 p.to3).mpr ⟨rfl, by simpa [V2.to3, V3.to2] using hp1⟩⟩
  · intro q hq
    obtain ⟨_, h1, h2⟩ := (inside_intersection a b.to3 ha hwf3 q).mp hq
    obtain ⟨hz, hb2⟩ := (h3 q).mp h2
    exact ⟨hz, hb2, h1⟩
  · intro p
    cases a with
    | empty => simp [Box3.to2, Box2.inside, Box3.inside]
    | mk lo hi =>
      simp only [Box3.to2, inside2_mk_iff, V3.to2, inside_mk_iff]
      constructor
      · rintro ⟨h1, h2, h3', h4⟩; exact ⟨lo.z, h1, h2, h3', h4, le_rfl, ha.2.2⟩
      · rintro ⟨z, h1, h2, h3', h4, _, _⟩; exact ⟨h1, h2, h3', h4⟩

end lattice

/-! # Session 3: paths, the extremum search, entity trees

Thin statements; the proofs are in `Lemmas/BBoxTree.lean` and `Lemmas/BBoxCubic.lean`. -/
section session3

/-! ## Bézier curves and paths under affine maps -/

/-- Bézier curves are affinely invariant: transforming the control points transforms every curve point
    (why the control points of a transformed virtual entity describe the transformed geometry) -/
theorem bezier_affine_invariant (a : Aff) (p0 p1 p2 p3 : V3) (t : Rat) :
    bezier4V (a.apply p0) (a.apply p1) (a.apply p2) (a.apply p3) t = a.apply (bezier4V p0 p1 p2 p3 t) ∧
    bezier3V (a.apply p0) (a.apply p1) (a.apply p2) t = a.apply (bezier3V p0 p1 p2 t) :=
  ⟨Lemmas.bezier4V_map a p0 p1 p2 p3 t, Lemmas.bezier3V_map a p0 p1 p2 t⟩

/-- `Path.transform(m)`: the image of every point of a (multi-)path is a point of the transformed path -/
theorem path_affine_invariant (a : Aff) (p : Path) (q : V3) (h : OnPath p q) : OnPath (p.map a) (a.apply q) :=
  Lemmas.onPath_map a p q h

/-- matrices compose: `transform(t)` after `transform(m)` is `transform(t.comp m)`, for points and whole paths -/
theorem aff_comp_apply (t m : Aff) (p : V3) (pa : Path) :
    (t.comp m).apply p = t.apply (m.apply p) ∧ pa.map (t.comp m) = (pa.map m).map t ∧ pa.map Aff.one = pa :=
  ⟨Lemmas.Aff.apply_comp t m p, Lemmas.Path.map_comp t m pa, Lemmas.Path.map_one pa⟩

/-! ## `precise_bbox`, `control_vertices`, `path.bbox` for whole multi-paths -/

/-- fast mode: every point of a multi-path (sub-paths after MOVE_TO included) lies in the control-vertex box -/
theorem path_fast_contains (p : Path) (q : V3) (h : OnPath p q) : (extents3 p.controlVertices).inside q = true :=
  Lemmas.fast_contains_path p q h

/-- the pen position `start` of `precise_bbox` after a command is the end point of that command, for EVERY kind
    of command (the model); `kernel_precise_step` ties the model to the loop body in the current source -/
theorem pen_follows_every_command (sb : SegBoxes) (s : V3) (c : Cmd) (cs : List Cmd) :
    (Path.preciseStep sb s c).2 = c.endPoint ∧
      Path.preciseLoop sb s cs = (segsFrom s cs).flatMap (fun sc => (Path.preciseStep sb sc.1 sc.2).1) :=
  ⟨Lemmas.preciseStep_pen sb s c, Lemmas.preciseLoop_eq sb cs s⟩

/-- precise mode: if the segment boxes contain their curves, `precise_bbox` contains every point of the
    multi-path, whatever sub-path it belongs to -/
theorem path_precise_contains (sb : SegBoxes) (p : Path) (hs : p.SoundOn sb) (q : V3) (h : OnPath p q) :
    (p.preciseBBox sb).inside q = true :=
  Lemmas.precise_contains_path sb p hs q h

/-- fast mode is never smaller than precise mode for a whole multi-path (segment boxes inside the control hull) -/
theorem path_fast_contains_precise (sb : SegBoxes) (hc : sb.InControl) (p : Path) (hne : p.cmds ≠ []) :
    (extents3 p.controlVertices).contains (p.preciseBBox sb) = true :=
  Lemmas.fast_contains_precise_path sb hc p hne

/-- precise mode is tight: with tight segment boxes every bound of `precise_bbox` is the coordinate of a point
    of the path -/
theorem path_precise_tight (sb : SegBoxes) (ht : sb.Tight) (p : Path) (hne : p.cmds ≠ []) :
    ∃ lo hi, p.preciseBBox sb = .mk lo hi ∧
      (∃ q, OnPath p q ∧ q.x = lo.x) ∧ (∃ q, OnPath p q ∧ q.y = lo.y) ∧ (∃ q, OnPath p q ∧ q.z = lo.z) ∧
      (∃ q, OnPath p q ∧ q.x = hi.x) ∧ (∃ q, OnPath p q ∧ q.y = hi.y) ∧ (∃ q, OnPath p q ∧ q.z = hi.z) :=
  Lemmas.precise_tight sb ht p hne

/-- `ezdxf.path.tools.bbox(paths, fast)` is the box of the boxes of the paths -/
theorem paths_bbox_spec (sb : SegBoxes) (fast : Bool) (ps : List Path) :
    pathsBBox sb fast ps = extendAll (ps.map (Path.box sb fast)) :=
  Lemmas.pathsBBox_spec sb fast ps

/-! ## the extremum search of `cubic_bezier_bbox` -/

/-- For every `t` in [0, 1] the coordinate of the curve at `t` lies between its values at two of the candidates
    0, 1 and the parameters the code collects from the quadratic `a t^2 + b t + c = 0` (both roots by the stable
    formula `q / a`, `c / q`; the linear and the constant case).  `sqrt` is a parameter that only has to be
    exact at the discriminant (`AxisOK`). -/
theorem cubic_axis_extrema (tol : Rat) (sqrt : Rat → Option Rat) (p0 p1 p2 p3 : Rat) (hok : AxisOK tol sqrt p0 p1 p2 p3)
    (t : Rat) (h0 : 0 ≤ t) (h1 : t ≤ 1) :
    (∃ w ∈ 0 :: 1 :: axisParams tol sqrt p0 p1 p2 p3, bezier4 p0 p1 p2 p3 t ≤ bezier4 p0 p1 p2 p3 w) ∧
    (∃ w ∈ 0 :: 1 :: axisParams tol sqrt p0 p1 p2 p3, bezier4 p0 p1 p2 p3 w ≤ bezier4 p0 p1 p2 p3 t) :=
  Lemmas.axis_sound tol sqrt p0 p1 p2 p3 hok t h0 h1

/-- every collected parameter is strictly inside (0, 1) -/
theorem cubic_params_unit (tol : Rat) (sqrt : Rat → Option Rat) (p0 p1 p2 p3 : V3) :
    ∀ w ∈ cubicParams tol sqrt p0 p1 p2 p3, 0 < w ∧ w < 1 :=
  Lemmas.cubicParams_unit tol sqrt p0 p1 p2 p3

/-- `cubic_bezier_bbox` contains the whole curve -/
theorem cubic_bbox_contains_curve (tol : Rat) (sqrt : Rat → Option Rat) (p0 p1 p2 p3 : V3)
    (hok : CurveOK tol sqrt p0 p1 p2 p3) (t : Rat) (h0 : 0 ≤ t) (h1 : t ≤ 1) :
    (cubicBBox tol sqrt p0 p1 p2 p3).inside (bezier4V p0 p1 p2 p3 t) = true :=
  Lemmas.cubic_sound tol sqrt p0 p1 p2 p3 hok t h0 h1

/-- `quadratic_bezier_bbox` contains the whole quadratic curve (degree elevation is exact) -/
theorem quadratic_bbox_contains_curve (tol : Rat) (sqrt : Rat → Option Rat) (p0 p1 p2 : V3)
    (hok : CurveOK tol sqrt p0 (elevV p0 p1) (elevV p2 p1) p2) (t : Rat) (h0 : 0 ≤ t) (h1 : t ≤ 1) :
    (quadBBox tol sqrt p0 p1 p2).inside (bezier3V p0 p1 p2 t) = true := by
  have := Lemmas.cubic_sound tol sqrt p0 (elevV p0 p1) (elevV p2 p1) p2 hok t h0 h1
  rwa [Lemmas.elev_curve] at this

/-- unconditionally (any `sqrt`, any tolerance): the curve boxes of the real code lie in every box that contains
    the control points, and each of their bounds is attained by a curve point with parameter in [0, 1] -/
theorem curve_boxes_in_control_and_tight (tol : Rat) (sqrt : Rat → Option Rat) :
    (realBoxes tol sqrt).InControl ∧ (realBoxes tol sqrt).Tight :=
  ⟨Lemmas.real_inControl tol sqrt, Lemmas.real_tight tol sqrt⟩

/-- the whole chain for a multi-path with the real curve boxes: fast box ⊇ precise box ⊇ every point of the path,
    and the precise box is tight -/
theorem real_path_boxes (tol : Rat) (sqrt : Rat → Option Rat) (p : Path) (hne : p.cmds ≠ []) :
    (extents3 p.controlVertices).contains (p.preciseBBox (realBoxes tol sqrt)) = true ∧
    (p.CurvesOK tol sqrt → ∀ q, OnPath p q → (p.preciseBBox (realBoxes tol sqrt)).inside q = true) ∧
    (∃ lo hi, p.preciseBBox (realBoxes tol sqrt) = .mk lo hi ∧
      (∃ q, OnPath p q ∧ q.x = lo.x) ∧ (∃ q, OnPath p q ∧ q.y = lo.y) ∧ (∃ q, OnPath p q ∧ q.z = lo.z) ∧
      (∃ q, OnPath p q ∧ q.x = hi.x) ∧ (∃ q, OnPath p q ∧ q.y = hi.y) ∧ (∃ q, OnPath p q ∧ q.z = hi.z)) :=
  ⟨Lemmas.fast_contains_precise_path _ (Lemmas.real_inControl tol sqrt) p hne,
   fun hok q hq => Lemmas.precise_contains_path _ p (Lemmas.real_soundOn tol sqrt p hok) q hq,
   Lemmas.precise_tight _ (Lemmas.real_tight tol sqrt) p hne⟩

/-! ### no assumption on the size of the coefficients: the `abs_tol` tests cost at most `5/3 * abs_tol` -/

/-- For ANY control values (tiny non-zero leading coefficients `|a| < abs_tol`, `|b| < abs_tol` included, where the code
    treats the derivative as linear resp. constant) every value of the coordinate on [0, 1] is within `5/3 * abs_tol`
    of the range spanned by the candidates the code evaluates; only the square roots that are actually taken have to
    be exact (`AxisSqrtOK`).  Full statement; the exact version `cubic_axis_extrema` is the case `AxisTolOK`. -/
theorem cubic_axis_extrema_tol (tol : Rat) (sqrt : Rat → Option Rat) (p0 p1 p2 p3 : Rat) (tpos : 0 < tol)
    (hs : AxisSqrtOK tol sqrt p0 p1 p2 p3) (t : Rat) (h0 : 0 ≤ t) (h1 : t ≤ 1) :
    (∃ w ∈ 0 :: 1 :: axisParams tol sqrt p0 p1 p2 p3, bezier4 p0 p1 p2 p3 t ≤ bezier4 p0 p1 p2 p3 w + 5 / 3 * tol) ∧
    (∃ w ∈ 0 :: 1 :: axisParams tol sqrt p0 p1 p2 p3, bezier4 p0 p1 p2 p3 w - 5 / 3 * tol ≤ bezier4 p0 p1 p2 p3 t) :=
  Lemmas.axis_sound_tol tol sqrt p0 p1 p2 p3 tpos hs t h0 h1

/-- `cubic_bezier_bbox(curve).grow(5/3 * abs_tol)` contains the whole curve, for all control points -/
theorem cubic_bbox_contains_curve_tol (tol : Rat) (sqrt : Rat → Option Rat) (p0 p1 p2 p3 : V3)
    (hok : CurveSqrtOK tol sqrt p0 p1 p2 p3) (t : Rat) (h0 : 0 ≤ t) (h1 : t ≤ 1) :
    ∃ g, (cubicBBox tol sqrt p0 p1 p2 p3).grow (5 / 3 * tol) = some g ∧ g.inside (bezier4V p0 p1 p2 p3 t) = true :=
  Lemmas.cubic_sound_tol tol sqrt p0 p1 p2 p3 hok t h0 h1

/-- `precise_bbox(path).grow(5/3 * abs_tol)` contains every point of a multi-path, for all control points -/
theorem real_path_contains_tol (tol : Rat) (sqrt : Rat → Option Rat) (p : Path) (hok : p.CurvesSqrtOK tol sqrt)
    (tpos : 0 < tol) (q : V3) (hq : OnPath p q) :
    ∃ g, (p.preciseBBox (realBoxes tol sqrt)).grow (5 / 3 * tol) = some g ∧ g.inside q = true := by
  have he : (0 : Rat) ≤ 5 / 3 * tol := by linarith
  obtain ⟨h1, h2⟩ := Lemmas.precise_contains_path_tol (realBoxes tol sqrt) (5 / 3 * tol) he p
    (Lemmas.real_soundOn_tol tol sqrt p hok) q hq
  exact ⟨_, h1, h2⟩

-- a curve with a tiny non-zero leading coefficient on the x axis (a = 3e-13 < abs_tol): outside `CurveOK`, inside `CurveSqrtOK`
#guard decide (CurveSqrtOK (1 / 1000000000000) ratSqrt ⟨0, 0, 0⟩ ⟨1, 1, 0⟩ ⟨2, 1, 0⟩ ⟨3 + 1 / 10000000000000, 0, 0⟩) &&
  !decide (CurveOK (1 / 1000000000000) ratSqrt ⟨0, 0, 0⟩ ⟨1, 1, 0⟩ ⟨2, 1, 0⟩ ⟨3 + 1 / 10000000000000, 0, 0⟩)

/-- non-vacuity: a multi-path whose second sub-path starts with a curve (the region of seeded change C15-m1);
    derivative roots 1/4 and 3/4 on the x axis, exact square roots -/
private def exPath : Path :=
  ⟨⟨0, 0, 0⟩, [.lineTo ⟨4, 0, 0⟩, .moveTo ⟨10, 0, 0⟩, .curve4To ⟨13, 4, 0⟩ ⟨8, 4, 0⟩ ⟨11, 0, 0⟩, .curve3To ⟨12, -2, 0⟩ ⟨13, 0, 0⟩]⟩
#guard decide (exPath.CurvesOK (1 / 1000000000000) ratSqrt)
#guard exPath.preciseBBox (realBoxes (1 / 1000000000000) ratSqrt) == .mk ⟨0, -1, 0⟩ ⟨13, 3, 0⟩
#guard cubicParams (1 / 1000000000000) ratSqrt ⟨10, 0, 0⟩ ⟨13, 4, 0⟩ ⟨8, 4, 0⟩ ⟨11, 0, 0⟩ == [3/4, 1/4, 1/2]
#guard extents3 exPath.controlVertices == .mk ⟨0, -2, 0⟩ ⟨13, 4, 0⟩
-- the pen position matters: measured from the end of the previous sub-path the curve would give another box
#guard cubicBBox (1 / 1000000000000) ratSqrt ⟨4, 0, 0⟩ ⟨13, 4, 0⟩ ⟨8, 4, 0⟩ ⟨11, 0, 0⟩ != cubicBBox (1 / 1000000000000) ratSqrt ⟨10, 0, 0⟩ ⟨13, 4, 0⟩ ⟨8, 4, 0⟩ ⟨11, 0, 0⟩

/-! ## entity trees: `virtual_entities`, `recursive_decompose`, `extents` at any nesting depth -/

/-- Decomposing the virtual copies behind a stack of pending transformations gives every leaf under the composed
    matrix of the stack and of its ancestors, whatever `repr` decides for each INSERT (absorb the matrix or fall
    back to transformed block content) -/
theorem xform_decompose_spec (repr : Aff → Bool) (ts : List Aff) (f : Forest) (h : f.noAtts = true) :
    decompose repr (xform repr ts f) = (placements (Lemmas.compAll ts) f).map Lemmas.vleaf :=
  Lemmas.xform_decompose repr ts f h

/-- `recursive_decompose` of a layout: the paths of the flat stream are the leaves in world coordinates (composed
    transformation of all ancestors, any depth), and the stream does not depend on the fall-back decisions -/
theorem decompose_spec (repr repr' : Aff → Bool) (f : Forest) (h : f.plainBlocks = true) :
    (decompose repr f).map Leaf.path = worldPaths f ∧ decompose repr f = decompose repr' f := by
  refine ⟨?_, ?_⟩
  · rw [Lemmas.decompose_top repr f h, Lemmas.topLeaves_paths]
  · rw [Lemmas.decompose_top repr f h, Lemmas.decompose_top repr' f h]

/-- virtual entities have no key: every keyed entity of the flat stream is a real entity of the layout
    (a top-level entity or an ATTRIB attached to a top-level INSERT) -/
theorem virtual_entities_have_no_key (repr : Aff → Bool) (f : Forest) (h : f.plainBlocks = true) :
    ∀ l ∈ decompose repr f, ∀ k, l.key = some k → k ∈ f.handles := by
  rw [Lemmas.decompose_top repr f h]; exact Lemmas.topLeaves_keys f

/-- nested_bbox: `extents` of an entity tree is the box of the boxes of ALL leaves, each under the composed
    transformation of its ancestors, at any nesting depth (fast and precise mode, any `repr`) -/
theorem nested_bbox (repr : Aff → Bool) (sb : SegBoxes) (fast : Bool) (c : Cache) (f : Forest) (h : f.plainBlocks = true) :
    extentsOf false c (toEnts repr sb fast f) = (extendAll (Lemmas.worldBoxes sb fast f), c) :=
  Lemmas.nested_bbox repr sb fast c f h

/-- fast mode: exactly the box of all transformed control vertices -/
theorem nested_bbox_fast (repr : Aff → Bool) (sb : SegBoxes) (c : Cache) (f : Forest) (h : f.plainBlocks = true) :
    (extentsOf false c (toEnts repr sb true f)).1 = extents3 ((worldPaths f).flatMap Path.controlVertices) := by
  rw [Lemmas.nested_bbox repr sb true c f h]; exact Lemmas.nested_bbox_fast sb f

/-- containment at any depth: for every leaf `(T, p)` (`T` the composed matrix of its ancestors) and every point
    `q` of `p`, the world point `T q` lies in the extents; precise mode needs sound segment boxes on the
    transformed paths -/
theorem nested_contains (repr : Aff → Bool) (sb : SegBoxes) (fast : Bool) (c : Cache) (f : Forest)
    (hs : fast = false → ∀ p ∈ worldPaths f, p.SoundOn sb) (h : f.plainBlocks = true)
    (tp : Aff × Path) (htp : tp ∈ placements Aff.one f) (q : V3) (hq : OnPath tp.2 q) :
    (extentsOf false c (toEnts repr sb fast f)).1.inside (tp.1.apply q) = true :=
  Lemmas.nested_contains repr sb fast c f hs h tp htp q hq

/-- the same with the curve boxes of the real code -/
theorem nested_contains_real (repr : Aff → Bool) (tol : Rat) (sqrt : Rat → Option Rat) (fast : Bool) (c : Cache) (f : Forest)
    (hok : fast = false → ∀ p ∈ worldPaths f, p.CurvesOK tol sqrt) (h : f.plainBlocks = true)
    (tp : Aff × Path) (htp : tp ∈ placements Aff.one f) (q : V3) (hq : OnPath tp.2 q) :
    (extentsOf false c (toEnts repr (realBoxes tol sqrt) fast f)).1.inside (tp.1.apply q) = true :=
  Lemmas.nested_contains repr _ fast c f (fun hf p hp => Lemmas.real_soundOn tol sqrt p (hok hf p hp)) h tp htp q hq

/-- precise mode is tight at any nesting depth: with tight segment boxes every bound of the extents of a tree is the
    coordinate of the world image `T q` of a point `q` of some leaf -/
theorem nested_tight (repr : Aff → Bool) (sb : SegBoxes) (ht : sb.Tight) (c : Cache) (f : Forest)
    (h : f.plainBlocks = true) (lo hi : V3) (hb : (extentsOf false c (toEnts repr sb false f)).1 = .mk lo hi) :
    (∃ tp ∈ placements Aff.one f, ∃ q, OnPath tp.2 q ∧ (tp.1.apply q).x = lo.x) ∧
    (∃ tp ∈ placements Aff.one f, ∃ q, OnPath tp.2 q ∧ (tp.1.apply q).y = lo.y) ∧
    (∃ tp ∈ placements Aff.one f, ∃ q, OnPath tp.2 q ∧ (tp.1.apply q).z = lo.z) ∧
    (∃ tp ∈ placements Aff.one f, ∃ q, OnPath tp.2 q ∧ (tp.1.apply q).x = hi.x) ∧
    (∃ tp ∈ placements Aff.one f, ∃ q, OnPath tp.2 q ∧ (tp.1.apply q).y = hi.y) ∧
    (∃ tp ∈ placements Aff.one f, ∃ q, OnPath tp.2 q ∧ (tp.1.apply q).z = hi.z) :=
  Lemmas.nested_tight repr sb ht c f h lo hi hb

/-- ... in particular with the curve boxes of the real code, for any `sqrt` and tolerance -/
theorem nested_tight_real (repr : Aff → Bool) (tol : Rat) (sqrt : Rat → Option Rat) (c : Cache) (f : Forest)
    (h : f.plainBlocks = true) (lo hi : V3)
    (hb : (extentsOf false c (toEnts repr (realBoxes tol sqrt) false f)).1 = .mk lo hi) :
    (∃ tp ∈ placements Aff.one f, ∃ q, OnPath tp.2 q ∧ (tp.1.apply q).x = lo.x) ∧
    (∃ tp ∈ placements Aff.one f, ∃ q, OnPath tp.2 q ∧ (tp.1.apply q).x = hi.x) ∧
    (∃ tp ∈ placements Aff.one f, ∃ q, OnPath tp.2 q ∧ (tp.1.apply q).y = lo.y) ∧
    (∃ tp ∈ placements Aff.one f, ∃ q, OnPath tp.2 q ∧ (tp.1.apply q).y = hi.y) ∧
    (∃ tp ∈ placements Aff.one f, ∃ q, OnPath tp.2 q ∧ (tp.1.apply q).z = lo.z) ∧
    (∃ tp ∈ placements Aff.one f, ∃ q, OnPath tp.2 q ∧ (tp.1.apply q).z = hi.z) := by
  obtain ⟨a, b, c', d, e, g⟩ := Lemmas.nested_tight repr _ (Lemmas.real_tight tol sqrt) c f h lo hi hb
  exact ⟨a, d, b, e, c', g⟩

/-- the converse of `path_affine_invariant`: a point of the transformed path is the image of a point of the path -/
theorem path_affine_invariant_inv (a : Aff) (p : Path) (q' : V3) (h : OnPath (p.map a) q') :
    ∃ q, OnPath p q ∧ q' = a.apply q :=
  Lemmas.onPath_map_inv a p q' h

/-- fast mode is never smaller than precise mode for a whole tree at any depth: every point of the precise extents
    lies in the fast extents; unconditional for the curve boxes of the real code -/
theorem nested_fast_contains_precise (repr : Aff → Bool) (tol : Rat) (sqrt : Rat → Option Rat) (c c' : Cache) (f : Forest)
    (h : f.plainBlocks = true) (q : V3)
    (hq : (extentsOf false c (toEnts repr (realBoxes tol sqrt) false f)).1.inside q = true) :
    (extentsOf false c' (toEnts repr (realBoxes tol sqrt) true f)).1.inside q = true :=
  Lemmas.nested_fast_contains_precise repr _ (Lemmas.real_inControl tol sqrt) c c' f h q hq

/-- containment at any depth without assumptions on the coefficients: the extents (precise mode, real curve boxes)
    grown by `5/3 * abs_tol` contain the world image of every point of every leaf -/
theorem nested_contains_real_tol (repr : Aff → Bool) (tol : Rat) (sqrt : Rat → Option Rat) (tpos : 0 < tol) (c : Cache)
    (f : Forest) (hok : ∀ p ∈ worldPaths f, p.CurvesSqrtOK tol sqrt) (h : f.plainBlocks = true)
    (tp : Aff × Path) (htp : tp ∈ placements Aff.one f) (q : V3) (hq : OnPath tp.2 q) :
    ∃ g, (extentsOf false c (toEnts repr (realBoxes tol sqrt) false f)).1.grow (5 / 3 * tol) = some g ∧
      g.inside (tp.1.apply q) = true := by
  have he : (0 : Rat) ≤ 5 / 3 * tol := by linarith
  exact ⟨_, Lemmas.grow_eq_growBox _ _ he, Lemmas.nested_contains_tol repr _ (5 / 3 * tol) he c f
    (fun p hp => Lemmas.real_soundOn_tol tol sqrt p (hok p hp)) h tp htp q hq⟩

/-- `extents` without a cache is the box of the boxes of all primitives; `multi_flat` and `multi_recursive`
    describe the same box -/
theorem multi_flat_vs_recursive (c : Cache) (es : List Ent) :
    extendAll (multiFlat false c es).1 = extendAll (multiRecursive false c (es.flatMap Ent.prims)).1 ∧
      (extentsOf false c es).1 = extendAll (multiRecursive false c (es.flatMap Ent.prims)).1 :=
  Lemmas.flat_vs_recursive c es

/-- the extents depend only on the SET of entities (order and repetitions are irrelevant) ... -/
theorem extents_order_independent (c c' : Cache) (es es' : List Ent) (h : ∀ e, e ∈ es ↔ e ∈ es') :
    (extentsOf false c es).1 = (extentsOf false c' es').1 :=
  Lemmas.extents_set c c' es es' h

/-- ... and never shrink when entities are added -/
theorem extents_monotone (c c' : Cache) (es es' : List Ent) (h : ∀ e ∈ es, e ∈ es') (q : V3)
    (hq : (extentsOf false c es).1.inside q = true) : (extentsOf false c' es').1.inside q = true :=
  Lemmas.extents_mono c c' es es' h q hq

/-- cache transparency over the tree, for every hit/miss pattern: with ANY cache that satisfies the invariant (cold,
    warm, partially filled by earlier calls on other sub-collections) `extents` of the tree is the box of all
    transformed leaves, and the invariant is kept -/
theorem cache_transparent_tree (repr : Aff → Bool) (sb : SegBoxes) (fast : Bool) (truth : Nat → Box3) (c : Cache) (f : Forest)
    (hc : c.Inv truth) (he : ∀ e ∈ toEnts repr sb fast f, e.Coherent truth) (h : f.plainBlocks = true) :
    (extentsOf true c (toEnts repr sb fast f)).1 = extendAll (Lemmas.worldBoxes sb fast f) ∧
      (extentsOf true c (toEnts repr sb fast f)).2.Inv truth := by
  obtain ⟨_, h2, h3, _⟩ := Lemmas.cache_transparent_ents truth (toEnts repr sb fast f) c c hc he
  refine ⟨?_, h3⟩
  rw [h2, Lemmas.nested_bbox repr sb fast c f h]

/-- "Handles are unique" (what the entity database guarantees, C05) is all the cache needs: for a tree with distinct
    handles the coherence hypothesis holds for the truth function read off the tree, so for ANY sub-collection `es` of its
    entities, in any order and with repetitions, and ANY cache that is empty or was filled by earlier such calls (`Inv`),
    `multi_flat`/`extents` with the cache equal the cache-less results and keep the invariant -/
theorem cache_transparent_unique_handles (repr : Aff → Bool) (sb : SegBoxes) (fast : Bool) (f : Forest)
    (hp : f.plainBlocks = true) (hn : f.handles.Nodup) (es : List Ent) (hsub : ∀ e ∈ es, e ∈ toEnts repr sb fast f)
    (c c0 : Cache) (hc : c.Inv (truthOf (toEnts repr sb fast f))) :
    (multiFlat true c es).1 = (multiFlat false c0 es).1 ∧ (extentsOf true c es).1 = (extentsOf false c0 es).1 ∧
      (extentsOf true c es).2.Inv (truthOf (toEnts repr sb fast f)) ∧
      (Cache.mk [] 0 0).Inv (truthOf (toEnts repr sb fast f)) := by
  have hcoh := Lemmas.coherent_of_functional _ (Lemmas.functional_tree repr sb fast f hp hn)
  obtain ⟨h1, h2, h3, _⟩ := Lemmas.cache_transparent_ents _ es c c0 hc (fun e he => hcoh e (hsub e he))
  exact ⟨h1, h2, h3, fun e he => by simp at he⟩

/-- `Cache.invalidate`: every listed entity is processed - cached or not, with or without key (HATCH, no handle), in any
    order and with repetitions: the result depends only on the SET of invalidated keys; the counters are untouched -/
theorem invalidate_spec (c : Cache) (ks : List (Option Nat)) :
    (c.invalidate ks).boxes = c.boxes.filter (fun e => !(ks.contains (some e.1))) ∧
      (c.invalidate ks).hits = c.hits ∧ (c.invalidate ks).misses = c.misses :=
  Lemmas.invalidate_boxes ks c

/-- compute / modify / invalidate / compute: a cache filled for the OLD boxes (`truth`) whose entities are then modified
    (their boxes are now `truth'`) gives, after `invalidate` of at least every entity whose box changed (plus any other
    entities, uncached ones included, in any order), exactly the results of a fresh computation without cache, and the
    invariant for the new boxes holds again -/
theorem invalidate_then_extents (truth truth' : Nat → Box3) (c c0 : Cache) (ks : List (Option Nat)) (es : List Ent)
    (hc : c.Inv truth) (hch : ∀ k, truth k ≠ truth' k → some k ∈ ks) (he : ∀ e ∈ es, e.Coherent truth') :
    (multiFlat true (c.invalidate ks) es).1 = (multiFlat false c0 es).1 ∧
      (extentsOf true (c.invalidate ks) es).1 = (extentsOf false c0 es).1 ∧
      (extentsOf true (c.invalidate ks) es).2.Inv truth' := by
  obtain ⟨h1, h2, h3, _⟩ := Lemmas.cache_transparent_ents truth' es (c.invalidate ks) c0
    (Lemmas.invalidate_inv truth truth' c ks hc hch) he
  exact ⟨h1, h2, h3⟩

-- the hypothesis is needed: with a stale entry left (an entity that was not invalidated) the cache changes the result
#guard (extentsOf true ((Cache.mk [(9, .mk ⟨0, 0, 0⟩ ⟨9, 9, 9⟩), (7, exTruth 7)] 0 0).invalidate [none, some 4]) exEnts).1
  != (extentsOf false ⟨[], 0, 0⟩ exEnts).1
#guard (extentsOf true ((Cache.mk [(9, .mk ⟨0, 0, 0⟩ ⟨9, 9, 9⟩), (7, exTruth 7)] 0 0).invalidate [none, some 4, some 9]) exEnts).1
  == (extentsOf false ⟨[], 0, 0⟩ exEnts).1

/-- virtual entities are never cached: after `multi_flat`/`extents` over a tree, with or without hits, every key
    in the cache is an old key or the handle of a real entity -/
theorem cache_never_stores_virtual (repr : Aff → Bool) (sb : SegBoxes) (fast uc : Bool) (c : Cache) (f : Forest)
    (hp : f.plainBlocks = true) :
    ∀ k ∈ (multiFlat uc c (toEnts repr sb fast f)).2.keys, k ∈ c.keys ∨ k ∈ f.handles :=
  Lemmas.tree_cache_keys repr sb fast uc c f hp

/-- the matrix of an INSERT (`insertAff`, extrusion (0,0,1)) is `p' = R * S * (p - base) + insert`; a MINSERT grid cell
    moves it by the rotated, unscaled offset -/
theorem insert_matrix_spec (base scale ins : V3) (co si ox oy : Rat) (p : V3) :
    (insertAff base scale ins co si).apply p =
      ⟨co * (scale.x * (p.x - base.x)) - si * (scale.y * (p.y - base.y)) + ins.x,
       si * (scale.x * (p.x - base.x)) + co * (scale.y * (p.y - base.y)) + ins.y,
       scale.z * (p.z - base.z) + ins.z⟩ ∧
    (gridAff (insertAff base scale ins co si) co si ox oy).apply p =
      ⟨((insertAff base scale ins co si).apply p).x + (co * ox - si * oy),
       ((insertAff base scale ins co si).apply p).y + (si * ox + co * oy), ((insertAff base scale ins co si).apply p).z⟩ :=
  ⟨Lemmas.insertAff_apply base scale ins co si p, Lemmas.gridAff_apply _ co si ox oy p⟩

/-- MINSERT: the leaves of `minsert` (what `recursive_decompose(entity.multi_insert())` is modelled by) are the
    leaves of the block once per grid cell (rows outside, columns inside), each under the cell matrix, followed by the
    rest of the layout; together with `nested_bbox`/`nested_contains`/`nested_tight` this covers MINSERT grids at any depth -/
theorem minsert_spec (key : Option Nat) (m : Aff) (co si cs rs : Rat) (cols rows : Nat) (block rest : Forest)
    (hb : block.noAtts = true) (hr : rest.plainBlocks = true) :
    (minsert key m co si cs rs cols rows block rest).plainBlocks = true ∧
    placements Aff.one (minsert key m co si cs rs cols rows block rest) =
      (List.range rows).flatMap (fun (r : Nat) => (List.range cols).flatMap (fun (c : Nat) =>
        placements (gridAff m co si ((c : Rat) * cs) ((r : Rat) * rs)) block)) ++ placements Aff.one rest :=
  ⟨Lemmas.minsert_plainBlocks key m co si cs rs cols rows block rest hb hr,
   Lemmas.placements_minsert key m co si cs rs cols rows block rest⟩

/-- non-vacuity: block B = {LINE, INSERT of block A with an irrational-free rotation by 90 degrees}, block A = {LINE};
    the layout holds a LINE (handle 1) and an INSERT of B (handle 2, scaled by 2 in x, with an ATTRIB, handle 3) -/
private def rot90 : Aff := ⟨0, -1, 0, 1, 0, 0, 0, 0, 1, 5, 0, 0⟩
private def scaleX2 : Aff := ⟨2, 0, 0, 0, 1, 0, 0, 0, 1, 0, 10, 0⟩
private def lineP (a b : V3) : Path := ⟨a, [.lineTo b]⟩
private def blockA : Forest := .leaf (some 20) (lineP ⟨0, 0, 0⟩ ⟨1, 0, 0⟩) .nil
private def blockB : Forest := .leaf (some 21) (lineP ⟨0, 0, 0⟩ ⟨0, 1, 0⟩) (.insert (some 22) rot90 [] blockA .nil)
private def exForest : Forest :=
  .leaf (some 1) (lineP ⟨-1, -1, 0⟩ ⟨0, 0, 0⟩) (.insert (some 2) scaleX2 [⟨some 3, lineP ⟨7, 7, 0⟩ ⟨8, 7, 0⟩⟩] blockB .nil)
private def noSb : SegBoxes := ⟨fun _ _ _ _ => .empty, fun _ _ _ => .empty⟩
#guard exForest.plainBlocks && exForest.depth == 2
-- INSERT absorbed (`repr` always true) or always exploded: the same flat stream
#guard decompose (fun _ => true) exForest == decompose (fun _ => false) exForest
#guard (decompose (fun _ => false) exForest).map Leaf.path == worldPaths exForest
#guard (decompose (fun _ => true) exForest).map Leaf.key == [some 1, some 3, none, none]
#guard (extentsOf false ⟨[], 0, 0⟩ (toEnts (fun _ => false) noSb false exForest)).1 == .mk ⟨-1, -1, 0⟩ ⟨10, 11, 0⟩
#guard (extentsOf true ⟨[], 0, 0⟩ (toEnts (fun _ => true) noSb true exForest)).2.keys == [2, 3, 1]
example : exForest.handles.Nodup := by decide
-- a 3 x 2 grid of block A (one LINE) with spacing 4 / 5 under a rotation by 90 degrees
#guard (extentsOf false ⟨[], 0, 0⟩ (toEnts (fun _ => false) noSb false
    (minsert (some 9) (insertAff ⟨0, 0, 0⟩ ⟨1, 1, 1⟩ ⟨0, 0, 0⟩ 0 1) 0 1 4 5 3 2 (.leaf none ⟨⟨0, 0, 0⟩, [.lineTo ⟨1, 0, 0⟩]⟩ .nil) .nil))).1
  == .mk ⟨-5, 0, 0⟩ ⟨0, 9, 0⟩
#guard truthOf (toEnts (fun _ => true) noSb true exForest) 2 == .mk ⟨0, 7, 0⟩ ⟨10, 11, 0⟩

/-! ## round 2: `add_bezier4p` / `add_bezier3p` (how SPLINE, HATCH spline edges, arcs and ellipses enter a path) -/

/-- a cubic Bézier curve whose two inner control points are BOTH collapsed into their end points is its chord
    (`B(t) = s + (e - s)(3t^2 - 2t^3)`), a quadratic one whose control point is collapsed into the start OR the end point
    likewise: exactly the cases in which `add_bezier4p` (AND) and `add_bezier3p` (OR) replace the curve by LINE_TO -/
theorem collapsed_curve_is_chord (s e : V3) (t : Rat) (h0 : 0 ≤ t) (h1 : t ≤ 1) :
    (bezier4V s s e e t = segPoint s (.lineTo e) (3 * t ^ 2 - 2 * t ^ 3) ∧ 0 ≤ 3 * t ^ 2 - 2 * t ^ 3 ∧ 3 * t ^ 2 - 2 * t ^ 3 ≤ 1) ∧
    (bezier3V s s e t = segPoint s (.lineTo e) (t ^ 2) ∧ 0 ≤ t ^ 2 ∧ t ^ 2 ≤ 1) ∧
    (bezier3V s e e t = segPoint s (.lineTo e) (2 * t - t ^ 2) ∧ 0 ≤ 2 * t - t ^ 2 ∧ 2 * t - t ^ 2 ≤ 1) :=
  ⟨Lemmas.collapsed_cubic_on_chord s e t h0 h1, (Lemmas.collapsed_quadratic_on_chord s e t h0 h1).1,
    (Lemmas.collapsed_quadratic_on_chord s e t h0 h1).2⟩

/-- one round of `add_bezier4p` / `add_bezier3p` keeps the geometry: every point of the given curve is a point of a segment
    the round appends, with the pen position tracked (exact comparison of points); so the boxes of the path contain the curve
    by `path_fast_contains` / `path_precise_contains` -/
theorem add_bezier_keeps_geometry (near same : V3 → V3 → Bool) (hnear : ∀ a b, near a b = true → a = b)
    (hsame : ∀ a b, same a b = true → a = b) (pen s c1 c2 e : V3) (t : Rat) (h0 : 0 ≤ t) (h1 : t ≤ 1) :
    (∃ sc ∈ segsFrom pen (addBezier4Step near same pen s c1 c2 e), ∃ u : Rat, 0 ≤ u ∧ u ≤ 1 ∧
      bezier4V s c1 c2 e t = segPoint sc.1 sc.2 u) ∧
    (∃ sc ∈ segsFrom pen (addBezier3Step near same pen s c1 e), ∃ u : Rat, 0 ≤ u ∧ u ≤ 1 ∧
      bezier3V s c1 e t = segPoint sc.1 sc.2 u) :=
  ⟨Lemmas.addBezier4Step_geometry near same hnear hsame pen s c1 c2 e t h0 h1,
    Lemmas.addBezier3Step_geometry near same hnear hsame pen s c1 e t h0 h1⟩

-- one collapsed control point is NOT enough for a cubic (seeded change C15-m8): the curve (0,0) (0,0) (10,10) (20,0) leaves its chord
#guard bezier4V ⟨0, 0, 0⟩ ⟨0, 0, 0⟩ ⟨10, 10, 0⟩ ⟨20, 0, 0⟩ (2 / 3) == ⟨280 / 27, 40 / 9, 0⟩
#guard addBezier4Step (· == ·) (· == ·) ⟨0, 0, 0⟩ ⟨0, 0, 0⟩ ⟨0, 0, 0⟩ ⟨10, 10, 0⟩ ⟨20, 0, 0⟩ == [.curve4To ⟨0, 0, 0⟩ ⟨10, 10, 0⟩ ⟨20, 0, 0⟩]

/-! ## round 2: bulge arcs of LWPOLYLINE / 2D POLYLINE and block references in a tilted OCS -/

/-- `bulge_to_arc` without trigonometry (exact rationals, no square root needed): the centre is the midpoint of the chord plus
    its left normal times `(1 - b^2) / (4 b)`, the squared radius `d^2 (1 + b^2)^2 / (16 b^2)`; both end points and the apex
    (midpoint moved by the sagitta `b d / 2` to the right) lie on that circle, the apex is equidistant from the end points and
    on the right of `p1 -> p2` for `b > 0` (counter-clockwise arc), on the left for `b < 0` -/
theorem bulge_arc_consistent (p1 p2 : V2) (b : Rat) (hb : b ≠ 0) :
    dist2 (bulgeCenter p1 p2 b) p1 = bulgeRadius2 p1 p2 b ∧ dist2 (bulgeCenter p1 p2 b) p2 = bulgeRadius2 p1 p2 b ∧
    dist2 (bulgeCenter p1 p2 b) (bulgeApex p1 p2 b) = bulgeRadius2 p1 p2 b ∧
    dist2 (bulgeApex p1 p2 b) p1 = dist2 (bulgeApex p1 p2 b) p2 ∧
    (p2.x - p1.x) * ((bulgeApex p1 p2 b).y - p1.y) - (p2.y - p1.y) * ((bulgeApex p1 p2 b).x - p1.x) = -(b / 2) * dist2 p1 p2 :=
  Lemmas.bulge_consistent p1 p2 b hb

#guard bulgeCenter ⟨0, 0⟩ ⟨2, 0⟩ 1 == ⟨1, 0⟩ && bulgeRadius2 ⟨0, 0⟩ ⟨2, 0⟩ 1 == 1 && bulgeApex ⟨0, 0⟩ ⟨2, 0⟩ 1 == ⟨1, -1⟩

/-- INSERT in an arbitrary (tilted) OCS: the affine map of the tree model built from C12's `insertMatrix` (`ocsInsertAff`)
    acts as that matrix, and - C12's `insert_matrix_law`, re-proved in Lemmas/BBoxOcs.lean - a transformed INSERT whose scaled
    axes and insertion point are the images of the old ones has the matrix `m` after the old matrix: the absorption step
    `t.comp m` of `xform`.  Hence `nested_bbox`, `nested_contains`, `nested_tight` hold verbatim for trees whose block
    references live in tilted coordinate systems. -/
theorem ocs_insert_in_tree (old new : Transform.Ocs) (m : Rat3.M44) (i i' : Transform.Ins) (base p : Rat3.V3)
    (hx : (Transform.insertMatrix new i' ⟨0, 0, 0⟩).ux = Transform.applyDir m (Transform.insertMatrix old i ⟨0, 0, 0⟩).ux)
    (hy : (Transform.insertMatrix new i' ⟨0, 0, 0⟩).uy = Transform.applyDir m (Transform.insertMatrix old i ⟨0, 0, 0⟩).uy)
    (hz : (Transform.insertMatrix new i' ⟨0, 0, 0⟩).uz = Transform.applyDir m (Transform.insertMatrix old i ⟨0, 0, 0⟩).uz)
    (hins : new.toWcs i'.insert = Transform.apply m (old.toWcs i.insert)) :
    (Lemmas.ocsInsertAff old i base).apply (Lemmas.ofR3 p) = Lemmas.ofR3 (Transform.apply (Transform.insertMatrix old i base) p) ∧
    (Lemmas.ocsInsertAff new i' base).apply (Lemmas.ofR3 p) =
      ((Lemmas.affOfM44 m).comp (Lemmas.ocsInsertAff old i base)).apply (Lemmas.ofR3 p) :=
  ⟨Lemmas.affOfM44_apply _ p, Lemmas.ocs_insert_absorb old new m i i' base hx hy hz hins p⟩

/-- the core-Lean matrix `ocsAff` (used by the driver of stream X6 for INSERTs with a tilted extrusion) is C12's
    `insertMatrix` for every OCS, insert and base point -/
theorem ocs_aff_is_insert_matrix (o : Transform.Ocs) (i : Transform.Ins) (base : Rat3.V3) :
    Lemmas.ocsInsertAff o i base =
      ocsAff (Lemmas.ofR3 o.ux) (Lemmas.ofR3 o.uy) (Lemmas.ofR3 o.uz) (Lemmas.ofR3 base) ⟨i.sx, i.sy, i.sz⟩
        (Lemmas.ofR3 i.insert) i.rot.x i.rot.y :=
  Lemmas.ocsAff_eq o i base

/-! ## round 2: `Primitive.bbox` by kind of primitive -/

/-- primitive_box_is_control_box: for EVERY kind of primitive (mesh, path, LINE, POINT, empty) the fast box is the box of
    its control points; for all kinds except paths the precise box is the same box; LINE and POINT, which override `bbox`,
    give in both modes the box of the equivalent one-segment path (so treating them as path leaves in the tree model is
    sound) -/
theorem primitive_box_is_control_box (sb : SegBoxes) (r : PrimRep) (fast : Bool) (a b : V3) :
    r.box sb true = extents3 r.controlPoints ∧
    ((∀ p, r ≠ .path p) → r.box sb false = r.box sb true) ∧
    PrimRep.box sb fast (.line a b) = PrimRep.box sb fast (.path ⟨a, [.lineTo b]⟩) ∧
    PrimRep.box sb fast (.point a) = PrimRep.box sb fast (.path ⟨a, [.lineTo a]⟩) := by
  refine ⟨?_, ?_, ?_, ?_⟩
  · cases r with
    | path p =>
      by_cases h : p.cmds.isEmpty = true
      · simp [PrimRep.box, PrimRep.controlPoints, Path.controlVertices, h, extents3]
      · simp [PrimRep.box, PrimRep.controlPoints, Path.box, h]
    | _ => simp [PrimRep.box, PrimRep.controlPoints, extents3]
  · intro h
    cases r with
    | path p => exact absurd rfl (h p)
    | _ => rfl
  · cases fast <;> simp [PrimRep.box, Path.box, Path.preciseBBox, Path.controlVertices, Path.preciseLoop, Path.preciseStep, Cmd.verts]
  · cases fast <;>
      simp [PrimRep.box, Path.box, Path.preciseBBox, Path.controlVertices, Path.preciseLoop, Path.preciseStep, Cmd.verts,
        extents3, V3.vmin, V3.vmax]

/-! ## `ezdxf.select`: selection shapes against the bounding box of an entity -/

/-- `select.Circle`: `bbox_overlap` selects exactly the boxes that share a point with the disc, `bbox_outside` exactly
    the others, `bbox_inside` exactly the boxes that lie in the disc (radius >= 0, squared distances) -/
theorem select_circle_spec (s : SelCircle) (hr : 0 ≤ s.r) (lo hi : V2) (hwf : (Box2.mk lo hi).WF) :
    (s.overlapping (.mk lo hi) = true ↔ ∃ p, (Box2.mk lo hi).inside p = true ∧ dist2 s.c p ≤ s.r * s.r) ∧
    (s.outside (.mk lo hi) = true ↔ ¬∃ p, (Box2.mk lo hi).inside p = true ∧ dist2 s.c p ≤ s.r * s.r) ∧
    (s.inside (.mk lo hi) = true ↔ ∀ p, (Box2.mk lo hi).inside p = true → dist2 s.c p ≤ s.r * s.r) := by
  have h1 := Lemmas.circle_overlap_iff s hr lo hi hwf
  refine ⟨h1, ?_, Lemmas.circle_inside_iff s lo hi hwf⟩
  rw [← h1]; simp [SelCircle.outside]

/-- `select.Window`: inside = the box lies in the window, overlap = they share a point, outside = they do not -/
theorem select_window_spec (w : SelWindow) (lo hi : V2) (hwf : (Box2.mk lo hi).WF) :
    (w.inside (.mk lo hi) = true ↔ ∀ p, (Box2.mk lo hi).inside p = true → w.bbox.inside p = true) ∧
    (w.overlapping (.mk lo hi) = true ↔ ∃ p, w.bbox.inside p = true ∧ (Box2.mk lo hi).inside p = true) ∧
    (w.outside (.mk lo hi) = true ↔ ¬∃ p, w.bbox.inside p = true ∧ (Box2.mk lo hi).inside p = true) := by
  have h2 := has_overlap2_iff_common_point w.bbox (.mk lo hi) (extents2_wf _) hwf
  refine ⟨contains2_iff_subset w.bbox lo hi hwf, h2, ?_⟩
  rw [← h2]; simp [SelWindow.outside, SelWindow.bbox]

/-- `cube_vertices` / `rect_vertices`: the box is the box of its corners, every corner is inside, and another box
    contains it iff it contains the corners; `Circle.is_inside_bbox` tests exactly the `rect_vertices` -/
theorem box_vertices_spec (lo hi : V3) (hwf : (Box3.mk lo hi).WF) (B : Box3) (s : SelCircle) (lo2 hi2 : V2) :
    (∃ vs, (Box3.mk lo hi).cubeVertices = some vs ∧ extents3 vs = .mk lo hi ∧
      (B.contains (.mk lo hi) = true ↔ ∀ v ∈ vs, B.inside v = true)) ∧
    (Box3.mk lo hi).rectVertices = (Box2.mk lo.to2 hi.to2).rectVertices ∧
    s.inside (.mk lo2 hi2) = ((Box2.mk lo2 hi2).rectVertices.map (fun vs => vs.all s.vertexInside)).getD false := by
  obtain ⟨h1, h2, h3⟩ := hwf
  refine ⟨⟨_, rfl, ?_, ?_⟩, rfl, ?_⟩
  · obtain ⟨a, b, c⟩ := lo
    obtain ⟨d, e, f⟩ := hi
    simp only at h1 h2 h3
    simp [extents3, V3.vmin, V3.vmax, min_eq_left h1, min_eq_left h2, min_eq_left h3, max_eq_right h1,
      max_eq_right h2, max_eq_right h3, max_eq_left h1, max_eq_left h2]
  · cases B with
    | empty =>
      constructor
      · intro h; simp [Box3.contains, Box3.inside] at h
      · intro h
        have := h ⟨lo.x, lo.y, lo.z⟩ (by simp)
        simp [Box3.inside] at this
    | mk blo bhi =>
      simp only [Box3.contains, Bool.and_eq_true, inside_mk_iff, List.mem_cons, List.not_mem_nil, or_false,
        forall_eq_or_imp, forall_eq]
      constructor
      · rintro ⟨⟨a1, a2, a3, a4, a5, a6⟩, ⟨b1, b2, b3, b4, b5, b6⟩⟩
        refine ⟨⟨?_, ?_, ?_, ?_, ?_, ?_⟩, ⟨?_, ?_, ?_, ?_, ?_, ?_⟩, ⟨?_, ?_, ?_, ?_, ?_, ?_⟩, ⟨?_, ?_, ?_, ?_, ?_, ?_⟩,
          ⟨?_, ?_, ?_, ?_, ?_, ?_⟩, ⟨?_, ?_, ?_, ?_, ?_, ?_⟩, ⟨?_, ?_, ?_, ?_, ?_, ?_⟩, ⟨?_, ?_, ?_, ?_, ?_, ?_⟩⟩ <;> linarith
      · rintro ⟨c1, -, -, -, -, -, c7, -⟩
        exact ⟨c1, c7⟩
  · simp [SelCircle.inside, Box2.rectVertices, Bool.and_assoc]

-- the input of the defect fixed by 3994f1031: a small circle inside a large box overlaps it
#guard (SelCircle.mk ⟨10, 10⟩ 1).overlapping (.mk ⟨0, 0⟩ ⟨100, 100⟩) && !(SelCircle.mk ⟨10, 10⟩ 1).outside (.mk ⟨0, 0⟩ ⟨100, 100⟩)
#guard (SelCircle.mk ⟨50, -1/2⟩ 1).overlapping (.mk ⟨0, 0⟩ ⟨100, 100⟩) && !(SelCircle.mk ⟨50, -2⟩ 1).overlapping (.mk ⟨0, 0⟩ ⟨100, 100⟩)

/-! ## the Bézier approximation of circular arcs (`cubic_bezier_arc_parameters`, used by `make_path` for ARC, CIRCLE,
bulges and, through a linear map, ELLIPSE) -/

/-- Exact radial error of one segment: with `u = tan(segment_angle / 4)` (any rational `u`), start point `s`, `w = 2t - 1`:
    `|B(t)|^2 = |s|^2 (1 + u^6 w^2 (1 - w^2)^2 / (1 + u^2)^2)`.  For `|s| = 1` and `t` in [0, 1] the curve therefore never cuts
    inside the circle and `|B(t)|^2 <= 1 + 4 u^6 / (27 (1 + u^2)^2)`; for the segments the code builds (at most 90 degrees,
    `u <= tan(pi/8) < 5/12`) this is `|B(t)| <= 1.0004`: the precise box of an arc is never smaller than the circle's
    geometry demands on the covered segment and larger by at most 0.04 % of the radius. -/
theorem arc_bezier_radial_error (u : Rat) (s : V2) (t : Rat) :
    arcCurveNorm2 u s t =
      (s.x * s.x + s.y * s.y) * (1 + u ^ 6 * (2 * t - 1) ^ 2 * (1 - (2 * t - 1) ^ 2) ^ 2 / (1 + u * u) ^ 2) ∧
    (s.x * s.x + s.y * s.y = 1 → 0 ≤ t → t ≤ 1 →
      1 ≤ arcCurveNorm2 u s t ∧ arcCurveNorm2 u s t ≤ 1 + 4 * u ^ 6 / (27 * (1 + u * u) ^ 2)) ∧
    (s.x * s.x + s.y * s.y = 1 → 0 ≤ t → t ≤ 1 → 0 ≤ u → u ≤ 5 / 12 →
      arcCurveNorm2 u s t ≤ (1 + 4 / 10000) * (1 + 4 / 10000)) := by
  refine ⟨Lemmas.arc_norm2_closed u s t, fun hs h0 h1 => Lemmas.arc_radial_bounds u s hs t h0 h1, ?_⟩
  intro hs h0 h1 hu0 hu1
  have hb := (Lemmas.arc_radial_bounds u s hs t h0 h1).2
  have h6 : u ^ 6 ≤ (5 / 12 : Rat) ^ 6 := pow_le_pow_left₀ hu0 hu1 6
  have hD : (1 : Rat) ≤ (1 + u * u) ^ 2 := by nlinarith [mul_self_nonneg u, mul_self_nonneg (u * u)]
  have hfrac : 4 * u ^ 6 / (27 * (1 + u * u) ^ 2) ≤ 4 * u ^ 6 / 27 := by
    apply div_le_div_of_nonneg_left (by positivity) (by norm_num) (by linarith)
  have : 4 * u ^ 6 / 27 ≤ 4 * (5 / 12 : Rat) ^ 6 / 27 := by
    apply div_le_div_of_nonneg_right _ (by norm_num); linarith
  have hnum : 4 * (5 / 12 : Rat) ^ 6 / 27 ≤ (1 + 4 / 10000) * (1 + 4 / 10000) - 1 := by norm_num
  linarith

/-- The statement about arcs, over the reals with real angles: for EVERY direction `φ` inside an arc segment
    `[θ, θ + α]`, `0 < α <= 90 degrees` (the code builds `ceil(sweep / 90 degrees)` equal segments), the Bézier curve whose
    control points `cubic_bezier_arc_parameters` computes (`arcXr`, `arcYr` = the model's `arcSegment` with
    `u = tan(α / 4)`, shown equal to the rational model by `arc_curve_cast`) has a point `ρ (cos φ, sin φ)` with
    `1 <= ρ <= 1.0004`.  (Intermediate value theorem for the cubic + the exact radial identity; by
    `bezier_affine_invariant` the same holds for any center, radius and for ellipses.)  Consequently the approximating
    path reaches at least as far as the true arc in every direction in which the arc point has a non-negative support
    value, in particular at the axis extremes 0, 90, 180, 270 degrees: the precise box of the path contains the box of
    the true arc and exceeds the circle by at most 0.04 % of the radius. -/
theorem arc_segment_covers (θ α φ : ℝ) (hα0 : 0 < α) (hα : α ≤ Real.pi / 2) (h1 : θ ≤ φ) (h2 : φ ≤ θ + α) :
    ∃ t : ℝ, 0 ≤ t ∧ t ≤ 1 ∧ ∃ ρ : ℝ, 1 ≤ ρ ∧ ρ ≤ 1 + 4 / 10000 ∧
      Lemmas.arcXr (Real.tan (α / 4)) (Real.cos θ) (Real.sin θ) t = ρ * Real.cos φ ∧
      Lemmas.arcYr (Real.tan (α / 4)) (Real.cos θ) (Real.sin θ) t = ρ * Real.sin φ :=
  Lemmas.arc_segment_covers θ α φ hα0 hα h1 h2

/-- The converse: EVERY point of the approximating curve of the segment is `ρ (cos ψ, sin ψ)` for an angle `ψ` of the
    segment and `1 <= ρ <= 1.0004`.  With `arc_segment_covers`: the curve lies in the annular sector of the arc and
    meets every ray of it, so the Hausdorff distance between the Bézier path `make_path` builds for an arc and the true
    arc is at most 0.0004 r (`arc_hausdorff`), and their bounding boxes differ by at most that on every side. -/
theorem arc_curve_in_sector (θ α t : ℝ) (hα0 : 0 < α) (hα : α ≤ Real.pi / 2) (t0 : 0 ≤ t) (t1 : t ≤ 1) :
    ∃ ψ : ℝ, θ ≤ ψ ∧ ψ ≤ θ + α ∧ ∃ ρ : ℝ, 1 ≤ ρ ∧ ρ ≤ 1 + 4 / 10000 ∧
      Lemmas.arcXr (Real.tan (α / 4)) (Real.cos θ) (Real.sin θ) t = ρ * Real.cos ψ ∧
      Lemmas.arcYr (Real.tan (α / 4)) (Real.cos θ) (Real.sin θ) t = ρ * Real.sin ψ :=
  Lemmas.arc_curve_in_sector θ α t hα0 hα t0 t1

/-- Hausdorff distance <= 0.0004 (unit circle; coordinatewise, hence also Euclidean): every point of the arc has a curve
    point within 0.0004 in both coordinates and vice versa -/
theorem arc_hausdorff (θ α : ℝ) (hα0 : 0 < α) (hα : α ≤ Real.pi / 2) :
    (∀ φ : ℝ, θ ≤ φ → φ ≤ θ + α → ∃ t : ℝ, 0 ≤ t ∧ t ≤ 1 ∧
      |Lemmas.arcXr (Real.tan (α / 4)) (Real.cos θ) (Real.sin θ) t - Real.cos φ| ≤ 4 / 10000 ∧
      |Lemmas.arcYr (Real.tan (α / 4)) (Real.cos θ) (Real.sin θ) t - Real.sin φ| ≤ 4 / 10000) ∧
    (∀ t : ℝ, 0 ≤ t → t ≤ 1 → ∃ ψ : ℝ, θ ≤ ψ ∧ ψ ≤ θ + α ∧
      |Lemmas.arcXr (Real.tan (α / 4)) (Real.cos θ) (Real.sin θ) t - Real.cos ψ| ≤ 4 / 10000 ∧
      |Lemmas.arcYr (Real.tan (α / 4)) (Real.cos θ) (Real.sin θ) t - Real.sin ψ| ≤ 4 / 10000) := by
  have key : ∀ ρ c : ℝ, 1 ≤ ρ → ρ ≤ 1 + 4 / 10000 → -1 ≤ c → c ≤ 1 → |ρ * c - c| ≤ 4 / 10000 := by
    intro ρ c h1 h2 c1 c2
    rw [abs_le]; constructor <;> nlinarith
  constructor
  · intro φ h1 h2
    obtain ⟨t, t0, t1, ρ, r1, r2, hx, hy⟩ := Lemmas.arc_segment_covers θ α φ hα0 hα h1 h2
    exact ⟨t, t0, t1, by rw [hx]; exact key ρ _ r1 r2 (Real.neg_one_le_cos φ) (Real.cos_le_one φ),
      by rw [hy]; exact key ρ _ r1 r2 (Real.neg_one_le_sin φ) (Real.sin_le_one φ)⟩
  · intro t t0 t1
    obtain ⟨ψ, p0, p1, ρ, r1, r2, hx, hy⟩ := Lemmas.arc_curve_in_sector θ α t hα0 hα t0 t1
    exact ⟨ψ, p0, p1, by rw [hx]; exact key ρ _ r1 r2 (Real.neg_one_le_cos ψ) (Real.cos_le_one ψ),
      by rw [hy]; exact key ρ _ r1 r2 (Real.neg_one_le_sin ψ) (Real.sin_le_one ψ)⟩

/-- the whole arc as the code splits it: `n` equal segments of angle `α <= 90 degrees`, segment `k` starting at
    `a0 + k α`: every direction of `[a0, a0 + n α]` is met by one of the segment curves at a distance in [1, 1.0004] -/
theorem arc_path_covers (a0 α φ : ℝ) (n : ℕ) (hn : 0 < n) (hα0 : 0 < α) (hα : α ≤ Real.pi / 2) (h0 : a0 ≤ φ)
    (h1 : φ ≤ a0 + n * α) :
    ∃ k : ℕ, k < n ∧ ∃ t : ℝ, 0 ≤ t ∧ t ≤ 1 ∧ ∃ ρ : ℝ, 1 ≤ ρ ∧ ρ ≤ 1 + 4 / 10000 ∧
      Lemmas.arcXr (Real.tan (α / 4)) (Real.cos (a0 + k * α)) (Real.sin (a0 + k * α)) t = ρ * Real.cos φ ∧
      Lemmas.arcYr (Real.tan (α / 4)) (Real.cos (a0 + k * α)) (Real.sin (a0 + k * α)) t = ρ * Real.sin φ :=
  Lemmas.arc_path_covers a0 α φ n hn hα0 hα h0 h1

/-- round 2: the bookkeeping around the segments.  `arc_count = max(ceil(Δ / 90 deg), segments)` gives at least one segment,
    segments of at most 90 degrees that add up to the sweep exactly; hence for EVERY sweep `Δ > 0` (more than 360 degrees
    included) and every requested segment count, every direction of `[a0, a0 + Δ]` is met by one of the segment curves at
    a distance in [1, 1.0004] ... -/
theorem arc_whole_covers (a0 Δ φ : ℝ) (segs : ℕ) (hΔ : 0 < Δ) (h0 : a0 ≤ φ) (h1 : φ ≤ a0 + Δ) :
    let n := max ⌈Δ / Real.pi * 2⌉₊ segs
    (0 < n ∧ 0 < Δ / n ∧ Δ / n ≤ Real.pi / 2 ∧ (n : ℝ) * (Δ / n) = Δ) ∧
    ∃ k : ℕ, k < n ∧ ∃ t : ℝ, 0 ≤ t ∧ t ≤ 1 ∧ ∃ ρ : ℝ, 1 ≤ ρ ∧ ρ ≤ 1 + 4 / 10000 ∧
      Lemmas.arcXr (Real.tan (Δ / n / 4)) (Real.cos (a0 + k * (Δ / n))) (Real.sin (a0 + k * (Δ / n))) t = ρ * Real.cos φ ∧
      Lemmas.arcYr (Real.tan (Δ / n / 4)) (Real.cos (a0 + k * (Δ / n))) (Real.sin (a0 + k * (Δ / n))) t = ρ * Real.sin φ :=
  ⟨Lemmas.arc_count_spec Δ segs hΔ, Lemmas.arc_whole_covers a0 Δ φ segs hΔ h0 h1⟩

/-- ... and no segment curve leaves the sector of the whole arc -/
theorem arc_whole_in_sector (a0 Δ t : ℝ) (segs k : ℕ) (hΔ : 0 < Δ) (t0 : 0 ≤ t) (t1 : t ≤ 1)
    (hk : k < max ⌈Δ / Real.pi * 2⌉₊ segs) :
    let n := max ⌈Δ / Real.pi * 2⌉₊ segs
    ∃ ψ : ℝ, a0 ≤ ψ ∧ ψ ≤ a0 + Δ ∧ ∃ ρ : ℝ, 1 ≤ ρ ∧ ρ ≤ 1 + 4 / 10000 ∧
      Lemmas.arcXr (Real.tan (Δ / n / 4)) (Real.cos (a0 + k * (Δ / n))) (Real.sin (a0 + k * (Δ / n))) t = ρ * Real.cos ψ ∧
      Lemmas.arcYr (Real.tan (Δ / n / 4)) (Real.cos (a0 + k * (Δ / n))) (Real.sin (a0 + k * (Δ / n))) t = ρ * Real.sin ψ :=
  Lemmas.arc_whole_in_sector a0 Δ t segs k hΔ t0 t1 hk

/-- the angle normalisation of `cubic_bezier_from_arc` (degrees): for `-360 <= s < 360`, `span > 0` and `span < 360`
    when `s < 0` - what `bulge_to_arc` (atan2) and `arc_angle_span_deg` deliver - the normalised interval starts in the same
    direction (`s` or `s + 360`) and has exactly the sweep `span`, so `arc_whole_covers` applies to the arc as given -/
theorem from_arc_normalised (s span : ℝ) (hs0 : -360 ≤ s) (hs1 : s < 360) (hsp0 : 0 < span) (hneg : s < 0 → span < 360) :
    Lemmas.fromArcStart s = (if s < 0 then s + 360 else s) ∧ Lemmas.fromArcEnd s span - Lemmas.fromArcStart s = span :=
  Lemmas.from_arc_normalised s span hs0 hs1 hsp0 hneg

/-- in every direction `a` in which the true arc point at angle `φ` has a non-negative support value, some point of
    the approximating curve reaches at least as far -/
theorem arc_support_dominated (θ α φ ax ay : ℝ) (hα0 : 0 < α) (hα : α ≤ Real.pi / 2) (h1 : θ ≤ φ) (h2 : φ ≤ θ + α)
    (hsup : 0 ≤ ax * Real.cos φ + ay * Real.sin φ) :
    ∃ t : ℝ, 0 ≤ t ∧ t ≤ 1 ∧ ax * Real.cos φ + ay * Real.sin φ ≤
      ax * Lemmas.arcXr (Real.tan (α / 4)) (Real.cos θ) (Real.sin θ) t +
        ay * Lemmas.arcYr (Real.tan (α / 4)) (Real.cos θ) (Real.sin θ) t := by
  obtain ⟨t, t0, t1, ρ, hρ, _, hx, hy⟩ := Lemmas.arc_segment_covers θ α φ hα0 hα h1 h2
  refine ⟨t, t0, t1, ?_⟩
  rw [hx, hy]
  nlinarith

/-- the real curve is the model's curve for rational data, and the end point of the model is the start point
    rotated by the segment angle when `u = tan(angle / 4)` -/
theorem arc_curve_cast (u : ℚ) (s : V2) (t : ℚ) (θ α : ℝ) (h0 : -(Real.pi / 2) < α / 4) (h1 : α / 4 < Real.pi / 2) :
    Lemmas.arcXr u s.x s.y t ^ 2 + Lemmas.arcYr u s.x s.y t ^ 2 = ((arcCurveNorm2 u s t : ℚ) : ℝ) ∧
    Lemmas.rotQ (Real.tan (α / 4)) (Real.cos θ) (Real.sin θ) = (Real.cos (θ + α), Real.sin (θ + α)) := by
  refine ⟨?_, Lemmas.rotQ_trig θ α h0 h1⟩
  obtain ⟨hx, hy⟩ := Lemmas.arcXr_cast u s (t : ℝ)
  rw [hx, hy]
  simp only [Lemmas.arcX, Lemmas.arcY, arcCurveNorm2, Lemmas.bezR_cast]
  push_cast
  ring

-- a quarter circle (u ~ tan(pi/8) approximated by 29/70 from below): mid-segment error
#guard arcCurveNorm2 (29 / 70) ⟨1, 0⟩ (1 / 2) == 1
#guard decide (1 < arcCurveNorm2 (29 / 70) ⟨1, 0⟩ (1 / 4) ∧ arcCurveNorm2 (29 / 70) ⟨1, 0⟩ (1 / 4) < 1 + 6 / 10000)

end session3

/-! ## session 3 kernels: the loop body of `precise_bbox` and the per-axis body of `cubic_bezier_bbox`, translated
from the current source, equal the hand model for all inputs -/
section kernels3
open EzdxfVerif.Gen.BBoxKernels

/-- the loop body of `precise_bbox` in the current source, per command type: appended points and new pen position
    (a curve box always has data: it is given by its two corners) -/
theorem kernel_precise_step (bb4 : V3 → V3 → V3 → V3 → V3 × V3) (bb3 : V3 → V3 → V3 → V3 × V3) (s e c1 c2 c : V3) :
    let sb : SegBoxes := ⟨fun a b c d => .mk (bb4 a b c d).1 (bb4 a b c d).2, fun a b c => .mk (bb3 a b c).1 (bb3 a b c).2⟩
    commandCodes = [("LINE_TO", 1), ("CURVE3_TO", 2), ("CURVE4_TO", 3), ("MOVE_TO", 4)] ∧
    preciseStep bb4 bb3 Prod.fst Prod.snd 1 s e c1 c2 c = Path.preciseStep sb s (.lineTo e) ∧
    preciseStep bb4 bb3 Prod.fst Prod.snd 2 s e c1 c2 c = Path.preciseStep sb s (.curve3To c e) ∧
    preciseStep bb4 bb3 Prod.fst Prod.snd 3 s e c1 c2 c = Path.preciseStep sb s (.curve4To c1 c2 e) ∧
    preciseStep bb4 bb3 Prod.fst Prod.snd 4 s e c1 c2 c = Path.preciseStep sb s (.moveTo e) := by
  intro sb
  refine ⟨rfl, ?_, ?_, ?_, ?_⟩ <;> simp [preciseStep, Path.preciseStep, Box3.iter, sb]

private theorem ite_pair_list (P Q : Prop) [Decidable P] [Decidable Q] (a b : Rat) :
    (if P then (if Q then [a, b] else [a]) else (if Q then [b] else [])) =
      (if P then [a] else []) ++ (if Q then [b] else []) := by
  split_ifs <;> rfl

/-- the per-axis body of `cubic_bezier_bbox` in the current source collects exactly the parameters of the model -/
theorem kernel_cubic_params (tol : Rat) (sqrt : Rat → Option Rat) (p1 p2 p3 p4 : Rat) :
    cubicAxisParams tol sqrt p1 p2 p3 p4 = axisParams tol sqrt p1 p2 p3 p4 := by
  have e1 : pyAbs = rabs := rfl
  have e2 : pyCopysign = copysign := rfl
  simp only [cubicAxisParams, axisParams]
  rw [e1, e2]
  by_cases ha : rabs (3 * (-p1 + 3 * p2 - 3 * p3 + p4)) < tol
  · simp only [ha, if_true]
    by_cases hb : rabs (6 * (p1 - 2 * p2 + p3)) < tol <;> simp only [hb, if_true, if_false]
  · simp only [ha, if_false]
    cases sqrt (6 * (p1 - 2 * p2 + p3) * (6 * (p1 - 2 * p2 + p3)) - 4 * (3 * (-p1 + 3 * p2 - 3 * p3 + p4)) * (3 * (p2 - p1))) with
    | none => rfl
    | some s =>
      simp only
      split_ifs <;> rfl

/-- `quadratic_to_cubic_bezier` in the current source is the degree elevation of the model -/
theorem kernel_quad_elevation (s c e : Rat) : quadControl1 s c e = elev s c ∧ quadControl2 s c e = elev e c :=
  ⟨rfl, rfl⟩

/-- `select.Circle.is_overlapping_bbox` in the current source tests the clamped center (the closest point of the box) -/
theorem kernel_circle_overlap (ho : Bool) (c lo hi : V2) :
    circleOverlap ho c.x c.y lo.x lo.y hi.x hi.y =
      if ho then some (clamp c.x lo.x hi.x, clamp c.y lo.y hi.y) else none := by
  cases ho <;> simp [circleOverlap, clamp, pyMin_eq, pyMax_eq]

/-- the control points `cubic_bezier_arc_parameters` builds in the current source are those of the model, and
    `TANGENT_FACTOR` is 4/3 -/
theorem kernel_arc_segment (s e : V2) (L u : Rat) :
    arcSegment s e L = (s, ⟨(arcControlPoint1 s.x s.y L).1, (arcControlPoint1 s.x s.y L).2⟩,
      ⟨(arcControlPoint2 e.x e.y L).1, (arcControlPoint2 e.x e.y L).2⟩, e) ∧
    arcTangentLength u = arcTangentFactor * u := by
  constructor
  · simp [arcSegment, arcControlPoint1, arcControlPoint2]
  · simp [arcTangentLength, arcTangentFactor]

/-- `rect_vertices` and `cube_vertices` in the current source list the corners of the model, in the same order -/
theorem kernel_vertices (lo hi : V3) (lo2 hi2 : V2) :
    (Box3.mk lo hi).cubeVertices = some ((cubeVertices3 lo.x lo.y lo.z hi.x hi.y hi.z).map (fun p => ⟨p.1, p.2.1, p.2.2⟩)) ∧
    (Box3.mk lo hi).rectVertices = some ((rectVertices3 lo.x lo.y lo.z hi.x hi.y hi.z).map (fun p => ⟨p.1, p.2⟩)) ∧
    (Box2.mk lo2 hi2).rectVertices = some ((rectVertices2 lo2.x lo2.y hi2.x hi2.y).map (fun p => ⟨p.1, p.2⟩)) := by
  refine ⟨?_, ?_, ?_⟩ <;> simp [Box3.cubeVertices, Box3.rectVertices, Box2.rectVertices, cubeVertices3, rectVertices3, rectVertices2]

/-- the live registry `_PRIMITIVE_CLASSES`: only LINE and POINT have their own `bbox` (with the pinned bodies the model's
    `line` / `point` rules), every other registered type uses `Primitive.bbox` (the model's mesh / path / none rule) -/
theorem kernel_primitive_table :
    primitiveTable.all (fun r => r.2.2 == "base" || (r.1 == "LINE" && r.2.2 == "line") || (r.1 == "POINT" && r.2.2 == "point")) = true ∧
    (primitiveTable.filter (fun r => r.2.2 != "base")).map (·.1) = ["LINE", "POINT"] := by
  decide

/-- the loop bodies of `add_bezier4p` / `add_bezier3p` in the current source: connecting line unless the curve starts at the
    pen; LINE_TO iff both tests hold (cubic) resp. one of them (quadratic) - the rules of `addBezier4Step`/`addBezier3Step` -/
theorem kernel_add_bezier (near l1 l2 : Bool) :
    addBezier4Body near l1 l2 = (if near then [] else ["line_to(start)"]) ++
      (if l1 && l2 then ["line_to(end)"] else ["curve4_to(end, ctrl1, ctrl2)"]) ∧
    addBezier3Body near l1 l2 = (if near then [] else ["line_to(start)"]) ++
      (if l1 || l2 then ["line_to(end)"] else ["curve3_to(end, ctrl)"]) := by
  cases near <;> cases l1 <;> cases l2 <;> exact ⟨rfl, rfl⟩

end kernels3

end EzdxfVerif.Props.C15

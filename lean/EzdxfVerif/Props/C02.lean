/-
C02  Foreign and unknown content survives load -> save unchanged.

Property theorems over Model/Storage.lean (DXFTagStorage.load / DXFEntity.export_dxf for entity types without an
implementation; load_dxf_structure + stored sections; custom header properties; CLASS registration), on top of the proved
ExtendedTags model Model/XTags.lean.  Proofs: Lemmas/Storage.lean.  The order of the export steps and the constant tables come
from Gen/StorageTables.lean, regenerated from the current source on every run.
-/
import EzdxfVerif.Lemmas.Storage
import EzdxfVerif.Lemmas.StorageDoc
import EzdxfVerif.Lemmas.StorageIdem
import EzdxfVerif.Lemmas.StorageFinal

namespace EzdxfVerif.Props.C02
open EzdxfVerif.XTags EzdxfVerif.Storage EzdxfVerif.StorageDoc EzdxfVerif.Gen.StorageTables

/-! ## one entity / object of a type ezdxf does not implement -/

/-- load -> save of a well-formed tag sequence writes `canon t`: the same tags with the base-class structures in ezdxf's order.
    `alive` = which handles resolve in the entity database (needed for the extension dictionary pointer). -/
theorem storage_roundtrip (alive : V → Bool) (t : List Tag) (h : entityWF alive t = true) :
    roundtrip alive t = .ok (canon t) :=
  roundtrip_canon alive t h

/-- `canon` only rearranges: every tag occurs in `canon t` exactly as often as in `t` (for every t) -/
theorem canon_reorders_only (t : List Tag) : (canon t).Perm t := canon_perm t

/-- … and it is the identity when the base class already is in ezdxf's order
    (handle, application groups, extension dictionary, reactors ascending, owner) -/
theorem canon_identity (t : List Tag) (ho : entityOrdered t = true) : canon t = t := canon_ordered_id t ho

/-- tag for tag, in order: a well-formed entity in ezdxf's order is written back unchanged -/
theorem storage_identity (alive : V → Bool) (t : List Tag) (h : entityWF alive t = true)
    (ho : entityOrdered t = true) : roundtrip alive t = .ok t := by
  rw [storage_roundtrip alive t h, canon_identity t ho]

/-- only the base class is rearranged: everything from the first subclass / embedded-object / XDATA marker on is written
    verbatim and in order, the tags in front of it are a permutation of the input -/
theorem storage_tail_verbatim (alive : V → Bool) (t : List Tag) (h : entityWF alive t = true) :
    ∃ t0 pre pre' rest, t = t0 :: (pre ++ rest) ∧ roundtrip alive t = .ok (t0 :: (pre' ++ rest)) ∧ pre'.Perm pre
      ∧ (rest = [] ∨ ∃ x tl, rest = x :: tl ∧ isEndOfClass x = true) := by
  obtain ⟨t0, r, items, rest, rfl, -, -, hp, -, -⟩ := entityWF_unpack alive t h
  obtain ⟨hhead, hshape⟩ := parseItems_shape _ r none items rest hp
  have hflat := parseItems_flatten _ r none items rest hp
  simp only [List.nil_append] at hflat
  refine ⟨t0, items.flatMap Item.tags, canonItems items, rest, by rw [hflat], ?_, canonItems_perm _ items hshape, hhead⟩
  rw [storage_roundtrip alive _ h]
  simp only [canon, hp]
  rfl

/-- second cycle: the output of load -> save is a fixed point of load -> save, whatever the order of the input was -/
theorem storage_idempotent (alive : V → Bool) (t : List Tag) (h : entityWF alive t = true) :
    ∃ u, roundtrip alive t = .ok u ∧ roundtrip alive u = .ok u := by
  obtain ⟨hw, ho⟩ := canon_wf alive t h
  exact ⟨canon t, storage_roundtrip alive t h, storage_identity alive (canon t) hw ho⟩

/-- Session 3 (formerly the open statement `storage_idempotent_any`): load -> save is a PROJECTION.  For EVERY tag list the
    loader accepts - no `EntityWF`, no assumption on order, duplicates, foreign base-class tags, alternative closing tags,
    dangling extension dictionaries, invalid XDATA codes … - the output of the first cycle is a fixed point of load -> save.
    The only hypothesis: the reactor handles have pairwise different numeric values (`tieFree`; CPython orders equal keys of a
    set by hash, such inputs are outside the model).  Proof: `Loaded` is an invariant of every result of `load`
    (Lemmas/StorageIdem.lean); the written tags of a `Loaded` entity are re-read into an entity that differs only in normalised
    fields (handle / owner present, extension dictionary resolved, reactors sorted) and is written identically. -/
theorem storage_idempotent_any (alive : V → Bool) (t u : List Tag) (e : Ent) (hl : load t = .ok e)
    (htie : tieFree e = true) (h : roundtrip alive t = .ok u) : roundtrip alive u = .ok u :=
  roundtrip_idempotent_any alive t u e hl htie h

/-- After fix 4273c5184 (`Reactors.from_tags` ignores values that are no valid handles; `Gen.reactorsDropInvalid`, regenerated
    from the source, is true): export never fails after load - whatever the loader accepts is written, `Reactors.get` cannot
    raise ValueError (`badReactor`) any more.  Reverting the fix flips the regenerated flag and re-opens this theorem. -/
theorem export_never_fails_after_load (alive : V → Bool) (t : List Tag) (e : Ent) (h : load t = .ok e) :
    ∃ u, exportEnt alive e = .ok u ∧ roundtrip alive t = .ok u := by
  obtain ⟨u, hu⟩ := export_total rfl alive t e h
  exact ⟨u, hu, by simp only [roundtrip, h, hu]⟩

/-- the explicit normal form: every loaded entity satisfies `Loaded` (closed application-data groups with distinct names, each
    ending with the plain (102, "}"); distinct reactor handles; subclasses / embedded objects / XDATA sets split exactly where
    `ExtendedTags` splits them; XDATA sets with distinct appids and valid group codes only) -/
theorem loaded_normal_form (t : List Tag) (e : Ent) (h : load t = .ok e) : Loaded e := load_loaded t e h

/-- nothing is lost and nothing is invented -/
theorem storage_nothing_lost (alive : V → Bool) (t : List Tag) (h : entityWF alive t = true) :
    ∃ u, roundtrip alive t = .ok u ∧ u.Perm t :=
  ⟨canon t, storage_roundtrip alive t h, canon_reorders_only t⟩

/-- every handle (5, 105) and every pointer tag (320..369, 390..399, 480, 481, 1005: table from lldxf/types.py) is written
    with the same value, the same number of times -/
theorem pointers_kept (alive : V → Bool) (t : List Tag) (h : entityWF alive t = true) :
    ∃ u, roundtrip alive t = .ok u ∧ (u.filter isPointer).Perm (t.filter isPointer) :=
  ⟨canon t, storage_roundtrip alive t h, (canon_reorders_only t).filter isPointer⟩

/-! ## whole sections ezdxf does not manage -/

/-- Unknown sections of a well-formed file (distinct section names, body records are neither SECTION, ENDSEC nor EOF) are
    written once, verbatim (head record, body records, ENDSEC), in input order; THUMBNAILIMAGE is deleted by `Drawing._load`
    and the names in MANAGED_SECTIONS are re-exported by their section classes. -/
theorem sections_passthrough (secs : List Sec) (hwf : ∀ s ∈ secs, secWF s = true)
    (hn : (secs.map (fun s => s.name)).Nodup) :
    passSections (fileOf secs) = .ok ((secs.filter unmanaged).flatMap Sec.tags) :=
  passSections_file secs hwf hn

/-- … and they are written after all managed sections, directly in front of (0, EOF) -/
theorem sections_after_managed (managed : SectionPart → List Tag) (stored : List (List Rec)) :
    exportSections managed stored =
      managed .header ++ managed .classes ++ managed .tables ++ managed .blocks ++ managed .entities
        ++ managed .objects ++ managed .acdsdata ++ exportStored stored ++ [eofTag] := by
  simp [exportSections, sectionOrder]

/-! ## custom header properties and CLASS entries -/

private theorem customStack_groups (ps : List (V × V)) : customStack (customGroups ps) = ps.flatMap (fun p => [p.1, p.2]) := by
  induction ps with
  | nil => rfl
  | cons p r ih =>
    simp only [customGroups, List.flatMap_cons, customStack, List.cons_append, List.nil_append] at ih ⊢
    simp only [List.filter_cons, beq_self_eq_true, Bool.true_or, Bool.or_true, if_true, List.map_cons, ih]

private theorem pairUp_flat (ps : List (V × V)) : pairUp (ps.flatMap (fun p => [p.1, p.2])) = ps := by
  induction ps with
  | nil => rfl
  | cons p r ih => simp [pairUp, ih]

private theorem customStack_append (a b : List (V × V)) : customStack (a ++ b) = customStack a ++ customStack b := by
  simp [customStack]

private theorem customStack_none (a : List (V × V))
    (h : ∀ g ∈ a, g.1 ≠ .str sCustomTag ∧ g.1 ≠ .str sCustomProp) : customStack a = [] := by
  simp only [customStack, List.map_eq_nil_iff, List.filter_eq_nil_iff]
  intro g hg
  have := h g hg
  simp [this.1, this.2]

/-- the $CUSTOMPROPERTYTAG / $CUSTOMPROPERTY pairs of a header are read back in order, wherever they stand between the
    other header variables -/
theorem custom_props_roundtrip (pre post : List (V × V)) (ps : List (V × V))
    (h1 : ∀ g ∈ pre, g.1 ≠ .str sCustomTag ∧ g.1 ≠ .str sCustomProp)
    (h2 : ∀ g ∈ post, g.1 ≠ .str sCustomTag ∧ g.1 ≠ .str sCustomProp) :
    customLoad (pre ++ customGroups ps ++ post) = ps := by
  simp only [customLoad, customStack_append, customStack_none pre h1, customStack_none post h2, List.nil_append,
    List.append_nil, customStack_groups, pairUp_flat]

private theorem customLoop_none (ps : List (V × V)) (l : List V) (hl : V.str sLastSavedBy ∉ l) :
    l.flatMap (fun n => if n == V.str sLastSavedBy then customGroups ps else []) = [] := by
  simp only [List.flatMap_eq_nil_iff]
  intro n hn
  have : n ≠ V.str sLastSavedBy := fun e => hl (e ▸ hn)
  simp [this]

/-- they are written once, right behind $LASTSAVEDBY, when that variable is exported once (any target version) -/
theorem custom_props_written (r2004 : Bool) (a b : List V) (ps : List (V × V))
    (ha : V.str sLastSavedBy ∉ a) (hb : V.str sLastSavedBy ∉ b) :
    customWritten r2004 (a ++ [.str sLastSavedBy] ++ b) ps = customGroups ps := by
  have hc : (a ++ [V.str sLastSavedBy] ++ b).contains (V.str sLastSavedBy) = true := by simp
  simp only [customWritten, hc, if_true, List.append_nil, List.flatMap_append, customLoop_none ps a ha,
    customLoop_none ps b hb]
  simp

/-- without $LASTSAVEDBY among the exported variables (an application that does not write it; every R2000 file) the statement
    behind the loop writes them for a target version >= R2004 (fix 4b8cbec85) and nothing for R2000 (permitted version loss:
    the two variables are R2004 header variables) -/
theorem custom_props_written_without_lastsavedby (r2004 : Bool) (exported : List V) (ps : List (V × V))
    (h : V.str sLastSavedBy ∉ exported) :
    customWritten r2004 exported ps = if r2004 then customGroups ps else [] := by
  have hc : exported.contains (V.str sLastSavedBy) = false := by
    rw [Bool.eq_false_iff]; intro hm; exact h (List.contains_iff_mem.mp hm)
  simp only [customWritten, hc, customLoop_none ps exported h, List.nil_append, customFallback]
  simp

/-- … hence custom properties are lost exactly when the target version is older than R2004 -/
theorem custom_props_lost_iff (r2004 : Bool) (exported : List V) (ps : List (V × V))
    (h : V.str sLastSavedBy ∉ exported) (hp : ps ≠ []) :
    customWritten r2004 exported ps = [] ↔ r2004 = false := by
  rw [custom_props_written_without_lastsavedby r2004 exported ps h]
  cases r2004 with
  | false => simp
  | true =>
    cases ps with
    | nil => exact absurd rfl hp
    | cons p r => simp [customGroups]

/-- `TableHead.export_dxf` (fix ba5d636de) writes the base-class structures of a (0, TABLE) record in the order of
    `export_base_class` and the XDATA at the end: statement order extracted from the current source -/
theorem table_head_writes_all_structures :
    tableHeadOrder.filter (fun p => p == .handle || p == .appdata || p == .xdict || p == .reactors || p == .owner)
        = [.handle, .appdata, .xdict, .reactors, .owner]
      ∧ baseOrder = [.handle, .appdata, .xdict, .reactors, .owner]
      ∧ tableHeadOrder.getLast? = some .xdata := by
  decide

/-- XRECORD payload (fix d4f17a436): every payload without an embedded-object or XDATA marker - any group codes, group code 100
    included - is kept completely, together with the cloning flag (an integer 0..5; other values are replaced by the default 1
    by the attribute validator) -/
theorem xrecord_payload_kept (m f : Tag) (payload : List Tag) (hm : m.code = 100) (hf : f.code = 280)
    (hp : ∀ t ∈ payload, isEO t = false ∧ t.code ≠ 1001) :
    xrecordPayload xrecordKeepsLaterSubclasses
        (collectGroups (fun t => t.code == 100) isEndOfClass (m :: f :: payload)).1 = some (fixCloning f.val, payload) := by
  have hfl := collectGroups_flatten (fun t => t.code == 100) isEndOfClass (m :: f :: payload)
  have hrem : (collectGroups (fun t => t.code == 100) isEndOfClass (m :: f :: payload)).2 = [] := by
    rcases collectGroups_rem (fun t => t.code == 100) isEndOfClass (m :: f :: payload) with e | ⟨x, tl, e1, e2, e3⟩
    · exact e
    · exfalso
      simp only [beq_eq_false_iff_ne, ne_eq] at e2
      rcases e3 with e3 | e3
      · rw [e3] at e1; cases e1; exact e2 hm
      · have hx : x ∈ m :: f :: payload := by
          rw [← hfl, e1]; simp
        simp only [List.mem_cons] at hx
        simp only [isEndOfClass, Bool.or_eq_true, beq_iff_eq] at e3
        rcases hx with rfl | rfl | hx
        · exact e2 hm
        · rcases e3 with (e3 | e3) | e3
          · omega
          · simp [isEO, hf] at e3
          · omega
        · have := hp x hx
          rcases e3 with (e3 | e3) | e3
          · exact e2 e3
          · rw [this.1] at e3; cases e3
          · exact this.2 e3
  rw [hrem, List.append_nil] at hfl
  -- the first subclass starts with the marker and the cloning flag
  have hne : isEndOfClass f = false := by
    simp [isEndOfClass, isEO, hf]
  rw [collectGroups] at hfl ⊢
  simp only [hm, beq_self_eq_true, if_true, List.takeWhile_cons, List.dropWhile_cons, hne, Bool.not_false] at hfl ⊢
  simp only [xrecordPayload, hf, beq_self_eq_true, if_true, xrecordKeepsLaterSubclasses, List.drop_succ_cons, List.drop_zero]
  simp only [List.flatten_cons, List.cons_append, List.cons.injEq, true_and] at hfl
  rw [hfl]

private theorem register_append (acc a b : List (V × V)) : register acc (a ++ b) = register (register acc a) b := by
  induction a generalizing acc with
  | nil => rfl
  | cons c r ih =>
    simp only [List.cons_append, register]
    split <;> exact ih _

private theorem register_prefix (acc cs : List (V × V)) : ∃ extra, register acc cs = acc ++ extra := by
  induction cs generalizing acc with
  | nil => exact ⟨[], by simp [register]⟩
  | cons c r ih =>
    simp only [register]
    split
    · exact ih acc
    · obtain ⟨e, he⟩ := ih (acc ++ [c])
      exact ⟨c :: e, by rw [he]; simp⟩

private theorem register_nodup (acc cs : List (V × V)) (h : (acc ++ cs).Nodup) : register acc cs = acc ++ cs := by
  induction cs generalizing acc with
  | nil => simp [register]
  | cons c r ih =>
    have hc : acc.contains c = false := by
      rw [Bool.eq_false_iff]
      intro hm
      rw [List.contains_iff_mem] at hm
      rw [List.nodup_append] at h
      exact h.2.2 c hm c List.mem_cons_self rfl
    simp only [register, hc, Bool.false_eq_true, if_false]
    rw [ih (acc ++ [c]) (by simpa [List.append_assoc] using h)]
    simp

/-- CLASS entries with pairwise different (name, cpp_class_name) keys are all kept, in file order, in front of the classes
    `add_required_classes` registers at save time -/
theorem classes_kept (cs req : List (V × V)) (h : cs.Nodup) : ∃ extra, register [] (cs ++ req) = cs ++ extra := by
  rw [register_append, register_nodup [] cs (by simpa using h)]
  simpa using register_prefix cs req

/-! ## the explicit exclusions: what happens outside `EntityWF` (each replayed on the real code by the harness) -/

open Ex

/-- duplicate XDATA appid: the later set wins, at the position of the first (Python dict) -> the first set is LOST.
    Outside the quantifier (an entity holds at most one XDATA set per appid). -/
theorem dup_xdata_appid_counterexample :
    entityWF allAlive dupXdata = false ∧ (roundtrip allAlive dupXdata).toOption = some dupXdataOut := by
  decide +kernel

/-- a base-class tag other than handle, owner and application groups is DROPPED by `export_base_class`.
    Outside the quantifier for unknown types (DXF defines no other tags in front of the first subclass marker). -/
theorem foreign_base_tag_counterexample :
    entityWF allAlive foreignBase = false ∧ (roundtrip allAlive foreignBase).toOption = some foreignBaseOut := by
  decide +kernel

/-- an application group closed by the alternative tag (102, "APP}") gets an additional (102, "}") on every save-cycle-one
    (`AppData.add`); the result is a fixed point -/
theorem alt_close_counterexample :
    entityWF allAlive altClose = false ∧ (roundtrip allAlive altClose).toOption = some altCloseOut
      ∧ (roundtrip allAlive altCloseOut).toOption = some altCloseOut := by
  decide +kernel

/-- an extension dictionary pointer whose target is not in the file is dropped (`ExtensionDict.load_resources`) -/
theorem xdict_unresolved_counterexample :
    entityWF noneAlive xdictEnt = false ∧ (roundtrip noneAlive xdictEnt).toOption = some bareEnt
      ∧ (roundtrip allAlive xdictEnt).toOption = some xdictEnt := by
  decide +kernel

/-- an empty reactors group is dropped (`if self.reactors:`) -/
theorem empty_reactors_counterexample :
    entityWF allAlive emptyReactors = false ∧ (roundtrip allAlive emptyReactors).toOption = some bareEnt := by
  decide +kernel

/-- two application groups with the same name: the first one is LOST -/
theorem dup_appdata_key_counterexample :
    entityWF allAlive dupAppKey = false ∧ (roundtrip allAlive dupAppKey).toOption = some dupAppKeyOut := by
  decide +kernel

/-- repeated handle / owner tags: one of each survives (the scan of `DXFNamespace.__init__` stops when it has both) -/
theorem two_handles_counterexample :
    entityWF allAlive twoHandles = false ∧ (roundtrip allAlive twoHandles).toOption = some twoHandlesOut := by
  decide +kernel

/-- without a handle the stand-alone export writes the text "None" (inside a document the entity database assigns one) -/
theorem no_handle_counterexample :
    entityWF allAlive noHandle = false ∧ (roundtrip allAlive noHandle).toOption = some noHandleOut := by
  decide +kernel

/-- THUMBNAILIMAGE is deleted by `Drawing._load` (deliberate: the preview would be stale), the managed OBJECTS section is not a
    stored section, FOO and ZED pass through in order -/
theorem thumbnail_dropped_counterexample : (passSections fileRecs).toOption = some fileStoredOut := by
  decide +kernel

/-- two sections of the same name: the section dict keeps the second one only.  Outside the quantifier (not a valid file). -/
theorem dup_section_name_counterexample : (passSections dupSection).toOption = some dupSectionOut := by
  decide +kernel

/-! ## session 3: whole files (Model/StorageDoc.lean: factory dispatch, entity linker, ENTITIES / OBJECTS, export_sections) -/

/-- The entity linker neither links nor swallows a record of a type ezdxf does not implement: the entities of the entity space
    whose main record is unknown are exactly the unknown records of the section, in file order, each without sub-records.
    (Which types count as unknown is `Gen.registeredTypes`, regenerated from the live `factory.ENTITY_CLASSES`.) -/
theorem linker_keeps_unknown (cfg : DocCfg) (recs : List Rec) (gs : List (Rec × List Rec))
    (h : linkRecs cfg recs none = .ok gs) :
    gs.filter (fun g => isUnknown g.1) = (recs.filter isUnknown).map (fun r => (r, [])) :=
  linkRecs_unknown cfg recs none gs (by intro p ch e hc; cases hc) h

/-- ENTITIES section: load -> save writes the entities of the modelspace, then those of the active paperspace, each group in
    file order; an unknown record whose tags are EntityWF is written as `canon r`, an implemented one as its class writes it -/
theorem entities_passthrough (cfg : DocCfg) (recs : List Rec) (gs : List (Rec × List Rec))
    (hl : linkRecs cfg recs none = .ok gs)
    (hwf : ∀ r ∈ recs, isUnknown r = true → entityWF cfg.alive r = true) :
    entitiesPass cfg recs = .ok ((gs.filter (fun g => !pspOf cfg g)).flatMap (written cfg)
      ++ (gs.filter (fun g => pspOf cfg g)).flatMap (written cfg)) :=
  entitiesPass_ok cfg recs gs hl hwf

/-- … hence the unknown entities of the written ENTITIES section are the unknown records of the input: first those of the
    modelspace, then those of the active paperspace (owner handle, paperspace flag as fall back), each part in file order -/
theorem entities_unknown_order (cfg : DocCfg) (recs : List Rec) (gs : List (Rec × List Rec))
    (hl : linkRecs cfg recs none = .ok gs) :
    ((gs.filter (fun g => !pspOf cfg g)) ++ (gs.filter (fun g => pspOf cfg g))).filter (fun g => isUnknown g.1)
      = (((recs.filter isUnknown).filter (fun r => !unknownPsp cfg r))
          ++ ((recs.filter isUnknown).filter (fun r => unknownPsp cfg r))).map (fun r => (r, [])) := by
  have h := linker_keeps_unknown cfg recs gs hl
  have e1 : ∀ (p : Bool → Bool), (gs.filter (fun g => p (pspOf cfg g))).filter (fun g => isUnknown g.1)
      = ((recs.filter isUnknown).filter (fun r => p (unknownPsp cfg r))).map (fun r => (r, [])) := by
    intro p
    have hc : (gs.filter (fun g => p (pspOf cfg g))).filter (fun g => isUnknown g.1)
        = (gs.filter (fun g => isUnknown g.1)).filter (fun g => p (unknownPsp cfg g.1)) := by
      simp only [List.filter_filter]
      apply List.filter_congr
      intro g _
      by_cases hu : isUnknown g.1 = true
      · simp [pspOf, hu]
      · simp only [Bool.not_eq_true] at hu; simp [hu]
    rw [hc, h, List.filter_map]
    rfl
  rw [List.filter_append, e1 (fun b => !b), e1 (fun b => b), List.map_append]

/-- the layout decision for a well-formed unknown entity in terms of its input tags: the value of its (single) owner tag is
    compared with the handles of *Model_Space and *Paper_Space; otherwise the first (67, flag) of the AcDbEntity subclass decides -/
theorem unknown_layout_spec (cfg : DocCfg) (r : Rec) (h : entityWF cfg.alive r = true) (hty : recType r ≠ .str sAcDbEntity) :
    ∃ t0 tl items rest, r = t0 :: tl ∧ parseItems (hcOf t0.val) tl none = some (items, rest)
      ∧ unknownPsp cfg r = (if oOf items == some cfg.msp then false else if oOf items == some cfg.psp then true
          else paperFlag (collectGroups (fun t => t.code == 100) isEndOfClass rest).1) :=
  unknownPsp_spec cfg r h hty

/-- OBJECTS section: every record is written in file order (unknown: `canon r`), behind them the objects ezdxf creates itself;
    since fix 42c45156c the objects owned by a graphical entity without layout are skipped (`cfg.skipObject`; never the case
    for an object whose owner chain ends at a table entry, a dictionary or an entity that has an owner) -/
theorem objects_passthrough (cfg : DocCfg) (recs : List Rec) (appended : List Tag)
    (hwf : ∀ r ∈ recs, isUnknown r = true → entityWF cfg.alive r = true) :
    objectsPass cfg recs appended
      = .ok ((recs.filter (fun r => !cfg.skipObject r)).flatMap (fun r => written cfg (r, [])) ++ appended) :=
  objectsPass_ok cfg recs appended hwf

/-- BLOCKS section: a section made of named BLOCK … ENDBLK definitions (content without BLOCK / ENDBLK; the linker accepts it)
    is written in the order of the BLOCK_RECORD table (`order`): BLOCK, the entities of the definition in file order (unknown:
    `canon r`; nothing for *Model_Space / the active *Paper_Space, whose entities live in ENTITIES), ENDBLK -/
theorem blocks_passthrough (cfg : DocCfg) (bc : BlockCfg) (order : List V) (orphan : V → List Tag) (recs : List Rec)
    (bs : List BlockDef) (hl : linkRecs cfg recs none = .ok (bs.flatMap BlockDef.groups)) (hb : ∀ d ∈ bs, d.WF bc)
    (hwf : ∀ d ∈ bs, ∀ g ∈ d.content, isUnknown g.1 = true → entityWF cfg.alive g.1 = true) :
    blocksPass cfg bc order orphan recs = .ok (order.flatMap (blockWritten cfg bc orphan bs)) :=
  blocksPass_ok cfg bc order orphan recs bs hl hb hwf

/-- Whole file: `ezdxf.read` -> `doc.write` of a well-formed file (distinct section names; a HEADER of (9, $name), value pairs;
    CLASSES holds standard entries with distinct (name, C++ class) keys; the unknown records of BLOCKS, ENTITIES and OBJECTS are
    EntityWF; the entity linker accepts BLOCKS and ENTITIES; BLOCKS is made of named definitions; ACDSDATA records have the
    documented form) writes, in this order: HEADER (`headerPass`: known variables by priority, custom properties - see
    `header_custom_props`), CLASSES (the entries of the file verbatim, then the classes ezdxf registers), TABLES, BLOCKS, ENTITIES,
    OBJECTS with the unknown entities / objects as stated above, ACDSDATA verbatim (when it holds a record), then every unknown
    section verbatim in input order, then EOF.  `other .tables` = output of TABLES (C01 / C04). -/
theorem file_passthrough (cfg : DocCfg) (bc : BlockCfg) (order : List V) (orphan : V → List Tag) (ver : Nat) (verText : V)
    (extra : List ClassE) (other : SectionPart → List Tag) (appended : List Tag) (secs : List Sec)
    (hwf : ∀ s ∈ secs, secWF s = true) (hn : (secs.map (fun s => s.name)).Nodup)
    (groups : List (V × Tag)) (hh : (headerOf secs).bind headerGroupsOf = some groups)
    (es : List StdClass) (hc : bodyOf secs sCLASSES = es.map (fun c => c.record (decide (1018 ≤ ver))))
    (hk : (es.map (fun c => (c.name, c.cpp))).Nodup)
    (hA : ∀ r ∈ bodyOf secs sACDSDATA, acdsRecWF r = true)
    (bs : List BlockDef) (hlb : linkRecs cfg (bodyOf secs sBLOCKS) none = .ok (bs.flatMap BlockDef.groups))
    (hb : ∀ d ∈ bs, d.WF bc)
    (hB : ∀ d ∈ bs, ∀ g ∈ d.content, isUnknown g.1 = true → entityWF cfg.alive g.1 = true)
    (gs : List (Rec × List Rec)) (hl : linkRecs cfg (bodyOf secs sENTITIES) none = .ok gs)
    (hE : ∀ r ∈ bodyOf secs sENTITIES, isUnknown r = true → entityWF cfg.alive r = true)
    (hO : ∀ r ∈ bodyOf secs sOBJECTS, isUnknown r = true → entityWF cfg.alive r = true) :
    loadSaveFile cfg bc order orphan ver verText extra other appended (fileOf secs) = .ok
      ((secHead sHEADER ++ headerTagsOf ver (headerPass ver verText cfg.castHeader groups) ++ [endsecTag])
        ++ (secHead sCLASSES ++ (es.flatMap (fun c => c.record (decide (1018 ≤ ver)))
              ++ classesTail (decide (1018 ≤ ver)) es extra) ++ [endsecTag])
        ++ other .tables
        ++ (secHead sBLOCKS ++ order.flatMap (blockWritten cfg bc orphan bs) ++ [endsecTag])
        ++ (secHead sENTITIES ++ ((gs.filter (fun g => !pspOf cfg g)).flatMap (written cfg)
              ++ (gs.filter (fun g => pspOf cfg g)).flatMap (written cfg)) ++ [endsecTag])
        ++ (secHead sOBJECTS ++ (((bodyOf secs sOBJECTS).filter (fun r => !cfg.skipObject r)).flatMap
              (fun r => written cfg (r, [])) ++ appended) ++ [endsecTag])
        ++ acdsWritten secs ++ (secs.filter unmanaged).flatMap Sec.tags ++ [eofTag]) :=
  loadSaveFile_ok cfg bc order orphan ver verText extra other appended secs hwf hn groups hh es hc hk hA bs hlb hb hB gs hl hE hO

/-- the types the theorems above treat as implemented are the keys of the live factory table; the sub-entity types and the
    main types of the linker are among them (otherwise the linker could swallow an unknown record) -/
theorem linker_types_registered :
    (sSEQEND ∈ registeredTypes ∧ sSEQEND ∉ storageTypes) ∧ ∀ p ∈ linkedEntities,
      (p.1 ∈ registeredTypes ∧ p.1 ∉ storageTypes) ∧ (p.2 ∈ registeredTypes ∧ p.2 ∉ storageTypes) :=
  ⟨seqend_registered, linked_registered⟩

/-! ## session 3: CLASSES section (DXFClass.load_tags / export_dxf, ClassesSection.load / register / export_dxf) -/

/-- one CLASS entry in the standard form is read and written back tag for tag (R2004+ with, R2000 without instance count) -/
theorem class_entry_roundtrip (c : StdClass) (r2004 : Bool) :
    (classLoad (c.record r2004)).map (classExport r2004) = some (c.record r2004) := by
  rw [classLoad_std, Option.map_some, classExport_std]

/-- CLASS entries with pairwise different (name, C++ class name) keys survive load -> save verbatim and in file order, in front
    of the classes `add_required_classes` registers at save time (`extra`); the instance counts are NOT recomputed -/
theorem classes_section_passthrough (r2004 : Bool) (es : List StdClass) (extra : List ClassE)
    (hk : (es.map (fun c => (c.name, c.cpp))).Nodup) :
    ∃ tail, classesPass r2004 (es.map (fun c => c.record r2004)) extra
      = some (es.flatMap (fun c => c.record r2004) ++ tail) :=
  classesPass_std r2004 es extra hk

open EzdxfVerif.Storage.Ex in
/-- CLASS entries outside the standard form (replayed on the real code, E1): a tag with another group code, an application
    group and XDATA are not kept; of a repeated group code the last value wins; an entry without instance count gets (91, 0)
    in a R2004+ file and a R2000 file never carries one (permitted version loss) -/
theorem class_entry_counterexamples :
    (classLoad [T 0 "CLASS", T 1 "A", T 2 "B", T 3 "C", T 4 "foreign", T 90 "1", T 90 "7", T 102 "{ACME", T 1 "x", T 102 "}",
        T 280 "0", T 281 "1", T 1001 "ACAD", T 1000 "x"]).map (classExport true)
      = some [T 0 "CLASS", T 1 "A", T 2 "B", T 3 "C", T 90 "7", T 91 "0", T 280 "0", T 281 "1"]
    ∧ (classLoad [T 0 "CLASS", T 1 "A", T 2 "B", T 3 "C", T 90 "1", T 91 "5", T 280 "0", T 281 "1"]).map (classExport false)
      = some [T 0 "CLASS", T 1 "A", T 2 "B", T 3 "C", T 90 "1", T 280 "0", T 281 "1"] := by
  decide +kernel

/-- a class ezdxf registers at save time (`add_required_classes` -> `add_class` -> `register`) NEVER replaces or changes the entry
    of the file with the same (name, C++ class name): a MATERIAL entry with a foreign application name and other flags is
    written as it is, ezdxf's own MATERIAL definition is not written (instance of `classes_section_passthrough` with the
    regenerated `CLASS_DEFINITIONS` / `REQUIRED_CLASSES`; replayed on the real code, E1) -/
theorem required_class_does_not_replace :
    let mine : StdClass := ⟨Ex.S "MATERIAL", Ex.S "AcDbMaterial", Ex.S "AcmeApp|1.0", Ex.S "7", Ex.S "12", Ex.S "1", Ex.S "1"⟩
    (classesPass true [mine.record true] (requiredExtra true)).map (fun ts => (ts.take 8, ts.filter (fun t => t == ⟨1, Ex.S "MATERIAL"⟩)))
      = some (mine.record true, [⟨1, Ex.S "MATERIAL"⟩])
    ∧ (requiredExtra true).any (fun c => c.name == some (Ex.S "MATERIAL") && c.cpp == some (Ex.S "AcDbMaterial")) = true := by
  decide +kernel

/-- the type cast of a loaded entity (`DXFEntity.shallow_copy`, used by `Polyline.cast` for polyface meshes and polymeshes) shares
    every container of foreign content with the source entity: extension dictionary, reactors, application groups, XDATA
    (`Gen.shallowCopyFields`, regenerated from the statements of the function), and POLYLINE is the only type with a cast -/
theorem cast_shares_foreign_containers :
    ([Ex.S "extension_dict", Ex.S "reactors", Ex.S "appdata", Ex.S "xdata"].all fun f =>
        match f with | .str n => shallowCopyFields.contains n | .ref _ => false) = true
    ∧ castTypes = [[80, 79, 76, 89, 76, 73, 78, 69]] := by
  decide +kernel

/-! ## session 3: HEADER section (load_tags, header_vars_by_priority, export_dxf with the version gate) -/

/-- the header groups as `headerGroupsOf` delivers them, with the value tags reduced to their values -/
def groupVals (groups : List (V × Tag)) : List (V × V) := groups.map (fun g => (g.1, g.2.val))

/-- custom property pairs as header groups with their value tags (group code 1) -/
def customGroupsT (ps : List (V × V)) : List (V × Tag) :=
  ps.flatMap (fun p => [(.str sCustomTag, ⟨1, p.1⟩), (.str sCustomProp, ⟨1, p.2⟩)])

private theorem groupVals_custom (ps : List (V × V)) : groupVals (customGroupsT ps) = customGroups ps := by
  induction ps with
  | nil => rfl
  | cons p r ih =>
    simp only [groupVals, customGroupsT, customGroups, List.flatMap_cons, List.map_append, List.map_cons, List.map_nil] at ih ⊢
    rw [ih]

/-- Custom properties over the complete header model, with NO assumption about $LASTSAVEDBY and for ANY value conversion
    `cast` (fix 16b0d709b): load -> save for target version `ver` writes exactly the loaded custom property pairs (once, in
    order) iff `ver` >= R2004, and none for older versions (permitted version loss).  Uses `Gen.customFallback` and the
    version window of $LASTSAVEDBY in `Gen.headerVarMap`. -/
theorem header_custom_props (ver : Nat) (verText : V) (cast : Nat → Tag → Option V) (groups : List (V × Tag)) :
    (headerPass ver verText cast groups).filter (fun g => isCustomName g.1)
      = if 1018 ≤ ver then customGroups (customLoad (groupVals groups)) else [] :=
  (headerExport_parts ver verText _ (customLoad (groupVals groups))
    (castVars_keys ver cast _ (headerVars_keys groups [] List.nodup_nil))).1

/-- … so a header whose custom properties are well-formed pairs keeps them for R2004+ wherever they stand -/
theorem header_custom_props_roundtrip (ver : Nat) (hv : 1018 ≤ ver) (verText : V) (cast : Nat → Tag → Option V)
    (pre post : List (V × Tag)) (ps : List (V × V))
    (h1 : ∀ g ∈ pre, g.1 ≠ .str sCustomTag ∧ g.1 ≠ .str sCustomProp)
    (h2 : ∀ g ∈ post, g.1 ≠ .str sCustomTag ∧ g.1 ≠ .str sCustomProp) :
    (headerPass ver verText cast (pre ++ customGroupsT ps ++ post)).filter (fun g => isCustomName g.1) = customGroups ps := by
  have hg : groupVals (pre ++ customGroupsT ps ++ post) = groupVals pre ++ customGroups ps ++ groupVals post := by
    simp only [groupVals, List.map_append]
    rw [show (customGroupsT ps).map (fun g => (g.1, g.2.val)) = customGroups ps from groupVals_custom ps]
  rw [header_custom_props, hg, custom_props_roundtrip (groupVals pre) (groupVals post) ps
    (by intro g hg'; obtain ⟨q, hq, rfl⟩ := List.mem_map.mp hg'; exact h1 q hq)
    (by intro g hg'; obtain ⟨q, hq, rfl⟩ := List.mem_map.mp hg'; exact h2 q hq), if_pos hv]

/-- … and the custom property tags inside the written HEADER section of a R2004+ file are exactly those of the input, in order
    (tag level: (9, $CUSTOMPROPERTYTAG), (1, name), (9, $CUSTOMPROPERTY), (1, value)) -/
theorem file_custom_props (ver : Nat) (hv : 1018 ≤ ver) (verText : V) (cast : Nat → Tag → Option V)
    (pre post : List (V × Tag)) (ps : List (V × V))
    (h1 : ∀ g ∈ pre, g.1 ≠ .str sCustomTag ∧ g.1 ≠ .str sCustomProp)
    (h2 : ∀ g ∈ post, g.1 ≠ .str sCustomTag ∧ g.1 ≠ .str sCustomProp) :
    headerTagsOf ver ((headerPass ver verText cast (pre ++ customGroupsT ps ++ post)).filter (fun g => isCustomName g.1))
      = ps.flatMap (fun p => [⟨9, .str sCustomTag⟩, ⟨1, p.1⟩, ⟨9, .str sCustomProp⟩, ⟨1, p.2⟩]) := by
  rw [header_custom_props_roundtrip ver hv verText cast pre post ps h1 h2]
  induction ps with
  | nil => rfl
  | cons p r ih =>
    simp only [customGroups, headerTagsOf, List.flatMap_cons, List.cons_append, List.nil_append] at ih ⊢
    rw [ih]
    simp [headerCode, isCustomName]

/-- The header variables: every variable of the file that is in HEADER_VAR_MAP, whose version window contains the target
    version and whose value has the required group code or can be converted to it (`castGroup`, fix 16b0d709b) is written
    exactly once with its (last, converted) value, $ACADVER with the target version; variables outside HEADER_VAR_MAP
    (finding F24), outside their window or with an inconvertible value are not written. -/
theorem header_vars_written (ver : Nat) (verText : V) (cast : Nat → Tag → Option V) (groups : List (V × Tag)) :
    ((headerPass ver verText cast groups).filter (fun g => !isCustomName g.1)).Perm
      ((dictSet ((headerVars groups []).filterMap (castGroup ver cast)) (.str sACADVER) verText).filter
        (fun p => inWindow ver p.1)) :=
  (headerExport_parts ver verText _ (customLoad (groupVals groups))
    (castVars_keys ver cast _ (headerVars_keys groups [] List.nodup_nil))).2

/-- a value that already has the required group code is never converted or dropped -/
theorem header_value_kept (ver : Nat) (cast : Nat → Tag → Option V) (name : V) (t : Tag)
    (h : t.code = headerCode ver name) : castGroup ver cast (name, t) = some (name, t.val) := by
  simp [castGroup, h]

/-- F24 as a theorem: a variable that is not in HEADER_VAR_MAP is never written -/
theorem header_unknown_var_dropped (ver : Nat) (verText : V) (cast : Nat → Tag → Option V) (groups : List (V × Tag))
    (name : V) (hn : varDef name = none) (hc : isCustomName name = false) :
    name ∉ (headerPass ver verText cast groups).map (·.1) := by
  intro hm
  obtain ⟨g, hg, rfl⟩ := List.mem_map.mp hm
  have hf : g ∈ (headerPass ver verText cast groups).filter (fun g => !isCustomName g.1) := by
    simp [List.mem_filter, hg, hc]
  have := ((header_vars_written ver verText cast groups).mem_iff.mp hf)
  simp only [List.mem_filter, inWindow, hn] at this
  exact absurd this.2 (by simp)

/-! ## session 3: ACAD_PROXY_ENTITY and ACDSDATA (binary chunks and proxy data as opaque tags) -/

/-- ACAD_PROXY_ENTITY: when `DXFGraphic` writes the AcDbEntity subclass back as it was read (`gfx = s1`), a well-formed proxy
    entity with its two subclasses (AcDbEntity, AcDbProxyEntity with all 90/91/92/93/95/310 proxy data) is written as `canon t`,
    exactly like an entity ezdxf does not implement: proxy graphic and entity data are kept verbatim -/
theorem proxy_entity_roundtrip (alive : V → Bool) (t : List Tag) (h : entityWF alive t = true) (e : Ent)
    (hl : load t = .ok e) (s1 s2 : List Tag) (hs : e.subs = [s1, s2]) (he : e.embedded = []) :
    exportProxy alive s1 e = .ok (canon t) := by
  rw [exportProxy_eq_exportEnt alive e s1 s2 hs he]
  have := storage_roundtrip alive t h
  simp only [roundtrip, hl] at this
  exact this

/-- an ACDSDATA section with at least one ACDSRECORD whose records have the documented form (type tag, flags tag, sections
    starting with a (2, name) tag; other record types arbitrary) is written verbatim: head, records in order, ENDSEC -/
theorem acdsdata_passthrough (head : Rec) (recs : List Rec) (h : ∀ r ∈ recs, acdsRecWF r = true)
    (hr : ∃ r ∈ recs, recType r = .str sACDSRECORD) :
    acdsPass head recs = some (head ++ recs.flatten ++ [endsecTag]) :=
  acdsPass_wf head recs h hr

open EzdxfVerif.Storage.Ex EzdxfVerif.StorageDoc.Ex in
/-- outside the documented forms (each replayed on the real code by the harness, stream E2):
    a third subclass of an ACAD_PROXY_ENTITY is not written; an ACDSDATA section without ACDSRECORD is not written at all
    ("Empty ACDSDATA section is not required"); tags between the flags tag of an ACDSRECORD and its first (2, name) tag are
    dropped by `group_tags(…, splitcode=2)`; an unknown record between POLYLINE and SEQEND is a DXFStructureError; an entity
    outside BLOCK … ENDBLK in the BLOCKS section and the content of a BLOCK without ENDBLK are ignored -/
theorem document_level_counterexamples :
    ((load proxyThree).toOption.bind fun e => (exportProxy allAlive [T 100 "AcDbEntity", T 8 "0"] e).toOption) = some proxyThreeOut
    ∧ acdsPass acdsHead [acdsSchema] = some []
    ∧ acdsPass acdsHead [acdsStray] = some (acdsHead ++ acdsStrayOut ++ [endsecTag])
    ∧ (match entitiesPass exCfg [polylineRec, bareEnt, seqendRec] with | .error .link => true | _ => false) = true
    ∧ (blocksPass exCfg exBc [S "A", S "B", S "C"] (fun _ => []) strayBlocks).toOption = some strayBlocksOut := by
  decide +kernel

/-! ## session 3: implemented classes with the generic load / export; XRECORD end to end -/

/-- For ANY implemented entity class that keeps `DXFEntity.load_tags / export_dxf` (`Gen.genericTypes`: 89 of the 92 registered
    types, incl. LINE, MTEXT, INSERT, LAYER, DICTIONARY …): the foreign structures of a well-formed record - application groups,
    extension dictionary, reactors in the base class, every XDATA set - are written back, the base class in `canon` order, the
    XDATA verbatim behind whatever the class writes as its body (`body`, subject of C01) -/
theorem known_entity_structures_kept (alive : V → Bool) (t : List Tag) (h : entityWF alive t = true) (body : List Tag) :
    ∃ t0 r items rest e, t = t0 :: r ∧ parseItems (hcOf t0.val) r none = some (items, rest) ∧ load t = .ok e
      ∧ exportGeneric alive body e = .ok (t0 :: canonItems items ++ body ++ (restXdata rest).flatten) :=
  generic_structures_kept alive t h body

/-- every registered type is generic, a tag storage (ACAD_TABLE: the class is a `DXFTagStorage`, treated like an unknown type)
    or one of exactly two special ones with their own models: CLASS (`classLoad` / `classExport`) and TABLE
    (`Gen.tableHeadOrder`); a newly registered class that overrides the generic export changes the regenerated tables and
    breaks this theorem -/
theorem generic_types_cover :
    registeredTypes.all (fun n => genericTypes.contains n || specialTypes.contains n || storageTypes.contains n) = true
      ∧ specialTypes = [sCLASS, [84, 65, 66, 76, 69]]
      ∧ storageTypes = [[65, 67, 65, 68, 95, 84, 65, 66, 76, 69]]
      ∧ genericTypes.all (fun n => registeredTypes.contains n) = true := by
  decide +kernel

/-- TABLE heads (fix ba5d636de, now over the whole load -> export model, not only the statement order): for a head record
    `(0, TABLE), (2, name)` + a well-formed base class + symbol-table subclass + XDATA, `TableHead` reads the name and writes
    name, base class in `canon` order (application groups, extension dictionary, reactors kept), the symbol-table subclass with
    the CURRENT entry count, the DIMSTYLE marker, and every XDATA set verbatim.  (Tags of the input subclass other than the count
    are not kept - AutoCAD lists the DIMSTYLE handles there; ezdxf regenerates the head.) -/
theorem table_head_roundtrip (alive : V → Bool) (nm cnt : V) (r : List Tag)
    (h : entityWF alive (⟨0, .str sTABLE⟩ :: r) = true) :
    ∃ items rest e, parseItems 5 r none = some (items, rest)
      ∧ load (⟨0, .str sTABLE⟩ :: ⟨2, nm⟩ :: r) = .ok e
      ∧ tableName (⟨0, .str sTABLE⟩ :: ⟨2, nm⟩ :: r) = some nm
      ∧ (optTruthy e.handle = true →
          exportTableHead alive cnt nm e = .ok (⟨0, .str sTABLE⟩ :: ⟨2, nm⟩ :: canonItems items
            ++ [⟨100, .str sAcDbSymbolTable⟩, ⟨70, cnt⟩]
            ++ (if nm == .str dimstyleStr then [⟨100, .str sAcDbDimStyleTable⟩] else [])
            ++ (restXdata rest).flatten)) :=
  tableHead_ok alive nm cnt r h

/-- DICTIONARY entries (the map from names to foreign objects: extension dictionary -> XRECORD, named object dictionaries):
    entries with pairwise different names (since fix ea8106c8c also an empty name or an empty handle) and one handle group code
    (350 soft / 360 hard owner)
    are read by `Dictionary.load_dict` and written back by `export_dict` tag for tag and in order, wherever the 280 / 281
    attributes stand in front of them.  (A dictionary that mixes 350 and 360 is written with the LAST code: pinned below.) -/
theorem dictionary_entries_kept (c : Nat) (hc : c = 350 ∨ c = 360) (es : List (V × V)) (pre : List Tag)
    (hpre : ∀ t ∈ pre, t.code = 280 ∨ t.code = 281) (hk : (es.map (·.1)).Nodup) :
    dictExport (dictLoad (pre ++ entryTags c es)) = entryTags c es :=
  dictionary_entries_ok c hc es pre hpre hk

open EzdxfVerif.Storage.Ex in
/-- outside these hypotheses (replayed on the real code, stream X11): mixed handle codes are unified to the last one; a repeated
    name keeps the later handle at the first position; a handle in front of its name is paired with it, of two names in a row
    the later one gets the next handle -/
theorem dictionary_counterexamples :
    dictExport (dictLoad [T 3 "A", T 350 "1", T 3 "B", T 360 "2"]) = [T 3 "A", T 360 "1", T 3 "B", T 360 "2"]
    ∧ dictExport (dictLoad [T 3 "A", T 350 "1", T 3 "B", T 350 "2", T 3 "A", T 350 "3"]) = [T 3 "A", T 350 "3", T 3 "B", T 350 "2"]
    ∧ dictExport (dictLoad [T 350 "1", T 3 "A", T 3 "B", T 3 "C", T 350 "2"]) = [T 3 "A", T 350 "1", T 3 "C", T 350 "2"] := by
  decide +kernel

/-- XRECORD end to end (the payload behind an extension dictionary): a well-formed XRECORD whose first subclass is
    (100, AcDbXrecord), (280, cloning flag 0..5), payload - any group codes, further (100, …) tags included - without embedded
    object is written back as `canon t`: base class in ezdxf's order, payload and XDATA tag for tag -/
theorem xrecord_roundtrip (alive : V → Bool) (t : List Tag) (h : entityWF alive t = true) (f : Tag) (p1 : List Tag)
    (later : List (List Tag))
    (hsub : ∀ e, load t = .ok e → e.subs = (⟨100, .str sAcDbXrecord⟩ :: f :: p1) :: later ∧ e.embedded = [])
    (hf : f.code = 280) (hc : fixCloning f.val = f.val) :
    ∃ e, load t = .ok e ∧ exportXRecord alive e = .ok (canon t) := by
  obtain ⟨t0, r, items, rest, e, re, h1, h2, h3, h4, h5, _, _, h8, h9, _⟩ := load_wf_parts alive t h
  obtain ⟨hs, he⟩ := hsub e h3
  refine ⟨e, h3, ?_⟩
  have hpay : xrecordPayload xrecordKeepsLaterSubclasses e.subs = some (f.val, p1 ++ later.flatten) := by
    simp [xrecordPayload, hs, hf, hc, xrecordKeepsLaterSubclasses]
  have hfe : (⟨280, f.val⟩ : Tag) = f := by rw [← tag_eta f, hf]
  have hflat : e.subs.flatten = ⟨100, .str sAcDbXrecord⟩ :: f :: (p1 ++ later.flatten) := by
    rw [hs]; simp
  rw [he, List.flatten_nil, List.nil_append] at h9
  subst h1
  simp only [exportXRecord, hpay, h4, entityOrder, List.flatMap_cons, List.flatMap_nil, List.append_nil, hfe, ← hflat, h8]
  have hb : (⟨structureMarker, e.typ⟩ :: baseOrder.flatMap (basePart alive e re)) = t0 :: canonItems items := h5
  rw [hb]
  simp only [canon, h2]
  conv => rhs; rw [← h9]

/-! ## final round: every accepted input at section level, binary chunks -/

/-- the DXF type of a loaded record that starts with a structure tag is the value of that tag (removes the hypothesis
    "`e.typ` = type of the record" from the section-level statements) -/
theorem loaded_type_is_record_type (t0 : Tag) (r : List Tag) (e : Ent) (h0 : t0.code = 0) (h : load (t0 :: r) = .ok e) :
    e.typ = t0.val :=
  load_typ t0 r e h0 h

/-- Entity spaces, second cycle, WITHOUT EntityWF: unknown records that the loader accepts (any order, duplicates, foreign
    base-class tags, invalid XDATA codes …; tie-free reactors) are written, and what is written is read back and written again
    tag for tag - `storage_idempotent_any` lifted from one entity to a whole entity space (ENTITIES layouts, block contents,
    OBJECTS) -/
theorem entity_space_second_cycle (cfg : DocCfg) (gs : List (Rec × List Rec))
    (hunk : ∀ g ∈ gs, isUnknown g.1 = true)
    (hload : ∀ g ∈ gs, ∃ e, load g.1 = .ok e ∧ tieFree e = true ∧ e.typ = recType g.1) :
    ∃ us : List Rec, us.length = gs.length ∧ writeGroups cfg gs = .ok us.flatten
      ∧ writeGroups cfg (us.map (fun u => (u, []))) = .ok us.flatten :=
  writeGroups_second_cycle cfg gs hunk hload

/-- … for the OBJECTS section of a file: every record of an unknown type starts with a structure tag, is accepted by the loader
    and has tie-free reactors -> the section is written and is a fixed point of load -> save (no EntityWF) -/
theorem objects_second_cycle (cfg : DocCfg) (hskip : ∀ r, cfg.skipObject r = false) (recs : List Rec)
    (hunk : ∀ r ∈ recs, isUnknown r = true)
    (hload : ∀ r ∈ recs, ∃ t0 tl e, r = t0 :: tl ∧ t0.code = 0 ∧ load r = .ok e ∧ tieFree e = true) :
    ∃ us : List Rec, us.length = recs.length ∧ objectsPass cfg recs [] = .ok us.flatten
      ∧ objectsPass cfg us [] = .ok us.flatten :=
  objects_second_cycle_ok cfg hskip recs hunk hload

/-- export of the record sections cannot fail after a successful load (lifts `export_never_fails_after_load` to ENTITIES and
    OBJECTS: once the linker accepted the section and every unknown record was loaded, the section is written) -/
theorem sections_export_total (cfg : DocCfg) (recs : List Rec) (appended : List Tag)
    (h : ∀ r ∈ recs, isUnknown r = true → ∃ e, load r = .ok e) :
    (∃ out, objectsPass cfg recs appended = .ok out)
      ∧ ∀ gs, linkRecs cfg recs none = .ok gs → ∃ out, entitiesPass cfg recs = .ok out :=
  ⟨objectsPass_total cfg recs appended h, fun gs hl => entitiesPass_total cfg recs gs hl h⟩

/-- Binary chunks (`Gen.binaryCodes` = types.BINARY_DATA: 310..319 proxy graphics / ACIS / OLE data, 1004 XDATA) of a well-formed
    unknown entity: kept with value and multiplicity always, and tag for tag IN ORDER whenever the base class (the tags in front
    of the first subclass / embedded object / XDATA marker) holds none - the case of every proxy graphic and XDATA chunk -/
theorem binary_chunks_verbatim (alive : V → Bool) (t : List Tag) (h : entityWF alive t = true) :
    ∃ u t0 pre rest, roundtrip alive t = .ok u ∧ t = t0 :: (pre ++ rest)
      ∧ (u.filter isBinary).Perm (t.filter isBinary)
      ∧ (pre.filter isBinary = [] → u.filter isBinary = t.filter isBinary) :=
  binary_chunks_ok alive t h

/-- Unknown sections, second cycle: the unknown sections written by load -> save, read as a file again, are written identically
    (the file made of them is a fixed point of the stored-section path) -/
theorem unknown_sections_second_cycle (secs : List Sec) (hwf : ∀ s ∈ secs, secWF s = true)
    (hn : (secs.map (fun s => s.name)).Nodup) :
    passSections (fileOf secs) = .ok ((secs.filter unmanaged).flatMap Sec.tags)
      ∧ passSections (fileOf (secs.filter unmanaged)) = .ok ((secs.filter unmanaged).flatMap Sec.tags) := by
  refine ⟨sections_passthrough secs hwf hn, ?_⟩
  have h2 := sections_passthrough (secs.filter unmanaged)
    (fun s hs => hwf s (List.mem_filter.mp hs).1)
    ((List.filter_sublist.map _).nodup hn)
  rw [h2, List.filter_filter]
  simp

/-! ## non-vacuity -/

#guard entityWF allAlive widget && entityOrdered widget
#guard entityWF allAlive widgetShuffled && !entityOrdered widgetShuffled
#guard (roundtrip allAlive widget).toOption == some widget
#guard (roundtrip allAlive widgetShuffled).toOption == some widget
#guard canon widgetShuffled == widget
-- storage_idempotent_any on inputs outside EntityWF: the loader accepts them, `tieFree` holds, the second cycle is the first
#guard [altClose, dupXdata, foreignBase, twoHandles, dupAppKey, noHandle, emptyReactors, xdictEnt].all fun t =>
  !entityWF noneAlive t && (match load t with | .ok e => tieFree e | .error _ => false) &&
    (match roundtrip noneAlive t with | .ok u => (roundtrip noneAlive u).toOption == some u | .error _ => false)
-- damaged reactors (not hex, empty text): dropped at load time, the entity is written
#guard (roundtrip allAlive [T 0 "FOO", T 5 "A", T 102 "{ACAD_REACTORS", T 330 "XYZ", T 330 "1F", T 330 "", T 102 "}", T 330 "B"]).toOption
  == some [T 0 "FOO", T 5 "A", T 102 "{ACAD_REACTORS", T 330 "1F", T 102 "}", T 330 "B"]
-- the hypothesis `tieFree` is needed in the model: two spellings of one number change places on every cycle
#guard (match load [T 0 "FOO", T 5 "A", T 102 "{ACAD_REACTORS", T 330 "1F", T 330 "1f", T 102 "}", T 330 "B"] with
  | .ok e => !tieFree e | .error _ => false)
#guard (restXdata (widget.drop 15)).length == 2
#guard (widget.filter isPointer).length == 9
#guard unmanaged ⟨sSECTION, [], []⟩ && !unmanaged ⟨[72, 69, 65, 68, 69, 82], [], []⟩   -- "HEADER" is managed

example : entityWF allAlive widget = true ∧ entityOrdered widget = true := by decide +kernel
example : entityWF allAlive widgetShuffled = true ∧ entityOrdered widgetShuffled = false := by decide +kernel

open EzdxfVerif.StorageDoc.Ex

#guard (entitiesPass exCfg exEntities).toOption == some exEntitiesOut
#guard (linkRecs exCfg exEntities none).toOption.map (fun gs => gs.map (fun g => g.2.length)) == some [0, 2, 0, 0, 0]
#guard (objectsPass exCfg [widget, [T 0 "DICTIONARY", T 5 "C"]] []).toOption == some (widget ++ [T 0 "DICTIONARY", T 5 "C"])
#guard isUnknown widget && !isUnknown [T 0 "LINE"] && !isUnknown [T 0 "ACAD_PROXY_ENTITY"] && isUnknown [T 0 "ACAD_PROXY_OBJECT"]
#guard (blocksPass exCfg exBc [S "FB", S "*Model_Space", S "X"] (fun n => [T 0 "ORPHAN", ⟨2, n⟩]) exBlocks).toOption == some exBlocksOut
#guard (loadSaveFile exCfg exBc [S "FB", S "*Model_Space", S "X"] (fun n => [T 0 "ORPHAN", ⟨2, n⟩]) 1024 (S "AC1024") [] (fun _ => []) [] exFile).toOption == some exFileOut
#guard exStdClass.record true == [T 0 "CLASS", T 1 "ACME", T 2 "AcmeThing", T 3 "AcmeApp", T 90 "1153", T 91 "3", T 280 "0", T 281 "1"]
#guard classesPass true [exStdClass.record true, exStdClass.record true] [] == some (exStdClass.record true)
#guard headerPass 1024 (S "AC1024") exCast exHeader == exHeaderOut2010
#guard headerPass 1015 (S "AC1015") exCast exHeader == exHeaderOut2000
#guard (match load exXRecord with
  | .ok e => e.subs == [[T 100 "AcDbXrecord", T 280 "1", T 1 "before"], [T 100 "AnyString", T 1 "after", T 310 "CAFE"]] && e.embedded == []
      && (exportXRecord allAlive e).toOption == some exXRecord
  | .error _ => false)
#guard entityWF allAlive exXRecord && fixCloning (T 280 "1").val == (T 280 "1").val
#guard ((load pspWidget).toOption.bind fun e => (exportGeneric allAlive [T 100 "AcDbEntity", T 8 "L1"] e).toOption)
  == some [T 0 "FOO", T 5 "A1", T 330 "20", T 100 "AcDbEntity", T 8 "L1", T 1001 "ACAD", T 1004 "DEADBEEF"]
#guard entityWF allAlive (T 0 "TABLE" :: exTableRest)
#guard ((load (T 0 "TABLE" :: T 2 "LAYER" :: exTableRest)).toOption.bind fun e => (exportTableHead allAlive (S "3") (S "LAYER") e).toOption)
  == some exTableOut
-- final round: malformed unknown objects (outside EntityWF) form a section that is a fixed point; binary chunks of the widget
#guard [altClose, dupXdata, foreignBase, twoHandles, dupAppKey].all (fun t => isUnknown t && !entityWF allAlive t)
#guard (match objectsPass exCfg [altClose, dupXdata, foreignBase, twoHandles, dupAppKey] [] with
  | .ok out => out == (altCloseOut ++ dupXdataOut ++ foreignBaseOut ++ twoHandlesOut ++ dupAppKeyOut)
      && (objectsPass exCfg [altCloseOut, dupXdataOut, foreignBaseOut, twoHandlesOut, dupAppKeyOut] []).toOption == some out
  | .error _ => false)
#guard (widget.filter isBinary) == [T 310 "DEADBEEF"] && (pspWidget.filter isBinary) == [T 1004 "DEADBEEF"]
#guard (roundtrip allAlive widgetShuffled).toOption.map (fun u => u.filter isBinary) == some [T 310 "DEADBEEF"]
#guard acdsRecWF acdsRecord && !acdsRecWF acdsStray
#guard acdsPass acdsHead [acdsSchema, acdsRecord] == some (acdsHead ++ acdsSchema ++ acdsRecord ++ [endsecTag])

end EzdxfVerif.Props.C02

/-
C02  Foreign and unknown content survives load -> save unchanged.

Property theorems over Model/Storage.lean (DXFTagStorage.load / DXFEntity.export_dxf for entity types without an
implementation; load_dxf_structure + stored sections; custom header properties; CLASS registration), on top of the proved
ExtendedTags model Model/XTags.lean.  Proofs: Lemmas/Storage.lean.  The order of the export steps and the constant tables come
from Gen/StorageTables.lean, regenerated from the current source on every run.
-/
import EzdxfVerif.Lemmas.Storage

namespace EzdxfVerif.Props.C02
open EzdxfVerif.XTags EzdxfVerif.Storage EzdxfVerif.Gen.StorageTables

/-! ## one entity / object of a type ezdxf does not implement -/

/-- load -> save of a well-formed tag sequence writes `canon t`: the same tags with the base-class structures in ezdxf's order.
    `alive` = which handles resolve in the entity database (needed for the extension dictionary pointer). -/
theorem storage_roundtrip (alive : V → Bool) (t : List Tag) (h : entityWF alive t = true) :
    roundtrip alive t = .ok (canon t) :=
  roundtrip_canon alive t h

/-- `canon` only rearranges: every tag occurs in `canon t` exactly as often as in `t` (for every t) -/
theorem canon_reorders_only (t : List Tag) : (canon t).Perm t := canon_perm t

/-- … and it is the identity when the base class already is in ezdxf's order
    (handle, application groups, extension dictionary, reactors ascending, owner) -/
theorem canon_identity (t : List Tag) (ho : entityOrdered t = true) : canon t = t := canon_ordered_id t ho

/-- tag for tag, in order: a well-formed entity in ezdxf's order is written back unchanged -/
theorem storage_identity (alive : V → Bool) (t : List Tag) (h : entityWF alive t = true)
    (ho : entityOrdered t = true) : roundtrip alive t = .ok t := by
  rw [storage_roundtrip alive t h, canon_identity t ho]

/-- only the base class is rearranged: everything from the first subclass / embedded-object / XDATA marker on is written
    verbatim and in order, the tags in front of it are a permutation of the input -/
theorem storage_tail_verbatim (alive : V → Bool) (t : List Tag) (h : entityWF alive t = true) :
    ∃ t0 pre pre' rest, t = t0 :: (pre ++ rest) ∧ roundtrip alive t = .ok (t0 :: (pre' ++ rest)) ∧ pre'.Perm pre
      ∧ (rest = [] ∨ ∃ x tl, rest = x :: tl ∧ isEndOfClass x = true) := by
  obtain ⟨t0, r, items, rest, rfl, -, -, hp, -, -⟩ := entityWF_unpack alive t h
  obtain ⟨hhead, hshape⟩ := parseItems_shape _ r none items rest hp
  have hflat := parseItems_flatten _ r none items rest hp
  simp only [List.nil_append] at hflat
  refine ⟨t0, items.flatMap Item.tags, canonItems items, rest, by rw [hflat], ?_, canonItems_perm _ items hshape, hhead⟩
  rw [storage_roundtrip alive _ h]
  simp only [canon, hp]
  rfl

/-- second cycle: the output of load -> save is a fixed point of load -> save, whatever the order of the input was -/
theorem storage_idempotent (alive : V → Bool) (t : List Tag) (h : entityWF alive t = true) :
    ∃ u, roundtrip alive t = .ok u ∧ roundtrip alive u = .ok u := by
  obtain ⟨hw, ho⟩ := canon_wf alive t h
  exact ⟨canon t, storage_roundtrip alive t h, storage_identity alive (canon t) hw ho⟩

/- OPEN, not proved (stronger than the planned statement): the fixed-point property without `EntityWF`,
     theorem storage_idempotent_any (alive) (t u) (h : roundtrip alive t = .ok u) : roundtrip alive u = .ok u
   Reason: outside `EntityWF` the output is not `canon t` (tags are dropped, merged, or a closing (102, "}") is added), so the
   proof needs a second normal form for every exclusion.  Checked instead on every input of the correspondence stream X1
   (model and real code, about 3000 malformed inputs per quick run) and pinned for the individual exclusions by the
   counterexample theorems below (e.g. `alt_close_counterexample` includes the fixed point). -/

/-- nothing is lost and nothing is invented -/
theorem storage_nothing_lost (alive : V → Bool) (t : List Tag) (h : entityWF alive t = true) :
    ∃ u, roundtrip alive t = .ok u ∧ u.Perm t :=
  ⟨canon t, storage_roundtrip alive t h, canon_reorders_only t⟩

/-- every handle (5, 105) and every pointer tag (320..369, 390..399, 480, 481, 1005: table from lldxf/types.py) is written
    with the same value, the same number of times -/
theorem pointers_kept (alive : V → Bool) (t : List Tag) (h : entityWF alive t = true) :
    ∃ u, roundtrip alive t = .ok u ∧ (u.filter isPointer).Perm (t.filter isPointer) :=
  ⟨canon t, storage_roundtrip alive t h, (canon_reorders_only t).filter isPointer⟩

/-! ## whole sections ezdxf does not manage -/

/-- Unknown sections of a well-formed file (distinct section names, body records are neither SECTION, ENDSEC nor EOF) are
    written once, verbatim (head record, body records, ENDSEC), in input order; THUMBNAILIMAGE is deleted by `Drawing._load`
    and the names in MANAGED_SECTIONS are re-exported by their section classes. -/
theorem sections_passthrough (secs : List Sec) (hwf : ∀ s ∈ secs, secWF s = true)
    (hn : (secs.map (fun s => s.name)).Nodup) :
    passSections (fileOf secs) = .ok ((secs.filter unmanaged).flatMap Sec.tags) :=
  passSections_file secs hwf hn

/-- … and they are written after all managed sections, directly in front of (0, EOF) -/
theorem sections_after_managed (managed : SectionPart → List Tag) (stored : List (List Rec)) :
    exportSections managed stored =
      managed .header ++ managed .classes ++ managed .tables ++ managed .blocks ++ managed .entities
        ++ managed .objects ++ managed .acdsdata ++ exportStored stored ++ [eofTag] := by
  simp [exportSections, sectionOrder]

/-! ## custom header properties and CLASS entries -/

private theorem customStack_groups (ps : List (V × V)) : customStack (customGroups ps) = ps.flatMap (fun p => [p.1, p.2]) := by
  induction ps with
  | nil => rfl
  | cons p r ih =>
    simp only [customGroups, List.flatMap_cons, customStack, List.cons_append, List.nil_append] at ih ⊢
    simp only [List.filter_cons, beq_self_eq_true, Bool.true_or, Bool.or_true, if_true, List.map_cons, ih]

private theorem pairUp_flat (ps : List (V × V)) : pairUp (ps.flatMap (fun p => [p.1, p.2])) = ps := by
  induction ps with
  | nil => rfl
  | cons p r ih => simp [pairUp, ih]

private theorem customStack_append (a b : List (V × V)) : customStack (a ++ b) = customStack a ++ customStack b := by
  simp [customStack]

private theorem customStack_none (a : List (V × V))
    (h : ∀ g ∈ a, g.1 ≠ .str sCustomTag ∧ g.1 ≠ .str sCustomProp) : customStack a = [] := by
  simp only [customStack, List.map_eq_nil_iff, List.filter_eq_nil_iff]
  intro g hg
  have := h g hg
  simp [this.1, this.2]

/-- the $CUSTOMPROPERTYTAG / $CUSTOMPROPERTY pairs of a header are read back in order, wherever they stand between the
    other header variables -/
theorem custom_props_roundtrip (pre post : List (V × V)) (ps : List (V × V))
    (h1 : ∀ g ∈ pre, g.1 ≠ .str sCustomTag ∧ g.1 ≠ .str sCustomProp)
    (h2 : ∀ g ∈ post, g.1 ≠ .str sCustomTag ∧ g.1 ≠ .str sCustomProp) :
    customLoad (pre ++ customGroups ps ++ post) = ps := by
  simp only [customLoad, customStack_append, customStack_none pre h1, customStack_none post h2, List.nil_append,
    List.append_nil, customStack_groups, pairUp_flat]

private theorem customLoop_none (ps : List (V × V)) (l : List V) (hl : V.str sLastSavedBy ∉ l) :
    l.flatMap (fun n => if n == V.str sLastSavedBy then customGroups ps else []) = [] := by
  simp only [List.flatMap_eq_nil_iff]
  intro n hn
  have : n ≠ V.str sLastSavedBy := fun e => hl (e ▸ hn)
  simp [this]

/-- they are written once, right behind $LASTSAVEDBY, when that variable is exported once (any target version) -/
theorem custom_props_written (r2004 : Bool) (a b : List V) (ps : List (V × V))
    (ha : V.str sLastSavedBy ∉ a) (hb : V.str sLastSavedBy ∉ b) :
    customWritten r2004 (a ++ [.str sLastSavedBy] ++ b) ps = customGroups ps := by
  have hc : (a ++ [V.str sLastSavedBy] ++ b).contains (V.str sLastSavedBy) = true := by simp
  simp only [customWritten, hc, if_true, List.append_nil, List.flatMap_append, customLoop_none ps a ha,
    customLoop_none ps b hb]
  simp

/-- without $LASTSAVEDBY among the exported variables (an application that does not write it; every R2000 file) the statement
    behind the loop writes them for a target version >= R2004 (fix 4b8cbec85) and nothing for R2000 (permitted version loss:
    the two variables are R2004 header variables) -/
theorem custom_props_written_without_lastsavedby (r2004 : Bool) (exported : List V) (ps : List (V × V))
    (h : V.str sLastSavedBy ∉ exported) :
    customWritten r2004 exported ps = if r2004 then customGroups ps else [] := by
  have hc : exported.contains (V.str sLastSavedBy) = false := by
    rw [Bool.eq_false_iff]; intro hm; exact h (List.contains_iff_mem.mp hm)
  simp only [customWritten, hc, customLoop_none ps exported h, List.nil_append, customFallback]
  simp

/-- … hence custom properties are lost exactly when the target version is older than R2004 -/
theorem custom_props_lost_iff (r2004 : Bool) (exported : List V) (ps : List (V × V))
    (h : V.str sLastSavedBy ∉ exported) (hp : ps ≠ []) :
    customWritten r2004 exported ps = [] ↔ r2004 = false := by
  rw [custom_props_written_without_lastsavedby r2004 exported ps h]
  cases r2004 with
  | false => simp
  | true =>
    cases ps with
    | nil => exact absurd rfl hp
    | cons p r => simp [customGroups]

/-- `TableHead.export_dxf` (fix ba5d636de) writes the base-class structures of a (0, TABLE) record in the order of
    `export_base_class` and the XDATA at the end: statement order extracted from the current source -/
theorem table_head_writes_all_structures :
    tableHeadOrder.filter (fun p => p == .handle || p == .appdata || p == .xdict || p == .reactors || p == .owner)
        = [.handle, .appdata, .xdict, .reactors, .owner]
      ∧ baseOrder = [.handle, .appdata, .xdict, .reactors, .owner]
      ∧ tableHeadOrder.getLast? = some .xdata := by
  decide

/-- XRECORD payload (fix d4f17a436): every payload without an embedded-object or XDATA marker - any group codes, group code 100
    included - is kept completely, together with the cloning flag (an integer 0..5; other values are replaced by the default 1
    by the attribute validator) -/
theorem xrecord_payload_kept (m f : Tag) (payload : List Tag) (hm : m.code = 100) (hf : f.code = 280)
    (hp : ∀ t ∈ payload, isEO t = false ∧ t.code ≠ 1001) :
    xrecordPayload xrecordKeepsLaterSubclasses
        (collectGroups (fun t => t.code == 100) isEndOfClass (m :: f :: payload)).1 = some (fixCloning f.val, payload) := by
  have hfl := collectGroups_flatten (fun t => t.code == 100) isEndOfClass (m :: f :: payload)
  have hrem : (collectGroups (fun t => t.code == 100) isEndOfClass (m :: f :: payload)).2 = [] := by
    rcases collectGroups_rem (fun t => t.code == 100) isEndOfClass (m :: f :: payload) with e | ⟨x, tl, e1, e2, e3⟩
    · exact e
    · exfalso
      simp only [beq_eq_false_iff_ne, ne_eq] at e2
      rcases e3 with e3 | e3
      · rw [e3] at e1; cases e1; exact e2 hm
      · have hx : x ∈ m :: f :: payload := by
          rw [← hfl, e1]; simp
        simp only [List.mem_cons] at hx
        simp only [isEndOfClass, Bool.or_eq_true, beq_iff_eq] at e3
        rcases hx with rfl | rfl | hx
        · exact e2 hm
        · rcases e3 with (e3 | e3) | e3
          · omega
          · simp [isEO, hf] at e3
          · omega
        · have := hp x hx
          rcases e3 with (e3 | e3) | e3
          · exact e2 e3
          · rw [this.1] at e3; cases e3
          · exact this.2 e3
  rw [hrem, List.append_nil] at hfl
  -- the first subclass starts with the marker and the cloning flag
  have hne : isEndOfClass f = false := by
    simp [isEndOfClass, isEO, hf]
  rw [collectGroups] at hfl ⊢
  simp only [hm, beq_self_eq_true, if_true, List.takeWhile_cons, List.dropWhile_cons, hne, Bool.not_false] at hfl ⊢
  simp only [xrecordPayload, hf, beq_self_eq_true, if_true, xrecordKeepsLaterSubclasses, List.drop_succ_cons, List.drop_zero]
  simp only [List.flatten_cons, List.cons_append, List.cons.injEq, true_and] at hfl
  rw [hfl]

private theorem register_append (acc a b : List (V × V)) : register acc (a ++ b) = register (register acc a) b := by
  induction a generalizing acc with
  | nil => rfl
  | cons c r ih =>
    simp only [List.cons_append, register]
    split <;> exact ih _

private theorem register_prefix (acc cs : List (V × V)) : ∃ extra, register acc cs = acc ++ extra := by
  induction cs generalizing acc with
  | nil => exact ⟨[], by simp [register]⟩
  | cons c r ih =>
    simp only [register]
    split
    · exact ih acc
    · obtain ⟨e, he⟩ := ih (acc ++ [c])
      exact ⟨c :: e, by rw [he]; simp⟩

private theorem register_nodup (acc cs : List (V × V)) (h : (acc ++ cs).Nodup) : register acc cs = acc ++ cs := by
  induction cs generalizing acc with
  | nil => simp [register]
  | cons c r ih =>
    have hc : acc.contains c = false := by
      rw [Bool.eq_false_iff]
      intro hm
      rw [List.contains_iff_mem] at hm
      rw [List.nodup_append] at h
      exact h.2.2 c hm c List.mem_cons_self rfl
    simp only [register, hc, Bool.false_eq_true, if_false]
    rw [ih (acc ++ [c]) (by simpa [List.append_assoc] using h)]
    simp

/-- CLASS entries with pairwise different (name, cpp_class_name) keys are all kept, in file order, in front of the classes
    `add_required_classes` registers at save time -/
theorem classes_kept (cs req : List (V × V)) (h : cs.Nodup) : ∃ extra, register [] (cs ++ req) = cs ++ extra := by
  rw [register_append, register_nodup [] cs (by simpa using h)]
  simpa using register_prefix cs req

/-! ## the explicit exclusions: what happens outside `EntityWF` (each replayed on the real code by the harness) -/

open Ex

/-- duplicate XDATA appid: the later set wins, at the position of the first (Python dict) -> the first set is LOST.
    Outside the quantifier (an entity holds at most one XDATA set per appid). -/
theorem dup_xdata_appid_counterexample :
    entityWF allAlive dupXdata = false ∧ (roundtrip allAlive dupXdata).toOption = some dupXdataOut := by
  decide +kernel

/-- a base-class tag other than handle, owner and application groups is DROPPED by `export_base_class`.
    Outside the quantifier for unknown types (DXF defines no other tags in front of the first subclass marker). -/
theorem foreign_base_tag_counterexample :
    entityWF allAlive foreignBase = false ∧ (roundtrip allAlive foreignBase).toOption = some foreignBaseOut := by
  decide +kernel

/-- an application group closed by the alternative tag (102, "APP}") gets an additional (102, "}") on every save-cycle-one
    (`AppData.add`); the result is a fixed point -/
theorem alt_close_counterexample :
    entityWF allAlive altClose = false ∧ (roundtrip allAlive altClose).toOption = some altCloseOut
      ∧ (roundtrip allAlive altCloseOut).toOption = some altCloseOut := by
  decide +kernel

/-- an extension dictionary pointer whose target is not in the file is dropped (`ExtensionDict.load_resources`) -/
theorem xdict_unresolved_counterexample :
    entityWF noneAlive xdictEnt = false ∧ (roundtrip noneAlive xdictEnt).toOption = some bareEnt
      ∧ (roundtrip allAlive xdictEnt).toOption = some xdictEnt := by
  decide +kernel

/-- an empty reactors group is dropped (`if self.reactors:`) -/
theorem empty_reactors_counterexample :
    entityWF allAlive emptyReactors = false ∧ (roundtrip allAlive emptyReactors).toOption = some bareEnt := by
  decide +kernel

/-- two application groups with the same name: the first one is LOST -/
theorem dup_appdata_key_counterexample :
    entityWF allAlive dupAppKey = false ∧ (roundtrip allAlive dupAppKey).toOption = some dupAppKeyOut := by
  decide +kernel

/-- repeated handle / owner tags: one of each survives (the scan of `DXFNamespace.__init__` stops when it has both) -/
theorem two_handles_counterexample :
    entityWF allAlive twoHandles = false ∧ (roundtrip allAlive twoHandles).toOption = some twoHandlesOut := by
  decide +kernel

/-- without a handle the stand-alone export writes the text "None" (inside a document the entity database assigns one) -/
theorem no_handle_counterexample :
    entityWF allAlive noHandle = false ∧ (roundtrip allAlive noHandle).toOption = some noHandleOut := by
  decide +kernel

/-- THUMBNAILIMAGE is deleted by `Drawing._load` (deliberate: the preview would be stale), the managed OBJECTS section is not a
    stored section, FOO and ZED pass through in order -/
theorem thumbnail_dropped_counterexample : (passSections fileRecs).toOption = some fileStoredOut := by
  decide +kernel

/-- two sections of the same name: the section dict keeps the second one only.  Outside the quantifier (not a valid file). -/
theorem dup_section_name_counterexample : (passSections dupSection).toOption = some dupSectionOut := by
  decide +kernel

/-! ## non-vacuity -/

#guard entityWF allAlive widget && entityOrdered widget
#guard entityWF allAlive widgetShuffled && !entityOrdered widgetShuffled
#guard (roundtrip allAlive widget).toOption == some widget
#guard (roundtrip allAlive widgetShuffled).toOption == some widget
#guard canon widgetShuffled == widget
#guard (restXdata (widget.drop 15)).length == 2
#guard (widget.filter isPointer).length == 9
#guard unmanaged ⟨sSECTION, [], []⟩ && !unmanaged ⟨[72, 69, 65, 68, 69, 82], [], []⟩   -- "HEADER" is managed

example : entityWF allAlive widget = true ∧ entityOrdered widget = true := by decide +kernel
example : entityWF allAlive widgetShuffled = true ∧ entityOrdered widgetShuffled = false := by decide +kernel

end EzdxfVerif.Props.C02

/-
C06  Audit is sound on valid documents and converges on damaged ones.
Property theorems over the structural part of `Auditor.run` modelled in Model/Doc.lean (`audit`) on the
document state machine (damaged states are ordinary states: dangling or wrong owners, unlinked
entities, entities listed in several entity spaces, block references without definition; Session 3: groups with
dead / unlinked / block-owned members or members on several layouts, empty groups, paperspace block records
without a layout).  Pipeline order as in the (fixed) `Auditor.run`: BlocksSection.audit, Layouts.audit,
audit_all_database_entities + trashcan, GroupCollection.audit.
-/
import EzdxfVerif.Lemmas.Audit
import EzdxfVerif.Lemmas.DocOwner
import EzdxfVerif.Lemmas.DocLink
import EzdxfVerif.Lemmas.DocFinal

namespace EzdxfVerif.Props.C06
open EzdxfVerif.Doc

/-- no false positives: on a clean state (every live database entity linked to an existing block
    record and listed only there, block references defined) audit applies no fix and changes nothing -/
theorem audit_sound (s : State) (h : AuditClean s) : audit s = (s, 0) := Doc.audit_sound s h

/-- no false positives of the block-section owner check for API-built documents: in every state reachable
    by a history obeying the add_entity obligation, no entity is removed from any entity space -/
theorem api_built_no_space_fix (s : State) (ops : List Op) (h : DocInv s) (ho : OwnerInv s) (hok : HistOk s ops) :
    spaceFixes (run s ops) = 0 :=
  Doc.spaceFixes_zero_of_ownerInv _ (Doc.owner_inv_reachable s ops h ho hok)

/-- after ONE audit run the state is clean - for EVERY state, i.e. for any number and combination of
    the modelled faults, not just k <= 3 -/
theorem audit_clean (s : State) : AuditClean (audit s).1 := Doc.audit_clean s

/-- convergence: a second run applies no further fix and changes nothing -/
theorem audit_fixpoint (s : State) : audit (audit s).1 = ((audit s).1, 0) := Doc.audit_fixpoint s

/-- the audited document keeps the structural invariants of C05, so everything C04 proves about the
    written file (no dead entity, each live entity at most once, handles below $HANDSEED) holds for it -/
theorem audit_inv (s : State) (h : DocInv s) (hb : BInv s) : DocInv (audit s).1 ∧ BInv (audit s).1 :=
  Doc.audit_inv s h hb

/-- audit never resurrects or invents handles: the handle history is untouched -/
theorem audit_handles (s : State) : hs (audit s).1 = hs s := Doc.audit_hs s

/-- (Session 3) audit keeps "linked ⇒ listed": with `audit_inv` every invariant the C04 theorems need (exactly once,
    group members resolve) holds for the audited document -/
theorem audit_linkinv (s : State) (hl : LinkInv s) : LinkInv (audit s).1 := Doc.audit_LinkInv s hl

/-- (Session 3) the parts of `audit_clean` that are new: after ONE run, from EVERY state, every group that is left is
    non-empty, has only live members that lie on one model/paper space layout, no `*Paper_Space…` block record is
    without a layout, and the active paperspace layout exists whenever a paperspace layout with a `*Paper_Space…` block
    does (`Layouts._restore_active_layout`) - although `Layouts.audit` deletes blocks (which un-defines block references and orphans
    entities) and the entity audit deletes group members, all within the same run -/
theorem audit_groups_layouts_clean (s : State) :
    (∀ g ∈ (audit s).1.groups, g.2.2.all (validMember (audit s).1) = true ∧
      sameLayout (audit s).1 g.2.2 = true ∧ g.2.2.isEmpty = false) ∧ orphanBlocks (audit s).1 = [] ∧
    needRestore (audit s).1 = false :=
  ⟨(Doc.audit_clean s).2.2.1, (Doc.audit_clean s).2.2.2.1, (Doc.audit_clean s).2.2.2.2⟩

/-! ### Final round: the no-false-positive clause as theorems over histories -/

/-- NO FALSE POSITIVES for every history: after ANY history of the 29 API operations from a state with the invariants, if
    the document reached meets the precondition of the clause (`ApiValid`, decidable: every live entity linked, block
    references defined, groups non-empty with live members on one layout, paperspace block records consistent),
    `doc.audit()` applies no fix and changes nothing.  Ownership consistency and "linked => listed" are not assumed but
    proved for the reached state -/
theorem audit_sound_history (s : State) (ops : List Op) (hi : DocInv s) (ho : OwnerInv s) (hl : LinkInv s)
    (hok : HistOk s ops) (hv : ApiValid (run s ops)) : audit (run s ops) = (run s ops, 0) :=
  Doc.audit_sound_history s ops hi ho hl hok hv

/-- "every entity is linked to a layout" is kept by every operation except `layout.unlink_entity` -/
theorem step_no_unlinked (s : State) (op : Op) (hop : NotUnlink op) (hn : NoUnl s none) : NoUnl (step s op).1 none :=
  Doc.step_NoUnl s op hop hn

/-- the linkage part of the precondition discharged: for histories that never call `unlink_entity` the audit of the
    reached document is silent, provided its block references are defined, its groups valid and its paperspace block
    records consistent (`RefsValid`) -/
theorem audit_sound_no_unlink (s : State) (ops : List Op) (hi : DocInv s) (ho : OwnerInv s) (hl : LinkInv s)
    (hn : NoUnl s none) (hok : HistOk s ops) (hops : NoUnlinkHist ops) (hv : RefsValid (run s ops)) :
    audit (run s ops) = (run s ops, 0) := Doc.audit_sound_no_unlink s ops hi ho hl hn hok hops hv

/-! ### non-vacuity: the damaged document of the probe in DESIGN (dangling owner, wrong owner,
    undefined block, unlinked entity, entity listed twice) -/

def fresh : State :=
  { ents := [], spaces := [(23, []), (27, [])],
    blocks := [(lower modelSpaceName, modelSpaceName, 23), (lower paperSpaceName, paperSpaceName, 27)],
    layouts := [⟨modelKey, ofString "Model", 23, 0⟩, ⟨upper (ofString "Layout1"), ofString "Layout1", 27, 1⟩],
    layers := [[48], ofString "defpoints"], next := 47,
    tabs := [(1, ofString "byblock"), (1, ofString "bylayer"), (1, ofString "continuous"), (2, ofString "standard"),
             (3, ofString "standard"), (4, ofString "acad")] }

def damaged : State :=
  dmgAppend (dmgOwner (dmgOwner (run fresh [.add 23 47 48, .add 23 48 49, .ins 23 (ofString "NOPE") 49 50,
    .add 23 50 51, .add 23 51 52, .unlink 23 50]) 47 (some 65535)) 48 (some 27)) 27 51

#guard (audit damaged).2 == 6
#guard (audit (audit damaged).1).2 == 0
#guard ((audit damaged).1.spaces, (audit damaged).1.ents.map (fun e => (e.h, e.alive)))
  == ([(23, [49, 51]), (27, [])], [(47, false), (48, true), (49, false), (50, false), (51, true)])

-- Session 3: a paperspace block record without layout that holds a LINE and is referenced by an INSERT, and a group
-- with the INSERT and a LINE as members: Layouts.audit deletes the block (1 fix), the INSERT is now undefined and the
-- LINE in the block lost its owner ... all repaired by ONE run, the second run finds nothing
def damaged2 : State :=
  run fresh [.newBlock (ofString "*Paper_Space7") 47 50, .add 47 50 51, .addL 23 (some (ofString "*PAPER_SPACE7")) 51 [] 53,
    .add 23 53 54, .newGroup (ofString "G") 54 55, .setGroup (ofString "G") [51, 53]]

#guard (audit damaged2).2 == 3
#guard (audit (audit damaged2).1).2 == 0
#guard ((audit damaged2).1.groups, (audit damaged2).1.blocks.length) == ([(ofString "G", 54, [53])], 2)
#guard !decide (AuditClean damaged2)

-- the active paperspace block was renamed: the audit renames it back (1 fix), the second run finds nothing
def damaged3 : State := run fresh [.add 27 47 48, .renBlock paperSpaceName (ofString "*Paper_Space5")]
#guard needRestore damaged3
#guard (audit damaged3).2 == 1
#guard activeBr (audit damaged3).1 == some 27
#guard (audit (audit damaged3).1).2 == 0

-- a history with a block, an INSERT with ATTRIB, a copy, a move, an explode, a group, an audit and a reload meets the
-- hypotheses of `audit_sound_no_unlink`
def apiHist : List Op := [.newBlock (ofString "B") 47 50, .add 47 50 51, .addL 23 (some (ofString "b")) 51 [52, 53] 54,
  .add 23 54 55, .copy 51 27 55 [56, 57] 58, .move 23 54 27, .explode 51 [(58, [])] 59, .newGroup (ofString "G") 59 60,
  .setGroup (ofString "g") [54, 55], .audit 60, .reload 61]
example : NoUnlinkHist apiHist := by intro op hop; simp [apiHist] at hop; rcases hop with h|h|h|h|h|h|h|h|h|h|h <;> subst h <;> trivial
example : NoUnl fresh none := by intro h _ ha; simp [isAlive, findEnt, fresh] at ha
#guard decide (RefsValid (run fresh apiHist))
#guard decide (ApiValid (run fresh apiHist))
#guard (audit (run fresh apiHist)).2 == 0
#guard !decide (ApiValid (run fresh [.add 23 47 48, .unlink 23 47]))

#guard decide (AuditClean (run fresh [.add 23 47 48, .add 27 48 49, .move 27 48 23]))
#guard !decide (AuditClean damaged)

end EzdxfVerif.Props.C06

/-
C06  Audit is sound on valid documents and converges on damaged ones.
Property theorems over the structural part of `Auditor.run` modelled in Model/Audit.lean on the
document state machine (damaged states are ordinary states: dangling or wrong owners, unlinked
entities, entities listed in several entity spaces, block references without definition).
-/
import EzdxfVerif.Lemmas.Audit
import EzdxfVerif.Lemmas.DocOwner

namespace EzdxfVerif.Props.C06
open EzdxfVerif.Doc

/-- no false positives: on a clean state (every live database entity linked to an existing block
    record and listed only there, block references defined) audit applies no fix and changes nothing -/
theorem audit_sound (s : State) (h : AuditClean s) : audit s = (s, 0) := Doc.audit_sound s h

/-- no false positives of the block-section owner check for API-built documents: in every state reachable
    by a history obeying the add_entity obligation, no entity is removed from any entity space -/
theorem api_built_no_space_fix (s : State) (ops : List Op) (h : DocInv s) (ho : OwnerInv s) (hok : HistOk s ops) :
    spaceFixes (run s ops) = 0 :=
  Doc.spaceFixes_zero_of_ownerInv _ (Doc.owner_inv_reachable s ops h ho hok)

/-- after ONE audit run the state is clean - for EVERY state, i.e. for any number and combination of
    the modelled faults, not just k <= 3 -/
theorem audit_clean (s : State) : AuditClean (audit s).1 := Doc.audit_clean s

/-- convergence: a second run applies no further fix and changes nothing -/
theorem audit_fixpoint (s : State) : audit (audit s).1 = ((audit s).1, 0) := Doc.audit_fixpoint s

/-- the audited document keeps the structural invariants of C05, so everything C04 proves about the
    written file (no dead entity, each live entity at most once, handles below $HANDSEED) holds for it -/
theorem audit_inv (s : State) (h : DocInv s) (hb : BInv s) : DocInv (audit s).1 ∧ BInv (audit s).1 :=
  Doc.audit_inv s h hb

/-- audit never resurrects or invents handles: the handle history is untouched -/
theorem audit_handles (s : State) : hs (audit s).1 = hs s := Doc.audit_hs s

/-! ### non-vacuity: the damaged document of the probe in DESIGN (dangling owner, wrong owner,
    undefined block, unlinked entity, entity listed twice) -/

def fresh : State :=
  ⟨[], [(23, []), (27, [])], [(lower modelSpaceName, modelSpaceName, 23), (lower paperSpaceName, paperSpaceName, 27)],
   [⟨modelKey, ofString "Model", 23, 0⟩, ⟨upper (ofString "Layout1"), ofString "Layout1", 27, 1⟩],
   [[48], ofString "defpoints"], 47⟩

def damaged : State :=
  dmgAppend (dmgOwner (dmgOwner (run fresh [.add 23 47 48, .add 23 48 49, .ins 23 (ofString "NOPE") 49 50,
    .add 23 50 51, .add 23 51 52, .unlink 23 50]) 47 (some 65535)) 48 (some 27)) 27 51

#guard (audit damaged).2 == 6
#guard (audit (audit damaged).1).2 == 0
#guard ((audit damaged).1.spaces, (audit damaged).1.ents.map (fun e => (e.h, e.alive)))
  == ([(23, [49, 51]), (27, [])], [(47, false), (48, true), (49, false), (50, false), (51, true)])

#guard decide (AuditClean (run fresh [.add 23 47 48, .add 27 48 49, .move 27 48 23]))
#guard !decide (AuditClean damaged)

end EzdxfVerif.Props.C06

/-
C13  Curve evaluation and curve surgery are exact.
Only property theorems (`theorem`, each one a counted obligation of ./check C13), `private theorem`
helpers and non-vacuity `example`/`#guard`s live here.  Model: EzdxfVerif/Model/Curve.lean (hand
written, tied to the code by the correspondence streams of harness/props/c13.py); kernels translated
from the current source on every run: EzdxfVerif/Gen/CurveKernels.lean.

Proved at full strength: Bezier evaluation = Bernstein form, tangent = derivative, end points,
affine invariance, reversal (on the kernels translated from BOTH twins); `bisect_right` / linear
search find the knot span inside the domain; A2.2 as coded never divides by zero on a non-empty
span, sums to one, is non-negative, and equals the Cox - de Boor recursion; `Evaluator.point` equals
the textbook sum over ALL control points; rational weighting is the homogeneous form; affine
invariance of B-spline points; bulge centre/radius/apex identities; factorial/binomial tables.

`find_span` is modelled AFTER fix 8d57f80c6 of finding F13 (last non-empty span at the domain end):
the former counterexample is now a regression theorem and `findSpan_spec`, `evalPoint_total`,
`evalPoint_domain_end` hold on the closed domain of every spline with a non-degenerate domain
`U[p] < U[count]` (a necessary hypothesis: a spline whose parameter domain is a single point has no
non-empty span at all, see the `#guard` at the end).

Session 3 (sections 1 (surgery kernels), 2b, 2c, 6b - 6i; helper lemmas in EzdxfVerif/Lemmas/Curve*.lean): the generic
`Bezier` class of any degree (point, first and second derivative = `Polynomial.derivative`, reverse, transform),
`basis_vector` collocation, `split_bezier` (de Casteljau, any degree), `insert_knot` (Boehm's identity for the Cox - de Boor pieces, induction on the degree), `knot_refinement`,
rational `insert_knot` (homogeneous coordinates), `reverse` (pieces for every u; equality under interior
multiplicity <= degree via continuity at knots), `split_bspline` (both halves), first derivative of the basis
functions (A2.3 = `Polynomial.derivative` of the Cox - de Boor polynomials, The NURBS Book (2.7)), of the curve (A3.2) and
of the rational curve (A4.2, quotient rule), weight scaling, Bezier knots => Bernstein form, `bezier_to_bspline`.

Growth round 2: `degree_elevation` (A5.9) of a single Bezier segment by any `t` (the table `bezalfs`, any degree),
`bezier_decomposition` (A5.6) modelled and corresponded, global interpolation relative to a linear solver,
the value of a cubic spline at a double knot and the law of local cubic interpolation, more translated kernels.

NOT proved: degree elevation (A5.9) of multi-segment splines, the curve preservation of `bezier_decomposition` (A5.6), derivatives of order >= 2 (A2.3 is modelled for
every order and tied by correspondence), interpolation and the conic constructions: the oracle of
harness/props/c13.py checks them on the real code against exact rationals.
-/
import EzdxfVerif.Model.Curve
import EzdxfVerif.Gen.CurveKernels
import EzdxfVerif.Lemmas.CurveInsert
import EzdxfVerif.Lemmas.CurveBezier
import EzdxfVerif.Lemmas.CurveReverse
import EzdxfVerif.Lemmas.CurveDeriv
import EzdxfVerif.Lemmas.CurveSplit
import EzdxfVerif.Lemmas.CurveBezierDeriv
import EzdxfVerif.Lemmas.CurvePoly
import EzdxfVerif.Lemmas.CurveElevate
import Mathlib.Tactic.Ring
import Mathlib.Tactic.FieldSimp
import Mathlib.Tactic.Linarith

namespace EzdxfVerif.Props.C13
open EzdxfVerif.Curve
open EzdxfVerif.Gen.CurveKernels

private theorem v3ext {a b : V3} (hx : a.x = b.x) (hy : a.y = b.y) (hz : a.z = b.z) : a = b := by
  cases a; cases b; simp_all

/-! ## 1. kernels translated from the source = hand model (re-opened by any edit of the kernels) -/

/-- `_get_curve_point` / `_get_curve_tangent` of `_bezier4p.py`, `_bezier3p.py` and the Cython twins
    `FastCubicCurve` / `FastQuadCurve`, as translated on this run, equal the model kernels -/
theorem kernels_match_source (o q1 q2 q3 : V3) (t : Rat) :
    bez4PointPy o q1 q2 q3 t = bez4PointK o q1 q2 q3 t ∧ bez4PointPyx o q1 q2 q3 t = bez4PointK o q1 q2 q3 t ∧
    bez4TangentPy q1 q2 q3 t = bez4TangentK q1 q2 q3 t ∧ bez4TangentPyx q1 q2 q3 t = bez4TangentK q1 q2 q3 t ∧
    bez3PointPy o q1 q2 t = bez3PointK o q1 q2 t ∧ bez3PointPyx o q1 q2 t = bez3PointK o q1 q2 t ∧
    bez3TangentPy q1 q2 t = bez3TangentK q1 q2 t ∧ bez3TangentPyx q1 q2 t = bez3TangentK q1 q2 t := by
  refine ⟨?_, ?_, ?_, ?_, ?_, ?_, ?_, ?_⟩ <;> apply v3ext <;>
    simp only [bez4PointPy, bez4PointPyx, bez4TangentPy, bez4TangentPyx, bez3PointPy, bez3PointPyx, bez3TangentPy,
      bez3TangentPyx, bez4PointK, bez4TangentK, bez3PointK, bez3TangentK, V3.add, V3.scale] <;> ring

/-- `signed_bulge_radius` as translated from bulge.py, squared, is the model's `bulgeRadiusSq` for every
    `dist` with `dist² = |chord|²` (the square root is a free parameter constrained by its defining equation) -/
theorem bulge_radius_kernel (dist b sx sy ex ey : Rat) (hb : b ≠ 0)
    (hd : dist * dist = (ex - sx) * (ex - sx) + (ey - sy) * (ey - sy)) :
    signedBulgeRadiusPy dist b * signedBulgeRadiusPy dist b = bulgeRadiusSq sx sy ex ey b := by
  simp only [signedBulgeRadiusPy, bulgeRadiusSq]
  rw [← hd]; field_simp; ring


/-- the kernels of the curve SURGERY code as translated on this run equal the model: Boehm's `new_point` of
    `insert_knot` and of `_insert_knot_rational` (`a = (t − U[i])/(U[i+p] − U[i])`, `P[i−1]·(1−a) + P[i]·a`), the
    de Casteljau level of `split_bezier`, `quadratic_to_cubic_bezier`, and the weights of `pts[i]` in the first and
    second derivative of the generic `Bezier` class -/
theorem surgery_kernels_match_source (knots : List Rat) (cps : List V3) (p i : Nat) (t : Rat) (a b s0 c e : V3)
    (r : List V3) (n0 j : Nat) :
    insNewPoint knots cps p t i
      = (if kget knots (i + p) - kget knots i = 0 then none
         else some (insNewPointPy (kget knots i) (kget knots (i + p)) t (cps.getD (i - 1) V3.zero) (cps.getD i V3.zero))) ∧
    insNewPointRatPy (kget knots i) (kget knots (i + p)) t a b = insNewPointPy (kget knots i) (kget knots (i + p)) t a b ∧
    lerpStep t (a :: b :: r) = lerpPy a b t :: lerpStep t (b :: r) ∧
    quadToCubic ⟨s0, c, e⟩ = ⟨s0, quadC1Py s0 c e, quadC2Py s0 c e, e⟩ ∧
    bezD1Coeff n0 t j = bezD1CoeffPy j n0 t (bernstein n0 j t) ∧
    bezD2Coeff n0 t j = bezD2CoeffPy j n0 t (bernstein n0 j t) := by
  refine ⟨?_, rfl, rfl, rfl, ?_, ?_⟩
  · simp only [insNewPoint, insNewPointPy]
  · simp only [bezD1Coeff, bezD1CoeffPy]
  · simp only [bezD2Coeff, bezD2CoeffPy]

/-- the kernels of `degree_elevation` (A5.9: the entry `inv * binom(p, j) * binom(t, i - j)` of the table `bezalfs`; the two
    loop headers, the symmetric copy and `Qw[0] = Pw[0]` are checked textually) and of `bezier_decomposition` (A5.6: the
    in-place update `bezier_points[k] * alpha + bezier_points[k-1] * (1 - alpha)`; `alphas`, the multiplicity test and the
    bookkeeping of `next_bezier_points` textually) as translated on this run equal the model -/
theorem elevation_kernels_match_source (p t i j s : Nat) (alphas : Nat → Rat) (bez : List V3) (k : Nat)
    (hin : i - t ≤ j ∧ j ≤ min p i) (hk : s ≤ k ∧ k ≤ p) (hkl : k < bez.length) :
    bezalfsFirst p t i j = bezalfsCoeffPy (choose (p + t) i : Rat) (choose p j : Rat) (choose t (i - j) : Rat) ∧
    (decompInsertOnce alphas p s bez).getD k V3.zero
      = decompUpdatePy (alphas (k - s)) (bez.getD k V3.zero) (bez.getD (k - 1) V3.zero) := by
  constructor
  · simp only [bezalfsFirst, bezalfsCoeffPy, if_pos hin]
  · simp only [decompInsertOnce, decompUpdatePy, List.getD_eq_getElem?_getD, List.getElem?_map,
      List.getElem?_range hkl, Option.map_some, Option.getD_some, if_pos hk]

/-! ## 2. Bezier curves -/

/-- the coded cubic / quadratic evaluation (offset trick included) is the Bernstein form -/
theorem bezier_point_bernstein (c : Bez4) (d : Bez3) (t : Rat) :
    c.point t = bernsteinCurve [c.p0, c.p1, c.p2, c.p3] t ∧ d.point t = bernsteinCurve [d.p0, d.p1, d.p2] t := by
  constructor <;> apply v3ext <;>
    simp [Bez4.point, bez4PointK, Bez3.point, bez3PointK, bernsteinCurve, bernsteinSum, bernstein, choose,
      V3.add, V3.scale, V3.sub, V3.zero] <;> ring

/-- `reverse()` runs the same curve backwards -/
theorem bezier_reverse (c : Bez4) (d : Bez3) (t : Rat) :
    c.reverse.point t = c.point (1 - t) ∧ d.reverse.point t = d.point (1 - t) := by
  constructor <;> apply v3ext <;>
    simp [Bez4.point, Bez4.reverse, bez4PointK, Bez3.point, Bez3.reverse, bez3PointK, V3.add, V3.scale, V3.sub] <;> ring

/-- `transform(m)` commutes with evaluation for every affine map (points) and the tangent is mapped
    by the linear part -/
theorem bezier_affine (c : Bez4) (d : Bez3) (m : Affine) (t : Rat) :
    (c.transform m).point t = m.apply (c.point t) ∧ (d.transform m).point t = m.apply (d.point t) ∧
    (c.transform m).tangent t = (m.apply (c.tangent t)).sub (m.apply V3.zero) := by
  refine ⟨?_, ?_, ?_⟩ <;> apply v3ext <;>
    simp [Bez4.point, Bez4.tangent, Bez4.transform, Bez3.point, Bez3.transform, Affine.apply, bez4PointK, bez4TangentK,
      bez3PointK, V3.add, V3.scale, V3.sub, V3.zero] <;> ring

/-- `tangent(t)` is the derivative of `point(t)`: exact second order Taylor expansion with an explicit
    polynomial remainder (`h² · (a₂ + a₃·(3t + h))`, `a₂ = 3(p0 − 2p1 + p2)`, `a₃ = p3 − 3p2 + 3p1 − p0`);
    an identity of polynomials in `t` and `h`, so the coefficient of `h` is the formal derivative -/
theorem bezier_tangent_is_derivative (c : Bez4) (t h : Rat) :
    c.point (t + h) = ((c.point t).add ((c.tangent t).scale h)).add
      (((((c.p0.sub (c.p1.scale 2)).add c.p2).scale 3).add
        ((((c.p3.sub (c.p2.scale 3)).add (c.p1.scale 3)).sub c.p0).scale (3 * t + h))).scale (h * h)) := by
  apply v3ext <;> simp only [Bez4.point, Bez4.tangent, bez4PointK, bez4TangentK, V3.add, V3.scale, V3.sub] <;> ring

/-- quadratic case: the remainder is `h²·(p0 − 2p1 + p2)` -/
theorem bezier3_tangent_is_derivative (c : Bez3) (t h : Rat) :
    c.point (t + h) = ((c.point t).add ((c.tangent t).scale h)).add
      (((c.p0.sub (c.p1.scale 2)).add c.p2).scale (h * h)) := by
  apply v3ext <;> simp only [Bez3.point, Bez3.tangent, bez3PointK, bez3TangentK, V3.add, V3.scale, V3.sub] <;> ring

/-- the curve starts and ends in the first / last control point, the end tangents are `n·(P1−P0)`, `n·(Pn−Pn−1)` -/
theorem bezier_endpoints (c : Bez4) (d : Bez3) :
    c.point 0 = c.p0 ∧ c.point 1 = c.p3 ∧ c.tangent 0 = (c.p1.sub c.p0).scale 3 ∧ c.tangent 1 = (c.p3.sub c.p2).scale 3 ∧
    d.point 0 = d.p0 ∧ d.point 1 = d.p2 ∧ d.tangent 0 = (d.p1.sub d.p0).scale 2 ∧ d.tangent 1 = (d.p2.sub d.p1).scale 2 := by
  refine ⟨?_, ?_, ?_, ?_, ?_, ?_, ?_, ?_⟩ <;> apply v3ext <;>
    simp only [Bez4.point, Bez4.tangent, bez4PointK, bez4TangentK, Bez3.point, Bez3.tangent, bez3PointK, bez3TangentK,
      V3.add, V3.scale, V3.sub] <;> ring


/-! ## 2b. `curvetools.split_bezier`: de Casteljau subdivision, ANY degree -/

/-- both point lists returned by `split_bezier(points, t)` have the degree of the input and reproduce the curve
    (Bernstein form = `Bezier.point`, for cubic/quadratic = `Bezier4P/Bezier3P.point`): the first one is the curve over
    `[0, t]`, the second one the curve over `[t, 1]` RUN BACKWARDS (the code collects `points[n]` of every de Casteljau
    level, so it starts in the end point; quirk kept).  Polynomial identity: any number of control points ≥ 2, any `s`,
    and any `t` the code accepts. -/
theorem split_bezier_preserves (pts : List V3) (t s : Rat) (L R : List V3)
    (h : splitBezier pts t = .ok (L, R)) :
    L.length = pts.length ∧ R.length = pts.length ∧
    bernsteinCurve L s = bernsteinCurve pts (t * s) ∧
    bernsteinCurve R s = bernsteinCurve pts (1 - (1 - t) * s) := by
  unfold splitBezier at h
  split at h
  · exact absurd h (by simp)
  · rename_i hlen
    split at h
    · exact absurd h (by simp)
    · simp only [Except.ok.injEq] at h
      have hL : L = (splitBezierAux t pts.length pts).1 := by rw [h]
      have hR : R = (splitBezierAux t pts.length pts).2 := by rw [h]
      have key : ∀ (π : V3 → Rat), π V3.zero = 0 → (∀ a b, π (a.add b) = π a + π b) → (∀ a s, π (a.scale s) = π a * s) →
          L.length = pts.length ∧ R.length = pts.length ∧
          π (bernsteinCurve L s) = π (bernsteinCurve pts (t * s)) ∧
          π (bernsteinCurve R s) = π (bernsteinCurve pts (1 - (1 - t) * s)) := by
        intro π hz ha hs
        obtain ⟨h1, h2, h3⟩ := Lemmas.Curve.splitBezierAux_spec π ha hs t pts.length pts rfl
        rw [← hL] at h1 h3
        rw [← hR] at h2 h3
        refine ⟨h1, h2, ?_, ?_⟩
        · rw [Lemmas.Curve.bernsteinCurve_proj π hz ha hs L (by omega), Lemmas.Curve.bernsteinCurve_proj π hz ha hs pts (by omega),
            h1, ← Lemmas.Curve.bz_left]
          exact Lemmas.Curve.bz_congr _ _ _ _ (fun i hi => (h3 i (by omega)).1)
        · rw [Lemmas.Curve.bernsteinCurve_proj π hz ha hs R (by omega), Lemmas.Curve.bernsteinCurve_proj π hz ha hs pts (by omega),
            h2, ← Lemmas.Curve.bz_right]
          exact Lemmas.Curve.bz_congr _ _ _ _ (fun i hi => (h3 i (by omega)).2)
      obtain ⟨kx1, kx2, kx3, kx4⟩ := key V3.x rfl (fun _ _ => rfl) (fun _ _ => rfl)
      obtain ⟨_, _, ky3, ky4⟩ := key V3.y rfl (fun _ _ => rfl) (fun _ _ => rfl)
      obtain ⟨_, _, kz3, kz4⟩ := key V3.z rfl (fun _ _ => rfl) (fun _ _ => rfl)
      exact ⟨kx1, kx2, v3ext kx3 ky3 kz3, v3ext kx4 ky4 kz4⟩

/-- … for cubic curves in terms of the class `Bezier4P` (offset trick and kernels included): the two `Bezier4P` built
    from the lists of `split_bezier` evaluate to the points of the original curve -/
theorem split_bezier_cubic (c : Bez4) (t s : Rat) (l0 l1 l2 l3 r0 r1 r2 r3 : V3)
    (h : splitBezier [c.p0, c.p1, c.p2, c.p3] t = .ok ([l0, l1, l2, l3], [r0, r1, r2, r3])) :
    (Bez4.mk l0 l1 l2 l3).point s = c.point (t * s) ∧ (Bez4.mk r0 r1 r2 r3).point s = c.point (1 - (1 - t) * s) := by
  obtain ⟨_, _, h3, h4⟩ := split_bezier_preserves _ t s _ _ h
  have d : Bez3 := ⟨V3.zero, V3.zero, V3.zero⟩
  rw [(bezier_point_bernstein ⟨l0, l1, l2, l3⟩ d s).1, (bezier_point_bernstein ⟨r0, r1, r2, r3⟩ d s).1,
    (bezier_point_bernstein c d (t * s)).1, (bezier_point_bernstein c d (1 - (1 - t) * s)).1]
  exact ⟨h3, h4⟩

/-! ## 2c. the generic `Bezier` class (any degree): point and first derivative -/

/-- **generic Bézier curve** (`bezier.py`, two or more definition points, every degree): whenever `Bezier.derivative(t)`
    returns `(point, d1, d2)`, with `t'` the parameter after the snapping `1 - t < 5e-6 → 1`:
    `point` is what `Bezier.point(t)` returns, the Bernstein form at `t'`, and for every coordinate `π` (x, y, z)
    `π point = Pπ(t')`, `π d1 = Pπ'(t')` where `Pπ = Σ_i π(P_i)·C(n,i)·X^i·(1−X)^(n−i) ∈ ℚ[X]` and `Pπ'` is
    `Polynomial.derivative` — in all three branches of the code: the closed formulas `n(P_1 − P_0)`, `n(P_n − P_{n−1})` at
    `t' = 0`, `t' = 1` and the weighted sum `Σ (i − n t)/(t(1−t))·B_{i,n}(t)·P_i` between -/
theorem generic_bezier_derivative (pts : List V3) (t : Rat) (hn : 2 ≤ pts.length) (pt d1 d2 : V3)
    (h : bezierDerivative pts t = some (pt, d1, d2))
    (π : V3 → Rat) (hz : π V3.zero = 0) (ha : ∀ a b, π (a.add b) = π a + π b) (hs : ∀ a s, π (a.scale s) = π a * s) :
    bezierPoint pts t = some pt ∧ pt = bernsteinCurve pts (bezSnap t) ∧
    π pt = (Lemmas.Curve.polySum π (pts.length - 1) 0 pts).eval (bezSnap t) ∧
    π d1 = (Polynomial.derivative (Lemmas.Curve.polySum π (pts.length - 1) 0 pts)).eval (bezSnap t) := by
  have hsub : ∀ a b : V3, π (a.sub b) = π a - π b := by
    intro a b
    have e : a.sub b = a.add (b.scale (-1)) := by apply v3ext <;> simp [V3.sub, V3.add, V3.scale] <;> ring
    rw [e, ha, hs]; ring
  have hpt : π (bernsteinCurve pts (bezSnap t)) = (Lemmas.Curve.polySum π (pts.length - 1) 0 pts).eval (bezSnap t) := by
    rw [Lemmas.Curve.polySum_eval π hz ha hs]
    simp only [bernsteinCurve, Lemmas.Curve.bernsteinSum_eq_curveSum]
  have hder := Lemmas.Curve.polySum_deriv_eval π hz ha hs (pts.length - 1) (bezSnap t) pts 0
  unfold bezierDerivative at h
  simp only [bezierPoint]
  split at h
  · exact absurd h (by simp)
  rename_i hr
  rw [if_neg hr]
  simp only at h
  split at h
  · -- t' = 0
    rename_i h0
    simp only [Option.some.injEq, Prod.mk.injEq] at h
    obtain ⟨rfl, rfl, _⟩ := h
    refine ⟨rfl, rfl, hpt, ?_⟩
    rw [hder, h0, Lemmas.Curve.curveSum_proj π hz ha hs]
    simp only [Nat.zero_add]
    rw [Lemmas.Curve.wsum_two pts.length _ 0 1 (by omega) (by omega) (by omega) (fun j hj c1 c2 => by
      rw [Lemmas.Curve.bernPoly_deriv_zero _ j (by omega), if_neg c1, if_neg c2]; simp)]
    rw [Lemmas.Curve.bernPoly_deriv_zero _ 0 (by omega), Lemmas.Curve.bernPoly_deriv_zero _ 1 (by omega)]
    simp only [if_true, hs, hsub]
    simp
    ring
  · split at h
    · -- t' = 1
      rename_i h0 h1
      simp only [Option.some.injEq, Prod.mk.injEq] at h
      obtain ⟨rfl, rfl, _⟩ := h
      refine ⟨rfl, rfl, hpt, ?_⟩
      rw [hder, h1, Lemmas.Curve.curveSum_proj π hz ha hs]
      simp only [Nat.zero_add]
      rw [Lemmas.Curve.wsum_two pts.length _ (pts.length - 1) (pts.length - 1 - 1) (by omega) (by omega) (by omega)
        (fun j hj c1 c2 => by
          rw [Lemmas.Curve.bernPoly_deriv_one _ j (by omega), if_neg c1, if_neg (by omega)]; simp)]
      rw [Lemmas.Curve.bernPoly_deriv_one _ _ (le_refl _), Lemmas.Curve.bernPoly_deriv_one _ (pts.length - 1 - 1) (by omega)]
      rw [if_pos rfl, if_neg (by omega), if_pos (by omega)]
      simp only [hs, hsub]
      ring
    · -- 0 < t' < 1
      rename_i h0 h1
      simp only [Option.some.injEq, Prod.mk.injEq] at h
      obtain ⟨rfl, rfl, _⟩ := h
      refine ⟨rfl, rfl, hpt, ?_⟩
      rw [hder]
      congr 1
      apply Lemmas.Curve.curveSum_congr
      intro i _ hi
      exact (Lemmas.Curve.bernPoly_deriv_eval _ i (by omega) _ h0 h1).symm

/-- … and the SECOND derivative between the ends (`0 < t' < 1`): `π d2 = Pπ''(t')`, i.e. the weights
    `((i − n t)² − n t² − i(1 − 2t))/(t²(1−t)²)` of the code are `B''_{i,n}/B_{i,n}`.  (The closed formulas for `d2` at
    `t' = 0, 1` are corresponded (X12) but not proved.) -/
theorem generic_bezier_second_derivative (pts : List V3) (t : Rat) (pt d1 d2 : V3)
    (h : bezierDerivative pts t = some (pt, d1, d2)) (h0 : bezSnap t ≠ 0) (h1 : bezSnap t ≠ 1)
    (π : V3 → Rat) (hz : π V3.zero = 0) (ha : ∀ a b, π (a.add b) = π a + π b) (hs : ∀ a s, π (a.scale s) = π a * s) :
    π d2 = (Polynomial.derivative (Polynomial.derivative (Lemmas.Curve.polySum π (pts.length - 1) 0 pts))).eval (bezSnap t) := by
  have hder := Lemmas.Curve.polySum_deriv2_eval π hz ha hs (pts.length - 1) (bezSnap t) pts 0
  unfold bezierDerivative at h
  split at h
  · exact absurd h (by simp)
  simp only at h
  rw [if_neg h0, if_neg h1] at h
  simp only [Option.some.injEq, Prod.mk.injEq] at h
  obtain ⟨_, _, rfl⟩ := h
  rw [hder]
  congr 1
  apply Lemmas.Curve.curveSum_congr
  intro i _ hi
  exact (Lemmas.Curve.bernPoly_deriv2_eval _ i (by omega) _ h0 h1).symm

/-- **generic Bézier curve, any degree**: `Bezier.reverse()` (`reversed(control_points)`) runs the same curve backwards, and
    `Bezier.transform(m)` (`m.transform_vertices(control_points)`) commutes with evaluation for every affine map
    (`Σ_i B_{i,n} = 1`) — in the Bernstein form that `Bezier.point` evaluates -/
theorem generic_bezier_reverse_affine (pts : List V3) (hn : 1 ≤ pts.length) (t : Rat) (m : Affine) :
    bernsteinCurve pts.reverse t = bernsteinCurve pts (1 - t) ∧
    bernsteinCurve (pts.map m.apply) t = m.apply (bernsteinCurve pts t) := by
  constructor
  · simp only [bernsteinCurve, Lemmas.Curve.bernsteinSum_eq_curveSum, List.length_reverse]
    apply Lemmas.Curve.curveSum_reverse
    intro i hi
    have := Lemmas.Curve.bernstein_symm (pts.length - 1) i (by omega) (1 - t)
    have e : 1 - (1 - t) = t := by ring
    rw [e] at this
    have e2 : pts.length - 1 - i = pts.length - 1 - i := rfl
    rw [← this]
  · have hlin : ∀ (n : Nat) (a b c f : Nat → Rat) (c1 c2 c3 c4 : Rat),
        Lemmas.Curve.wsum n (fun j => (a j * c1 + b j * c2 + c j * c3 + c4) * f j)
          = c1 * Lemmas.Curve.wsum n (fun j => a j * f j) + c2 * Lemmas.Curve.wsum n (fun j => b j * f j)
            + c3 * Lemmas.Curve.wsum n (fun j => c j * f j) + c4 * Lemmas.Curve.wsum n f := by
      intro n a b c f c1 c2 c3 c4
      induction n with
      | zero => simp [Lemmas.Curve.wsum]
      | succ n ih => simp only [Lemmas.Curve.wsum, ih]; ring
    have hone : Lemmas.Curve.wsum pts.length (fun j => bernstein (pts.length - 1) j t) = 1 := by
      have := Lemmas.Curve.bz_one (pts.length - 1) t
      simp only [Lemmas.Curve.bz, mul_one] at this
      have e : pts.length - 1 + 1 = pts.length := by omega
      rw [e] at this
      exact this
    have hget : ∀ j, j < pts.length → (pts.map m.apply).getD j V3.zero = m.apply (pts.getD j V3.zero) := by
      intro j hj
      simp only [List.getD_eq_getElem?_getD, List.getElem?_map, List.getElem?_eq_getElem hj]
      rfl
    have key : ∀ (π : V3 → Rat) (c1 c2 c3 c4 : Rat), π V3.zero = 0 → (∀ a b, π (a.add b) = π a + π b) →
        (∀ a s, π (a.scale s) = π a * s) → (∀ v, π (m.apply v) = v.x * c1 + v.y * c2 + v.z * c3 + c4) →
        π (bernsteinCurve (pts.map m.apply) t) = π (m.apply (bernsteinCurve pts t)) := by
      intro π c1 c2 c3 c4 hz ha hs hπ
      rw [hπ]
      simp only [bernsteinCurve, Lemmas.Curve.bernsteinSum_eq_curveSum, List.length_map]
      rw [Lemmas.Curve.curveSum_proj π hz ha hs, Lemmas.Curve.curveSum_proj V3.x rfl (fun _ _ => rfl) (fun _ _ => rfl),
        Lemmas.Curve.curveSum_proj V3.y rfl (fun _ _ => rfl) (fun _ _ => rfl),
        Lemmas.Curve.curveSum_proj V3.z rfl (fun _ _ => rfl) (fun _ _ => rfl), List.length_map]
      rw [Lemmas.Curve.wsum_congr pts.length _ (fun j => ((pts.getD j V3.zero).x * c1 + (pts.getD j V3.zero).y * c2
          + (pts.getD j V3.zero).z * c3 + c4) * bernstein (pts.length - 1) j t)
        (fun j hj => by rw [hget j hj, hπ, Nat.zero_add])]
      rw [hlin, hone]
      simp only [Nat.zero_add]
      ring
    apply v3ext
    · exact key V3.x m.m0 m.m4 m.m8 m.m12 rfl (fun _ _ => rfl) (fun _ _ => rfl) (fun _ => rfl)
    · exact key V3.y m.m1 m.m5 m.m9 m.m13 rfl (fun _ _ => rfl) (fun _ _ => rfl) (fun _ => rfl)
    · exact key V3.z m.m2 m.m6 m.m10 m.m14 rfl (fun _ _ => rfl) (fun _ _ => rfl) (fun _ => rfl)

/-! ## 3. knot span search (`Basis.find_span`) -/

@[simp] private theorem kget_cons_zero (a : Rat) (r : List Rat) : kget (a :: r) 0 = a := rfl
@[simp] private theorem kget_cons_succ (a : Rat) (r : List Rat) (i : Nat) : kget (a :: r) (i + 1) = kget r i := rfl

private theorem nd_head_le : ∀ (r : List Rat) (a : Rat), nondecreasing (a :: r) = true → ∀ j, j < r.length → a ≤ kget r j
  | [], _, _, j, hj => by simp at hj
  | b :: r, a, h, j, hj => by
    simp only [nondecreasing, Bool.and_eq_true, decide_eq_true_eq] at h
    cases j with
    | zero => simpa using h.1
    | succ j =>
      have := nd_head_le r b h.2 j (by simpa using hj)
      simp only [kget_cons_succ]; exact le_trans h.1 this

private theorem nd_mono : ∀ (l : List Rat), nondecreasing l = true → ∀ i j, i ≤ j → j < l.length → kget l i ≤ kget l j
  | [], _, i, j, _, hj => by simp at hj
  | a :: r, h, i, j, hij, hj => by
    cases i with
    | zero =>
      cases j with
      | zero => simp
      | succ j => simpa using nd_head_le r a h j (by simpa using hj)
    | succ i =>
      cases j with
      | zero => omega
      | succ j =>
        have ht : nondecreasing r = true := by
          cases r with
          | nil => rfl
          | cons b r => simp only [nondecreasing, Bool.and_eq_true] at h; exact h.2
        simpa using nd_mono r ht i j (by omega) (by simpa using hj)

/-- `bisect.bisect_right(a, x, lo, hi)` and the hand rolled loop of bspline.pyx on a nondecreasing list:
    everything in `[lo, r)` is `≤ x`, everything in `[r, hi)` is `> x` -/
theorem bisectRight_spec (a : List Rat) (x : Rat) (lo hi : Nat) (hs : nondecreasing a = true)
    (hle : lo ≤ hi) (hlen : hi ≤ a.length) :
    lo ≤ bisectRight a x lo hi ∧ bisectRight a x lo hi ≤ hi ∧
    (∀ i, lo ≤ i → i < bisectRight a x lo hi → kget a i ≤ x) ∧
    (∀ i, bisectRight a x lo hi ≤ i → i < hi → x < kget a i) := by
  fun_induction bisectRight a x lo hi with
  | case1 lo hi hlt mid hx ih =>
    have hm : lo ≤ mid ∧ mid < hi := by constructor <;> omega
    obtain ⟨h1, h2, h3, h4⟩ := ih (by omega) (by omega)
    refine ⟨h1, by omega, h3, ?_⟩
    intro i hi1 hi2
    by_cases him : i < mid
    · exact h4 i hi1 him
    · have := nd_mono a hs mid i (by omega) (by omega)
      exact lt_of_lt_of_le hx this
  | case2 lo hi hlt mid hx ih =>
    have hm : lo ≤ mid ∧ mid < hi := by constructor <;> omega
    obtain ⟨h1, h2, h3, h4⟩ := ih (by omega) (by omega)
    refine ⟨by omega, h2, ?_, h4⟩
    intro i hi1 hi2
    by_cases him : mid + 1 ≤ i
    · exact h3 i him hi2
    · have := nd_mono a hs i mid (by omega) (by omega)
      exact le_trans this (not_lt.mp hx)
  | case3 lo hi hlt =>
    refine ⟨le_refl _, hle, ?_, ?_⟩
    · intro i h1 h2; omega
    · intro i h1 h2; omega

private theorem linearSearch_spec (a : List Rat) (u : Rat) (count span : Nat) :
    span ≤ linearSearch a u count span ∧
    (∀ i, span ≤ i → i < linearSearch a u count span → kget a i ≤ u) ∧
    ¬ (kget a (linearSearch a u count span) ≤ u ∧ linearSearch a u count span < count) := by
  fun_induction linearSearch a u count span with
  | case1 span h ih =>
    obtain ⟨h1, h2, h3⟩ := ih
    refine ⟨by omega, ?_, h3⟩
    intro i hi1 hi2
    by_cases hi : i = span
    · subst hi; exact h.1
    · exact h2 i (by omega) hi2
  | case2 span h =>
    refine ⟨le_refl _, ?_, h⟩
    intro i h1 h2; omega

/-- `Basis.find_span` (both search branches) returns the knot span that contains `u`, for EVERY nondecreasing
    knot vector, order and `u` in the half open domain `[U[p], U[count])`: `U[s] ≤ u < U[s+1]` -/
theorem findSpan_spec_interior (knots : List Rat) (order count : Nat) (u : Rat)
    (hs : nondecreasing knots = true) (ho : 1 ≤ order) (hoc : order ≤ count)
    (hl : knots.length = order + count)
    (hlo : kget knots (order - 1) ≤ u) (hhi : u < kget knots count) :
    ∃ s : Nat, findSpan knots order count u = (s : Int) ∧ order - 1 ≤ s ∧ s < count ∧
      kget knots s ≤ u ∧ u < kget knots (s + 1) := by
  unfold findSpan
  simp only
  rw [if_neg (not_le.mpr hhi)]
  split
  · -- binary search
    obtain ⟨h1, h2, h3, h4⟩ := bisectRight_spec knots u (order - 1) count hs (by omega) (by omega)
    generalize bisectRight knots u (order - 1) count = r at *
    have hr : order - 1 < r := by
      by_contra hcon
      have : r = order - 1 := by omega
      have := h4 (order - 1) (by omega) (by omega)
      exact absurd hlo (not_le.mpr this)
    refine ⟨r - 1, by omega, by omega, by omega, h3 (r - 1) (by omega) (by omega), ?_⟩
    have e : r - 1 + 1 = r := by omega
    rw [e]
    by_cases hrc : r < count
    · exact h4 r (le_refl _) hrc
    · have : r = count := by omega
      rw [this]; exact hhi
  · -- linear search
    obtain ⟨h1, h2, h3⟩ := linearSearch_spec knots u count 0
    generalize linearSearch knots u count 0 = r at *
    have hr : order - 1 < r := by
      by_contra hcon
      have hle : kget knots r ≤ kget knots (order - 1) := nd_mono knots hs r (order - 1) (by omega) (by omega)
      exact h3 ⟨le_trans hle hlo, by omega⟩
    have hrc : r ≤ count := by
      by_contra hcon
      have hc := h2 count (by omega) (by omega)
      exact absurd hc (not_le.mpr hhi)
    refine ⟨r - 1, by omega, by omega, by omega, h2 (r - 1) (by omega) (by omega), ?_⟩
    have e : r - 1 + 1 = r := by omega
    rw [e]
    by_cases hrc' : r < count
    · by_contra hcon
      exact h3 ⟨not_lt.mp hcon, hrc'⟩
    · have : r = count := by omega
      rw [this]; exact hhi

private theorem backSearch_spec (knots : List Rat) (p count : Nat) : ∀ (start : Nat),
    backSearch knots p count start ≤ start ∧
    (∀ i, backSearch knots p count start < i → i ≤ start → kget knots count ≤ kget knots i) ∧
    ¬ (backSearch knots p count start > p ∧ kget knots count ≤ kget knots (backSearch knots p count start)) ∧
    (p ≤ start → p ≤ backSearch knots p count start)
  | 0 => by
    refine ⟨le_refl _, ?_, ?_, ?_⟩
    · intro i h1 h2; simp only [backSearch] at h1; omega
    · simp only [backSearch]; omega
    · intro h; simp only [backSearch]; omega
  | start + 1 => by
    obtain ⟨h1, h2, h3, h4⟩ := backSearch_spec knots p count start
    by_cases hc : start + 1 > p ∧ kget knots count ≤ kget knots (start + 1)
    · have e : backSearch knots p count (start + 1) = backSearch knots p count start := by
        simp only [backSearch, if_pos hc]
      rw [e]
      refine ⟨by omega, ?_, h3, fun _ => h4 (by omega)⟩
      intro i hi1 hi2
      by_cases hi : i = start + 1
      · subst hi; exact hc.2
      · exact h2 i hi1 (by omega)
    · have e : backSearch knots p count (start + 1) = start + 1 := by
        simp only [backSearch, if_neg hc]
      rw [e]
      exact ⟨le_refl _, fun i a b => by omega, hc, fun h => h⟩

/-- the special case `u >= knots[count]` as fixed by 8d57f80c6: for EVERY `u` at or beyond the domain end the LAST
    NON-EMPTY span is returned (its right end is the domain end), for every nondecreasing knot vector with a
    non-degenerate domain -/
theorem findSpan_domain_end (knots : List Rat) (order count : Nat) (u : Rat)
    (hs : nondecreasing knots = true) (ho : 1 ≤ order) (hoc : order ≤ count)
    (hl : knots.length = order + count)
    (hdom : kget knots (order - 1) < kget knots count) (hu : kget knots count ≤ u) :
    ∃ s : Nat, findSpan knots order count u = (s : Int) ∧ order - 1 ≤ s ∧ s < count ∧
      kget knots s < kget knots (s + 1) ∧ kget knots (s + 1) = kget knots count := by
  obtain ⟨h1, h2, h3, h4⟩ := backSearch_spec knots (order - 1) count (count - 1)
  have hfs : findSpan knots order count u = (backSearch knots (order - 1) count (count - 1) : Int) := by
    unfold findSpan
    simp only
    rw [if_pos hu, if_neg (by omega)]
  generalize backSearch knots (order - 1) count (count - 1) = r at *
  have hp := h4 (by omega)
  have hlt : kget knots r < kget knots count := by
    by_cases hr : r > order - 1
    · by_contra hcon; exact h3 ⟨hr, not_lt.mp hcon⟩
    · have : r = order - 1 := by omega
      rw [this]; exact hdom
  have heq : kget knots (r + 1) = kget knots count := by
    by_cases hr : r + 1 = count
    · rw [hr]
    · exact le_antisymm (nd_mono knots hs (r + 1) count (by omega) (by omega)) (h2 (r + 1) (by omega) (by omega))
  exact ⟨r, hfs, hp, by omega, by rw [heq]; exact hlt, heq⟩

/-- FULL STRENGTH (provable since fix 8d57f80c6; false before, finding F13): on the CLOSED domain `[U[p], U[count]]`
    of every nondecreasing knot vector with a non-degenerate domain, `find_span` returns a NON-EMPTY span inside the
    control point range whose closure contains `u` -/
theorem findSpan_spec (knots : List Rat) (order count : Nat) (u : Rat)
    (hs : nondecreasing knots = true) (ho : 1 ≤ order) (hoc : order ≤ count)
    (hl : knots.length = order + count)
    (hdom : kget knots (order - 1) < kget knots count)
    (hlo : kget knots (order - 1) ≤ u) (hhi : u ≤ kget knots count) :
    ∃ s : Nat, findSpan knots order count u = (s : Int) ∧ order - 1 ≤ s ∧ s < count ∧
      kget knots s < kget knots (s + 1) ∧ kget knots s ≤ u ∧ u ≤ kget knots (s + 1) := by
  rcases lt_or_eq_of_le hhi with hlt | heq
  · obtain ⟨s, hfs, h1, h2, h3, h4⟩ := findSpan_spec_interior knots order count u hs ho hoc hl hlo hlt
    exact ⟨s, hfs, h1, h2, lt_of_le_of_lt h3 h4, h3, le_of_lt h4⟩
  · obtain ⟨s, hfs, h1, h2, h3, h4⟩ := findSpan_domain_end knots order count u hs ho hoc hl hdom (by rw [heq])
    exact ⟨s, hfs, h1, h2, h3, by rw [heq, ← h4]; exact le_of_lt h3, by rw [h4, heq]⟩

/-- regression witness of finding F13 (was `findSpan = 3`, an empty span, and `evalPoint = none` = ZeroDivisionError
    before the fix): the end-of-domain knot 3 is repeated in an unclamped vector, the last non-empty span 2 is returned
    and the curve ends in the control-polygon value `(3, 2, 0)` -/
theorem findSpan_repeated_end_knot_regression :
    let U : List Rat := [0, 1, 2, 3, 3, 4, 5]
    let P : List V3 := [⟨0, 0, 0⟩, ⟨1, 2, 0⟩, ⟨3, 2, 0⟩, ⟨4, 0, 0⟩]
    nondecreasing U = true ∧ kget U 3 = kget U (3 + 1) ∧
    findSpan U 3 4 3 = 2 ∧ evalPoint U [] P 3 3 = some ⟨3, 2, 0⟩ := by
  decide +kernel


/-! ## 4. basis functions (The NURBS Book A2.2 as coded) -/

private theorem basisInner_sum (L R : Nat → Rat) (j : Nat) :
    ∀ (N : List Rat) (r : Nat) (saved : Rat) (out : List Rat),
      basisInner L R j r saved N = some out → out.sum = saved + N.sum
  | [], r, saved, out, h => by
    simp only [basisInner, Option.some.injEq] at h; subst h; simp
  | n :: rest, r, saved, out, h => by
    simp only [basisInner] at h
    split at h
    · exact absurd h (by simp)
    · rename_i hden
      simp only [Option.map_eq_some_iff] at h
      obtain ⟨t, ht, rfl⟩ := h
      have ih := basisInner_sum L R j rest (r + 1) _ t ht
      simp only [List.sum_cons, ih]
      field_simp
      ring

private theorem basisInner_length (L R : Nat → Rat) (j : Nat) :
    ∀ (N : List Rat) (r : Nat) (saved : Rat) (out : List Rat),
      basisInner L R j r saved N = some out → out.length = N.length + 1
  | [], r, saved, out, h => by
    simp only [basisInner, Option.some.injEq] at h; subst h; simp
  | n :: rest, r, saved, out, h => by
    simp only [basisInner] at h
    split at h
    · exact absurd h (by simp)
    · simp only [Option.map_eq_some_iff] at h
      obtain ⟨t, ht, rfl⟩ := h
      simp [basisInner_length L R j rest (r + 1) _ t ht]

private theorem basisInner_nonneg (L R : Nat → Rat) (j : Nat) (hL : ∀ i, 1 ≤ i → i ≤ j → 0 ≤ L i) (hR : ∀ i, 1 ≤ i → i ≤ j → 0 ≤ R i) :
    ∀ (N : List Rat) (r : Nat) (saved : Rat) (out : List Rat), r + N.length = j → 0 ≤ saved → (∀ x ∈ N, 0 ≤ x) →
      basisInner L R j r saved N = some out → ∀ x ∈ out, 0 ≤ x
  | [], r, saved, out, _, hsv, _, h => by
    simp only [basisInner, Option.some.injEq] at h; subst h; simpa using hsv
  | n :: rest, r, saved, out, hlen, hsv, hN, h => by
    simp only [basisInner] at h
    split at h
    · exact absurd h (by simp)
    · rename_i hden
      simp only [Option.map_eq_some_iff] at h
      obtain ⟨t, ht, rfl⟩ := h
      simp only [List.length_cons] at hlen
      have hl := hL (j - r) (by omega) (by omega)
      have hr := hR (r + 1) (by omega) (by omega)
      have hn : 0 ≤ n := hN n (by simp)
      have hdpos : 0 < R (r + 1) + L (j - r) := lt_of_le_of_ne (by linarith) (Ne.symm hden)
      have htemp : 0 ≤ n / (R (r + 1) + L (j - r)) := div_nonneg hn (le_of_lt hdpos)
      have ih := basisInner_nonneg L R j hL hR rest (r + 1) _ t (by omega) (mul_nonneg hl htemp)
        (fun x hx => hN x (by simp [hx])) ht
      intro x hx
      simp only [List.mem_cons] at hx
      rcases hx with rfl | hx
      · exact add_nonneg hsv (mul_nonneg hr htemp)
      · exact ih x hx

private theorem basisInner_total (L R : Nat → Rat) (j : Nat) :
    ∀ (N : List Rat) (r : Nat) (saved : Rat), r + N.length = j →
      (∀ r', r ≤ r' → r' < j → R (r' + 1) + L (j - r') ≠ 0) →
      ∃ out, basisInner L R j r saved N = some out
  | [], r, saved, _, _ => ⟨[saved], rfl⟩
  | n :: rest, r, saved, hlen, hden => by
    simp only [List.length_cons] at hlen
    simp only [basisInner]
    rw [if_neg (hden r (le_refl _) (by omega))]
    obtain ⟨t, ht⟩ := basisInner_total L R j rest (r + 1) (L (j - r) * (n / (R (r + 1) + L (j - r)))) (by omega)
      (fun r' h1 h2 => hden r' (by omega) h2)
    exact ⟨_, by rw [ht]; rfl⟩

private theorem basisStages_sum (L R : Nat → Rat) :
    ∀ (n j : Nat) (N out : List Rat), basisStages L R j n N = some out → out.sum = N.sum
  | 0, j, N, out, h => by simp only [basisStages, Option.some.injEq] at h; subst h; rfl
  | n + 1, j, N, out, h => by
    simp only [basisStages, Option.bind_eq_some_iff] at h
    obtain ⟨M, hM, hout⟩ := h
    rw [basisStages_sum L R n (j + 1) M out hout, basisInner_sum L R j N 0 0 M hM]; simp

private theorem basisStages_length (L R : Nat → Rat) :
    ∀ (n j : Nat) (N out : List Rat), basisStages L R j n N = some out → out.length = N.length + n
  | 0, j, N, out, h => by simp only [basisStages, Option.some.injEq] at h; subst h; rfl
  | n + 1, j, N, out, h => by
    simp only [basisStages, Option.bind_eq_some_iff] at h
    obtain ⟨M, hM, hout⟩ := h
    rw [basisStages_length L R n (j + 1) M out hout, basisInner_length L R j N 0 0 M hM]; omega

private theorem basisStages_nonneg (L R : Nat → Rat) :
    ∀ (n j : Nat) (N out : List Rat), N.length = j →
      (∀ i, 1 ≤ i → i < j + n → 0 ≤ L i) → (∀ i, 1 ≤ i → i < j + n → 0 ≤ R i) → (∀ x ∈ N, 0 ≤ x) →
      basisStages L R j n N = some out → ∀ x ∈ out, 0 ≤ x
  | 0, j, N, out, _, _, _, hN, h => by simp only [basisStages, Option.some.injEq] at h; subst h; exact hN
  | n + 1, j, N, out, hlen, hL, hR, hN, h => by
    simp only [basisStages, Option.bind_eq_some_iff] at h
    obtain ⟨M, hM, hout⟩ := h
    have hMn := basisInner_nonneg L R j (fun i h1 h2 => hL i h1 (by omega)) (fun i h1 h2 => hR i h1 (by omega))
      N 0 0 M (by omega) (le_refl _) hN hM
    have hMl := basisInner_length L R j N 0 0 M hM
    exact basisStages_nonneg L R n (j + 1) M out (by omega) (fun i h1 h2 => hL i h1 (by omega))
      (fun i h1 h2 => hR i h1 (by omega)) hMn hout

private theorem basisStages_total (L R : Nat → Rat) :
    ∀ (n j : Nat) (N : List Rat), N.length = j →
      (∀ j' r', j ≤ j' → j' < j + n → r' < j' → R (r' + 1) + L (j' - r') ≠ 0) →
      ∃ out, basisStages L R j n N = some out
  | 0, j, N, _, _ => ⟨N, rfl⟩
  | n + 1, j, N, hlen, hden => by
    obtain ⟨M, hM⟩ := basisInner_total L R j N 0 0 (by omega) (fun r' _ h2 => hden j r' (le_refl _) (by omega) h2)
    have hMl := basisInner_length L R j N 0 0 M hM
    obtain ⟨out, hout⟩ := basisStages_total L R n (j + 1) M (by omega)
      (fun j' r' h1 h2 h3 => hden j' r' (by omega) (by omega) h3)
    exact ⟨out, by simp only [basisStages, hM, Option.bind_some, hout]⟩

/-- whenever A2.2 as coded returns (no ZeroDivisionError), its values sum to 1: any order, span, knot vector, `u` -/
theorem basis_partition_of_unity (knots : List Rat) (order span : Nat) (u : Rat) (N : List Rat)
    (h : basisFuncs knots order span u = some N) : N.sum = 1 := by
  have := basisStages_sum _ _ _ _ _ _ h
  simpa using this

private theorem basis_length (knots : List Rat) (order span : Nat) (u : Rat) (N : List Rat) (ho : 1 ≤ order)
    (h : basisFuncs knots order span u = some N) : N.length = order := by
  have := basisStages_length _ _ _ _ _ _ h
  simp at this; omega

/-- inside the (closed) span all basis values are non-negative -/
theorem basis_nonneg (knots : List Rat) (order span : Nat) (u : Rat) (N : List Rat)
    (hs : nondecreasing knots = true) (hlen : span + order ≤ knots.length)
    (hlo : kget knots span ≤ u) (hhi : u ≤ kget knots (span + 1))
    (h : basisFuncs knots order span u = some N) : ∀ x ∈ N, 0 ≤ x := by
  refine basisStages_nonneg _ _ (order - 1) 1 [1] N rfl ?_ ?_ (by simp) h
  · intro i h1 h2
    have := nd_mono knots hs (span + 1 - i) span (by omega) (by omega)
    simp only [leftAt]; linarith
  · intro i h1 h2
    have := nd_mono knots hs (span + 1) (span + i) (by omega) (by omega)
    simp only [rightAt]; linarith

/-- A2.2 as coded cannot raise ZeroDivisionError on a NON-EMPTY span of a nondecreasing knot vector, for any `u`
    (all denominators are `U[s+r+1] − U[s+1−(j−r)] ≥ U[s+1] − U[s] > 0`) -/
theorem basis_total (knots : List Rat) (order span : Nat) (u : Rat)
    (hs : nondecreasing knots = true) (hlen : span + order ≤ knots.length)
    (hne : kget knots span < kget knots (span + 1)) :
    ∃ N, basisFuncs knots order span u = some N := by
  refine basisStages_total _ _ (order - 1) 1 [1] rfl ?_
  intro j' r' h1 h2 h3
  have ha := nd_mono knots hs (span + 1 - (j' - r')) span (by omega) (by omega)
  have hb := nd_mono knots hs (span + 1) (span + (r' + 1)) (by omega) (by omega)
  simp only [leftAt, rightAt]
  intro hz
  linarith

/-! ## 5. A2.2 = Cox - de Boor -/

private theorem spanPiece_vanish (U : List Rat) (u : Rat) (s : Nat) :
    ∀ (p i : Nat), (s < i ∨ i + p < s) → spanPiece U u s p i = 0
  | 0, i, h => by
    simp only [spanPiece, cdb]
    rw [if_neg]; omega
  | p + 1, i, h => by
    have h1 := spanPiece_vanish U u s p i (by omega)
    have h2 := spanPiece_vanish U u s p (i + 1) (by omega)
    simp only [spanPiece] at h1 h2 ⊢
    simp only [cdb, h1, h2]
    simp

private theorem spanPiece_succ (U : List Rat) (u : Rat) (s p i : Nat) :
    spanPiece U u s (p + 1) i =
      (if kget U (i + p + 1) - kget U i = 0 then 0
        else (u - kget U i) / (kget U (i + p + 1) - kget U i) * spanPiece U u s p i)
      + (if kget U (i + p + 2) - kget U (i + 1) = 0 then 0
        else (kget U (i + p + 2) - u) / (kget U (i + p + 2) - kget U (i + 1)) * spanPiece U u s p (i + 1)) := by
  simp only [spanPiece, cdb]

private theorem inner_piece (U : List Rat) (u : Rat) (s : Nat) (L R : Nat → Rat) (q a : Nat) (hs : s = a + q + 1)
    (hL : ∀ r, r ≤ q → L (q + 1 - r) = u - kget U (a + r + 1))
    (hR : ∀ r, r ≤ q → R (r + 1) = kget U (a + r + q + 2) - u)
    (hden : ∀ r, r ≤ q → kget U (a + r + q + 2) - kget U (a + r + 1) ≠ 0) :
    ∀ (n r : Nat), r + n = q + 1 →
      basisInner L R (q + 1) r (firstTerm U u s q a r)
        ((List.range' r n).map (fun r' => spanPiece U u s q (a + r' + 1)))
      = some ((List.range' r (n + 1)).map (fun r' => spanPiece U u s (q + 1) (a + r')))
  | 0, r, hr => by
    have hrq : r = q + 1 := by omega
    simp only [List.range'_zero, List.map_nil, basisInner, Nat.zero_add, List.range'_one, List.map_cons,
      Option.some.injEq, List.cons.injEq, and_true]
    rw [spanPiece_succ]
    have hv : spanPiece U u s q (a + r + 1) = 0 := spanPiece_vanish U u s q _ (by omega)
    rw [hv]
    simp [firstTerm]
  | n + 1, r, hr => by
    have hrq : r ≤ q := by omega
    have ih := inner_piece U u s L R q a hs hL hR hden n (r + 1) (by omega)
    rw [List.range'_succ, List.map_cons]
    simp only [basisInner]
    have hd : R (r + 1) + L (q + 1 - r) = kget U (a + r + q + 2) - kget U (a + r + 1) := by
      rw [hL r hrq, hR r hrq]; ring
    have hne := hden r hrq
    rw [hd, if_neg hne]
    -- next `saved` is the first summand for r+1
    have hsaved : L (q + 1 - r) * (spanPiece U u s q (a + r + 1) / (kget U (a + r + q + 2) - kget U (a + r + 1)))
        = firstTerm U u s q a (r + 1) := by
      have e2 : a + (r + 1) = a + r + 1 := by omega
      have e1 : a + r + 1 + q + 1 = a + r + q + 2 := by omega
      simp only [firstTerm, e2, e1]
      rw [if_neg hne, hL r hrq]
      field_simp
    rw [hsaved, ih]
    simp only [Option.map_some, Option.some.injEq]
    rw [List.range'_succ (n := n + 1), List.map_cons]
    congr 1
    rw [spanPiece_succ, if_neg hne, hR r hrq]
    simp only [firstTerm]
    have e3 : a + r + 1 + q + 1 = a + r + q + 2 := by omega
    split <;> field_simp

private theorem stage_piece (U : List Rat) (u : Rat) (s q : Nat)
    (hsort : nondecreasing U = true) (hq : q + 1 ≤ s) (hlen : s + q + 2 ≤ U.length)
    (hne : kget U s < kget U (s + 1)) :
    basisInner (leftAt U s u) (rightAt U s u) (q + 1) 0 0 (pieceList U u s q) = some (pieceList U u s (q + 1)) := by
  have hfirstTerm : firstTerm U u s q (s - q - 1) 0 = 0 := by
    have hv : spanPiece U u s q (s - q - 1 + 0) = 0 := spanPiece_vanish U u s q _ (by omega)
    simp only [firstTerm, hv, mul_zero, ite_self]
  have key := inner_piece U u s (leftAt U s u) (rightAt U s u) q (s - q - 1) (by omega)
    (by intro r hr; simp only [leftAt]; congr 2; omega)
    (by intro r hr; simp only [rightAt]; congr 2; omega)
    (by
      intro r hr
      have h1 := nd_mono U hsort (s - q - 1 + r + 1) s (by omega) (by omega)
      have h2 := nd_mono U hsort (s + 1) (s - q - 1 + r + q + 2) (by omega) (by omega)
      intro hz; linarith)
    (q + 1) 0 (by omega)
  rw [hfirstTerm] at key
  have e1 : pieceList U u s q = (List.range' 0 (q + 1)).map (fun r' => spanPiece U u s q (s - q - 1 + r' + 1)) := by
    simp only [pieceList]
    apply List.map_congr_left
    intro r _; congr 1; omega
  have e2 : pieceList U u s (q + 1) = (List.range' 0 (q + 1 + 1)).map (fun r' => spanPiece U u s (q + 1) (s - q - 1 + r')) := by
    simp only [pieceList]
    apply List.map_congr_left
    intro r _; congr 1
  rw [e1, e2]; exact key

private theorem stages_piece (U : List Rat) (u : Rat) (s : Nat) (hsort : nondecreasing U = true)
    (hne : kget U s < kget U (s + 1)) :
    ∀ (n q : Nat), q + n ≤ s → s + q + n + 1 ≤ U.length →
      basisStages (leftAt U s u) (rightAt U s u) (q + 1) n (pieceList U u s q) = some (pieceList U u s (q + n))
  | 0, q, _, _ => rfl
  | n + 1, q, h1, h2 => by
    simp only [basisStages]
    rw [stage_piece U u s q hsort (by omega) (by omega) hne]
    simp only [Option.bind_some]
    have := stages_piece U u s hsort hne n (q + 1) (by omega) (by omega)
    rw [this]; congr 2; omega

/-- A2.2 as coded computes, for EVERY `u`, exactly the `order` polynomial pieces of the Cox - de Boor basis functions
    that belong to span `s` (so the value at the right end of the span is the left limit of the textbook function) -/
theorem basisFuncs_eq_spanPiece (knots : List Rat) (order s : Nat) (u : Rat)
    (hsort : nondecreasing knots = true) (ho : 1 ≤ order) (hp : order - 1 ≤ s)
    (hlen : s + order ≤ knots.length) (hne : kget knots s < kget knots (s + 1)) :
    basisFuncs knots order s u
      = some ((List.range' 0 order).map (fun r => spanPiece knots u s (order - 1) (s - (order - 1) + r))) := by
  have h := stages_piece knots u s hsort hne (order - 1) 0 (by omega) (by omega)
  have e0 : pieceList knots u s 0 = [1] := by simp [pieceList, spanPiece, cdb]
  rw [e0] at h
  simp only [basisFuncs, Nat.zero_add] at h ⊢
  rw [h, pieceList]
  have : order - 1 + 1 = order := by omega
  rw [this]

private theorem coxDeBoor_eq_spanPiece (U : List Rat) (u : Rat) (s : Nat) (hsort : nondecreasing U = true)
    (hlen : s + 1 < U.length) (hlo : kget U s ≤ u) (hhi : u < kget U (s + 1)) (p i : Nat) :
    coxDeBoor U u p i = spanPiece U u s p i := by
  have hbase : (fun i => if kget U i ≤ u ∧ u < kget U (i + 1) then (1 : Rat) else 0)
      = (fun i => if i = s then (1 : Rat) else 0) := by
    funext i
    by_cases his : i = s
    · subst his; simp [hlo, hhi]
    · rw [if_neg his, if_neg]
      rintro ⟨h1, h2⟩
      rcases Nat.lt_or_gt_of_ne his with hlt | hgt
      · -- i < s : U_{i+1} ≤ U_s ≤ u
        have := nd_mono U hsort (i + 1) s (by omega) (by omega)
        linarith
      · -- s < i
        by_cases hin : i < U.length
        · have := nd_mono U hsort (s + 1) i (by omega) hin
          linarith
        · have h0 : kget U i = 0 := by
            simp [kget, List.getElem?_eq_none (not_lt.mp hin)]
          have h0' : kget U (i + 1) = 0 := by
            simp [kget, List.getElem?_eq_none (by omega : U.length ≤ i + 1)]
          rw [h0] at h1; rw [h0'] at h2; linarith
  simp only [coxDeBoor, spanPiece, hbase]

/-- … hence equals the textbook Cox - de Boor values `N_{s−p+r, p}(u)` for `u` in the half open span -/
theorem basisFuncs_eq_coxDeBoor (knots : List Rat) (order s : Nat) (u : Rat)
    (hsort : nondecreasing knots = true) (ho : 1 ≤ order) (hp : order - 1 ≤ s)
    (hlen : s + order ≤ knots.length) (hlen1 : s + 1 < knots.length)
    (hlo : kget knots s ≤ u) (hhi : u < kget knots (s + 1)) :
    basisFuncs knots order s u
      = some ((List.range' 0 order).map (fun r => coxDeBoor knots u (order - 1) (s - (order - 1) + r))) := by
  rw [basisFuncs_eq_spanPiece knots order s u hsort ho hp hlen (lt_of_le_of_lt hlo hhi)]
  congr 1
  apply List.map_congr_left
  intro r _
  rw [coxDeBoor_eq_spanPiece knots u s hsort hlen1 hlo hhi]

/-! ## 6. `Evaluator.point` (A3.1) = textbook sum over all control points -/

private theorem V3.scale_zero' (p : V3) : p.scale 0 = V3.zero := by simp [V3.scale, V3.zero]
private theorem V3.zero_add' (p : V3) : V3.zero.add p = p := by cases p; simp [V3.add, V3.zero]

private theorem curveSum_zero (f : Nat → Rat) : ∀ (l : List V3) (k : Nat), (∀ i, k ≤ i → f i = 0) → curveSum f k l = V3.zero
  | [], _, _ => rfl
  | p :: ps, k, h => by
    simp only [curveSum, h k (le_refl _), V3.scale_zero', V3.zero_add']
    exact curveSum_zero f ps (k + 1) (fun i hi => h i (by omega))

private theorem curveSum_skip (f : Nat → Rat) : ∀ (n k : Nat) (l : List V3), (∀ i, k ≤ i → i < k + n → f i = 0) →
    curveSum f k l = curveSum f (k + n) (l.drop n)
  | 0, k, l, _ => by simp
  | n + 1, k, [], _ => by simp [curveSum]
  | n + 1, k, p :: ps, h => by
    simp only [curveSum, h k (le_refl _) (by omega), V3.scale_zero', V3.zero_add', List.drop_succ_cons]
    rw [curveSum_skip f n (k + 1) ps (fun i h1 h2 => h i (by omega) (by omega))]
    congr 1; omega

private theorem curveSum_window (f : Nat → Rat) : ∀ (m k : Nat) (l : List V3), (∀ i, k + m ≤ i → f i = 0) →
    curveSum f k l = combine ((List.range' k m).map f) l
  | 0, k, l, h => by
    rw [curveSum_zero f l k (fun i hi => h i (by omega))]
    cases l <;> rfl
  | m + 1, k, [], _ => by simp [curveSum, List.range'_succ, combine]
  | m + 1, k, p :: ps, h => by
    simp only [curveSum, List.range'_succ, List.map_cons, combine]
    rw [curveSum_window f m (k + 1) ps (fun i hi => h i (by omega))]

private theorem map_shift_range' (g : Nat → Rat) (a : Nat) : ∀ (n k : Nat),
    (List.range' k n).map (fun r => g (a + r)) = (List.range' (a + k) n).map g
  | 0, _ => rfl
  | n + 1, k => by
    simp only [List.range'_succ, List.map_cons]
    rw [map_shift_range' g a n (k + 1)]
    congr 1


private theorem combine_div (s : Rat) : ∀ (l : List Rat) (pts : List V3),
    combine (l.map (· / s)) pts = (combine l pts).scale (1 / s)
  | [], _ => by simp [combine, V3.scale, V3.zero]
  | _ :: _, [] => by simp [combine, V3.scale, V3.zero]
  | n :: ns, p :: ps => by
    simp only [List.map_cons, combine, combine_div s ns ps]
    apply v3ext <;> simp only [V3.add, V3.scale] <;> ring

private theorem sum_map_div (s : Rat) (hs : s ≠ 0) : ∀ (l : List Rat), (l.map (· / s)).sum = l.sum / s
  | [] => by simp
  | n :: ns => by simp only [List.map_cons, List.sum_cons, sum_map_div s hs ns]; field_simp

/-- `span_weighting` is the rational (homogeneous) form: with `s = Σ N_i w_i ≠ 0` the weighted values sum to 1 and
    `Σ (N_i w_i / s) P_i = (Σ N_i w_i P_i) / s` -/
theorem span_weighting_rational (weights : List Rat) (order span : Nat) (N : List Rat) (pts : List V3)
    (hs : (List.zipWith (· * ·) N ((weights.drop (span + 1 - order)).take order)).sum ≠ 0) :
    let prod := List.zipWith (· * ·) N ((weights.drop (span + 1 - order)).take order)
    (spanWeighting weights order span N).sum = 1 ∧
    combine (spanWeighting weights order span N) pts = (combine prod pts).scale (1 / prod.sum) := by
  intro prod
  have hs' : prod.sum ≠ 0 := hs
  simp only [spanWeighting]
  rw [if_neg hs']
  refine ⟨?_, combine_div _ _ _⟩
  rw [sum_map_div _ hs']; exact div_self hs'


private theorem combine_affine (m : Affine) : ∀ (N : List Rat) (pts : List V3), N.length ≤ pts.length → N.sum = 1 →
    combine N (pts.map m.apply) = m.apply (combine N pts) := by
  -- generalised: Σ N_i (A p_i + b) = A Σ N_i p_i + (Σ N_i) b
  have gen : ∀ (N : List Rat) (pts : List V3), N.length ≤ pts.length →
      combine N (pts.map m.apply) =
        ⟨(combine N pts).x * m.m0 + (combine N pts).y * m.m4 + (combine N pts).z * m.m8 + N.sum * m.m12,
         (combine N pts).x * m.m1 + (combine N pts).y * m.m5 + (combine N pts).z * m.m9 + N.sum * m.m13,
         (combine N pts).x * m.m2 + (combine N pts).y * m.m6 + (combine N pts).z * m.m10 + N.sum * m.m14⟩ := by
    intro N
    induction N with
    | nil => intro pts _; cases pts <;> simp [combine, V3.zero]
    | cons n ns ih =>
      intro pts hl
      cases pts with
      | nil => simp at hl
      | cons p ps =>
        simp only [List.map_cons, combine, ih ps (by simpa using hl), List.sum_cons]
        apply v3ext <;> simp only [V3.add, V3.scale, Affine.apply] <;> ring
  intro N pts hl hsum
  rw [gen N pts hl, hsum]
  simp [Affine.apply]

private theorem evalPoint_of_span (knots : List Rat) (cps : List V3) (order : Nat) (u : Rat) (s : Nat)
    (hfs : findSpan knots order cps.length u = (s : Int))
    (hsort : nondecreasing knots = true) (ho : 1 ≤ order) (hp : order - 1 ≤ s) (hsc : s < cps.length)
    (hl : knots.length = order + cps.length) (hne : kget knots s < kget knots (s + 1)) :
    evalPoint knots [] cps order u = some (curveSum (spanPiece knots u s (order - 1)) 0 cps) := by
  have hN := basisFuncs_eq_spanPiece knots order s u hsort ho hp (by omega) hne
  simp only [evalPoint, hfs]
  show (basisFuncsW knots [] order s u).map _ = _
  simp only [basisFuncsW, hN, Option.map_some, List.isEmpty_nil, if_true, Option.some.injEq]
  have e1 : curveSum (spanPiece knots u s (order - 1)) 0 cps
      = curveSum (spanPiece knots u s (order - 1)) (0 + (s - (order - 1))) (cps.drop (s - (order - 1))) := by
    apply curveSum_skip
    intro i _ h2
    exact spanPiece_vanish _ _ _ _ _ (by omega)
  rw [e1, curveSum_window _ order]
  · rw [map_shift_range']
    have : s + 1 - order = s - (order - 1) := by omega
    rw [this, Nat.add_zero, Nat.zero_add]
  · intro i hi
    exact spanPiece_vanish _ _ _ _ _ (by omega)

/-- `Evaluator.point(u)` (find_span + A2.2 + A3.1 as coded) equals the textbook definition
    `C(u) = Σ_{i<count} N_{i,p}(u) P_i` (Cox - de Boor, sum over ALL control points) for every nondecreasing knot vector,
    every degree, every control polygon and every `u` in `[U[p], U[count])` -/
theorem evalPoint_eq_curveRef (knots : List Rat) (cps : List V3) (order : Nat) (u : Rat)
    (hsort : nondecreasing knots = true) (ho : 1 ≤ order) (hoc : order ≤ cps.length)
    (hl : knots.length = order + cps.length)
    (hlo : kget knots (order - 1) ≤ u) (hhi : u < kget knots cps.length) :
    evalPoint knots [] cps order u = some (curveRef knots cps (order - 1) u) := by
  obtain ⟨s, hfs, hs1, hs2, hs3, hs4⟩ := findSpan_spec_interior knots order cps.length u hsort ho hoc hl hlo hhi
  rw [evalPoint_of_span knots cps order u s hfs hsort ho hs1 hs2 hl (lt_of_le_of_lt hs3 hs4)]
  have hv : coxDeBoor knots u (order - 1) = spanPiece knots u s (order - 1) :=
    funext (fun i => coxDeBoor_eq_spanPiece knots u s hsort (by omega) hs3 hs4 _ i)
  rw [curveRef, hv]

/-- at (and beyond) the end of the domain the code returns the continuation of the LAST NON-EMPTY polynomial piece
    (for `u = U[count]` the left limit of the curve), for every nondecreasing knot vector with a non-degenerate
    domain; full strength since fix 8d57f80c6 -/
theorem evalPoint_domain_end (knots : List Rat) (cps : List V3) (order : Nat) (u : Rat)
    (hsort : nondecreasing knots = true) (ho : 1 ≤ order) (hoc : order ≤ cps.length)
    (hl : knots.length = order + cps.length)
    (hdom : kget knots (order - 1) < kget knots cps.length) (hu : kget knots cps.length ≤ u) :
    ∃ s : Nat, order - 1 ≤ s ∧ s < cps.length ∧ kget knots s < kget knots (s + 1) ∧
      kget knots (s + 1) = kget knots cps.length ∧
      evalPoint knots [] cps order u = some (curveSum (spanPiece knots u s (order - 1)) 0 cps) := by
  obtain ⟨s, hfs, h1, h2, h3, h4⟩ := findSpan_domain_end knots order cps.length u hsort ho hoc hl hdom hu
  exact ⟨s, h1, h2, h3, h4, evalPoint_of_span knots cps order u s hfs hsort ho h1 h2 hl h3⟩

/-- no ZeroDivisionError anywhere from the start of the domain on (closed domain end and beyond included), rational
    or not, for every nondecreasing knot vector with a non-degenerate domain -/
theorem evalPoint_total (knots weights : List Rat) (cps : List V3) (order : Nat) (u : Rat)
    (hsort : nondecreasing knots = true) (ho : 1 ≤ order) (hoc : order ≤ cps.length)
    (hl : knots.length = order + cps.length)
    (hdom : kget knots (order - 1) < kget knots cps.length)
    (hlo : kget knots (order - 1) ≤ u) :
    ∃ v, evalPoint knots weights cps order u = some v := by
  have key : ∃ s : Nat, findSpan knots order cps.length u = (s : Int) ∧ s < cps.length ∧
      kget knots s < kget knots (s + 1) := by
    rcases lt_or_ge u (kget knots cps.length) with hlt | hge
    · obtain ⟨s, hfs, _, hs2, hs3, hs4⟩ := findSpan_spec_interior knots order cps.length u hsort ho hoc hl hlo hlt
      exact ⟨s, hfs, hs2, lt_of_le_of_lt hs3 hs4⟩
    · obtain ⟨s, hfs, _, hs2, hs3, _⟩ := findSpan_domain_end knots order cps.length u hsort ho hoc hl hdom hge
      exact ⟨s, hfs, hs2, hs3⟩
  obtain ⟨s, hfs, hs2, hne⟩ := key
  obtain ⟨N, hN⟩ := basis_total knots order s u hsort (by omega) hne
  simp only [evalPoint, hfs]
  show ∃ v, (basisFuncsW knots weights order s u).map _ = some v
  simp only [basisFuncsW, hN, Option.map_some]
  exact ⟨_, rfl⟩

/-- `BSpline.transform`: evaluating the spline of the mapped control points = mapping the evaluated point, for every
    affine map (consequence of the partition of unity) -/
theorem bspline_affine (knots : List Rat) (cps : List V3) (order : Nat) (u : Rat) (m : Affine)
    (hsort : nondecreasing knots = true) (ho : 1 ≤ order) (hoc : order ≤ cps.length)
    (hl : knots.length = order + cps.length)
    (hdom : kget knots (order - 1) < kget knots cps.length)
    (hlo : kget knots (order - 1) ≤ u) (hhi : u ≤ kget knots cps.length) :
    evalPoint knots [] (cps.map m.apply) order u = (evalPoint knots [] cps order u).map m.apply := by
  obtain ⟨s, hfs, hs1, hs2, hs3, _, _⟩ := findSpan_spec knots order cps.length u hsort ho hoc hl hdom hlo hhi
  obtain ⟨N, hN⟩ := basis_total knots order s u hsort (by omega) hs3
  have hsum := basis_partition_of_unity knots order s u N hN
  have hlen := basis_length knots order s u N ho hN
  simp only [evalPoint, List.length_map, hfs]
  show (basisFuncsW knots [] order s u).map _ = ((basisFuncsW knots [] order s u).map _).map _
  simp only [basisFuncsW, hN, Option.map_some, List.isEmpty_nil, if_true, Option.some.injEq]
  rw [← List.map_drop]
  exact combine_affine m N _ (by simp only [List.length_drop]; omega) hsum

/-- `BSpline.transform` of a RATIONAL spline (control points mapped, weights kept): commutes with evaluation for every
    affine map wherever the weight function `Σ N_i w_i` does not vanish (always, for positive weights): the weighted basis
    values sum to 1 -/
theorem bspline_affine_rational (knots weights : List Rat) (cps : List V3) (order : Nat) (u : Rat) (m : Affine)
    (hsort : nondecreasing knots = true) (ho : 1 ≤ order) (hoc : order ≤ cps.length)
    (hl : knots.length = order + cps.length) (hw : weights ≠ [])
    (hdom : kget knots (order - 1) < kget knots cps.length)
    (hlo : kget knots (order - 1) ≤ u) (hhi : u ≤ kget knots cps.length)
    (hnz : ∀ (s : Nat) (N : List Rat), findSpan knots order cps.length u = (s : Int) → basisFuncs knots order s u = some N →
      (List.zipWith (· * ·) N ((weights.drop (s + 1 - order)).take order)).sum ≠ 0) :
    evalPoint knots weights (cps.map m.apply) order u = (evalPoint knots weights cps order u).map m.apply := by
  obtain ⟨s, hfs, hs1, hs2, hs3, _, _⟩ := findSpan_spec knots order cps.length u hsort ho hoc hl hdom hlo hhi
  obtain ⟨N, hN⟩ := basis_total knots order s u hsort (by omega) hs3
  have hlen := basis_length knots order s u N ho hN
  have hs0 := hnz s N hfs hN
  have hne : weights.isEmpty = false := by cases weights <;> simp_all
  simp only [evalPoint, List.length_map, hfs]
  show (basisFuncsW knots weights order s u).map _ = ((basisFuncsW knots weights order s u).map _).map _
  simp only [basisFuncsW, hN, Option.map_some, hne, Bool.false_eq_true, if_false, Option.some.injEq]
  rw [← List.map_drop]
  have hsum := (span_weighting_rational weights order s N [] hs0).1
  have hwl : (spanWeighting weights order s N).length ≤ (cps.drop (s + 1 - order)).length := by
    simp only [spanWeighting, if_neg hs0, List.length_map, List.length_zipWith, List.length_drop]
    omega
  exact combine_affine m _ _ hwl hsum

/-! ## 6b. knot insertion (Boehm): `BSpline.insert_knot` does not change the curve -/

/-- what `find_span(t)` returned when `insert_knot` went on (`k >= p`) for a `t` below the domain end: the knot
    interval of `t` (both search branches) -/
private theorem findSpan_result_lt (knots : List Rat) (order count : Nat) (t : Rat) (k : Nat)
    (hs : nondecreasing knots = true) (ho : 1 ≤ order) (hoc : order ≤ count)
    (hl : knots.length = order + count) (ht : t < kget knots count)
    (hf : findSpan knots order count t = (k : Int)) (hpk : order - 1 ≤ k) :
    k < count ∧ kget knots k ≤ t ∧ t < kget knots (k + 1) := by
  unfold findSpan at hf
  simp only at hf
  rw [if_neg (not_le.mpr ht)] at hf
  split at hf
  · obtain ⟨h1, h2, h3, h4⟩ := bisectRight_spec knots t (order - 1) count hs (by omega) (by omega)
    generalize bisectRight knots t (order - 1) count = r at *
    have hr : r = k + 1 := by omega
    subst hr
    refine ⟨by omega, h3 k hpk (by omega), ?_⟩
    by_cases hrc : k + 1 < count
    · exact h4 (k + 1) (le_refl _) hrc
    · have : k + 1 = count := by omega
      rw [this]; exact ht
  · obtain ⟨h1, h2, h3⟩ := linearSearch_spec knots t count 0
    generalize linearSearch knots t count 0 = r at *
    have hr : r = k + 1 := by omega
    subst hr
    have hrc : k + 1 ≤ count := by
      by_contra hcon
      have hc := h2 count (by omega) (by omega)
      exact absurd hc (not_le.mpr ht)
    refine ⟨by omega, h2 k (by omega) (by omega), ?_⟩
    by_cases hrc' : k + 1 < count
    · by_contra hcon
      exact h3 ⟨not_lt.mp hcon, hrc'⟩
    · have : k + 1 = count := by omega
      rw [this]; exact ht

/-- … and up to the domain end (the special case `t = U[count]` answers with the last non-empty span) -/
private theorem findSpan_result (knots : List Rat) (order count : Nat) (t : Rat) (k : Nat)
    (hs : nondecreasing knots = true) (ho : 1 ≤ order) (hoc : order ≤ count)
    (hl : knots.length = order + count) (hdom : kget knots (order - 1) < kget knots count)
    (ht : t ≤ kget knots count)
    (hf : findSpan knots order count t = (k : Int)) (hpk : order - 1 ≤ k) :
    k < count ∧ kget knots k ≤ t ∧ t ≤ kget knots (k + 1) ∧ kget knots k < kget knots (k + 1) := by
  rcases lt_or_eq_of_le ht with ht | ht
  · have key := findSpan_result_lt knots order count t k hs ho hoc hl ht hf hpk
    exact ⟨key.1, key.2.1, le_of_lt key.2.2, lt_of_le_of_lt key.2.1 key.2.2⟩
  · obtain ⟨s, hfs, h1, h2, h3, h4⟩ := findSpan_domain_end knots order count t hs ho hoc hl hdom (by rw [ht])
    have : s = k := by rw [hfs] at hf; exact_mod_cast hf
    subst this
    exact ⟨h2, by rw [ht, ← h4]; exact le_of_lt h3, by rw [ht, h4], h3⟩

/-- the shape of a successful `insert_knot` -/
private theorem insertKnot_ok (knots : List Rat) (cps : List V3) (order : Nat) (t : Rat) (cps' : List V3)
    (knots' : List Rat) (h : insertKnot knots cps order t = .ok (cps', knots')) :
    ∃ (k : Nat) (qs : List V3), findSpan knots order cps.length t = (k : Int) ∧ order - 1 ≤ k ∧
      (List.range' (k + 1 - (order - 1)) (order - 1)).mapM (insNewPoint knots cps (order - 1) t) = some qs ∧
      cps' = cps.take (k + 1 - (order - 1)) ++ qs ++ cps.drop k ∧
      knots' = knots.take (k + 1) ++ t :: knots.drop (k + 1) := by
  unfold insertKnot at h
  simp only at h
  split at h
  · exact absurd h (by simp)
  · split at h
    · rename_i k hk
      split at h
      · exact absurd h (by simp)
      · rename_i hkp
        split at h
        · exact absurd h (by simp)
        · rename_i qs hq
          simp only [Except.ok.injEq, Prod.mk.injEq] at h
          exact ⟨k, qs, hk, by omega, hq, h.1.symm, h.2.symm⟩
    · exact absurd h (by simp)

/-- **Boehm's knot insertion** as coded in `BSpline.insert_knot` (non rational branch): whenever it returns for a `t`
    up to the end of the domain (`t = U[count] < max_t` included), the result is again a well-formed spline (nondecreasing knots, `len(knots) = order +
    count`, one more control point, same domain) and `Evaluator.point` gives the SAME point for every `u` in the
    domain `[U[p], U[count])` — every degree, every nondecreasing knot vector (clamped or not, any multiplicities,
    `t` may be an existing knot), every control polygon.
    Hypothesis `t <= U[count]`: for `U[count] < t < max_t` (possible for unclamped knots only) `find_span` answers with
    the evaluation span of the domain end and `knots.insert(k + 1, t)` puts `t` in front of smaller knots; see
    reports/C13.md, Session 3. -/
theorem insert_knot_preserves (knots : List Rat) (cps : List V3) (order : Nat) (t u : Rat)
    (cps' : List V3) (knots' : List Rat)
    (hsort : nondecreasing knots = true) (ho : 1 ≤ order) (hoc : order ≤ cps.length)
    (hl : knots.length = order + cps.length)
    (ht : t ≤ kget knots cps.length)
    (h : insertKnot knots cps order t = .ok (cps', knots'))
    (hlo : kget knots (order - 1) ≤ u) (hhi : u < kget knots cps.length) :
    nondecreasing knots' = true ∧ cps'.length = cps.length + 1 ∧ knots'.length = order + cps'.length ∧
    kget knots' (order - 1) = kget knots (order - 1) ∧ kget knots' cps'.length = kget knots cps.length ∧
    evalPoint knots' [] cps' order u = evalPoint knots [] cps order u := by
  obtain ⟨k, qs, hfs, hpk, hq, rfl, rfl⟩ := insertKnot_ok knots cps order t cps' knots' h
  obtain ⟨hkc, hkt, htk, hk⟩ := findSpan_result knots order cps.length t k hsort ho hoc hl (lt_of_le_of_lt hlo hhi) ht hfs hpk
  obtain ⟨hQl, hQv⟩ := Lemmas.Curve.insert_cps_getD knots cps (order - 1) t k qs hkc hpk hq
  have hKl := Lemmas.Curve.length_insert knots k t (by omega)
  have hKg := Lemmas.Curve.kget_insert knots k t (by omega)
  -- monotone knot function
  have hmono : ∀ a b, a ≤ b → b ≤ order - 1 + cps.length → kget knots a ≤ kget knots b :=
    fun a b hab hb => nd_mono knots hsort a b hab (by omega)
  have hm' := Lemmas.Curve.insK_mono (kget knots) k t (order - 1 + cps.length) hmono (by omega) hkt htk
  have hsort' : nondecreasing (knots.take (k + 1) ++ t :: knots.drop (k + 1)) = true := by
    apply Lemmas.Curve.nd_of_step
    intro i hi
    rw [hKg, hKg]
    exact hm' i (i + 1) (by omega) (by omega)
  have hdlo : kget (knots.take (k + 1) ++ t :: knots.drop (k + 1)) (order - 1) = kget knots (order - 1) := by
    rw [hKg, Lemmas.Curve.insK_le _ _ _ hpk]
  have hdhi : kget (knots.take (k + 1) ++ t :: knots.drop (k + 1))
      (cps.take (k + 1 - (order - 1)) ++ qs ++ cps.drop k).length = kget knots cps.length := by
    rw [hKg, hQl, Lemmas.Curve.insK_gt _ _ _ (by omega : k + 2 ≤ cps.length + 1)]
    rfl
  refine ⟨hsort', hQl, by omega, hdlo, hdhi, ?_⟩
  -- the new spline at u
  have hK' : kget (knots.take (k + 1) ++ t :: knots.drop (k + 1)) = Lemmas.Curve.insK (kget knots) k t := funext hKg
  generalize cps.take (k + 1 - (order - 1)) ++ qs ++ cps.drop k = Q at *
  generalize knots.take (k + 1) ++ t :: knots.drop (k + 1) = K' at *
  obtain ⟨s', hfs', hs1, hs2, hs3, hs4⟩ := findSpan_spec_interior K' order Q.length u hsort' ho (by omega) (by omega)
    (by rw [hdlo]; exact hlo) (by rw [hdhi]; exact hhi)
  rw [evalPoint_of_span K' Q order u s' hfs' hsort' ho hs1 hs2 (by omega) (lt_of_le_of_lt hs3 hs4)]
  rw [evalPoint_eq_curveRef knots cps order u hsort ho hoc hl hlo hhi, curveRef]
  -- the old span that contains the new one
  simp only [hKg] at hs3 hs4
  have hspan : kget knots (if s' ≤ k then s' else s' - 1) ≤ u ∧ u < kget knots ((if s' ≤ k then s' else s' - 1) + 1) := by
    by_cases c1 : s' ≤ k
    · rw [if_pos c1]
      rw [Lemmas.Curve.insK_le _ _ _ c1] at hs3
      refine ⟨hs3, ?_⟩
      by_cases c2 : s' + 1 ≤ k
      · rw [Lemmas.Curve.insK_le _ _ _ c2] at hs4; exact hs4
      · have : s' = k := by omega
        subst this
        rw [Lemmas.Curve.insK_eq] at hs4
        exact lt_of_lt_of_le hs4 htk
    · rw [if_neg c1]
      by_cases c2 : s' = k + 1
      · subst c2
        rw [Lemmas.Curve.insK_eq] at hs3
        rw [Lemmas.Curve.insK_gt _ _ _ (by omega : k + 2 ≤ k + 1 + 1)] at hs4
        exact ⟨le_trans hkt hs3, hs4⟩
      · rw [Lemmas.Curve.insK_gt _ _ _ (by omega : k + 2 ≤ s')] at hs3
        rw [Lemmas.Curve.insK_gt _ _ _ (by omega : k + 2 ≤ s' + 1)] at hs4
        have e : s' - 1 + 1 = s' + 1 - 1 := by omega
        rw [e]; exact ⟨hs3, hs4⟩
  have hv : coxDeBoor knots u (order - 1) = spanPiece knots u (if s' ≤ k then s' else s' - 1) (order - 1) :=
    funext (fun i => coxDeBoor_eq_spanPiece knots u _ hsort (by split <;> omega) hspan.1 hspan.2 _ i)
  rw [hv]
  congr 1
  refine Lemmas.Curve.curveSum_insert _ _ (fun j => Lemmas.Curve.alpha (kget knots) k t j (order - 1)) cps _ cps.length rfl hQl
    ?_ (Lemmas.Curve.alpha_one _ _ _ (by omega)) (Lemmas.Curve.alpha_zero _ _ _ hkc) hQv
  intro i hi
  rw [Lemmas.Curve.spanPiece_eq_cdbF, Lemmas.Curve.spanPiece_eq_cdbF, Lemmas.Curve.spanPiece_eq_cdbF, hK']
  exact Lemmas.Curve.boehm_pieces (kget knots) k t u (order - 1 + cps.length) hmono hk (by omega) hkt htk s'
    (lt_of_le_of_lt hs3 hs4) (order - 1) i (by omega)

/-- … and AT (and beyond) the end of the domain: `point(u)` for `u >= U[count]` — the continuation of the last non-empty
    piece, i.e. the end point of the curve for `u = U[count]` — is unchanged as well, so `insert_knot` preserves the curve
    on the CLOSED domain -/
theorem insert_knot_preserves_domain_end (knots : List Rat) (cps : List V3) (order : Nat) (t u : Rat)
    (cps' : List V3) (knots' : List Rat)
    (hsort : nondecreasing knots = true) (ho : 1 ≤ order) (hoc : order ≤ cps.length)
    (hl : knots.length = order + cps.length)
    (hdom : kget knots (order - 1) < kget knots cps.length)
    (ht : t ≤ kget knots cps.length)
    (h : insertKnot knots cps order t = .ok (cps', knots'))
    (hu : kget knots cps.length ≤ u) :
    evalPoint knots' [] cps' order u = evalPoint knots [] cps order u := by
  obtain ⟨k, qs, hfs, hpk, hq, rfl, rfl⟩ := insertKnot_ok knots cps order t cps' knots' h
  obtain ⟨hkc, hkt, htk, hk⟩ := findSpan_result knots order cps.length t k hsort ho hoc hl hdom ht hfs hpk
  obtain ⟨hQl, hQv⟩ := Lemmas.Curve.insert_cps_getD knots cps (order - 1) t k qs hkc hpk hq
  have hKl := Lemmas.Curve.length_insert knots k t (by omega)
  have hKg := Lemmas.Curve.kget_insert knots k t (by omega)
  have hmono : ∀ a b, a ≤ b → b ≤ order - 1 + cps.length → kget knots a ≤ kget knots b :=
    fun a b hab hb => nd_mono knots hsort a b hab (by omega)
  have hm' := Lemmas.Curve.insK_mono (kget knots) k t (order - 1 + cps.length) hmono (by omega) hkt htk
  have hsort' : nondecreasing (knots.take (k + 1) ++ t :: knots.drop (k + 1)) = true := by
    apply Lemmas.Curve.nd_of_step
    intro i hi
    rw [hKg, hKg]
    exact hm' i (i + 1) (by omega) (by omega)
  have hdlo : kget (knots.take (k + 1) ++ t :: knots.drop (k + 1)) (order - 1) = kget knots (order - 1) := by
    rw [hKg, Lemmas.Curve.insK_le _ _ _ hpk]
  have hdhi : kget (knots.take (k + 1) ++ t :: knots.drop (k + 1))
      (cps.take (k + 1 - (order - 1)) ++ qs ++ cps.drop k).length = kget knots cps.length := by
    rw [hKg, hQl, Lemmas.Curve.insK_gt _ _ _ (by omega : k + 2 ≤ cps.length + 1)]
    rfl
  have hK' : kget (knots.take (k + 1) ++ t :: knots.drop (k + 1)) = Lemmas.Curve.insK (kget knots) k t := funext hKg
  generalize cps.take (k + 1 - (order - 1)) ++ qs ++ cps.drop k = Q at *
  generalize knots.take (k + 1) ++ t :: knots.drop (k + 1) = K' at *
  obtain ⟨s', n1, n2, n3, n4, n5⟩ := evalPoint_domain_end K' Q order u hsort' ho (by omega) (by omega)
    (by rw [hdlo, hdhi]; exact hdom) (by rw [hdhi]; exact hu)
  obtain ⟨s0, o1, o2, o3, o4, o5⟩ := evalPoint_domain_end knots cps order u hsort ho hoc hl hdom hu
  rw [n5, o5]
  rw [hdhi] at n4
  simp only [hKg] at n3 n4
  -- the old span under the last non-empty new one is the last non-empty old one
  have hspan : kget knots (if s' ≤ k then s' else s' - 1) < kget knots ((if s' ≤ k then s' else s' - 1) + 1) ∧
      kget knots ((if s' ≤ k then s' else s' - 1) + 1) = kget knots cps.length := by
    have hk1n : kget knots (k + 1) ≤ kget knots cps.length := nd_mono knots hsort _ _ (by omega) (by omega)
    by_cases c1 : s' ≤ k
    · rw [if_pos c1]
      by_cases c2 : s' + 1 ≤ k
      · exfalso
        rw [Lemmas.Curve.insK_le _ _ _ c2] at n4
        have := nd_mono knots hsort (s' + 1) k c2 (by omega)
        linarith
      · have : s' = k := by omega
        subst this
        rw [Lemmas.Curve.insK_eq] at n4
        exact ⟨hk, le_antisymm hk1n (by rw [← n4]; exact htk)⟩
    · rw [if_neg c1]
      by_cases c2 : s' = k + 1
      · subst c2
        rw [Lemmas.Curve.insK_gt _ _ _ (by omega : k + 2 ≤ k + 1 + 1)] at n4
        exact ⟨hk, n4⟩
      · rw [Lemmas.Curve.insK_gt _ _ _ (by omega : k + 2 ≤ s')] at n3
        rw [Lemmas.Curve.insK_gt _ _ _ (by omega : k + 2 ≤ s' + 1)] at n3 n4
        have e : s' - 1 + 1 = s' + 1 - 1 := by omega
        rw [e]; exact ⟨n3, n4⟩
  have hss : (if s' ≤ k then s' else s' - 1) = s0 := by
    generalize (if s' ≤ k then s' else s' - 1) = sx at hspan
    rcases Nat.lt_trichotomy sx s0 with hlt | heq | hgt
    · exfalso
      have := nd_mono knots hsort (sx + 1) s0 (by omega) (by omega)
      linarith [hspan.1, hspan.2, o3, o4]
    · exact heq
    · exfalso
      have hsxl : sx + 1 < knots.length := by
        by_contra hc
        have h0 : kget knots (sx + 1) = 0 := by simp [kget, List.getElem?_eq_none (not_lt.mp hc)]
        by_cases c : sx < knots.length
        · have a1 := nd_mono knots hsort cps.length sx (by omega) c
          rw [h0] at hspan
          linarith [hspan.1, hspan.2]
        · have h1 : kget knots sx = 0 := by simp [kget, List.getElem?_eq_none (not_lt.mp c)]
          rw [h0, h1] at hspan; exact lt_irrefl _ hspan.1
      have := nd_mono knots hsort (s0 + 1) sx (by omega) (by omega)
      linarith [hspan.1, hspan.2, o3, o4]
  rw [← hss]
  congr 1
  refine Lemmas.Curve.curveSum_insert _ _ (fun j => Lemmas.Curve.alpha (kget knots) k t j (order - 1)) cps _ cps.length rfl hQl
    ?_ (Lemmas.Curve.alpha_one _ _ _ (by omega)) (Lemmas.Curve.alpha_zero _ _ _ hkc) hQv
  intro i hi
  rw [Lemmas.Curve.spanPiece_eq_cdbF, Lemmas.Curve.spanPiece_eq_cdbF, Lemmas.Curve.spanPiece_eq_cdbF, hK']
  exact Lemmas.Curve.boehm_pieces (kget knots) k t u (order - 1 + cps.length) hmono hk (by omega) hkt htk s'
    n3 (order - 1) i (by omega)

/-- **knot refinement** = iterated insertion (`BSpline.knot_refinement`): whenever it returns for new knots below
    the end of the domain, the result is a well-formed spline over the same domain with `len(ts)` more control points
    and `Evaluator.point` is unchanged on `[U[p], U[count])`; any number of new knots, repeated ones included -/
theorem knot_refinement_preserves (order : Nat) (u : Rat) (ho : 1 ≤ order) :
    ∀ (ts : List Rat) (knots : List Rat) (cps : List V3) (cps' : List V3) (knots' : List Rat),
      nondecreasing knots = true → order ≤ cps.length → knots.length = order + cps.length →
      (∀ t ∈ ts, t ≤ kget knots cps.length) →
      knotRefinement knots cps order ts = .ok (cps', knots') →
      kget knots (order - 1) ≤ u → u < kget knots cps.length →
      nondecreasing knots' = true ∧ cps'.length = cps.length + ts.length ∧ knots'.length = order + cps'.length ∧
      kget knots' (order - 1) = kget knots (order - 1) ∧ kget knots' cps'.length = kget knots cps.length ∧
      evalPoint knots' [] cps' order u = evalPoint knots [] cps order u
  | [], knots, cps, cps', knots', hsort, _, hl, _, h, _, _ => by
    simp only [knotRefinement, Except.ok.injEq, Prod.mk.injEq] at h
    obtain ⟨rfl, rfl⟩ := h
    exact ⟨hsort, rfl, hl, rfl, rfl, rfl⟩
  | t :: ts, knots, cps, cps', knots', hsort, hoc, hl, hts, h, hlo, hhi => by
    simp only [knotRefinement] at h
    split at h
    · rename_i c1 k1 h1
      obtain ⟨a1, a2, a3, a4, a5, a6⟩ := insert_knot_preserves knots cps order t u c1 k1 hsort ho hoc hl
        (hts t (by simp)) h1 hlo hhi
      obtain ⟨b1, b2, b3, b4, b5, b6⟩ := knot_refinement_preserves order u ho ts k1 c1 cps' knots' a1 (by omega) a3
        (fun t' ht' => by rw [a5]; exact hts t' (by simp [ht'])) h (by rw [a4]; exact hlo) (by rw [a5]; exact hhi)
      exact ⟨b1, by rw [b2, a2]; simp; omega, b3, by rw [b4, a4], by rw [b5, a5], by rw [b6, a6]⟩
    · exact absurd h (by simp)

/-- … and on the closed domain: `point(u)` for `u >= U[count]` (the end point of the curve) survives any knot refinement -/
theorem knot_refinement_preserves_domain_end (order : Nat) (u : Rat) (ho : 1 ≤ order) :
    ∀ (ts : List Rat) (knots : List Rat) (cps : List V3) (cps' : List V3) (knots' : List Rat),
      nondecreasing knots = true → order ≤ cps.length → knots.length = order + cps.length →
      kget knots (order - 1) < kget knots cps.length →
      (∀ t ∈ ts, t ≤ kget knots cps.length) →
      knotRefinement knots cps order ts = .ok (cps', knots') →
      kget knots cps.length ≤ u →
      evalPoint knots' [] cps' order u = evalPoint knots [] cps order u
  | [], knots, cps, cps', knots', _, _, _, _, _, h, _ => by
    simp only [knotRefinement, Except.ok.injEq, Prod.mk.injEq] at h
    obtain ⟨rfl, rfl⟩ := h
    rfl
  | t :: ts, knots, cps, cps', knots', hsort, hoc, hl, hdom, hts, h, hu => by
    simp only [knotRefinement] at h
    split at h
    · rename_i c1 k1 h1
      obtain ⟨a1, a2, a3, a4, a5, _⟩ := insert_knot_preserves knots cps order t (kget knots (order - 1)) c1 k1 hsort ho hoc hl
        (hts t (by simp)) h1 (le_refl _) hdom
      have e1 := insert_knot_preserves_domain_end knots cps order t u c1 k1 hsort ho hoc hl hdom (hts t (by simp)) h1 hu
      rw [← e1]
      exact knot_refinement_preserves_domain_end order u ho ts k1 c1 cps' knots' a1 (by omega) a3 (by rw [a4, a5]; exact hdom)
        (fun t' ht' => by rw [a5]; exact hts t' (by simp [ht'])) h (by rw [a5]; exact hu)
    · exact absurd h (by simp)

/-- **NURBS**: the rational evaluation is the weighted quotient `Σ N_i w_i P_i / Σ N_i w_i` over the span's `order`
    control points (`s == 0.0` → the null vector, the quirk of `span_weighting`), … -/
theorem rational_point_quotient (knots weights : List Rat) (cps : List V3) (order : Nat) (u : Rat) (span : Nat)
    (N : List Rat) (hw : weights ≠ [])
    (hfs : findSpan knots order cps.length u = (span : Int)) (hN : basisFuncs knots order span u = some N) :
    let ws := (weights.drop (span + 1 - order)).take order
    let prod := List.zipWith (· * ·) N ws
    evalPoint knots weights cps order u =
      some (if prod.sum = 0 then V3.zero
            else (combine prod (cps.drop (span + 1 - order))).scale (1 / prod.sum)) := by
  intro ws prod
  have hne : weights.isEmpty = false := by cases weights <;> simp_all
  simp only [evalPoint, hfs]
  show (basisFuncsW knots weights order span u).map _ = _
  simp only [basisFuncsW, hN, Option.map_some, hne, Bool.false_eq_true, if_false, Option.some.injEq]
  by_cases hs : prod.sum = 0
  · rw [if_pos hs]
    simp only [spanWeighting]
    rw [if_pos hs]
    generalize cps.drop (span + 1 - order) = pts
    clear hN hs
    induction N generalizing pts with
    | nil => simp [combine]
    | cons n ns ih =>
      cases pts with
      | nil => simp [combine]
      | cons q qs =>
        simp only [List.map_cons, combine, ih qs]
        apply v3ext <;> simp [V3.add, V3.scale, V3.zero]
  · rw [if_neg hs]
    exact (span_weighting_rational weights order span N _ hs).2

private theorem zipWith_scale (c : Rat) : ∀ (N ws : List Rat),
    List.zipWith (· * ·) N (ws.map (c * ·)) = (List.zipWith (· * ·) N ws).map (c * ·)
  | [], _ => by simp
  | _ :: _, [] => by simp
  | n :: ns, w :: ws => by
    simp only [List.map_cons, List.zipWith_cons_cons, zipWith_scale c ns ws]
    congr 1; ring

private theorem sum_map_mul (c : Rat) : ∀ (l : List Rat), (l.map (c * ·)).sum = c * l.sum
  | [] => by simp
  | a :: l => by simp only [List.map_cons, List.sum_cons, sum_map_mul c l]; ring

/-- … and it does not change when ALL weights are multiplied by a common factor `c ≠ 0` (homogeneous coordinates):
    `span_weighting`, hence `basis_funcs` and `Evaluator.point`, return exactly the same values -/
theorem rational_weight_scaling (knots weights : List Rat) (cps : List V3) (order : Nat) (u c : Rat) (hc : c ≠ 0) :
    (∀ (span : Nat) (N : List Rat),
      spanWeighting (weights.map (c * ·)) order span N = spanWeighting weights order span N) ∧
    evalPoint knots (weights.map (c * ·)) cps order u = evalPoint knots weights cps order u := by
  have key : ∀ (span : Nat) (N : List Rat),
      spanWeighting (weights.map (c * ·)) order span N = spanWeighting weights order span N := by
    intro span N
    simp only [spanWeighting]
    rw [← List.map_drop, ← List.map_take, zipWith_scale, sum_map_mul]
    by_cases hs : (List.zipWith (· * ·) N ((weights.drop (span + 1 - order)).take order)).sum = 0
    · rw [hs, mul_zero, if_pos rfl, if_pos rfl]
    · rw [if_neg (mul_ne_zero hc hs), if_neg hs, List.map_map]
      apply List.map_congr_left
      intro x _
      simp only [Function.comp]
      field_simp
  refine ⟨key, ?_⟩
  simp only [evalPoint]
  split
  · simp only [basisFuncsW, List.isEmpty_map, key]
  · rfl

/-! ## 6c. `BSpline.reverse` -/

/-- **reversal, full generality** (non rational): for EVERY `u` of the closed domain the reversed spline, evaluated at
    the mirrored parameter `1 - (u - k_0)/(k_last - k_0)`, returns the value of a polynomial piece of the ORIGINAL curve
    that belongs to a non-empty span whose closure contains `u` (every degree, every nondecreasing knot vector with a
    non-degenerate domain, clamped or not).  At an interior knot this is the piece LEFT of `u`, where `point(u)` of the
    original takes the piece right of it: equal iff the curve is continuous there (not proved here) -/
theorem bspline_reverse_pieces (knots : List Rat) (cps : List V3) (order : Nat) (u : Rat)
    (hsort : nondecreasing knots = true) (ho : 1 ≤ order) (hoc : order ≤ cps.length)
    (hl : knots.length = order + cps.length)
    (hdom : kget knots (order - 1) < kget knots cps.length)
    (hlo : kget knots (order - 1) ≤ u) (hhi : u ≤ kget knots cps.length) :
    nondecreasing (reverseSpline knots [] cps).1 = true ∧
    ∃ s : Nat, order - 1 ≤ s ∧ s < cps.length ∧ kget knots s < kget knots (s + 1) ∧
      kget knots s ≤ u ∧ u ≤ kget knots (s + 1) ∧
      evalPoint (reverseSpline knots [] cps).1 [] (reverseSpline knots [] cps).2.2 order (reverseParam knots u)
        = some (curveSum (spanPiece knots u s (order - 1)) 0 cps) := by
  simp only [reverseSpline, reverseParam]
  have hK0 : kget knots 0 ≤ kget knots (order - 1) := nd_mono knots hsort _ _ (by omega) (by omega)
  have hKm : kget knots cps.length ≤ kget knots (knots.length - 1) := nd_mono knots hsort _ _ (by omega) (by omega)
  rw [Lemmas.Curve.getLastD_eq_kget]
  have hmx : 0 < kget knots (knots.length - 1) - kget knots 0 := by linarith
  generalize hmxd : kget knots (knots.length - 1) - kget knots 0 = mx at hmx
  have hmx0 : mx ≠ 0 := ne_of_gt hmx
  -- φ x = a - b x
  have hφ : ∀ x : Rat, 1 - (x - kget knots 0) / mx = (1 + kget knots 0 / mx) - (1 / mx) * x := by
    intro x; field_simp; ring
  have hb : (0 : Rat) < 1 / mx := one_div_pos.mpr hmx
  have hanti : ∀ x y : Rat, x ≤ y → 1 - (y - kget knots 0) / mx ≤ 1 - (x - kget knots 0) / mx := by
    intro x y hxy
    rw [hφ, hφ]
    have := mul_le_mul_of_nonneg_left hxy (le_of_lt hb)
    linarith
  have hstrict : ∀ x y : Rat, 1 - (y - kget knots 0) / mx < 1 - (x - kget knots 0) / mx → x < y := by
    intro x y h
    by_contra hc
    have := hanti y x (not_lt.mp hc)
    linarith
  have hKr : ∀ j, j < knots.length → kget (reverseKnots knots) j
      = 1 - (kget knots (knots.length - 1 - j) - kget knots 0) / mx := by
    intro j hj
    rw [Lemmas.Curve.kget_reverseKnots knots j hj, Lemmas.Curve.getLastD_eq_kget, hmxd]
  have hlenr : (reverseKnots knots).length = knots.length := by simp [reverseKnots, normalizeKnots]
  have hsort' : nondecreasing (reverseKnots knots) = true := by
    apply Lemmas.Curve.nd_of_step
    intro i hi
    rw [hlenr] at hi
    rw [hKr i (by omega), hKr (i + 1) hi]
    exact hanti _ _ (nd_mono knots hsort _ _ (by omega) (by omega))
  refine ⟨hsort', ?_⟩
  have e1 : knots.length - 1 - (order - 1) = cps.length := by omega
  have e2 : knots.length - 1 - cps.length = order - 1 := by omega
  obtain ⟨σ, hfs, hs1, hs2, hs3, hs4, hs5⟩ := findSpan_spec (reverseKnots knots) order cps.length
    (1 - (u - kget knots 0) / mx) hsort' ho hoc (by omega)
    (by rw [hKr _ (by omega), hKr _ (by omega), e1, e2]
        by_contra hc
        have := hanti _ _ (le_of_lt hdom)
        have h2 := hanti _ _ (le_of_lt hdom)
        exact hc (lt_of_le_of_ne h2 (fun heq => by
          have := hstrict (kget knots (order - 1)) (kget knots cps.length)
          have hlt : kget knots (order - 1) < kget knots cps.length := hdom
          rw [hφ, hφ] at heq
          have : (1 / mx) * kget knots cps.length = (1 / mx) * kget knots (order - 1) := by linarith
          have := mul_left_cancel₀ (ne_of_gt hb) this
          linarith)))
    (by rw [hKr _ (by omega), e1]; exact hanti _ _ hhi)
    (by rw [hKr _ (by omega), e2]; exact hanti _ _ hlo)
  rw [hKr σ (by omega), hKr (σ + 1) (by omega)] at hs3
  rw [hKr σ (by omega)] at hs4
  rw [hKr (σ + 1) (by omega)] at hs5
  have e3 : knots.length - 1 - σ = (knots.length - 1 - 1 - σ) + 1 := by omega
  have e4 : knots.length - 1 - (σ + 1) = knots.length - 1 - 1 - σ := by omega
  rw [e3, e4] at hs3
  rw [e3] at hs4
  rw [e4] at hs5
  have hne := hstrict _ _ hs3
  have hu1 : kget knots (knots.length - 1 - 1 - σ) ≤ u := by
    by_contra hc
    have := hstrict _ _ (lt_of_le_of_ne hs5 (fun heq => hc (by
      rw [hφ, hφ] at heq
      have : (1 / mx) * u = (1 / mx) * kget knots (knots.length - 1 - 1 - σ) := by linarith
      exact le_of_eq (mul_left_cancel₀ (ne_of_gt hb) this).symm)))
    linarith
  have hu2 : u ≤ kget knots (knots.length - 1 - 1 - σ + 1) := by
    by_contra hc
    have := hanti _ _ (le_of_lt (not_le.mp hc))
    have h3 : 1 - (u - kget knots 0) / mx = 1 - (kget knots (knots.length - 1 - 1 - σ + 1) - kget knots 0) / mx :=
      le_antisymm this hs4
    rw [hφ, hφ] at h3
    have : (1 / mx) * u = (1 / mx) * kget knots (knots.length - 1 - 1 - σ + 1) := by linarith
    have := mul_left_cancel₀ (ne_of_gt hb) this
    exact hc (le_of_eq this)
  refine ⟨knots.length - 1 - 1 - σ, by omega, by omega, hne, hu1, hu2, ?_⟩
  rw [evalPoint_of_span (reverseKnots knots) cps.reverse order _ σ (by simpa using hfs) hsort' ho hs1 (by simpa using hs2)
    (by simp; omega) (by
      rw [hKr σ (by omega), hKr (σ + 1) (by omega), e3, e4]; exact hs3)]
  congr 1
  apply Lemmas.Curve.curveSum_reverse
  intro i hi
  rw [Lemmas.Curve.spanPiece_eq_cdbF, Lemmas.Curve.spanPiece_eq_cdbF,
    Lemmas.Curve.cdbF_reverse (kget knots) (knots.length - 1) _ (1 + kget knots 0 / mx) (1 / mx) u (ne_of_gt hb) (by omega)
      (order - 1) i (by omega), ← hφ]
  have e5 : knots.length - 1 - 1 - (knots.length - 1 - 1 - σ) = σ := by omega
  have e6 : knots.length - 1 - (order - 1) - 1 - i = cps.length - 1 - i := by omega
  rw [e5, e6]
  apply Lemmas.Curve.cdbF_congr
  intro j _ hj2
  rw [hKr j (by omega), hφ]

/-- **reversal** where it needs no continuity argument: `u` anywhere in the closed domain (both ends included) but not ON
    an interior knot: the reversed spline at the mirrored parameter = the original at `u`.
    Full statement (no hypothesis `hnk`, interior knots of multiplicity ≤ degree): needs the continuity of the
    Cox - de Boor pieces across such a knot; `bspline_reverse_pieces` states what holds for every `u`. -/
theorem bspline_reverse_partial (knots : List Rat) (cps : List V3) (order : Nat) (u : Rat)
    (hsort : nondecreasing knots = true) (ho : 1 ≤ order) (hoc : order ≤ cps.length)
    (hl : knots.length = order + cps.length)
    (hdom : kget knots (order - 1) < kget knots cps.length)
    (hlo : kget knots (order - 1) ≤ u) (hhi : u ≤ kget knots cps.length)
    (hnk : ∀ j, order - 1 < j → j < cps.length → kget knots j ≠ u) :
    evalPoint (reverseSpline knots [] cps).1 [] (reverseSpline knots [] cps).2.2 order (reverseParam knots u)
      = evalPoint knots [] cps order u := by
  obtain ⟨_, s, h1, h2, h3, h4, h5, h6⟩ := bspline_reverse_pieces knots cps order u hsort ho hoc hl hdom hlo hhi
  obtain ⟨s0, hfs, g1, g2, g3, g4, g5⟩ := findSpan_spec knots order cps.length u hsort ho hoc hl hdom hlo hhi
  rw [h6, evalPoint_of_span knots cps order u s0 hfs hsort ho g1 g2 hl g3]
  have hss : s = s0 := by
    rcases Nat.lt_trichotomy s s0 with hlt | heq | hgt
    · exfalso
      have a1 := nd_mono knots hsort (s + 1) s0 (by omega) (by omega)
      exact hnk (s + 1) (by omega) (by omega) (le_antisymm (le_trans a1 g4) h5)
    · exact heq
    · exfalso
      have a1 := nd_mono knots hsort (s0 + 1) s (by omega) (by omega)
      exact hnk (s0 + 1) (by omega) (by omega) (le_antisymm (le_trans a1 h4) g5)
  rw [hss]

private theorem multLeDegree_spec (knots : List Rat) (order : Nat) (h : multLeDegree knots order = true) :
    ∀ j, 1 ≤ j → j + order ≤ knots.length - 1 → kget knots j < kget knots (j + (order - 1)) := by
  intro j h1 h2
  simp only [multLeDegree, List.all_eq_true, List.mem_range, Bool.or_eq_true, decide_eq_true_eq] at h
  rcases h j (by omega) with (h | h) | h
  · omega
  · omega
  · exact h

private theorem pieces_agree (knots : List Rat) (u : Rat) (s s0 p : Nat) (hsort : nondecreasing knots = true)
    (hss : s < s0) (hne : kget knots s < kget knots (s + 1)) (hne0 : kget knots s0 < kget knots (s0 + 1))
    (h1 : kget knots (s + 1) = u) (h2 : kget knots s0 = u) (hmu : s0 - s ≤ p) (hlen : s0 + 1 < knots.length) (i : Nat) :
    spanPiece knots u s p i = spanPiece knots u s0 p i := by
  rw [Lemmas.Curve.spanPiece_eq_cdbF, Lemmas.Curve.spanPiece_eq_cdbF]
  have e : s0 = s + (s0 - s) := by omega
  rw [e]
  apply Lemmas.Curve.cdbF_continuous (kget knots) u s (s0 - s) p
  · intro j hj1 hj2
    have a1 := nd_mono knots hsort (s + 1) (s + j) (by omega) (by omega)
    have a2 := nd_mono knots hsort (s + j) s0 (by omega) (by omega)
    rw [h1] at a1; rw [h2] at a2
    exact le_antisymm a2 a1
  · rw [← h1]; exact ne_of_lt hne
  · rw [← e, ← h2]; exact ne_of_gt hne0
  · exact hmu

/-- **continuity at knots**: at an interior knot `u = U[s+1]` whose multiplicity is at most the degree
    (`multLeDegree`), `Evaluator.point(u)` (which evaluates the piece RIGHT of `u`) equals the continuation of the piece
    LEFT of `u`: the curve has no jump; every degree, every nondecreasing knot vector -/
theorem bspline_continuous_at_knot (knots : List Rat) (cps : List V3) (order : Nat) (s : Nat)
    (hsort : nondecreasing knots = true) (ho : 1 ≤ order) (hoc : order ≤ cps.length)
    (hl : knots.length = order + cps.length) (hmult : multLeDegree knots order = true)
    (hs1 : order - 1 ≤ s) (hne : kget knots s < kget knots (s + 1))
    (hin : kget knots (s + 1) < kget knots cps.length) :
    evalPoint knots [] cps order (kget knots (s + 1))
      = some (curveSum (spanPiece knots (kget knots (s + 1)) s (order - 1)) 0 cps) := by
  have hm := multLeDegree_spec knots order hmult
  have hlo : kget knots (order - 1) ≤ kget knots (s + 1) := by
    have hsn : s + 1 < knots.length := by
      by_contra hc
      have h0 : kget knots (s + 1) = 0 := by simp [kget, List.getElem?_eq_none (not_lt.mp hc)]
      have h1 : kget knots s = 0 ∨ s < knots.length := by
        by_cases c : s < knots.length
        · exact Or.inr c
        · exact Or.inl (by simp [kget, List.getElem?_eq_none (not_lt.mp c)])
      rcases h1 with h1 | h1
      · rw [h0, h1] at hne; exact lt_irrefl _ hne
      · have a1 := nd_mono knots hsort 0 s (by omega) h1
        have a2 := nd_mono knots hsort 0 cps.length (by omega) (by omega)
        have a3 := nd_mono knots hsort cps.length s (by omega) h1
        rw [h0] at hin hne
        linarith
    exact nd_mono knots hsort _ _ (by omega) hsn
  obtain ⟨s0, hfs, g1, g2, g3, g4⟩ := findSpan_spec_interior knots order cps.length _ hsort ho hoc hl hlo hin
  rw [evalPoint_of_span knots cps order _ s0 hfs hsort ho g1 g2 hl (lt_of_le_of_lt g3 g4)]
  have hss : s < s0 ∨ s = s0 := by
    by_contra hc
    have : s0 + 1 ≤ s := by omega
    have hsl : s < knots.length := by
      by_contra hc2
      have h0 : kget knots s = 0 := by simp [kget, List.getElem?_eq_none (not_lt.mp hc2)]
      have h1 : kget knots (s + 1) = 0 := by simp [kget, List.getElem?_eq_none (by omega : knots.length ≤ s + 1)]
      rw [h0, h1] at hne; exact lt_irrefl _ hne
    have a1 := nd_mono knots hsort (s0 + 1) s this hsl
    linarith
  rcases hss with hss | hss
  · have e0 : kget knots s0 = kget knots (s + 1) :=
      le_antisymm g3 (nd_mono knots hsort (s + 1) s0 (by omega) (by omega))
    have hmu : s0 - s ≤ order - 1 := by
      by_contra hc
      have a1 := hm (s + 1) (by omega) (by omega)
      have a2 := nd_mono knots hsort (s + 1 + (order - 1)) s0 (by omega) (by omega)
      linarith
    congr 1
    have : spanPiece knots (kget knots (s + 1)) s0 (order - 1) = spanPiece knots (kget knots (s + 1)) s (order - 1) :=
      funext (fun i => (pieces_agree knots _ s s0 (order - 1) hsort hss hne (lt_of_le_of_lt g3 g4) rfl e0 hmu (by omega) i).symm)
    rw [this]
  · rw [hss]

/-- **reversal**: for EVERY `u` of the closed domain, interior knots included, when interior knots have multiplicity
    at most the degree (`multLeDegree`, the class of the property; necessary: at a knot of multiplicity `degree + 1` the
    curve jumps, `point` takes the right limit and the reversed spline the left one, `#guard` below):
    `reverse().point(1 - (u - k_0)/(k_last - k_0)) = point(u)` — every degree, clamped or not -/
theorem bspline_reverse (knots : List Rat) (cps : List V3) (order : Nat) (u : Rat)
    (hsort : nondecreasing knots = true) (ho : 1 ≤ order) (hoc : order ≤ cps.length)
    (hl : knots.length = order + cps.length) (hmult : multLeDegree knots order = true)
    (hdom : kget knots (order - 1) < kget knots cps.length)
    (hlo : kget knots (order - 1) ≤ u) (hhi : u ≤ kget knots cps.length) :
    evalPoint (reverseSpline knots [] cps).1 [] (reverseSpline knots [] cps).2.2 order (reverseParam knots u)
      = evalPoint knots [] cps order u := by
  have hm := multLeDegree_spec knots order hmult
  obtain ⟨_, s, h1, h2, h3, h4, h5, h6⟩ := bspline_reverse_pieces knots cps order u hsort ho hoc hl hdom hlo hhi
  obtain ⟨s0, hfs, g1, g2, g3, g4, g5⟩ := findSpan_spec knots order cps.length u hsort ho hoc hl hdom hlo hhi
  rw [h6, evalPoint_of_span knots cps order u s0 hfs hsort ho g1 g2 hl g3]
  congr 1
  rcases Nat.lt_trichotomy s s0 with hlt | heq | hgt
  · have a1 := nd_mono knots hsort (s + 1) s0 (by omega) (by omega)
    have e1 : kget knots (s + 1) = u := le_antisymm (le_trans a1 g4) h5
    have e0 : kget knots s0 = u := le_antisymm g4 (by rw [← e1]; exact a1)
    have hmu : s0 - s ≤ order - 1 := by
      by_contra hc
      have b1 := hm (s + 1) (by omega) (by omega)
      have b2 := nd_mono knots hsort (s + 1 + (order - 1)) s0 (by omega) (by omega)
      linarith
    exact congrArg (fun f => curveSum f 0 cps)
      (funext (fun i => pieces_agree knots u s s0 (order - 1) hsort hlt h3 g3 e1 e0 hmu (by omega) i))
  · rw [heq]
  · have a1 := nd_mono knots hsort (s0 + 1) s (by omega) (by omega)
    have e1 : kget knots (s0 + 1) = u := le_antisymm (le_trans a1 h4) g5
    have e0 : kget knots s = u := le_antisymm h4 (by rw [← e1]; exact a1)
    have hmu : s - s0 ≤ order - 1 := by
      by_contra hc
      have b1 := hm (s0 + 1) (by omega) (by omega)
      have b2 := nd_mono knots hsort (s0 + 1 + (order - 1)) s (by omega) (by omega)
      linarith
    exact congrArg (fun f => curveSum f 0 cps)
      (funext (fun i => (pieces_agree knots u s0 s (order - 1) hsort hgt g3 h3 e1 e0 hmu (by omega) i).symm))

/-! ## 6d. derivatives: `Basis.basis_funcs_derivatives` (A2.3) and `Evaluator.derivative` (A3.2), first derivative -/

private theorem stagesAll_piece (U : List Rat) (u : Rat) (s : Nat) (hsort : nondecreasing U = true)
    (hne : kget U s < kget U (s + 1)) :
    ∀ (n q : Nat), q + n ≤ s → s + q + n + 1 ≤ U.length →
      basisStagesAll (leftAt U s u) (rightAt U s u) (q + 1) n (pieceList U u s q)
        = some ((List.range' q (n + 1)).map (fun j => pieceList U u s j))
  | 0, q, _, _ => by simp [basisStagesAll]
  | n + 1, q, h1, h2 => by
    simp only [basisStagesAll]
    rw [stage_piece U u s q hsort (by omega) (by omega) hne]
    simp only [Option.bind_some]
    rw [stagesAll_piece U u s hsort hne n (q + 1) (by omega) (by omega)]
    simp only [Option.map_some, Option.some.injEq]
    rw [show List.range' q (n + 1 + 1) = q :: List.range' (q + 1) (n + 1) from List.range'_succ, List.map_cons]

private theorem pieceList_getD (U : List Rat) (u : Rat) (s q r : Nat) (hr : r ≤ q) :
    (pieceList U u s q).getD r 0 = spanPiece U u s q (s - q + r) := by
  simp only [pieceList, List.getD_eq_getElem?_getD, List.getElem?_map]
  rw [List.getElem?_range' (by omega)]
  simp

/-- what the `k = 1` pass of A2.3 computes for function index `r` (before the scaling by `p`) -/
private def dFirst (ndu : Nat → Nat → Rat) (p r : Nat) : Rat :=
  (if 1 ≤ r then 1 / ndu p (r - 1) * ndu (r - 1) (p - 1) else 0)
  + (if r ≤ p - 1 then -1 / ndu p r * ndu r (p - 1) else 0)

private theorem derStep_first (ndu : Nat → Nat → Rat) (p r : Nat) (as1 as2 : Nat → Rat) (hp : 1 ≤ p) (hr : r ≤ p)
    (h1 : as1 0 = 1) : (derStep ndu p r 1 as1 as2).1 = dFirst ndu p r := by
  have e1 : p - 1 + 1 = p := by omega
  have hj1 : (-1 : Int) ≤ (r : Int) - ((1 : Nat) : Int) := by omega
  have hj2 : (r : Int) - 1 ≤ ((p - 1 : Nat) : Int) := by omega
  simp only [derStep, dFirst, e1, h1, hj1, hj2, if_true, Nat.sub_self, Nat.zero_add, Nat.sub_self, List.range'_zero,
    List.foldl_nil]
  by_cases c1 : 1 ≤ r <;> by_cases c2 : r ≤ p - 1 <;> simp [c1, c2]

private theorem derLoopR_first (ndu : Nat → Nat → Rat) (p : Nat) (hp : 1 ≤ p) :
    ∀ (rs : List Nat) (row0 row1 : Nat → Rat), (∀ r ∈ rs, r ≤ p) →
      derLoopR ndu p 1 rs row0 row1 = rs.map (fun r => [dFirst ndu p r])
  | [], _, _, _ => rfl
  | r :: rs, row0, row1, h => by
    simp only [derLoopR, derLoopK, List.map_cons]
    rw [derStep_first ndu p r _ _ hp (h r (by simp)) (by simp [setF])]
    rw [derLoopR_first ndu p hp rs _ _ (fun r' hr' => h r' (by simp [hr']))]

/-- **first derivative of the basis functions** (A2.3 as coded, both twins, `n = 1`): on a non-empty span of a
    nondecreasing knot vector (degree ≥ 1, every `u`) the call returns — row 0: the `order` polynomial pieces of the
    Cox - de Boor functions (what `basis_funcs` returns), row 1: the values of their DERIVATIVES, `cdbFD` =
    `Polynomial.derivative` of the piece (`basis_derivative_is_polynomial_derivative`) -/
theorem basis_derivative_first (knots : List Rat) (order s : Nat) (u : Rat)
    (hsort : nondecreasing knots = true) (ho : 2 ≤ order) (hp : order - 1 ≤ s)
    (hlen : s + order < knots.length) (hne : kget knots s < kget knots (s + 1)) :
    basisFuncsDerivatives knots order s u 1 = some
      [(List.range order).map (fun r => spanPiece knots u s (order - 1) (s - (order - 1) + r)),
       (List.range order).map (fun r =>
          Lemmas.Curve.cdbFD (kget knots) u (Lemmas.Curve.delta s) (order - 1) (s - (order - 1) + r))] := by
  have h0 : pieceList knots u s 0 = [1] := by simp [pieceList, spanPiece, cdb]
  have hall := stagesAll_piece knots u s hsort hne (order - 1) 0 (by omega) (by omega)
  rw [h0] at hall
  have hmin : min 1 (order - 1) = 1 := by omega
  simp only [basisFuncsDerivatives, Nat.zero_add] at hall ⊢
  rw [hall, hmin]
  simp only [Option.map_some, Option.some.injEq]
  -- the table
  have htbl : ∀ col, col ≤ order - 1 →
      ((List.range' 0 (order - 1 + 1)).map (fun j => pieceList knots u s j)).getD col [] = pieceList knots u s col := by
    intro col hc
    simp only [List.getD_eq_getElem?_getD, List.getElem?_map]
    rw [List.getElem?_range' (by omega)]
    simp
  have hup : ∀ row col, row ≤ col → col ≤ order - 1 →
      nduAt (leftAt knots s u) (rightAt knots s u) ((List.range' 0 (order - 1 + 1)).map (fun j => pieceList knots u s j)) row col
        = spanPiece knots u s col (s - col + row) := by
    intro row col h1 h2
    simp only [nduAt, if_pos h1]
    rw [htbl col h2, pieceList_getD knots u s col row h1]
  have hlow : ∀ row col, col < row →
      nduAt (leftAt knots s u) (rightAt knots s u) ((List.range' 0 (order - 1 + 1)).map (fun j => pieceList knots u s j)) row col
        = kget knots (s + col + 1) - kget knots (s + 1 - (row - col)) := by
    intro row col h1
    simp only [nduAt, if_neg (not_le.mpr h1), rightAt, leftAt]
    have : s + (col + 1) = s + col + 1 := by omega
    rw [this]; ring
  rw [derLoopR_first _ (order - 1) (by omega) (List.range order) _ _ (fun r hr => by
    have := List.mem_range.mp hr; omega)]
  simp only [List.range'_one, List.map_cons, List.map_nil, List.map_map]
  congr 1
  · apply List.map_congr_left
    intro r hr
    have hr' := List.mem_range.mp hr
    rw [hup r (order - 1) (by omega) (le_refl _)]
  · congr 1
    apply List.map_congr_left
    intro r hr
    have hr' := List.mem_range.mp hr
    simp only [Function.comp, List.getD_cons_zero, Nat.sub_self, derFactor]
    -- the book's formula (2.7) at level (order - 2) + 1
    have hmono : ∀ a b, a ≤ b → b ≤ knots.length - 1 → kget knots a ≤ kget knots b :=
      fun a b hab hb => nd_mono knots hsort a b hab (by omega)
    have hf := Lemmas.Curve.cdbFD_formula (kget knots) u (Lemmas.Curve.delta s) (knots.length - 1) hmono (order - 2)
      (s - (order - 1) + r) (by omega)
    have e1 : order - 2 + 1 = order - 1 := by omega
    have e2 : s - (order - 1) + r + (order - 2) + 1 = s + r := by omega
    have e3 : s - (order - 1) + r + (order - 2) + 2 = s + r + 1 := by omega
    rw [e1, e2, e3] at hf
    rw [hf]
    simp only [dFirst]
    have e4 : order - 1 - 1 = order - 2 := by omega
    rw [e4]
    have ecast : ((order - 2 : Nat) : Rat) + 1 = ((order - 1 : Nat) : Rat) := by
      have : order - 1 = (order - 2) + 1 := by omega
      rw [this]; push_cast; ring
    rw [ecast]
    -- first summand
    have t1 : (if 1 ≤ r then 1 / nduAt (leftAt knots s u) (rightAt knots s u)
          ((List.range' 0 (order - 1 + 1)).map (fun j => pieceList knots u s j)) (order - 1) (r - 1) *
          nduAt (leftAt knots s u) (rightAt knots s u)
          ((List.range' 0 (order - 1 + 1)).map (fun j => pieceList knots u s j)) (r - 1) (order - 2) else 0)
        = Lemmas.Curve.cdbF (kget knots) u (Lemmas.Curve.delta s) (order - 2) (s - (order - 1) + r)
            / (kget knots (s + r) - kget knots (s - (order - 1) + r)) := by
      by_cases c : 1 ≤ r
      · rw [if_pos c, hlow _ _ (by omega), hup _ _ (by omega) (by omega), Lemmas.Curve.spanPiece_eq_cdbF]
        have a1 : s + (r - 1) + 1 = s + r := by omega
        have a2 : s + 1 - (order - 1 - (r - 1)) = s - (order - 1) + r := by omega
        have a3 : s - (order - 2) + (r - 1) = s - (order - 1) + r := by omega
        rw [a1, a2, a3]; ring
      · rw [if_neg c, Lemmas.Curve.cdbF_vanish _ _ _ _ _ (Or.inr (by omega))]; simp
    have t2 : (if r ≤ order - 2 then -1 / nduAt (leftAt knots s u) (rightAt knots s u)
          ((List.range' 0 (order - 1 + 1)).map (fun j => pieceList knots u s j)) (order - 1) r *
          nduAt (leftAt knots s u) (rightAt knots s u)
          ((List.range' 0 (order - 1 + 1)).map (fun j => pieceList knots u s j)) r (order - 2) else 0)
        = -(Lemmas.Curve.cdbF (kget knots) u (Lemmas.Curve.delta s) (order - 2) (s - (order - 1) + r + 1)
            / (kget knots (s + r + 1) - kget knots (s - (order - 1) + r + 1))) := by
      by_cases c : r ≤ order - 2
      · rw [if_pos c, hlow _ _ (by omega), hup _ _ (by omega) (by omega), Lemmas.Curve.spanPiece_eq_cdbF]
        have a2 : s + 1 - (order - 1 - r) = s - (order - 1) + r + 1 := by omega
        have a3 : s - (order - 2) + r = s - (order - 1) + r + 1 := by omega
        rw [a2, a3]; ring
      · rw [if_neg c, Lemmas.Curve.cdbF_vanish _ _ _ _ _ (Or.inl (by omega))]; simp
    rw [t1, t2]
    push_cast
    ring

/-- `cdbFD` IS the derivative: the Cox - de Boor recursion read over `ℚ[X]` (`cdbPoly`) evaluates to the basis function
    pieces, and `Polynomial.derivative` of it evaluates to `cdbFD` -/
theorem basis_derivative_is_polynomial_derivative (knots : List Rat) (u : Rat) (s p i : Nat) :
    (Lemmas.Curve.cdbPoly (kget knots) (Lemmas.Curve.delta s) p i).eval u = spanPiece knots u s p i ∧
    (Polynomial.derivative (Lemmas.Curve.cdbPoly (kget knots) (Lemmas.Curve.delta s) p i)).eval u
      = Lemmas.Curve.cdbFD (kget knots) u (Lemmas.Curve.delta s) p i :=
  ⟨by rw [Lemmas.Curve.cdbPoly_eval, Lemmas.Curve.spanPiece_eq_cdbF], Lemmas.Curve.cdbPoly_derivative_eval _ _ _ _ _⟩

private theorem curveSum_of_window (f : Nat → Rat) (cps : List V3) (order s : Nat) (ho : 1 ≤ order) (hp : order - 1 ≤ s)
    (hv : ∀ i, (s < i ∨ i + (order - 1) < s) → f i = 0) :
    combine ((List.range order).map (fun r => f (s - (order - 1) + r))) (cps.drop (s + 1 - order)) = curveSum f 0 cps := by
  have e1 : curveSum f 0 cps = curveSum f (0 + (s - (order - 1))) (cps.drop (s - (order - 1))) := by
    apply curveSum_skip
    intro i _ h2
    exact hv i (Or.inr (by omega))
  rw [e1, curveSum_window _ order]
  · rw [List.range_eq_range', map_shift_range']
    have : s + 1 - order = s - (order - 1) := by omega
    rw [this, Nat.add_zero, Nat.zero_add]
  · intro i hi
    exact hv i (Or.inl (by omega))

/-- **first derivative of the curve** (`Evaluator.derivative(u, 1)`, A3.2, non rational): for every `u` of the half open
    domain it returns `[C(u), C'(u)]` with `C(u)` the textbook sum over all control points and
    `C'(u) = Σ_i N'_{i,p}(u) P_i`, `N'` the derivative (`cdbFD`) of the piece of the span that contains `u`;
    every degree ≥ 1, every nondecreasing knot vector -/
theorem evalDerivative_first (knots : List Rat) (cps : List V3) (order : Nat) (u : Rat)
    (hsort : nondecreasing knots = true) (ho : 2 ≤ order) (hoc : order ≤ cps.length)
    (hl : knots.length = order + cps.length)
    (hlo : kget knots (order - 1) ≤ u) (hhi : u < kget knots cps.length) :
    ∃ s : Nat, order - 1 ≤ s ∧ s < cps.length ∧ kget knots s ≤ u ∧ u < kget knots (s + 1) ∧
      evalDerivative knots [] cps order u 1 = some
        [curveRef knots cps (order - 1) u,
         curveSum (fun i => Lemmas.Curve.cdbFD (kget knots) u (Lemmas.Curve.delta s) (order - 1) i) 0 cps] := by
  obtain ⟨s, hfs, hs1, hs2, hs3, hs4⟩ := findSpan_spec_interior knots order cps.length u hsort (by omega) hoc hl hlo hhi
  refine ⟨s, hs1, hs2, hs3, hs4, ?_⟩
  have hD := basis_derivative_first knots order s u hsort ho hs1 (by omega) (lt_of_le_of_lt hs3 hs4)
  simp only [evalDerivative, hfs]
  show (basisFuncsDerivatives knots order s u 1).bind _ = _
  rw [hD]
  simp only [Option.bind_some, List.isEmpty_nil, if_true, Option.some.injEq]
  have hr : List.range (1 + 1) = [0, 1] := rfl
  rw [hr]
  simp only [List.map_cons, List.map_nil, List.getD_cons_zero, List.getD_cons_succ]
  rw [curveSum_of_window (spanPiece knots u s (order - 1)) cps order s (by omega) hs1
      (fun i hi => spanPiece_vanish knots u s _ i hi),
    curveSum_of_window (fun i => Lemmas.Curve.cdbFD (kget knots) u (Lemmas.Curve.delta s) (order - 1) i) cps order s
      (by omega) hs1 (fun i hi => Lemmas.Curve.cdbFD_vanish _ u s _ i hi)]
  have hv : coxDeBoor knots u (order - 1) = spanPiece knots u s (order - 1) :=
    funext (fun i => coxDeBoor_eq_spanPiece knots u s hsort (by omega) hs3 hs4 _ i)
  rw [curveRef, hv]

/-- **derivatives of every order** (The NURBS Book (2.9), by induction on the order from `basis_derivative_is_polynomial_derivative`
    / formula (2.7)): with `N^{(k)}` the `k`-th `Polynomial.derivative` of the Cox - de Boor piece,
    `N^{(k+1)}_{i,p+1}(u) = (p+1)·( N^{(k)}_{i,p}(u)/(U[i+p+1] − U[i]) − N^{(k)}_{i+1,p}(u)/(U[i+p+2] − U[i+1]) )` for every
    nondecreasing knot vector, every order `k`, every `u` (`x/0 = 0`); order 0 is the piece itself.  (A2.3 computes the rows
    `k >= 2` by the equivalent formula (2.10); those rows are modelled and corresponded (X9), their identification with
    `N^{(k)}` is proved for `k <= 1` only.) -/
theorem basis_derivative_higher_recurrence (knots : List Rat) (hsort : nondecreasing knots = true) (s p i k : Nat) (u : Rat)
    (hi : i + p + 2 ≤ knots.length - 1) :
    (Polynomial.derivative^[0] (Lemmas.Curve.cdbPoly (kget knots) (Lemmas.Curve.delta s) p i)).eval u = spanPiece knots u s p i ∧
    (Polynomial.derivative^[k + 1] (Lemmas.Curve.cdbPoly (kget knots) (Lemmas.Curve.delta s) (p + 1) i)).eval u
      = ((p : Rat) + 1) *
        ((Polynomial.derivative^[k] (Lemmas.Curve.cdbPoly (kget knots) (Lemmas.Curve.delta s) p i)).eval u
            / (kget knots (i + p + 1) - kget knots i)
          - (Polynomial.derivative^[k] (Lemmas.Curve.cdbPoly (kget knots) (Lemmas.Curve.delta s) p (i + 1))).eval u
            / (kget knots (i + p + 2) - kget knots (i + 1))) := by
  constructor
  · simp only [Function.iterate_zero, id_eq]
    rw [Lemmas.Curve.cdbPoly_eval, Lemmas.Curve.spanPiece_eq_cdbF]
  · have hmono : ∀ a b, a ≤ b → b ≤ knots.length - 1 → kget knots a ≤ kget knots b :=
      fun a b hab hb => nd_mono knots hsort a b hab (by omega)
    rw [Lemmas.Curve.cdbPoly_iterate_derivative (kget knots) _ (knots.length - 1) hmono p i k hi]
    simp only [Polynomial.eval_mul, Polynomial.eval_sub, Polynomial.eval_C]
    ring

/-- … on the CLOSED domain (both ends included; at `u = U[count]` the one-sided derivative from the left): for every `u` in
    `[U[p], U[count]]` of a spline with non-degenerate domain there is a non-empty span whose closure contains `u` such
    that `Evaluator.derivative(u, 1)` returns the value and the derivative of that polynomial piece -/
theorem evalDerivative_first_closed (knots : List Rat) (cps : List V3) (order : Nat) (u : Rat)
    (hsort : nondecreasing knots = true) (ho : 2 ≤ order) (hoc : order ≤ cps.length)
    (hl : knots.length = order + cps.length)
    (hdom : kget knots (order - 1) < kget knots cps.length)
    (hlo : kget knots (order - 1) ≤ u) (hhi : u ≤ kget knots cps.length) :
    ∃ s : Nat, order - 1 ≤ s ∧ s < cps.length ∧ kget knots s < kget knots (s + 1) ∧ kget knots s ≤ u ∧ u ≤ kget knots (s + 1) ∧
      evalDerivative knots [] cps order u 1 = some
        [curveSum (spanPiece knots u s (order - 1)) 0 cps,
         curveSum (fun i => Lemmas.Curve.cdbFD (kget knots) u (Lemmas.Curve.delta s) (order - 1) i) 0 cps] := by
  obtain ⟨s, hfs, hs1, hs2, hs3, hs4, hs5⟩ := findSpan_spec knots order cps.length u hsort (by omega) hoc hl hdom hlo hhi
  refine ⟨s, hs1, hs2, hs3, hs4, hs5, ?_⟩
  have hD := basis_derivative_first knots order s u hsort ho hs1 (by omega) hs3
  simp only [evalDerivative, hfs]
  show (basisFuncsDerivatives knots order s u 1).bind _ = _
  rw [hD]
  simp only [Option.bind_some, List.isEmpty_nil, if_true, Option.some.injEq]
  have hr : List.range (1 + 1) = [0, 1] := rfl
  rw [hr]
  simp only [List.map_cons, List.map_nil, List.getD_cons_zero, List.getD_cons_succ]
  rw [curveSum_of_window (spanPiece knots u s (order - 1)) cps order s (by omega) hs1
      (fun i hi => spanPiece_vanish knots u s _ i hi),
    curveSum_of_window (fun i => Lemmas.Curve.cdbFD (kget knots) u (Lemmas.Curve.delta s) (order - 1) i) cps order s
      (by omega) hs1 (fun i hi => Lemmas.Curve.cdbFD_vanish _ u s _ i hi)]

/-! ## 6e. `split_bspline` (`BSpline.split`) -/

private theorem span_unique (knots : List Rat) (hsort : nondecreasing knots = true) (t : Rat) (k k' : Nat)
    (h1 : kget knots k ≤ t) (h2 : t < kget knots (k + 1)) (h1' : kget knots k' ≤ t) (h2' : t < kget knots (k' + 1))
    (hl : k + 1 < knots.length) (hl' : k' + 1 < knots.length) : k = k' := by
  rcases Nat.lt_trichotomy k k' with h | h | h
  · have := nd_mono knots hsort (k + 1) k' (by omega) (by omega); linarith
  · exact h
  · have := nd_mono knots hsort (k' + 1) k (by omega) (by omega); linarith

private theorem take_insert {α : Type} (A B : List α) (t : α) (n : Nat) (h : A.length = n) :
    (A ++ t :: B).take (n + 1) = A ++ [t] := by
  subst h; rw [List.take_length_add_append]; simp

private theorem drop_insert {α : Type} (A B : List α) (t : α) (n : Nat) (h : A.length = n) :
    (A ++ t :: B).drop (n + 1) = B := by
  subst h; rw [List.drop_length_add_append]; simp

/-- the knot vector after `knot_refinement([t] * m)`: `m` copies of `t` behind the knot interval of `t` -/
private theorem refine_replicate (order : Nat) (t : Rat) (ho : 1 ≤ order) :
    ∀ (m : Nat) (knots : List Rat) (cps cps' : List V3) (knots' : List Rat) (k0 : Nat),
      nondecreasing knots = true → order ≤ cps.length → knots.length = order + cps.length →
      kget knots (order - 1) < kget knots cps.length → t < kget knots cps.length →
      kget knots k0 ≤ t → t < kget knots (k0 + 1) → k0 + 1 < knots.length →
      knotRefinement knots cps order (List.replicate m t) = .ok (cps', knots') →
      knots' = knots.take (k0 + 1) ++ List.replicate m t ++ knots.drop (k0 + 1)
  | 0, knots, cps, cps', knots', k0, _, _, _, _, _, _, _, _, h => by
    simp only [List.replicate_zero, knotRefinement, Except.ok.injEq, Prod.mk.injEq] at h
    rw [← h.2]; simp
  | m + 1, knots, cps, cps', knots', k0, hsort, hoc, hl, hdom, ht, hb1, hb2, hk0, h => by
    simp only [List.replicate_succ, knotRefinement] at h
    split at h
    · rename_i c1 k1 h1
      obtain ⟨a1, a2, a3, a4, a5, _⟩ := insert_knot_preserves knots cps order t (kget knots (order - 1)) c1 k1 hsort ho hoc hl
        (le_of_lt ht) h1 (le_refl _) hdom
      obtain ⟨k, qs, hfs, hpk, _, _, hk1⟩ := insertKnot_ok knots cps order t c1 k1 h1
      obtain ⟨hkc, hkt, htk⟩ := findSpan_result_lt knots order cps.length t k hsort ho hoc hl ht hfs hpk
      have hkk : k = k0 := span_unique knots hsort t k k0 hkt htk hb1 hb2 (by omega) hk0
      subst hkk
      have hKg := Lemmas.Curve.kget_insert knots k t (by omega)
      rw [← hk1] at hKg
      have ih := refine_replicate order t ho m k1 c1 cps' knots' (k + 1) a1 (by omega) a3 (by rw [a4, a5]; exact hdom)
        (by rw [a5]; exact ht) (by rw [hKg, Lemmas.Curve.insK_eq]) (by
          rw [hKg, Lemmas.Curve.insK_gt _ _ _ (by omega : k + 2 ≤ k + 1 + 1)]; exact htk)
        (by rw [a3, a2]; omega) h
      rw [ih, hk1]
      have hlt : (knots.take (k + 1)).length = k + 1 := by simp; omega
      rw [take_insert _ _ t (k + 1) hlt, drop_insert _ _ t (k + 1) hlt]
      simp [List.replicate_succ, List.append_assoc]
    · exact absurd h (by simp)

private theorem mkBSpline_ok (cps : List V3) (order : Nat) (knots : List Rat) (r : List V3 × List Rat)
    (h : mkBSpline cps order knots = .ok r) :
    order ≤ cps.length ∧ knots.length = cps.length + order ∧ r.1 = cps ∧
    r.2 = (if kget knots 0 ≠ 0 then normalizeKnots knots else knots) := by
  unfold mkBSpline at h
  split at h
  · exact absurd h (by simp)
  · split at h
    · exact absurd h (by simp)
    · rename_i h1 h2
      simp only [Except.ok.injEq] at h
      exact ⟨by omega, by omega, by rw [← h], by rw [← h]⟩

/-- **split**: `split_bspline(spline, t)` as coded (clamp at `t` by `order` insertions, cut knots and control points,
    both halves through the `BSpline` constructor): whenever it returns for a knot vector that starts at 0 and a `t`
    below the end of the domain, the FIRST spline evaluates to the original curve on `[U[p], t)` and the SECOND one,
    whose knots the constructor re-normalises to `[0, 1]`, at `(u − t)/(max_t − t)` for every `u` in `[t, U[count])` —
    every degree, every nondecreasing knot vector (clamped or not), `t` on an existing knot included -/
theorem split_bspline_preserves (knots : List Rat) (cps : List V3) (order : Nat) (t u : Rat)
    (s1 s2 : List V3 × List Rat)
    (hsort : nondecreasing knots = true) (ho : 1 ≤ order) (hoc : order ≤ cps.length)
    (hl : knots.length = order + cps.length) (h0 : kget knots 0 = 0)
    (ht : t < kget knots cps.length)
    (h : splitBSpline knots cps order t = .ok (s1, s2)) :
    (kget knots (order - 1) ≤ u → u < t → evalPoint s1.2 [] s1.1 order u = evalPoint knots [] cps order u) ∧
    (t ≤ u → u < kget knots cps.length →
      evalPoint s2.2 [] s2.1 order ((u - t) / (knots.getLastD 0 - t)) = evalPoint knots [] cps order u) := by
  unfold splitBSpline at h
  simp only at h
  split at h
  · exact absurd h (by simp)
  rename_i htol1
  split at h
  · exact absurd h (by simp)
  rename_i htol2
  split at h
  · exact absurd h (by simp)
  · exact absurd h (by simp)
  rename_i cps' knots' href
  split at h
  · exact absurd h (by simp)
  rename_i r1 hm1
  split at h
  · exact absurd h (by simp)
  rename_i r2 hm2
  simp only [Except.ok.injEq, Prod.mk.injEq] at h
  obtain ⟨rfl, rfl⟩ := h
  have htpos : 0 < t := by
    have : (0 : Rat) < 1 / 1000000000000 := by norm_num
    linarith [not_lt.mp htol1]
  -- the first insertion tells where t sits
  obtain ⟨k0, hk0p, hk0c, hb1, hb2⟩ : ∃ k0, order - 1 ≤ k0 ∧ k0 < cps.length ∧ kget knots k0 ≤ t ∧ t < kget knots (k0 + 1) := by
    have hr := href
    have e : List.replicate order t = t :: List.replicate (order - 1) t := by
      have : order = (order - 1) + 1 := by omega
      rw [this, List.replicate_succ]; simp
    rw [e] at hr
    simp only [knotRefinement] at hr
    split at hr
    · rename_i c1 k1 h1
      obtain ⟨k, qs, hfs, hpk, _, _, _⟩ := insertKnot_ok knots cps order t c1 k1 h1
      obtain ⟨hkc, hkt, htk⟩ := findSpan_result_lt knots order cps.length t k hsort ho hoc hl ht hfs hpk
      exact ⟨k, hpk, hkc, hkt, htk⟩
    · exact absurd hr (by simp)
  have hKp : kget knots (order - 1) ≤ t := le_trans (nd_mono knots hsort _ _ hk0p (by omega)) hb1
  have hdom : kget knots (order - 1) < kget knots cps.length := lt_of_le_of_lt hKp ht
  have hshape := refine_replicate order t ho order knots cps cps' knots' k0 hsort hoc hl hdom ht hb1 hb2 (by omega) href
  -- facts about the refined spline (evaluation is added per u below)
  have hpres := fun (v : Rat) (hv1 : kget knots (order - 1) ≤ v) (hv2 : v < kget knots cps.length) =>
    knot_refinement_preserves order v ho (List.replicate order t) knots cps cps' knots' hsort hoc hl
      (fun t' ht' => by rw [List.eq_of_mem_replicate ht']; exact le_of_lt ht) href hv1 hv2
  obtain ⟨hsort', hcl', hkl', hdlo', hdhi', _⟩ := hpres _ (le_refl _) hdom
  simp only [List.length_replicate] at hcl'
  have hlt : (knots.take (k0 + 1)).length = k0 + 1 := by simp; omega
  -- kget of the refined knots
  have hK1 : ∀ j, j ≤ k0 → kget knots' j = kget knots j := by
    intro j hj
    rw [hshape, List.append_assoc, Lemmas.Curve.kget_eq, List.getElem?_append_left (by rw [hlt]; omega),
      ← Lemmas.Curve.kget_eq, Lemmas.Curve.kget_take _ _ _ (by omega)]
  have hK2 : ∀ j, k0 + 1 ≤ j → j ≤ k0 + order → kget knots' j = t := by
    intro j hj1 hj2
    rw [hshape, List.append_assoc, Lemmas.Curve.kget_eq, List.getElem?_append_right (by rw [hlt]; omega), hlt,
      List.getElem?_append_left (by simp; omega), List.getElem?_replicate, if_pos (by omega)]
    rfl
  have hK3 : ∀ j, k0 + order + 1 ≤ j → kget knots' j = kget knots (j - order) := by
    intro j hj
    rw [hshape, List.append_assoc, Lemmas.Curve.kget_eq, List.getElem?_append_right (by rw [hlt]; omega), hlt,
      List.getElem?_append_right (by simp; omega), List.length_replicate, List.getElem?_drop, ← Lemmas.Curve.kget_eq]
    congr 1; omega
  -- the cut index
  have hspan : bisectRight knots' t 0 knots'.length = k0 + order + 1 := by
    obtain ⟨b1, b2, b3, b4⟩ := bisectRight_spec knots' t 0 knots'.length hsort' (by omega) (le_refl _)
    generalize bisectRight knots' t 0 knots'.length = r at *
    by_contra hne
    rcases Nat.lt_or_gt_of_ne hne with hlt' | hgt'
    · have := b4 (k0 + order) (by omega) (by omega)
      rw [hK2 (k0 + order) (by omega) (le_refl _)] at this
      exact lt_irrefl _ this
    · have := b3 (k0 + order + 1) (by omega) hgt'
      rw [hK3 _ (le_refl _)] at this
      have e : k0 + order + 1 - order = k0 + 1 := by omega
      rw [e] at this
      linarith
  rw [hspan] at hm1 hm2
  have e_idx : k0 + order + 1 - order = k0 + 1 := by omega
  rw [e_idx] at hm1 hm2
  obtain ⟨m11, m12, m13, m14⟩ := mkBSpline_ok _ _ _ _ hm1
  obtain ⟨m21, m22, m23, m24⟩ := mkBSpline_ok _ _ _ _ hm2
  constructor
  · -- first half
    intro hlo hhi
    obtain ⟨_, _, _, _, _, hev⟩ := hpres u hlo (lt_trans hhi ht)
    rw [← hev, m13, m14]
    have hk10 : kget (knots'.take (k0 + order + 1)) 0 = 0 := by
      rw [Lemmas.Curve.kget_take _ _ _ (by omega), hK1 0 (by omega), h0]
    rw [if_neg (by rw [hk10]; simp)]
    have hs1 := Lemmas.Curve.nd_take knots' (k0 + order + 1) hsort'
    have hl1 : (knots'.take (k0 + order + 1)).length = order + (cps'.take (k0 + 1)).length := by
      simp only [List.length_take]; omega
    have hc1 : (cps'.take (k0 + 1)).length = k0 + 1 := by simp only [List.length_take]; omega
    have hKt : ∀ j, j < k0 + order + 1 → kget (knots'.take (k0 + order + 1)) j = kget knots' j :=
      fun j hj => Lemmas.Curve.kget_take _ _ _ hj
    obtain ⟨sa, hfa, ha1, ha2, ha3, ha4⟩ := findSpan_spec_interior (knots'.take (k0 + order + 1)) order
      (cps'.take (k0 + 1)).length u hs1 ho (by omega) hl1
      (by rw [hKt _ (by omega), hdlo']; exact hlo)
      (by rw [hc1, hKt _ (by omega), hK2 _ (by omega) (by omega)]; exact hhi)
    obtain ⟨sb, hfb, hb1', hb2', hb3', hb4'⟩ := findSpan_spec_interior knots' order cps'.length u hsort' ho (by omega) hkl'
      (by rw [hdlo']; exact hlo) (by rw [hdhi']; exact lt_trans hhi ht)
    rw [hc1] at ha2
    rw [hKt _ (by omega)] at ha3
    rw [hKt _ (by omega)] at ha4
    have hab : sa = sb := span_unique knots' hsort' u sa sb ha3 ha4 hb3' hb4' (by omega) (by omega)
    subst hab
    rw [evalPoint_of_span _ _ order u sa hfa hs1 ho ha1 (by omega) hl1 (by
        rw [hKt _ (by omega), hKt _ (by omega)]; exact lt_of_le_of_lt ha3 ha4),
      evalPoint_of_span knots' cps' order u sa hfb hsort' ho hb1' hb2' hkl' (lt_of_le_of_lt hb3' hb4')]
    congr 1
    have hf : spanPiece (knots'.take (k0 + order + 1)) u sa (order - 1) = spanPiece knots' u sa (order - 1) := by
      funext i
      by_cases hi : sa < i
      · rw [spanPiece_vanish _ _ _ _ _ (Or.inl hi), spanPiece_vanish _ _ _ _ _ (Or.inl hi)]
      · rw [Lemmas.Curve.spanPiece_eq_cdbF, Lemmas.Curve.spanPiece_eq_cdbF]
        apply Lemmas.Curve.cdbF_congr
        intro j _ hj2
        exact hKt j (by omega)
    rw [hf]
    exact Lemmas.Curve.curveSum_take _ (k0 + 1) cps' 0 (fun i hi => spanPiece_vanish _ _ _ _ _ (Or.inl (by omega)))
  · -- second half
    intro hlo hhi
    obtain ⟨_, _, _, _, _, hev⟩ := hpres u (le_trans hKp hlo) hhi
    rw [← hev, m23, m24]
    -- the raw knot list of the second half is a suffix of the refined knots
    have hraw : List.replicate order t ++ knots'.drop (k0 + order + 1) = knots'.drop (k0 + 1) := by
      rw [hshape, List.append_assoc]
      have e1 : (knots.take (k0 + 1) ++ (List.replicate order t ++ knots.drop (k0 + 1))).drop (k0 + 1)
          = List.replicate order t ++ knots.drop (k0 + 1) := by
        have := List.drop_length_add_append (l₁ := knots.take (k0 + 1)) (l₂ := List.replicate order t ++ knots.drop (k0 + 1)) (i := 0)
        rw [hlt] at this
        simpa using this
      have e2 : (knots.take (k0 + 1) ++ (List.replicate order t ++ knots.drop (k0 + 1))).drop (k0 + order + 1)
          = knots.drop (k0 + 1) := by
        have := List.drop_length_add_append (l₁ := knots.take (k0 + 1) ++ List.replicate order t) (l₂ := knots.drop (k0 + 1)) (i := 0)
        simp only [List.length_append, hlt, List.length_replicate, Nat.add_zero, List.drop_zero, List.append_assoc] at this
        rw [show k0 + order + 1 = k0 + 1 + order by omega]
        exact this
      rw [e1, e2]
    rw [hraw] at m22 ⊢
    have hkd0 : kget (knots'.drop (k0 + 1)) 0 = t := by
      rw [Lemmas.Curve.kget_drop, hK2 _ (by omega) (by omega)]
    rw [if_pos (by rw [hkd0]; exact ne_of_gt htpos)]
    -- normalisation = (v - t) / (maxT - t)
    have hlast : (knots'.drop (k0 + 1)).getLastD 0 = knots.getLastD 0 := by
      rw [Lemmas.Curve.getLastD_eq_kget, Lemmas.Curve.getLastD_eq_kget, Lemmas.Curve.kget_drop]
      have e : k0 + 1 + ((knots'.drop (k0 + 1)).length - 1) = knots'.length - 1 := by
        simp only [List.length_drop]; omega
      rw [e, hK3 _ (by omega)]
      congr 1; omega
    have hmax : kget knots cps.length ≤ knots.getLastD 0 := by
      rw [Lemmas.Curve.getLastD_eq_kget]
      exact nd_mono knots hsort _ _ (by omega) (by omega)
    have hbpos : 0 < knots.getLastD 0 - t := by linarith
    have hb0 : knots.getLastD 0 - t ≠ 0 := ne_of_gt hbpos
    have hlen2 : (normalizeKnots (knots'.drop (k0 + 1))).length = knots'.length - (k0 + 1) := by
      simp [normalizeKnots]
    have hKn : ∀ j, j < knots'.length - (k0 + 1) → kget (normalizeKnots (knots'.drop (k0 + 1))) j
        = (kget knots' (j + (k0 + 1)) - t) / (knots.getLastD 0 - t) := by
      intro j hj
      simp only [normalizeKnots, hkd0, hlast, Lemmas.Curve.kget_eq, List.getElem?_map, List.getElem?_drop]
      have : k0 + 1 + j < knots'.length := by omega
      rw [List.getElem?_eq_getElem this, Nat.add_comm j (k0 + 1), List.getElem?_eq_getElem this]
      simp
    have hdiv : ∀ x y : Rat, x ≤ y → (x - t) / (knots.getLastD 0 - t) ≤ (y - t) / (knots.getLastD 0 - t) :=
      fun x y hxy => div_le_div_of_nonneg_right (by linarith) (le_of_lt hbpos)
    have hdivlt : ∀ x y : Rat, x < y → (x - t) / (knots.getLastD 0 - t) < (y - t) / (knots.getLastD 0 - t) :=
      fun x y hxy => div_lt_div_of_pos_right (by linarith) hbpos
    have hs2 : nondecreasing (normalizeKnots (knots'.drop (k0 + 1))) = true := by
      apply Lemmas.Curve.nd_of_step
      intro i hi
      rw [hlen2] at hi
      rw [hKn i (by omega), hKn (i + 1) hi]
      exact hdiv _ _ (nd_mono knots' hsort' _ _ (by omega) (by omega))
    have hc2 : (cps'.drop (k0 + 1)).length = cps'.length - (k0 + 1) := by simp
    have hl2 : (normalizeKnots (knots'.drop (k0 + 1))).length = order + (cps'.drop (k0 + 1)).length := by
      rw [hlen2, hc2]; omega
    obtain ⟨sa, hfa, ha1, ha2, ha3, ha4⟩ := findSpan_spec_interior (normalizeKnots (knots'.drop (k0 + 1))) order
      (cps'.drop (k0 + 1)).length ((u - t) / (knots.getLastD 0 - t)) hs2 ho (by rw [hc2]; omega) hl2
      (by rw [hKn _ (by omega)]
          have e : order - 1 + (k0 + 1) = k0 + order := by omega
          rw [e, hK2 _ (by omega) (le_refl _)]
          exact hdiv _ _ hlo)
      (by rw [hc2, hKn _ (by omega)]
          have e : cps'.length - (k0 + 1) + (k0 + 1) = cps'.length := by omega
          rw [e, hdhi']
          exact hdivlt _ _ hhi)
    obtain ⟨sb, hfb, hb1', hb2', hb3', hb4'⟩ := findSpan_spec_interior knots' order cps'.length u hsort' ho (by omega) hkl'
      (by rw [hdlo']; exact le_trans hKp hlo) (by rw [hdhi']; exact hhi)
    rw [hc2] at ha2
    have hne2 := lt_of_le_of_lt ha3 ha4
    rw [hKn _ (by omega)] at ha3
    rw [hKn _ (by omega)] at ha4
    have ha3' : kget knots' (sa + (k0 + 1)) ≤ u := by
      by_contra hc
      have := hdivlt _ _ (not_le.mp hc)
      linarith
    have ha4' : u < kget knots' (sa + (k0 + 1) + 1) := by
      by_contra hc
      have := hdiv _ _ (not_lt.mp hc)
      have e : sa + 1 + (k0 + 1) = sa + (k0 + 1) + 1 := by omega
      rw [e] at ha4
      linarith
    have hab : sa + (k0 + 1) = sb := span_unique knots' hsort' u _ sb ha3' ha4' hb3' hb4' (by omega) (by omega)
    rw [evalPoint_of_span _ _ order _ sa hfa hs2 ho ha1 (by rw [hc2]; omega) hl2 hne2,
      evalPoint_of_span knots' cps' order u sb hfb hsort' ho hb1' hb2' hkl' (lt_of_le_of_lt hb3' hb4')]
    congr 1
    rw [Lemmas.Curve.curveSum_drop (spanPiece knots' u sb (order - 1)) (k0 + 1) cps' 0
      (fun i _ hi => spanPiece_vanish _ _ _ _ _ (Or.inr (by omega))), Lemmas.Curve.curveSum_shift]
    congr 1
    funext i
    by_cases hi : sa < i
    · rw [spanPiece_vanish _ _ _ _ _ (Or.inl hi), spanPiece_vanish _ _ _ _ _ (Or.inl (by omega))]
    · rw [Lemmas.Curve.spanPiece_eq_cdbF, Lemmas.Curve.spanPiece_eq_cdbF, ← hab,
        ← Lemmas.Curve.cdbF_shift (kget knots') u sa (k0 + 1) (order - 1) i,
        ← Lemmas.Curve.cdbF_affine (fun j => kget knots' (j + (k0 + 1))) u t (knots.getLastD 0 - t) hb0]
      apply Lemmas.Curve.cdbF_congr
      intro j _ hj2
      exact hKn j (by omega)

private theorem last_span_unique (knots : List Rat) (hsort : nondecreasing knots = true) (a b : Nat) (v : Rat)
    (ha : kget knots a < kget knots (a + 1)) (hb : kget knots b < kget knots (b + 1))
    (ha1 : kget knots (a + 1) = v) (hb1 : kget knots (b + 1) = v)
    (hla : a + 1 < knots.length) (hlb : b + 1 < knots.length) : a = b := by
  rcases Nat.lt_trichotomy a b with h | h | h
  · have := nd_mono knots hsort (a + 1) b (by omega) (by omega); linarith
  · exact h
  · have := nd_mono knots hsort (b + 1) a (by omega) (by omega); linarith

/-- … and the END POINT: the second spline of `split` at (and beyond) its domain end `(u − t)/(max_t − t)`, `u >= U[count]`,
    returns what the original returns there, so the second half reproduces the curve on the closed interval
    `[t, U[count]]` -/
theorem split_bspline_second_half_domain_end (knots : List Rat) (cps : List V3) (order : Nat) (t u : Rat)
    (s1 s2 : List V3 × List Rat)
    (hsort : nondecreasing knots = true) (ho : 1 ≤ order) (hoc : order ≤ cps.length)
    (hl : knots.length = order + cps.length)
    (ht : t < kget knots cps.length)
    (h : splitBSpline knots cps order t = .ok (s1, s2))
    (hu : kget knots cps.length ≤ u) :
    evalPoint s2.2 [] s2.1 order ((u - t) / (knots.getLastD 0 - t)) = evalPoint knots [] cps order u := by
  unfold splitBSpline at h
  simp only at h
  split at h
  · exact absurd h (by simp)
  rename_i htol1
  split at h
  · exact absurd h (by simp)
  rename_i htol2
  split at h
  · exact absurd h (by simp)
  · exact absurd h (by simp)
  rename_i cps' knots' href
  split at h
  · exact absurd h (by simp)
  rename_i r1 hm1
  split at h
  · exact absurd h (by simp)
  rename_i r2 hm2
  simp only [Except.ok.injEq, Prod.mk.injEq] at h
  obtain ⟨rfl, rfl⟩ := h
  have htpos : 0 < t := by
    have : (0 : Rat) < 1 / 1000000000000 := by norm_num
    linarith [not_lt.mp htol1]
  obtain ⟨k0, hk0p, hk0c, hb1, hb2⟩ : ∃ k0, order - 1 ≤ k0 ∧ k0 < cps.length ∧ kget knots k0 ≤ t ∧ t < kget knots (k0 + 1) := by
    have hr := href
    have e : List.replicate order t = t :: List.replicate (order - 1) t := by
      have : order = (order - 1) + 1 := by omega
      rw [this, List.replicate_succ]; simp
    rw [e] at hr
    simp only [knotRefinement] at hr
    split at hr
    · rename_i c1 k1 h1
      obtain ⟨k, qs, hfs, hpk, _, _, _⟩ := insertKnot_ok knots cps order t c1 k1 h1
      obtain ⟨hkc, hkt, htk⟩ := findSpan_result_lt knots order cps.length t k hsort ho hoc hl ht hfs hpk
      exact ⟨k, hpk, hkc, hkt, htk⟩
    · exact absurd hr (by simp)
  have hKp : kget knots (order - 1) ≤ t := le_trans (nd_mono knots hsort _ _ hk0p (by omega)) hb1
  have hdom : kget knots (order - 1) < kget knots cps.length := lt_of_le_of_lt hKp ht
  have hshape := refine_replicate order t ho order knots cps cps' knots' k0 hsort hoc hl hdom ht hb1 hb2 (by omega) href
  have hts : ∀ t' ∈ List.replicate order t, t' ≤ kget knots cps.length :=
    fun t' ht' => by rw [List.eq_of_mem_replicate ht']; exact le_of_lt ht
  obtain ⟨hsort', hcl', hkl', hdlo', hdhi', _⟩ :=
    knot_refinement_preserves order _ ho (List.replicate order t) knots cps cps' knots' hsort hoc hl hts href (le_refl _) hdom
  have hev := knot_refinement_preserves_domain_end order u ho (List.replicate order t) knots cps cps' knots' hsort hoc hl
    hdom hts href hu
  simp only [List.length_replicate] at hcl'
  have hlt : (knots.take (k0 + 1)).length = k0 + 1 := by simp; omega
  have hK2 : ∀ j, k0 + 1 ≤ j → j ≤ k0 + order → kget knots' j = t := by
    intro j hj1 hj2
    rw [hshape, List.append_assoc, Lemmas.Curve.kget_eq, List.getElem?_append_right (by rw [hlt]; omega), hlt,
      List.getElem?_append_left (by simp; omega), List.getElem?_replicate, if_pos (by omega)]
    rfl
  have hK3 : ∀ j, k0 + order + 1 ≤ j → kget knots' j = kget knots (j - order) := by
    intro j hj
    rw [hshape, List.append_assoc, Lemmas.Curve.kget_eq, List.getElem?_append_right (by rw [hlt]; omega), hlt,
      List.getElem?_append_right (by simp; omega), List.length_replicate, List.getElem?_drop, ← Lemmas.Curve.kget_eq]
    congr 1; omega
  have hspan : bisectRight knots' t 0 knots'.length = k0 + order + 1 := by
    obtain ⟨b1, b2, b3, b4⟩ := bisectRight_spec knots' t 0 knots'.length hsort' (by omega) (le_refl _)
    generalize bisectRight knots' t 0 knots'.length = r at *
    by_contra hne
    rcases Nat.lt_or_gt_of_ne hne with hlt' | hgt'
    · have := b4 (k0 + order) (by omega) (by omega)
      rw [hK2 (k0 + order) (by omega) (le_refl _)] at this
      exact lt_irrefl _ this
    · have := b3 (k0 + order + 1) (by omega) hgt'
      rw [hK3 _ (le_refl _)] at this
      have e : k0 + order + 1 - order = k0 + 1 := by omega
      rw [e] at this
      linarith
  rw [hspan] at hm1 hm2
  have e_idx : k0 + order + 1 - order = k0 + 1 := by omega
  rw [e_idx] at hm1 hm2
  obtain ⟨m21, m22, m23, m24⟩ := mkBSpline_ok _ _ _ _ hm2
  rw [← hev, m23, m24]
  have hraw : List.replicate order t ++ knots'.drop (k0 + order + 1) = knots'.drop (k0 + 1) := by
    rw [hshape, List.append_assoc]
    have e1 : (knots.take (k0 + 1) ++ (List.replicate order t ++ knots.drop (k0 + 1))).drop (k0 + 1)
        = List.replicate order t ++ knots.drop (k0 + 1) := by
      have := List.drop_length_add_append (l₁ := knots.take (k0 + 1)) (l₂ := List.replicate order t ++ knots.drop (k0 + 1)) (i := 0)
      rw [hlt] at this
      simpa using this
    have e2 : (knots.take (k0 + 1) ++ (List.replicate order t ++ knots.drop (k0 + 1))).drop (k0 + order + 1)
        = knots.drop (k0 + 1) := by
      have := List.drop_length_add_append (l₁ := knots.take (k0 + 1) ++ List.replicate order t) (l₂ := knots.drop (k0 + 1)) (i := 0)
      simp only [List.length_append, hlt, List.length_replicate, Nat.add_zero, List.drop_zero, List.append_assoc] at this
      rw [show k0 + order + 1 = k0 + 1 + order by omega]
      exact this
    rw [e1, e2]
  rw [hraw] at m22 ⊢
  have hkd0 : kget (knots'.drop (k0 + 1)) 0 = t := by
    rw [Lemmas.Curve.kget_drop, hK2 _ (by omega) (by omega)]
  rw [if_pos (by rw [hkd0]; exact ne_of_gt htpos)]
  have hlast : (knots'.drop (k0 + 1)).getLastD 0 = knots.getLastD 0 := by
    rw [Lemmas.Curve.getLastD_eq_kget, Lemmas.Curve.getLastD_eq_kget, Lemmas.Curve.kget_drop]
    have e : k0 + 1 + ((knots'.drop (k0 + 1)).length - 1) = knots'.length - 1 := by
      simp only [List.length_drop]; omega
    rw [e, hK3 _ (by omega)]
    congr 1; omega
  have hmax : kget knots cps.length ≤ knots.getLastD 0 := by
    rw [Lemmas.Curve.getLastD_eq_kget]
    exact nd_mono knots hsort _ _ (by omega) (by omega)
  have hbpos : 0 < knots.getLastD 0 - t := by linarith
  have hb0 : knots.getLastD 0 - t ≠ 0 := ne_of_gt hbpos
  have hlen2 : (normalizeKnots (knots'.drop (k0 + 1))).length = knots'.length - (k0 + 1) := by
    simp [normalizeKnots]
  have hKn : ∀ j, j < knots'.length - (k0 + 1) → kget (normalizeKnots (knots'.drop (k0 + 1))) j
      = (kget knots' (j + (k0 + 1)) - t) / (knots.getLastD 0 - t) := by
    intro j hj
    simp only [normalizeKnots, hkd0, hlast, Lemmas.Curve.kget_eq, List.getElem?_map, List.getElem?_drop]
    have : k0 + 1 + j < knots'.length := by omega
    rw [List.getElem?_eq_getElem this, Nat.add_comm j (k0 + 1), List.getElem?_eq_getElem this]
    simp
  have hdiv : ∀ x y : Rat, x ≤ y → (x - t) / (knots.getLastD 0 - t) ≤ (y - t) / (knots.getLastD 0 - t) :=
    fun x y hxy => div_le_div_of_nonneg_right (by linarith) (le_of_lt hbpos)
  have hdivlt : ∀ x y : Rat, x < y → (x - t) / (knots.getLastD 0 - t) < (y - t) / (knots.getLastD 0 - t) :=
    fun x y hxy => div_lt_div_of_pos_right (by linarith) hbpos
  have hs2 : nondecreasing (normalizeKnots (knots'.drop (k0 + 1))) = true := by
    apply Lemmas.Curve.nd_of_step
    intro i hi
    rw [hlen2] at hi
    rw [hKn i (by omega), hKn (i + 1) hi]
    exact hdiv _ _ (nd_mono knots' hsort' _ _ (by omega) (by omega))
  have hc2 : (cps'.drop (k0 + 1)).length = cps'.length - (k0 + 1) := by simp
  have hl2 : (normalizeKnots (knots'.drop (k0 + 1))).length = order + (cps'.drop (k0 + 1)).length := by
    rw [hlen2, hc2]; omega
  have hKc2 : kget (normalizeKnots (knots'.drop (k0 + 1))) (cps'.drop (k0 + 1)).length
      = (kget knots cps.length - t) / (knots.getLastD 0 - t) := by
    rw [hc2, hKn _ (by omega)]
    have e : cps'.length - (k0 + 1) + (k0 + 1) = cps'.length := by omega
    rw [e, hdhi']
  obtain ⟨sa, ha1, ha2, ha3, ha4, ha5⟩ := evalPoint_domain_end (normalizeKnots (knots'.drop (k0 + 1))) (cps'.drop (k0 + 1)) order
    ((u - t) / (knots.getLastD 0 - t)) hs2 ho (by rw [hc2]; omega) hl2
    (by rw [hKc2, hKn _ (by omega)]
        have e : order - 1 + (k0 + 1) = k0 + order := by omega
        rw [e, hK2 _ (by omega) (le_refl _)]
        exact hdivlt _ _ ht)
    (by rw [hKc2]; exact hdiv _ _ hu)
  obtain ⟨sb, hb1', hb2', hb3', hb4', hb5'⟩ := evalPoint_domain_end knots' cps' order u hsort' ho (by omega) hkl'
    (by rw [hdlo', hdhi']; exact hdom) (by rw [hdhi']; exact hu)
  rw [ha5, hb5']
  rw [hc2] at ha2
  rw [hKc2, hKn _ (by omega)] at ha4
  rw [hKn _ (by omega), hKn _ (by omega)] at ha3
  have e1 : sa + 1 + (k0 + 1) = sa + (k0 + 1) + 1 := by omega
  rw [e1] at ha3 ha4
  have ha3' : kget knots' (sa + (k0 + 1)) < kget knots' (sa + (k0 + 1) + 1) := by
    by_contra hc
    have := hdiv _ _ (not_lt.mp hc)
    linarith
  have ha4' : kget knots' (sa + (k0 + 1) + 1) = kget knots' cps'.length := by
    rw [hdhi']
    have h4 := ha4
    rw [div_left_inj' hb0] at h4
    linarith
  have hab : sa + (k0 + 1) = sb := last_span_unique knots' hsort' _ sb _ ha3' hb3' ha4' hb4' (by omega) (by omega)
  congr 1
  rw [Lemmas.Curve.curveSum_drop (spanPiece knots' u sb (order - 1)) (k0 + 1) cps' 0
    (fun i _ hi => spanPiece_vanish _ _ _ _ _ (Or.inr (by omega))), Lemmas.Curve.curveSum_shift]
  congr 1
  funext i
  by_cases hi : sa < i
  · rw [spanPiece_vanish _ _ _ _ _ (Or.inl hi), spanPiece_vanish _ _ _ _ _ (Or.inl (by omega))]
  · rw [Lemmas.Curve.spanPiece_eq_cdbF, Lemmas.Curve.spanPiece_eq_cdbF, ← hab,
      ← Lemmas.Curve.cdbF_shift (kget knots') u sa (k0 + 1) (order - 1) i,
      ← Lemmas.Curve.cdbF_affine (fun j => kget knots' (j + (k0 + 1))) u t (knots.getLastD 0 - t) hb0]
    apply Lemmas.Curve.cdbF_congr
    intro j _ hj2
    exact hKn j (by omega)

/-- … and the first half AT THE CUT: `point(t)` of the first spline (its domain end, where `find_span` walks back over the
    `order`-fold knot `t`) is the point `C(t)` of the original curve, when interior knots have multiplicity at most the
    degree (continuity of the original at `t`) and `t` is not the start of the domain.  Proof: both sides are polynomial
    pieces that agree on the whole knot interval left of `t` (`split_bspline_preserves`), hence everywhere (identity
    theorem for polynomials), in particular at `t` itself; so `split` reproduces the curve on `[U[p], t]` and `[t, U[count]]` -/
theorem split_bspline_first_half_cut (knots : List Rat) (cps : List V3) (order : Nat) (t : Rat)
    (s1 s2 : List V3 × List Rat)
    (hsort : nondecreasing knots = true) (ho : 1 ≤ order) (hoc : order ≤ cps.length)
    (hl : knots.length = order + cps.length) (h0 : kget knots 0 = 0) (hmult : multLeDegree knots order = true)
    (hpt : kget knots (order - 1) < t) (ht : t < kget knots cps.length)
    (h : splitBSpline knots cps order t = .ok (s1, s2)) :
    evalPoint s1.2 [] s1.1 order t = evalPoint knots [] cps order t := by
  have hfirst : ∀ u, kget knots (order - 1) ≤ u → u < t → evalPoint s1.2 [] s1.1 order u = evalPoint knots [] cps order u :=
    fun u h1 h2 => (split_bspline_preserves knots cps order t u s1 s2 hsort ho hoc hl h0 ht h).1 h1 h2
  have hm := multLeDegree_spec knots order hmult
  unfold splitBSpline at h
  simp only at h
  split at h
  · exact absurd h (by simp)
  rename_i htol1
  split at h
  · exact absurd h (by simp)
  rename_i htol2
  split at h
  · exact absurd h (by simp)
  · exact absurd h (by simp)
  rename_i cps' knots' href
  split at h
  · exact absurd h (by simp)
  rename_i r1 hm1
  split at h
  · exact absurd h (by simp)
  rename_i r2 hm2
  simp only [Except.ok.injEq, Prod.mk.injEq] at h
  obtain ⟨rfl, rfl⟩ := h
  obtain ⟨k0, hk0p, hk0c, hb1, hb2⟩ : ∃ k0, order - 1 ≤ k0 ∧ k0 < cps.length ∧ kget knots k0 ≤ t ∧ t < kget knots (k0 + 1) := by
    have hr := href
    have e : List.replicate order t = t :: List.replicate (order - 1) t := by
      have : order = (order - 1) + 1 := by omega
      rw [this, List.replicate_succ]; simp
    rw [e] at hr
    simp only [knotRefinement] at hr
    split at hr
    · rename_i c1 k1 h1
      obtain ⟨k, qs, hfs, hpk, _, _, _⟩ := insertKnot_ok knots cps order t c1 k1 h1
      obtain ⟨hkc, hkt, htk⟩ := findSpan_result_lt knots order cps.length t k hsort ho hoc hl ht hfs hpk
      exact ⟨k, hpk, hkc, hkt, htk⟩
    · exact absurd hr (by simp)
  have hdom : kget knots (order - 1) < kget knots cps.length := lt_trans hpt ht
  have hshape := refine_replicate order t ho order knots cps cps' knots' k0 hsort hoc hl hdom ht hb1 hb2 (by omega) href
  have hts : ∀ t' ∈ List.replicate order t, t' ≤ kget knots cps.length :=
    fun t' ht' => by rw [List.eq_of_mem_replicate ht']; exact le_of_lt ht
  obtain ⟨hsort', hcl', hkl', hdlo', hdhi', _⟩ :=
    knot_refinement_preserves order _ ho (List.replicate order t) knots cps cps' knots' hsort hoc hl hts href (le_refl _) hdom
  simp only [List.length_replicate] at hcl'
  have hlt : (knots.take (k0 + 1)).length = k0 + 1 := by simp; omega
  have hK1 : ∀ j, j ≤ k0 → kget knots' j = kget knots j := by
    intro j hj
    rw [hshape, List.append_assoc, Lemmas.Curve.kget_eq, List.getElem?_append_left (by rw [hlt]; omega),
      ← Lemmas.Curve.kget_eq, Lemmas.Curve.kget_take _ _ _ (by omega)]
  have hK2 : ∀ j, k0 + 1 ≤ j → j ≤ k0 + order → kget knots' j = t := by
    intro j hj1 hj2
    rw [hshape, List.append_assoc, Lemmas.Curve.kget_eq, List.getElem?_append_right (by rw [hlt]; omega), hlt,
      List.getElem?_append_left (by simp; omega), List.getElem?_replicate, if_pos (by omega)]
    rfl
  have hK3 : ∀ j, k0 + order + 1 ≤ j → kget knots' j = kget knots (j - order) := by
    intro j hj
    rw [hshape, List.append_assoc, Lemmas.Curve.kget_eq, List.getElem?_append_right (by rw [hlt]; omega), hlt,
      List.getElem?_append_right (by simp; omega), List.length_replicate, List.getElem?_drop, ← Lemmas.Curve.kget_eq]
    congr 1; omega
  have hspan : bisectRight knots' t 0 knots'.length = k0 + order + 1 := by
    obtain ⟨b1, b2, b3, b4⟩ := bisectRight_spec knots' t 0 knots'.length hsort' (by omega) (le_refl _)
    generalize bisectRight knots' t 0 knots'.length = r at *
    by_contra hne
    rcases Nat.lt_or_gt_of_ne hne with hlt' | hgt'
    · have := b4 (k0 + order) (by omega) (by omega)
      rw [hK2 (k0 + order) (by omega) (le_refl _)] at this
      exact lt_irrefl _ this
    · have := b3 (k0 + order + 1) (by omega) hgt'
      rw [hK3 _ (le_refl _)] at this
      have e : k0 + order + 1 - order = k0 + 1 := by omega
      rw [e] at this
      linarith
  rw [hspan] at hm1 hm2
  have e_idx : k0 + order + 1 - order = k0 + 1 := by omega
  rw [e_idx] at hm1 hm2
  obtain ⟨m11, m12, m13, m14⟩ := mkBSpline_ok _ _ _ _ hm1
  have hk10 : kget (knots'.take (k0 + order + 1)) 0 = 0 := by
    rw [Lemmas.Curve.kget_take _ _ _ (by omega), hK1 0 (by omega), h0]
  rw [if_neg (by rw [hk10]; simp)] at m14
  rw [m13, m14] at hfirst ⊢
  have hs1 := Lemmas.Curve.nd_take knots' (k0 + order + 1) hsort'
  have hl1 : (knots'.take (k0 + order + 1)).length = order + (cps'.take (k0 + 1)).length := by
    simp only [List.length_take]; omega
  have hc1 : (cps'.take (k0 + 1)).length = k0 + 1 := by simp only [List.length_take]; omega
  have hKt : ∀ j, j < k0 + order + 1 → kget (knots'.take (k0 + order + 1)) j = kget knots' j :=
    fun j hj => Lemmas.Curve.kget_take _ _ _ hj
  -- the first half at its domain end t
  obtain ⟨sa, a1, a2, a3, a4, a5⟩ := evalPoint_domain_end (knots'.take (k0 + order + 1)) (cps'.take (k0 + 1)) order t hs1 ho
    (by omega) hl1
    (by rw [hc1, hKt _ (by omega), hKt _ (by omega), hdlo', hK2 _ (by omega) (by omega)]; exact hpt)
    (by rw [hc1, hKt _ (by omega), hK2 _ (by omega) (by omega)])
  rw [hc1] at a2 a4
  rw [hKt _ (by omega), hKt _ (by omega)] at a3
  rw [hKt _ (by omega), hKt _ (by omega), hK2 (k0 + 1) (by omega) (by omega)] at a4
  rw [hK1 sa (by omega)] at a3
  -- the knot interval [K_sa, t) of the original
  have hsa1 : t ≤ kget knots (sa + 1) := by
    by_cases c : sa + 1 ≤ k0
    · rw [← hK1 _ c, a4]
    · have : sa = k0 := by omega
      rw [this]; exact le_of_lt hb2
  have hsat : kget knots sa < t := by rw [← a4]; exact a3
  -- the original at t
  obtain ⟨s0, hfs0, g1, g2, g3, g4⟩ := findSpan_spec_interior knots order cps.length t hsort ho hoc hl (le_of_lt hpt) ht
  have hs0 : s0 = k0 := span_unique knots hsort t s0 k0 g3 g4 hb1 hb2 (by omega) (by omega)
  rw [hs0] at hfs0
  rw [a5, evalPoint_of_span knots cps order t k0 hfs0 hsort ho hk0p hk0c hl (lt_of_le_of_lt hb1 hb2)]
  congr 1
  -- equality of the two pieces on [K_sa, t), hence everywhere
  have hint : ∀ u, kget knots sa ≤ u → u < t →
      curveSum (fun j => Lemmas.Curve.cdbF (kget (knots'.take (k0 + order + 1))) u (Lemmas.Curve.delta sa) (order - 1) j) 0
          (cps'.take (k0 + 1))
        = curveSum (fun j => Lemmas.Curve.cdbF (kget knots) u (Lemmas.Curve.delta sa) (order - 1) j) 0 cps := by
    intro u hu1 hu2
    have hKpu : kget knots (order - 1) ≤ u := le_trans (nd_mono knots hsort _ _ a1 (by omega)) hu1
    have hf := hfirst u hKpu hu2
    obtain ⟨su, hfsu, u1, u2, u3, u4⟩ := findSpan_spec_interior (knots'.take (k0 + order + 1)) order
      (cps'.take (k0 + 1)).length u hs1 ho (by omega) hl1
      (by rw [hKt _ (by omega), hdlo']; exact hKpu)
      (by rw [hc1, hKt _ (by omega), hK2 _ (by omega) (by omega)]; exact hu2)
    rw [hc1] at u2
    have hsu : su = sa := span_unique (knots'.take (k0 + order + 1)) hs1 u su sa u3 u4
      (by rw [hKt _ (by omega), hK1 sa (by omega)]; exact hu1)
      (by rw [hKt _ (by omega)]
          by_cases c : sa + 1 ≤ k0
          · rw [hK1 _ c, ← hK1 _ c, a4]; exact hu2
          · have : sa = k0 := by omega
            rw [this, hK2 _ (by omega) (by omega)]; exact hu2)
      (by rw [List.length_take]; omega) (by rw [List.length_take]; omega)
    subst hsu
    obtain ⟨so, hfso, o1, o2, o3, o4⟩ := findSpan_spec_interior knots order cps.length u hsort ho hoc hl hKpu (lt_trans hu2 ht)
    have hso : so = su := span_unique knots hsort u so su o3 o4 hu1 (lt_of_lt_of_le hu2 hsa1) (by omega) (by omega)
    subst hso
    rw [evalPoint_of_span _ _ order u so hfsu hs1 ho u1 (by omega) hl1 (lt_of_le_of_lt u3 u4),
      evalPoint_of_span knots cps order u so hfso hsort ho o1 o2 hl (lt_of_le_of_lt o3 o4)] at hf
    have hf' := Option.some.inj hf
    have e1 : spanPiece (knots'.take (k0 + order + 1)) u so (order - 1)
        = fun j => Lemmas.Curve.cdbF (kget (knots'.take (k0 + order + 1))) u (Lemmas.Curve.delta so) (order - 1) j :=
      funext (fun j => Lemmas.Curve.spanPiece_eq_cdbF _ _ _ _ _)
    have e2 : spanPiece knots u so (order - 1)
        = fun j => Lemmas.Curve.cdbF (kget knots) u (Lemmas.Curve.delta so) (order - 1) j :=
      funext (fun j => Lemmas.Curve.spanPiece_eq_cdbF _ _ _ _ _)
    rw [e1, e2] at hf'
    exact hf'
  have hall := Lemmas.Curve.pieces_eq_of_interval _ _ sa sa (order - 1) _ _ (kget knots sa) t hsat hint t
  have e1 : spanPiece (knots'.take (k0 + order + 1)) t sa (order - 1)
      = fun j => Lemmas.Curve.cdbF (kget (knots'.take (k0 + order + 1))) t (Lemmas.Curve.delta sa) (order - 1) j :=
    funext (fun j => Lemmas.Curve.spanPiece_eq_cdbF _ _ _ _ _)
  rw [e1, hall]
  -- the piece left of t and the piece right of t agree at t (continuity of the original)
  rcases Nat.lt_or_ge sa k0 with hlt' | hge
  · have e0 : kget knots (sa + 1) = t := by rw [← hK1 _ (by omega), a4]
    have e0' : kget knots k0 = t := le_antisymm hb1 (by rw [← e0]; exact nd_mono knots hsort _ _ (by omega) (by omega))
    have hmu : k0 - sa ≤ order - 1 := by
      by_contra hc
      have b1 := hm (sa + 1) (by omega) (by omega)
      have b2 := nd_mono knots hsort (sa + 1 + (order - 1)) k0 (by omega) (by omega)
      linarith
    have := funext (fun i => pieces_agree knots t sa k0 (order - 1) hsort hlt' (by rw [e0]; exact hsat)
      (lt_of_le_of_lt hb1 hb2) e0 e0' hmu (by omega) i)
    have e2 : (fun j => Lemmas.Curve.cdbF (kget knots) t (Lemmas.Curve.delta sa) (order - 1) j)
        = spanPiece knots t sa (order - 1) := funext (fun j => (Lemmas.Curve.spanPiece_eq_cdbF _ _ _ _ _).symm)
    rw [e2, this]
  · have : sa = k0 := by omega
    subst this
    congr 1
    funext j
    exact (Lemmas.Curve.spanPiece_eq_cdbF _ _ _ _ _).symm

/-! ## 6f. B-spline ↔ Bézier: Bézier knots, `bezier_to_bspline` -/

/-- **a B-spline is a Bézier curve between two knots of multiplicity `degree`**: if the `p` knots up to `U[s]` equal `a`
    and the `p` knots from `U[s+1]` on equal `b > a`, then on `[a, b)` `Evaluator.point(u)` is the Bernstein form (what
    `Bezier.point`, `Bezier4P.point`, `Bezier3P.point` evaluate) of the control points `P[s-p] … P[s]` at
    `(u − a)/(b − a)` — every degree.  (Instances: every segment of a `bezier_to_bspline` result, both halves of a
    `split`, the result of full knot refinement which `bezier_decomposition` emits, open uniform splines with
    `count = order`.) -/
theorem bspline_bezier_segment (knots : List Rat) (cps : List V3) (order s : Nat) (a b u : Rat)
    (hsort : nondecreasing knots = true) (ho : 1 ≤ order) (hoc : order ≤ cps.length)
    (hl : knots.length = order + cps.length) (hp : order - 1 ≤ s) (hsc : s < cps.length)
    (hks : kget knots s = a) (hks1 : kget knots (s + 1) = b)
    (hK : ∀ j, 1 ≤ j → j ≤ order - 1 → kget knots (s + 1 - j) = a ∧ kget knots (s + j) = b)
    (hab : a < b) (hlo : a ≤ u) (hhi : u < b) :
    evalPoint knots [] cps order u
      = some (bernsteinCurve ((cps.drop (s + 1 - order)).take order) ((u - a) / (b - a))) := by
  have hKp : kget knots (order - 1) ≤ u := le_trans (by rw [← hks]; exact nd_mono knots hsort _ _ hp (by omega)) hlo
  have hKc : u < kget knots cps.length :=
    lt_of_lt_of_le hhi (by rw [← hks1]; exact nd_mono knots hsort _ _ (by omega) (by omega))
  obtain ⟨s0, hfs, g1, g2, g3, g4⟩ := findSpan_spec_interior knots order cps.length u hsort ho hoc hl hKp hKc
  have hss : s0 = s := span_unique knots hsort u s0 s g3 g4 (by rw [hks]; exact hlo) (by rw [hks1]; exact hhi)
    (by omega) (by omega)
  subst hss
  rw [evalPoint_of_span knots cps order u s0 hfs hsort ho g1 g2 hl (lt_of_le_of_lt g3 g4)]
  congr 1
  rw [← curveSum_of_window (spanPiece knots u s0 (order - 1)) cps order s0 ho hp
    (fun i hi => spanPiece_vanish knots u s0 _ i hi)]
  have hlen : ((cps.drop (s0 + 1 - order)).take order).length = order := by
    simp only [List.length_take, List.length_drop]; omega
  simp only [bernsteinCurve, hlen, Lemmas.Curve.bernsteinSum_eq_curveSum]
  have hg : ∀ i, order ≤ i → bernstein (order - 1) i ((u - a) / (b - a)) = 0 := by
    intro i hi
    simp [bernstein, Lemmas.Curve.choose_zero_of_lt (order - 1) i (by omega)]
  rw [Lemmas.Curve.curveSum_take _ order _ 0 (fun i hi => hg i (by omega)),
    curveSum_window _ order 0 _ (fun i hi => hg i (by omega)), List.range_eq_range']
  congr 1
  apply List.map_congr_left
  intro r hr
  have hr' : r < order := by
    have := List.mem_range'_1.mp hr; omega
  rw [Lemmas.Curve.spanPiece_eq_cdbF]
  exact Lemmas.Curve.cdbF_bezier_knots (kget knots) a b u s0 (ne_of_gt (by linarith)) (order - 1) hp hK r (by omega)

private theorem openUniform_kget (count order : Nat) (normalize : Bool) (hoc : order ≤ count) (j : Nat)
    (hj : j < count + order) :
    kget (openUniformKnots count order normalize) j =
      if j < order then 0
      else if j < count then (1 + ((j - order : Nat) : Rat)) / (if normalize then ((count - order + 1 : Nat) : Rat) else 1)
      else (if normalize then 1 else 1 + ((count - order : Nat) : Rat)) := by
  simp only [openUniformKnots]
  rw [Lemmas.Curve.kget_eq, List.getElem?_append, List.length_append, List.length_replicate, List.length_map,
    List.length_range]
  by_cases h1 : j < order
  · rw [if_pos (by omega), if_pos h1, List.getElem?_append_left (by simp; omega), List.getElem?_replicate, if_pos h1]; rfl
  · rw [if_neg h1]
    by_cases h2 : j < count
    · rw [if_pos (by omega), if_pos h2, List.getElem?_append_right (by simp; omega), List.length_replicate,
        List.getElem?_map, List.getElem?_range (by omega)]
      rfl
    · rw [if_neg (by omega), if_neg h2, List.getElem?_replicate, if_pos (by omega)]; rfl

/-- the knots `BSpline.__init__` builds when none are given (`open_uniform_knot_vector`, both `normalize` settings) are in
    the class of the theorems above: right length, nondecreasing, start at 0, clamped at both ends, non-degenerate
    domain -/
theorem open_uniform_knots_wellformed (count order : Nat) (normalize : Bool) (ho : 1 ≤ order) (hoc : order ≤ count) :
    (openUniformKnots count order normalize).length = order + count ∧
    nondecreasing (openUniformKnots count order normalize) = true ∧
    (∀ j, j < order → kget (openUniformKnots count order normalize) j = 0) ∧
    (∀ j, count ≤ j → j < count + order →
      kget (openUniformKnots count order normalize) j = kget (openUniformKnots count order normalize) count) ∧
    kget (openUniformKnots count order normalize) (order - 1) < kget (openUniformKnots count order normalize) count := by
  have hlen : (openUniformKnots count order normalize).length = order + count := by
    simp only [openUniformKnots, List.length_append, List.length_replicate, List.length_map, List.length_range]; omega
  have hg := openUniform_kget count order normalize hoc
  have hmaxpos : (0 : Rat) < (if normalize then ((count - order + 1 : Nat) : Rat) else 1) := by
    split
    · exact_mod_cast Nat.succ_pos _
    · norm_num
  have htail : ∀ v : Nat, v < count - order →
      (1 + (v : Rat)) / (if normalize then ((count - order + 1 : Nat) : Rat) else 1)
        ≤ (if normalize then 1 else 1 + ((count - order : Nat) : Rat)) := by
    intro v hv
    have hv' : (v : Rat) + 1 ≤ ((count - order : Nat) : Rat) := by exact_mod_cast hv
    cases normalize with
    | true =>
      simp only [if_true]
      rw [div_le_iff₀ (by exact_mod_cast Nat.succ_pos _)]
      push_cast; linarith
    | false =>
      simp only [Bool.false_eq_true, if_false, div_one]; linarith
  refine ⟨hlen, ?_, ?_, ?_, ?_⟩
  · apply Lemmas.Curve.nd_of_step
    intro i hi
    rw [hlen] at hi
    rw [hg i (by omega), hg (i + 1) (by omega)]
    by_cases c1 : i + 1 < order
    · rw [if_pos (by omega), if_pos c1]
    · rw [if_neg c1]
      by_cases c0 : i < order
      · rw [if_pos c0]
        by_cases c2 : i + 1 < count
        · rw [if_pos c2]
          apply div_nonneg _ (le_of_lt hmaxpos)
          have : (0 : Rat) ≤ ((i + 1 - order : Nat) : Rat) := Nat.cast_nonneg _
          linarith
        · rw [if_neg c2]
          split
          · norm_num
          · have : (0 : Rat) ≤ ((count - order : Nat) : Rat) := Nat.cast_nonneg _
            linarith
      · rw [if_neg c0]
        by_cases c2 : i + 1 < count
        · rw [if_pos (by omega), if_pos c2]
          apply div_le_div_of_nonneg_right _ (le_of_lt hmaxpos)
          have : ((i - order : Nat) : Rat) ≤ ((i + 1 - order : Nat) : Rat) := by exact_mod_cast (by omega : i - order ≤ i + 1 - order)
          linarith
        · rw [if_neg c2]
          by_cases c3 : i < count
          · rw [if_pos c3]
            exact htail (i - order) (by omega)
          · rw [if_neg c3]
  · intro j hj
    rw [hg j (by omega), if_pos hj]
  · intro j h1 h2
    rw [hg j h2, hg count (by omega), if_neg (by omega : ¬ j < order), if_neg (by omega : ¬ j < count),
      if_neg (by omega : ¬ count < order), if_neg (by omega : ¬ count < count)]
  · rw [hg (order - 1) (by omega), hg count (by omega), if_pos (by omega : order - 1 < order),
      if_neg (by omega : ¬ count < order), if_neg (by omega : ¬ count < count)]
    split
    · norm_num
    · have : (0 : Rat) ≤ ((count - order : Nat) : Rat) := Nat.cast_nonneg _
      linarith

/-- **a default B-spline with `count = order` IS the Bézier curve of its control points** (any degree): with the knots of
    `open_uniform_knot_vector(order, order)` = `[0]*order + [1]*order`, `Evaluator.point(u)` is the Bernstein form that
    `Bezier.point(u)` evaluates, for every `u` in `[0, 1)` -/
theorem default_bspline_is_bezier (cps : List V3) (normalize : Bool) (u : Rat) (ho : 1 ≤ cps.length)
    (hlo : 0 ≤ u) (hhi : u < 1) :
    evalPoint (openUniformKnots cps.length cps.length normalize) [] cps cps.length u = some (bernsteinCurve cps u) := by
  obtain ⟨w1, w2, w3, w4, w5⟩ := open_uniform_knots_wellformed cps.length cps.length normalize ho (le_refl _)
  have hg := openUniform_kget cps.length cps.length normalize (le_refl _)
  have hone : ∀ j, cps.length ≤ j → j < cps.length + cps.length →
      kget (openUniformKnots cps.length cps.length normalize) j = 1 := by
    intro j h1 h2
    rw [hg j h2, if_neg (by omega : ¬ j < cps.length), if_neg (by omega : ¬ j < cps.length)]
    split
    · rfl
    · simp
  have h := bspline_bezier_segment (openUniformKnots cps.length cps.length normalize) cps cps.length (cps.length - 1) 0 1 u
    w2 ho (le_refl _) w1 (le_refl _) (by omega) (w3 _ (by omega))
    (by rw [show cps.length - 1 + 1 = cps.length by omega]; exact hone _ (le_refl _) (by omega))
    (fun j h1 h2 => ⟨w3 _ (by omega), hone _ (by omega) (by omega)⟩) (by norm_num) hlo hhi
  rw [h]
  have e1 : cps.length - 1 + 1 - cps.length = 0 := by omega
  rw [e1, List.drop_zero, List.take_length]
  simp

/-- `quadratic_to_cubic_bezier`: the cubic curve through which `bezier_to_bspline` sends a quadratic one is the same
    curve -/
theorem quad_to_cubic_same_curve (c : Bez3) (t : Rat) : (quadToCubic c).point t = c.point t := by
  apply v3ext <;> simp only [quadToCubic, Bez4.point, Bez3.point, bez4PointK, bez3PointK, V3.add, V3.scale, V3.sub] <;> ring

private theorem flat3_length (f : Nat → Rat) : ∀ (m a : Nat),
    ((List.range' a m).flatMap (fun (k : Nat) => [f k, f k, f k])).length = 3 * m
  | 0, _ => rfl
  | m + 1, a => by
    rw [List.range'_succ, List.flatMap_cons, List.length_append, flat3_length f m (a + 1)]; simp; omega

private theorem flat3_kget (f : Nat → Rat) : ∀ (m a j : Nat), j < 3 * m →
    kget ((List.range' a m).flatMap (fun (k : Nat) => [f k, f k, f k])) j = f (a + j / 3)
  | 0, _, j, h => by omega
  | m + 1, a, j, h => by
    rw [List.range'_succ, List.flatMap_cons]
    match j with
    | 0 => rfl
    | 1 => rfl
    | 2 => rfl
    | j + 3 =>
      show kget ((List.range' (a + 1) m).flatMap (fun (k : Nat) => [f k, f k, f k])) j = _
      rw [flat3_kget f m (a + 1) j (by omega)]
      congr 1; omega

private theorem bezKnots_kget (n : Nat) (hn : 1 ≤ n) (j : Nat) (hj : j < 3 * n + 5) :
    kget (bezierToBSplineKnots n) j = ((min n ((j - 1) / 3) : Nat) : Rat) := by
  simp only [bezierToBSplineKnots]
  have hlm := flat3_length (fun k => (k : Rat)) (n - 1) 1
  rw [Lemmas.Curve.kget_eq, List.getElem?_append, List.length_append, hlm]
  by_cases h1 : j < 4
  · rw [if_pos (by simp; omega), List.getElem?_append_left (by simp; omega)]
    have : min n ((j - 1) / 3) = 0 := by omega
    rw [this]
    match j, h1 with
    | 0, _ => rfl
    | 1, _ => rfl
    | 2, _ => rfl
    | 3, _ => rfl
  · by_cases h2 : j < 4 + 3 * (n - 1)
    · rw [if_pos (by simp; omega), List.getElem?_append_right (by simp; omega), ← Lemmas.Curve.kget_eq]
      simp only [List.length_cons, List.length_nil]
      rw [flat3_kget (fun k => (k : Rat)) (n - 1) 1 (j - 4) (by omega)]
      have : min n ((j - 1) / 3) = 1 + (j - 4) / 3 := by omega
      rw [this]
    · rw [if_neg (by simp; omega)]
      have : min n ((j - 1) / 3) = n := by omega
      rw [this]
      simp only [List.length_cons, List.length_nil]
      have hj' : j - (0 + 1 + 1 + 1 + 1 + 3 * (n - 1)) < 4 := by omega
      match j - (0 + 1 + 1 + 1 + 1 + 3 * (n - 1)), hj' with
      | 0, _ => rfl
      | 1, _ => rfl
      | 2, _ => rfl
      | 3, _ => rfl

private def cpsOf : List Bez4 → List V3
  | [] => []
  | c :: rest => [c.p0, c.p1, c.p2, c.p3] ++ rest.flatMap (fun d => [d.p1, d.p2, d.p3])

private theorem cpsOf_length : ∀ (l : List Bez4), l ≠ [] → (cpsOf l).length = 3 * l.length + 1
  | [], h => absurd rfl h
  | [c], _ => rfl
  | c :: d :: r, _ => by
    have := cpsOf_length (d :: r) (by simp)
    simp only [cpsOf, List.flatMap_cons, List.length_append, List.length_cons, List.length_nil] at this ⊢
    omega

private theorem cpsOf_drop : ∀ (k : Nat) (l : List Bez4), seamless l = true → k < l.length →
    (cpsOf l).drop (3 * k) = cpsOf (l.drop k)
  | 0, _, _, _ => by simp
  | k + 1, [], _, h => by simp at h
  | k + 1, [c], _, h => by simp at h
  | k + 1, c :: d :: r, hs, h => by
    simp only [seamless, Bool.and_eq_true, decide_eq_true_eq] at hs
    have ih := cpsOf_drop k (d :: r) hs.2 (by simpa using h)
    have e : 3 * (k + 1) = 3 * k + 3 := by omega
    rw [e, ← List.drop_drop]
    have : (cpsOf (c :: d :: r)).drop 3 = cpsOf (d :: r) := by
      simp only [cpsOf, List.flatMap_cons]
      rw [← hs.1]
      rfl
    rw [List.drop_succ_cons]
    rw [← ih]
    rw [← this, List.drop_drop, List.drop_drop]
    congr 1; omega

/-- **`bezier_to_bspline`**: for curves lined up seamlessly the cubic B-spline it builds (knots `0,0,0,0,1,1,1,…,n,n,n,n`)
    IS the chain of Bézier curves: on `[k, k+1)` it evaluates to `curves[k].point(u − k)` (the class `Bezier4P`, offset
    trick and kernels included), any number of curves -/
theorem bezier_to_bspline_segments (curves : List Bez4) (cps : List V3) (knots : List Rat)
    (h : bezierToBSpline curves = some (cps, knots)) (hs : seamless curves = true)
    (k : Nat) (c : Bez4) (hk : curves[k]? = some c) (x : Rat) (hx0 : 0 ≤ x) (hx1 : x < 1) :
    nondecreasing knots = true ∧ knots.length = 4 + cps.length ∧
    evalPoint knots [] cps 4 ((k : Rat) + x) = some (c.point x) := by
  have hkl : k < curves.length := by
    by_contra hc
    rw [List.getElem?_eq_none (not_lt.mp hc)] at hk
    exact absurd hk (by simp)
  cases curves with
  | nil => simp at hkl
  | cons c0 rest =>
    simp only [bezierToBSpline, Option.some.injEq, Prod.mk.injEq] at h
    obtain ⟨hcps, hknots⟩ := h
    have hcps' : cps = cpsOf (c0 :: rest) := hcps.symm
    have hn : (c0 :: rest).length = rest.length + 1 := rfl
    have hcl : cps.length = 3 * (rest.length + 1) + 1 := by rw [hcps', cpsOf_length _ (by simp)]; simp
    have hkg := bezKnots_kget (rest.length + 1) (by omega)
    rw [hknots] at hkg
    have hklen : knots.length = 3 * (rest.length + 1) + 5 := by
      rw [← hknots]
      simp only [bezierToBSplineKnots, List.length_append, flat3_length, List.length_cons, List.length_nil]
      omega
    have hsort : nondecreasing knots = true := by
      apply Lemmas.Curve.nd_of_step
      intro i hi
      rw [hkg i (by omega), hkg (i + 1) (by omega)]
      have : min (rest.length + 1) ((i - 1) / 3) ≤ min (rest.length + 1) ((i + 1 - 1) / 3) := by omega
      exact_mod_cast this
    refine ⟨hsort, by omega, ?_⟩
    rw [hn] at hkl
    have kv : ∀ j, 3 * k + 1 ≤ j → j ≤ 3 * k + 3 → kget knots j = (k : Rat) := by
      intro j h1 h2
      rw [hkg j (by omega)]
      have : min (rest.length + 1) ((j - 1) / 3) = k := by omega
      rw [this]
    have kv1 : ∀ j, 3 * k + 4 ≤ j → j ≤ 3 * k + 6 → kget knots j = (k : Rat) + 1 := by
      intro j h1 h2
      rw [hkg j (by omega)]
      have : min (rest.length + 1) ((j - 1) / 3) = k + 1 := by omega
      rw [this]; push_cast; ring
    have hseg := bspline_bezier_segment knots cps 4 (3 * k + 3) (k : Rat) ((k : Rat) + 1) ((k : Rat) + x) hsort (by omega) (by omega)
      (by omega) (by omega) (by omega) (kv _ (by omega) (by omega)) (kv1 _ (by omega) (by omega))
      (fun j h1 h2 => ⟨kv _ (by omega) (by omega), kv1 _ (by omega) (by omega)⟩)
      (by linarith) (by linarith) (by linarith)
    rw [hseg]
    have e1 : 3 * k + 3 + 1 - 4 = 3 * k := by omega
    have e2 : ((k : Rat) + x - k) / ((k : Rat) + 1 - k) = x := by
      have : (k : Rat) + 1 - k = 1 := by ring
      rw [this]; ring
    rw [e1, e2, hcps', cpsOf_drop k (c0 :: rest) hs (by simpa using hkl)]
    -- the k-th curve heads the rest of the chain
    have hd : (c0 :: rest).drop k = c :: (c0 :: rest).drop (k + 1) := by
      have hlt : k < (c0 :: rest).length := by simpa using hkl
      rw [List.drop_eq_getElem_cons hlt]
      congr 1
      have := List.getElem?_eq_getElem hlt
      rw [hk] at this
      exact (Option.some.inj this).symm
    rw [hd]
    have d : Bez3 := ⟨V3.zero, V3.zero, V3.zero⟩
    rw [(bezier_point_bernstein c d x).1]
    rfl

/-! ## 6f'. `degree_elevation` (A5.9) of a single Bézier segment -/

/-- a spline with Bézier knots `[ua]*n + [ub]*n`, `n = count = order`, is the Bernstein form of its control points -/
private theorem bezier_knots_eval (cps : List V3) (ua ub u : Rat) (hn : 1 ≤ cps.length) (hab : ua < ub)
    (hlo : ua ≤ u) (hhi : u < ub) :
    evalPoint (List.replicate cps.length ua ++ List.replicate cps.length ub) [] cps cps.length u
      = some (bernsteinCurve cps ((u - ua) / (ub - ua))) := by
  have hg : ∀ j, j < cps.length + cps.length →
      kget (List.replicate cps.length ua ++ List.replicate cps.length ub) j = if j < cps.length then ua else ub := by
    intro j hj
    rw [Lemmas.Curve.kget_eq, List.getElem?_append, List.length_replicate]
    by_cases c : j < cps.length
    · rw [if_pos c, if_pos c, List.getElem?_replicate, if_pos c]; rfl
    · rw [if_neg c, if_neg c, List.getElem?_replicate, if_pos (by omega)]; rfl
  have hsort : nondecreasing (List.replicate cps.length ua ++ List.replicate cps.length ub) = true := by
    apply Lemmas.Curve.nd_of_step
    intro i hi
    simp only [List.length_append, List.length_replicate] at hi
    rw [hg i (by omega), hg (i + 1) hi]
    by_cases c1 : i + 1 < cps.length
    · rw [if_pos (by omega), if_pos c1]
    · rw [if_neg c1]
      split
      · exact le_of_lt hab
      · exact le_refl _
  have h := bspline_bezier_segment (List.replicate cps.length ua ++ List.replicate cps.length ub) cps cps.length
    (cps.length - 1) ua ub u hsort hn (le_refl _) (by simp) (le_refl _) (by omega)
    (by rw [hg _ (by omega), if_pos (by omega)])
    (by rw [hg _ (by omega), if_neg (by omega)])
    (fun j h1 h2 => ⟨by rw [hg _ (by omega), if_pos (by omega)], by rw [hg _ (by omega), if_neg (by omega)]⟩)
    hab hlo hhi
  rw [h]
  have e1 : cps.length - 1 + 1 - cps.length = 0 := by omega
  rw [e1, List.drop_zero, List.take_length]

/-- **degree elevation of a Bézier segment** (A5.9 on a spline with `count = order`; the coefficient table `bezalfs` with
    its two loop nests, any degree `p`, elevation by any `t >= 0`): the `p + t + 1` new control points have the same
    Bernstein curve, the new knots are `[ua]*(p+t+1) + [ub]*(p+t+1)`, and `Evaluator.point` of the elevated spline equals
    `Evaluator.point` of the original on `[ua, ub)` -/
theorem degree_elevation_bezier_segment (bpts : List V3) (t : Nat) (ua ub x : Rat) (hn : 1 ≤ bpts.length) :
    (elevateBezier bpts t ua ub).1.length = bpts.length + t ∧
    (elevateBezier bpts t ua ub).2
      = List.replicate (bpts.length + t) ua ++ List.replicate (bpts.length + t) ub ∧
    bernsteinCurve (elevateBezier bpts t ua ub).1 x = bernsteinCurve bpts x ∧
    (ua < ub → ua ≤ x → x < ub →
      evalPoint (elevateBezier bpts t ua ub).2 [] (elevateBezier bpts t ua ub).1 (bpts.length + t) x
        = evalPoint (List.replicate bpts.length ua ++ List.replicate bpts.length ub) [] bpts bpts.length x) := by
  have hlen : (elevateBezier bpts t ua ub).1.length = bpts.length + t := by
    simp only [elevateBezier, List.length_cons, List.length_map, List.length_range']; omega
  have hk : (elevateBezier bpts t ua ub).2
      = List.replicate (bpts.length + t) ua ++ List.replicate (bpts.length + t) ub := by
    simp only [elevateBezier]
    have e : bpts.length - 1 + t + 1 = bpts.length + t := by omega
    rw [e]
  have hcurve : ∀ y : Rat, bernsteinCurve (elevateBezier bpts t ua ub).1 y = bernsteinCurve bpts y := by
    intro y
    have key : ∀ (π : V3 → Rat), π V3.zero = 0 → (∀ a b, π (a.add b) = π a + π b) → (∀ a s, π (a.scale s) = π a * s) →
        π (bernsteinCurve (elevateBezier bpts t ua ub).1 y) = π (bernsteinCurve bpts y) := by
      intro π hz ha hs
      rw [Lemmas.Curve.bernsteinCurve_proj π hz ha hs _ (by omega), Lemmas.Curve.bernsteinCurve_proj π hz ha hs bpts hn, hlen]
      have e : bpts.length + t - 1 = bpts.length - 1 + t := by omega
      rw [e, ← Lemmas.Curve.bz_elevate (bpts.length - 1) t (fun i => π (bpts.getD i V3.zero)) y]
      apply Lemmas.Curve.bz_congr
      intro i hi
      have e2 : bpts.length - 1 + 1 = bpts.length := by omega
      rw [e2]
      have hrow : ∀ i', i' ≤ bpts.length - 1 + t →
          π (curveSum (bezalfs (bpts.length - 1) t i') 0 bpts)
            = Lemmas.Curve.wsum bpts.length (fun j => Lemmas.Curve.elevCoeff (bpts.length - 1) t i' j * π (bpts.getD j V3.zero)) := by
        intro i' hi'
        rw [Lemmas.Curve.curveSum_proj π hz ha hs]
        apply Lemmas.Curve.wsum_congr
        intro j _
        rw [Nat.zero_add, Lemmas.Curve.bezalfs_closed _ _ _ _ hi']; ring
      cases i with
      | zero =>
        simp only [elevateBezier, List.getD_cons_zero]
        rw [Lemmas.Curve.wsum_single bpts.length _ 0 (by omega) (fun j _ hj => by
          simp only [Lemmas.Curve.elevCoeff]
          rw [if_neg (by omega)]; ring)]
        simp [Lemmas.Curve.elevCoeff, Lemmas.Curve.choose_zero_right]
      | succ i =>
        simp only [elevateBezier, List.getD_cons_succ]
        rw [List.getD_eq_getElem?_getD, List.getElem?_map, List.getElem?_range' (by omega)]
        simp only [Option.map_some, Option.getD_some, Nat.one_mul]
        have e3 : 1 + i = i + 1 := by omega
        rw [e3]
        exact hrow (i + 1) hi
    apply v3ext
    · exact key V3.x rfl (fun _ _ => rfl) (fun _ _ => rfl)
    · exact key V3.y rfl (fun _ _ => rfl) (fun _ _ => rfl)
    · exact key V3.z rfl (fun _ _ => rfl) (fun _ _ => rfl)
  refine ⟨hlen, hk, hcurve x, ?_⟩
  intro hab hlo hhi
  have h1 := bezier_knots_eval (elevateBezier bpts t ua ub).1 ua ub x (by omega) hab hlo hhi
  rw [hlen] at h1
  rw [hk, h1, bezier_knots_eval bpts ua ub x hn hab hlo hhi, hcurve]

private theorem decompAdvance_all (knots : List Rat) (m : Nat) : ∀ (fuel b : Nat), b ≤ m → m - b ≤ fuel →
    (∀ j, b ≤ j → j < m → kget knots (j + 1) = kget knots j) → decompAdvance knots m fuel b = m
  | 0, b, h1, h2, _ => by simp only [decompAdvance]; omega
  | fuel + 1, b, h1, h2, h => by
    simp only [decompAdvance]
    by_cases c : b < m
    · rw [if_pos ⟨c, h b (le_refl _) c⟩]
      exact decompAdvance_all knots m fuel (b + 1) (by omega) (by omega) (fun j hj1 hj2 => h j (by omega) hj2)
    · rw [if_neg (fun hh => c hh.1)]; omega

/-- `bezier_decomposition` (A5.6 as coded) of a spline that is ONE Bézier segment (`count = order`, knots
    `[ua]*n + [ub]*n`): the loop makes one pass without knot insertion and yields exactly the control points, which are the
    Bernstein form of the curve (`default_bspline_is_bezier` / `bspline_bezier_segment`); any degree >= 1 -/
theorem bezier_decomposition_single_segment (cps : List V3) (ua ub u : Rat) (hn : 2 ≤ cps.length) (hab : ua < ub)
    (hlo : ua ≤ u) (hhi : u < ub) :
    bezierDecomposition (List.replicate cps.length ua ++ List.replicate cps.length ub) [] cps cps.length = .ok [cps] ∧
    evalPoint (List.replicate cps.length ua ++ List.replicate cps.length ub) [] cps cps.length u
      = some (bernsteinCurve cps ((u - ua) / (ub - ua))) := by
  refine ⟨?_, bezier_knots_eval cps ua ub u (by omega) hab hlo hhi⟩
  have hg : ∀ j, j < cps.length + cps.length →
      kget (List.replicate cps.length ua ++ List.replicate cps.length ub) j = if j < cps.length then ua else ub := by
    intro j hj
    rw [Lemmas.Curve.kget_eq, List.getElem?_append, List.length_replicate]
    by_cases c : j < cps.length
    · rw [if_pos c, if_pos c, List.getElem?_replicate, if_pos c]; rfl
    · rw [if_neg c, if_neg c, List.getElem?_replicate, if_pos (by omega)]; rfl
  have hclamp : ((List.replicate cps.length ua ++ List.replicate cps.length ub).take cps.length).all
        (· = kget (List.replicate cps.length ua ++ List.replicate cps.length ub) 0) = true ∧
      (((List.replicate cps.length ua ++ List.replicate cps.length ub).drop
        ((List.replicate cps.length ua ++ List.replicate cps.length ub).length - cps.length)).all
        (· = (List.replicate cps.length ua ++ List.replicate cps.length ub).getLastD 0)) = true := by
    constructor
    · rw [hg 0 (by omega), if_pos (by omega)]
      have : (List.replicate cps.length ua ++ List.replicate cps.length ub).take cps.length = List.replicate cps.length ua := by
        rw [List.take_append_of_le_length (by simp)]; simp
      rw [this]; simp
    · rw [Lemmas.Curve.getLastD_eq_kget]
      simp only [List.length_append, List.length_replicate]
      rw [hg _ (by omega), if_neg (by omega)]
      have e : cps.length + cps.length - cps.length = cps.length := by omega
      rw [e]
      have : (List.replicate cps.length ua ++ List.replicate cps.length ub).drop cps.length = List.replicate cps.length ub := by
        simp
      rw [this]; simp
  unfold bezierDecomposition
  simp only [List.isEmpty_nil, not_true_eq_false, if_false, hclamp.1, hclamp.2, Bool.and_self]
  have em : cps.length - 1 + (cps.length - 1) + 1 = 2 * cps.length - 1 := by omega
  simp only [em]
  simp only [decompLoop]
  have hb0 : cps.length - 1 + 1 < 2 * cps.length - 1 := by omega
  have hadv : decompAdvance (List.replicate cps.length ua ++ List.replicate cps.length ub) (2 * cps.length - 1)
      (2 * cps.length - 1 + 1) (cps.length - 1 + 1) = 2 * cps.length - 1 :=
    decompAdvance_all _ _ _ _ (by omega) (by omega) (fun j h1 h2 => by
      rw [hg _ (by omega), hg _ (by omega), if_neg (by omega), if_neg (by omega)])
  simp only [hb0, not_true_eq_false, if_false, hadv, lt_irrefl, decide_false, Bool.false_eq_true]
  rw [if_neg (by omega)]
  simp only [Except.ok.injEq, List.cons.injEq, and_true]
  have : cps.length - 1 + 1 = cps.length := by omega
  rw [this, List.take_length]

/-! ## 6g. rational knot insertion (`BSpline._insert_knot_rational`): homogeneous coordinates -/

private theorem combine_zipWith_mul : ∀ (N ws : List Rat) (pts : List V3),
    combine (List.zipWith (· * ·) N ws) pts = combine N (List.zipWith (fun (v : V3) (w : Rat) => v.scale w) pts ws)
  | [], _, _ => by simp [combine]
  | _ :: _, [], pts => by cases pts <;> simp [combine]
  | _ :: _, _ :: _, [] => by simp [combine]
  | n :: ns, w :: ws, p :: ps => by
    simp only [List.zipWith_cons_cons, combine, combine_zipWith_mul ns ws ps]
    congr 1
    apply v3ext <;> simp only [V3.scale] <;> ring

private theorem zipWith_take_right {α β γ : Type} (f : α → β → γ) : ∀ (N : List α) (ws : List β) (m : Nat), N.length ≤ m →
    List.zipWith f N (ws.take m) = List.zipWith f N ws
  | [], _, _, _ => by simp
  | _ :: _, [], _, _ => by simp
  | _ :: _, _ :: _, 0, h => by simp at h
  | n :: ns, w :: ws, m + 1, h => by
    simp only [List.take_succ_cons, List.zipWith_cons_cons, zipWith_take_right f ns ws m (by simpa using h)]

private theorem combine_embed_x : ∀ (N ws : List Rat),
    (combine N (ws.map (fun w => (⟨w, 0, 0⟩ : V3)))).x = (List.zipWith (· * ·) N ws).sum
  | [], _ => by simp [combine, V3.zero]
  | _ :: _, [] => by simp [combine, V3.zero]
  | n :: ns, w :: ws => by
    simp only [List.map_cons, combine, List.zipWith_cons_cons, List.sum_cons, V3.add, V3.scale, combine_embed_x ns ws]
    ring

private theorem combine_x_congr : ∀ (N : List Rat) (a b : List V3), a.map (·.x) = b.map (·.x) →
    (combine N a).x = (combine N b).x
  | [], _, _, _ => by simp [combine]
  | _ :: _, [], [], _ => rfl
  | _ :: _, [], _ :: _, h => by simp at h
  | _ :: _, _ :: _, [], h => by simp at h
  | n :: ns, p :: ps, q :: qs, h => by
    simp only [List.map_cons, List.cons.injEq] at h
    simp only [combine, V3.add, V3.scale, h.1, combine_x_congr ns ps qs h.2]

private theorem combine_zeros : ∀ (N : List Rat) (pts : List V3), combine (N.map (fun _ => (0 : Rat))) pts = V3.zero
  | [], _ => by simp [combine]
  | _ :: _, [] => by simp [combine]
  | n :: ns, q :: qs => by
    simp only [List.map_cons, combine, combine_zeros ns qs]
    apply v3ext <;> simp [V3.add, V3.scale, V3.zero]

/-- the rational evaluation through homogeneous coordinates: with `H_i = w_i·P_i` and the weights as a second, scalar
    "curve", `point(u) = A(u) / B(u)` where `A`, `B` are the NON-rational evaluations of `H` and of the weights
    (`B(u) = 0` → the null vector, the quirk of `span_weighting`) -/
private theorem evalPoint_hom (knots weights : List Rat) (cps : List V3) (order : Nat) (u : Rat) (ho : 1 ≤ order)
    (hw : weights ≠ []) (hwl : weights.length = cps.length) :
    evalPoint knots weights cps order u =
      (evalPoint knots [] (List.zipWith (fun (v : V3) (w : Rat) => v.scale w) cps weights) order u).bind (fun A =>
        ((evalPoint knots [] (weights.map (fun w => (⟨w, 0, 0⟩ : V3))) order u).map (·.x)).map
          (fun bx => if bx = 0 then V3.zero else A.scale (1 / bx))) := by
  have hne : weights.isEmpty = false := by cases weights <;> simp_all
  have hHl : (List.zipWith (fun (v : V3) (w : Rat) => v.scale w) cps weights).length = cps.length := by
    simp [hwl]
  simp only [evalPoint, hHl, List.length_map, hwl]
  split
  · rename_i span hfs
    simp only [basisFuncsW, List.isEmpty_nil, if_true, hne, Bool.false_eq_true, if_false]
    cases hN : basisFuncs knots order span u with
    | none => simp
    | some N =>
      have hNl := basis_length knots order span u N ho hN
      simp only [Option.map_some, Option.bind_some, Option.some.injEq]
      have hA : combine N ((List.zipWith (fun (v : V3) (w : Rat) => v.scale w) cps weights).drop (span + 1 - order))
          = combine (List.zipWith (· * ·) N ((weights.drop (span + 1 - order)).take order)) (cps.drop (span + 1 - order)) := by
        rw [zipWith_take_right _ N _ order (by omega), combine_zipWith_mul, List.drop_zipWith]
      have hB : (combine N ((weights.map (fun w => (⟨w, 0, 0⟩ : V3))).drop (span + 1 - order))).x
          = (List.zipWith (· * ·) N ((weights.drop (span + 1 - order)).take order)).sum := by
        rw [zipWith_take_right _ N _ order (by omega), ← List.map_drop, combine_embed_x]
      rw [hA, hB]
      simp only [spanWeighting]
      by_cases hs : (List.zipWith (· * ·) N ((weights.drop (span + 1 - order)).take order)).sum = 0
      · rw [if_pos hs, if_pos hs, combine_zeros]
      · rw [if_neg hs, if_neg hs, combine_div]
  · simp

private theorem zipWith_unscale : ∀ (H : List V3) (ws : List Rat), (∀ w ∈ ws, w ≠ 0) →
    List.zipWith (fun (v : V3) (w : Rat) => v.scale w) (List.zipWith (fun (h : V3) (w : Rat) => h.scale (1 / w)) H ws) ws
      = List.zipWith (fun (h : V3) (_ : Rat) => h) H ws
  | [], _, _ => by simp
  | _ :: _, [], _ => by simp
  | h :: hs, w :: ws, hnz => by
    simp only [List.zipWith_cons_cons, zipWith_unscale hs ws (fun w' hw' => hnz w' (by simp [hw']))]
    congr 1
    have hw0 : w ≠ 0 := hnz w (by simp)
    apply v3ext <;> simp only [V3.scale] <;> field_simp

private theorem zipWith_fst {α β : Type} : ∀ (H : List α) (ws : List β), H.length = ws.length →
    List.zipWith (fun (h : α) (_ : β) => h) H ws = H
  | [], [], _ => rfl
  | [], _ :: _, h => by simp at h
  | _ :: _, [], h => by simp at h
  | a :: as, _ :: bs, h => by
    simp only [List.zipWith_cons_cons, zipWith_fst as bs (by simpa using h)]

private theorem evalPoint_x_congr (knots : List Rat) (a b : List V3) (order : Nat) (u : Rat)
    (h : a.map (·.x) = b.map (·.x)) :
    (evalPoint knots [] a order u).map (·.x) = (evalPoint knots [] b order u).map (·.x) := by
  have hl : a.length = b.length := by
    have := congrArg List.length h
    simpa using this
  simp only [evalPoint, hl]
  split
  · rename_i span _
    simp only [basisFuncsW, List.isEmpty_nil, if_true]
    cases basisFuncs knots order span u with
    | none => rfl
    | some N =>
      simp only [Option.map_some, Option.some.injEq]
      exact combine_x_congr N _ _ (by rw [List.map_drop, List.map_drop, h])
  · rfl

/-- **rational knot insertion**: `_insert_knot_rational` (Boehm on the homogeneous points, back through
    `from_homogeneous_points`) does not change the NURBS curve: whenever it returns for a `t` up to the end of the
    domain, `Evaluator.point` with the new control points, WEIGHTS and knots equals the old one for every `u` of the
    domain — every degree, every nondecreasing knot vector, any weights (a new weight 0 raises instead) -/
theorem insert_knot_rational_preserves (knots weights : List Rat) (cps : List V3) (order : Nat) (t u : Rat)
    (cps' : List V3) (weights' knots' : List Rat)
    (hsort : nondecreasing knots = true) (ho : 1 ≤ order) (hoc : order ≤ cps.length)
    (hl : knots.length = order + cps.length) (hwl : weights.length = cps.length)
    (ht : t ≤ kget knots cps.length)
    (h : insertKnotRational knots weights cps order t = .ok (cps', weights', knots'))
    (hlo : kget knots (order - 1) ≤ u) (hhi : u < kget knots cps.length) :
    cps'.length = cps.length + 1 ∧ weights'.length = cps'.length ∧ knots'.length = order + cps'.length ∧
    nondecreasing knots' = true ∧
    evalPoint knots' weights' cps' order u = evalPoint knots weights cps order u := by
  have hw : weights ≠ [] := by
    intro h0; rw [h0] at hwl; simp at hwl; omega
  have hHl : (List.zipWith (fun (v : V3) (w : Rat) => v.scale w) cps weights).length = cps.length := by simp [hwl]
  have hWl : (weights.map (fun w => (⟨w, 0, 0⟩ : V3))).length = cps.length := by simp [hwl]
  unfold insertKnotRational at h
  simp only at h
  split at h
  · rename_i H' K' W' K2 hH hW
    split at h
    · exact absurd h (by simp)
    · rename_i hnz
      simp only [Except.ok.injEq, Prod.mk.injEq] at h
      obtain ⟨rfl, rfl, rfl⟩ := h
      obtain ⟨a1, a2, a3, a4, a5, a6⟩ := insert_knot_preserves knots _ order t u H' K' hsort ho (by omega) (by omega)
        (by rw [hHl]; exact ht) hH (by exact hlo) (by rw [hHl]; exact hhi)
      obtain ⟨k, _, hfs, _, _, _, hk1⟩ := insertKnot_ok _ _ _ _ _ _ hH
      obtain ⟨k', _, hfs', _, _, _, hk2⟩ := insertKnot_ok _ _ _ _ _ _ hW
      rw [hHl] at hfs; rw [hWl] at hfs'
      have hkk : k' = k := by rw [hfs] at hfs'; exact_mod_cast hfs'.symm
      subst hkk
      have hK2 : K2 = K' := by rw [hk1, hk2]
      subst hK2
      obtain ⟨b1, b2, b3, b4, b5, b6⟩ := insert_knot_preserves knots _ order t u W' K2 hsort ho (by omega) (by omega)
        (by rw [hWl]; exact ht) hW (by exact hlo) (by rw [hWl]; exact hhi)
      rw [hHl] at a2; rw [hWl] at b2
      have hnz' : ∀ w ∈ W'.map (·.x), w ≠ 0 := by
        intro w hw' h0
        apply hnz
        simp only [List.any_eq_true, decide_eq_true_eq]
        exact ⟨w, hw', h0⟩
      have hcl : (List.zipWith (fun (h : V3) (w : Rat) => h.scale (1 / w)) H' (W'.map (·.x))).length = cps.length + 1 := by
        simp [a2, b2]
      refine ⟨hcl, by rw [hcl, List.length_map, b2], by rw [hcl]; omega, a1, ?_⟩
      rw [evalPoint_hom K2 (W'.map (·.x)) _ order u ho (by
          intro h0
          have := congrArg List.length h0
          simp [b2] at this) (by rw [hcl, List.length_map, b2]),
        evalPoint_hom knots weights cps order u ho hw hwl]
      rw [zipWith_unscale H' _ hnz', zipWith_fst H' _ (by simp [a2, b2]), a6]
      have hx : (evalPoint K2 [] ((W'.map (·.x)).map (fun w => (⟨w, 0, 0⟩ : V3))) order u).map (·.x)
          = (evalPoint K2 [] W' order u).map (·.x) :=
        evalPoint_x_congr K2 _ _ order u (by simp [List.map_map, Function.comp])
      rw [hx, b6]
  · exact absurd h (by simp)
  · exact absurd h (by simp)

/-- **rational reversal**: `reverse()` of a NURBS curve (control points AND weights reversed) at the mirrored parameter
    = the original at `u`, for every `u` of the closed domain, interior multiplicity <= degree (through the homogeneous
    form: the numerator curve and the weight curve are both reversed non rational splines) -/
theorem bspline_reverse_rational (knots weights : List Rat) (cps : List V3) (order : Nat) (u : Rat)
    (hsort : nondecreasing knots = true) (ho : 1 ≤ order) (hoc : order ≤ cps.length)
    (hl : knots.length = order + cps.length) (hwl : weights.length = cps.length)
    (hmult : multLeDegree knots order = true)
    (hdom : kget knots (order - 1) < kget knots cps.length)
    (hlo : kget knots (order - 1) ≤ u) (hhi : u ≤ kget knots cps.length) :
    evalPoint (reverseSpline knots weights cps).1 (reverseSpline knots weights cps).2.1 (reverseSpline knots weights cps).2.2
        order (reverseParam knots u)
      = evalPoint knots weights cps order u := by
  have hw : weights ≠ [] := by
    intro h0; rw [h0] at hwl; simp at hwl; omega
  simp only [reverseSpline]
  rw [evalPoint_hom _ weights.reverse cps.reverse order _ ho (by simpa using hw) (by simp [hwl]),
    evalPoint_hom knots weights cps order u ho hw hwl]
  have e1 : List.zipWith (fun (v : V3) (w : Rat) => v.scale w) cps.reverse weights.reverse
      = (List.zipWith (fun (v : V3) (w : Rat) => v.scale w) cps weights).reverse :=
    (List.reverse_zipWith (by omega)).symm
  have e2 : weights.reverse.map (fun w => (⟨w, 0, 0⟩ : V3)) = (weights.map (fun w => (⟨w, 0, 0⟩ : V3))).reverse :=
    List.map_reverse
  rw [e1, e2]
  have r1 := bspline_reverse knots (List.zipWith (fun (v : V3) (w : Rat) => v.scale w) cps weights) order u hsort ho
    (by simp [hwl]; omega) (by simp [hwl]; omega) hmult (by simpa [hwl] using hdom) hlo (by simpa [hwl] using hhi)
  have r2 := bspline_reverse knots (weights.map (fun w => (⟨w, 0, 0⟩ : V3))) order u hsort ho
    (by simp [hwl]; omega) (by simp [hwl]; omega) hmult (by simpa [hwl] using hdom) hlo (by simpa [hwl] using hhi)
  simp only [reverseSpline] at r1 r2
  rw [r1, r2]

/-- **rational knot refinement** (`knot_refinement` of a NURBS curve = iterated `_insert_knot_rational`): control points,
    weights and knots of the result give the same point for every `u` of the domain; any number of new knots up to the
    end of the domain -/
theorem knot_refinement_rational_preserves (order : Nat) (u : Rat) (ho : 1 ≤ order) :
    ∀ (ts : List Rat) (knots weights : List Rat) (cps : List V3) (cps' : List V3) (weights' knots' : List Rat),
      nondecreasing knots = true → order ≤ cps.length → knots.length = order + cps.length →
      weights.length = cps.length →
      (∀ t ∈ ts, t ≤ kget knots cps.length) →
      knotRefinementRational knots weights cps order ts = .ok (cps', weights', knots') →
      kget knots (order - 1) ≤ u → u < kget knots cps.length →
      cps'.length = cps.length + ts.length ∧ weights'.length = cps'.length ∧ knots'.length = order + cps'.length ∧
      nondecreasing knots' = true ∧
      evalPoint knots' weights' cps' order u = evalPoint knots weights cps order u
  | [], knots, weights, cps, cps', weights', knots', hsort, _, hl, hwl, _, h, _, _ => by
    simp only [knotRefinementRational, Except.ok.injEq, Prod.mk.injEq] at h
    obtain ⟨rfl, rfl, rfl⟩ := h
    exact ⟨rfl, hwl, hl, hsort, rfl⟩
  | t :: ts, knots, weights, cps, cps', weights', knots', hsort, hoc, hl, hwl, hts, h, hlo, hhi => by
    simp only [knotRefinementRational] at h
    split at h
    · rename_i c1 w1 k1 h1
      obtain ⟨a1, a2, a3, a4, a5⟩ := insert_knot_rational_preserves knots weights cps order t u c1 w1 k1 hsort ho hoc hl hwl
        (hts t (by simp)) h1 hlo hhi
      -- the domain of the new spline (from the non rational insertion of the weight "curve")
      have hdomk : kget k1 (order - 1) = kget knots (order - 1) ∧ kget k1 c1.length = kget knots cps.length := by
        unfold insertKnotRational at h1
        simp only at h1
        split at h1
        · rename_i H' K' W' K2 hH hW
          split at h1
          · exact absurd h1 (by simp)
          · simp only [Except.ok.injEq, Prod.mk.injEq] at h1
            obtain ⟨_, _, rfl⟩ := h1
            have hHl : (List.zipWith (fun (v : V3) (w : Rat) => v.scale w) cps weights).length = cps.length := by simp [hwl]
            obtain ⟨_, b2, _, b4, b5, _⟩ := insert_knot_preserves knots _ order t u H' K' hsort ho (by omega) (by omega)
              (by rw [hHl]; exact hts t (by simp)) hH hlo (by rw [hHl]; exact hhi)
            rw [hHl] at b2 b5
            exact ⟨b4, by rw [a1, ← b2]; exact b5⟩
        · exact absurd h1 (by simp)
        · exact absurd h1 (by simp)
      obtain ⟨b1, b2, b3, b4, b5⟩ := knot_refinement_rational_preserves order u ho ts k1 w1 c1 cps' weights' knots' a4
        (by omega) a3 a2 (fun t' ht' => by rw [hdomk.2]; exact hts t' (by simp [ht'])) h
        (by rw [hdomk.1]; exact hlo) (by rw [hdomk.2]; exact hhi)
      exact ⟨by rw [b1, a1]; simp; omega, b2, b3, b4, by rw [b5, a5]⟩
    · exact absurd h (by simp)

/-! ### rational `split` -/

/-- the first half, for ANY control polygon `Q` over refined knots of the shape `… ++ [t]*order ++ …` -/
private theorem split_first_core (knots knots' : List Rat) (Q : List V3) (order k0 : Nat) (t u : Rat) (ho : 1 ≤ order)
    (hsort' : nondecreasing knots' = true)
    (hshape : knots' = knots.take (k0 + 1) ++ List.replicate order t ++ knots.drop (k0 + 1))
    (hk0 : k0 + order < knots.length) (hk0p : order - 1 ≤ k0) (hkl' : knots'.length = order + Q.length)
    (hb2 : t < kget knots (k0 + 1)) (hlo : kget knots' (order - 1) ≤ u) (hhi : u < t) :
    evalPoint (knots'.take (k0 + order + 1)) [] (Q.take (k0 + 1)) order u = evalPoint knots' [] Q order u := by
  have hlt : (knots.take (k0 + 1)).length = k0 + 1 := by simp; omega
  have hlen' : knots'.length = knots.length + order := by
    rw [hshape]; simp only [List.length_append, hlt, List.length_replicate, List.length_drop]; omega
  have hK2 : ∀ j, k0 + 1 ≤ j → j ≤ k0 + order → kget knots' j = t := by
    intro j hj1 hj2
    rw [hshape, List.append_assoc, Lemmas.Curve.kget_eq, List.getElem?_append_right (by rw [hlt]; omega), hlt,
      List.getElem?_append_left (by simp; omega), List.getElem?_replicate, if_pos (by omega)]
    rfl
  have hK3 : ∀ j, k0 + order + 1 ≤ j → kget knots' j = kget knots (j - order) := by
    intro j hj
    rw [hshape, List.append_assoc, Lemmas.Curve.kget_eq, List.getElem?_append_right (by rw [hlt]; omega), hlt,
      List.getElem?_append_right (by simp; omega), List.length_replicate, List.getElem?_drop, ← Lemmas.Curve.kget_eq]
    congr 1; omega
  have hs1 := Lemmas.Curve.nd_take knots' (k0 + order + 1) hsort'
  have hl1 : (knots'.take (k0 + order + 1)).length = order + (Q.take (k0 + 1)).length := by
    simp only [List.length_take]; omega
  have hc1 : (Q.take (k0 + 1)).length = k0 + 1 := by simp only [List.length_take]; omega
  have hKt : ∀ j, j < k0 + order + 1 → kget (knots'.take (k0 + order + 1)) j = kget knots' j :=
    fun j hj => Lemmas.Curve.kget_take _ _ _ hj
  have hend : u < kget knots' Q.length := by
    have h1 := nd_mono knots' hsort' (k0 + order + 1) Q.length (by omega) (by omega)
    rw [hK3 _ (le_refl _)] at h1
    have e : k0 + order + 1 - order = k0 + 1 := by omega
    rw [e] at h1
    linarith
  obtain ⟨sa, hfa, ha1, ha2, ha3, ha4⟩ := findSpan_spec_interior (knots'.take (k0 + order + 1)) order
    (Q.take (k0 + 1)).length u hs1 ho (by omega) hl1
    (by rw [hKt _ (by omega)]; exact hlo)
    (by rw [hc1, hKt _ (by omega), hK2 _ (by omega) (by omega)]; exact hhi)
  obtain ⟨sb, hfb, hb1', hb2', hb3', hb4'⟩ := findSpan_spec_interior knots' order Q.length u hsort' ho (by omega) hkl' hlo hend
  rw [hc1] at ha2
  rw [hKt _ (by omega)] at ha3
  rw [hKt _ (by omega)] at ha4
  have hab : sa = sb := span_unique knots' hsort' u sa sb ha3 ha4 hb3' hb4' (by omega) (by omega)
  subst hab
  rw [evalPoint_of_span _ _ order u sa hfa hs1 ho ha1 (by omega) hl1 (by
      rw [hKt _ (by omega), hKt _ (by omega)]; exact lt_of_le_of_lt ha3 ha4),
    evalPoint_of_span knots' Q order u sa hfb hsort' ho hb1' hb2' hkl' (lt_of_le_of_lt hb3' hb4')]
  congr 1
  have hf : spanPiece (knots'.take (k0 + order + 1)) u sa (order - 1) = spanPiece knots' u sa (order - 1) := by
    funext i
    by_cases hi : sa < i
    · rw [spanPiece_vanish _ _ _ _ _ (Or.inl hi), spanPiece_vanish _ _ _ _ _ (Or.inl hi)]
    · rw [Lemmas.Curve.spanPiece_eq_cdbF, Lemmas.Curve.spanPiece_eq_cdbF]
      apply Lemmas.Curve.cdbF_congr
      intro j _ hj2
      exact hKt j (by omega)
  rw [hf]
  exact Lemmas.Curve.curveSum_take _ (k0 + 1) Q 0 (fun i hi => spanPiece_vanish _ _ _ _ _ (Or.inl (by omega)))

/-- the second half (suffix of the refined knots, re-normalised), for ANY control polygon `Q` -/
private theorem split_second_core (knots knots' : List Rat) (Q : List V3) (order k0 : Nat) (t u : Rat) (ho : 1 ≤ order)
    (hsort' : nondecreasing knots' = true)
    (hshape : knots' = knots.take (k0 + 1) ++ List.replicate order t ++ knots.drop (k0 + 1))
    (hk0 : k0 + order < knots.length) (hk0p : order - 1 ≤ k0) (hkl' : knots'.length = order + Q.length)
    (hmax : t < knots.getLastD 0) (hlo : t ≤ u) (hhi : u < kget knots' Q.length) :
    evalPoint (normalizeKnots (knots'.drop (k0 + 1))) [] (Q.drop (k0 + 1)) order ((u - t) / (knots.getLastD 0 - t))
      = evalPoint knots' [] Q order u := by
  have hlt : (knots.take (k0 + 1)).length = k0 + 1 := by simp; omega
  have hlen' : knots'.length = knots.length + order := by
    rw [hshape]; simp only [List.length_append, hlt, List.length_replicate, List.length_drop]; omega
  have hK2 : ∀ j, k0 + 1 ≤ j → j ≤ k0 + order → kget knots' j = t := by
    intro j hj1 hj2
    rw [hshape, List.append_assoc, Lemmas.Curve.kget_eq, List.getElem?_append_right (by rw [hlt]; omega), hlt,
      List.getElem?_append_left (by simp; omega), List.getElem?_replicate, if_pos (by omega)]
    rfl
  have hK3 : ∀ j, k0 + order + 1 ≤ j → kget knots' j = kget knots (j - order) := by
    intro j hj
    rw [hshape, List.append_assoc, Lemmas.Curve.kget_eq, List.getElem?_append_right (by rw [hlt]; omega), hlt,
      List.getElem?_append_right (by simp; omega), List.length_replicate, List.getElem?_drop, ← Lemmas.Curve.kget_eq]
    congr 1; omega
  have hkd0 : kget (knots'.drop (k0 + 1)) 0 = t := by
    rw [Lemmas.Curve.kget_drop, hK2 _ (by omega) (by omega)]
  have hlast : (knots'.drop (k0 + 1)).getLastD 0 = knots.getLastD 0 := by
    rw [Lemmas.Curve.getLastD_eq_kget, Lemmas.Curve.getLastD_eq_kget, Lemmas.Curve.kget_drop]
    have e : k0 + 1 + ((knots'.drop (k0 + 1)).length - 1) = knots'.length - 1 := by
      simp only [List.length_drop]; omega
    rw [e, hK3 _ (by omega)]
    congr 1; omega
  have hbpos : 0 < knots.getLastD 0 - t := by linarith
  have hb0 : knots.getLastD 0 - t ≠ 0 := ne_of_gt hbpos
  have hlen2 : (normalizeKnots (knots'.drop (k0 + 1))).length = knots'.length - (k0 + 1) := by
    simp [normalizeKnots]
  have hKn : ∀ j, j < knots'.length - (k0 + 1) → kget (normalizeKnots (knots'.drop (k0 + 1))) j
      = (kget knots' (j + (k0 + 1)) - t) / (knots.getLastD 0 - t) := by
    intro j hj
    simp only [normalizeKnots, hkd0, hlast, Lemmas.Curve.kget_eq, List.getElem?_map, List.getElem?_drop]
    have : k0 + 1 + j < knots'.length := by omega
    rw [List.getElem?_eq_getElem this, Nat.add_comm j (k0 + 1), List.getElem?_eq_getElem this]
    simp
  have hdiv : ∀ x y : Rat, x ≤ y → (x - t) / (knots.getLastD 0 - t) ≤ (y - t) / (knots.getLastD 0 - t) :=
    fun x y hxy => div_le_div_of_nonneg_right (by linarith) (le_of_lt hbpos)
  have hdivlt : ∀ x y : Rat, x < y → (x - t) / (knots.getLastD 0 - t) < (y - t) / (knots.getLastD 0 - t) :=
    fun x y hxy => div_lt_div_of_pos_right (by linarith) hbpos
  have hs2 : nondecreasing (normalizeKnots (knots'.drop (k0 + 1))) = true := by
    apply Lemmas.Curve.nd_of_step
    intro i hi
    rw [hlen2] at hi
    rw [hKn i (by omega), hKn (i + 1) hi]
    exact hdiv _ _ (nd_mono knots' hsort' _ _ (by omega) (by omega))
  have hc2 : (Q.drop (k0 + 1)).length = Q.length - (k0 + 1) := by simp
  have hl2 : (normalizeKnots (knots'.drop (k0 + 1))).length = order + (Q.drop (k0 + 1)).length := by
    rw [hlen2, hc2]; omega
  obtain ⟨sa, hfa, ha1, ha2, ha3, ha4⟩ := findSpan_spec_interior (normalizeKnots (knots'.drop (k0 + 1))) order
    (Q.drop (k0 + 1)).length ((u - t) / (knots.getLastD 0 - t)) hs2 ho (by rw [hc2]; omega) hl2
    (by rw [hKn _ (by omega)]
        have e : order - 1 + (k0 + 1) = k0 + order := by omega
        rw [e, hK2 _ (by omega) (le_refl _)]
        exact hdiv _ _ hlo)
    (by rw [hc2, hKn _ (by omega)]
        have e : Q.length - (k0 + 1) + (k0 + 1) = Q.length := by omega
        rw [e]
        exact hdivlt _ _ hhi)
  have hKp' : kget knots' (order - 1) ≤ u := by
    have := nd_mono knots' hsort' (order - 1) (k0 + 1) (by omega) (by omega)
    rw [hK2 _ (le_refl _) (by omega)] at this
    linarith
  obtain ⟨sb, hfb, hb1', hb2', hb3', hb4'⟩ := findSpan_spec_interior knots' order Q.length u hsort' ho (by omega) hkl' hKp' hhi
  rw [hc2] at ha2
  have hne2 := lt_of_le_of_lt ha3 ha4
  rw [hKn _ (by omega)] at ha3
  rw [hKn _ (by omega)] at ha4
  have ha3' : kget knots' (sa + (k0 + 1)) ≤ u := by
    by_contra hc
    have := hdivlt _ _ (not_le.mp hc)
    linarith
  have ha4' : u < kget knots' (sa + (k0 + 1) + 1) := by
    by_contra hc
    have := hdiv _ _ (not_lt.mp hc)
    have e : sa + 1 + (k0 + 1) = sa + (k0 + 1) + 1 := by omega
    rw [e] at ha4
    linarith
  have hab : sa + (k0 + 1) = sb := span_unique knots' hsort' u _ sb ha3' ha4' hb3' hb4' (by omega) (by omega)
  rw [evalPoint_of_span _ _ order _ sa hfa hs2 ho ha1 (by rw [hc2]; omega) hl2 hne2,
    evalPoint_of_span knots' Q order u sb hfb hsort' ho hb1' hb2' hkl' (lt_of_le_of_lt hb3' hb4')]
  congr 1
  rw [Lemmas.Curve.curveSum_drop (spanPiece knots' u sb (order - 1)) (k0 + 1) Q 0
    (fun i _ hi => spanPiece_vanish _ _ _ _ _ (Or.inr (by omega))), Lemmas.Curve.curveSum_shift]
  congr 1
  funext i
  by_cases hi : sa < i
  · rw [spanPiece_vanish _ _ _ _ _ (Or.inl hi), spanPiece_vanish _ _ _ _ _ (Or.inl (by omega))]
  · rw [Lemmas.Curve.spanPiece_eq_cdbF, Lemmas.Curve.spanPiece_eq_cdbF, ← hab,
      ← Lemmas.Curve.cdbF_shift (kget knots') u sa (k0 + 1) (order - 1) i,
      ← Lemmas.Curve.cdbF_affine (fun j => kget knots' (j + (k0 + 1))) u t (knots.getLastD 0 - t) hb0]
    apply Lemmas.Curve.cdbF_congr
    intro j _ hj2
    exact hKn j (by omega)

/-- the knots of a successful rational insertion are those of the non rational insertion into the homogeneous points -/
private theorem insertKnotRational_knots (knots weights : List Rat) (cps : List V3) (order : Nat) (t : Rat)
    (c1 : List V3) (w1 k1 : List Rat) (h : insertKnotRational knots weights cps order t = .ok (c1, w1, k1)) :
    ∃ H', insertKnot knots (List.zipWith (fun (v : V3) (w : Rat) => v.scale w) cps weights) order t = .ok (H', k1) := by
  unfold insertKnotRational at h
  simp only at h
  split at h
  · rename_i H' K' W' K2 hH hW
    split at h
    · exact absurd h (by simp)
    · simp only [Except.ok.injEq, Prod.mk.injEq] at h
      obtain ⟨_, _, rfl⟩ := h
      exact ⟨H', hH⟩
  · exact absurd h (by simp)
  · exact absurd h (by simp)

/-- shape of the knots after the rational `knot_refinement([t] * m)` -/
private theorem refine_replicate_rational (order : Nat) (t : Rat) (ho : 1 ≤ order) :
    ∀ (m : Nat) (knots weights : List Rat) (cps cps' : List V3) (weights' knots' : List Rat) (k0 : Nat),
      nondecreasing knots = true → order ≤ cps.length → knots.length = order + cps.length → weights.length = cps.length →
      kget knots (order - 1) < kget knots cps.length → t < kget knots cps.length →
      kget knots k0 ≤ t → t < kget knots (k0 + 1) → k0 + 1 < knots.length →
      knotRefinementRational knots weights cps order (List.replicate m t) = .ok (cps', weights', knots') →
      knots' = knots.take (k0 + 1) ++ List.replicate m t ++ knots.drop (k0 + 1)
  | 0, knots, weights, cps, cps', weights', knots', k0, _, _, _, _, _, _, _, _, _, h => by
    simp only [List.replicate_zero, knotRefinementRational, Except.ok.injEq, Prod.mk.injEq] at h
    rw [← h.2.2]; simp
  | m + 1, knots, weights, cps, cps', weights', knots', k0, hsort, hoc, hl, hwl, hdom, ht, hb1, hb2, hk0, h => by
    simp only [List.replicate_succ, knotRefinementRational] at h
    split at h
    · rename_i c1 w1 k1 h1
      obtain ⟨a1, a2, a3, a4, _⟩ := insert_knot_rational_preserves knots weights cps order t (kget knots (order - 1)) c1 w1 k1
        hsort ho hoc hl hwl (le_of_lt ht) h1 (le_refl _) hdom
      obtain ⟨H', hH⟩ := insertKnotRational_knots knots weights cps order t c1 w1 k1 h1
      have hHl : (List.zipWith (fun (v : V3) (w : Rat) => v.scale w) cps weights).length = cps.length := by simp [hwl]
      obtain ⟨_, b2, _, b4, b5, _⟩ := insert_knot_preserves knots _ order t (kget knots (order - 1)) H' k1 hsort ho
        (by omega) (by omega) (by rw [hHl]; exact le_of_lt ht) hH (le_refl _) (by rw [hHl]; exact hdom)
      rw [hHl] at b2 b5
      obtain ⟨k, qs, hfs, hpk, _, _, hk1⟩ := insertKnot_ok knots _ order t H' k1 hH
      rw [hHl] at hfs
      obtain ⟨hkc, hkt, htk⟩ := findSpan_result_lt knots order cps.length t k hsort ho hoc hl ht hfs hpk
      have hkk : k = k0 := span_unique knots hsort t k k0 hkt htk hb1 hb2 (by omega) hk0
      subst hkk
      have hKg := Lemmas.Curve.kget_insert knots k t (by omega)
      rw [← hk1] at hKg
      have hc1l : c1.length = H'.length := by rw [a1, b2]
      have ih := refine_replicate_rational order t ho m k1 w1 c1 cps' weights' knots' (k + 1) a4 (by omega) a3 a2
        (by rw [b4, hc1l, b5]; exact hdom) (by rw [hc1l, b5]; exact ht) (by rw [hKg, Lemmas.Curve.insK_eq]) (by
          rw [hKg, Lemmas.Curve.insK_gt _ _ _ (by omega : k + 2 ≤ k + 1 + 1)]; exact htk)
        (by rw [a3, a1]; omega) h
      rw [ih, hk1]
      have hlt : (knots.take (k + 1)).length = k + 1 := by simp; omega
      rw [take_insert _ _ t (k + 1) hlt, drop_insert _ _ t (k + 1) hlt]
      simp [List.replicate_succ, List.append_assoc]
    · exact absurd h (by simp)

private theorem mkBSplineW_ok (cps : List V3) (order : Nat) (knots weights : List Rat) (r : List V3 × List Rat × List Rat)
    (h : mkBSplineW cps order knots weights = .ok r) :
    order ≤ cps.length ∧ knots.length = cps.length + order ∧ r.1 = cps ∧ r.2.1 = weights ∧
    r.2.2 = (if kget knots 0 ≠ 0 then normalizeKnots knots else knots) := by
  unfold mkBSplineW at h
  split at h
  · exact absurd h (by simp)
  · split at h
    · exact absurd h (by simp)
    · split at h
      · exact absurd h (by simp)
      · simp only [Except.ok.injEq] at h
        exact ⟨by omega, by omega, by rw [← h], by rw [← h], by rw [← h]⟩

/-- **rational split**: `split_bspline` of a NURBS curve (clamp by `order` rational insertions, cut knots, control points
    and weights): the first half evaluates to the original curve on `[U[p], t)` and the second half, re-normalised, at
    `(u − t)/(max_t − t)` on `[t, U[count])`; knots start at 0, `t` below the end of the domain -/
theorem split_bspline_rational_preserves (knots weights : List Rat) (cps : List V3) (order : Nat) (t u : Rat)
    (s1 s2 : List V3 × List Rat × List Rat)
    (hsort : nondecreasing knots = true) (ho : 1 ≤ order) (hoc : order ≤ cps.length)
    (hl : knots.length = order + cps.length) (hwl : weights.length = cps.length) (h0 : kget knots 0 = 0)
    (ht : t < kget knots cps.length)
    (h : splitBSplineRational knots weights cps order t = .ok (s1, s2)) :
    (kget knots (order - 1) ≤ u → u < t → evalPoint s1.2.2 s1.2.1 s1.1 order u = evalPoint knots weights cps order u) ∧
    (t ≤ u → u < kget knots cps.length →
      evalPoint s2.2.2 s2.2.1 s2.1 order ((u - t) / (knots.getLastD 0 - t)) = evalPoint knots weights cps order u) := by
  unfold splitBSplineRational at h
  simp only at h
  split at h
  · exact absurd h (by simp)
  rename_i htol1
  split at h
  · exact absurd h (by simp)
  rename_i htol2
  split at h
  · exact absurd h (by simp)
  · exact absurd h (by simp)
  rename_i cps' weights' knots' href
  split at h
  · exact absurd h (by simp)
  rename_i r1 hm1
  split at h
  · exact absurd h (by simp)
  rename_i r2 hm2
  simp only [Except.ok.injEq, Prod.mk.injEq] at h
  obtain ⟨rfl, rfl⟩ := h
  have htpos : 0 < t := by
    have : (0 : Rat) < 1 / 1000000000000 := by norm_num
    linarith [not_lt.mp htol1]
  have hHl : (List.zipWith (fun (v : V3) (w : Rat) => v.scale w) cps weights).length = cps.length := by simp [hwl]
  obtain ⟨k0, hk0p, hk0c, hb1, hb2⟩ : ∃ k0, order - 1 ≤ k0 ∧ k0 < cps.length ∧ kget knots k0 ≤ t ∧ t < kget knots (k0 + 1) := by
    have hr := href
    have e : List.replicate order t = t :: List.replicate (order - 1) t := by
      have : order = (order - 1) + 1 := by omega
      rw [this, List.replicate_succ]; simp
    rw [e] at hr
    simp only [knotRefinementRational] at hr
    split at hr
    · rename_i c1 w1 k1 h1
      obtain ⟨H', hH⟩ := insertKnotRational_knots knots weights cps order t c1 w1 k1 h1
      obtain ⟨k, qs, hfs, hpk, _, _, _⟩ := insertKnot_ok knots _ order t H' k1 hH
      rw [hHl] at hfs
      obtain ⟨hkc, hkt, htk⟩ := findSpan_result_lt knots order cps.length t k hsort ho hoc hl ht hfs hpk
      exact ⟨k, hpk, hkc, hkt, htk⟩
    · exact absurd hr (by simp)
  have hKp : kget knots (order - 1) ≤ t := le_trans (nd_mono knots hsort _ _ hk0p (by omega)) hb1
  have hdom : kget knots (order - 1) < kget knots cps.length := lt_of_le_of_lt hKp ht
  have hshape := refine_replicate_rational order t ho order knots weights cps cps' weights' knots' k0 hsort hoc hl hwl hdom ht
    hb1 hb2 (by omega) href
  have hts : ∀ t' ∈ List.replicate order t, t' ≤ kget knots cps.length :=
    fun t' ht' => by rw [List.eq_of_mem_replicate ht']; exact le_of_lt ht
  have hpres := fun (v : Rat) (hv1 : kget knots (order - 1) ≤ v) (hv2 : v < kget knots cps.length) =>
    knot_refinement_rational_preserves order v ho (List.replicate order t) knots weights cps cps' weights' knots' hsort hoc hl
      hwl hts href hv1 hv2
  obtain ⟨hcl', hwl', hkl', hsort', _⟩ := hpres _ (le_refl _) hdom
  simp only [List.length_replicate] at hcl'
  have hlt : (knots.take (k0 + 1)).length = k0 + 1 := by simp; omega
  have hK1 : ∀ j, j ≤ k0 → kget knots' j = kget knots j := by
    intro j hj
    rw [hshape, List.append_assoc, Lemmas.Curve.kget_eq, List.getElem?_append_left (by rw [hlt]; omega),
      ← Lemmas.Curve.kget_eq, Lemmas.Curve.kget_take _ _ _ (by omega)]
  have hK2 : ∀ j, k0 + 1 ≤ j → j ≤ k0 + order → kget knots' j = t := by
    intro j hj1 hj2
    rw [hshape, List.append_assoc, Lemmas.Curve.kget_eq, List.getElem?_append_right (by rw [hlt]; omega), hlt,
      List.getElem?_append_left (by simp; omega), List.getElem?_replicate, if_pos (by omega)]
    rfl
  have hK3 : ∀ j, k0 + order + 1 ≤ j → kget knots' j = kget knots (j - order) := by
    intro j hj
    rw [hshape, List.append_assoc, Lemmas.Curve.kget_eq, List.getElem?_append_right (by rw [hlt]; omega), hlt,
      List.getElem?_append_right (by simp; omega), List.length_replicate, List.getElem?_drop, ← Lemmas.Curve.kget_eq]
    congr 1; omega
  have hspan : bisectRight knots' t 0 knots'.length = k0 + order + 1 := by
    obtain ⟨b1, b2, b3, b4⟩ := bisectRight_spec knots' t 0 knots'.length hsort' (by omega) (le_refl _)
    generalize bisectRight knots' t 0 knots'.length = r at *
    by_contra hne
    rcases Nat.lt_or_gt_of_ne hne with hlt' | hgt'
    · have := b4 (k0 + order) (by omega) (by omega)
      rw [hK2 (k0 + order) (by omega) (le_refl _)] at this
      exact lt_irrefl _ this
    · have := b3 (k0 + order + 1) (by omega) hgt'
      rw [hK3 _ (le_refl _)] at this
      have e : k0 + order + 1 - order = k0 + 1 := by omega
      rw [e] at this
      linarith
  rw [hspan] at hm1 hm2
  have e_idx : k0 + order + 1 - order = k0 + 1 := by omega
  rw [e_idx] at hm1 hm2
  obtain ⟨m11, m12, m13, m14, m15⟩ := mkBSplineW_ok _ _ _ _ _ hm1
  obtain ⟨m21, m22, m23, m24, m25⟩ := mkBSplineW_ok _ _ _ _ _ hm2
  have hKend : kget knots' cps'.length = kget knots cps.length := by
    rw [hK3 _ (by omega), hcl']; congr 1; omega
  have hKstart : kget knots' (order - 1) = kget knots (order - 1) := hK1 _ hk0p
  have hw' : weights' ≠ [] := by
    intro h0'; rw [h0'] at hwl'; simp at hwl'; omega
  constructor
  · intro hlo hhi
    obtain ⟨_, _, _, _, hev⟩ := hpres u hlo (lt_trans hhi ht)
    rw [← hev, m13, m14, m15]
    have hk10 : kget (knots'.take (k0 + order + 1)) 0 = 0 := by
      rw [Lemmas.Curve.kget_take _ _ _ (by omega), hK1 0 (by omega), h0]
    rw [if_neg (by rw [hk10]; simp)]
    rw [evalPoint_hom _ (weights'.take (k0 + 1)) (cps'.take (k0 + 1)) order u ho (by
        intro h0'
        have := congrArg List.length h0'
        simp only [List.length_take, List.length_nil] at this
        omega) (by simp only [List.length_take]; omega),
      evalPoint_hom knots' weights' cps' order u ho hw' hwl']
    rw [← List.take_zipWith, List.map_take]
    rw [split_first_core knots knots' _ order k0 t u ho hsort' hshape (by omega) hk0p (by simp [hwl']; omega) hb2
        (by rw [hKstart]; exact hlo) hhi,
      split_first_core knots knots' _ order k0 t u ho hsort' hshape (by omega) hk0p (by simp [hwl']; omega) hb2
        (by rw [hKstart]; exact hlo) hhi]
  · intro hlo hhi
    obtain ⟨_, _, _, _, hev⟩ := hpres u (le_trans hKp hlo) hhi
    rw [← hev, m23, m24, m25]
    have hraw : List.replicate order t ++ knots'.drop (k0 + order + 1) = knots'.drop (k0 + 1) := by
      rw [hshape, List.append_assoc]
      have e1 : (knots.take (k0 + 1) ++ (List.replicate order t ++ knots.drop (k0 + 1))).drop (k0 + 1)
          = List.replicate order t ++ knots.drop (k0 + 1) := by
        have := List.drop_length_add_append (l₁ := knots.take (k0 + 1)) (l₂ := List.replicate order t ++ knots.drop (k0 + 1)) (i := 0)
        rw [hlt] at this
        simpa using this
      have e2 : (knots.take (k0 + 1) ++ (List.replicate order t ++ knots.drop (k0 + 1))).drop (k0 + order + 1)
          = knots.drop (k0 + 1) := by
        have := List.drop_length_add_append (l₁ := knots.take (k0 + 1) ++ List.replicate order t) (l₂ := knots.drop (k0 + 1)) (i := 0)
        simp only [List.length_append, hlt, List.length_replicate, Nat.add_zero, List.drop_zero, List.append_assoc] at this
        rw [show k0 + order + 1 = k0 + 1 + order by omega]
        exact this
      rw [e1, e2]
    rw [hraw]
    have hkd0 : kget (knots'.drop (k0 + 1)) 0 = t := by
      rw [Lemmas.Curve.kget_drop, hK2 _ (by omega) (by omega)]
    rw [if_pos (by rw [hkd0]; exact ne_of_gt htpos)]
    have hmaxk : kget knots cps.length ≤ knots.getLastD 0 := by
      rw [Lemmas.Curve.getLastD_eq_kget]
      exact nd_mono knots hsort _ _ (by omega) (by omega)
    rw [evalPoint_hom _ (weights'.drop (k0 + 1)) (cps'.drop (k0 + 1)) order _ ho (by
        intro h0'
        have := congrArg List.length h0'
        simp only [List.length_drop, List.length_nil] at this
        omega) (by simp only [List.length_drop]; omega),
      evalPoint_hom knots' weights' cps' order u ho hw' hwl']
    rw [← List.drop_zipWith, List.map_drop]
    rw [split_second_core knots knots' _ order k0 t u ho hsort' hshape (by omega) hk0p (by simp [hwl']; omega)
        (by linarith) hlo (by simp only [List.length_zipWith, hwl', Nat.min_self]; rw [hKend]; exact hhi),
      split_second_core knots knots' _ order k0 t u ho hsort' hshape (by omega) hk0p (by simp [hwl']; omega)
        (by linarith) hlo (by simp only [List.length_map, hwl']; rw [hKend]; exact hhi)]

/-! ## 6i. `Basis.basis_vector`: the collocation row of the interpolation solvers -/

private theorem combine_zero_prefix : ∀ (n : Nat) (N : List Rat) (pts : List V3),
    combine (List.replicate n 0 ++ N) pts = combine N (pts.drop n)
  | 0, _, _ => by simp
  | n + 1, N, [] => by
    simp only [List.replicate_succ, List.cons_append, List.drop_nil]
    cases N <;> simp [combine]
  | n + 1, N, q :: qs => by
    simp only [List.replicate_succ, List.cons_append, combine, List.drop_succ_cons, combine_zero_prefix n N qs]
    apply v3ext <;> simp [V3.add, V3.scale]

private theorem combine_zero_suffix (m : Nat) : ∀ (N : List Rat) (pts : List V3),
    combine (N ++ List.replicate m 0) pts = combine N pts
  | [], pts => by
    simp only [List.nil_append]
    have := combine_zeros (List.replicate m (1 : Rat)) pts
    simp only [List.map_replicate] at this
    rw [this]; cases pts <;> rfl
  | _ :: _, [] => by simp [combine]
  | n :: ns, q :: qs => by
    simp only [List.cons_append, combine, combine_zero_suffix m ns qs]

/-- **collocation**: `Evaluator.point(u)` is the dot product of `Basis.basis_vector(u)` with ALL control points (rational or
    not, every `u` for which `find_span` answers a span >= degree, in particular the closed domain).  The interpolation
    solvers (`global_bspline_interpolation`…) set up exactly the rows `basis_vector(t_k)` and solve
    `Σ_i row_k[i]·P_i = Q_k`: any exact solution makes the curve pass through the fit points at the parameters `t_k` -/
theorem basis_vector_collocation (knots weights : List Rat) (cps : List V3) (order : Nat) (u : Rat) (ho : 1 ≤ order)
    (span : Nat) (hfs : findSpan knots order cps.length u = (span : Int)) :
    evalPoint knots weights cps order u = (basisVector knots weights order cps.length u).map (fun B => combine B cps) := by
  simp only [evalPoint, basisVector, hfs]
  show (basisFuncsW knots weights order span u).map _ = ((basisFuncsW knots weights order span u).map _).map _
  cases basisFuncsW knots weights order span u with
  | none => rfl
  | some N =>
    simp only [Option.map_some, Option.some.injEq]
    rw [combine_zero_suffix, combine_zero_prefix]
    congr 2; omega

private theorem interp_core (fit : List V3) (p : Nat)
    (tvec : List Rat) (P : List V3) (K : List Rat) (rows : List (List Rat))
    (hrows : tvec.mapM (fun t => basisVector K [] (p + 1) fit.length t) = some rows)
    (hlen : P.length = fit.length)
    (hsol : ∀ k row, rows[k]? = some row → combine row P = fit.getD k V3.zero) :
    ∀ k t, tvec[k]? = some t → evalPoint K [] P (p + 1) t = some (fit.getD k V3.zero) := by
  intro k t hk
  obtain ⟨hl, hr⟩ := Lemmas.Curve.mapM_some _ _ _ hrows
  have hkl : k < tvec.length := by
    by_contra hc
    rw [List.getElem?_eq_none (not_lt.mp hc)] at hk
    exact absurd hk (by simp)
  have hrow := hr k hkl
  rw [hk, Option.bind_some] at hrow
  have hkr : k < rows.length := by omega
  rw [List.getElem?_eq_getElem hkr] at hrow
  have hspan : ∃ span : Nat, findSpan K (p + 1) P.length t = (span : Int) := by
    rw [hlen]
    unfold basisVector at hrow
    split at hrow
    · rename_i span hfs; exact ⟨span, hfs⟩
    · exact absurd hrow (by simp)
  obtain ⟨span, hfs⟩ := hspan
  rw [basis_vector_collocation K [] P (p + 1) t (by omega) span hfs, hlen, hrow]
  simp only [Option.map_some, Option.some.injEq]
  exact hsol k _ (List.getElem?_eq_getElem hkr)

/-- **global interpolation passes through the fit points**, relative to the linear solver: whatever
    `unconstrained_global_bspline_interpolation` gets back from the solver — if it has one control point per fit point and
    solves the collocation system it was given (`row_k · P = Q_k` for every row, i.e. `A x = b`) — the resulting spline
    satisfies `Evaluator.point(t_k) = Q_k` for every parameter `t_k` of the parametrisation vector; any degree, any
    parametrisation (uniform, chord, centripetal: the `t_k` are inputs), averaged knots -/
theorem interpolation_passes_through_fit_points (solve : List (List Rat) → List V3 → List V3) (fit : List V3) (p : Nat)
    (tvec : List Rat) (P : List V3) (K : List Rat)
    (h : globalInterpolation solve fit p tvec = some (P, K))
    (hlen : P.length = fit.length)
    (hsol : ∀ rows, P = solve rows fit → ∀ k row, rows[k]? = some row → combine row P = fit.getD k V3.zero) :
    K = averagedKnotsUnconstrained (fit.length - 1) p tvec ∧
    ∀ k t, tvec[k]? = some t → evalPoint K [] P (p + 1) t = some (fit.getD k V3.zero) := by
  unfold globalInterpolation at h
  simp only at h
  split at h
  · exact absurd h (by simp)
  · rename_i rows hrows
    simp only [Option.some.injEq, Prod.mk.injEq] at h
    obtain ⟨hP, hK⟩ := h
    refine ⟨hK.symm, ?_⟩
    rw [hK] at hrows
    exact interp_core fit p tvec P K rows hrows hlen (hsol rows hP.symm)

/-! ## 6j. local cubic interpolation: the value of a cubic spline at a double knot -/

/-- a cubic B-spline at a DOUBLE knot `τ = U[s-1] = U[s] < U[s+1]`: `point(τ)` is the weighted mean of the two control points
    `P[s-3]`, `P[s-2]` with weights `(U[s+1] − τ)`, `(τ − U[s-2])` -/
theorem cubic_double_knot_value (knots : List Rat) (cps : List V3) (s : Nat)
    (hsort : nondecreasing knots = true) (hoc : 4 ≤ cps.length) (hl : knots.length = 4 + cps.length)
    (hs3 : 3 ≤ s) (hsc : s < cps.length) (hd : kget knots (s - 1) = kget knots s) (hlt : kget knots s < kget knots (s + 1)) :
    evalPoint knots [] cps 4 (kget knots s)
      = some (((cps.getD (s - 3) V3.zero).scale ((kget knots (s + 1) - kget knots s) / (kget knots (s + 1) - kget knots (s - 2)))).add
          ((cps.getD (s - 2) V3.zero).scale ((kget knots s - kget knots (s - 2)) / (kget knots (s + 1) - kget knots (s - 2))))) := by
  have hKp : kget knots 3 ≤ kget knots s := nd_mono knots hsort _ _ hs3 (by omega)
  have hKc : kget knots s < kget knots cps.length :=
    lt_of_lt_of_le hlt (nd_mono knots hsort _ _ (by omega) (by omega))
  obtain ⟨s0, hfs, g1, g2, g3, g4⟩ := findSpan_spec_interior knots 4 cps.length (kget knots s) hsort (by omega) hoc hl hKp hKc
  have hss : s0 = s := span_unique knots hsort _ s0 s g3 g4 (le_refl _) hlt (by omega) (by omega)
  subst hss
  rw [evalPoint_of_span knots cps 4 _ s0 hfs hsort (by omega) g1 g2 hl hlt]
  congr 1
  -- the pieces at the knot
  have hr := Lemmas.Curve.cdbF_right_at_knot (kget knots) (kget knots s0) (s0 - 2) 2
    (fun j h1 h2 => by
      have : j = 1 ∨ j = 2 := by omega
      rcases this with rfl | rfl
      · rw [show s0 - 2 + 1 = s0 - 1 by omega]; exact hd
      · rw [show s0 - 2 + 2 = s0 by omega])
    (by rw [show s0 - 2 + 2 + 1 = s0 + 1 by omega]; exact ne_of_gt hlt) 2 (le_refl _)
  rw [show s0 - 2 + 2 = s0 by omega] at hr
  have hpiece : ∀ i, spanPiece knots (kget knots s0) s0 3 i =
      if i = s0 - 3 then (kget knots (s0 + 1) - kget knots s0) / (kget knots (s0 + 1) - kget knots (s0 - 2))
      else if i = s0 - 2 then (kget knots s0 - kget knots (s0 - 2)) / (kget knots (s0 + 1) - kget knots (s0 - 2)) else 0 := by
    intro i
    rw [Lemmas.Curve.spanPiece_eq_cdbF]
    show Lemmas.Curve.cdbF (kget knots) (kget knots s0) (Lemmas.Curve.delta s0) (2 + 1) i = _
    rw [Lemmas.Curve.cdbF, hr i, hr (i + 1)]
    simp only [Lemmas.Curve.delta]
    by_cases c1 : i = s0 - 3
    · subst c1
      rw [if_pos rfl, if_neg (by omega : ¬ s0 - 3 = s0 - 2), if_pos (by omega : s0 - 3 + 1 = s0 - 2)]
      rw [show s0 - 3 + 2 + 2 = s0 + 1 by omega, show s0 - 3 + 1 = s0 - 2 by omega]; ring
    · rw [if_neg c1]
      by_cases c2 : i = s0 - 2
      · subst c2
        rw [if_pos rfl, if_pos rfl, if_neg (by omega : ¬ s0 - 2 + 1 = s0 - 2)]
        rw [show s0 - 2 + 2 + 1 = s0 + 1 by omega]; ring
      · rw [if_neg c2, if_neg c2, if_neg (by omega : ¬ i + 1 = s0 - 2)]; ring
  have key : ∀ (π : V3 → Rat), π V3.zero = 0 → (∀ a b, π (a.add b) = π a + π b) → (∀ a s, π (a.scale s) = π a * s) →
      π (curveSum (spanPiece knots (kget knots s0) s0 3) 0 cps) = π (((cps.getD (s0 - 3) V3.zero).scale
        ((kget knots (s0 + 1) - kget knots s0) / (kget knots (s0 + 1) - kget knots (s0 - 2)))).add
        ((cps.getD (s0 - 2) V3.zero).scale ((kget knots s0 - kget knots (s0 - 2)) / (kget knots (s0 + 1) - kget knots (s0 - 2))))) := by
    intro π hz ha hs
    rw [Lemmas.Curve.curveSum_proj π hz ha hs, ha, hs, hs]
    rw [Lemmas.Curve.wsum_two cps.length _ (s0 - 3) (s0 - 2) (by omega) (by omega) (by omega)
      (fun j _ c1 c2 => by rw [Nat.zero_add, hpiece j, if_neg c1, if_neg c2]; ring)]
    rw [Nat.zero_add, Nat.zero_add, hpiece, hpiece, if_pos rfl, if_neg (by omega), if_pos rfl]
  apply v3ext
  · exact key V3.x rfl (fun _ _ => rfl) (fun _ _ => rfl)
  · exact key V3.y rfl (fun _ _ => rfl) (fun _ _ => rfl)
  · exact key V3.z rfl (fun _ _ => rfl) (fun _ _ => rfl)

/-- **the law behind `local_cubic_bspline_interpolation_from_tangents`** (The NURBS Book 9.3.4; seeded change C13-m4): the
    function puts `p2 = f − α₀·t/3` and `p1 = f + α₁·t/3` around every inner fit point `f` (tangent `t`) and spaces the
    double knots by `d = 3·|p1 − p0| = |α|·|t|`.  At the double knot the spline takes the value
    `f + t·(d₀·α₁ − d₁·α₀)/(3(d₀ + d₁))`; it passes through `f` when `d₀·α₁ = d₁·α₀`, which for `d = |α|` (unit
    tangents) means: the two `α` have the SAME SIGN — the positive root of `a·α² + b·α + c = 0` (`a > 0`, `c < 0`) has to
    be taken on every segment -/
theorem local_cubic_junction (knots : List Rat) (cps : List V3) (s : Nat) (f t : V3) (a0 a1 : Rat)
    (hsort : nondecreasing knots = true) (hoc : 4 ≤ cps.length) (hl : knots.length = 4 + cps.length)
    (hs3 : 3 ≤ s) (hsc : s < cps.length) (hd : kget knots (s - 1) = kget knots s) (hlt : kget knots s < kget knots (s + 1))
    (hp2 : cps.getD (s - 3) V3.zero = f.sub (t.scale (a0 / 3))) (hp1 : cps.getD (s - 2) V3.zero = f.add (t.scale (a1 / 3))) :
    let d0 := kget knots s - kget knots (s - 2)
    let d1 := kget knots (s + 1) - kget knots s
    evalPoint knots [] cps 4 (kget knots s) = some (f.add (t.scale ((d0 * a1 - d1 * a0) / (3 * (d0 + d1))))) ∧
    (d0 * a1 = d1 * a0 → evalPoint knots [] cps 4 (kget knots s) = some f) := by
  intro d0 d1
  have hden : kget knots (s + 1) - kget knots (s - 2) ≠ 0 := by
    have := nd_mono knots hsort (s - 2) s (by omega) (by omega)
    intro h0; linarith
  have hval : evalPoint knots [] cps 4 (kget knots s) = some (f.add (t.scale ((d0 * a1 - d1 * a0) / (3 * (d0 + d1))))) := by
    rw [cubic_double_knot_value knots cps s hsort hoc hl hs3 hsc hd hlt, hp2, hp1]
    congr 1
    have hsum : d0 + d1 = kget knots (s + 1) - kget knots (s - 2) := by simp only [d0, d1]; ring
    have hden' : d0 + d1 ≠ 0 := by rw [hsum]; exact hden
    apply v3ext <;> simp only [V3.add, V3.sub, V3.scale] <;> rw [← hsum] <;> field_simp <;> simp only [d0, d1] <;> ring
  refine ⟨hval, ?_⟩
  intro heq
  rw [hval, heq, sub_self, zero_div]
  congr 1
  apply v3ext <;> simp [V3.add, V3.scale]

/-! ## 6h. rational first derivative (A4.2): the quotient rule -/

/-- **NURBS first derivative** (`Evaluator.derivative(u, 1)` with weights, A3.2 + A4.2 as coded): with
    `A(u) = Σ N_i w_i P_i`, `w(u) = Σ N_i w_i` and their derivatives `A'`, `w'` (sums over the `order` control points of
    the span with `N'` = `cdbFD`, the derivative of the basis pieces), the call returns `[C, C']` with `C = A/w` and
    `C' = (A' − w'·C)/w` — the quotient rule; every degree ≥ 1, every nondecreasing knot vector, `u` in the half open
    domain, `w(u) ≠ 0` (always true for positive weights) -/
theorem rational_derivative_first (knots weights : List Rat) (cps : List V3) (order : Nat) (u : Rat)
    (hsort : nondecreasing knots = true) (ho : 2 ≤ order) (hoc : order ≤ cps.length)
    (hl : knots.length = order + cps.length) (hw : weights ≠ [])
    (hlo : kget knots (order - 1) ≤ u) (hhi : u < kget knots cps.length) :
    ∃ s : Nat, order - 1 ≤ s ∧ s < cps.length ∧ kget knots s ≤ u ∧ u < kget knots (s + 1) ∧
      let ws := (weights.drop (s + 1 - order)).take order
      let pts := cps.drop (s + 1 - order)
      let N := (List.range order).map (fun r => spanPiece knots u s (order - 1) (s - (order - 1) + r))
      let N' := (List.range order).map (fun r =>
        Lemmas.Curve.cdbFD (kget knots) u (Lemmas.Curve.delta s) (order - 1) (s - (order - 1) + r))
      let A := combine (List.zipWith (· * ·) N ws) pts
      let A' := combine (List.zipWith (· * ·) N' ws) pts
      let w := (List.zipWith (· * ·) N ws).sum
      let w' := (List.zipWith (· * ·) N' ws).sum
      w ≠ 0 →
      evalDerivative knots weights cps order u 1
        = some [A.scale (1 / w), (A'.sub ((A.scale (1 / w)).scale (1 * w'))).scale (1 / w)] := by
  obtain ⟨s, hfs, hs1, hs2, hs3, hs4⟩ := findSpan_spec_interior knots order cps.length u hsort (by omega) hoc hl hlo hhi
  refine ⟨s, hs1, hs2, hs3, hs4, ?_⟩
  intro ws pts N N' A A' w w' hw0
  have hD := basis_derivative_first knots order s u hsort ho hs1 (by omega) (lt_of_le_of_lt hs3 hs4)
  have hne : weights.isEmpty = false := by cases weights <;> simp_all
  simp only [evalDerivative, hfs]
  show (basisFuncsDerivatives knots order s u 1).bind _ = _
  rw [hD]
  simp only [Option.bind_some, hne, Bool.false_eq_true, if_false]
  have hr : List.range (1 + 1) = [0, 1] := rfl
  simp only [hr, List.map_cons, List.map_nil, List.getD_cons_zero, List.getD_cons_succ]
  rw [if_neg hw0]
  simp [List.foldl, List.range', choose]
  exact ⟨rfl, rfl⟩

/- NOT proved (oracle only): degree_elevation (A5.9), bezier_decomposition (A5.6), derivatives of order >= 2,
   insert_knot for U[count] < t < max_t (unclamped knots: the code leaves a knot vector that is not nondecreasing, see the
   #guard at the end), rational split AT the cut / the end point, d2 of the generic Bezier class at t = 0, 1. -/

/-! ## 7. bulge -/

/-- both chord ends lie on the circle around `bulge_center` with radius `bulge_radius`, for every bulge ≠ 0 (any sign, |b| > 1 included) -/
theorem bulge_endpoints_on_circle (sx sy ex ey b : Rat) (hb : b ≠ 0) :
    dist2 (bulgeCenter sx sy ex ey b) (sx, sy) = bulgeRadiusSq sx sy ex ey b ∧
    dist2 (bulgeCenter sx sy ex ey b) (ex, ey) = bulgeRadiusSq sx sy ex ey b := by
  constructor <;> simp only [dist2, bulgeCenter, bulgeRadiusSq] <;> field_simp <;> ring

/-- … and so does the point at sagitta `b·chord/2` to the right of the chord direction: bulge = tan(θ/4), positive = counter clockwise -/
theorem bulge_apex_on_circle (sx sy ex ey b : Rat) (hb : b ≠ 0) :
    dist2 (bulgeCenter sx sy ex ey b) (bulgeApex sx sy ex ey b) = bulgeRadiusSq sx sy ex ey b := by
  simp only [dist2, bulgeCenter, bulgeApex, bulgeRadiusSq]; field_simp; ring

/-- cross product chord × (centre − start) = (1−b²)/(4b)·|chord|²: the centre is left of the chord
    direction iff (1−b²)/b > 0 -/
theorem bulge_center_side (sx sy ex ey b : Rat) (hb : b ≠ 0) :
    (ex - sx) * ((bulgeCenter sx sy ex ey b).2 - sy) - (ey - sy) * ((bulgeCenter sx sy ex ey b).1 - sx)
      = (1 - b * b) / (4 * b) * ((ex - sx) * (ex - sx) + (ey - sy) * (ey - sy)) := by
  simp only [bulgeCenter]; field_simp; ring

/-! ## 8. tabulated constants -/

/-- the `FACTORIAL` table of acc/bspline.pyx (used by its `binomial_coefficient`, A4.2) holds 0!..18! -/
theorem factorial_table_correct :
    factorialPyx = (List.range 19).map factorial := by decide +kernel

/-- `linalg.binomial_coefficient(k, i)` (tabulated from the live function for k, i ≤ 12) is Pascal's triangle, and the
    Cython `FACTORIAL[k] / (FACTORIAL[k-i]·FACTORIAL[i])` is the same number for every order the C-extension admits -/
theorem binomial_tables_correct :
    binomialPy = (List.range 13).map (fun k => (List.range 13).map (fun i => choose k i)) ∧
    (List.range maxSplineOrder).all (fun k => (List.range (k + 1)).all (fun i =>
      factorialPyx.getD k 0 = factorialPyx.getD (k - i) 0 * factorialPyx.getD i 0 * choose k i)) = true := by
  decide +kernel


/-! ## non-vacuity: the hypotheses are met by ordinary inputs, the functions really compute -/

example : nondecreasing [0, 0, 0, 1, 2, 2, 2] = true ∧ nondecreasing [0, 1, 2, 3, 3, 4, 5] = true ∧
    nondecreasing [0, 2, 1] = false := by decide
#guard findSpan [0, 0, 0, 1, 2, 2, 2] 3 4 (3 / 2) == 3          -- binary search branch
#guard findSpan [1, 2, 3, 4, 5, 6, 7] 3 4 (7 / 2) == 2          -- linear search branch
#guard findSpan [1, 2, 3, 4, 5, 6, 7] 3 4 (1 / 2) == -1         -- quirk: below knots[0]
#guard findSpan [0, 0, 0, 0, 1, 1, 1, 1, 1] 4 5 1 == 3          -- over-clamped first half of split(1.0): span 4 is empty
#guard evalPoint [0, 1, 2, 2, 2, 3] [] [⟨0, 0, 0⟩, ⟨1, 2, 0⟩, ⟨3, 2, 0⟩] 3 2 == none
        -- the hypothesis `U[p] < U[count]` is necessary: this domain is the single point [2, 2], no span is non-empty
#guard basisFuncs [0, 0, 0, 1, 2, 2, 2] 3 3 (3 / 2) == some [1 / 8, 5 / 8, 1 / 4]
#guard evalPoint [0, 1, 2, 3, 4, 5, 6] [] [⟨0, 0, 0⟩, ⟨1, 2, 0⟩, ⟨3, 2, 0⟩, ⟨4, 0, 0⟩] 3 (5 / 2)
        == some ⟨9 / 8, 7 / 4, 0⟩
#guard curveRef [0, 1, 2, 3, 4, 5, 6] [⟨0, 0, 0⟩, ⟨1, 2, 0⟩, ⟨3, 2, 0⟩, ⟨4, 0, 0⟩] 2 (5 / 2) == ⟨9 / 8, 7 / 4, 0⟩
#guard evalPoint [0, 0, 0, 1, 1, 1] [1, 1, 2] [⟨1, 0, 0⟩, ⟨1, 1, 0⟩, ⟨0, 1, 0⟩] 3 (1 / 2)
        == some ⟨3 / 5, 4 / 5, 0⟩                               -- rational quarter circle, on the unit circle
#guard (Bez4.mk ⟨0, 0, 0⟩ ⟨1, 2, 0⟩ ⟨3, 2, 0⟩ ⟨4, 0, 0⟩).point (1 / 2) == ⟨2, 3 / 2, 0⟩
#guard bulgeCenter 0 0 2 0 1 == (1, 0) && bulgeRadiusSq 0 0 2 0 1 == 1 && bulgeApex 0 0 2 0 1 == (1, -1)
#guard (insertKnot [0, 0, 0, 1, 2, 2, 2] [⟨0, 0, 0⟩, ⟨1, 2, 0⟩, ⟨3, 2, 0⟩, ⟨4, 0, 0⟩] 3 (1 / 2)).toOption.isSome


/-! ### growth round 2: degree elevation of a Bezier segment, decomposition model, interpolation, double knots -/
-- degree_elevation by 2 of a cubic segment: 6 control points, same curve
#guard (elevateBezier [⟨0, 0, 0⟩, ⟨1, 2, 0⟩, ⟨3, 2, 0⟩, ⟨4, 0, 0⟩] 2 0 1).1
  == [⟨0, 0, 0⟩, ⟨3 / 5, 6 / 5, 0⟩, ⟨3 / 2, 9 / 5, 0⟩, ⟨5 / 2, 9 / 5, 0⟩, ⟨17 / 5, 6 / 5, 0⟩, ⟨4, 0, 0⟩]
#guard bernsteinCurve (elevateBezier [⟨0, 0, 0⟩, ⟨1, 2, 0⟩, ⟨3, 2, 0⟩, ⟨4, 0, 0⟩] 2 0 1).1 (1 / 3)
  == bernsteinCurve [⟨0, 0, 0⟩, ⟨1, 2, 0⟩, ⟨3, 2, 0⟩, ⟨4, 0, 0⟩] (1 / 3)
-- bezier_decomposition (A5.6) of a quadratic spline with one simple interior knot: two segments
#guard (bezierDecomposition [0, 0, 0, 1, 2, 2, 2] [] [⟨0, 0, 0⟩, ⟨1, 2, 0⟩, ⟨3, 2, 0⟩, ⟨4, 0, 0⟩] 3).toOption
  == some [[⟨0, 0, 0⟩, ⟨1, 2, 0⟩, ⟨2, 2, 0⟩], [⟨2, 2, 0⟩, ⟨3, 2, 0⟩, ⟨4, 0, 0⟩]]
-- a cubic spline at the double knot 1: the mean of P[2] = (2,1) and P[3] = (4,1) (equal spacing)
#guard evalPoint [0, 0, 0, 0, 1, 1, 2, 2, 2, 2] [] [⟨0, 0, 0⟩, ⟨1, 0, 0⟩, ⟨2, 1, 0⟩, ⟨4, 1, 0⟩, ⟨5, 0, 0⟩, ⟨6, 0, 0⟩] 4 1 == some ⟨3, 1, 0⟩
-- parametrisation and averaged knots
#guard normalizeDistances [1, 2, 1] == [0, 1 / 4, 3 / 4, 1] && averagedKnotsUnconstrained 4 2 [0, 1 / 4, 1 / 2, 3 / 4, 1] == [0, 0, 0, 3 / 8, 5 / 8, 1, 1, 1]
-- interpolation with a solver that returns the control points of a known spline: the identity rows at t = 0, 1 of a segment
#guard (globalInterpolation (fun _ rhs => rhs) [⟨0, 0, 0⟩, ⟨1, 1, 0⟩] 1 [0, 1]).map (fun r => (r.2, evalPoint r.2 [] r.1 2 0))
  == some ([0, 0, 1, 1], some ⟨0, 0, 0⟩)

/-! ### session 3: knot insertion, refinement, reversal, continuity, Bezier subdivision -/
-- insert_knot: hypotheses met (t = 1/2 < U[count] = 2), the result is a 5-point spline over the same domain, same point at u = 5/4
#guard (insertKnot [0, 0, 0, 1, 2, 2, 2] [⟨0, 0, 0⟩, ⟨1, 2, 0⟩, ⟨3, 2, 0⟩, ⟨4, 0, 0⟩] 3 (1 / 2)).toOption.map (fun r =>
    (r.2, evalPoint r.2 [] r.1 3 (5 / 4)))
  == some ([0, 0, 0, 1 / 2, 1, 2, 2, 2], some ⟨5 / 2, 15 / 8, 0⟩)
#guard evalPoint [0, 0, 0, 1, 2, 2, 2] [] [⟨0, 0, 0⟩, ⟨1, 2, 0⟩, ⟨3, 2, 0⟩, ⟨4, 0, 0⟩] 3 (5 / 4) == some ⟨5 / 2, 15 / 8, 0⟩
-- the hypothesis `t < U[count]` of insert_knot_preserves: outside it (unclamped knots, U[count] = 4 < t = 9/2 < max_t = 6)
-- `knots.insert(k + 1, t)` leaves a knot vector that is NOT nondecreasing (the code does the same, stream X4)
#guard (insertKnot [0, 1, 2, 3, 4, 5, 6] [⟨0, 0, 0⟩, ⟨1, 2, 0⟩, ⟨3, 2, 0⟩, ⟨4, 0, 0⟩] 3 (9 / 2)).toOption.map (fun r =>
    (r.2, nondecreasing r.2)) == some ([0, 1, 2, 3, 9 / 2, 4, 5, 6], false)
-- knot_refinement with repeated and existing knots
#guard (knotRefinement [0, 0, 0, 1, 2, 2, 2] [⟨0, 0, 0⟩, ⟨1, 2, 0⟩, ⟨3, 2, 0⟩, ⟨4, 0, 0⟩] 3 [1 / 2, 1, 1 / 2, 3 / 2]).toOption.map
    (fun r => (r.2, evalPoint r.2 [] r.1 3 (5 / 4)))
  == some ([0, 0, 0, 1 / 2, 1 / 2, 1, 1, 3 / 2, 2, 2, 2], some ⟨5 / 2, 15 / 8, 0⟩)
-- split_bezier: left half forwards, right half BACKWARDS (quirk)
#guard (splitBezier [⟨0, 0, 0⟩, ⟨1, 2, 0⟩, ⟨3, 2, 0⟩, ⟨4, 0, 0⟩] (1 / 4)).toOption.map (fun r =>
    (r.1.head?, r.2.head?, bernsteinCurve r.1 (1 / 2), bernsteinCurve r.2 (1 / 3)))
  == some (some ⟨0, 0, 0⟩, some ⟨4, 0, 0⟩, ⟨107 / 256, 21 / 32, 0⟩, ⟨99 / 32, 9 / 8, 0⟩)
#guard bernsteinCurve [⟨0, 0, 0⟩, ⟨1, 2, 0⟩, ⟨3, 2, 0⟩, ⟨4, 0, 0⟩] (1 / 8) == ⟨107 / 256, 21 / 32, 0⟩
#guard bernsteinCurve [⟨0, 0, 0⟩, ⟨1, 2, 0⟩, ⟨3, 2, 0⟩, ⟨4, 0, 0⟩] (3 / 4) == ⟨99 / 32, 9 / 8, 0⟩
-- reverse: multLeDegree holds for ordinary clamped vectors; the reversed spline at the mirrored parameter, ON the knot u = 1
#guard multLeDegree [0, 0, 0, 1, 2, 2, 2] 3 && multLeDegree [0, 1, 2, 3, 3, 4, 5] 3 && !multLeDegree [0, 0, 0, 1, 1, 1, 2, 2, 2] 3
#guard (reverseSpline [0, 0, 0, 1, 2, 2, 2] [] []).1 == [0, 0, 0, 1 / 2, 1, 1, 1] && reverseParam [0, 0, 0, 1, 2, 2, 2] 1 == 1 / 2
#guard evalPoint [0, 0, 0, 1 / 2, 1, 1, 1] [] [⟨4, 0, 0⟩, ⟨3, 2, 0⟩, ⟨1, 2, 0⟩, ⟨0, 0, 0⟩] 3 (1 / 2) == some ⟨2, 2, 0⟩
#guard evalPoint [0, 0, 0, 1, 2, 2, 2] [] [⟨0, 0, 0⟩, ⟨1, 2, 0⟩, ⟨3, 2, 0⟩, ⟨4, 0, 0⟩] 3 1 == some ⟨2, 2, 0⟩
-- `multLeDegree` is necessary for bspline_reverse / bspline_continuous_at_knot: interior knot 1 of multiplicity 3 = order,
-- the curve jumps from (3,2) to (4,0); `point(1)` is the right limit, the reversed spline gives the left limit
#guard evalPoint [0, 0, 0, 1, 1, 1, 2, 2, 2] [] [⟨0, 0, 0⟩, ⟨1, 2, 0⟩, ⟨3, 2, 0⟩, ⟨4, 0, 0⟩, ⟨5, 1, 0⟩, ⟨6, 0, 0⟩] 3 1 == some ⟨4, 0, 0⟩
#guard (let r := reverseSpline [0, 0, 0, 1, 1, 1, 2, 2, 2] [] [⟨0, 0, 0⟩, ⟨1, 2, 0⟩, ⟨3, 2, 0⟩, ⟨4, 0, 0⟩, ⟨5, 1, 0⟩, ⟨6, 0, 0⟩]
        evalPoint r.1 [] r.2.2 3 (reverseParam [0, 0, 0, 1, 1, 1, 2, 2, 2] 1)) == some ⟨3, 2, 0⟩
-- first derivatives: row 0 = basis functions, row 1 = their derivatives (sum 0); the curve derivative
#guard basisFuncsDerivatives [0, 0, 0, 1, 2, 2, 2] 3 3 (3 / 2) 1 == some [[1 / 8, 5 / 8, 1 / 4], [-1 / 2, -1 / 2, 1]]
#guard evalDerivative [0, 0, 0, 1, 2, 2, 2] [] [⟨0, 0, 0⟩, ⟨1, 2, 0⟩, ⟨3, 2, 0⟩, ⟨4, 0, 0⟩] 3 (3 / 2) 1
  == some [⟨3, 3 / 2, 0⟩, ⟨2, -2, 0⟩]
-- rational quarter circle: the derivative at the start is tangent to the circle, (0, 2, 0)
#guard evalDerivative [0, 0, 0, 1, 1, 1] [1, 1, 2] [⟨1, 0, 0⟩, ⟨1, 1, 0⟩, ⟨0, 1, 0⟩] 3 0 1 == some [⟨1, 0, 0⟩, ⟨0, 2, 0⟩]
-- split: both halves are returned, the second one re-normalised to [0, 1]
#guard (splitBSpline [0, 0, 0, 1, 2, 3, 3, 3] [⟨0, 0, 0⟩, ⟨1, 2, 0⟩, ⟨3, 2, 0⟩, ⟨4, 0, 0⟩, ⟨5, 1, 0⟩] 3 (3 / 2)).toOption.map
    (fun r => (r.1.2, r.2.2, evalPoint r.1.2 [] r.1.1 3 (5 / 4), evalPoint r.2.2 [] r.2.1 3 ((2 - 3 / 2) / (3 - 3 / 2))))
  == some ([0, 0, 0, 1, 3 / 2, 3 / 2, 3 / 2], [0, 0, 0, 1 / 3, 1, 1, 1],
      evalPoint [0, 0, 0, 1, 2, 3, 3, 3] [] [⟨0, 0, 0⟩, ⟨1, 2, 0⟩, ⟨3, 2, 0⟩, ⟨4, 0, 0⟩, ⟨5, 1, 0⟩] 3 (5 / 4),
      evalPoint [0, 0, 0, 1, 2, 3, 3, 3] [] [⟨0, 0, 0⟩, ⟨1, 2, 0⟩, ⟨3, 2, 0⟩, ⟨4, 0, 0⟩, ⟨5, 1, 0⟩] 3 2)
-- bezier_to_bspline: two seamless cubic curves
#guard seamless [⟨⟨0, 0, 0⟩, ⟨1, 2, 0⟩, ⟨3, 2, 0⟩, ⟨4, 0, 0⟩⟩, ⟨⟨4, 0, 0⟩, ⟨5, -2, 0⟩, ⟨6, 1, 0⟩, ⟨7, 0, 0⟩⟩]
#guard (bezierToBSpline [⟨⟨0, 0, 0⟩, ⟨1, 2, 0⟩, ⟨3, 2, 0⟩, ⟨4, 0, 0⟩⟩, ⟨⟨4, 0, 0⟩, ⟨5, -2, 0⟩, ⟨6, 1, 0⟩, ⟨7, 0, 0⟩⟩]).map
    (fun r => (r.2, evalPoint r.2 [] r.1 4 (1 + 1 / 2)))
  == some ([0, 0, 0, 0, 1, 1, 1, 2, 2, 2, 2], some ((Bez4.mk ⟨4, 0, 0⟩ ⟨5, -2, 0⟩ ⟨6, 1, 0⟩ ⟨7, 0, 0⟩).point (1 / 2)))
-- rational insertion: the unit quarter circle stays on the circle, weights change
#guard (insertKnotRational [0, 0, 0, 1, 1, 1] [1, 1, 2] [⟨1, 0, 0⟩, ⟨1, 1, 0⟩, ⟨0, 1, 0⟩] 3 (1 / 2)).toOption.map
    (fun r => (r.2.1, evalPoint r.2.2 r.2.1 r.1 3 (1 / 4)))
  == some ([1, 1, 3 / 2, 2], evalPoint [0, 0, 0, 1, 1, 1] [1, 1, 2] [⟨1, 0, 0⟩, ⟨1, 1, 0⟩, ⟨0, 1, 0⟩] 3 (1 / 4))
-- generic Bezier class (degree 4): all three branches of derivative()
#guard bezierDerivative [⟨0, 0, 0⟩, ⟨1, 2, 0⟩, ⟨3, 2, 0⟩, ⟨4, 0, 0⟩, ⟨5, 1, 0⟩] 0 ==
  some (⟨0, 0, 0⟩, ⟨4, 8, 0⟩, ⟨12, -24, 0⟩)
#guard (bezierDerivative [⟨0, 0, 0⟩, ⟨1, 2, 0⟩, ⟨3, 2, 0⟩, ⟨4, 0, 0⟩, ⟨5, 1, 0⟩] (1 / 2)).map (fun r => (r.1, r.2.1)) ==
  some (⟨43 / 16, 21 / 16, 0⟩, ⟨11 / 2, -3 / 2, 0⟩)
#guard (bezierDerivative [⟨0, 0, 0⟩, ⟨1, 2, 0⟩, ⟨3, 2, 0⟩, ⟨4, 0, 0⟩, ⟨5, 1, 0⟩] (1 - 1 / 1000000)).map (fun r => (r.1, r.2.1)) ==
  some (⟨5, 1, 0⟩, ⟨4, 4, 0⟩)      -- snapped to t = 1
-- rational transform: quarter circle (weight sum 5/4 ≠ 0 at u = 1/2) moved by a translation + scaling
#guard (let m : Affine := ⟨2, 0, 0, 0, 2, 0, 0, 0, 1, 5, -1, 0⟩
        evalPoint [0, 0, 0, 1, 1, 1] [1, 1, 2] ([⟨1, 0, 0⟩, ⟨1, 1, 0⟩, ⟨0, 1, 0⟩].map m.apply) 3 (1 / 2)
          == (evalPoint [0, 0, 0, 1, 1, 1] [1, 1, 2] [⟨1, 0, 0⟩, ⟨1, 1, 0⟩, ⟨0, 1, 0⟩] 3 (1 / 2)).map m.apply)
-- default knots: open_uniform_knot_vector(6, 4, normalize=True); count = order: the Bezier curve
#guard openUniformKnots 6 4 true == [0, 0, 0, 0, 1 / 3, 2 / 3, 1, 1, 1, 1] && openUniformKnots 4 4 false == [0, 0, 0, 0, 1, 1, 1, 1]
#guard evalPoint (openUniformKnots 4 4 true) [] [⟨0, 0, 0⟩, ⟨1, 2, 0⟩, ⟨3, 2, 0⟩, ⟨4, 0, 0⟩] 4 (1 / 2)
  == some (bernsteinCurve [⟨0, 0, 0⟩, ⟨1, 2, 0⟩, ⟨3, 2, 0⟩, ⟨4, 0, 0⟩] (1 / 2))
-- split: the first half AT the cut and the second half at the end point
#guard (splitBSpline [0, 0, 0, 1, 2, 3, 3, 3] [⟨0, 0, 0⟩, ⟨1, 2, 0⟩, ⟨3, 2, 0⟩, ⟨4, 0, 0⟩, ⟨5, 1, 0⟩] 3 (3 / 2)).toOption.map
    (fun r => (evalPoint r.1.2 [] r.1.1 3 (3 / 2), evalPoint r.2.2 [] r.2.1 3 1))
  == some (evalPoint [0, 0, 0, 1, 2, 3, 3, 3] [] [⟨0, 0, 0⟩, ⟨1, 2, 0⟩, ⟨3, 2, 0⟩, ⟨4, 0, 0⟩, ⟨5, 1, 0⟩] 3 (3 / 2),
      evalPoint [0, 0, 0, 1, 2, 3, 3, 3] [] [⟨0, 0, 0⟩, ⟨1, 2, 0⟩, ⟨3, 2, 0⟩, ⟨4, 0, 0⟩, ⟨5, 1, 0⟩] 3 3)
-- rational split of the quarter circle at t = 1/2: both halves stay on the unit circle and reproduce the curve
#guard (splitBSplineRational [0, 0, 0, 1, 1, 1] [1, 1, 2] [⟨1, 0, 0⟩, ⟨1, 1, 0⟩, ⟨0, 1, 0⟩] 3 (1 / 2)).toOption.map
    (fun r => (evalPoint r.1.2.2 r.1.2.1 r.1.1 3 (1 / 4), evalPoint r.2.2.2 r.2.2.1 r.2.1 3 ((3 / 4 - 1 / 2) / (1 - 1 / 2))))
  == some (evalPoint [0, 0, 0, 1, 1, 1] [1, 1, 2] [⟨1, 0, 0⟩, ⟨1, 1, 0⟩, ⟨0, 1, 0⟩] 3 (1 / 4),
      evalPoint [0, 0, 0, 1, 1, 1] [1, 1, 2] [⟨1, 0, 0⟩, ⟨1, 1, 0⟩, ⟨0, 1, 0⟩] 3 (3 / 4))
-- weight scaling: c = 3
#guard evalPoint [0, 0, 0, 1, 1, 1] [3, 3, 6] [⟨1, 0, 0⟩, ⟨1, 1, 0⟩, ⟨0, 1, 0⟩] 3 (1 / 2) == some ⟨3 / 5, 4 / 5, 0⟩

end EzdxfVerif.Props.C13

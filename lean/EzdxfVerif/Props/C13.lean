/-
C13  Curve evaluation and curve surgery are exact.
Only property theorems (`theorem`, each one a counted obligation of ./check C13), `private theorem`
helpers and non-vacuity `example`/`#guard`s live here.  Model: EzdxfVerif/Model/Curve.lean (hand
written, tied to the code by the correspondence streams of harness/props/c13.py); kernels translated
from the current source on every run: EzdxfVerif/Gen/CurveKernels.lean.

Proved at full strength: Bezier evaluation = Bernstein form, tangent = derivative, end points,
affine invariance, reversal (on the kernels translated from BOTH twins); `bisect_right` / linear
search find the knot span inside the domain; A2.2 as coded never divides by zero on a non-empty
span, sums to one, is non-negative, and equals the Cox - de Boor recursion; `Evaluator.point` equals
the textbook sum over ALL control points; rational weighting is the homogeneous form; affine
invariance of B-spline points; bulge centre/radius/apex identities; factorial/binomial tables.

`find_span` is modelled AFTER fix 8d57f80c6 of finding F13 (last non-empty span at the domain end):
the former counterexample is now a regression theorem and `findSpan_spec`, `evalPoint_total`,
`evalPoint_domain_end` hold on the closed domain of every spline with a non-degenerate domain
`U[p] < U[count]` (a necessary hypothesis: a spline whose parameter domain is a single point has no
non-empty span at all, see the `#guard` at the end).

NOT proved: knot insertion (Boehm), refinement, degree elevation, Bezier decomposition, split,
reverse of B-splines, derivatives (A2.3/A4.2), interpolation and the conic constructions: the oracle
of harness/props/c13.py checks them on the real code against exact rationals.
-/
import EzdxfVerif.Model.Curve
import EzdxfVerif.Gen.CurveKernels
import Mathlib.Tactic.Ring
import Mathlib.Tactic.FieldSimp
import Mathlib.Tactic.Linarith

namespace EzdxfVerif.Props.C13
open EzdxfVerif.Curve
open EzdxfVerif.Gen.CurveKernels

private theorem v3ext {a b : V3} (hx : a.x = b.x) (hy : a.y = b.y) (hz : a.z = b.z) : a = b := by
  cases a; cases b; simp_all

/-! ## 1. kernels translated from the source = hand model (re-opened by any edit of the kernels) -/

/-- `_get_curve_point` / `_get_curve_tangent` of `_bezier4p.py`, `_bezier3p.py` and the Cython twins
    `FastCubicCurve` / `FastQuadCurve`, as translated on this run, equal the model kernels -/
theorem kernels_match_source (o q1 q2 q3 : V3) (t : Rat) :
    bez4PointPy o q1 q2 q3 t = bez4PointK o q1 q2 q3 t ∧ bez4PointPyx o q1 q2 q3 t = bez4PointK o q1 q2 q3 t ∧
    bez4TangentPy q1 q2 q3 t = bez4TangentK q1 q2 q3 t ∧ bez4TangentPyx q1 q2 q3 t = bez4TangentK q1 q2 q3 t ∧
    bez3PointPy o q1 q2 t = bez3PointK o q1 q2 t ∧ bez3PointPyx o q1 q2 t = bez3PointK o q1 q2 t ∧
    bez3TangentPy q1 q2 t = bez3TangentK q1 q2 t ∧ bez3TangentPyx q1 q2 t = bez3TangentK q1 q2 t := by
  refine ⟨?_, ?_, ?_, ?_, ?_, ?_, ?_, ?_⟩ <;> apply v3ext <;>
    simp only [bez4PointPy, bez4PointPyx, bez4TangentPy, bez4TangentPyx, bez3PointPy, bez3PointPyx, bez3TangentPy,
      bez3TangentPyx, bez4PointK, bez4TangentK, bez3PointK, bez3TangentK, V3.add, V3.scale] <;> ring

/-- `signed_bulge_radius` as translated from bulge.py, squared, is the model's `bulgeRadiusSq` for every
    `dist` with `dist² = |chord|²` (the square root is a free parameter constrained by its defining equation) -/
theorem bulge_radius_kernel (dist b sx sy ex ey : Rat) (hb : b ≠ 0)
    (hd : dist * dist = (ex - sx) * (ex - sx) + (ey - sy) * (ey - sy)) :
    signedBulgeRadiusPy dist b * signedBulgeRadiusPy dist b = bulgeRadiusSq sx sy ex ey b := by
  simp only [signedBulgeRadiusPy, bulgeRadiusSq]
  rw [← hd]; field_simp; ring


/-! ## 2. Bezier curves -/

/-- the coded cubic / quadratic evaluation (offset trick included) is the Bernstein form -/
theorem bezier_point_bernstein (c : Bez4) (d : Bez3) (t : Rat) :
    c.point t = bernsteinCurve [c.p0, c.p1, c.p2, c.p3] t ∧ d.point t = bernsteinCurve [d.p0, d.p1, d.p2] t := by
  constructor <;> apply v3ext <;>
    simp [Bez4.point, bez4PointK, Bez3.point, bez3PointK, bernsteinCurve, bernsteinSum, bernstein, choose,
      V3.add, V3.scale, V3.sub, V3.zero] <;> ring

/-- `reverse()` runs the same curve backwards -/
theorem bezier_reverse (c : Bez4) (d : Bez3) (t : Rat) :
    c.reverse.point t = c.point (1 - t) ∧ d.reverse.point t = d.point (1 - t) := by
  constructor <;> apply v3ext <;>
    simp [Bez4.point, Bez4.reverse, bez4PointK, Bez3.point, Bez3.reverse, bez3PointK, V3.add, V3.scale, V3.sub] <;> ring

/-- `transform(m)` commutes with evaluation for every affine map (points) and the tangent is mapped
    by the linear part -/
theorem bezier_affine (c : Bez4) (d : Bez3) (m : Affine) (t : Rat) :
    (c.transform m).point t = m.apply (c.point t) ∧ (d.transform m).point t = m.apply (d.point t) ∧
    (c.transform m).tangent t = (m.apply (c.tangent t)).sub (m.apply V3.zero) := by
  refine ⟨?_, ?_, ?_⟩ <;> apply v3ext <;>
    simp [Bez4.point, Bez4.tangent, Bez4.transform, Bez3.point, Bez3.transform, Affine.apply, bez4PointK, bez4TangentK,
      bez3PointK, V3.add, V3.scale, V3.sub, V3.zero] <;> ring

/-- `tangent(t)` is the derivative of `point(t)`: exact second order Taylor expansion with an explicit
    polynomial remainder (`h² · (a₂ + a₃·(3t + h))`, `a₂ = 3(p0 − 2p1 + p2)`, `a₃ = p3 − 3p2 + 3p1 − p0`);
    an identity of polynomials in `t` and `h`, so the coefficient of `h` is the formal derivative -/
theorem bezier_tangent_is_derivative (c : Bez4) (t h : Rat) :
    c.point (t + h) = ((c.point t).add ((c.tangent t).scale h)).add
      (((((c.p0.sub (c.p1.scale 2)).add c.p2).scale 3).add
        ((((c.p3.sub (c.p2.scale 3)).add (c.p1.scale 3)).sub c.p0).scale (3 * t + h))).scale (h * h)) := by
  apply v3ext <;> simp only [Bez4.point, Bez4.tangent, bez4PointK, bez4TangentK, V3.add, V3.scale, V3.sub] <;> ring

/-- quadratic case: the remainder is `h²·(p0 − 2p1 + p2)` -/
theorem bezier3_tangent_is_derivative (c : Bez3) (t h : Rat) :
    c.point (t + h) = ((c.point t).add ((c.tangent t).scale h)).add
      (((c.p0.sub (c.p1.scale 2)).add c.p2).scale (h * h)) := by
  apply v3ext <;> simp only [Bez3.point, Bez3.tangent, bez3PointK, bez3TangentK, V3.add, V3.scale, V3.sub] <;> ring

/-- the curve starts and ends in the first / last control point, the end tangents are `n·(P1−P0)`, `n·(Pn−Pn−1)` -/
theorem bezier_endpoints (c : Bez4) (d : Bez3) :
    c.point 0 = c.p0 ∧ c.point 1 = c.p3 ∧ c.tangent 0 = (c.p1.sub c.p0).scale 3 ∧ c.tangent 1 = (c.p3.sub c.p2).scale 3 ∧
    d.point 0 = d.p0 ∧ d.point 1 = d.p2 ∧ d.tangent 0 = (d.p1.sub d.p0).scale 2 ∧ d.tangent 1 = (d.p2.sub d.p1).scale 2 := by
  refine ⟨?_, ?_, ?_, ?_, ?_, ?_, ?_, ?_⟩ <;> apply v3ext <;>
    simp only [Bez4.point, Bez4.tangent, bez4PointK, bez4TangentK, Bez3.point, Bez3.tangent, bez3PointK, bez3TangentK,
      V3.add, V3.scale, V3.sub] <;> ring


/-! ## 3. knot span search (`Basis.find_span`) -/

@[simp] private theorem kget_cons_zero (a : Rat) (r : List Rat) : kget (a :: r) 0 = a := rfl
@[simp] private theorem kget_cons_succ (a : Rat) (r : List Rat) (i : Nat) : kget (a :: r) (i + 1) = kget r i := rfl

private theorem nd_head_le : ∀ (r : List Rat) (a : Rat), nondecreasing (a :: r) = true → ∀ j, j < r.length → a ≤ kget r j
  | [], _, _, j, hj => by simp at hj
  | b :: r, a, h, j, hj => by
    simp only [nondecreasing, Bool.and_eq_true, decide_eq_true_eq] at h
    cases j with
    | zero => simpa using h.1
    | succ j =>
      have := nd_head_le r b h.2 j (by simpa using hj)
      simp only [kget_cons_succ]; exact le_trans h.1 this

private theorem nd_mono : ∀ (l : List Rat), nondecreasing l = true → ∀ i j, i ≤ j → j < l.length → kget l i ≤ kget l j
  | [], _, i, j, _, hj => by simp at hj
  | a :: r, h, i, j, hij, hj => by
    cases i with
    | zero =>
      cases j with
      | zero => simp
      | succ j => simpa using nd_head_le r a h j (by simpa using hj)
    | succ i =>
      cases j with
      | zero => omega
      | succ j =>
        have ht : nondecreasing r = true := by
          cases r with
          | nil => rfl
          | cons b r => simp only [nondecreasing, Bool.and_eq_true] at h; exact h.2
        simpa using nd_mono r ht i j (by omega) (by simpa using hj)

/-- `bisect.bisect_right(a, x, lo, hi)` and the hand rolled loop of bspline.pyx on a nondecreasing list:
    everything in `[lo, r)` is `≤ x`, everything in `[r, hi)` is `> x` -/
theorem bisectRight_spec (a : List Rat) (x : Rat) (lo hi : Nat) (hs : nondecreasing a = true)
    (hle : lo ≤ hi) (hlen : hi ≤ a.length) :
    lo ≤ bisectRight a x lo hi ∧ bisectRight a x lo hi ≤ hi ∧
    (∀ i, lo ≤ i → i < bisectRight a x lo hi → kget a i ≤ x) ∧
    (∀ i, bisectRight a x lo hi ≤ i → i < hi → x < kget a i) := by
  fun_induction bisectRight a x lo hi with
  | case1 lo hi hlt mid hx ih =>
    have hm : lo ≤ mid ∧ mid < hi := by constructor <;> omega
    obtain ⟨h1, h2, h3, h4⟩ := ih (by omega) (by omega)
    refine ⟨h1, by omega, h3, ?_⟩
    intro i hi1 hi2
    by_cases him : i < mid
    · exact h4 i hi1 him
    · have := nd_mono a hs mid i (by omega) (by omega)
      exact lt_of_lt_of_le hx this
  | case2 lo hi hlt mid hx ih =>
    have hm : lo ≤ mid ∧ mid < hi := by constructor <;> omega
    obtain ⟨h1, h2, h3, h4⟩ := ih (by omega) (by omega)
    refine ⟨by omega, h2, ?_, h4⟩
    intro i hi1 hi2
    by_cases him : mid + 1 ≤ i
    · exact h3 i him hi2
    · have := nd_mono a hs i mid (by omega) (by omega)
      exact le_trans this (not_lt.mp hx)
  | case3 lo hi hlt =>
    refine ⟨le_refl _, hle, ?_, ?_⟩
    · intro i h1 h2; omega
    · intro i h1 h2; omega

private theorem linearSearch_spec (a : List Rat) (u : Rat) (count span : Nat) :
    span ≤ linearSearch a u count span ∧
    (∀ i, span ≤ i → i < linearSearch a u count span → kget a i ≤ u) ∧
    ¬ (kget a (linearSearch a u count span) ≤ u ∧ linearSearch a u count span < count) := by
  fun_induction linearSearch a u count span with
  | case1 span h ih =>
    obtain ⟨h1, h2, h3⟩ := ih
    refine ⟨by omega, ?_, h3⟩
    intro i hi1 hi2
    by_cases hi : i = span
    · subst hi; exact h.1
    · exact h2 i (by omega) hi2
  | case2 span h =>
    refine ⟨le_refl _, ?_, h⟩
    intro i h1 h2; omega

/-- `Basis.find_span` (both search branches) returns the knot span that contains `u`, for EVERY nondecreasing
    knot vector, order and `u` in the half open domain `[U[p], U[count])`: `U[s] ≤ u < U[s+1]` -/
theorem findSpan_spec_interior (knots : List Rat) (order count : Nat) (u : Rat)
    (hs : nondecreasing knots = true) (ho : 1 ≤ order) (hoc : order ≤ count)
    (hl : knots.length = order + count)
    (hlo : kget knots (order - 1) ≤ u) (hhi : u < kget knots count) :
    ∃ s : Nat, findSpan knots order count u = (s : Int) ∧ order - 1 ≤ s ∧ s < count ∧
      kget knots s ≤ u ∧ u < kget knots (s + 1) := by
  unfold findSpan
  simp only
  rw [if_neg (not_le.mpr hhi)]
  split
  · -- binary search
    obtain ⟨h1, h2, h3, h4⟩ := bisectRight_spec knots u (order - 1) count hs (by omega) (by omega)
    generalize bisectRight knots u (order - 1) count = r at *
    have hr : order - 1 < r := by
      by_contra hcon
      have : r = order - 1 := by omega
      have := h4 (order - 1) (by omega) (by omega)
      exact absurd hlo (not_le.mpr this)
    refine ⟨r - 1, by omega, by omega, by omega, h3 (r - 1) (by omega) (by omega), ?_⟩
    have e : r - 1 + 1 = r := by omega
    rw [e]
    by_cases hrc : r < count
    · exact h4 r (le_refl _) hrc
    · have : r = count := by omega
      rw [this]; exact hhi
  · -- linear search
    obtain ⟨h1, h2, h3⟩ := linearSearch_spec knots u count 0
    generalize linearSearch knots u count 0 = r at *
    have hr : order - 1 < r := by
      by_contra hcon
      have hle : kget knots r ≤ kget knots (order - 1) := nd_mono knots hs r (order - 1) (by omega) (by omega)
      exact h3 ⟨le_trans hle hlo, by omega⟩
    have hrc : r ≤ count := by
      by_contra hcon
      have hc := h2 count (by omega) (by omega)
      exact absurd hc (not_le.mpr hhi)
    refine ⟨r - 1, by omega, by omega, by omega, h2 (r - 1) (by omega) (by omega), ?_⟩
    have e : r - 1 + 1 = r := by omega
    rw [e]
    by_cases hrc' : r < count
    · by_contra hcon
      exact h3 ⟨not_lt.mp hcon, hrc'⟩
    · have : r = count := by omega
      rw [this]; exact hhi

private theorem backSearch_spec (knots : List Rat) (p count : Nat) : ∀ (start : Nat),
    backSearch knots p count start ≤ start ∧
    (∀ i, backSearch knots p count start < i → i ≤ start → kget knots count ≤ kget knots i) ∧
    ¬ (backSearch knots p count start > p ∧ kget knots count ≤ kget knots (backSearch knots p count start)) ∧
    (p ≤ start → p ≤ backSearch knots p count start)
  | 0 => by
    refine ⟨le_refl _, ?_, ?_, ?_⟩
    · intro i h1 h2; simp only [backSearch] at h1; omega
    · simp only [backSearch]; omega
    · intro h; simp only [backSearch]; omega
  | start + 1 => by
    obtain ⟨h1, h2, h3, h4⟩ := backSearch_spec knots p count start
    by_cases hc : start + 1 > p ∧ kget knots count ≤ kget knots (start + 1)
    · have e : backSearch knots p count (start + 1) = backSearch knots p count start := by
        simp only [backSearch, if_pos hc]
      rw [e]
      refine ⟨by omega, ?_, h3, fun _ => h4 (by omega)⟩
      intro i hi1 hi2
      by_cases hi : i = start + 1
      · subst hi; exact hc.2
      · exact h2 i hi1 (by omega)
    · have e : backSearch knots p count (start + 1) = start + 1 := by
        simp only [backSearch, if_neg hc]
      rw [e]
      exact ⟨le_refl _, fun i a b => by omega, hc, fun h => h⟩

/-- the special case `u >= knots[count]` as fixed by 8d57f80c6: for EVERY `u` at or beyond the domain end the LAST
    NON-EMPTY span is returned (its right end is the domain end), for every nondecreasing knot vector with a
    non-degenerate domain -/
theorem findSpan_domain_end (knots : List Rat) (order count : Nat) (u : Rat)
    (hs : nondecreasing knots = true) (ho : 1 ≤ order) (hoc : order ≤ count)
    (hl : knots.length = order + count)
    (hdom : kget knots (order - 1) < kget knots count) (hu : kget knots count ≤ u) :
    ∃ s : Nat, findSpan knots order count u = (s : Int) ∧ order - 1 ≤ s ∧ s < count ∧
      kget knots s < kget knots (s + 1) ∧ kget knots (s + 1) = kget knots count := by
  obtain ⟨h1, h2, h3, h4⟩ := backSearch_spec knots (order - 1) count (count - 1)
  have hfs : findSpan knots order count u = (backSearch knots (order - 1) count (count - 1) : Int) := by
    unfold findSpan
    simp only
    rw [if_pos hu, if_neg (by omega)]
  generalize backSearch knots (order - 1) count (count - 1) = r at *
  have hp := h4 (by omega)
  have hlt : kget knots r < kget knots count := by
    by_cases hr : r > order - 1
    · by_contra hcon; exact h3 ⟨hr, not_lt.mp hcon⟩
    · have : r = order - 1 := by omega
      rw [this]; exact hdom
  have heq : kget knots (r + 1) = kget knots count := by
    by_cases hr : r + 1 = count
    · rw [hr]
    · exact le_antisymm (nd_mono knots hs (r + 1) count (by omega) (by omega)) (h2 (r + 1) (by omega) (by omega))
  exact ⟨r, hfs, hp, by omega, by rw [heq]; exact hlt, heq⟩

/-- FULL STRENGTH (provable since fix 8d57f80c6; false before, finding F13): on the CLOSED domain `[U[p], U[count]]`
    of every nondecreasing knot vector with a non-degenerate domain, `find_span` returns a NON-EMPTY span inside the
    control point range whose closure contains `u` -/
theorem findSpan_spec (knots : List Rat) (order count : Nat) (u : Rat)
    (hs : nondecreasing knots = true) (ho : 1 ≤ order) (hoc : order ≤ count)
    (hl : knots.length = order + count)
    (hdom : kget knots (order - 1) < kget knots count)
    (hlo : kget knots (order - 1) ≤ u) (hhi : u ≤ kget knots count) :
    ∃ s : Nat, findSpan knots order count u = (s : Int) ∧ order - 1 ≤ s ∧ s < count ∧
      kget knots s < kget knots (s + 1) ∧ kget knots s ≤ u ∧ u ≤ kget knots (s + 1) := by
  rcases lt_or_eq_of_le hhi with hlt | heq
  · obtain ⟨s, hfs, h1, h2, h3, h4⟩ := findSpan_spec_interior knots order count u hs ho hoc hl hlo hlt
    exact ⟨s, hfs, h1, h2, lt_of_le_of_lt h3 h4, h3, le_of_lt h4⟩
  · obtain ⟨s, hfs, h1, h2, h3, h4⟩ := findSpan_domain_end knots order count u hs ho hoc hl hdom (by rw [heq])
    exact ⟨s, hfs, h1, h2, h3, by rw [heq, ← h4]; exact le_of_lt h3, by rw [h4, heq]⟩

/-- regression witness of finding F13 (was `findSpan = 3`, an empty span, and `evalPoint = none` = ZeroDivisionError
    before the fix): the end-of-domain knot 3 is repeated in an unclamped vector, the last non-empty span 2 is returned
    and the curve ends in the control-polygon value `(3, 2, 0)` -/
theorem findSpan_repeated_end_knot_regression :
    let U : List Rat := [0, 1, 2, 3, 3, 4, 5]
    let P : List V3 := [⟨0, 0, 0⟩, ⟨1, 2, 0⟩, ⟨3, 2, 0⟩, ⟨4, 0, 0⟩]
    nondecreasing U = true ∧ kget U 3 = kget U (3 + 1) ∧
    findSpan U 3 4 3 = 2 ∧ evalPoint U [] P 3 3 = some ⟨3, 2, 0⟩ := by
  decide +kernel


/-! ## 4. basis functions (The NURBS Book A2.2 as coded) -/

private theorem basisInner_sum (L R : Nat → Rat) (j : Nat) :
    ∀ (N : List Rat) (r : Nat) (saved : Rat) (out : List Rat),
      basisInner L R j r saved N = some out → out.sum = saved + N.sum
  | [], r, saved, out, h => by
    simp only [basisInner, Option.some.injEq] at h; subst h; simp
  | n :: rest, r, saved, out, h => by
    simp only [basisInner] at h
    split at h
    · exact absurd h (by simp)
    · rename_i hden
      simp only [Option.map_eq_some_iff] at h
      obtain ⟨t, ht, rfl⟩ := h
      have ih := basisInner_sum L R j rest (r + 1) _ t ht
      simp only [List.sum_cons, ih]
      field_simp
      ring

private theorem basisInner_length (L R : Nat → Rat) (j : Nat) :
    ∀ (N : List Rat) (r : Nat) (saved : Rat) (out : List Rat),
      basisInner L R j r saved N = some out → out.length = N.length + 1
  | [], r, saved, out, h => by
    simp only [basisInner, Option.some.injEq] at h; subst h; simp
  | n :: rest, r, saved, out, h => by
    simp only [basisInner] at h
    split at h
    · exact absurd h (by simp)
    · simp only [Option.map_eq_some_iff] at h
      obtain ⟨t, ht, rfl⟩ := h
      simp [basisInner_length L R j rest (r + 1) _ t ht]

private theorem basisInner_nonneg (L R : Nat → Rat) (j : Nat) (hL : ∀ i, 1 ≤ i → i ≤ j → 0 ≤ L i) (hR : ∀ i, 1 ≤ i → i ≤ j → 0 ≤ R i) :
    ∀ (N : List Rat) (r : Nat) (saved : Rat) (out : List Rat), r + N.length = j → 0 ≤ saved → (∀ x ∈ N, 0 ≤ x) →
      basisInner L R j r saved N = some out → ∀ x ∈ out, 0 ≤ x
  | [], r, saved, out, _, hsv, _, h => by
    simp only [basisInner, Option.some.injEq] at h; subst h; simpa using hsv
  | n :: rest, r, saved, out, hlen, hsv, hN, h => by
    simp only [basisInner] at h
    split at h
    · exact absurd h (by simp)
    · rename_i hden
      simp only [Option.map_eq_some_iff] at h
      obtain ⟨t, ht, rfl⟩ := h
      simp only [List.length_cons] at hlen
      have hl := hL (j - r) (by omega) (by omega)
      have hr := hR (r + 1) (by omega) (by omega)
      have hn : 0 ≤ n := hN n (by simp)
      have hdpos : 0 < R (r + 1) + L (j - r) := lt_of_le_of_ne (by linarith) (Ne.symm hden)
      have htemp : 0 ≤ n / (R (r + 1) + L (j - r)) := div_nonneg hn (le_of_lt hdpos)
      have ih := basisInner_nonneg L R j hL hR rest (r + 1) _ t (by omega) (mul_nonneg hl htemp)
        (fun x hx => hN x (by simp [hx])) ht
      intro x hx
      simp only [List.mem_cons] at hx
      rcases hx with rfl | hx
      · exact add_nonneg hsv (mul_nonneg hr htemp)
      · exact ih x hx

private theorem basisInner_total (L R : Nat → Rat) (j : Nat) :
    ∀ (N : List Rat) (r : Nat) (saved : Rat), r + N.length = j →
      (∀ r', r ≤ r' → r' < j → R (r' + 1) + L (j - r') ≠ 0) →
      ∃ out, basisInner L R j r saved N = some out
  | [], r, saved, _, _ => ⟨[saved], rfl⟩
  | n :: rest, r, saved, hlen, hden => by
    simp only [List.length_cons] at hlen
    simp only [basisInner]
    rw [if_neg (hden r (le_refl _) (by omega))]
    obtain ⟨t, ht⟩ := basisInner_total L R j rest (r + 1) (L (j - r) * (n / (R (r + 1) + L (j - r)))) (by omega)
      (fun r' h1 h2 => hden r' (by omega) h2)
    exact ⟨_, by rw [ht]; rfl⟩

private theorem basisStages_sum (L R : Nat → Rat) :
    ∀ (n j : Nat) (N out : List Rat), basisStages L R j n N = some out → out.sum = N.sum
  | 0, j, N, out, h => by simp only [basisStages, Option.some.injEq] at h; subst h; rfl
  | n + 1, j, N, out, h => by
    simp only [basisStages, Option.bind_eq_some_iff] at h
    obtain ⟨M, hM, hout⟩ := h
    rw [basisStages_sum L R n (j + 1) M out hout, basisInner_sum L R j N 0 0 M hM]; simp

private theorem basisStages_length (L R : Nat → Rat) :
    ∀ (n j : Nat) (N out : List Rat), basisStages L R j n N = some out → out.length = N.length + n
  | 0, j, N, out, h => by simp only [basisStages, Option.some.injEq] at h; subst h; rfl
  | n + 1, j, N, out, h => by
    simp only [basisStages, Option.bind_eq_some_iff] at h
    obtain ⟨M, hM, hout⟩ := h
    rw [basisStages_length L R n (j + 1) M out hout, basisInner_length L R j N 0 0 M hM]; omega

private theorem basisStages_nonneg (L R : Nat → Rat) :
    ∀ (n j : Nat) (N out : List Rat), N.length = j →
      (∀ i, 1 ≤ i → i < j + n → 0 ≤ L i) → (∀ i, 1 ≤ i → i < j + n → 0 ≤ R i) → (∀ x ∈ N, 0 ≤ x) →
      basisStages L R j n N = some out → ∀ x ∈ out, 0 ≤ x
  | 0, j, N, out, _, _, _, hN, h => by simp only [basisStages, Option.some.injEq] at h; subst h; exact hN
  | n + 1, j, N, out, hlen, hL, hR, hN, h => by
    simp only [basisStages, Option.bind_eq_some_iff] at h
    obtain ⟨M, hM, hout⟩ := h
    have hMn := basisInner_nonneg L R j (fun i h1 h2 => hL i h1 (by omega)) (fun i h1 h2 => hR i h1 (by omega))
      N 0 0 M (by omega) (le_refl _) hN hM
    have hMl := basisInner_length L R j N 0 0 M hM
    exact basisStages_nonneg L R n (j + 1) M out (by omega) (fun i h1 h2 => hL i h1 (by omega))
      (fun i h1 h2 => hR i h1 (by omega)) hMn hout

private theorem basisStages_total (L R : Nat → Rat) :
    ∀ (n j : Nat) (N : List Rat), N.length = j →
      (∀ j' r', j ≤ j' → j' < j + n → r' < j' → R (r' + 1) + L (j' - r') ≠ 0) →
      ∃ out, basisStages L R j n N = some out
  | 0, j, N, _, _ => ⟨N, rfl⟩
  | n + 1, j, N, hlen, hden => by
    obtain ⟨M, hM⟩ := basisInner_total L R j N 0 0 (by omega) (fun r' _ h2 => hden j r' (le_refl _) (by omega) h2)
    have hMl := basisInner_length L R j N 0 0 M hM
    obtain ⟨out, hout⟩ := basisStages_total L R n (j + 1) M (by omega)
      (fun j' r' h1 h2 h3 => hden j' r' (by omega) (by omega) h3)
    exact ⟨out, by simp only [basisStages, hM, Option.bind_some, hout]⟩

/-- whenever A2.2 as coded returns (no ZeroDivisionError), its values sum to 1: any order, span, knot vector, `u` -/
theorem basis_partition_of_unity (knots : List Rat) (order span : Nat) (u : Rat) (N : List Rat)
    (h : basisFuncs knots order span u = some N) : N.sum = 1 := by
  have := basisStages_sum _ _ _ _ _ _ h
  simpa using this

private theorem basis_length (knots : List Rat) (order span : Nat) (u : Rat) (N : List Rat) (ho : 1 ≤ order)
    (h : basisFuncs knots order span u = some N) : N.length = order := by
  have := basisStages_length _ _ _ _ _ _ h
  simp at this; omega

/-- inside the (closed) span all basis values are non-negative -/
theorem basis_nonneg (knots : List Rat) (order span : Nat) (u : Rat) (N : List Rat)
    (hs : nondecreasing knots = true) (hlen : span + order ≤ knots.length)
    (hlo : kget knots span ≤ u) (hhi : u ≤ kget knots (span + 1))
    (h : basisFuncs knots order span u = some N) : ∀ x ∈ N, 0 ≤ x := by
  refine basisStages_nonneg _ _ (order - 1) 1 [1] N rfl ?_ ?_ (by simp) h
  · intro i h1 h2
    have := nd_mono knots hs (span + 1 - i) span (by omega) (by omega)
    simp only [leftAt]; linarith
  · intro i h1 h2
    have := nd_mono knots hs (span + 1) (span + i) (by omega) (by omega)
    simp only [rightAt]; linarith

/-- A2.2 as coded cannot raise ZeroDivisionError on a NON-EMPTY span of a nondecreasing knot vector, for any `u`
    (all denominators are `U[s+r+1] − U[s+1−(j−r)] ≥ U[s+1] − U[s] > 0`) -/
theorem basis_total (knots : List Rat) (order span : Nat) (u : Rat)
    (hs : nondecreasing knots = true) (hlen : span + order ≤ knots.length)
    (hne : kget knots span < kget knots (span + 1)) :
    ∃ N, basisFuncs knots order span u = some N := by
  refine basisStages_total _ _ (order - 1) 1 [1] rfl ?_
  intro j' r' h1 h2 h3
  have ha := nd_mono knots hs (span + 1 - (j' - r')) span (by omega) (by omega)
  have hb := nd_mono knots hs (span + 1) (span + (r' + 1)) (by omega) (by omega)
  simp only [leftAt, rightAt]
  intro hz
  linarith

/-! ## 5. A2.2 = Cox - de Boor -/

private theorem spanPiece_vanish (U : List Rat) (u : Rat) (s : Nat) :
    ∀ (p i : Nat), (s < i ∨ i + p < s) → spanPiece U u s p i = 0
  | 0, i, h => by
    simp only [spanPiece, cdb]
    rw [if_neg]; omega
  | p + 1, i, h => by
    have h1 := spanPiece_vanish U u s p i (by omega)
    have h2 := spanPiece_vanish U u s p (i + 1) (by omega)
    simp only [spanPiece] at h1 h2 ⊢
    simp only [cdb, h1, h2]
    simp

private theorem spanPiece_succ (U : List Rat) (u : Rat) (s p i : Nat) :
    spanPiece U u s (p + 1) i =
      (if kget U (i + p + 1) - kget U i = 0 then 0
        else (u - kget U i) / (kget U (i + p + 1) - kget U i) * spanPiece U u s p i)
      + (if kget U (i + p + 2) - kget U (i + 1) = 0 then 0
        else (kget U (i + p + 2) - u) / (kget U (i + p + 2) - kget U (i + 1)) * spanPiece U u s p (i + 1)) := by
  simp only [spanPiece, cdb]

private theorem inner_piece (U : List Rat) (u : Rat) (s : Nat) (L R : Nat → Rat) (q a : Nat) (hs : s = a + q + 1)
    (hL : ∀ r, r ≤ q → L (q + 1 - r) = u - kget U (a + r + 1))
    (hR : ∀ r, r ≤ q → R (r + 1) = kget U (a + r + q + 2) - u)
    (hden : ∀ r, r ≤ q → kget U (a + r + q + 2) - kget U (a + r + 1) ≠ 0) :
    ∀ (n r : Nat), r + n = q + 1 →
      basisInner L R (q + 1) r (firstTerm U u s q a r)
        ((List.range' r n).map (fun r' => spanPiece U u s q (a + r' + 1)))
      = some ((List.range' r (n + 1)).map (fun r' => spanPiece U u s (q + 1) (a + r')))
  | 0, r, hr => by
    have hrq : r = q + 1 := by omega
    simp only [List.range'_zero, List.map_nil, basisInner, Nat.zero_add, List.range'_one, List.map_cons,
      Option.some.injEq, List.cons.injEq, and_true]
    rw [spanPiece_succ]
    have hv : spanPiece U u s q (a + r + 1) = 0 := spanPiece_vanish U u s q _ (by omega)
    rw [hv]
    simp [firstTerm]
  | n + 1, r, hr => by
    have hrq : r ≤ q := by omega
    have ih := inner_piece U u s L R q a hs hL hR hden n (r + 1) (by omega)
    rw [List.range'_succ, List.map_cons]
    simp only [basisInner]
    have hd : R (r + 1) + L (q + 1 - r) = kget U (a + r + q + 2) - kget U (a + r + 1) := by
      rw [hL r hrq, hR r hrq]; ring
    have hne := hden r hrq
    rw [hd, if_neg hne]
    -- next `saved` is the first summand for r+1
    have hsaved : L (q + 1 - r) * (spanPiece U u s q (a + r + 1) / (kget U (a + r + q + 2) - kget U (a + r + 1)))
        = firstTerm U u s q a (r + 1) := by
      have e2 : a + (r + 1) = a + r + 1 := by omega
      have e1 : a + r + 1 + q + 1 = a + r + q + 2 := by omega
      simp only [firstTerm, e2, e1]
      rw [if_neg hne, hL r hrq]
      field_simp
    rw [hsaved, ih]
    simp only [Option.map_some, Option.some.injEq]
    rw [List.range'_succ (n := n + 1), List.map_cons]
    congr 1
    rw [spanPiece_succ, if_neg hne, hR r hrq]
    simp only [firstTerm]
    have e3 : a + r + 1 + q + 1 = a + r + q + 2 := by omega
    split <;> field_simp

private theorem stage_piece (U : List Rat) (u : Rat) (s q : Nat)
    (hsort : nondecreasing U = true) (hq : q + 1 ≤ s) (hlen : s + q + 2 ≤ U.length)
    (hne : kget U s < kget U (s + 1)) :
    basisInner (leftAt U s u) (rightAt U s u) (q + 1) 0 0 (pieceList U u s q) = some (pieceList U u s (q + 1)) := by
  have hfirstTerm : firstTerm U u s q (s - q - 1) 0 = 0 := by
    have hv : spanPiece U u s q (s - q - 1 + 0) = 0 := spanPiece_vanish U u s q _ (by omega)
    simp only [firstTerm, hv, mul_zero, ite_self]
  have key := inner_piece U u s (leftAt U s u) (rightAt U s u) q (s - q - 1) (by omega)
    (by intro r hr; simp only [leftAt]; congr 2; omega)
    (by intro r hr; simp only [rightAt]; congr 2; omega)
    (by
      intro r hr
      have h1 := nd_mono U hsort (s - q - 1 + r + 1) s (by omega) (by omega)
      have h2 := nd_mono U hsort (s + 1) (s - q - 1 + r + q + 2) (by omega) (by omega)
      intro hz; linarith)
    (q + 1) 0 (by omega)
  rw [hfirstTerm] at key
  have e1 : pieceList U u s q = (List.range' 0 (q + 1)).map (fun r' => spanPiece U u s q (s - q - 1 + r' + 1)) := by
    simp only [pieceList]
    apply List.map_congr_left
    intro r _; congr 1; omega
  have e2 : pieceList U u s (q + 1) = (List.range' 0 (q + 1 + 1)).map (fun r' => spanPiece U u s (q + 1) (s - q - 1 + r')) := by
    simp only [pieceList]
    apply List.map_congr_left
    intro r _; congr 1
  rw [e1, e2]; exact key

private theorem stages_piece (U : List Rat) (u : Rat) (s : Nat) (hsort : nondecreasing U = true)
    (hne : kget U s < kget U (s + 1)) :
    ∀ (n q : Nat), q + n ≤ s → s + q + n + 1 ≤ U.length →
      basisStages (leftAt U s u) (rightAt U s u) (q + 1) n (pieceList U u s q) = some (pieceList U u s (q + n))
  | 0, q, _, _ => rfl
  | n + 1, q, h1, h2 => by
    simp only [basisStages]
    rw [stage_piece U u s q hsort (by omega) (by omega) hne]
    simp only [Option.bind_some]
    have := stages_piece U u s hsort hne n (q + 1) (by omega) (by omega)
    rw [this]; congr 2; omega

/-- A2.2 as coded computes, for EVERY `u`, exactly the `order` polynomial pieces of the Cox - de Boor basis functions
    that belong to span `s` (so the value at the right end of the span is the left limit of the textbook function) -/
theorem basisFuncs_eq_spanPiece (knots : List Rat) (order s : Nat) (u : Rat)
    (hsort : nondecreasing knots = true) (ho : 1 ≤ order) (hp : order - 1 ≤ s)
    (hlen : s + order ≤ knots.length) (hne : kget knots s < kget knots (s + 1)) :
    basisFuncs knots order s u
      = some ((List.range' 0 order).map (fun r => spanPiece knots u s (order - 1) (s - (order - 1) + r))) := by
  have h := stages_piece knots u s hsort hne (order - 1) 0 (by omega) (by omega)
  have e0 : pieceList knots u s 0 = [1] := by simp [pieceList, spanPiece, cdb]
  rw [e0] at h
  simp only [basisFuncs, Nat.zero_add] at h ⊢
  rw [h, pieceList]
  have : order - 1 + 1 = order := by omega
  rw [this]

private theorem coxDeBoor_eq_spanPiece (U : List Rat) (u : Rat) (s : Nat) (hsort : nondecreasing U = true)
    (hlen : s + 1 < U.length) (hlo : kget U s ≤ u) (hhi : u < kget U (s + 1)) (p i : Nat) :
    coxDeBoor U u p i = spanPiece U u s p i := by
  have hbase : (fun i => if kget U i ≤ u ∧ u < kget U (i + 1) then (1 : Rat) else 0)
      = (fun i => if i = s then (1 : Rat) else 0) := by
    funext i
    by_cases his : i = s
    · subst his; simp [hlo, hhi]
    · rw [if_neg his, if_neg]
      rintro ⟨h1, h2⟩
      rcases Nat.lt_or_gt_of_ne his with hlt | hgt
      · -- i < s : U_{i+1} ≤ U_s ≤ u
        have := nd_mono U hsort (i + 1) s (by omega) (by omega)
        linarith
      · -- s < i
        by_cases hin : i < U.length
        · have := nd_mono U hsort (s + 1) i (by omega) hin
          linarith
        · have h0 : kget U i = 0 := by
            simp [kget, List.getElem?_eq_none (not_lt.mp hin)]
          have h0' : kget U (i + 1) = 0 := by
            simp [kget, List.getElem?_eq_none (by omega : U.length ≤ i + 1)]
          rw [h0] at h1; rw [h0'] at h2; linarith
  simp only [coxDeBoor, spanPiece, hbase]

/-- … hence equals the textbook Cox - de Boor values `N_{s−p+r, p}(u)` for `u` in the half open span -/
theorem basisFuncs_eq_coxDeBoor (knots : List Rat) (order s : Nat) (u : Rat)
    (hsort : nondecreasing knots = true) (ho : 1 ≤ order) (hp : order - 1 ≤ s)
    (hlen : s + order ≤ knots.length) (hlen1 : s + 1 < knots.length)
    (hlo : kget knots s ≤ u) (hhi : u < kget knots (s + 1)) :
    basisFuncs knots order s u
      = some ((List.range' 0 order).map (fun r => coxDeBoor knots u (order - 1) (s - (order - 1) + r))) := by
  rw [basisFuncs_eq_spanPiece knots order s u hsort ho hp hlen (lt_of_le_of_lt hlo hhi)]
  congr 1
  apply List.map_congr_left
  intro r _
  rw [coxDeBoor_eq_spanPiece knots u s hsort hlen1 hlo hhi]

/-! ## 6. `Evaluator.point` (A3.1) = textbook sum over all control points -/

private theorem V3.scale_zero' (p : V3) : p.scale 0 = V3.zero := by simp [V3.scale, V3.zero]
private theorem V3.zero_add' (p : V3) : V3.zero.add p = p := by cases p; simp [V3.add, V3.zero]

private theorem curveSum_zero (f : Nat → Rat) : ∀ (l : List V3) (k : Nat), (∀ i, k ≤ i → f i = 0) → curveSum f k l = V3.zero
  | [], _, _ => rfl
  | p :: ps, k, h => by
    simp only [curveSum, h k (le_refl _), V3.scale_zero', V3.zero_add']
    exact curveSum_zero f ps (k + 1) (fun i hi => h i (by omega))

private theorem curveSum_skip (f : Nat → Rat) : ∀ (n k : Nat) (l : List V3), (∀ i, k ≤ i → i < k + n → f i = 0) →
    curveSum f k l = curveSum f (k + n) (l.drop n)
  | 0, k, l, _ => by simp
  | n + 1, k, [], _ => by simp [curveSum]
  | n + 1, k, p :: ps, h => by
    simp only [curveSum, h k (le_refl _) (by omega), V3.scale_zero', V3.zero_add', List.drop_succ_cons]
    rw [curveSum_skip f n (k + 1) ps (fun i h1 h2 => h i (by omega) (by omega))]
    congr 1; omega

private theorem curveSum_window (f : Nat → Rat) : ∀ (m k : Nat) (l : List V3), (∀ i, k + m ≤ i → f i = 0) →
    curveSum f k l = combine ((List.range' k m).map f) l
  | 0, k, l, h => by
    rw [curveSum_zero f l k (fun i hi => h i (by omega))]
    cases l <;> rfl
  | m + 1, k, [], _ => by simp [curveSum, List.range'_succ, combine]
  | m + 1, k, p :: ps, h => by
    simp only [curveSum, List.range'_succ, List.map_cons, combine]
    rw [curveSum_window f m (k + 1) ps (fun i hi => h i (by omega))]

private theorem map_shift_range' (g : Nat → Rat) (a : Nat) : ∀ (n k : Nat),
    (List.range' k n).map (fun r => g (a + r)) = (List.range' (a + k) n).map g
  | 0, _ => rfl
  | n + 1, k => by
    simp only [List.range'_succ, List.map_cons]
    rw [map_shift_range' g a n (k + 1)]
    congr 1


private theorem combine_div (s : Rat) : ∀ (l : List Rat) (pts : List V3),
    combine (l.map (· / s)) pts = (combine l pts).scale (1 / s)
  | [], _ => by simp [combine, V3.scale, V3.zero]
  | _ :: _, [] => by simp [combine, V3.scale, V3.zero]
  | n :: ns, p :: ps => by
    simp only [List.map_cons, combine, combine_div s ns ps]
    apply v3ext <;> simp only [V3.add, V3.scale] <;> ring

private theorem sum_map_div (s : Rat) (hs : s ≠ 0) : ∀ (l : List Rat), (l.map (· / s)).sum = l.sum / s
  | [] => by simp
  | n :: ns => by simp only [List.map_cons, List.sum_cons, sum_map_div s hs ns]; field_simp

/-- `span_weighting` is the rational (homogeneous) form: with `s = Σ N_i w_i ≠ 0` the weighted values sum to 1 and
    `Σ (N_i w_i / s) P_i = (Σ N_i w_i P_i) / s` -/
theorem span_weighting_rational (weights : List Rat) (order span : Nat) (N : List Rat) (pts : List V3)
    (hs : (List.zipWith (· * ·) N ((weights.drop (span + 1 - order)).take order)).sum ≠ 0) :
    let prod := List.zipWith (· * ·) N ((weights.drop (span + 1 - order)).take order)
    (spanWeighting weights order span N).sum = 1 ∧
    combine (spanWeighting weights order span N) pts = (combine prod pts).scale (1 / prod.sum) := by
  intro prod
  have hs' : prod.sum ≠ 0 := hs
  simp only [spanWeighting]
  rw [if_neg hs']
  refine ⟨?_, combine_div _ _ _⟩
  rw [sum_map_div _ hs']; exact div_self hs'


private theorem combine_affine (m : Affine) : ∀ (N : List Rat) (pts : List V3), N.length ≤ pts.length → N.sum = 1 →
    combine N (pts.map m.apply) = m.apply (combine N pts) := by
  -- generalised: Σ N_i (A p_i + b) = A Σ N_i p_i + (Σ N_i) b
  have gen : ∀ (N : List Rat) (pts : List V3), N.length ≤ pts.length →
      combine N (pts.map m.apply) =
        ⟨(combine N pts).x * m.m0 + (combine N pts).y * m.m4 + (combine N pts).z * m.m8 + N.sum * m.m12,
         (combine N pts).x * m.m1 + (combine N pts).y * m.m5 + (combine N pts).z * m.m9 + N.sum * m.m13,
         (combine N pts).x * m.m2 + (combine N pts).y * m.m6 + (combine N pts).z * m.m10 + N.sum * m.m14⟩ := by
    intro N
    induction N with
    | nil => intro pts _; cases pts <;> simp [combine, V3.zero]
    | cons n ns ih =>
      intro pts hl
      cases pts with
      | nil => simp at hl
      | cons p ps =>
        simp only [List.map_cons, combine, ih ps (by simpa using hl), List.sum_cons]
        apply v3ext <;> simp only [V3.add, V3.scale, Affine.apply] <;> ring
  intro N pts hl hsum
  rw [gen N pts hl, hsum]
  simp [Affine.apply]

private theorem evalPoint_of_span (knots : List Rat) (cps : List V3) (order : Nat) (u : Rat) (s : Nat)
    (hfs : findSpan knots order cps.length u = (s : Int))
    (hsort : nondecreasing knots = true) (ho : 1 ≤ order) (hp : order - 1 ≤ s) (hsc : s < cps.length)
    (hl : knots.length = order + cps.length) (hne : kget knots s < kget knots (s + 1)) :
    evalPoint knots [] cps order u = some (curveSum (spanPiece knots u s (order - 1)) 0 cps) := by
  have hN := basisFuncs_eq_spanPiece knots order s u hsort ho hp (by omega) hne
  simp only [evalPoint, hfs]
  show (basisFuncsW knots [] order s u).map _ = _
  simp only [basisFuncsW, hN, Option.map_some, List.isEmpty_nil, if_true, Option.some.injEq]
  have e1 : curveSum (spanPiece knots u s (order - 1)) 0 cps
      = curveSum (spanPiece knots u s (order - 1)) (0 + (s - (order - 1))) (cps.drop (s - (order - 1))) := by
    apply curveSum_skip
    intro i _ h2
    exact spanPiece_vanish _ _ _ _ _ (by omega)
  rw [e1, curveSum_window _ order]
  · rw [map_shift_range']
    have : s + 1 - order = s - (order - 1) := by omega
    rw [this, Nat.add_zero, Nat.zero_add]
  · intro i hi
    exact spanPiece_vanish _ _ _ _ _ (by omega)

/-- `Evaluator.point(u)` (find_span + A2.2 + A3.1 as coded) equals the textbook definition
    `C(u) = Σ_{i<count} N_{i,p}(u) P_i` (Cox - de Boor, sum over ALL control points) for every nondecreasing knot vector,
    every degree, every control polygon and every `u` in `[U[p], U[count])` -/
theorem evalPoint_eq_curveRef (knots : List Rat) (cps : List V3) (order : Nat) (u : Rat)
    (hsort : nondecreasing knots = true) (ho : 1 ≤ order) (hoc : order ≤ cps.length)
    (hl : knots.length = order + cps.length)
    (hlo : kget knots (order - 1) ≤ u) (hhi : u < kget knots cps.length) :
    evalPoint knots [] cps order u = some (curveRef knots cps (order - 1) u) := by
  obtain ⟨s, hfs, hs1, hs2, hs3, hs4⟩ := findSpan_spec_interior knots order cps.length u hsort ho hoc hl hlo hhi
  rw [evalPoint_of_span knots cps order u s hfs hsort ho hs1 hs2 hl (lt_of_le_of_lt hs3 hs4)]
  have hv : coxDeBoor knots u (order - 1) = spanPiece knots u s (order - 1) :=
    funext (fun i => coxDeBoor_eq_spanPiece knots u s hsort (by omega) hs3 hs4 _ i)
  rw [curveRef, hv]

/-- at (and beyond) the end of the domain the code returns the continuation of the LAST NON-EMPTY polynomial piece
    (for `u = U[count]` the left limit of the curve), for every nondecreasing knot vector with a non-degenerate
    domain; full strength since fix 8d57f80c6 -/
theorem evalPoint_domain_end (knots : List Rat) (cps : List V3) (order : Nat) (u : Rat)
    (hsort : nondecreasing knots = true) (ho : 1 ≤ order) (hoc : order ≤ cps.length)
    (hl : knots.length = order + cps.length)
    (hdom : kget knots (order - 1) < kget knots cps.length) (hu : kget knots cps.length ≤ u) :
    ∃ s : Nat, order - 1 ≤ s ∧ s < cps.length ∧ kget knots s < kget knots (s + 1) ∧
      kget knots (s + 1) = kget knots cps.length ∧
      evalPoint knots [] cps order u = some (curveSum (spanPiece knots u s (order - 1)) 0 cps) := by
  obtain ⟨s, hfs, h1, h2, h3, h4⟩ := findSpan_domain_end knots order cps.length u hsort ho hoc hl hdom hu
  exact ⟨s, h1, h2, h3, h4, evalPoint_of_span knots cps order u s hfs hsort ho h1 h2 hl h3⟩

/-- no ZeroDivisionError anywhere from the start of the domain on (closed domain end and beyond included), rational
    or not, for every nondecreasing knot vector with a non-degenerate domain -/
theorem evalPoint_total (knots weights : List Rat) (cps : List V3) (order : Nat) (u : Rat)
    (hsort : nondecreasing knots = true) (ho : 1 ≤ order) (hoc : order ≤ cps.length)
    (hl : knots.length = order + cps.length)
    (hdom : kget knots (order - 1) < kget knots cps.length)
    (hlo : kget knots (order - 1) ≤ u) :
    ∃ v, evalPoint knots weights cps order u = some v := by
  have key : ∃ s : Nat, findSpan knots order cps.length u = (s : Int) ∧ s < cps.length ∧
      kget knots s < kget knots (s + 1) := by
    rcases lt_or_ge u (kget knots cps.length) with hlt | hge
    · obtain ⟨s, hfs, _, hs2, hs3, hs4⟩ := findSpan_spec_interior knots order cps.length u hsort ho hoc hl hlo hlt
      exact ⟨s, hfs, hs2, lt_of_le_of_lt hs3 hs4⟩
    · obtain ⟨s, hfs, _, hs2, hs3, _⟩ := findSpan_domain_end knots order cps.length u hsort ho hoc hl hdom hge
      exact ⟨s, hfs, hs2, hs3⟩
  obtain ⟨s, hfs, hs2, hne⟩ := key
  obtain ⟨N, hN⟩ := basis_total knots order s u hsort (by omega) hne
  simp only [evalPoint, hfs]
  show ∃ v, (basisFuncsW knots weights order s u).map _ = some v
  simp only [basisFuncsW, hN, Option.map_some]
  exact ⟨_, rfl⟩

/-- `BSpline.transform`: evaluating the spline of the mapped control points = mapping the evaluated point, for every
    affine map (consequence of the partition of unity) -/
theorem bspline_affine (knots : List Rat) (cps : List V3) (order : Nat) (u : Rat) (m : Affine)
    (hsort : nondecreasing knots = true) (ho : 1 ≤ order) (hoc : order ≤ cps.length)
    (hl : knots.length = order + cps.length)
    (hdom : kget knots (order - 1) < kget knots cps.length)
    (hlo : kget knots (order - 1) ≤ u) (hhi : u ≤ kget knots cps.length) :
    evalPoint knots [] (cps.map m.apply) order u = (evalPoint knots [] cps order u).map m.apply := by
  obtain ⟨s, hfs, hs1, hs2, hs3, _, _⟩ := findSpan_spec knots order cps.length u hsort ho hoc hl hdom hlo hhi
  obtain ⟨N, hN⟩ := basis_total knots order s u hsort (by omega) hs3
  have hsum := basis_partition_of_unity knots order s u N hN
  have hlen := basis_length knots order s u N ho hN
  simp only [evalPoint, List.length_map, hfs]
  show (basisFuncsW knots [] order s u).map _ = ((basisFuncsW knots [] order s u).map _).map _
  simp only [basisFuncsW, hN, Option.map_some, List.isEmpty_nil, if_true, Option.some.injEq]
  rw [← List.map_drop]
  exact combine_affine m N _ (by simp only [List.length_drop]; omega) hsum

/- NOT proved (tier 2 of DESIGN.md, oracle only):

   theorem insert_knot_preserves … (h : insertKnot knots cps order t = .ok (cps', knots')) :
       ∀ u, kget knots (order-1) ≤ u → u < kget knots cps.length →
         evalPoint knots' [] cps' order u = evalPoint knots [] cps order u        -- Boehm

   and the analogous statements for knot_refinement, degree_elevation, bezier_decomposition, split
   and reverse of B-splines; derivatives (A2.3, A4.2). -/

/-! ## 7. bulge -/

/-- both chord ends lie on the circle around `bulge_center` with radius `bulge_radius`, for every bulge ≠ 0 (any sign, |b| > 1 included) -/
theorem bulge_endpoints_on_circle (sx sy ex ey b : Rat) (hb : b ≠ 0) :
    dist2 (bulgeCenter sx sy ex ey b) (sx, sy) = bulgeRadiusSq sx sy ex ey b ∧
    dist2 (bulgeCenter sx sy ex ey b) (ex, ey) = bulgeRadiusSq sx sy ex ey b := by
  constructor <;> simp only [dist2, bulgeCenter, bulgeRadiusSq] <;> field_simp <;> ring

/-- … and so does the point at sagitta `b·chord/2` to the right of the chord direction: bulge = tan(θ/4), positive = counter clockwise -/
theorem bulge_apex_on_circle (sx sy ex ey b : Rat) (hb : b ≠ 0) :
    dist2 (bulgeCenter sx sy ex ey b) (bulgeApex sx sy ex ey b) = bulgeRadiusSq sx sy ex ey b := by
  simp only [dist2, bulgeCenter, bulgeApex, bulgeRadiusSq]; field_simp; ring

/-- cross product chord × (centre − start) = (1−b²)/(4b)·|chord|²: the centre is left of the chord
    direction iff (1−b²)/b > 0 -/
theorem bulge_center_side (sx sy ex ey b : Rat) (hb : b ≠ 0) :
    (ex - sx) * ((bulgeCenter sx sy ex ey b).2 - sy) - (ey - sy) * ((bulgeCenter sx sy ex ey b).1 - sx)
      = (1 - b * b) / (4 * b) * ((ex - sx) * (ex - sx) + (ey - sy) * (ey - sy)) := by
  simp only [bulgeCenter]; field_simp; ring

/-! ## 8. tabulated constants -/

/-- the `FACTORIAL` table of acc/bspline.pyx (used by its `binomial_coefficient`, A4.2) holds 0!..18! -/
theorem factorial_table_correct :
    factorialPyx = (List.range 19).map factorial := by decide +kernel

/-- `linalg.binomial_coefficient(k, i)` (tabulated from the live function for k, i ≤ 12) is Pascal's triangle, and the
    Cython `FACTORIAL[k] / (FACTORIAL[k-i]·FACTORIAL[i])` is the same number for every order the C-extension admits -/
theorem binomial_tables_correct :
    binomialPy = (List.range 13).map (fun k => (List.range 13).map (fun i => choose k i)) ∧
    (List.range maxSplineOrder).all (fun k => (List.range (k + 1)).all (fun i =>
      factorialPyx.getD k 0 = factorialPyx.getD (k - i) 0 * factorialPyx.getD i 0 * choose k i)) = true := by
  decide +kernel


/-! ## non-vacuity: the hypotheses are met by ordinary inputs, the functions really compute -/

example : nondecreasing [0, 0, 0, 1, 2, 2, 2] = true ∧ nondecreasing [0, 1, 2, 3, 3, 4, 5] = true ∧
    nondecreasing [0, 2, 1] = false := by decide
#guard findSpan [0, 0, 0, 1, 2, 2, 2] 3 4 (3 / 2) == 3          -- binary search branch
#guard findSpan [1, 2, 3, 4, 5, 6, 7] 3 4 (7 / 2) == 2          -- linear search branch
#guard findSpan [1, 2, 3, 4, 5, 6, 7] 3 4 (1 / 2) == -1         -- quirk: below knots[0]
#guard findSpan [0, 0, 0, 0, 1, 1, 1, 1, 1] 4 5 1 == 3          -- over-clamped first half of split(1.0): span 4 is empty
#guard evalPoint [0, 1, 2, 2, 2, 3] [] [⟨0, 0, 0⟩, ⟨1, 2, 0⟩, ⟨3, 2, 0⟩] 3 2 == none
        -- the hypothesis `U[p] < U[count]` is necessary: this domain is the single point [2, 2], no span is non-empty
#guard basisFuncs [0, 0, 0, 1, 2, 2, 2] 3 3 (3 / 2) == some [1 / 8, 5 / 8, 1 / 4]
#guard evalPoint [0, 1, 2, 3, 4, 5, 6] [] [⟨0, 0, 0⟩, ⟨1, 2, 0⟩, ⟨3, 2, 0⟩, ⟨4, 0, 0⟩] 3 (5 / 2)
        == some ⟨9 / 8, 7 / 4, 0⟩
#guard curveRef [0, 1, 2, 3, 4, 5, 6] [⟨0, 0, 0⟩, ⟨1, 2, 0⟩, ⟨3, 2, 0⟩, ⟨4, 0, 0⟩] 2 (5 / 2) == ⟨9 / 8, 7 / 4, 0⟩
#guard evalPoint [0, 0, 0, 1, 1, 1] [1, 1, 2] [⟨1, 0, 0⟩, ⟨1, 1, 0⟩, ⟨0, 1, 0⟩] 3 (1 / 2)
        == some ⟨3 / 5, 4 / 5, 0⟩                               -- rational quarter circle, on the unit circle
#guard (Bez4.mk ⟨0, 0, 0⟩ ⟨1, 2, 0⟩ ⟨3, 2, 0⟩ ⟨4, 0, 0⟩).point (1 / 2) == ⟨2, 3 / 2, 0⟩
#guard bulgeCenter 0 0 2 0 1 == (1, 0) && bulgeRadiusSq 0 0 2 0 1 == 1 && bulgeApex 0 0 2 0 1 == (1, -1)
#guard (insertKnot [0, 0, 0, 1, 2, 2, 2] [⟨0, 0, 0⟩, ⟨1, 2, 0⟩, ⟨3, 2, 0⟩, ⟨4, 0, 0⟩] 3 (1 / 2)).toOption.isSome

end EzdxfVerif.Props.C13

/-
C09  Text survives every supported encoding.
Only property theorems and non-vacuity examples live here (helper lemmas are `private`; the vocabulary of the
statements - `Lawful`, `escStr`, `containsEsc`, `fixedFmt`, ... - is defined in Model/Encoding.lean); every
`theorem` of this file is an obligation counted by ./check C09.

Reading guide
  * `escape_roundtrip`, `recover_roundtrip`: for ANY codec satisfying the recorded laws `Lawful` (a structure
    parameter, not an axiom) and the handler format after fix C09-1 (`fixedFmt`): every BMP string without
    U+DC80..DCFF and without a literal `\U+XXXX` escape is written, and both readers give it back.  The handler format of
    the *current source* is tabulated into Gen (`handlerFmt`); `source_format_fixed` proves it equals `fixedFmt`
    (=> `escape_roundtrip_source`); for the pre-fix `legacyFmt` the theorems `legacy_*_not_decoded` keep the two
    defects F1/F2 (fixed by /repo commit 2e4902f68) on record.
  * `ascii_lawful`, `utf8_lawful`, `sbcs_tables_lawful`: the laws are *proved* for ASCII, UTF-8 and the ten
    single-byte code pages (tables regenerated from CPython's codecs) => `escape_roundtrip_single_byte_pages`,
    `utf8_identity` are unconditional.  For cp932/gbk/cp949/cp950 the laws stay hypotheses (validated
    exhaustively over the BMP by regenerate, `lf_free` proves the byte-set part from the tabulated sets).
-/
import EzdxfVerif.Model.Encoding
import EzdxfVerif.Model.EncodingExt
import EzdxfVerif.Gen.EncodingTables
import EzdxfVerif.Gen.CjkTables
import EzdxfVerif.Lemmas.EncodingCjk
import EzdxfVerif.Props.C03

namespace EzdxfVerif.Props.C09
open EzdxfVerif.Encoding
open EzdxfVerif.Gen.EncodingTables
open EzdxfVerif.Gen.CjkTables

/-! hex digits -/
private theorem hexDigit_range (d : Nat) (hd : d < 16) :
    (48 ≤ hexDigit true d ∧ hexDigit true d ≤ 57) ∨ (65 ≤ hexDigit true d ∧ hexDigit true d ≤ 70) := by
  unfold hexDigit; split <;> simp <;> omega

private theorem upperHex_of_range {x : Nat} (h : (48 ≤ x ∧ x ≤ 57) ∨ (65 ≤ x ∧ x ≤ 70)) : isUpperHex x = true := by
  simp [isUpperHex, h]

private theorem upperHexVal_hexDigit (d : Nat) (hd : d < 16) : upperHexVal (hexDigit true d) = d := by
  unfold upperHexVal hexDigit
  by_cases h : d < 10
  · have : 48 + d ≤ 57 := by omega
    simp [h, this]
  · have : ¬ (55 + d ≤ 57) := by omega
    simp [h, this]

/-- value of 4 fixed hex digits -/
private theorem hexFixed4 (x : Nat) :
    hexFixed true 4 x = [hexDigit true (x / 4096 % 16), hexDigit true (x / 256 % 16),
      hexDigit true (x / 16 % 16), hexDigit true (x % 16)] := by
  simp [hexFixed, Nat.div_div_eq_div_mul]

private theorem matchAt_esc (x : Nat) (r : Str) : matchAt (escPrefix ++ hexFixed true 4 x ++ r) = some r := by
  have u1 := upperHex_of_range (hexDigit_range (x / 4096 % 16) (Nat.mod_lt _ (by decide)))
  have u2 := upperHex_of_range (hexDigit_range (x / 256 % 16) (Nat.mod_lt _ (by decide)))
  have u3 := upperHex_of_range (hexDigit_range (x / 16 % 16) (Nat.mod_lt _ (by decide)))
  have u4 := upperHex_of_range (hexDigit_range (x % 16) (Nat.mod_lt _ (by decide)))
  simp [hexFixed4, escPrefix, matchAt, u1, u2, u3, u4]

private theorem decodePart_esc (x : Nat) (hx : x ≤ 0xFFFF) :
    decodePart (escPrefix ++ hexFixed true 4 x) = [x] := by
  have hm := matchAt_esc x []
  simp only [List.append_nil] at hm
  have hv : ((x / 4096 % 16) * 16 + x / 256 % 16) * 16 + x / 16 % 16 = x / 16 := by omega
  have hv2 : x / 16 * 16 + x % 16 = x := by omega
  unfold decodePart
  rw [hm]
  simp only [hexFixed4, escPrefix, List.cons_append, List.nil_append]
  rw [upperHexVal_hexDigit _ (Nat.mod_lt _ (by decide)), upperHexVal_hexDigit _ (Nat.mod_lt _ (by decide)),
    upperHexVal_hexDigit _ (Nat.mod_lt _ (by decide)), upperHexVal_hexDigit _ (Nat.mod_lt _ (by decide)), hv, hv2]

private theorem reSplit_nil (lit : Str) : reSplit lit [] = [lit] := by
  rw [reSplit]

private theorem reSplit_nomatch (lit : Str) (x : Nat) (r : Str) (h : matchAt (x :: r) = none) :
    reSplit lit (x :: r) = reSplit (lit ++ [x]) r := by
  rw [reSplit]
  split
  · rename_i rest h'; rw [h] at h'; cases h'
  · rfl

private theorem reSplit_match (lit : Str) (x : Nat) (r rest : Str) (h : matchAt (x :: r) = some rest) :
    reSplit lit (x :: r) = lit :: (x :: r).take 7 :: reSplit [] rest := by
  rw [reSplit]
  split
  · rename_i rest' h'; rw [h] at h'; cases h'; rfl
  · rename_i h'; rw [h] at h'; cases h'

/-! strings without a match of `\U+[A-F0-9]{4}` -/

/-- shape of a match -/
private theorem matchAt_some (s rest : Str) (h : matchAt s = some rest) :
    ∃ a b c d, s = 92 :: 85 :: 43 :: a :: b :: c :: d :: rest ∧ isUpperHex a = true ∧ isUpperHex b = true
      ∧ isUpperHex c = true ∧ isUpperHex d = true := by
  match s, h with
  | [], h | [_], h | [_, _], h | [_, _, _], h | [_, _, _, _], h | [_, _, _, _, _], h | [_, _, _, _, _, _], h =>
    simp [matchAt] at h
  | p :: u :: q :: a :: b :: c :: d :: t, h =>
    simp only [matchAt] at h
    split at h
    · rename_i hc
      cases h
      obtain ⟨h1, h2, h3, h4, h5, h6, h7⟩ := hc
      exact ⟨a, b, c, d, by rw [h1, h2, h3], h4, h5, h6, h7⟩
    · cases h

private theorem matchAt_mk (a b c d : Nat) (rest : Str) (ha : isUpperHex a = true) (hb : isUpperHex b = true)
    (hc : isUpperHex c = true) (hd : isUpperHex d = true) :
    matchAt (92 :: 85 :: 43 :: a :: b :: c :: d :: rest) = some rest := by
  simp [matchAt, ha, hb, hc, hd]

private theorem hasDxf_mid (a s rest : Str) (h : matchAt s = some rest) : hasDxfUnicode (a ++ s) = true := by
  obtain ⟨p, q, r, t, hs, _⟩ := matchAt_some s rest h
  induction a with
  | nil => subst hs; simp [hasDxfUnicode, h]
  | cons x a ih => simp [hasDxfUnicode, ih]

private theorem hasDxf_append (a b : Str) (h : hasDxfUnicode (a ++ b) = false) :
    hasDxfUnicode a = false ∧ hasDxfUnicode b = false := by
  induction a with
  | nil => simpa [hasDxfUnicode] using h
  | cons x a ih =>
    simp only [List.cons_append, hasDxfUnicode, Bool.or_eq_false_iff] at h ⊢
    obtain ⟨h1, h2⟩ := h
    have := ih h2
    refine ⟨⟨?_, this.1⟩, this.2⟩
    cases hm : matchAt (x :: a) with
    | none => rfl
    | some rest =>
      exfalso
      obtain ⟨p, q, r, t, hs, hp, hq, hr, ht⟩ := matchAt_some _ rest hm
      have : matchAt (x :: (a ++ b)) = some (rest ++ b) := by
        have e : x :: (a ++ b) = (x :: a) ++ b := rfl
        rw [e, hs]
        exact matchAt_mk p q r t (rest ++ b) hp hq hr ht
      rw [this] at h1
      simp at h1

private theorem matchAt_none_of (s : Str) (h : hasDxfUnicode s = false) : matchAt s = none := by
  cases s with
  | nil => simp [matchAt]
  | cons x r =>
    simp only [hasDxfUnicode, Bool.or_eq_false_iff] at h
    cases hm : matchAt (x :: r) with
    | none => rfl
    | some _ => rw [hm] at h; simp at h

private theorem decodePart_lit (t : Str) (h : hasDxfUnicode t = false) : decodePart t = t := by
  unfold decodePart
  rw [matchAt_none_of t h]

private theorem hasDxf_tail (x : Nat) (r : Str) (h : hasDxfUnicode (x :: r) = false) : hasDxfUnicode r = false := by
  simp only [hasDxfUnicode, Bool.or_eq_false_iff] at h
  exact h.2

private theorem escStr_nil (c : Codec) : escStr c [] = [] := rfl

private theorem escStr_cons (c : Codec) (x : Nat) (r : Str) : escStr c (x :: r) = escChar c x ++ escStr c r := by
  simp [escStr, List.flatMap_cons]

private theorem escStr_head (c : Codec) (r : Str) (h : Nat) (t : Str) (he : escStr c r = h :: t) (hn : h ≠ 92) :
    ∃ r', r = h :: r' ∧ t = escStr c r' := by
  cases r with
  | nil => simp [escStr] at he
  | cons y r' =>
    rw [escStr_cons] at he
    unfold escChar at he
    split at he
    · simp at he; exact ⟨r', by rw [he.1], he.2.symm⟩
    · simp [escPrefix] at he; omega

private theorem hex_ne_92 {x : Nat} (h : isUpperHex x = true) : x ≠ 92 := by
  simp [isUpperHex] at h; omega

/-- a match that starts at a literal character of the written text is a match of the source string -/
private theorem matchAt_lit (c : Codec) (x : Nat) (r rest : Str) (h : matchAt (x :: escStr c r) = some rest) :
    ∃ rest', matchAt (x :: r) = some rest' := by
  obtain ⟨p, q, a, b, hs, hp, hq, ha, hb⟩ := matchAt_some _ rest h
  simp only [List.cons.injEq] at hs
  obtain ⟨hx, he⟩ := hs
  obtain ⟨r1, hr1, ht1⟩ := escStr_head c r 85 _ he (by omega)
  obtain ⟨r2, hr2, ht2⟩ := escStr_head c r1 43 _ ht1.symm (by omega)
  obtain ⟨r3, hr3, ht3⟩ := escStr_head c r2 p _ ht2.symm (hex_ne_92 hp)
  obtain ⟨r4, hr4, ht4⟩ := escStr_head c r3 q _ ht3.symm (hex_ne_92 hq)
  obtain ⟨r5, hr5, ht5⟩ := escStr_head c r4 a _ ht4.symm (hex_ne_92 ha)
  obtain ⟨r6, hr6, _⟩ := escStr_head c r5 b _ ht5.symm (hex_ne_92 hb)
  refine ⟨r6, ?_⟩
  rw [hx, hr1, hr2, hr3, hr4, hr5, hr6]
  exact matchAt_mk p q a b r6 hp hq ha hb

private theorem matchAt_lit_none (c : Codec) (x : Nat) (r : Str) (h : hasDxfUnicode (x :: r) = false) :
    matchAt (x :: escStr c r) = none := by
  cases hm : matchAt (x :: escStr c r) with
  | none => rfl
  | some rest =>
    exfalso
    obtain ⟨rest', h'⟩ := matchAt_lit c x r rest hm
    have := hasDxf_mid [] (x :: r) rest' h'
    simp only [List.nil_append] at this
    rw [this] at h; cases h

private theorem unescape_aux (c : Codec) (s : Str) : ∀ lit : Str, hasDxfUnicode (lit ++ s) = false →
    (∀ x ∈ s, x ≤ 0xFFFF) → (reSplit lit (escStr c s)).flatMap decodePart = lit ++ s := by
  induction s with
  | nil =>
    intro lit h _
    simp only [List.append_nil] at h
    simp [escStr_nil, reSplit_nil, decodePart_lit lit h]
  | cons x r ih =>
    intro lit h hb
    have hx : x ≤ 0xFFFF := hb x (by simp)
    have hb' : ∀ y ∈ r, y ≤ 0xFFFF := fun y hy => hb y (by simp [hy])
    have hl := hasDxf_append lit (x :: r) h
    rw [escStr_cons]
    unfold escChar
    split
    · -- encodable: a literal character, no match can start here
      simp only [List.singleton_append]
      rw [reSplit_nomatch _ _ _ (matchAt_lit_none c x r hl.2)]
      have := ih (lit ++ [x]) (by simpa using h) hb'
      simpa using this
    · -- not encodable: the escape is matched and decoded
      have hm := matchAt_esc x (escStr c r)
      have hcons : escPrefix ++ hexFixed true 4 x ++ escStr c r
          = 92 :: (85 :: 43 :: hexFixed true 4 x ++ escStr c r) := by simp [escPrefix]
      rw [hcons] at hm ⊢
      rw [reSplit_match _ _ _ _ hm]
      have htake : (92 :: (85 :: 43 :: hexFixed true 4 x ++ escStr c r)).take 7 = escPrefix ++ hexFixed true 4 x := by
        simp [hexFixed4, escPrefix]
      rw [htake]
      have hr : hasDxfUnicode ([] ++ r) = false := by simpa using hasDxf_tail x r hl.2
      simp [decodePart_lit lit hl.1, decodePart_esc x hx, ih [] hr hb']

private theorem find_fixed (x : Nat) (hx : x ≤ 0xFFFF) (hs : isEscSurrogate x = false) :
    fixedFmt.find x = some (.esc escPrefix 4 true) := by
  simp only [isEscSurrogate, decide_eq_false_iff_not] at hs
  by_cases h1 : x ≤ 0xDC7F
  · simp [Fmt.find, fixedFmt, h1]
  · have h2 : ¬ (0xDC80 ≤ x ∧ x ≤ 0xDCFF) := hs
    have h3 : 0xDD00 ≤ x := by omega
    have h5 : (decide (56448 ≤ x) && decide (x ≤ 56575)) = false := by simp; omega
    simp [Fmt.find, fixedFmt, List.find?, h1, h5, h3, hx]

private theorem pyHex4 (x : Nat) (hx : x ≤ 0xFFFF) : pyHex true 4 x = hexFixed true 4 x := by
  unfold pyHex hexLen
  have : x.log2 / 4 + 1 ≤ 4 := by
    by_cases h0 : x = 0
    · subst h0; simp [Nat.log2_zero]
    · have : x.log2 < 16 := (Nat.log2_lt h0).mpr (by omega)
      omega
  rw [Nat.max_eq_left this]


private theorem handlerLoop_fixed (run : Str) : ∀ (r acc : Str),
    (∀ x ∈ r, x ≤ 0xFFFF ∧ isEscSurrogate x = false) →
    handlerLoop fixedFmt run acc r = .ok (.str (acc ++ r.flatMap esc4)) := by
  intro r
  induction r with
  | nil => intro acc _; simp [handlerLoop]
  | cons x r ih =>
    intro acc h
    have hx := h x (by simp)
    simp only [handlerLoop, find_fixed x hx.1 hx.2, pyHex4 x hx.1]
    rw [ih _ (fun y hy => h y (by simp [hy]))]
    simp [esc4, List.flatMap_cons]

private theorem esc4_printable (x : Nat) : ∀ y ∈ esc4 x, 32 ≤ y ∧ y ≤ 126 := by
  intro y hy
  simp only [esc4, hexFixed4, escPrefix, List.cons_append, List.nil_append, List.mem_cons, List.not_mem_nil, or_false] at hy
  have r1 := hexDigit_range (x / 4096 % 16) (Nat.mod_lt _ (by decide))
  have r2 := hexDigit_range (x / 256 % 16) (Nat.mod_lt _ (by decide))
  have r3 := hexDigit_range (x / 16 % 16) (Nat.mod_lt _ (by decide))
  have r4 := hexDigit_range (x % 16) (Nat.mod_lt _ (by decide))
  rcases hy with h | h | h | h | h | h | h <;> omega

private theorem encStrict_ascii (c : Codec) (good : Nat → Prop) (L : Lawful c good) (t : Str)
    (h : ∀ y ∈ t, 32 ≤ y ∧ y ≤ 126) : encStrict c t = .ok t := by
  induction t with
  | nil => rfl
  | cons y t ih =>
    have hy := h y (by simp)
    simp [encStrict, (L.ascii y hy.1 hy.2).2, ih (fun z hz => h z (by simp [hz])), Except.map]

private theorem encAll_append (c : Codec) (a b : Str) : encAll c (a ++ b) = encAll c a ++ encAll c b := by
  simp [encAll, List.flatMap_append]

private theorem encAll_ascii (c : Codec) (good : Nat → Prop) (L : Lawful c good) (t : Str)
    (h : ∀ y ∈ t, 32 ≤ y ∧ y ≤ 126) : encAll c t = t := by
  induction t with
  | nil => rfl
  | cons y t ih =>
    have hy := h y (by simp)
    have : encAll c (y :: t) = encAll c [y] ++ encAll c t := encAll_append c [y] t
    rw [this, ih (fun z hz => h z (by simp [hz]))]
    simp [encAll, (L.ascii y hy.1 hy.2).2]

private theorem escStr_bad (c : Codec) (run : Str) (h : ∀ x ∈ run, c.enc x = none) : escStr c run = run.flatMap esc4 := by
  induction run with
  | nil => rfl
  | cons x r ih =>
    rw [escStr_cons, ih (fun y hy => h y (by simp [hy]))]
    simp [escChar, h x (by simp), esc4, List.flatMap_cons]

private theorem flatMap_esc4_printable (run : Str) : ∀ y ∈ run.flatMap esc4, 32 ≤ y ∧ y ≤ 126 := by
  intro y hy
  simp only [List.mem_flatMap] at hy
  obtain ⟨x, _, hx⟩ := hy
  exact esc4_printable x y hx

private theorem flush_fixed (c : Codec) (good : Nat → Prop) (L : Lawful c good) (run : Str)
    (hbad : ∀ x ∈ run, c.enc x = none) (hr : ∀ x ∈ run, x ≤ 0xFFFF ∧ isEscSurrogate x = false) :
    flush c fixedFmt run = .ok (encAll c (escStr c run)) := by
  unfold flush
  cases run with
  | nil => rfl
  | cons x r =>
    simp only [List.isEmpty_cons, Bool.false_eq_true, if_false, handler]
    rw [handlerLoop_fixed (x :: r) (x :: r) [] hr]
    simp only [List.nil_append]
    rw [encStrict_ascii c good L _ (flatMap_esc4_printable _), escStr_bad c _ hbad,
      encAll_ascii c good L _ (flatMap_esc4_printable _)]

private theorem escStr_append (c : Codec) (a b : Str) : escStr c (a ++ b) = escStr c a ++ escStr c b := by
  simp [escStr, List.flatMap_append]

private theorem encodeAux_fixed (c : Codec) (good : Nat → Prop) (L : Lawful c good) (s : Str) :
    ∀ run : Str, (∀ x ∈ run, c.enc x = none) → (c.grouped = false → run = []) →
    (∀ x ∈ run ++ s, x ≤ 0xFFFF ∧ isEscSurrogate x = false) →
    encodeAux c fixedFmt run s = .ok (encAll c (escStr c (run ++ s))) := by
  induction s with
  | nil =>
    intro run hbad _ hr
    simp only [encodeAux, List.append_nil] at hr ⊢
    exact flush_fixed c good L run hbad hr
  | cons x r ih =>
    intro run hbad hg hr
    have hrun : ∀ y ∈ run, y ≤ 0xFFFF ∧ isEscSurrogate y = false := fun y hy => hr y (by simp [hy])
    have hrr : ∀ y ∈ [] ++ r, y ≤ 0xFFFF ∧ isEscSurrogate y = false := fun y hy => hr y (by simp at hy; simp [hy])
    unfold encodeAux
    cases hx : c.enc x with
    | some b =>
      simp only
      rw [flush_fixed c good L run hbad hrun, ih [] (by simp) (by simp) hrr]
      simp only [Except.map, List.nil_append]
      rw [escStr_append, escStr_cons, encAll_append, encAll_append]
      simp [escChar, hx, encAll]
    | none =>
      simp only
      cases hgr : c.grouped with
      | true =>
        simp only [if_true]
        have := ih (run ++ [x]) (by intro y hy; simp at hy; rcases hy with hy | hy; exact hbad y hy; rw [hy]; exact hx)
          (by simp [hgr]) (by simpa using hr)
        simpa using this
      | false =>
        have hrun0 : run = [] := hg hgr
        subst hrun0
        simp only [Bool.false_eq_true, if_false]
        have hx1 : ∀ y ∈ [x], c.enc y = none := by simp [hx]
        have hx2 : ∀ y ∈ [x], y ≤ 0xFFFF ∧ isEscSurrogate y = false := by
          intro y hy; simp at hy; rw [hy]; exact hr x (by simp)
        rw [flush_fixed c good L [x] hx1 hx2, ih [] (by simp) (by simp) hrr]
        simp only [Except.map, List.nil_append]
        rw [show x :: r = [x] ++ r from rfl, escStr_append, encAll_append]


theorem encode_eq_escStr (c : Codec) (good : Nat → Prop) (L : Lawful c good) (s : Str)
    (hs : ∀ x ∈ s, x ≤ 0xFFFF ∧ isEscSurrogate x = false) :
    encode c fixedFmt s = .ok (encAll c (escStr c s)) := by
  have := encodeAux_fixed c good L s [] (by simp) (by simp) (by simpa using hs)
  simpa [encode] using this

theorem unescape_escStr (c : Codec) (s : Str) (hn : hasDxfUnicode s = false)
    (hb : ∀ x ∈ s, x ≤ 0xFFFF) : decodeDxfUnicode (escStr c s) = s := by
  have := unescape_aux c s [] (by simpa using hn) hb
  simpa [decodeDxfUnicode] using this

private theorem escStr_good (c : Codec) (good : Nat → Prop) (L : Lawful c good) (s : Str)
    (hg : ∀ x ∈ s, (c.enc x).isSome → good x) : ∀ y ∈ escStr c s, good y := by
  intro y hy
  simp only [escStr, List.mem_flatMap] at hy
  obtain ⟨x, hx, hyx⟩ := hy
  unfold escChar at hyx
  split at hyx
  · rename_i h; simp at hyx; rw [hyx]; exact hg x hx h
  · have := esc4_printable x y hyx
    exact (L.ascii y this.1 this.2).1

theorem escape_roundtrip (c : Codec) (good : Nat → Prop) (L : Lawful c good) (s : Str)
    (hs : ∀ x ∈ s, x ≤ 0xFFFF ∧ isEscSurrogate x = false ∧ ((c.enc x).isSome → good x))
    (hn : hasDxfUnicode s = false) :
    ∃ b, encode c fixedFmt s = .ok b ∧ decodeDxfUnicode (c.dec b) = s := by
  refine ⟨encAll c (escStr c s), encode_eq_escStr c good L s (fun x hx => ⟨(hs x hx).1, (hs x hx).2.1⟩), ?_⟩
  rw [L.dec_enc _ (escStr_good c good L s (fun x hx => (hs x hx).2.2))]
  exact unescape_escStr c s hn (fun x hx => (hs x hx).1)

theorem hasDxfUnicode_escStr (c : Codec) (s : Str) (hn : hasDxfUnicode s = false) :
    hasDxfUnicode (escStr c s) = s.any (fun x => (c.enc x).isNone) := by
  induction s with
  | nil => rfl
  | cons x r ih =>
    have ih' := ih (hasDxf_tail x r hn)
    rw [escStr_cons]
    unfold escChar
    cases hx : c.enc x with
    | some b =>
      simp only [Option.isSome_some, if_true, List.singleton_append, hasDxfUnicode, matchAt_lit_none c x r hn, ih']
      simp [hx]
    | none =>
      have hm := matchAt_esc x (escStr c r)
      have hcons : escPrefix ++ hexFixed true 4 x ++ escStr c r
          = 92 :: (85 :: 43 :: hexFixed true 4 x ++ escStr c r) := by simp [escPrefix]
      rw [hcons] at hm
      simp only [Option.isSome_none, Bool.false_eq_true, if_false, hcons, hasDxfUnicode, hm]
      simp [hx]

private theorem escStr_all_encodable (c : Codec) (s : Str) (h : ∀ x ∈ s, (c.enc x).isSome) : escStr c s = s := by
  induction s with
  | nil => rfl
  | cons x r ih =>
    rw [escStr_cons, ih (fun y hy => h y (by simp [hy]))]
    simp [escChar, h x (by simp)]

private theorem containsEsc_mid (a r : Str) : containsEsc (a ++ 92 :: 85 :: 43 :: r) = true := by
  induction a with
  | nil => simp [containsEsc, escPrefix, List.isPrefixOf]
  | cons x a ih => simp [containsEsc, ih]

/-- a string that does not contain the text `\U+` at all has no match (the hypothesis of the round trip
    theorems, `hasDxfUnicode s = false`, is weaker: `\U+` may occur as long as no four upper case hex digits follow) -/
theorem no_escape_prefix_no_match (s : Str) (hn : containsEsc s = false) : hasDxfUnicode s = false := by
  cases h : hasDxfUnicode s with
  | false => rfl
  | true =>
    exfalso
    -- some suffix matches, so `\U+` occurs
    have key : ∀ t : Str, hasDxfUnicode t = true → ∃ a r, t = a ++ 92 :: 85 :: 43 :: r := by
      intro t
      induction t with
      | nil => intro ht; simp [hasDxfUnicode] at ht
      | cons x r ih =>
        intro ht
        simp only [hasDxfUnicode, Bool.or_eq_true] at ht
        rcases ht with ht | ht
        · cases hm : matchAt (x :: r) with
          | none => rw [hm] at ht; simp at ht
          | some rest =>
            obtain ⟨a, b, c, d, hs, _⟩ := matchAt_some _ rest hm
            exact ⟨[], a :: b :: c :: d :: rest, by simpa using hs⟩
        · obtain ⟨a, r', hr⟩ := ih ht
          exact ⟨x :: a, r', by rw [hr]; rfl⟩
    obtain ⟨a, r, hs⟩ := key s h
    rw [hs, containsEsc_mid] at hn
    cases hn

/-- the recover loader decodes the written text back to the original string -/
theorem recover_roundtrip (c : Codec) (good : Nat → Prop) (L : Lawful c good) (s : Str)
    (hs : ∀ x ∈ s, x ≤ 0xFFFF ∧ isEscSurrogate x = false ∧ ((c.enc x).isSome → good x))
    (hn : hasDxfUnicode s = false) (hm : hasMif s = false) :
    ∃ b, encode c fixedFmt s = .ok b ∧ recoverStr (c.dec b) = .text s := by
  refine ⟨encAll c (escStr c s), encode_eq_escStr c good L s (fun x hx => ⟨(hs x hx).1, (hs x hx).2.1⟩), ?_⟩
  rw [L.dec_enc _ (escStr_good c good L s (fun x hx => (hs x hx).2.2))]
  unfold recoverStr
  rw [hasDxfUnicode_escStr c s hn]
  cases ha : s.any (fun x => (c.enc x).isNone) with
  | true =>
    simp only [if_true]
    rw [unescape_escStr c s hn (fun x hx => (hs x hx).1)]
  | false =>
    have hall : ∀ x ∈ s, (c.enc x).isSome := by
      intro x hx
      have := List.any_eq_false.mp ha x hx
      cases h : c.enc x <;> simp [h] at this ⊢
    rw [escStr_all_encodable c s hall]
    simp [hm]

theorem encode_clean (c : Codec) (good : Nat → Prop) (L : Lawful c good) (s : Str)
    (hs : ∀ x ∈ s, x ≤ 0xFFFF ∧ isEscSurrogate x = false) (hc : ∀ x ∈ s, x ≠ 0 ∧ x ≠ 10 ∧ x ≠ 13) :
    ∃ b, encode c fixedFmt s = .ok b ∧ ∀ y ∈ b, y ≠ 0 ∧ y ≠ 10 ∧ y ≠ 13 := by
  refine ⟨_, encode_eq_escStr c good L s hs, ?_⟩
  intro y hy
  simp only [encAll, List.mem_flatMap] at hy
  obtain ⟨x, hx, hyx⟩ := hy
  cases hex : c.enc x with
  | none => simp [hex] at hyx
  | some bx =>
    simp only [hex, Option.getD_some] at hyx
    by_cases hbad : y = 0 ∨ y = 10 ∨ y = 13
    · exfalso
      have hxy := L.clean x bx hex y hyx hbad
      simp only [escStr, List.mem_flatMap] at hx
      obtain ⟨z, hz, hxz⟩ := hx
      unfold escChar at hxz
      split at hxz
      · simp at hxz
        have := hc z hz
        omega
      · have := esc4_printable z x hxz
        omega
    · omega

theorem encode_all_encodable (c : Codec) (f : Fmt) (s : Str) (h : ∀ x ∈ s, (c.enc x).isSome) :
    encode c f s = .ok (encAll c s) := by
  unfold encode
  induction s with
  | nil => rfl
  | cons x r ih =>
    have hx := h x (by simp)
    cases hex : c.enc x with
    | none => simp [hex] at hx
    | some b =>
      simp only [encodeAux, hex, flush, List.isEmpty_nil, if_true, ih (fun y hy => h y (by simp [hy])), Except.map]
      simp [encAll, List.flatMap_cons, hex]


/-! concrete codecs are lawful -/

theorem ascii_lawful : Lawful asciiCodec (fun x => x < 128) where
  enc_some := by intro x hx; simp [asciiCodec, hx]
  dec_enc := by
    intro s hs
    induction s with
    | nil => rfl
    | cons x r ih =>
      have hx : x < 128 := hs x (by simp)
      have := ih (fun y hy => hs y (by simp [hy]))
      simp only [encAll, asciiCodec, List.flatMap_cons, hx, if_true, Option.getD_some, List.singleton_append,
        List.map_cons] at this ⊢
      rw [this]
  ascii := by intro x h1 h2; have : x < 128 := by omega
              simp [asciiCodec, this]
  clean := by
    intro x b hb y hy _
    simp only [asciiCodec] at hb
    split at hb
    · cases hb; simp at hy; exact hy.symm
    · cases hb

private theorem idxOf_spec (x : Nat) (t : List Nat) (i : Nat) (h : idxOf x t = some i) : t[i]? = some x := by
  induction t generalizing i with
  | nil => simp [idxOf] at h
  | cons y r ih =>
    unfold idxOf at h
    split at h
    · rename_i hy; cases h; simp [hy]
    · cases hr : idxOf x r with
      | none => simp [hr] at h
      | some j => simp [hr] at h; subst h; simp [ih j hr]

private theorem idxOf_mem (x : Nat) (t : List Nat) (h : x ∈ t) : (idxOf x t).isSome := by
  induction t with
  | nil => cases h
  | cons y r ih =>
    unfold idxOf
    split
    · rfl
    · rename_i hy
      have : x ∈ r := by
        cases h with
        | head => exact absurd rfl hy
        | tail _ h' => exact h'
      have := ih this
      cases hr : idxOf x r <;> simp [hr] at this ⊢

/-- in a table with `t[j] = j` for `j < 128`, the first position of an ASCII value is the value -/
private theorem idxOf_ascii (t : List Nat) (hid : ∀ j, j < 128 → t[j]? = some j) (x : Nat) (hx : x < 128) :
    idxOf x t = some x := by
  -- generalise: idxOf x (t.drop k) = some (x - k) for k ≤ x
  have key : ∀ n k, k + n = x → idxOf x (t.drop k) = some n := by
    intro n
    induction n with
    | zero =>
      intro k hk
      have hk' : k = x := by omega
      subst hk'
      have := hid k hx
      have hlt : k < t.length := by
        rcases Nat.lt_or_ge k t.length with h | h
        · exact h
        · rw [List.getElem?_eq_none h] at this; cases this
      rw [List.drop_eq_getElem_cons hlt]
      have hv : t[k] = k := by
        rw [List.getElem?_eq_getElem hlt] at this; exact Option.some.inj this
      simp [idxOf, hv]
    | succ n ih =>
      intro k hk
      have hkx : k < 128 := by omega
      have := hid k hkx
      have hlt : k < t.length := by
        rcases Nat.lt_or_ge k t.length with h | h
        · exact h
        · rw [List.getElem?_eq_none h] at this; cases this
      rw [List.drop_eq_getElem_cons hlt]
      have hv : t[k] = k := by
        rw [List.getElem?_eq_getElem hlt] at this; exact Option.some.inj this
      have hne : ¬ (t[k] = x) := by omega
      simp [idxOf, hne, ih (k + 1) (by omega)]
  simpa using key x 0 (by omega)

private theorem sbcsTableOk_ascii (t : List Nat) (h : sbcsTableOk t = true) : ∀ j, j < 128 → t[j]? = some j := by
  intro j hj
  have h' : t.take 128 = List.range 128 := by simpa [sbcsTableOk] using h
  have h1 : (t.take 128)[j]? = t[j]? := by simp [hj]
  rw [← h1, h']
  simp [hj]

theorem sbcs_lawful (t : List Nat) (h : sbcsTableOk t = true) :
    Lawful (sbcsCodec t) (fun x => x ∈ t ∧ x ≠ undef) where
  enc_some := by
    intro x hx
    have := idxOf_mem x t hx.1
    cases hi : idxOf x t <;> simp [hi] at this
    simp [sbcsCodec, hx.2, hi]
  dec_enc := by
    intro s hs
    induction s with
    | nil => rfl
    | cons x r ih =>
      have hx := hs x (by simp)
      have ih' := ih (fun y hy => hs y (by simp [hy]))
      have hsome := idxOf_mem x t hx.1
      cases hi : idxOf x t with
      | none => simp [hi] at hsome
      | some i =>
        have hget := idxOf_spec x t i hi
        simp only [encAll, sbcsCodec, List.flatMap_cons, hx.2, if_false, hi, Option.map_some, Option.getD_some,
          List.singleton_append, List.map_cons, hget] at ih' ⊢
        rw [ih']
  ascii := by
    intro x h1 h2
    have hx : x < 128 := by omega
    have hid := sbcsTableOk_ascii t h
    have hget := hid x hx
    have hmem : x ∈ t := List.mem_of_getElem? hget
    have hne : x ≠ undef := by unfold undef; omega
    exact ⟨⟨hmem, hne⟩, by simp [sbcsCodec, hne, idxOf_ascii t hid x hx]⟩
  clean := by
    intro x b hb y hy hy3
    simp only [sbcsCodec] at hb
    split at hb
    · cases hb
    · cases hi : idxOf x t with
      | none => simp [hi] at hb
      | some i =>
        simp [hi] at hb
        subst hb
        simp at hy
        subst hy
        have hget := idxOf_spec x t y hi
        have := sbcsTableOk_ascii t h y (by omega)
        rw [this] at hget
        exact (Option.some.inj hget).symm


/-! UTF-8 -/


private theorem utf8Dec_nil : utf8Dec [] = [] := by rw [utf8Dec]

private theorem utf8Dec_ascii (b : Nat) (r : Bytes) (h : b < 0x80) : utf8Dec (b :: r) = b :: utf8Dec r := by
  rw [utf8Dec]; simp [h]

private theorem utf8Dec_step (b0 : Nat) (r : Bytes) (cp n : Nat) (h : ¬ b0 < 0x80) (hs : utf8Step b0 r = some (cp, n)) :
    utf8Dec (b0 :: r) = cp :: utf8Dec (r.drop n) := by
  rw [utf8Dec]; simp [h, hs]

private theorem utf8Dec_enc (x : Nat) (hx : scalar x) (rest : Bytes) :
    utf8Dec ((utf8Enc x).getD [] ++ rest) = x :: utf8Dec rest := by
  obtain ⟨h1, h2⟩ := hx
  unfold utf8Enc
  by_cases c1 : x < 0x80
  · simp [c1, utf8Dec_ascii x rest c1]
  · by_cases c2 : x < 0x800
    · simp only [c1, c2, if_true, if_false, Option.getD_some, List.cons_append, List.nil_append]
      rw [utf8Dec_step (0xC0 + x / 64) _ x 1 (by omega)]
      · simp
      · have hc : isCont (0x80 + x % 64) = true := by simp [isCont]; omega
        have hcond : 0xC2 ≤ 0xC0 + x / 64 ∧ 0xC0 + x / 64 ≤ 0xDF := by omega
        have hv : (0xC0 + x / 64 - 0xC0) * 64 + (0x80 + x % 64 - 0x80) = x := by omega
        simp only [utf8Step, hcond, hc, and_self, if_true, hv]
    · by_cases c3 : x < 0x10000
      · have c4 : ¬ (0xD800 ≤ x ∧ x ≤ 0xDFFF) := h2
        simp only [c1, c2, c3, c4, if_true, if_false, Option.getD_some, List.cons_append, List.nil_append]
        rw [utf8Dec_step (0xE0 + x / 4096) _ x 2 (by omega)]
        · simp
        · have hc1 : isCont (0x80 + x / 64 % 64) = true := by simp [isCont]; omega
          have hc2 : isCont (0x80 + x % 64) = true := by simp [isCont]; omega
          have hn2 : ¬ (0xC2 ≤ 0xE0 + x / 4096 ∧ 0xE0 + x / 4096 ≤ 0xDF ∧ isCont (0x80 + x / 64 % 64) = true) := by omega
          have hcond : 0xE0 ≤ 0xE0 + x / 4096 ∧ 0xE0 + x / 4096 ≤ 0xEF ∧ isCont (0x80 + x / 64 % 64) = true
              ∧ isCont (0x80 + x % 64) = true ∧ (0xE0 + x / 4096 = 0xE0 → 0xA0 ≤ 0x80 + x / 64 % 64)
              ∧ (0xE0 + x / 4096 = 0xED → 0x80 + x / 64 % 64 ≤ 0x9F) := by
            refine ⟨by omega, by omega, hc1, hc2, by omega, by omega⟩
          have hv : (0xE0 + x / 4096 - 0xE0) * 4096 + (0x80 + x / 64 % 64 - 0x80) * 64 + (0x80 + x % 64 - 0x80) = x := by
            omega
          simp only [utf8Step]
          rw [if_neg hn2, if_pos hcond, hv]
      · have c5 : x < 0x110000 := h1
        simp only [c1, c2, c3, c5, if_true, if_false, Option.getD_some, List.cons_append, List.nil_append]
        rw [utf8Dec_step (0xF0 + x / 262144) _ x 3 (by omega)]
        · simp
        · have hc1 : isCont (0x80 + x / 4096 % 64) = true := by simp [isCont]; omega
          have hc2 : isCont (0x80 + x / 64 % 64) = true := by simp [isCont]; omega
          have hc3 : isCont (0x80 + x % 64) = true := by simp [isCont]; omega
          have hn2 : ¬ (0xC2 ≤ 0xF0 + x / 262144 ∧ 0xF0 + x / 262144 ≤ 0xDF ∧ isCont (0x80 + x / 4096 % 64) = true) := by omega
          have hn3 : ¬ (0xE0 ≤ 0xF0 + x / 262144 ∧ 0xF0 + x / 262144 ≤ 0xEF ∧ isCont (0x80 + x / 4096 % 64) = true
              ∧ isCont (0x80 + x / 64 % 64) = true ∧ (0xF0 + x / 262144 = 0xE0 → 0xA0 ≤ 0x80 + x / 4096 % 64)
              ∧ (0xF0 + x / 262144 = 0xED → 0x80 + x / 4096 % 64 ≤ 0x9F)) := by omega
          have hcond : 0xF0 ≤ 0xF0 + x / 262144 ∧ 0xF0 + x / 262144 ≤ 0xF4 ∧ isCont (0x80 + x / 4096 % 64) = true
              ∧ isCont (0x80 + x / 64 % 64) = true ∧ isCont (0x80 + x % 64) = true
              ∧ (0xF0 + x / 262144 = 0xF0 → 0x90 ≤ 0x80 + x / 4096 % 64)
              ∧ (0xF0 + x / 262144 = 0xF4 → 0x80 + x / 4096 % 64 ≤ 0x8F) := by
            refine ⟨by omega, by omega, hc1, hc2, hc3, by omega, by omega⟩
          have hv : (0xF0 + x / 262144 - 0xF0) * 262144 + (0x80 + x / 4096 % 64 - 0x80) * 4096
              + (0x80 + x / 64 % 64 - 0x80) * 64 + (0x80 + x % 64 - 0x80) = x := by omega
          simp only [utf8Step]
          rw [if_neg hn2, if_neg hn3, if_pos hcond, hv]

theorem utf8_lawful : Lawful utf8Codec scalar where
  enc_some := by
    intro x hx
    obtain ⟨h1, h2⟩ := hx
    simp only [utf8Codec, utf8Enc]
    split
    · rfl
    · split
      · rfl
      · split
        · simp
        · simp
  dec_enc := by
    intro s hs
    induction s with
    | nil => simp [encAll, utf8Codec, utf8Dec_nil]
    | cons x r ih =>
      have hx := hs x (by simp)
      have ih' := ih (fun y hy => hs y (by simp [hy]))
      simp only [encAll, utf8Codec, List.flatMap_cons] at ih' ⊢
      rw [utf8Dec_enc x hx, ih']
  ascii := by
    intro x h1 h2
    refine ⟨⟨by omega, by omega⟩, ?_⟩
    have : x < 0x80 := by omega
    simp [utf8Codec, utf8Enc, this]
  clean := by
    intro x b hb y hy hy3
    simp only [utf8Codec, utf8Enc] at hb
    split at hb
    · cases hb; simp at hy; exact hy.symm
    · split at hb
      · cases hb; simp at hy; omega
      · split at hb
        · split at hb
          · cases hb
          · cases hb; simp at hy; omega
        · split at hb
          · cases hb; simp at hy; omega
          · cases hb



private theorem reSplit_lit (s : Str) : ∀ lit, hasDxfUnicode s = false → reSplit lit s = [lit ++ s] := by
  induction s with
  | nil => intro lit _; simp [reSplit_nil]
  | cons x r ih =>
    intro lit h
    simp only [hasDxfUnicode, Bool.or_eq_false_iff] at h
    have hm : matchAt (x :: r) = none := by
      cases hm : matchAt (x :: r) with
      | none => rfl
      | some _ => rw [hm] at h; simp at h
    rw [reSplit_nomatch _ _ _ hm, ih _ h.2]
    simp

private theorem decodePart_length (p : Str) : (decodePart p).length ≤ p.length := by
  unfold decodePart
  split
  · simp
  · exact Nat.le_refl _

private theorem reSplit_flatten (lit s : Str) : (reSplit lit s).flatten = lit ++ s := by
  fun_induction reSplit lit s with
  | case1 lit => simp
  | case2 lit x r rest hm ih =>
    have := matchAt_length hm
    simp only [List.flatten_cons, ih, List.nil_append]
    -- (x :: r) = take 7 ++ rest
    have hr : rest = (x :: r).drop 7 := by
      match r, hm with
      | u :: q :: a :: b :: c :: d :: t, hm =>
        simp only [matchAt] at hm
        split at hm
        · cases hm; rfl
        · cases hm
      | [], hm | [_], hm | [_, _], hm | [_, _, _], hm | [_, _, _, _], hm | [_, _, _, _, _], hm => simp [matchAt] at hm
    rw [hr, List.take_append_drop]
  | case3 lit x r hm ih => simp [ih]

/-- `decode_dxf_unicode` is total (a plain function of the model; the real function never raises in the
    correspondence stream) and its result is never longer than the input -/
theorem decode_length_le (s : Str) : (decodeDxfUnicode s).length ≤ s.length := by
  unfold decodeDxfUnicode
  have h := reSplit_flatten [] s
  have key : ∀ l : List Str, (l.flatMap decodePart).length ≤ l.flatten.length := by
    intro l
    induction l with
    | nil => simp
    | cons p ps ih =>
      simp only [List.flatMap_cons, List.flatten_cons, List.length_append]
      have := decodePart_length p
      omega
  have := key (reSplit [] s)
  rw [h] at this
  simpa using this

/-- `decode_dxf_unicode` is the identity on a string without a match of `\\U\+[A-F0-9]{4}` -/
theorem decode_nomatch (s : Str) (hn : hasDxfUnicode s = false) : decodeDxfUnicode s = s := by
  unfold decodeDxfUnicode
  rw [reSplit_lit s [] hn]
  simp [decodePart_lit s hn]

/-- R2007+ (UTF-8): nothing is escaped whatever the handler does, every string of Unicode scalar values
    (all planes) is written as its UTF-8 encoding and read back identical by both readers -/
theorem utf8_identity (f : Fmt) (s : Str) (hs : ∀ x ∈ s, scalar x) (hn : hasDxfUnicode s = false) :
    ∃ b, encode utf8Codec f s = .ok b ∧ utf8Codec.dec b = s ∧ decodeDxfUnicode (utf8Codec.dec b) = s
      ∧ (hasMif s = false → recoverStr (utf8Codec.dec b) = .text s) := by
  have henc : ∀ x ∈ s, (utf8Codec.enc x).isSome := fun x hx => utf8_lawful.enc_some x (hs x hx)
  have hdec : utf8Codec.dec (encAll utf8Codec s) = s := utf8_lawful.dec_enc s hs
  refine ⟨encAll utf8Codec s, encode_all_encodable utf8Codec f s henc, hdec, ?_, ?_⟩
  · rw [hdec]; exact decode_nomatch s hn
  · intro hm
    rw [hdec]
    simp [recoverStr, hn, hm]

/-! name tables -/

private theorem find?_perm_unique {α : Type} (p : α → Bool) (l l' : List α) (hp : l'.Perm l)
    (huniq : ∀ a ∈ l, ∀ b ∈ l, p a = true → p b = true → a = b) : l'.find? p = l.find? p := by
  cases h : l.find? p with
  | none =>
    rw [List.find?_eq_none] at h ⊢
    intro x hx
    exact h x (hp.mem_iff.mp hx)
  | some a =>
    have ha : p a = true := List.find?_some h
    have hal : a ∈ l := List.mem_of_find?_eq_some h
    cases h' : l'.find? p with
    | none =>
      rw [List.find?_eq_none] at h'
      exact absurd ha (h' a (hp.mem_iff.mpr hal))
    | some b =>
      have hb : p b = true := List.find?_some h'
      have hbl : b ∈ l := hp.mem_iff.mp (List.mem_of_find?_eq_some h')
      rw [huniq a hal b hbl ha hb]


private theorem table_suffix_free : suffixFreeB codepageToEncoding = true := by decide +kernel

theorem toencoding_order_independent (d' : Dict) (hp : d'.Perm codepageToEncoding) (name : Str) :
    toencoding d' name = toencoding codepageToEncoding name := by
  unfold toencoding
  rw [find?_perm_unique (fun p => endsWith name p.1) codepageToEncoding d' hp]
  intro a ha b hb pa pb
  simp only [endsWith, List.isSuffixOf_iff_suffix] at pa pb
  have hsf := table_suffix_free
  simp only [suffixFreeB, List.all_eq_true, Bool.or_eq_true, Bool.not_eq_true', decide_eq_true_eq] at hsf
  rcases Nat.le_total a.1.length b.1.length with hl | hl
  · have := List.suffix_of_suffix_length_le pa pb hl
    rcases hsf a ha b hb with h | h
    · rw [← List.isSuffixOf_iff_suffix] at this; rw [this] at h; cases h
    · exact h
  · have := List.suffix_of_suffix_length_le pb pa hl
    rcases hsf b hb a ha with h | h
    · rw [← List.isSuffixOf_iff_suffix] at this; rw [this] at h; cases h
    · exact h.symm

theorem names_bijective :
    (∀ p ∈ codepageToEncoding, toencoding codepageToEncoding (ansiPrefix ++ p.1) = p.2
        ∧ tocodepage encodingToCodepage p.2 = ansiPrefix ++ p.1)
    ∧ (codepageToEncoding.map (·.1)).Nodup ∧ (codepageToEncoding.map (·.2)).Nodup
    ∧ encodingToCodepage = invertDict codepageToEncoding := by decide +kernel

theorem names_roundtrip :
    (∀ p ∈ codepageToEncoding, toencoding codepageToEncoding (tocodepage encodingToCodepage p.2) = p.2)
    ∧ (∀ p ∈ codepageToEncoding,
        tocodepage encodingToCodepage (toencoding codepageToEncoding (ansiPrefix ++ p.1)) = ansiPrefix ++ p.1) := by
  have h := names_bijective.1
  constructor
  · intro p hp; rw [(h p hp).2, (h p hp).1]
  · intro p hp; rw [(h p hp).1, (h p hp).2]

/-! tables -/

private theorem sbcs_tables_ok : sbcsTables.all (fun p => sbcsTableOk p.2) = true := by decide +kernel

theorem sbcs_tables_lawful : ∀ p ∈ sbcsTables, Lawful (sbcsCodec p.2) (fun x => x ∈ p.2 ∧ x ≠ undef) := by
  intro p hp
  exact sbcs_lawful p.2 (List.all_eq_true.mp sbcs_tables_ok p hp)

private theorem dbcs_clean_b : dbcsInfos.all dbcsCleanB = true := by decide +kernel

/-- CJK code pages (byte sets tabulated over the whole BMP from CPython's codecs): NUL/LF/CR bytes encode only
    themselves, no lead or trail byte is NUL/LF/CR (so byte-level line splitting and NUL termination commute with
    decoding), no lead byte is also a single-byte encoding (prefix code), printable ASCII encodes to itself -/
theorem lf_free : ∀ d ∈ dbcsInfos,
    (∀ p ∈ d.singles, (p.2 = 0 ∨ p.2 = 10 ∨ p.2 = 13) → p.1 = p.2)
    ∧ (∀ b ∈ d.leads ++ d.trails, b ≠ 0 ∧ b ≠ 10 ∧ b ≠ 13)
    ∧ (∀ b ∈ d.leads, ∀ p ∈ d.singles, p.2 ≠ b)
    ∧ (∀ i, i < 95 → (32 + i, 32 + i) ∈ d.singles) := by
  intro d hd
  have h := List.all_eq_true.mp dbcs_clean_b d hd
  simp only [dbcsCleanB, Bool.and_eq_true, List.all_eq_true, Bool.or_eq_true, Bool.not_eq_true', beq_iff_eq,
    decide_eq_true_eq, List.mem_range, List.contains_iff_mem, List.any_eq_false,
    Bool.or_eq_false_iff, beq_eq_false_iff_ne] at h
  obtain ⟨⟨⟨h1, h2⟩, h3⟩, h4⟩ := h
  refine ⟨?_, ?_, ?_, h2⟩
  · intro p hp h0
    rcases (h1 p hp).1 with hh | hh
    · omega
    · exact hh
  · intro b hb
    rcases List.mem_append.mp hb with hb | hb
    · have := (h3 b hb).1; omega
    · have := h4 b hb; omega
  · intro b hb p hp
    exact (h3 b hb).2 p hp

/-- the handler of the current source (tabulated over all 0x110000 code points) is the format the theorems are
    about; before fix 2e4902f68 it was `legacyFmt`, for which `legacy_*_not_decoded` prove the two defects -/
theorem source_format_fixed : handlerFmt = fixedFmt := by decide +kernel

/-- `escape_roundtrip` + `recover_roundtrip` for the handler of the current source -/
theorem escape_roundtrip_source (c : Codec) (good : Nat → Prop) (L : Lawful c good) (s : Str)
    (hs : ∀ x ∈ s, x ≤ 0xFFFF ∧ isEscSurrogate x = false ∧ ((c.enc x).isSome → good x))
    (hn : hasDxfUnicode s = false) :
    ∃ b, encode c handlerFmt s = .ok b ∧ decodeDxfUnicode (c.dec b) = s
      ∧ (hasMif s = false → recoverStr (c.dec b) = .text s) := by
  rw [source_format_fixed]
  obtain ⟨b, hb1, hb2⟩ := escape_roundtrip c good L s hs hn
  refine ⟨b, hb1, hb2, ?_⟩
  intro hm
  obtain ⟨b', hb1', hb2'⟩ := recover_roundtrip c good L s hs hn hm
  rw [hb1] at hb1'; cases hb1'; exact hb2'

theorem regex_patterns_as_modelled :
    backslashUnicodePattern = "(\\\\U\\+[A-F0-9]{4})" ∧ mifEncodedPattern = "(\\\\M\\+[1-5][A-F0-9]{4})" := by
  decide

theorem grouped_as_modelled :
    (∀ p ∈ sbcsTables, (p.1, true) ∈ grouped) ∧ ([117, 116, 102, 56], true) ∈ grouped
      ∧ ([97, 115, 99, 105, 105], true) ∈ grouped ∧ (∀ d ∈ dbcsInfos, (d.name, false) ∈ grouped) := by
  decide +kernel

private theorem idxOf_some_mem (x : Nat) (t : List Nat) (h : (idxOf x t).isSome) : x ∈ t := by
  induction t with
  | nil => simp [idxOf] at h
  | cons y r ih =>
    unfold idxOf at h
    split at h
    · rename_i hy; simp [hy]
    · cases hr : idxOf x r with
      | none => simp [hr] at h
      | some j => exact List.mem_cons_of_mem _ (ih (by simp [hr]))

/-- the ten single-byte code pages, unconditionally (tables regenerated from the codecs) -/
theorem escape_roundtrip_single_byte_pages : ∀ p ∈ sbcsTables, ∀ s : Str,
    (∀ x ∈ s, x ≤ 0xFFFF ∧ isEscSurrogate x = false) → hasDxfUnicode s = false →
    ∃ b, encode (sbcsCodec p.2) fixedFmt s = .ok b
      ∧ decodeDxfUnicode ((sbcsCodec p.2).dec b) = s
      ∧ (hasMif s = false → recoverStr ((sbcsCodec p.2).dec b) = .text s)
      ∧ ((∀ x ∈ s, x ≠ 0 ∧ x ≠ 10 ∧ x ≠ 13) → ∀ y ∈ b, y ≠ 0 ∧ y ≠ 10 ∧ y ≠ 13) := by
  intro p hp s hs hn
  have L := sbcs_tables_lawful p hp
  have hs' : ∀ x ∈ s, x ≤ 0xFFFF ∧ isEscSurrogate x = false
      ∧ (((sbcsCodec p.2).enc x).isSome → (x ∈ p.2 ∧ x ≠ undef)) := by
    intro x hx
    refine ⟨(hs x hx).1, (hs x hx).2, ?_⟩
    intro he
    simp only [sbcsCodec] at he
    split at he
    · cases he
    · rename_i hne
      refine ⟨idxOf_some_mem x p.2 ?_, hne⟩
      cases hi : idxOf x p.2 <;> simp [hi] at he ⊢
  obtain ⟨b, hb1, hb2⟩ := escape_roundtrip _ _ L s hs' hn
  refine ⟨b, hb1, hb2, ?_, ?_⟩
  · intro hm
    obtain ⟨b', hb1', hb2'⟩ := recover_roundtrip _ _ L s hs' hn hm
    rw [hb1] at hb1'; cases hb1'; exact hb2'
  · intro hc
    obtain ⟨b', hb1', hb2'⟩ := encode_clean _ _ L s hs hc
    rw [hb1] at hb1'; cases hb1'; exact hb2'

theorem containsEsc_iff_infix (s : Str) : containsEsc s = true ↔ escPrefix <:+: s := by
  induction s with
  | nil => simp [containsEsc, escPrefix]
  | cons x r ih =>
    rw [List.infix_cons_iff, ← ih, ← List.isPrefixOf_iff_prefix]
    simp [containsEsc]

/-- F1 (before fix 2e4902f68): "x€" was written `x\U+20ac`, which no reader decodes -/
theorem legacy_lowerhex_not_decoded :
    encode asciiCodec legacyFmt [120, 0x20AC] = .ok [120, 92, 85, 43, 50, 48, 97, 99]
    ∧ hasDxfUnicode [120, 92, 85, 43, 50, 48, 97, 99] = false
    ∧ decodeDxfUnicode (asciiCodec.dec [120, 92, 85, 43, 50, 48, 97, 99]) = [120, 92, 85, 43, 50, 48, 97, 99] := by
  refine ⟨by decide +kernel, by decide +kernel, ?_⟩
  have : asciiCodec.dec [120, 92, 85, 43, 50, 48, 97, 99] = [120, 92, 85, 43, 50, 48, 97, 99] := by decide +kernel
  rw [this]
  exact decode_nomatch _ (by decide +kernel)

/-- F2 (before fix 2e4902f68): "ä" under cp1251 was written `\xe4`, which no reader decodes -/
theorem legacy_latin1_not_decoded :
    encode (sbcsCodec cp1251Table) legacyFmt [0xE4] = .ok [92, 120, 101, 52]
    ∧ decodeDxfUnicode ((sbcsCodec cp1251Table).dec [92, 120, 101, 52]) = [92, 120, 101, 52] := by
  refine ⟨by decide +kernel, ?_⟩
  have : (sbcsCodec cp1251Table).dec [92, 120, 101, 52] = [92, 120, 101, 52] := by decide +kernel
  rw [this]
  exact decode_nomatch _ (by decide +kernel)

/-! ## raw bytes survive (surrogateescape in the reverse direction) -/

theorem fixed_delegates : Delegates fixedFmt := by
  intro x hx
  simp only [isEscSurrogate, decide_eq_true_eq] at hx
  have h1 : ¬ x ≤ 56447 := by omega
  have h5 : (decide (56448 ≤ x) && decide (x ≤ 56575)) = true := by simp; omega
  simp [Fmt.find, fixedFmt, List.find?, h1, h5]

theorem legacy_delegates : Delegates legacyFmt := by
  intro x hx
  simp only [isEscSurrogate, decide_eq_true_eq] at hx
  have h0 : ¬ x ≤ 255 := by omega
  have h1 : (decide (256 ≤ x) && decide (x ≤ 56447)) = false := by simp; omega
  have h5 : (decide (56448 ≤ x) && decide (x ≤ 56575)) = true := by simp; omega
  simp [Fmt.find, legacyFmt, List.find?, h0, h1, h5]

private theorem flush_raw (c : Codec) (f : Fmt) (hf : Delegates f) (run : Str)
    (hr : ∀ x ∈ run, isEscSurrogate x = true) : flush c f run = .ok (run.map (· - 0xDC00)) := by
  unfold flush
  cases run with
  | nil => rfl
  | cons x r =>
    have hx := hf x (hr x (by simp))
    have hall : (x :: r).all isEscSurrogate = true := List.all_eq_true.mpr hr
    simp only [List.isEmpty_cons, Bool.false_eq_true, if_false, handler, handlerLoop, hx, surrogateEscape, hall, if_true]

private theorem rawBytes_append (c : Codec) (a b : Str) : rawBytes c (a ++ b) = rawBytes c a ++ rawBytes c b := by
  simp [rawBytes, List.flatMap_append]

private theorem rawBytes_run (c : Codec) (run : Str) (h : ∀ x ∈ run, c.enc x = none) :
    rawBytes c run = run.map (· - 0xDC00) := by
  induction run with
  | nil => rfl
  | cons x r ih =>
    have := ih (fun y hy => h y (by simp [hy]))
    simp only [rawBytes, List.flatMap_cons, h x (by simp), List.map_cons] at this ⊢
    rw [this]; rfl

/-- Raw bytes survive: a string made of encodable characters and surrogate-escaped bytes (what a reader with
    errors="surrogateescape" produces for undecodable input) is written back as exactly those bytes, for every
    codec and for both handler formats. -/
theorem encode_surrogate_passthrough (c : Codec) (f : Fmt) (hf : Delegates f) (s : Str)
    (hs : ∀ x ∈ s, (c.enc x).isSome ∨ isEscSurrogate x = true) :
    encode c f s = .ok (rawBytes c s) := by
  have key : ∀ (s run : Str), (∀ x ∈ run, c.enc x = none ∧ isEscSurrogate x = true) →
      (c.grouped = false → run = []) → (∀ x ∈ s, (c.enc x).isSome ∨ isEscSurrogate x = true) →
      encodeAux c f run s = .ok (rawBytes c (run ++ s)) := by
    intro s
    induction s with
    | nil =>
      intro run hrun _ _
      simp only [encodeAux, List.append_nil]
      rw [flush_raw c f hf run (fun x hx => (hrun x hx).2), rawBytes_run c run (fun x hx => (hrun x hx).1)]
    | cons x r ih =>
      intro run hrun hg0 hs
      have hr' : ∀ y ∈ r, (c.enc y).isSome ∨ isEscSurrogate y = true := fun y hy => hs y (by simp [hy])
      unfold encodeAux
      cases hx : c.enc x with
      | some b =>
        simp only
        rw [flush_raw c f hf run (fun x hx => (hrun x hx).2), ih [] (by simp) (by simp) hr']
        simp only [Except.map, List.nil_append]
        rw [rawBytes_append, rawBytes_run c run (fun x hx => (hrun x hx).1)]
        simp [rawBytes, List.flatMap_cons, hx]
      | none =>
        have hxs : isEscSurrogate x = true := by
          rcases hs x (by simp) with h | h
          · simp [hx] at h
          · exact h
        simp only
        cases hg : c.grouped with
        | true =>
          simp only [if_true]
          have := ih (run ++ [x]) (by
            intro y hy; simp at hy
            rcases hy with hy | hy
            · exact hrun y hy
            · rw [hy]; exact ⟨hx, hxs⟩) (by simp [hg]) hr'
          simpa using this
        | false =>
          simp only [Bool.false_eq_true, if_false]
          have hrun0 : run = [] := hg0 hg
          subst hrun0
          rw [flush_raw c f hf [x] (by simp [hxs]), ih [] (by simp) (by simp) hr']
          simp only [Except.map, List.nil_append]
          rw [show x :: r = [x] ++ r from rfl, rawBytes_append, rawBytes_run c [x] (by simp [hx])]
  simpa [encode] using key s [] (by simp) (by simp) hs

private theorem utf8Step_enc (b0 : Nat) (r : Bytes) (cp n : Nat) (h : utf8Step b0 r = some (cp, n)) :
    utf8Enc cp = some (b0 :: r.take n) := by
  unfold utf8Step at h
  match r, h with
  | [], h => cases h
  | b1 :: r1, h =>
    simp only at h
    split at h
    · rename_i hc
      obtain ⟨h1, h2, h3⟩ := hc
      simp only [isCont, decide_eq_true_eq] at h3
      simp only [Option.some.injEq, Prod.mk.injEq] at h
      obtain ⟨hcp, hn⟩ := h
      subst hcp hn
      have c1 : ¬ ((b0 - 0xC0) * 64 + (b1 - 0x80) < 0x80) := by omega
      have c2 : (b0 - 0xC0) * 64 + (b1 - 0x80) < 0x800 := by omega
      have e1 : 0xC0 + ((b0 - 0xC0) * 64 + (b1 - 0x80)) / 64 = b0 := by omega
      have e2 : 0x80 + ((b0 - 0xC0) * 64 + (b1 - 0x80)) % 64 = b1 := by omega
      simp only [utf8Enc, c1, c2, if_true, if_false, e1, e2, List.take_succ_cons, List.take_zero]
    · match r1, h with
      | [], h => cases h
      | b2 :: r2, h =>
        simp only at h
        split at h
        · rename_i hc
          obtain ⟨h1, h2, h3, h4, h5, h6⟩ := hc
          simp only [isCont, decide_eq_true_eq] at h3 h4
          simp only [Option.some.injEq, Prod.mk.injEq] at h
          obtain ⟨hcp, hn⟩ := h
          subst hcp hn
          have c1 : ¬ ((b0 - 0xE0) * 4096 + (b1 - 0x80) * 64 + (b2 - 0x80) < 0x80) := by omega
          have c2 : ¬ ((b0 - 0xE0) * 4096 + (b1 - 0x80) * 64 + (b2 - 0x80) < 0x800) := by omega
          have c3 : (b0 - 0xE0) * 4096 + (b1 - 0x80) * 64 + (b2 - 0x80) < 0x10000 := by omega
          have c4 : ¬ (0xD800 ≤ (b0 - 0xE0) * 4096 + (b1 - 0x80) * 64 + (b2 - 0x80)
              ∧ (b0 - 0xE0) * 4096 + (b1 - 0x80) * 64 + (b2 - 0x80) ≤ 0xDFFF) := by omega
          have e1 : 0xE0 + ((b0 - 0xE0) * 4096 + (b1 - 0x80) * 64 + (b2 - 0x80)) / 4096 = b0 := by omega
          have e2 : 0x80 + ((b0 - 0xE0) * 4096 + (b1 - 0x80) * 64 + (b2 - 0x80)) / 64 % 64 = b1 := by omega
          have e3 : 0x80 + ((b0 - 0xE0) * 4096 + (b1 - 0x80) * 64 + (b2 - 0x80)) % 64 = b2 := by omega
          simp only [utf8Enc, c1, c2, c3, c4, if_true, if_false, e1, e2, e3, List.take_succ_cons, List.take_zero]
        · match r2, h with
          | [], h => cases h
          | b3 :: r3, h =>
            simp only at h
            split at h
            · rename_i hc
              obtain ⟨h1, h2, h3, h4, h5, h6, h7⟩ := hc
              simp only [isCont, decide_eq_true_eq] at h3 h4 h5
              simp only [Option.some.injEq, Prod.mk.injEq] at h
              obtain ⟨hcp, hn⟩ := h
              subst hcp hn
              have c1 : ¬ ((b0 - 0xF0) * 262144 + (b1 - 0x80) * 4096 + (b2 - 0x80) * 64 + (b3 - 0x80) < 0x80) := by omega
              have c2 : ¬ ((b0 - 0xF0) * 262144 + (b1 - 0x80) * 4096 + (b2 - 0x80) * 64 + (b3 - 0x80) < 0x800) := by omega
              have c3 : ¬ ((b0 - 0xF0) * 262144 + (b1 - 0x80) * 4096 + (b2 - 0x80) * 64 + (b3 - 0x80) < 0x10000) := by omega
              have c4 : (b0 - 0xF0) * 262144 + (b1 - 0x80) * 4096 + (b2 - 0x80) * 64 + (b3 - 0x80) < 0x110000 := by omega
              have e1 : 0xF0 + ((b0 - 0xF0) * 262144 + (b1 - 0x80) * 4096 + (b2 - 0x80) * 64 + (b3 - 0x80)) / 262144 = b0 := by omega
              have e2 : 0x80 + ((b0 - 0xF0) * 262144 + (b1 - 0x80) * 4096 + (b2 - 0x80) * 64 + (b3 - 0x80)) / 4096 % 64 = b1 := by omega
              have e3 : 0x80 + ((b0 - 0xF0) * 262144 + (b1 - 0x80) * 4096 + (b2 - 0x80) * 64 + (b3 - 0x80)) / 64 % 64 = b2 := by omega
              have e4 : 0x80 + ((b0 - 0xF0) * 262144 + (b1 - 0x80) * 4096 + (b2 - 0x80) * 64 + (b3 - 0x80)) % 64 = b3 := by omega
              simp only [utf8Enc, c1, c2, c3, c4, if_true, if_false, e1, e2, e3, e4, List.take_succ_cons, List.take_zero]
            · cases h

private theorem utf8Dec_none (b0 : Nat) (r : Bytes) (h : ¬ b0 < 0x80) (hs : utf8Step b0 r = none) :
    utf8Dec (b0 :: r) = (0xDC00 + b0) :: utf8Dec r := by
  rw [utf8Dec]; simp [h, hs]

private theorem utf8Step_le (b0 : Nat) (r : Bytes) (cp n : Nat) (h : utf8Step b0 r = some (cp, n)) : n ≤ r.length := by
  have := utf8Step_enc b0 r cp n h
  unfold utf8Step at h
  match r, h with
  | [], h => cases h
  | b1 :: r1, h =>
    simp only at h
    split at h
    · simp only [Option.some.injEq, Prod.mk.injEq] at h; rw [← h.2]; simp
    · match r1, h with
      | [], h => cases h
      | b2 :: r2, h =>
        simp only at h
        split at h
        · simp only [Option.some.injEq, Prod.mk.injEq] at h; rw [← h.2]; simp
        · match r2, h with
          | [], h => cases h
          | b3 :: r3, h =>
            simp only at h
            split at h
            · simp only [Option.some.injEq, Prod.mk.injEq] at h; rw [← h.2]; simp
            · cases h

/-- what `utf8Dec` returns consists of encodable characters and escaped raw bytes, and stands for the input -/
private theorem utf8Dec_raw (b : Bytes) (hb : ∀ y ∈ b, y < 256) :
    (∀ x ∈ utf8Dec b, (utf8Enc x).isSome ∨ isEscSurrogate x = true) ∧ rawBytes utf8Codec (utf8Dec b) = b := by
  induction hn : b.length using Nat.strongRecOn generalizing b with
  | _ n ih =>
    match b with
    | [] => simp [utf8Dec_nil, rawBytes]
    | b0 :: r =>
      have hr : ∀ y ∈ r, y < 256 := fun y hy => hb y (by simp [hy])
      have h0 : b0 < 256 := hb b0 (by simp)
      by_cases ha : b0 < 0x80
      · rw [utf8Dec_ascii b0 r ha]
        have := ih r.length (by simp at hn; omega) r hr rfl
        refine ⟨?_, ?_⟩
        · intro x hx
          simp only [List.mem_cons] at hx
          rcases hx with hx | hx
          · left; rw [hx]; simp [utf8Enc, ha]
          · exact this.1 x hx
        · have e : rawBytes utf8Codec (b0 :: utf8Dec r) = [b0] ++ rawBytes utf8Codec (utf8Dec r) := by
            simp [rawBytes, List.flatMap_cons, utf8Codec, utf8Enc, ha]
          rw [e, this.2]; rfl
      · cases hs : utf8Step b0 r with
        | some p =>
          obtain ⟨cp, k⟩ := p
          rw [utf8Dec_step b0 r cp k ha hs]
          have henc := utf8Step_enc b0 r cp k hs
          have hk := utf8Step_le b0 r cp k hs
          have hdrop : ∀ y ∈ r.drop k, y < 256 := fun y hy => hr y (List.mem_of_mem_drop hy)
          have := ih (r.drop k).length (by simp at hn ⊢; omega) (r.drop k) hdrop rfl
          refine ⟨?_, ?_⟩
          · intro x hx
            simp only [List.mem_cons] at hx
            rcases hx with hx | hx
            · left; rw [hx, henc]; rfl
            · exact this.1 x hx
          · have e : rawBytes utf8Codec (cp :: utf8Dec (r.drop k))
                = (b0 :: r.take k) ++ rawBytes utf8Codec (utf8Dec (r.drop k)) := by
              simp [rawBytes, List.flatMap_cons, utf8Codec, henc]
            rw [e, this.2]
            simp [List.take_append_drop]
        | none =>
          rw [utf8Dec_none b0 r ha hs]
          have := ih r.length (by simp at hn; omega) r hr rfl
          have hsur : isEscSurrogate (0xDC00 + b0) = true := by simp [isEscSurrogate]; omega
          have hnone : utf8Enc (0xDC00 + b0) = none := by
            have c1 : ¬ (0xDC00 + b0 < 0x80) := by omega
            have c2 : ¬ (0xDC00 + b0 < 0x800) := by omega
            have c3 : 0xDC00 + b0 < 0x10000 := by omega
            have c4 : 0xD800 ≤ 0xDC00 + b0 ∧ 0xDC00 + b0 ≤ 0xDFFF := by omega
            simp only [utf8Enc, c1, c2, c3, c4, if_true, if_false, and_self]
          refine ⟨?_, ?_⟩
          · intro x hx
            simp only [List.mem_cons] at hx
            rcases hx with hx | hx
            · right; rw [hx]; exact hsur
            · exact this.1 x hx
          · have e : rawBytes utf8Codec ((0xDC00 + b0) :: utf8Dec r) = [b0] ++ rawBytes utf8Codec (utf8Dec r) := by
              simp [rawBytes, List.flatMap_cons, utf8Codec, hnone]
            rw [e, this.2]; rfl

/-- PEP 383 through ezdxf's handler: any byte string read as UTF-8 with errors="surrogateescape" is written
    back unchanged (binary data in XRECORDs survives load -> save), for both handler formats -/
theorem utf8_bytes_roundtrip (f : Fmt) (hf : Delegates f) (b : Bytes) (hb : ∀ y ∈ b, y < 256) :
    encode utf8Codec f (utf8Codec.dec b) = .ok b := by
  have h := utf8Dec_raw b hb
  have := encode_surrogate_passthrough utf8Codec f hf (utf8Dec b) h.1
  rw [h.2] at this
  exact this

/-! ## Session 3: every supported code page, without codec hypotheses -/

private theorem roundtrips_of_lawful (c : Codec) (good : Nat → Prop) (L : Lawful c good) (s : Str)
    (hs : ∀ x ∈ s, x ≤ 0xFFFF ∧ isEscSurrogate x = false ∧ ((c.enc x).isSome → good x))
    (hn : hasDxfUnicode s = false) : RoundTrips c handlerFmt s := by
  rw [source_format_fixed]
  obtain ⟨b, hb1, hb2⟩ := escape_roundtrip c good L s hs hn
  refine ⟨b, hb1, hb2, ?_, ?_⟩
  · intro hm
    obtain ⟨b', hb1', hb2'⟩ := recover_roundtrip c good L s hs hn hm
    rw [hb1] at hb1'; cases hb1'; exact hb2'
  · intro hc
    obtain ⟨b', hb1', hb2'⟩ := encode_clean c good L s (fun x hx => ⟨(hs x hx).1, (hs x hx).2.1⟩) hc
    rw [hb1] at hb1'; cases hb1'; exact hb2'

private theorem sbcs_roundtrips (t : List Nat) (h : sbcsTableOk t = true) (s : Str) (hp : Plain s) :
    RoundTrips (sbcsCodec t) handlerFmt s := by
  refine roundtrips_of_lawful _ _ (sbcs_lawful t h) s ?_ hp.2
  intro x hx
  refine ⟨(hp.1 x hx).1, (hp.1 x hx).2, ?_⟩
  intro he
  simp only [sbcsCodec] at he
  split at he
  · cases he
  · rename_i hne
    refine ⟨idxOf_some_mem x t ?_, hne⟩
    cases hi : idxOf x t <;> simp [hi] at he ⊢

/-- the ten single-byte code pages by name: every plain string round-trips, no codec hypothesis
    (decoding tables regenerated from CPython; handler format of the current source) -/
theorem escape_roundtrip_cp874 (s : Str) (h : Plain s) : RoundTrips (sbcsCodec cp874Table) handlerFmt s :=
  sbcs_roundtrips _ (by decide +kernel) s h
theorem escape_roundtrip_cp1250 (s : Str) (h : Plain s) : RoundTrips (sbcsCodec cp1250Table) handlerFmt s :=
  sbcs_roundtrips _ (by decide +kernel) s h
theorem escape_roundtrip_cp1251 (s : Str) (h : Plain s) : RoundTrips (sbcsCodec cp1251Table) handlerFmt s :=
  sbcs_roundtrips _ (by decide +kernel) s h
theorem escape_roundtrip_cp1252 (s : Str) (h : Plain s) : RoundTrips (sbcsCodec cp1252Table) handlerFmt s :=
  sbcs_roundtrips _ (by decide +kernel) s h
theorem escape_roundtrip_cp1253 (s : Str) (h : Plain s) : RoundTrips (sbcsCodec cp1253Table) handlerFmt s :=
  sbcs_roundtrips _ (by decide +kernel) s h
theorem escape_roundtrip_cp1254 (s : Str) (h : Plain s) : RoundTrips (sbcsCodec cp1254Table) handlerFmt s :=
  sbcs_roundtrips _ (by decide +kernel) s h
theorem escape_roundtrip_cp1255 (s : Str) (h : Plain s) : RoundTrips (sbcsCodec cp1255Table) handlerFmt s :=
  sbcs_roundtrips _ (by decide +kernel) s h
theorem escape_roundtrip_cp1256 (s : Str) (h : Plain s) : RoundTrips (sbcsCodec cp1256Table) handlerFmt s :=
  sbcs_roundtrips _ (by decide +kernel) s h
theorem escape_roundtrip_cp1257 (s : Str) (h : Plain s) : RoundTrips (sbcsCodec cp1257Table) handlerFmt s :=
  sbcs_roundtrips _ (by decide +kernel) s h
theorem escape_roundtrip_cp1258 (s : Str) (h : Plain s) : RoundTrips (sbcsCodec cp1258Table) handlerFmt s :=
  sbcs_roundtrips _ (by decide +kernel) s h

/-! ### single-byte tables: injectivity, bytes -> str -> bytes, agreement with the tabulated encoder -/

private theorem sbcs_cert_all : sbcsTables.all (fun p => sbcsCertB p.2) = true := by decide +kernel

private theorem idxOf_append (x : Nat) (a r : List Nat) (h : ∀ y ∈ a, y ≠ x) :
    idxOf x (a ++ r) = (idxOf x r).map (· + a.length) := by
  induction a with
  | nil => cases h' : idxOf x r <;> simp [h']
  | cons y a ih =>
    have hy : ¬ (y = x) := h y (by simp)
    simp only [List.cons_append, idxOf, hy, if_false, ih (fun z hz => h z (by simp [hz])), List.length_cons]
    cases idxOf x r <;> simp [Nat.add_assoc]

private theorem nodup_idxOf (r : List Nat) : ∀ i v, nodupDefB r = true → r[i]? = some v → v ≠ undef →
    idxOf v r = some i := by
  induction r with
  | nil => intro i v _ h; simp at h
  | cons a r ih =>
    intro i v hn hi hv
    simp only [nodupDefB, Bool.and_eq_true, Bool.or_eq_true, List.all_eq_true, Bool.not_eq_true'] at hn
    cases i with
    | zero =>
      simp only [List.getElem?_cons_zero, Option.some.injEq] at hi
      simp [idxOf, hi]
    | succ j =>
      simp only [List.getElem?_cons_succ] at hi
      have hmem : v ∈ r := List.mem_of_getElem? hi
      have hne : ¬ (a = v) := by
        rcases hn.1 with h | h
        · intro hav; rw [hav] at h; exact hv (Nat.eq_of_beq_eq_true h)
        · intro hav
          have := h v hmem
          rw [hav] at this
          simp at this
      simp [idxOf, hne, ih j v hn.2 hi hv]

private theorem cert_parts (t : List Nat) (h : sbcsCertB t = true) :
    t.length = 256 ∧ sbcsTableOk t = true ∧ (∀ v ∈ t.drop 128, 128 ≤ v) ∧ nodupDefB (t.drop 128) = true
      ∧ (∀ v ∈ t, isEscSurrogate v = false) := by
  simp only [sbcsCertB, Bool.and_eq_true, List.all_eq_true, Nat.ble_eq, Bool.not_eq_true'] at h
  obtain ⟨⟨⟨⟨h1, h2⟩, h3⟩, h4⟩, h5⟩ := h
  exact ⟨Nat.eq_of_beq_eq_true h1, h2, h3, h4, h5⟩

/-- in a certified table the first position of a defined value is its only position -/
private theorem cert_idxOf (t : List Nat) (h : sbcsCertB t = true) (i v : Nat) (hi : t[i]? = some v) (hv : v ≠ undef) :
    idxOf v t = some i := by
  obtain ⟨hlen, hok, hup, hnd, _⟩ := cert_parts t h
  have hid := sbcsTableOk_ascii t hok
  by_cases hlt : i < 128
  · have := hid i hlt
    rw [this] at hi
    cases hi
    exact idxOf_ascii t hid i hlt
  · have hsplit : t = t.take 128 ++ t.drop 128 := (List.take_append_drop 128 t).symm
    have hd : (t.drop 128)[i - 128]? = some v := by
      rw [List.getElem?_drop]
      have : 128 + (i - 128) = i := by omega
      rw [this]; exact hi
    have hv128 : 128 ≤ v := hup v (List.mem_of_getElem? hd)
    have htake : t.take 128 = List.range 128 := by simpa [sbcsTableOk] using hok
    have hpre : ∀ y ∈ t.take 128, y ≠ v := by
      intro y hy
      rw [htake, List.mem_range] at hy
      omega
    rw [hsplit, idxOf_append v _ _ hpre, nodup_idxOf _ _ _ hnd hd hv]
    have : (t.take 128).length = 128 := by rw [htake]; simp
    simp only [Option.map_some, this, Option.some.injEq]
    omega

/-- the regenerated decoding tables are injective on their defined range -/
theorem sbcs_tables_injective : ∀ p ∈ sbcsTables, ∀ (i j v : Nat), p.2[i]? = some v → p.2[j]? = some v → v ≠ undef → i = j := by
  intro p hp i j v hi hj hv
  have hc := List.all_eq_true.mp sbcs_cert_all p hp
  have h1 := cert_idxOf p.2 hc i v hi hv
  have h2 := cert_idxOf p.2 hc j v hj hv
  rw [h1] at h2
  exact Option.some.inj h2

/-- encode ∘ decode = id on every defined byte of the ten tables -/
theorem sbcs_encode_decode_byte : ∀ p ∈ sbcsTables, ∀ (y v : Nat), p.2[y]? = some v → v ≠ undef →
    (sbcsCodec p.2).dec [y] = [v] ∧ (sbcsCodec p.2).enc v = some [y] := by
  intro p hp y v hy hv
  have hc := List.all_eq_true.mp sbcs_cert_all p hp
  constructor
  · simp [sbcsCodec, hy, hv]
  · simp [sbcsCodec, hv, cert_idxOf p.2 hc y v hy hv]

private theorem sbcs_dec_raw (t : List Nat) (h : sbcsCertB t = true) (b : Bytes) (hb : ∀ y ∈ b, y < 256) :
    (∀ x ∈ (sbcsCodec t).dec b, ((sbcsCodec t).enc x).isSome ∨ isEscSurrogate x = true)
      ∧ rawBytes (sbcsCodec t) ((sbcsCodec t).dec b) = b := by
  obtain ⟨hlen, hok, _, _, hsur⟩ := cert_parts t h
  have hid := sbcsTableOk_ascii t hok
  induction b with
  | nil => simp [sbcsCodec, rawBytes]
  | cons y r ih =>
    have hy : y < 256 := hb y (by simp)
    have ih' := ih (fun z hz => hb z (by simp [hz]))
    have hlt : y < t.length := by omega
    have hget : t[y]? = some t[y] := List.getElem?_eq_getElem hlt
    have hdec : (sbcsCodec t).dec (y :: r)
        = (if t[y] = undef then 0xDC00 + y else t[y]) :: (sbcsCodec t).dec r := by
      simp [sbcsCodec, hget]
    rw [hdec]
    by_cases hu : t[y] = undef
    · -- undefined byte: escaped as U+DC00+y, written back as the byte
      simp only [hu, if_true]
      have hy128 : 128 ≤ y := by
        rcases Nat.lt_or_ge y 128 with hl | hl
        · have := hid y hl
          rw [hget, hu] at this
          have : undef = y := Option.some.inj this
          unfold undef at this; omega
        · exact hl
      have hs : isEscSurrogate (0xDC00 + y) = true := by simp [isEscSurrogate]; omega
      have hnone : (sbcsCodec t).enc (0xDC00 + y) = none := by
        have hne : ¬ (0xDC00 + y = undef) := by unfold undef; omega
        cases hi : idxOf (0xDC00 + y) t with
        | none => simp [sbcsCodec, hne, hi]
        | some i =>
          exfalso
          have := idxOf_spec _ t i hi
          have := hsur _ (List.mem_of_getElem? this)
          rw [hs] at this; cases this
      refine ⟨?_, ?_⟩
      · intro x hx
        rcases List.mem_cons.mp hx with rfl | hx
        · right; exact hs
        · exact ih'.1 x hx
      · have e : rawBytes (sbcsCodec t) ((0xDC00 + y) :: (sbcsCodec t).dec r)
            = [y] ++ rawBytes (sbcsCodec t) ((sbcsCodec t).dec r) := by
          simp [rawBytes, List.flatMap_cons, hnone]
        rw [e, ih'.2]; rfl
    · simp only [hu, if_false]
      have henc : (sbcsCodec t).enc t[y] = some [y] := by
        simp [sbcsCodec, hu, cert_idxOf t h y t[y] hget hu]
      refine ⟨?_, ?_⟩
      · intro x hx
        rcases List.mem_cons.mp hx with rfl | hx
        · left; simp [henc]
        · exact ih'.1 x hx
      · have e : rawBytes (sbcsCodec t) (t[y] :: (sbcsCodec t).dec r)
            = [y] ++ rawBytes (sbcsCodec t) ((sbcsCodec t).dec r) := by
          simp [rawBytes, List.flatMap_cons, henc]
        rw [e, ih'.2]; rfl

/-- bytes -> str -> bytes: any byte string read with a single-byte code page and errors="surrogateescape" is written
    back unchanged (defined bytes by injectivity of the table, undefined ones through U+DC80..DCFF), both handler formats -/
theorem sbcs_bytes_roundtrip : ∀ p ∈ sbcsTables, ∀ (f : Fmt), Delegates f → ∀ b : Bytes, (∀ y ∈ b, y < 256) →
    encode (sbcsCodec p.2) f ((sbcsCodec p.2).dec b) = .ok b := by
  intro p hp f hf b hb
  have hc := List.all_eq_true.mp sbcs_cert_all p hp
  have h := sbcs_dec_raw p.2 hc b hb
  have := encode_surrogate_passthrough (sbcsCodec p.2) f hf _ h.1
  rw [h.2] at this
  exact this

private theorem sbcs_agree_all : sbcsEncoders.all (fun p => sbcsCertB p.1 && sbcsEncAgreesB p.1 p.2) = true := by
  decide +kernel

private theorem mem_definedPairs (t : List Nat) (x b : Nat) :
    (x, b) ∈ definedPairs t ↔ (t[b]? = some x ∧ x ≠ undef) := by
  simp only [definedPairs, List.mem_filter, List.mem_zipIdx_iff_getElem?, Bool.not_eq_true']
  constructor
  · rintro ⟨h1, h2⟩
    refine ⟨h1, ?_⟩
    intro hx; rw [hx] at h2; simp at h2
  · rintro ⟨h1, h2⟩
    refine ⟨h1, ?_⟩
    cases hb : Nat.beq x undef with
    | false => rfl
    | true => exact absurd (Nat.eq_of_beq_eq_true hb) h2

/-- the model encoder (first position in the decoding table) IS the encoder tabulated from CPython on every code point:
    `chr(x).encode(cp)` = `[b]` exactly for the listed pairs, an encode error everywhere else -/
theorem sbcs_encoder_tables_agree : ∀ p ∈ sbcsEncoders, ∀ x,
    (sbcsCodec p.1).enc x = (p.2.find? (fun q => q.1 = x)).map (fun q => [q.2]) := by
  intro p hp x
  have hb := List.all_eq_true.mp sbcs_agree_all p hp
  simp only [Bool.and_eq_true] at hb
  obtain ⟨hc, ha⟩ := hb
  have he : definedPairs p.1 = p.2 := by simpa [sbcsEncAgreesB] using ha
  cases hf : p.2.find? (fun q => q.1 = x) with
  | some q =>
    have hq : q.1 = x := by simpa using List.find?_some hf
    have hmem : q ∈ definedPairs p.1 := by rw [he]; exact List.mem_of_find?_eq_some hf
    obtain ⟨h1, h2⟩ := (mem_definedPairs p.1 q.1 q.2).mp hmem
    rw [hq] at h1 h2
    simp [sbcsCodec, h2, cert_idxOf p.1 hc q.2 x h1 h2]
  | none =>
    simp only [Option.map_none]
    by_cases hx : x = undef
    · simp [sbcsCodec, hx]
    · cases hi : idxOf x p.1 with
      | none => simp [sbcsCodec, hx, hi]
      | some i =>
        exfalso
        have hget := idxOf_spec x p.1 i hi
        have hmem : (x, i) ∈ p.2 := by rw [← he]; exact (mem_definedPairs p.1 x i).mpr ⟨hget, hx⟩
        have := List.find?_eq_none.mp hf (x, i) hmem
        simp at this

/-! ### the four double-byte code pages: laws proved from the complete regenerated tables -/

/-- cp932, gbk, cp949, cp950 satisfy the codec laws (no longer hypotheses): the decoder inverts the concatenated
    encoding of every string of faithfully encoded characters - although trail bytes may be 0x5C `\`, 0x40..0x7E -,
    printable ASCII encodes to itself, NUL/LF/CR bytes encode only themselves -/
theorem dbcs_tables_lawful : ∀ T ∈ dbcsTabs, Lawful (dbcsCodec T) (dbcsGood T) :=
  fun T hT => Lemmas.EncodingCjk.dbcs_lawful T (Lemmas.EncodingCjk.dbcs_tabs_cert T hT)

private theorem dbcs_good_of_not_lossy (T : DbcsTab) (x : Nat) (hx : x ∉ lossyCps T)
    (he : ((dbcsCodec T).enc x).isSome) : dbcsGood T x := by
  unfold dbcsGood
  cases hg : tabEncKey T.encGood x with
  | some _ => rfl
  | none =>
    exfalso
    simp only [dbcsCodec, dbcsEncWith, hg] at he
    cases hl : tabEncKey T.encLossy x with
    | none => simp [hl] at he
    | some k =>
      obtain ⟨e, hmem, hcp, _⟩ := Lemmas.EncodingCjk.tabEncKey_some _ _ _ hl
      exact hx (by simp only [lossyCps, List.mem_map]; exact ⟨e, hmem, hcp⟩)

private theorem dbcs_roundtrips (T : DbcsTab) (hT : T ∈ dbcsTabs) (s : Str) (hp : Plain s)
    (hl : ∀ x ∈ s, x ∉ lossyCps T) : RoundTrips (dbcsCodec T) handlerFmt s :=
  roundtrips_of_lawful _ _ (dbcs_tables_lawful T hT) s
    (fun x hx => ⟨(hp.1 x hx).1, (hp.1 x hx).2, dbcs_good_of_not_lossy T x (hl x hx)⟩) hp.2

/-- every plain string without the listed best-fit characters round-trips under every double-byte code page -/
theorem escape_roundtrip_double_byte_pages : ∀ T ∈ dbcsTabs, ∀ s : Str, Plain s → (∀ x ∈ s, x ∉ lossyCps T) →
    RoundTrips (dbcsCodec T) handlerFmt s :=
  fun T hT s hp hl => dbcs_roundtrips T hT s hp hl

theorem escape_roundtrip_cp932 (s : Str) (h : Plain s) (hl : ∀ x ∈ s, x ∉ lossyCps cp932Tab) :
    RoundTrips (dbcsCodec cp932Tab) handlerFmt s := dbcs_roundtrips _ (by simp [dbcsTabs]) s h hl
theorem escape_roundtrip_gbk (s : Str) (h : Plain s) (hl : ∀ x ∈ s, x ∉ lossyCps gbkTab) :
    RoundTrips (dbcsCodec gbkTab) handlerFmt s := dbcs_roundtrips _ (by simp [dbcsTabs]) s h hl
theorem escape_roundtrip_cp949 (s : Str) (h : Plain s) (hl : ∀ x ∈ s, x ∉ lossyCps cp949Tab) :
    RoundTrips (dbcsCodec cp949Tab) handlerFmt s := dbcs_roundtrips _ (by simp [dbcsTabs]) s h hl
theorem escape_roundtrip_cp950 (s : Str) (h : Plain s) (hl : ∀ x ∈ s, x ∉ lossyCps cp950Tab) :
    RoundTrips (dbcsCodec cp950Tab) handlerFmt s := dbcs_roundtrips _ (by simp [dbcsTabs]) s h hl

/-- the best-fit characters are exactly the recorded known finding F15; gbk and cp949 have none -/
theorem lossy_characters_listed :
    lossyCps cp932Tab = [0x301C, 0x2016, 0x2212, 0xA2, 0xA3, 0xAC]
    ∧ lossyCps gbkTab = [] ∧ lossyCps cp949Tab = []
    ∧ lossyCps cp950Tab = [0x2022, 0xFF64, 0x203E, 0x223C, 0x2641, 0x2609, 0xA5, 0xA2, 0xA3] := by decide +kernel

/-- every entry of the source's code page dict has a model codec with a round-trip theorem above -/
theorem all_code_pages_covered : ∀ p ∈ codepageToEncoding,
    (∃ q ∈ sbcsTables, q.1 = p.2) ∨ (∃ T ∈ dbcsTabs, T.name = p.2) := by decide +kernel

/-- a trail byte 0x5C (`\`, e.g. cp932 U+8868 = 95 5C) directly followed by `U+XXXX` is not an escape: the file
    contains the bytes `\U+XXXX`, the readers decode the code page first and return the text unchanged -/
theorem trail_backslash_is_not_an_escape : ∀ T ∈ dbcsTabs, ∀ x a b c d : Nat, dbcsGood T x → x ≠ 92 →
    isUpperHex a = true → isUpperHex b = true → isUpperHex c = true → isUpperHex d = true →
    decodeDxfUnicode ((dbcsCodec T).dec (encAll (dbcsCodec T) [x, 85, 43, a, b, c, d])) = [x, 85, 43, a, b, c, d] := by
  intro T hT x a b c d hx hne ha hb hc hd
  have L := dbcs_tables_lawful T hT
  have hg : ∀ y ∈ [x, 85, 43, a, b, c, d], dbcsGood T y := by
    intro y hy
    simp only [List.mem_cons, List.not_mem_nil, or_false] at hy
    have hex : ∀ z, isUpperHex z = true → dbcsGood T z := by
      intro z hz
      simp only [isUpperHex, decide_eq_true_eq] at hz
      exact (L.ascii z (by omega) (by omega)).1
    rcases hy with rfl | rfl | rfl | rfl | rfl | rfl | rfl
    · exact hx
    · exact (L.ascii 85 (by omega) (by omega)).1
    · exact (L.ascii 43 (by omega) (by omega)).1
    · exact hex _ ha
    · exact hex _ hb
    · exact hex _ hc
    · exact hex _ hd
  rw [L.dec_enc _ hg]
  apply decode_nomatch
  simp [hasDxfUnicode, matchAt, hne]

/-- writing a text in pieces (one `write()` per tag, as the tag writers do) gives the same bytes as writing it at once -/
theorem encode_append (c : Codec) (good : Nat → Prop) (L : Lawful c good) (a b : Str)
    (ha : ∀ x ∈ a, x ≤ 0xFFFF ∧ isEscSurrogate x = false) (hb : ∀ x ∈ b, x ≤ 0xFFFF ∧ isEscSurrogate x = false) :
    ∃ p q, encode c fixedFmt a = .ok p ∧ encode c fixedFmt b = .ok q ∧ encode c fixedFmt (a ++ b) = .ok (p ++ q) := by
  refine ⟨_, _, encode_eq_escStr c good L a ha, encode_eq_escStr c good L b hb, ?_⟩
  rw [encode_eq_escStr c good L (a ++ b) (by
    intro x hx
    rcases List.mem_append.mp hx with h | h
    · exact ha x h
    · exact hb x h), escStr_append, encAll_append]

/-! ### framing: many values in one file -/

private theorem splitOn_ne_nil (sep : Nat) (l : List Nat) : splitOn sep l ≠ [] := by
  cases l with
  | nil => simp [splitOn]
  | cons x r =>
    simp only [splitOn]
    split
    · simp
    · split <;> simp

private theorem splitOn_value (sep : Nat) (v rest : List Nat) (hv : sep ∉ v) :
    splitOn sep (v ++ sep :: rest) = v :: splitOn sep rest := by
  induction v with
  | nil =>
    simp only [List.nil_append, splitOn]
    cases h : splitOn sep rest with
    | nil => exact absurd h (splitOn_ne_nil sep rest)
    | cons p ps => simp
  | cons a v ih =>
    have ha : ¬ (a = sep) := fun h => hv (by simp [h])
    have := ih (fun h => hv (by simp [h]))
    simp only [List.cons_append, splitOn, this, ha, if_false]

private theorem splitOn_joinSep (sep : Nat) (vs : List (List Nat)) (h : ∀ v ∈ vs, sep ∉ v) :
    splitOn sep (joinSep sep vs) = vs ++ [[]] := by
  induction vs with
  | nil => simp [joinSep, splitOn]
  | cons v vs ih =>
    have : joinSep sep (v :: vs) = v ++ sep :: joinSep sep vs := by simp [joinSep, List.flatMap_cons]
    rw [this, splitOn_value sep v _ (h v (by simp)), ih (fun w hw => h w (by simp [hw]))]
    rfl

private theorem escStr_joinSep (c : Codec) (sep : Nat) (hsep : (c.enc sep).isSome) (vs : List Str) :
    escStr c (joinSep sep vs) = joinSep sep (vs.map (escStr c)) := by
  induction vs with
  | nil => rfl
  | cons v vs ih =>
    have e1 : joinSep sep (v :: vs) = v ++ [sep] ++ joinSep sep vs := by simp [joinSep, List.flatMap_cons]
    have e2 : joinSep sep ((v :: vs).map (escStr c)) = escStr c v ++ [sep] ++ joinSep sep (vs.map (escStr c)) := by
      simp [joinSep, List.flatMap_cons]
    have e3 : escStr c [sep] = [sep] := by simp [escStr, escChar, hsep]
    rw [e1, e2, escStr_append, escStr_append, ih, e3]

private theorem not_mem_escStr (c : Codec) (sep : Nat) (hsep : sep < 32) (v : Str) (hv : sep ∉ v) : sep ∉ escStr c v := by
  intro h
  simp only [escStr, List.mem_flatMap] at h
  obtain ⟨x, hx, hxs⟩ := h
  unfold escChar at hxs
  split at hxs
  · simp at hxs; exact hv (hxs ▸ hx)
  · have := esc4_printable x sep hxs
    omega

/-- ASCII DXF through the strict reader: the values of a file (one per line; BMP, no U+DC80..DCFF, no LF, no literal
    escape, no best-fit character) are written, the file is decoded as a whole with the code page, split into lines at
    the text level, and every line is decoded back to its value - for any codec with the laws that encodes LF as 0x0A
    (trail bytes cannot be taken for line ends and a line end cannot be swallowed by a lead byte) -/
theorem strict_reader_lines (c : Codec) (good : Nat → Prop) (L : Lawful c good)
    (hlf : good 10 ∧ c.enc 10 = some [10]) (vs : List Str)
    (hs : ∀ v ∈ vs, (∀ x ∈ v, x ≤ 0xFFFF ∧ isEscSurrogate x = false ∧ x ≠ 10 ∧ ((c.enc x).isSome → good x))
      ∧ hasDxfUnicode v = false) :
    ∃ b, encode c fixedFmt (joinSep 10 vs) = .ok b ∧ (splitOn 10 (c.dec b)).map decodeDxfUnicode = vs ++ [[]]
      ∧ ((∀ v ∈ vs, 13 ∉ v) → 13 ∉ c.dec b) := by
  have hsome : (c.enc 10).isSome := by simp [hlf.2]
  have hall : ∀ x ∈ joinSep 10 vs, x ≤ 0xFFFF ∧ isEscSurrogate x = false ∧ ((c.enc x).isSome → good x) := by
    intro x hx
    simp only [joinSep, List.mem_flatMap, List.mem_append, List.mem_singleton] at hx
    obtain ⟨v, hv, hxv | hxv⟩ := hx
    · have := (hs v hv).1 x hxv
      exact ⟨this.1, this.2.1, this.2.2.2⟩
    · subst hxv
      exact ⟨by omega, by decide, fun _ => hlf.1⟩
  refine ⟨_, encode_eq_escStr c good L _ (fun x hx => ⟨(hall x hx).1, (hall x hx).2.1⟩), ?_⟩
  rw [L.dec_enc _ (escStr_good c good L _ (fun x hx => (hall x hx).2.2)), escStr_joinSep c 10 hsome vs]
  refine ⟨?_, ?_⟩
  · rw [splitOn_joinSep 10 _ (by
      intro w hw
      simp only [List.mem_map] at hw
      obtain ⟨v, hv, rfl⟩ := hw
      exact not_mem_escStr c 10 (by omega) v (fun h => ((hs v hv).1 10 h).2.2.1 rfl))]
    simp only [List.map_append, List.map_map, List.map_cons, List.map_nil]
    congr 1
    · calc vs.map (decodeDxfUnicode ∘ escStr c) = vs.map id := by
            apply List.map_congr_left
            intro v hv
            exact unescape_escStr c v (hs v hv).2 (fun x hx => ((hs v hv).1 x hx).1)
        _ = vs := by simp
    · simp [decodeDxfUnicode, reSplit_nil, decodePart, matchAt]
  · -- universal newlines: the text mode reader would also break lines at CR; there is none
    intro hcr hmem
    simp only [joinSep, List.mem_flatMap, List.mem_map, List.mem_append, List.mem_singleton] at hmem
    obtain ⟨w, ⟨v, hv, rfl⟩, h | h⟩ := hmem
    · exact not_mem_escStr c 13 (by omega) v (hcr v hv) h
    · omega

/-- Binary DXF (`sep = 0`, NUL terminated strings) and the recover reader on ASCII DXF (`sep = 10`): the BYTES are split
    at the separator first and every piece is decoded on its own - safe because no NUL/LF byte occurs inside an encoded
    value (double-byte trail bytes are >= 0x40) -/
theorem byte_split_readers (c : Codec) (good : Nat → Prop) (L : Lawful c good) (sep : Nat) (hsep : sep = 0 ∨ sep = 10)
    (vs : List Str)
    (hs : ∀ v ∈ vs, (∀ x ∈ v, x ≤ 0xFFFF ∧ isEscSurrogate x = false ∧ (x ≠ 0 ∧ x ≠ 10 ∧ x ≠ 13)
      ∧ ((c.enc x).isSome → good x)) ∧ hasDxfUnicode v = false) :
    ∃ bs : List Bytes, bs.length = vs.length
      ∧ (∀ i, (h : i < vs.length) → encode c fixedFmt vs[i] = .ok (bs[i]?.getD []))
      ∧ (splitOn sep (joinSep sep bs)).map (fun p => decodeDxfUnicode (c.dec p)) = vs ++ [[]]
      ∧ ((∀ v ∈ vs, hasMif v = false) →
          (splitOn sep (joinSep sep bs)).map (fun p => recoverStr (c.dec p)) = (vs ++ [[]]).map .text) := by
  refine ⟨vs.map (fun v => encAll c (escStr c v)), by simp, ?_, ?_⟩
  · intro i hi
    have hv : vs[i] ∈ vs := List.getElem_mem hi
    rw [encode_eq_escStr c good L vs[i] (fun x hx => ⟨((hs _ hv).1 x hx).1, ((hs _ hv).1 x hx).2.1⟩)]
    simp [hi]
  · have hclean : ∀ w ∈ vs.map (fun v => encAll c (escStr c v)), sep ∉ w := by
      intro w hw
      simp only [List.mem_map] at hw
      obtain ⟨v, hv, rfl⟩ := hw
      obtain ⟨b, hb1, hb2⟩ := encode_clean c good L v
        (fun x hx => ⟨((hs v hv).1 x hx).1, ((hs v hv).1 x hx).2.1⟩) (fun x hx => ((hs v hv).1 x hx).2.2.1)
      rw [encode_eq_escStr c good L v (fun x hx => ⟨((hs v hv).1 x hx).1, ((hs v hv).1 x hx).2.1⟩)] at hb1
      cases hb1
      intro hmem
      have := hb2 sep hmem
      rcases hsep with h | h <;> omega
    have hdec : ∀ v ∈ vs, c.dec (encAll c (escStr c v)) = escStr c v := by
      intro v hv
      exact L.dec_enc _ (escStr_good c good L v (fun x hx => ((hs v hv).1 x hx).2.2.2))
    rw [splitOn_joinSep sep _ hclean]
    have hnil : c.dec [] = [] := by
      have := L.dec_enc [] (by simp)
      simpa [encAll] using this
    constructor
    · simp only [List.map_append, List.map_map, List.map_cons, List.map_nil]
      congr 1
      · calc vs.map ((fun p => decodeDxfUnicode (c.dec p)) ∘ fun v => encAll c (escStr c v)) = vs.map id := by
              apply List.map_congr_left
              intro v hv
              simp only [Function.comp, id]
              rw [hdec v hv]
              exact unescape_escStr c v (hs v hv).2 (fun x hx => ((hs v hv).1 x hx).1)
          _ = vs := by simp
      · simp [hnil, decodeDxfUnicode, reSplit_nil, decodePart, matchAt]
    · intro hm
      simp only [List.map_append, List.map_map, List.map_cons, List.map_nil]
      congr 1
      · apply List.map_congr_left
        intro v hv
        simp only [Function.comp]
        obtain ⟨b, hb1, hb2⟩ := recover_roundtrip c good L v
          (fun x hx => ⟨((hs v hv).1 x hx).1, ((hs v hv).1 x hx).2.1, ((hs v hv).1 x hx).2.2.2⟩) (hs v hv).2 (hm v hv)
        rw [encode_eq_escStr c good L v (fun x hx => ⟨((hs v hv).1 x hx).1, ((hs v hv).1 x hx).2.1⟩)] at hb1
        cases hb1
        exact hb2
      · simp [hnil, recoverStr, hasDxfUnicode, hasMif]

private theorem crlf_inverse (b : Bytes) (h : 13 ∉ b) : crlfToLf (lfToCrlf b) = b := by
  induction b with
  | nil => simp [lfToCrlf, crlfToLf]
  | cons x r ih =>
    have hx : x ≠ 13 := fun e => h (by simp [e])
    have ih' := ih (fun m => h (by simp [m]))
    by_cases h10 : x = 10
    · subst h10
      simp [lfToCrlf, crlfToLf, ih']
    · simp only [lfToCrlf, h10, if_false]
      cases hr : lfToCrlf r with
      | nil =>
        rw [hr] at ih'
        simp [crlfToLf] at ih' ⊢
        exact ih'
      | cons y t =>
        rw [hr] at ih'
        simp only [crlfToLf, hx, false_and, if_false, ih']

/-- a framing byte in the written bytes is the encoding of that very character of the text -/
private theorem framing_byte_from_text (c : Codec) (good : Nat → Prop) (L : Lawful c good) (s : Str) (y : Nat)
    (hy : y = 0 ∨ y = 10 ∨ y = 13) (hm : y ∈ encAll c (escStr c s)) : y ∈ s := by
  simp only [encAll, List.mem_flatMap] at hm
  obtain ⟨x, hx, hyx⟩ := hm
  cases hex : c.enc x with
  | none => simp [hex] at hyx
  | some bx =>
    simp only [hex, Option.getD_some] at hyx
    have hxy := L.clean x bx hex y hyx hy
    subst hxy
    simp only [escStr, List.mem_flatMap] at hx
    obtain ⟨z, hz, hxz⟩ := hx
    unfold escChar at hxz
    split at hxz
    · simp at hxz; exact hxz ▸ hz
    · have := esc4_printable z x hxz
      omega

/-- base64 transport and zip reader: `encode_base64` turns LF into CRLF on the encoded bytes, `decode_base64` /
    `ZipReader.readline` turn CRLF into LF on the bytes before decoding; on the bytes of any text without CR this is the
    identity - for every codec with the laws, because no CR byte hides in a multi-byte character -/
theorem byte_level_line_ends (c : Codec) (good : Nat → Prop) (L : Lawful c good) (s : Str)
    (hs : ∀ x ∈ s, x ≤ 0xFFFF ∧ isEscSurrogate x = false) (hcr : 13 ∉ s) :
    ∃ b, encode c fixedFmt s = .ok b ∧ 13 ∉ b ∧ crlfToLf (lfToCrlf b) = b := by
  refine ⟨_, encode_eq_escStr c good L s hs, ?_, ?_⟩
  · exact fun hm => hcr (framing_byte_from_text c good L s 13 (by omega) hm)
  · exact crlf_inverse _ (fun hm => hcr (framing_byte_from_text c good L s 13 (by omega) hm))

/-- LF is encoded as the byte 0x0A by every one of the 14 code pages (the side condition of `strict_reader_lines`) -/
theorem lf_encodes_itself :
    (∀ p ∈ sbcsTables, (10 ∈ p.2 ∧ 10 ≠ undef) ∧ (sbcsCodec p.2).enc 10 = some [10])
    ∧ (∀ T ∈ dbcsTabs, dbcsGood T 10 ∧ (dbcsCodec T).enc 10 = some [10]) := by
  constructor
  · intro p hp
    have hc := List.all_eq_true.mp sbcs_tables_ok p hp
    have hid := sbcsTableOk_ascii p.2 hc
    have hget := hid 10 (by omega)
    have hne : (10 : Nat) ≠ undef := by unfold undef; omega
    exact ⟨⟨List.mem_of_getElem? hget, hne⟩, by simp [sbcsCodec, hne, idxOf_ascii p.2 hid 10 (by omega)]⟩
  · have h : dbcsTabs.all (fun T => tabEncKey T.encGood 10 == some 10) = true := by decide +kernel
    intro T hT
    have := List.all_eq_true.mp h T hT
    simp only [beq_iff_eq] at this
    exact ⟨by simp [dbcsGood, this], by simp [dbcsCodec, dbcsEncWith, this, keyBytes]⟩

/-! ### encoding detection -/

private theorem find?_unique {α : Type} (p : α → Bool) (l : List α) (a : α) (ha : a ∈ l) (hp : p a = true)
    (hu : ∀ b ∈ l, p b = true → b = a) : l.find? p = some a := by
  induction l with
  | nil => cases ha
  | cons x r ih =>
    by_cases hx : p x = true
    · have hxa : x = a := hu x (by simp) hx
      subst hxa
      simp [hx]
    · simp only [List.find?_cons, hx]
      rcases List.mem_cons.mp ha with rfl | ha'
      · exact absurd hp hx
      · exact ih ha' (fun b hb => hu b (List.mem_cons_of_mem _ hb))

/-- every spelling `<anything>` + table key names the key's codec: `ANSI_1252`, `ansi_1252`, `DOS932`, `874`, ...
    (the `endswith` scan cannot hit another key: no key is a suffix of another) -/
theorem toencoding_any_prefix (pre : Str) : ∀ p ∈ codepageToEncoding,
    toencoding codepageToEncoding (pre ++ p.1) = p.2 := by
  intro p hp
  unfold toencoding
  rw [find?_unique (fun q => endsWith (pre ++ p.1) q.1) codepageToEncoding p hp
    (by simp [endsWith, List.isSuffixOf_iff_suffix])]
  intro b hb pb
  simp only [endsWith, List.isSuffixOf_iff_suffix] at pb
  have pa : p.1 <:+ pre ++ p.1 := List.suffix_append _ _
  have hsf := table_suffix_free
  simp only [suffixFreeB, List.all_eq_true, Bool.or_eq_true, Bool.not_eq_true', decide_eq_true_eq] at hsf
  rcases Nat.le_total b.1.length p.1.length with hl | hl
  · have := List.suffix_of_suffix_length_le pb pa hl
    rcases hsf b hb p hp with h | h
    · rw [← List.isSuffixOf_iff_suffix] at this; rw [this] at h; cases h
    · exact h
  · have := List.suffix_of_suffix_length_le pa pb hl
    rcases hsf p hp b hb with h | h
    · rw [← List.isSuffixOf_iff_suffix] at this; rw [this] at h; cases h
    · exact h.symm

/-- the readers' rule on the DXF versions ezdxf knows (tabulated from `const.acad_release` with Python's own string
    comparison): the code page of $DWGCODEPAGE - in any spelling ending in a table key - up to R2004, UTF-8 from R2007 -/
theorem detect_encoding_known_versions (pre : Str) : ∀ v ∈ acadVersions, ∀ p ∈ codepageToEncoding,
    detectEncoding codepageToEncoding v.1 (pre ++ p.1) = (if v.2 then utf8Name else p.2)
    ∧ detectRecover codepageToEncoding v.1 (pre ++ p.1) = (if v.2 then utf8Name else p.2) := by
  intro v hv p hp
  have hall : acadVersions.all (fun v => strLt v.1 ac1021 == !v.2 && !v.1.isEmpty) = true := by decide +kernel
  have hver : strLt v.1 ac1021 = !v.2 ∧ v.1.isEmpty = false := by
    have := List.all_eq_true.mp hall v hv
    simpa only [Bool.and_eq_true, beq_iff_eq, Bool.not_eq_true'] using this
  unfold detectRecover detectEncoding
  rw [hver.1, hver.2, toencoding_any_prefix pre p hp]
  cases v.2 <;> simp

private theorem binName_spec (n rest : Bytes) (hl : 5 ≤ n.length) (hz : ∀ b ∈ n, b ≠ 0) : binName (n ++ 0 :: rest) = n := by
  unfold binName
  have h1 : (n ++ 0 :: rest).take 5 = n.take 5 := by
    rw [List.take_append_of_le_length hl]
  have h2 : (n ++ 0 :: rest).drop 5 = n.drop 5 ++ 0 :: rest := by
    rw [List.drop_append_of_le_length hl]
  have h3 : ∀ (l : Bytes), (∀ b ∈ l, b ≠ 0) → (l ++ 0 :: rest).takeWhile (fun b => b != 0) = l := by
    intro l
    induction l with
    | nil => intro _; simp
    | cons a l ih =>
      intro h
      have ha : a ≠ 0 := h a (by simp)
      simp [ha, ih (fun b hb => h b (by simp [hb]))]
  rw [h1, h2, h3 _ (fun b hb => hz b (List.mem_of_mem_drop hb)), List.take_append_drop]

/-- Binary DXF `scan_params`: a $DWGCODEPAGE name `n` (no NUL) followed by its terminator is read back exactly when group
    codes have two bytes (R13+, `0 :: n`) and `n` has at least five bytes, or when they have one byte (R12) and `n` starts
    with 'A' and has at least five bytes; an R12 name that does not start with 'A' (e.g. "dos932") loses its first
    character - harmless for six or more bytes because `toencoding` looks at the suffix only -/
theorem binScan_spec (n rest : Bytes) (hz : ∀ b ∈ n, b ≠ 0) :
    (5 ≤ n.length → binScan (0 :: (n ++ 0 :: rest)) = n)
    ∧ (5 ≤ n.length → n.head? = some 65 → binScan (n ++ 0 :: rest) = n)
    ∧ (6 ≤ n.length → n.head? ≠ some 65 → binScan (n ++ 0 :: rest) = n.drop 1) := by
  refine ⟨?_, ?_, ?_⟩
  · intro hl
    simp only [binScan, List.head?_cons, Option.some.injEq, Nat.reduceEqDiff, if_false, List.drop_succ_cons, List.drop_zero]
    exact binName_spec n rest hl hz
  · intro hl hh
    have : (n ++ 0 :: rest).head? = some 65 := by
      cases n with
      | nil => simp at hl
      | cons a r => simpa using hh
    simp only [binScan, this, if_true]
    exact binName_spec n rest hl hz
  · intro hl hh
    cases n with
    | nil => simp at hl
    | cons a r =>
      have ha : ¬ (a = 65) := by simpa using hh
      have : binScan ((a :: r) ++ 0 :: rest) = binName (r ++ 0 :: rest) := by
        simp [binScan, ha]
      rw [this]
      exact binName_spec r rest (by simp at hl; omega) (fun b hb => hz b (by simp [hb]))

/-! ### end to end: header name -> detected codec -> round trip, for every entry of the source's code page dict -/

/-- R12..R2004 (every version of `const.acad_release` below AC1021): a document with code page `e` writes
    `$DWGCODEPAGE = tocodepage(e)`, all three readers detect `e` again, and under the codec `e` every plain string (without
    the listed best-fit characters for cp932/cp950) is written and read back by both readers -/
theorem legacy_files_end_to_end : ∀ p ∈ codepageToEncoding, ∀ v ∈ acadVersions, v.2 = false →
    detectEncoding codepageToEncoding v.1 (tocodepage encodingToCodepage p.2) = p.2
    ∧ detectRecover codepageToEncoding v.1 (tocodepage encodingToCodepage p.2) = p.2
    ∧ ((∃ q ∈ sbcsTables, q.1 = p.2 ∧ ∀ s, Plain s → RoundTrips (sbcsCodec q.2) handlerFmt s)
      ∨ (∃ T ∈ dbcsTabs, T.name = p.2 ∧
          ∀ s, Plain s → (∀ x ∈ s, x ∉ lossyCps T) → RoundTrips (dbcsCodec T) handlerFmt s)) := by
  intro p hp v hv hleg
  have hname := (names_bijective.1 p hp).2
  have hdet := detect_encoding_known_versions ansiPrefix v hv p hp
  rw [hleg] at hdet
  simp only [Bool.false_eq_true, if_false] at hdet
  rw [hname]
  refine ⟨hdet.1, hdet.2, ?_⟩
  rcases all_code_pages_covered p hp with ⟨q, hq, hqn⟩ | ⟨T, hT, hTn⟩
  · left
    exact ⟨q, hq, hqn, fun s hs => sbcs_roundtrips q.2 (List.all_eq_true.mp sbcs_tables_ok q hq) s hs⟩
  · right
    exact ⟨T, hT, hTn, fun s hs hl => dbcs_roundtrips T hT s hs hl⟩

/-- R2007+ (AC1021 and later): whatever $DWGCODEPAGE says the readers use UTF-8, nothing is escaped and every string of
    Unicode scalar values (all planes) comes back from both readers -/
theorem modern_files_end_to_end : ∀ v ∈ acadVersions, v.2 = true → ∀ cp : Str,
    detectEncoding codepageToEncoding v.1 cp = utf8Name ∧ detectRecover codepageToEncoding v.1 cp = utf8Name
    ∧ ∀ s : Str, (∀ x ∈ s, scalar x) → hasDxfUnicode s = false →
        ∃ b, encode utf8Codec handlerFmt s = .ok b ∧ decodeDxfUnicode (utf8Codec.dec b) = s
          ∧ (hasMif s = false → recoverStr (utf8Codec.dec b) = .text s) := by
  intro v hv hmod cp
  have hall : acadVersions.all (fun v => strLt v.1 ac1021 == !v.2 && !v.1.isEmpty) = true := by decide +kernel
  have hver : strLt v.1 ac1021 = !v.2 ∧ v.1.isEmpty = false := by
    have := List.all_eq_true.mp hall v hv
    simpa only [Bool.and_eq_true, beq_iff_eq, Bool.not_eq_true'] using this
  refine ⟨by simp [detectEncoding, hver.1, hmod], by simp [detectRecover, detectEncoding, hver.1, hver.2, hmod], ?_⟩
  intro s hs hn
  obtain ⟨b, h1, _, h3, h4⟩ := utf8_identity handlerFmt s hs hn
  exact ⟨b, h1, h3, h4⟩

/-! ### the writer's side: header and bytes of every saved document agree (histories over loaded documents) -/

/-- the decision logic of `Drawing._update_metadata` / `output_encoding` / `save` / `write` in the current source has
    the shape `writeDoc` models (extracted from the AST on every run): the $DWGCODEPAGE assignment is unconditional -/
theorem source_writer_as_modelled : writerRules = writerAsModelled := by decide

/-- for EVERY document state - new or loaded, whatever $DWGCODEPAGE its header held before, any known DXF version, any
    supported code page in `doc.encoding` - the $ACADVER / $DWGCODEPAGE written into the file determine, through the
    readers' detection, exactly the encoding the bytes were written with -/
theorem written_header_matches_bytes (s : DocState) (u : Bool) (hv : (s.version, u) ∈ acadVersions) :
    ∀ p ∈ codepageToEncoding, s.encoding = p.2 →
    detectEncoding codepageToEncoding (writeDoc encodingToCodepage s).acadver (writeDoc encodingToCodepage s).codepage
        = (writeDoc encodingToCodepage s).bytesEncoding
    ∧ detectRecover codepageToEncoding (writeDoc encodingToCodepage s).acadver (writeDoc encodingToCodepage s).codepage
        = (writeDoc encodingToCodepage s).bytesEncoding := by
  intro p hp he
  have hname := (names_bijective.1 p hp).2
  have hdet := detect_encoding_known_versions ansiPrefix (s.version, u) hv p hp
  have hall : acadVersions.all (fun v => strLt v.1 ac1021 == !v.2 && !v.1.isEmpty) = true := by decide +kernel
  have hver : strLt s.version ac1021 = !u := by
    have := List.all_eq_true.mp hall (s.version, u) hv
    simp only [Bool.and_eq_true, beq_iff_eq] at this
    exact this.1
  simp only [writeDoc, he, hname, hver]
  cases u <;> simpa using hdet

/-- loading what was written restores version and code page (so a second save starts from the same state) -/
theorem load_after_write (s : DocState) : ∀ p ∈ codepageToEncoding, s.encoding = p.2 →
    (loadDoc codepageToEncoding (writeDoc encodingToCodepage s)).encoding = s.encoding
    ∧ (loadDoc codepageToEncoding (writeDoc encodingToCodepage s)).version = s.version
    ∧ (loadDoc codepageToEncoding (writeDoc encodingToCodepage s)).loaded = true := by
  intro p hp he
  have h := names_roundtrip.1 p hp
  simp only [loadDoc, writeDoc, he, h, and_self]

/-- the history of seed C09-m4: save, LOAD, change the code page and the version, save again: header and bytes of the
    second file agree (for the m4 change they do not: the header keeps the first code page) -/
theorem history_header_matches_bytes (s : DocState) (e2 v2 : Str) (u : Bool) (hv : (v2, u) ∈ acadVersions) :
    ∀ p ∈ codepageToEncoding, e2 = p.2 →
    let s2 : DocState := { loadDoc codepageToEncoding (writeDoc encodingToCodepage s) with encoding := e2, version := v2 }
    detectEncoding codepageToEncoding (writeDoc encodingToCodepage s2).acadver (writeDoc encodingToCodepage s2).codepage
      = (writeDoc encodingToCodepage s2).bytesEncoding := by
  intro p hp he
  exact (written_header_matches_bytes _ u hv p hp he).1

/-! ### `BinaryTagWriter.write_str` -/

private theorem take2_pairs (tags : List (Str × Str)) :
    take2 (tags.flatMap (fun t => [t.1, t.2]) ++ [[]]) = tags := by
  induction tags with
  | nil => simp [take2]
  | cons t r ih => simp [List.flatMap_cons, take2, ih]

/-- a preformatted string of tags whose code lines and values contain no LF is taken apart into exactly these tags -
    whatever else the values contain (U+2028, U+2029, U+0085, VT, FF, FS..RS: the characters `str.splitlines()` would
    split at; seed C09-m6) -/
theorem write_str_tags (tags : List (Str × Str)) (h : ∀ t ∈ tags, 10 ∉ t.1 ∧ 10 ∉ t.2) :
    writeStrTags (tagLines tags) = tags := by
  have e : tagLines tags = joinSep 10 (tags.flatMap (fun t => [t.1, t.2])) := by
    induction tags with
    | nil => rfl
    | cons t r ih =>
      have := ih (fun x hx => h x (by simp [hx]))
      simp only [tagLines, joinSep, List.flatMap_cons, List.flatMap_append, List.flatMap_nil, List.append_nil,
        List.append_assoc] at this ⊢
      rw [this]
  unfold writeStrTags
  rw [e, splitOn_joinSep 10 _ (by
    intro v hv
    simp only [List.mem_flatMap, List.mem_cons, List.not_mem_nil, or_false] at hv
    obtain ⟨t, ht, rfl | rfl⟩ := hv
    · exact (h t ht).1
    · exact (h t ht).2)]
  exact take2_pairs tags

/-! ### MIF escapes `\M+kXXXX` (read by the recover loader only) -/

/-- `MIF_CODE_PAGE` as the source has it, resolved through `codecs.lookup`: 1 cp932, 2 cp950, 3 cp949, 5 cp936 = gbk;
    page 4 is spelled "cp1391" in the source, which is no Python codec (Johab would be cp1361): `\M+4XXXX` is never decoded -/
theorem mif_pages_as_tabulated :
    mifCodePage = [(49, cp932Tab.name), (50, cp950Tab.name), (51, cp949Tab.name), (52, []), (53, gbkTab.name)] := by
  decide +kernel

/-- the recover string branch with the MIF branch spelled out refines `recoverStr` (whose `.mif` was a placeholder) -/
theorem recover_text_refines (pages : Nat → Option (Bytes → Option Str)) (s : Str) :
    (∀ t, recoverStr s = .text t → recoverText pages s = t)
    ∧ (recoverStr s = .mif → recoverText pages s = decodeMifWith pages s) := by
  unfold recoverStr recoverText
  cases hasDxfUnicode s <;> cases hasMif s <;> simp

private theorem hexVal_hexDigit (d : Nat) (hd : d < 16) : hexVal? (hexDigit true d) = some d := by
  unfold hexVal? hexDigit
  by_cases h : d < 10
  · have : 48 ≤ 48 + d ∧ 48 + d ≤ 57 := by omega
    simp [h, this]
  · have h1 : ¬ (48 ≤ 55 + d ∧ 55 + d ≤ 57) := by omega
    have h2 : 65 ≤ 55 + d ∧ 55 + d ≤ 70 := by omega
    simp [h, h1, h2]

private theorem unhex_hexFixed4 (key : Nat) (hk : key < 65536) :
    unhex (hexFixed true 4 key) = some [key / 256, key % 256] := by
  rw [hexFixed4]
  have e1 : key / 4096 % 16 * 16 + key / 256 % 16 = key / 256 := by omega
  have e2 : key / 16 % 16 * 16 + key % 16 = key % 256 := by omega
  simp [unhex, hexVal_hexDigit _ (Nat.mod_lt _ (by decide : 16 > 0)), e1, e2]

private theorem mifSplit_nil (lit : Str) : mifSplit lit [] = [lit] := by rw [mifSplit]

/-- a well-formed MIF escape of a defined two-byte sequence is decoded to its character: `\M+1` + hex(lead, trail)
    under the page's table, for every entry of the regenerated decoders -/
theorem mif_escape_decoded : ∀ T ∈ dbcsTabs, ∀ (pages : Nat → Option (Bytes → Option Str)) (k : Nat),
    pages k = some (dbcsDecStrictWith (isLeadB T.leads) (tabLookup T.dec)) → isMifPage k = true →
    ∀ e ∈ T.dec, 256 ≤ ekey e → ekey e < 65536 →
    decodeMifWith pages (mifEsc k (ekey e)) = [ecp e] ∧ hasMif (mifEsc k (ekey e)) = true := by
  intro T hT pages k hpg hk e he h256 h64k
  have C := Lemmas.EncodingCjk.dbcs_tabs_cert T hT
  have hl : tabLookup T.dec (ekey e) = some (ecp e) := by
    unfold tabLookup
    rw [Lemmas.EncodingCjk.find_of_strict T.dec 0 C.keys e he]; rfl
  have hlead : isLeadB T.leads (ekey e / 256) = true := by
    have := List.all_eq_true.mp C.entries e he
    unfold decEntryOkB at this
    have hn : ¬ ekey e < 256 := by omega
    simpa [hn] using this
  have u1 := upperHex_of_range (hexDigit_range (ekey e / 4096 % 16) (Nat.mod_lt _ (by decide)))
  have u2 := upperHex_of_range (hexDigit_range (ekey e / 256 % 16) (Nat.mod_lt _ (by decide)))
  have u3 := upperHex_of_range (hexDigit_range (ekey e / 16 % 16) (Nat.mod_lt _ (by decide)))
  have u4 := upperHex_of_range (hexDigit_range (ekey e % 16) (Nat.mod_lt _ (by decide)))
  have hesc : mifEsc k (ekey e) = [92, 77, 43, k, hexDigit true (ekey e / 4096 % 16), hexDigit true (ekey e / 256 % 16),
      hexDigit true (ekey e / 16 % 16), hexDigit true (ekey e % 16)] := by
    simp [mifEsc, mifPrefix, hexFixed4]
  have hat : mifAt (mifEsc k (ekey e)) = true := by
    rw [hesc]; simp [mifAt, hk, u1, u2, u3, u4]
  have hdrop : (mifEsc k (ekey e)).drop 4 = hexFixed true 4 (ekey e) := by
    simp [mifEsc, mifPrefix]
  have hdec : dbcsDecStrictWith (isLeadB T.leads) (tabLookup T.dec) [ekey e / 256, ekey e % 256] = some [ecp e] := by
    simp [dbcsDecStrictWith, hlead, Lemmas.EncodingCjk.key_split, hl]
  have hpart : decodeMifPartWith pages (mifEsc k (ekey e)) = [ecp e] := by
    unfold decodeMifPartWith
    rw [hdrop, unhex_hexFixed4 _ h64k]
    have h3 : (mifEsc k (ekey e))[3]? = some k := by rw [hesc]; rfl
    have hpre : mifPrefix.isPrefixOf (mifEsc k (ekey e)) = true := by rw [hesc]; simp [mifPrefix, List.isPrefixOf]
    simp [hpre, h3, hpg, hdec]
  constructor
  · unfold decodeMifWith
    have hsplit : mifSplit [] (mifEsc k (ekey e)) = [[], mifEsc k (ekey e), []] := by
      have hcons : mifEsc k (ekey e) = 92 :: [77, 43, k, hexDigit true (ekey e / 4096 % 16),
          hexDigit true (ekey e / 256 % 16), hexDigit true (ekey e / 16 % 16), hexDigit true (ekey e % 16)] := hesc
      rw [hcons, mifSplit]
      rw [← hcons]
      simp only [hat, dite_true]
      rw [hesc]
      simp [mifSplit_nil]
    have hnil : decodeMifPartWith pages [] = [] := by simp [decodeMifPartWith, mifPrefix]
    rw [hsplit]
    simp only [List.flatMap_cons, List.flatMap_nil, hpart, hnil, List.nil_append, List.append_nil]
  · rw [hesc]
    simp only [hasMif]
    rw [← hesc, hat]; rfl

private theorem mifSplit_nomatch (s : Str) : ∀ lit, hasMif s = false → mifSplit lit s = [lit ++ s] := by
  induction s with
  | nil => intro lit _; simp [mifSplit_nil]
  | cons x r ih =>
    intro lit h
    simp only [hasMif, Bool.or_eq_false_iff] at h
    rw [mifSplit]
    simp only [h.1, Bool.false_eq_true, dite_false]
    rw [ih _ h.2]
    simp

/-- `decode_mif_to_unicode` leaves every text alone that has no MIF match and does not begin with `\M+` (the only way the
    startswith quirk of `_decode_mif` can fire without a match) - in particular every text without the three characters `\M+` -/
theorem decode_mif_plain_text (pages : Nat → Option (Bytes → Option Str)) (s : Str)
    (hm : hasMif s = false) (hp : mifPrefix.isPrefixOf s = false) : decodeMifWith pages s = s := by
  unfold decodeMifWith
  rw [mifSplit_nomatch s [] hm]
  simp [decodeMifPartWith, hp]

/-- the strict decoder (MIF, `codec.decode(bytes)`) and the surrogateescape decoder (files) of a double-byte page agree
    wherever the strict one succeeds -/
theorem dbcs_strict_decoder_agrees (isLead : Nat → Bool) (lookup : Nat → Option Nat) (b : Bytes) (t : Str)
    (h : dbcsDecStrictWith isLead lookup b = some t) : dbcsDecWith isLead lookup b = t := by
  induction hn : b.length using Nat.strongRecOn generalizing b t with
  | _ n ih =>
    match b, h with
    | [], h => simp [dbcsDecStrictWith] at h; simp [dbcsDecWith, h]
    | [b0], h =>
      simp only [dbcsDecStrictWith] at h
      by_cases hl : isLead b0 = true
      · simp [hl] at h
      · simp only [hl, Bool.false_eq_true, if_false] at h
        cases hk : lookup b0 with
        | none => simp [hk] at h
        | some cp =>
          simp only [hk, Option.map_some, Option.some.injEq] at h
          simp [dbcsDecWith, hl, hk, h]
    | b0 :: b1 :: r, h =>
      simp only [dbcsDecStrictWith] at h
      by_cases hl : isLead b0 = true
      · simp only [hl, if_true] at h
        cases hk : lookup (b0 * 256 + b1) with
        | none => simp [hk] at h
        | some cp =>
          simp only [hk] at h
          cases hr : dbcsDecStrictWith isLead lookup r with
          | none => simp [hr] at h
          | some t' =>
            simp only [hr, Option.map_some, Option.some.injEq] at h
            have := ih r.length (by simp at hn; omega) r t' hr rfl
            simp [dbcsDecWith, hl, hk, this, h]
      · simp only [hl, Bool.false_eq_true, if_false] at h
        cases hk : lookup b0 with
        | none => simp [hk] at h
        | some cp =>
          simp only [hk] at h
          cases hr : dbcsDecStrictWith isLead lookup (b1 :: r) with
          | none => simp [hr] at h
          | some t' =>
            simp only [hr, Option.map_some, Option.some.injEq] at h
            have := ih (b1 :: r).length (by simp at hn ⊢; omega) (b1 :: r) t' hr rfl
            simp [dbcsDecWith, hl, hk, this, h]

/-- the four pages the source can decode are the regenerated tables (definitional unfolding of `mifPages`) -/
theorem mif_pages_resolve :
    mifPages dbcsTabs mifCodePage 49 = some (dbcsDecStrictWith (isLeadB cp932Tab.leads) (tabLookup cp932Tab.dec))
    ∧ mifPages dbcsTabs mifCodePage 50 = some (dbcsDecStrictWith (isLeadB cp950Tab.leads) (tabLookup cp950Tab.dec))
    ∧ mifPages dbcsTabs mifCodePage 51 = some (dbcsDecStrictWith (isLeadB cp949Tab.leads) (tabLookup cp949Tab.dec))
    ∧ mifPages dbcsTabs mifCodePage 53 = some (dbcsDecStrictWith (isLeadB gbkTab.leads) (tabLookup gbkTab.dec))
    ∧ (mifPages dbcsTabs mifCodePage 52).isNone = true := by
  exact ⟨rfl, rfl, rfl, rfl, rfl⟩

/-- the trail byte 0x5C really occurs in cp932, gbk and cp950 (so the two theorems above are not vacuous), and never in cp949 -/
theorem backslash_trail_bytes :
    (∃ e ∈ cp932Tab.encGood, ekey e = 0x955C ∧ ecp e = 0x8868)
    ∧ (∃ e ∈ gbkTab.encGood, ekey e = 0x815C ∧ ecp e = 0x4E57)
    ∧ (∃ e ∈ cp950Tab.encGood, ekey e = 0xA55C ∧ ecp e = 0x529F)
    ∧ cp949Tab.dec.all (fun e => decide (ekey e < 256) || !(ekey e % 256 == 0x5C)) = true := by
  refine ⟨⟨0x955C * 65536 + 0x8868, ?_, by decide, by decide⟩, ⟨0x815C * 65536 + 0x4E57, ?_, by decide, by decide⟩,
    ⟨0xA55C * 65536 + 0x529F, ?_, by decide, by decide⟩, by decide +kernel⟩
  · have : cp932Tab.encGood.elem (0x955C * 65536 + 0x8868) = true := by decide +kernel
    exact List.mem_of_elem_eq_true this
  · have : gbkTab.encGood.elem (0x815C * 65536 + 0x4E57) = true := by decide +kernel
    exact List.mem_of_elem_eq_true this
  · have : cp950Tab.encGood.elem (0xA55C * 65536 + 0x529F) = true := by decide +kernel
    exact List.mem_of_elem_eq_true this

/-! ### code points above U+FFFF under a legacy code page (outside the property's BMP quantifier) -/

private theorem hexDigit_lower_lt10 (d : Nat) (hd : d < 10) : hexDigit false d = 48 + d := by simp [hexDigit, hd]

/-- what the code does: `dxf_backslash_replace` writes `\U+%08x`; for planes 1..9 `decode_dxf_unicode` matches the
    first four digits `000p` and returns the control character U+000p followed by the remaining four hex digits -
    the character is NOT read back (no theorem of the property covers it: the quantifier is the BMP) -/
theorem astral_legacy_misdecoded (x : Nat) (h1 : 0x10000 ≤ x) (h2 : x < 0xA0000) :
    handler handlerFmt [x] = .ok (.str (escPrefix ++ hexFixed false 8 x))
    ∧ decodeDxfUnicode (escPrefix ++ hexFixed false 8 x) = (x / 65536) :: hexFixed false 4 x := by
  have e4 : hexFixed false 4 x = [hexDigit false (x / 4096 % 16), hexDigit false (x / 256 % 16),
      hexDigit false (x / 16 % 16), hexDigit false (x % 16)] := by
    simp [hexFixed, Nat.div_div_eq_div_mul]
  have z7 : x / 268435456 % 16 = 0 := by omega
  have z6 : x / 16777216 % 16 = 0 := by omega
  have z5 : x / 1048576 % 16 = 0 := by omega
  have z4 : x / 65536 % 16 = x / 65536 := by omega
  have hp : x / 65536 < 10 := by omega
  have e8 : hexFixed false 8 x = 48 :: 48 :: 48 :: (48 + x / 65536) :: hexFixed false 4 x := by
    rw [e4]
    simp [hexFixed, Nat.div_div_eq_div_mul, z7, z6, z5, z4, hexDigit_lower_lt10 _ hp]
    simp [hexDigit]
  constructor
  · rw [source_format_fixed]
    have hfind : fixedFmt.find x = some (.esc escPrefix 8 false) := by
      have a1 : ¬ x ≤ 56447 := by omega
      have a2 : (decide (56448 ≤ x) && decide (x ≤ 56575)) = false := by simp; omega
      have a3 : (decide (56576 ≤ x) && decide (x ≤ 65535)) = false := by simp; omega
      have a4 : (decide (65536 ≤ x) && decide (x ≤ 1114111)) = true := by simp; omega
      simp [Fmt.find, fixedFmt, List.find?, a1, a2, a3, a4]
    have hlen : pyHex false 8 x = hexFixed false 8 x := by
      unfold pyHex hexLen
      have : x.log2 / 4 + 1 ≤ 8 := by
        have : x.log2 < 20 := (Nat.log2_lt (by omega)).mpr (by omega)
        omega
      rw [Nat.max_eq_left this]
    simp [handler, handlerLoop, hfind, hlen]
  · rw [e8]
    have hm : matchAt (92 :: 85 :: 43 :: 48 :: 48 :: 48 :: (48 + x / 65536) :: hexFixed false 4 x)
        = some (hexFixed false 4 x) := by
      apply matchAt_mk <;> simp [isUpperHex] <;> omega
    have hlit : hasDxfUnicode (hexFixed false 4 x) = false := by
      rw [e4]; simp [hasDxfUnicode, matchAt]
    have hv : upperHexVal (48 + x / 65536) = x / 65536 := by
      unfold upperHexVal
      have : 48 + x / 65536 ≤ 57 := by omega
      simp [this]
    have hpart : decodePart [92, 85, 43, 48, 48, 48, 48 + x / 65536] = [x / 65536] := by
      have hm0 : matchAt [92, 85, 43, 48, 48, 48, 48 + x / 65536] = some [] := by
        apply matchAt_mk <;> simp [isUpperHex] <;> omega
      unfold decodePart
      rw [hm0]
      simp only [hv]
      simp [upperHexVal]
    unfold decodeDxfUnicode
    simp only [escPrefix, List.cons_append, List.nil_append]
    rw [reSplit_match _ _ _ _ hm, reSplit_lit _ [] hlit]
    simp only [List.take, List.flatMap_cons, List.flatMap_nil, List.nil_append, List.append_nil]
    rw [hpart, decodePart_lit _ hlit]
    simp [decodePart, matchAt]

private theorem hexFixed8_lower (x : Nat) :
    hexFixed false 8 x = [hexDigit false (x / 268435456 % 16), hexDigit false (x / 16777216 % 16),
      hexDigit false (x / 1048576 % 16), hexDigit false (x / 65536 % 16), hexDigit false (x / 4096 % 16),
      hexDigit false (x / 256 % 16), hexDigit false (x / 16 % 16), hexDigit false (x % 16)] := by
  simp [hexFixed, Nat.div_div_eq_div_mul]

/-- plane 16 (U+100000..U+10FFFF): the digits `0010` match, the result starts with U+0010 -/
theorem astral_legacy_misdecoded_plane16 (x : Nat) (h1 : 0x100000 ≤ x) (h2 : x ≤ 0x10FFFF) :
    decodeDxfUnicode (escPrefix ++ hexFixed false 8 x) = 16 :: hexFixed false 4 x := by
  have e4 : hexFixed false 4 x = [hexDigit false (x / 4096 % 16), hexDigit false (x / 256 % 16),
      hexDigit false (x / 16 % 16), hexDigit false (x % 16)] := by
    simp [hexFixed, Nat.div_div_eq_div_mul]
  have z7 : x / 268435456 % 16 = 0 := by omega
  have z6 : x / 16777216 % 16 = 0 := by omega
  have z5 : x / 1048576 % 16 = 1 := by omega
  have z4 : x / 65536 % 16 = 0 := by omega
  have e8 : hexFixed false 8 x = 48 :: 48 :: 49 :: 48 :: hexFixed false 4 x := by
    rw [hexFixed8_lower, e4, z7, z6, z5, z4]; simp [hexDigit]
  rw [e8]
  have hm : matchAt (92 :: 85 :: 43 :: 48 :: 48 :: 49 :: 48 :: hexFixed false 4 x) = some (hexFixed false 4 x) := by
    apply matchAt_mk <;> simp [isUpperHex]
  have hlit : hasDxfUnicode (hexFixed false 4 x) = false := by
    rw [e4]; simp [hasDxfUnicode, matchAt]
  have hpart : decodePart [92, 85, 43, 48, 48, 49, 48] = [16] := by decide
  unfold decodeDxfUnicode
  simp only [escPrefix, List.cons_append, List.nil_append]
  rw [reSplit_match _ _ _ _ hm, reSplit_lit _ [] hlit]
  simp only [List.take, List.flatMap_cons, List.flatMap_nil, List.nil_append, List.append_nil]
  rw [hpart, decodePart_lit _ hlit]
  simp [decodePart, matchAt]

/-- planes 10..15 (U+A0000..U+FFFFF): the fourth digit is a lower case letter, nothing matches, the escape text stays -/
theorem astral_legacy_left_as_text (x : Nat) (h1 : 0xA0000 ≤ x) (h2 : x < 0x100000) :
    decodeDxfUnicode (escPrefix ++ hexFixed false 8 x) = escPrefix ++ hexFixed false 8 x := by
  apply decode_nomatch
  have z4 : 10 ≤ x / 65536 % 16 := by omega
  have hd : hexDigit false (x / 65536 % 16) = 87 + x / 65536 % 16 := by
    have : ¬ (x / 65536 % 16 < 10) := by omega
    simp [hexDigit, this]
  have hnu : isUpperHex (87 + x / 65536 % 16) = false := by simp [isUpperHex]; omega
  have hne : ∀ d, d < 16 → hexDigit false d ≠ 92 := by
    intro d hd; unfold hexDigit; split <;> simp <;> omega
  have n1 := hne (x / 268435456 % 16) (Nat.mod_lt _ (by decide))
  have n2 := hne (x / 16777216 % 16) (Nat.mod_lt _ (by decide))
  rw [hexFixed8_lower, hd]
  simp [escPrefix, hasDxfUnicode, matchAt, hnu, n1, n2]

/-- summary: no code point above U+FFFF written under a legacy code page is read back (outside the BMP quantifier of
    the property; R2007+ files are not affected, see `utf8_identity`) -/
theorem astral_legacy_never_roundtrips (x : Nat) (h1 : 0x10000 ≤ x) (h2 : x ≤ 0x10FFFF) :
    decodeDxfUnicode (escPrefix ++ hexFixed false 8 x) ≠ [x] := by
  intro h
  have hlen := congrArg List.length h
  by_cases c1 : x < 0xA0000
  · rw [(astral_legacy_misdecoded x h1 c1).2] at hlen
    simp [hexFixed] at hlen
  · by_cases c2 : x < 0x100000
    · rw [astral_legacy_left_as_text x (by omega) c2] at hlen
      simp [hexFixed, escPrefix] at hlen
    · rw [astral_legacy_misdecoded_plane16 x (by omega) h2] at hlen
      simp [hexFixed] at hlen

/-- the recover branch too: `<trail 5C>M+1XXXX` is not a MIF escape after the code page was decoded -/
theorem trail_backslash_is_not_a_mif_escape : ∀ T ∈ dbcsTabs, ∀ (pages : Nat → Option (Bytes → Option Str)) (x k a b c d : Nat),
    dbcsGood T x → x ≠ 92 → isMifPage k = true →
    isUpperHex a = true → isUpperHex b = true → isUpperHex c = true → isUpperHex d = true →
    recoverText pages ((dbcsCodec T).dec (encAll (dbcsCodec T) [x, 77, 43, k, a, b, c, d])) = [x, 77, 43, k, a, b, c, d] := by
  intro T hT pages x k a b c d hx hne hk ha hb hc hd
  have L := dbcs_tables_lawful T hT
  have hex : ∀ z, isUpperHex z = true → dbcsGood T z := by
    intro z hz
    simp only [isUpperHex, decide_eq_true_eq] at hz
    exact (L.ascii z (by omega) (by omega)).1
  have hkg : dbcsGood T k := by
    simp only [isMifPage, decide_eq_true_eq] at hk
    exact (L.ascii k (by omega) (by omega)).1
  have hg : ∀ y ∈ [x, 77, 43, k, a, b, c, d], dbcsGood T y := by
    intro y hy
    simp only [List.mem_cons, List.not_mem_nil, or_false] at hy
    rcases hy with rfl | rfl | rfl | rfl | rfl | rfl | rfl | rfl
    · exact hx
    · exact (L.ascii 77 (by omega) (by omega)).1
    · exact (L.ascii 43 (by omega) (by omega)).1
    · exact hkg
    · exact hex _ ha
    · exact hex _ hb
    · exact hex _ hc
    · exact hex _ hd
  rw [L.dec_enc _ hg]
  have h1 : hasDxfUnicode [x, 77, 43, k, a, b, c, d] = false := by simp [hasDxfUnicode, matchAt, hne]
  have h2 : hasMif [x, 77, 43, k, a, b, c, d] = false := by simp [hasMif, mifAt, hne]
  simp [recoverText, h1, h2]

/-! ## Final round: whole Binary DXF files (composition with C03), consolidated astral statement, name respelling -/

/-- what a tag must satisfy: a code the format can frame; a text value under a string typed code, plain, without
    NUL/LF/CR and without best-fit characters; any other value within the width of its class (C03's `ValWF`) -/
def TextTagOK (c : Codec) (good : Nat → Prop) (t : TTag) : Prop :=
  t.code < 65536 ∧
  match t.val with
  | .text s => EzdxfVerif.Codec.writerCls t.code = .str
      ∧ (∀ x ∈ s, x ≤ 0xFFFF ∧ isEscSurrogate x = false ∧ (x ≠ 0 ∧ x ≠ 10 ∧ x ≠ 13) ∧ ((c.enc x).isSome → good x))
      ∧ hasDxfUnicode s = false
  | .raw v => EzdxfVerif.Props.C03.ValWF ⟨t.code, v⟩ ∧ (∀ b, v ≠ .str b)

private theorem encodeTag_ok (c : Codec) (good : Nat → Prop) (L : Lawful c good) (t : TTag) (h : TextTagOK c good t) :
    ∃ bt, encodeTag c fixedFmt t = .ok bt ∧ EzdxfVerif.Props.C03.TagOK' bt ∧ decodeTag c bt = t := by
  obtain ⟨code, val⟩ := t
  obtain ⟨hc, hv⟩ := h
  cases val with
  | text s =>
    simp only at hv hc
    obtain ⟨hcls, hs, hn⟩ := hv
    obtain ⟨b, hb, hdec⟩ := escape_roundtrip c good L s
      (fun x hx => ⟨(hs x hx).1, (hs x hx).2.1, (hs x hx).2.2.2⟩) hn
    obtain ⟨b', hb', hclean⟩ := encode_clean c good L s (fun x hx => ⟨(hs x hx).1, (hs x hx).2.1⟩)
      (fun x hx => (hs x hx).2.2.1)
    rw [hb] at hb'; cases hb'
    refine ⟨⟨code, .str b⟩, by simp [encodeTag, hb, Except.map], ⟨hc, ?_⟩, by simp [decodeTag, hdec]⟩
    unfold EzdxfVerif.Props.C03.ValWF
    simp only [hcls]
    exact fun y hy => (hclean y hy).1
  | raw v =>
    simp only at hv hc
    refine ⟨⟨code, v⟩, rfl, ⟨hc, hv.1⟩, ?_⟩
    cases v with
    | str b => exact absurd rfl (hv.2 b)
    | int _ => rfl
    | dbl _ => rfl
    | bin _ => rfl

/-- A whole Binary DXF tag stream, end to end (C09's codec theorems as the text layer of C03's `bin_file_roundtrip_all`):
    every string value is encoded with the document codec and the `dxfreplace` handler of the source, the tags are
    framed by `BinaryTagWriter` (both group code widths), `binary_tags_loader` reads the bytes back tag for tag, the
    codec decodes the string values and `decode_dxf_unicode` returns the texts - for every list of well-formed tags and
    every codec with the laws -/
theorem binary_file_text_roundtrip (c : Codec) (good : Nat → Prop) (L : Lawful c good) (r12 : Bool) (ts : List TTag)
    (h : ∀ t ∈ ts, TextTagOK c good t) :
    ∃ bts bytes, encodeTags c handlerFmt ts = .ok bts ∧ EzdxfVerif.Codec.encAll r12 bts = .ok bytes
      ∧ (∀ fuel, ts.length < fuel → EzdxfVerif.Codec.decAll r12 fuel bytes = .ok bts)
      ∧ bts.map (decodeTag c) = ts := by
  rw [source_format_fixed]
  have key : ∃ bts, encodeTags c fixedFmt ts = .ok bts ∧ (∀ bt ∈ bts, EzdxfVerif.Props.C03.TagOK' bt)
      ∧ bts.map (decodeTag c) = ts := by
    induction ts with
    | nil => exact ⟨[], rfl, by simp, rfl⟩
    | cons t r ih =>
      obtain ⟨bt, h1, h2, h3⟩ := encodeTag_ok c good L t (h t (by simp))
      obtain ⟨br, g1, g2, g3⟩ := ih (fun x hx => h x (by simp [hx]))
      refine ⟨bt :: br, by simp [encodeTags, h1, g1], ?_, by simp [h3, g3]⟩
      intro x hx
      rcases List.mem_cons.mp hx with rfl | hx
      · exact h2
      · exact g2 x hx
  obtain ⟨bts, e1, e2, e3⟩ := key
  obtain ⟨bytes, b1, b2⟩ := EzdxfVerif.Props.C03.bin_file_roundtrip_all r12 bts e2
  have hlen : bts.length = ts.length := by rw [← e3]; simp
  exact ⟨bts, bytes, e1, b1, fun fuel hf => b2 fuel (by omega), e3⟩

/-- ... instantiated for every one of the 14 code pages of the source's dict: no codec hypothesis left -/
theorem binary_file_text_roundtrip_all_pages (r12 : Bool) :
    (∀ p ∈ sbcsTables, ∀ ts : List TTag, (∀ t ∈ ts, TextTagOK (sbcsCodec p.2) (fun x => x ∈ p.2 ∧ x ≠ undef) t) →
      ∃ bts bytes, encodeTags (sbcsCodec p.2) handlerFmt ts = .ok bts ∧ EzdxfVerif.Codec.encAll r12 bts = .ok bytes
        ∧ (∀ fuel, ts.length < fuel → EzdxfVerif.Codec.decAll r12 fuel bytes = .ok bts)
        ∧ bts.map (decodeTag (sbcsCodec p.2)) = ts)
    ∧ (∀ T ∈ dbcsTabs, ∀ ts : List TTag, (∀ t ∈ ts, TextTagOK (dbcsCodec T) (dbcsGood T) t) →
      ∃ bts bytes, encodeTags (dbcsCodec T) handlerFmt ts = .ok bts ∧ EzdxfVerif.Codec.encAll r12 bts = .ok bytes
        ∧ (∀ fuel, ts.length < fuel → EzdxfVerif.Codec.decAll r12 fuel bytes = .ok bts)
        ∧ bts.map (decodeTag (dbcsCodec T)) = ts) :=
  ⟨fun p hp ts h => binary_file_text_roundtrip _ _ (sbcs_tables_lawful p hp) r12 ts h,
   fun T hT ts h => binary_file_text_roundtrip _ _ (dbcs_tables_lawful T hT) r12 ts h⟩

/-! whole ASCII DXF tag streams (composition with C03's `pairLines` / `parseInt_showCode`) -/

private theorem natDigits_printable (n : Nat) : ∀ y ∈ EzdxfVerif.Codec.natDigits n, 48 ≤ y ∧ y ≤ 57 := by
  induction n using Nat.strongRecOn with
  | _ n ih =>
    intro y hy
    rw [EzdxfVerif.Codec.natDigits] at hy
    by_cases h : n < 10
    · simp only [h, dite_true, List.mem_singleton, EzdxfVerif.Codec.digitChar] at hy
      omega
    · simp only [h, dite_false, List.mem_append, List.mem_singleton, EzdxfVerif.Codec.digitChar] at hy
      rcases hy with hy | hy
      · exact ih (n / 10) (by omega) y hy
      · omega

private theorem showCode_printable (c : Nat) : ∀ y ∈ EzdxfVerif.Codec.showCode c, 32 ≤ y ∧ y ≤ 126 := by
  intro y hy
  simp only [EzdxfVerif.Codec.showCode, List.mem_append, List.mem_replicate] at hy
  rcases hy with hy | hy
  · omega
  · have := natDigits_printable c y hy; omega

private theorem pairLines_esc (c : Codec) (ts : List (Nat × Str)) :
    EzdxfVerif.Codec.pairLines (ts.flatMap (fun t => [EzdxfVerif.Codec.showCode t.1, escStr c t.2]))
      = some (ts.map (fun t => (t.1, escStr c t.2))) := by
  induction ts with
  | nil => rfl
  | cons t r ih =>
    simp only [List.flatMap_cons, List.cons_append, List.nil_append, EzdxfVerif.Codec.pairLines,
      EzdxfVerif.Props.C03.parseInt_showCode, ih, List.map_cons]
    simp

/-- A whole ASCII DXF tag stream through the strict reader, end to end: the text `"%3d\n%s\n"` per tag is encoded with
    the document codec and the handler of the source, the reader decodes the whole file, splits it into lines, pairs
    them up (`int(code line)`, C03's model) and `decode_dxf_unicode` returns every value - for every list of tags whose
    values are plain single-line texts, and every codec with the laws that encodes LF as 0x0A -/
theorem ascii_file_text_roundtrip (c : Codec) (good : Nat → Prop) (L : Lawful c good)
    (hlf : good 10 ∧ c.enc 10 = some [10]) (ts : List (Nat × Str))
    (hs : ∀ t ∈ ts, (∀ x ∈ t.2, x ≤ 0xFFFF ∧ isEscSurrogate x = false ∧ x ≠ 10 ∧ ((c.enc x).isSome → good x))
      ∧ hasDxfUnicode t.2 = false) :
    ∃ b, encode c handlerFmt (asciiFileText ts) = .ok b ∧ asciiReadTags (c.dec b) = some ts := by
  rw [source_format_fixed]
  have hsome : (c.enc 10).isSome := by simp [hlf.2]
  have hcode : ∀ k y, y ∈ EzdxfVerif.Codec.showCode k → (c.enc y).isSome ∧ good y ∧ y ≠ 10 ∧ y ≤ 0xFFFF
      ∧ isEscSurrogate y = false := by
    intro k y hy
    have hp := showCode_printable k y hy
    have ha := L.ascii y hp.1 hp.2
    refine ⟨by simp [ha.2], ha.1, by omega, by omega, ?_⟩
    simp [isEscSurrogate]; omega
  have hall : ∀ x ∈ asciiFileText ts, x ≤ 0xFFFF ∧ isEscSurrogate x = false ∧ ((c.enc x).isSome → good x) := by
    intro x hx
    simp only [asciiFileText, joinSep, List.mem_flatMap, List.mem_append, List.mem_cons,
      List.not_mem_nil, or_false] at hx
    obtain ⟨v, ⟨t, ht, hv⟩, hxv | hxv⟩ := hx
    · rcases hv with rfl | rfl
      · have := hcode t.1 x hxv
        exact ⟨this.2.2.2.1, this.2.2.2.2, fun _ => this.2.1⟩
      · have := (hs t ht).1 x hxv
        exact ⟨this.1, this.2.1, this.2.2.2⟩
    · subst hxv
      exact ⟨by omega, by decide, fun _ => hlf.1⟩
  refine ⟨_, encode_eq_escStr c good L _ (fun x hx => ⟨(hall x hx).1, (hall x hx).2.1⟩), ?_⟩
  rw [L.dec_enc _ (escStr_good c good L _ (fun x hx => (hall x hx).2.2))]
  unfold asciiFileText asciiReadTags
  rw [escStr_joinSep c 10 hsome]
  have hmapg : ∀ l : List (Nat × Str), (l.flatMap (fun t => [EzdxfVerif.Codec.showCode t.1, t.2])).map (escStr c)
      = l.flatMap (fun t => [EzdxfVerif.Codec.showCode t.1, escStr c t.2]) := by
    intro l
    induction l with
    | nil => rfl
    | cons t r ih =>
      have hid : escStr c (EzdxfVerif.Codec.showCode t.1) = EzdxfVerif.Codec.showCode t.1 :=
        escStr_all_encodable c _ (fun y hy => (hcode t.1 y hy).1)
      simp only [List.flatMap_cons, List.map_append, List.map_cons, List.map_nil, hid, ih]
  have hmap := hmapg ts
  rw [hmap, splitOn_joinSep 10 _ (by
    intro w hw
    simp only [List.mem_flatMap, List.mem_cons, List.not_mem_nil, or_false] at hw
    obtain ⟨t, ht, rfl | rfl⟩ := hw
    · exact fun hm => (hcode t.1 10 hm).2.2.1 rfl
    · exact not_mem_escStr c 10 (by omega) t.2 (fun hm => ((hs t ht).1 10 hm).2.2.1 rfl))]
  simp only [List.dropLast_concat, pairLines_esc, Option.map_some, List.map_map]
  congr 1
  calc ts.map ((fun p => (p.1, decodeDxfUnicode p.2)) ∘ fun t => (t.1, escStr c t.2)) = ts.map id := by
        apply List.map_congr_left
        intro t ht
        simp only [Function.comp, id]
        rw [unescape_escStr c t.2 (hs t ht).2 (fun x hx => ((hs t ht).1 x hx).1)]
    _ = ts := by simp

/-- ... for every one of the 14 code pages (no codec hypothesis; the LF side condition is `lf_encodes_itself`) -/
theorem ascii_file_text_roundtrip_all_pages :
    (∀ p ∈ sbcsTables, ∀ ts : List (Nat × Str),
      (∀ t ∈ ts, (∀ x ∈ t.2, x ≤ 0xFFFF ∧ isEscSurrogate x = false ∧ x ≠ 10) ∧ hasDxfUnicode t.2 = false) →
      ∃ b, encode (sbcsCodec p.2) handlerFmt (asciiFileText ts) = .ok b ∧ asciiReadTags ((sbcsCodec p.2).dec b) = some ts)
    ∧ (∀ T ∈ dbcsTabs, ∀ ts : List (Nat × Str),
      (∀ t ∈ ts, (∀ x ∈ t.2, x ≤ 0xFFFF ∧ isEscSurrogate x = false ∧ x ≠ 10 ∧ x ∉ lossyCps T) ∧ hasDxfUnicode t.2 = false) →
      ∃ b, encode (dbcsCodec T) handlerFmt (asciiFileText ts) = .ok b ∧ asciiReadTags ((dbcsCodec T).dec b) = some ts) := by
  constructor
  · intro p hp ts h
    refine ascii_file_text_roundtrip _ _ (sbcs_tables_lawful p hp) (lf_encodes_itself.1 p hp) ts ?_
    intro t ht
    refine ⟨fun x hx => ⟨((h t ht).1 x hx).1, ((h t ht).1 x hx).2.1, ((h t ht).1 x hx).2.2, ?_⟩, (h t ht).2⟩
    intro he
    simp only [sbcsCodec] at he
    split at he
    · cases he
    · rename_i hne
      refine ⟨idxOf_some_mem x p.2 ?_, hne⟩
      cases hi : idxOf x p.2 <;> simp [hi] at he ⊢
  · intro T hT ts h
    refine ascii_file_text_roundtrip _ _ (dbcs_tables_lawful T hT) (lf_encodes_itself.2 T hT) ts ?_
    intro t ht
    exact ⟨fun x hx => ⟨((h t ht).1 x hx).1, ((h t ht).1 x hx).2.1, ((h t ht).1 x hx).2.2.1,
      dbcs_good_of_not_lossy T x ((h t ht).1 x hx).2.2.2⟩, (h t ht).2⟩

/-! code points above U+FFFF under a legacy code page: the consolidated statement through the whole pipeline -/

private theorem hexDigit_lower_printable (d : Nat) (hd : d < 16) : 32 ≤ hexDigit false d ∧ hexDigit false d ≤ 126 := by
  unfold hexDigit
  by_cases h : d < 10
  · simp only [h, if_true]; omega
  · simp only [h, if_false, Bool.false_eq_true]; omega

private theorem esc8_printable (x : Nat) : ∀ y ∈ escPrefix ++ hexFixed false 8 x, 32 ≤ y ∧ y ≤ 126 := by
  intro y hy
  rw [hexFixed8_lower] at hy
  simp only [escPrefix, List.cons_append, List.nil_append, List.mem_cons, List.not_mem_nil, or_false] at hy
  have p := fun d (h : d < 16) => hexDigit_lower_printable d h
  have m : ∀ n, n % 16 < 16 := fun n => Nat.mod_lt _ (by decide)
  rcases hy with h | h | h | h | h | h | h | h | h | h | h
  · omega
  · omega
  · omega
  all_goals (rw [h]; exact p _ (m _))

private theorem handler_astral (x : Nat) (h1 : 0x10000 ≤ x) (h2 : x ≤ 0x10FFFF) :
    handler fixedFmt [x] = .ok (.str (escPrefix ++ hexFixed false 8 x)) := by
  have hfind : fixedFmt.find x = some (.esc escPrefix 8 false) := by
    have a1 : ¬ x ≤ 56447 := by omega
    have a2 : (decide (56448 ≤ x) && decide (x ≤ 56575)) = false := by simp; omega
    have a3 : (decide (56576 ≤ x) && decide (x ≤ 65535)) = false := by simp; omega
    have a4 : (decide (65536 ≤ x) && decide (x ≤ 1114111)) = true := by simp; omega
    simp [Fmt.find, fixedFmt, List.find?, a1, a2, a3, a4]
  have hlen : pyHex false 8 x = hexFixed false 8 x := by
    unfold pyHex hexLen
    have : x.log2 / 4 + 1 ≤ 8 := by
      have : x.log2 < 21 := (Nat.log2_lt (by omega)).mpr (by omega)
      omega
    rw [Nat.max_eq_left this]
  simp [handler, handlerLoop, hfind, hlen]

/-- THE statement for code points above U+FFFF under a legacy code page (any codec with the laws that cannot encode
    `x`, i.e. every one of the 14 pages): `x` is written as the eleven ASCII bytes `\U+%08x`; the codec reads them back as
    that text; `decode_dxf_unicode` then returns U+000p + four hex digits (planes 1-9), the unchanged escape text
    (planes 10-15: the fourth digit is a lower case letter), or U+0010 + four hex digits (plane 16) - never `x` -/
theorem astral_legacy_pipeline (c : Codec) (good : Nat → Prop) (L : Lawful c good) (x : Nat)
    (h1 : 0x10000 ≤ x) (h2 : x ≤ 0x10FFFF) (hx : c.enc x = none) :
    encode c handlerFmt [x] = .ok (escPrefix ++ hexFixed false 8 x)
    ∧ c.dec (escPrefix ++ hexFixed false 8 x) = escPrefix ++ hexFixed false 8 x
    ∧ decodeDxfUnicode (c.dec (escPrefix ++ hexFixed false 8 x))
        = (if x < 0xA0000 then (x / 65536) :: hexFixed false 4 x
           else if x < 0x100000 then escPrefix ++ hexFixed false 8 x else 16 :: hexFixed false 4 x)
    ∧ decodeDxfUnicode (c.dec (escPrefix ++ hexFixed false 8 x)) ≠ [x] := by
  have hp := esc8_printable x
  have hdec : c.dec (escPrefix ++ hexFixed false 8 x) = escPrefix ++ hexFixed false 8 x := by
    have := L.dec_enc (escPrefix ++ hexFixed false 8 x) (fun y hy => (L.ascii y (hp y hy).1 (hp y hy).2).1)
    rw [encAll_ascii c good L _ hp] at this
    exact this
  refine ⟨?_, hdec, ?_, ?_⟩
  · rw [source_format_fixed]
    have hfl : flush c fixedFmt [x] = .ok (escPrefix ++ hexFixed false 8 x) := by
      simp only [flush, List.isEmpty_cons, Bool.false_eq_true, if_false, handler_astral x h1 h2]
      exact encStrict_ascii c good L _ hp
    cases hg : c.grouped with
    | true => simp [encode, encodeAux, hx, hg, hfl]
    | false =>
      have hnil : flush c fixedFmt [] = .ok [] := by simp [flush]
      simp only [encode, encodeAux, hx, hg, Bool.false_eq_true, if_false, hfl, hnil, Except.map, List.append_nil]
  · rw [hdec]
    by_cases c1 : x < 0xA0000
    · simp only [c1, if_true]; exact (astral_legacy_misdecoded x h1 c1).2
    · by_cases c2 : x < 0x100000
      · simp only [c1, c2, if_true, if_false]; exact astral_legacy_left_as_text x (by omega) c2
      · simp only [c1, c2, if_false]; exact astral_legacy_misdecoded_plane16 x (by omega) h2
  · rw [hdec]; exact astral_legacy_never_roundtrips x h1 h2

/-! `$DWGCODEPAGE` respelled character by character -/

private theorem map_eq_digits (f : Nat → Nat) (hfix : ∀ x, isDigitCp x = true → f x = x)
    (hno : ∀ x, isDigitCp x = false → isDigitCp (f x) = false) (k : Str) (hk : ∀ x ∈ k, isDigitCp x = true) :
    ∀ s : Str, s.map f = k ↔ s = k := by
  induction k with
  | nil => intro s; simp
  | cons d k ih =>
    intro s
    cases s with
    | nil => simp
    | cons a s =>
      have hd := hk d (by simp)
      have ih' := ih (fun x hx => hk x (by simp [hx])) s
      simp only [List.map_cons, List.cons.injEq, ih']
      constructor
      · rintro ⟨h1, h2⟩
        refine ⟨?_, h2⟩
        cases ha : isDigitCp a with
        | true => rw [hfix a ha] at h1; exact h1
        | false =>
          have := hno a ha
          rw [h1, hd] at this; cases this
      · rintro ⟨h1, h2⟩
        exact ⟨by rw [h1, hfix d hd], h2⟩

private theorem keys_are_digits : codepageToEncoding.all (fun p => p.1.all isDigitCp) = true := by decide +kernel

/-- every registered name is insensitive to case and to any other per-character respelling that leaves digits alone:
    `toencoding(f(name)) = toencoding(name)` for EVERY string `name` (`ANSI_932` = `ansi_932` = `Ansi_932` = `ａｎｓｉ_932`);
    the table keys consist of digits only and only the suffix is compared -/
theorem toencoding_respelling (f : Nat → Nat) (hfix : ∀ x, isDigitCp x = true → f x = x)
    (hno : ∀ x, isDigitCp x = false → isDigitCp (f x) = false) (name : Str) :
    toencoding codepageToEncoding (name.map f) = toencoding codepageToEncoding name := by
  unfold toencoding
  have hpred : ∀ p ∈ codepageToEncoding, endsWith (name.map f) p.1 = endsWith name p.1 := by
    intro p hp
    have hk : ∀ x ∈ p.1, isDigitCp x = true := by
      have := List.all_eq_true.mp keys_are_digits p hp
      exact fun x hx => List.all_eq_true.mp this x hx
    have hiff := map_eq_digits f hfix hno p.1 hk
    unfold endsWith
    rw [Bool.eq_iff_iff, List.isSuffixOf_iff_suffix, List.isSuffixOf_iff_suffix]
    rw [List.suffix_iff_eq_drop, List.suffix_iff_eq_drop]
    simp only [List.length_map]
    rw [← List.map_drop]
    constructor
    · intro h; exact ((hiff _).mp h.symm).symm
    · intro h; exact ((hiff _).mpr h.symm).symm
  have : codepageToEncoding.find? (fun p => endsWith (name.map f) p.1)
      = codepageToEncoding.find? (fun p => endsWith name p.1) := by
    have gen : ∀ l : Dict, (∀ p ∈ l, endsWith (name.map f) p.1 = endsWith name p.1) →
        l.find? (fun p => endsWith (name.map f) p.1) = l.find? (fun p => endsWith name p.1) := by
      intro l
      induction l with
      | nil => intro _; rfl
      | cons a r ih =>
        intro hl
        simp only [List.find?_cons, hl a (by simp), ih (fun p hp => hl p (by simp [hp]))]
    exact gen _ hpred
  rw [this]

/-! ## non-vacuity: concrete values meet the hypotheses and the statements compute -/

-- "x€ä" under cp1251 with the fixed handler: € = 0x88 is encodable, ä is escaped, and decoded again
#guard encode (sbcsCodec cp1251Table) fixedFmt [120, 0x20AC, 0xE4] == .ok [120, 0x88, 92, 85, 43, 48, 48, 69, 52]
#guard decodeDxfUnicode ((sbcsCodec cp1251Table).dec [120, 0x88, 92, 85, 43, 48, 48, 69, 52]) == [120, 0x20AC, 0xE4]
#guard recoverStr ((sbcsCodec cp1251Table).dec [120, 0x88, 92, 85, 43, 48, 48, 69, 52]) == .text [120, 0x20AC, 0xE4]
-- the same string under the pre-fix handler is not recovered
#guard encode (sbcsCodec cp1251Table) legacyFmt [120, 0x20AC, 0xE4] == .ok [120, 0x88, 92, 120, 101, 52]
#guard decodeDxfUnicode ((sbcsCodec cp1251Table).dec [120, 0x88, 92, 120, 101, 52]) != [120, 0x20AC, 0xE4]
-- the hypotheses of `escape_roundtrip` are met by a non-trivial string (BMP, no U+DC80..DCFF, no literal escape;
-- the text `\U+` itself may occur: since fix 3fc8e70de only a full `\U+XXXX` is converted)
example : hasDxfUnicode [92, 85, 43, 120, 0x20AC, 0xE4, 43, 92, 85, 43, 50, 48, 97] = false := by decide
#guard decodeDxfUnicode (asciiCodec.dec ((encode asciiCodec fixedFmt [92, 85, 43, 120, 0x20AC]).toOption.getD [])) == [92, 85, 43, 120, 0x20AC]
example : ∀ x ∈ [92, 85, 120, 0x20AC, 0xE4, 43], x ≤ 0xFFFF ∧ isEscSurrogate x = false := by decide
-- and they are needed: a literal `\U+0041` is decoded to "A" (so it cannot round-trip)
#guard decodeDxfUnicode [92, 85, 43, 48, 48, 52, 49] == [65]
example : hasDxfUnicode [92, 85, 43, 48, 48, 52, 49] = true := by decide
-- U+DC80..DCFF is passed through as a raw byte (surrogateescape), not escaped
#guard encode asciiCodec fixedFmt [0xDC80] == .ok [0x80]
-- UTF-8: model encoder/decoder on a 1-, 2-, 3- and 4-byte character; a lone surrogate is escaped
#guard encode utf8Codec fixedFmt [65, 0xE4, 0x20AC, 0x1F600] == .ok [65, 0xC3, 0xA4, 0xE2, 0x82, 0xAC, 0xF0, 0x9F, 0x98, 0x80]
#guard utf8Dec [65, 0xC3, 0xA4, 0xE2, 0x82, 0xAC, 0xF0, 0x9F, 0x98, 0x80, 0xC0, 0x80] == [65, 0xE4, 0x20AC, 0x1F600, 0xDCC0, 0xDC80]
#guard encode utf8Codec fixedFmt [0xD800] == .ok [92, 85, 43, 68, 56, 48, 48]
-- raw bytes: an undecodable byte sequence read as UTF-8 is written back unchanged
#guard utf8Dec [0x41, 0xFF, 0xC3, 0xA4, 0xC0, 0x80] == [0x41, 0xDCFF, 0xE4, 0xDCC0, 0xDC80]
#guard encode utf8Codec legacyFmt [0x41, 0xDCFF, 0xE4, 0xDCC0, 0xDC80] == .ok [0x41, 0xFF, 0xC3, 0xA4, 0xC0, 0x80]
-- `Lawful` is inhabited for a real code page table
example : Lawful (sbcsCodec cp1252Table) (fun x => x ∈ cp1252Table ∧ x ≠ undef) :=
  sbcs_lawful cp1252Table (by decide +kernel)
-- Session 3 ------------------------------------------------------------------------------------------------
-- `Plain` is met by a string with `\U+` text, non-encodable and encodable characters
example : Plain [92, 85, 43, 120, 0x20AC, 0xE4, 0x8868, 85, 43, 48, 48, 52, 49] :=
  ⟨by decide, by decide⟩
-- cp932: U+8868 is written 95 5C (trail byte = backslash); followed by "U+0041" the FILE contains `\U+0041`
#guard (dbcsCodec cp932Tab).enc 0x8868 == some [0x95, 0x5C]
#guard encode (dbcsCodec cp932Tab) fixedFmt [0x8868, 85, 43, 48, 48, 52, 49] == .ok [0x95, 92, 85, 43, 48, 48, 52, 49]
-- both readers return the text (the code page is decoded before the escape search) ...
#guard decodeDxfUnicode ((dbcsCodec cp932Tab).dec [0x95, 92, 85, 43, 48, 48, 52, 49]) == [0x8868, 85, 43, 48, 48, 52, 49]
#guard recoverStr ((dbcsCodec cp932Tab).dec [0x95, 92, 85, 43, 48, 48, 52, 49]) == .text [0x8868, 85, 43, 48, 48, 52, 49]
-- ... whereas the same bytes read with the WRONG code page contain an escape and are altered (the classic bug class)
#guard decodeDxfUnicode ((sbcsCodec cp1252Table).dec [0x95, 92, 85, 43, 48, 48, 52, 49]) == [0x2022, 65]
-- gbk and cp950 have trail byte 0x5C too, cp949 has not
#guard (dbcsCodec gbkTab).enc 0x4E57 == some [0x81, 0x5C]
#guard (dbcsCodec cp950Tab).enc 0x529F == some [0xA5, 0x5C]
#guard cp949Tab.dec.all (fun e => ekey e % 256 != 0x5C || ekey e < 256)
#guard (dbcsCodec cp932Tab).dec [0x95, 0x5C, 0x41, 0xB1, 0x81] == [0x8868, 0x41, 0xFF71, 0xDC81]
-- a best-fit character is written unescaped and read back as another one (known finding F15): the exclusion is needed
#guard (dbcsCodec cp932Tab).enc 0xA2 == some [0x81, 0x91]
#guard (dbcsCodec cp932Tab).dec [0x81, 0x91] == [0xFFE0]
-- a character no double-byte page has is escaped and comes back
#guard decodeDxfUnicode ((dbcsCodec gbkTab).dec ((encode (dbcsCodec gbkTab) fixedFmt [0x4E57, 0x0E01, 92]).toOption.getD [])) == [0x4E57, 0x0E01, 92]
-- the sizes of the regenerated tables (decoder entries, faithful encoder entries)
#guard (cp932Tab.dec.length, cp932Tab.encGood.length) == (9800, 9402)
#guard (gbkTab.dec.length, gbkTab.encGood.length) == (21919, 21919)
#guard (cp949Tab.dec.length, cp949Tab.encGood.length) == (17176, 17176)
#guard (cp950Tab.dec.length, cp950Tab.encGood.length) == (13880, 13870)
-- single-byte tables: an undefined byte (0x81 in cp1252) and a defined one survive bytes -> str -> bytes
#guard (sbcsCodec cp1252Table).dec [0x41, 0x80, 0x81] == [0x41, 0x20AC, 0xDC81]
#guard encode (sbcsCodec cp1252Table) fixedFmt [0x41, 0x20AC, 0xDC81] == .ok [0x41, 0x80, 0x81]
-- astral character under a legacy code page: written `\U+0001f600`, read back as U+0001 "f600"
#guard encode asciiCodec fixedFmt [0x1F600] == .ok [92, 85, 43, 48, 48, 48, 49, 102, 54, 48, 48]
#guard decodeDxfUnicode [92, 85, 43, 48, 48, 48, 49, 102, 54, 48, 48] == [1, 102, 54, 48, 48]
-- MIF: `\M+5D7DF` (cp936 = gbk) is U+8D70; page 4 is left alone; a part that merely starts with `\M+1` is converted too (quirk)
#guard decodeMifWith (mifPages dbcsTabs mifCodePage) [92, 77, 43, 53, 68, 55, 68, 70] == [0x8D70]
#guard decodeMifWith (mifPages dbcsTabs mifCodePage) [92, 77, 43, 52, 68, 55, 68, 70] == [92, 77, 43, 52, 68, 55, 68, 70]
#guard decodeMifWith (mifPages dbcsTabs mifCodePage) [92, 77, 43, 49, 52, 49] == [65]
#guard recoverText (mifPages dbcsTabs mifCodePage) [42, 92, 77, 43, 53, 68, 55, 68, 70, 42] == [42, 0x8D70, 42]
example : isMifPage 53 = true := by decide
-- framing: two values in one cp932 "file", the first one ends with the trail byte 0x5C, the second needs an escape
#guard (splitOn 10 ((dbcsCodec cp932Tab).dec ((encode (dbcsCodec cp932Tab) fixedFmt (joinSep 10 [[0x8868], [65, 0x20AC]])).toOption.getD []))).map decodeDxfUnicode == [[0x8868], [65, 0x20AC], []]
#guard splitOn 0 (joinSep 0 [[0x95, 0x5C], [65]]) == [[0x95, 0x5C], [65], []]
#guard splitOn 10 [1, 10, 10, 2] == [[1], [], [2]]
example : ([65, 67, 49, 48, 49, 53], false) ∈ acadVersions ∧ ([65, 67, 49, 48, 50, 49], true) ∈ acadVersions := by decide
-- byte level line end conversion: cp932 U+8868 = 95 5C, LF -> CRLF -> LF
#guard crlfToLf (lfToCrlf [0x95, 0x5C, 10, 65, 10]) == [0x95, 0x5C, 10, 65, 10]
#guard lfToCrlf [65, 10] == [65, 13, 10]
#guard crlfToLf [13, 13, 10, 13] == [13, 10, 13]
example : hasMif [65, 92, 77, 43, 49, 52, 49] = false ∧ mifPrefix.isPrefixOf [65, 92, 77, 43, 49, 52, 49] = false := by decide
-- writer: a document loaded from a cp1252 file, switched to cp1251 and saved as R2000 says ANSI_1251 and is cp1251
#guard writeDoc encodingToCodepage ⟨true, [65, 67, 49, 48, 49, 53], [99, 112, 49, 50, 53, 49], [65, 78, 83, 73, 95, 49, 50, 53, 50]⟩
  == ⟨[65, 67, 49, 48, 49, 53], [65, 78, 83, 73, 95, 49, 50, 53, 49], [99, 112, 49, 50, 53, 49]⟩
-- write_str: "  9\n$MENU\n  1\na<U+2028>b\n" is one header variable name and one value
#guard writeStrTags [32, 57, 10, 36, 77, 10, 49, 10, 97, 0x2028, 98, 10] == [([32, 57], [36, 77]), ([49], [97, 0x2028, 98])]
-- final round: U+1F600 cannot be encoded by any of the pages (hypothesis of astral_legacy_pipeline); a tag list meets TextTagOK
example : (sbcsCodec cp1252Table).enc 0x1F600 = none ∧ (dbcsCodec cp932Tab).enc 0x1F600 = none := by decide +kernel
example : TextTagOK asciiCodec (fun x => x < 128) ⟨1, .text [65, 0x20AC]⟩ ∧ TextTagOK asciiCodec (fun x => x < 128) ⟨70, .raw (.int 5)⟩ := by
  refine ⟨⟨by decide, by decide, by decide, by decide⟩, ⟨by decide, ?_, by intro b h; cases h⟩⟩
  simp [EzdxfVerif.Props.C03.ValWF, EzdxfVerif.Codec.writerCls, EzdxfVerif.Codec.isBinary, EzdxfVerif.Codec.isBytes,
    EzdxfVerif.Codec.isInt16, EzdxfVerif.Codec.inR]
#guard toencoding codepageToEncoding ([65, 78, 83, 73, 95, 57, 51, 50].map (fun x => if 65 ≤ x ∧ x ≤ 90 then x + 32 else x)) == [99, 112, 57, 51, 50]
#guard asciiReadTags (asciiFileText [(1, [65, 66]), (70, [53])]) == some [(1, [65, 66]), (70, [53])]
#guard asciiFileText [(1, [65])] == [32, 32, 49, 10, 65, 10]
-- the name tables are not empty
example : toencoding codepageToEncoding [65, 78, 83, 73, 95, 57, 51, 54] = [103, 98, 107] := by decide
example : tocodepage encodingToCodepage [103, 98, 107] = [65, 78, 83, 73, 95, 57, 51, 54] := by decide

end EzdxfVerif.Props.C09
